(** C07 — bare-LF line ends: the printed request with any mix of CRLF / LF line ends parses to the same request. *)
From KV Require Export Bytes RustInt Http1Read Http1ReadProofs Http1ReadParseProofs.
From Coq Require Import ZifyBool ZifyNat ZifyN.
Open Scope N_scope.
Local Open Scope nat_scope.



Lemma eol_length lf : length (eol lf) = if lf then 1 else 2.
Proof. destruct lf; reflexivity. Qed.

Lemma print_hlines_e_crlf hs : print_hlines_e [] hs = concat (map print_hline hs).
Proof. induction hs as [|h hs IH]; [reflexivity|]. cbn [print_hlines_e hd tl map concat]. rewrite IH. reflexivity. Qed.

Lemma print_head_e_crlf g : print_head_e false [] false g = print_head g.
Proof. unfold print_head_e, print_head. rewrite print_hlines_e_crlf. reflexivity. Qed.

(** * One header line with either line end *)

Lemma value_ok_head' v c post : value_ok v = true -> N.eqb c SP = false ->
  match v ++ c :: post with c' :: _ => N.eqb c' SP = false | [] => False end.
Proof.
  unfold value_ok. intros H Hc. apply andb_true_iff in H as [_ H]. destruct v as [|c0 v]; cbn [app]; [exact Hc|].
  apply negb_true_iff in H. exact H.
Qed.

Lemma eol_head lf post : exists c r, eol lf ++ post = c :: r /\ N.eqb c SP = false.
Proof. destruct lf; cbn [eol app]; eexists; eexists; split; reflexivity. Qed.

Lemma prev_not_cr (pre X rest : bytes) : forallb no_crlf X = true -> X <> [] ->
  prev_is_cr (pre ++ X ++ rest) (length pre + length X) = false.
Proof.
  intros HX Hne. unfold prev_is_cr.
  destruct X as [|x0 X']; [contradiction|]. cbn [length]. replace (length pre + S (length X')) with (S (length pre + length X')) by lia.
  rewrite nth_error_app2 by lia. replace (length pre + length X' - length pre) with (length X') by lia.
  rewrite nth_error_app1 by (cbn [length]; lia).
  destruct (nth_error (x0 :: X') (length X')) as [c|] eqn:E; [|reflexivity].
  apply nth_error_In in E. rewrite forallb_forall in HX. apply HX in E. apply no_crlf_spec in E. tauto.
Qed.

Lemma hdr_line_e all pre name k value lfl post :
  all = pre ++ name ++ [COLON] ++ repeat SP k ++ value ++ eol lfl ++ post ->
  name_ok name = true -> value_ok value = true ->
  forall lf ne vs m,
  hdr_loop all (name ++ [COLON] ++ repeat SP k ++ value ++ eol lfl ++ post) (length pre) false lf (length pre) ne vs m =
  hdr_loop all post (length pre + (length name + 1 + k + length value + length (eol lfl))) false 1
           (length pre + (length name + 1 + k + length value + length (eol lfl)))
           (length pre + length name) (length pre + length name + 1 + k)
           (hm_insert (lower name) value m).
Proof.
  intros Hall Hn Hv lf ne vs m.
  pose proof (name_ok_header_name _ Hn) as Hhn.
  assert (Hn' := Hn). unfold name_ok in Hn'. apply andb_true_iff in Hn' as [Hn' _]. apply andb_true_iff in Hn' as [Hnn Hnt].
  destruct name as [|c0 name']; [discriminate|]. assert (Hnt' := Hnt). cbn [forallb] in Hnt. apply andb_true_iff in Hnt as [Hc0 Hnt].
  set (name := c0 :: name') in *.
  set (P := length pre). set (pos1 := P + length name).
  unfold name at 1. rewrite hdr_name_chunk by assumption.
  replace (P + S (length name')) with pos1 by (subst pos1 name; cbn [length]; lia).
  cbn [app]. rewrite hdr_step_colon.
  assert (Hall1 : all = (pre ++ name ++ [COLON]) ++ repeat SP k ++ value ++ eol lfl ++ post).
  { rewrite Hall. rewrite <- !app_assoc. reflexivity. }
  assert (Hl1 : length (pre ++ name ++ [COLON]) = S pos1).
  { rewrite !app_length. cbn [length]. subst pos1 P. lia. }
  assert (Hname : slice_get P pos1 all = Some name).
  { rewrite Hall. apply slice_get_mid; subst pos1 P; reflexivity. }
  assert (Hall2 : all = (pre ++ name ++ [COLON] ++ repeat SP k) ++ value ++ eol lfl ++ post).
  { rewrite Hall. rewrite <- !app_assoc. reflexivity. }
  assert (Hl2 : length (pre ++ name ++ [COLON] ++ repeat SP k) = pos1 + 1 + k).
  { rewrite !app_length, repeat_length. cbn [length]. subst pos1 P. lia. }
  assert (Hval : slice_chk (pos1 + 1 + k) (pos1 + 1 + k + length value) all = Ok value).
  { rewrite Hall2. apply slice_chk_mid; [symmetry; exact Hl2|reflexivity]. }
  set (X := name ++ [COLON] ++ repeat SP k ++ value).
  assert (HXc : forallb no_crlf X = true).
  { unfold X. rewrite !forallb_app. rewrite (forallb_imp tchar no_crlf _ tchar_no_crlf Hnt').
    rewrite forallb_repeat by reflexivity. rewrite (value_ok_no_crlf _ Hv). reflexivity. }
  assert (HXl : length X = length name + 1 + k + length value).
  { unfold X. rewrite !app_length, repeat_length. cbn [length]. lia. }
  assert (Hall3 : all = pre ++ X ++ eol lfl ++ post).
  { rewrite Hall. unfold X. rewrite <- !app_assoc. reflexivity. }
  destruct (eol_head lfl post) as [ce [re [Heol Hce]]].
  pose proof (value_ok_head' value ce re Hv Hce) as Hhead. rewrite <- Heol in Hhead.
  pose proof (value_ok_hvalue _ Hv) as Hhv.
  pose proof (value_ok_no_crlf _ Hv) as Hvc.
  assert (Htail : forall vs0, vs0 = pos1 + 1 + k ->
    hdr_loop all (eol lfl ++ post) (pos1 + 1 + k + length value) true 0 P pos1 vs0 m =
    hdr_loop all post (P + (length name + 1 + k + length value + length (eol lfl))) false 1
      (P + (length name + 1 + k + length value + length (eol lfl))) pos1 (pos1 + 1 + k) (hm_insert (lower name) value m)).
  { intros vs0 ->. destruct lfl; cbn [eol app length].
    - (* bare LF *)
      rewrite hdr_step_lf_value. rewrite Hname, Hhn.
      assert (Hncr : prev_is_cr all (pos1 + 1 + k + length value) = false).
      { rewrite Hall3. replace (pos1 + 1 + k + length value) with (length pre + length X) by (subst pos1 P; lia).
        apply prev_not_cr; [exact HXc|]. unfold X, name. discriminate. }
      rewrite Hncr, Hval, Hhv.
      replace (S (pos1 + 1 + k + length value)) with (P + (length name + 1 + k + length value + 1)) by (subst pos1; lia).
      reflexivity.
    - rewrite hdr_step_cr, hdr_step_lf_value. rewrite Hname, Hhn.
      assert (Hcr : prev_is_cr all (S (pos1 + 1 + k + length value)) = true).
      { unfold prev_is_cr. rewrite Hall3. rewrite app_assoc. cbn [eol app].
        rewrite nth_error_mid by (rewrite app_length; subst pos1 P; lia). reflexivity. }
      rewrite Hcr.
      replace (S (pos1 + 1 + k + length value) - 1) with (pos1 + 1 + k + length value) by lia.
      rewrite Hval, Hhv.
      replace (S (S (pos1 + 1 + k + length value))) with (P + (length name + 1 + k + length value + 2)) by (subst pos1; lia).
      reflexivity. }
  destruct k as [|k'].
  - assert (Hnsp : next_is_space all pos1 = false).
    { unfold next_is_space. rewrite Hall1. cbn [repeat app].
      destruct (value ++ eol lfl ++ post) as [|c x] eqn:Ex; [contradiction|].
      rewrite nth_error_mid by (symmetry; exact Hl1). exact Hhead. }
    rewrite Hnsp. cbn [repeat app].
    rewrite hdr_value_chunk by exact Hvc.
    replace (S pos1 + length value) with (pos1 + 1 + 0 + length value) by lia.
    apply Htail. lia.
  - assert (Hnsp : next_is_space all pos1 = true).
    { unfold next_is_space. rewrite Hall1. cbn [repeat app].
      rewrite nth_error_mid by (symmetry; exact Hl1). reflexivity. }
    rewrite Hnsp. cbn [repeat app]. rewrite hdr_step_space.
    assert (Hvs : value_start_from all (S pos1) = S pos1 + S k').
    { unfold value_start_from. rewrite Hall1. rewrite skipn_mid by (symmetry; exact Hl1).
      rewrite (pns_repeat (S k')) by exact Hhead. lia. }
    rewrite Hvs. rewrite app_assoc.
    rewrite hdr_value_chunk.
    + rewrite app_length, repeat_length.
      replace (S (S pos1) + (k' + length value)) with (pos1 + 1 + S k' + length value) by lia.
      apply Htail. lia.
    + rewrite forallb_app. rewrite forallb_repeat by reflexivity. exact Hvc.
Qed.

Lemma print_hline_e_length lf h : length (print_hline_e lf h) = length (hl_name h) + 1 + hl_sp h + length (hl_value h) + length (eol lf).
Proof. unfold print_hline_e. rewrite !app_length, repeat_length. cbn [length]. lia. Qed.

Lemma hdr_block_e : forall hs fl lb pre post lf ne vs m,
  hlines_ok hs = true -> (hs <> [] \/ lf = 1) ->
  hdr_loop (pre ++ (print_hlines_e fl hs ++ eol lb) ++ post) ((print_hlines_e fl hs ++ eol lb) ++ post)
           (length pre) false lf (length pre) ne vs m =
  Ok (hdr_fold m hs, length pre + length (print_hlines_e fl hs ++ eol lb)).
Proof.
  induction hs as [|h hs IH]; intros fl lb pre post lf ne vs m Hok Hlf.
  - destruct Hlf as [Hlf|Hlf]; [contradiction|]. subst lf. cbn [print_hlines_e app hdr_fold fold_left].
    destruct lb; cbn [eol app length].
    + rewrite hdr_step_lf_end. f_equal. f_equal. lia.
    + rewrite hdr_step_cr, hdr_step_lf_end. f_equal. f_equal. lia.
  - cbn [hlines_ok forallb] in Hok. apply andb_true_iff in Hok as [Hh Hok]. apply andb_true_iff in Hh as [Hn Hv].
    cbn [print_hlines_e hdr_fold fold_left].
    set (B' := print_hlines_e (tl fl) hs ++ eol lb).
    assert (Hrest : ((print_hline_e (hd false fl) h ++ print_hlines_e (tl fl) hs) ++ eol lb) ++ post =
                    hl_name h ++ [COLON] ++ repeat SP (hl_sp h) ++ hl_value h ++ eol (hd false fl) ++ (B' ++ post)).
    { unfold print_hline_e, B'. rewrite <- !app_assoc. reflexivity. }
    rewrite Hrest.
    rewrite (hdr_line_e _ pre (hl_name h) (hl_sp h) (hl_value h) (hd false fl) (B' ++ post) eq_refl Hn Hv).
    assert (Hall' : pre ++ hl_name h ++ [COLON] ++ repeat SP (hl_sp h) ++ hl_value h ++ eol (hd false fl) ++ (B' ++ post) =
                    (pre ++ print_hline_e (hd false fl) h) ++ B' ++ post).
    { unfold print_hline_e. rewrite <- !app_assoc. reflexivity. }
    rewrite Hall'.
    assert (Hlen : length pre + (length (hl_name h) + 1 + hl_sp h + length (hl_value h) + length (eol (hd false fl))) =
                   length (pre ++ print_hline_e (hd false fl) h)).
    { rewrite app_length, print_hline_e_length. lia. }
    rewrite Hlen. unfold B'. rewrite IH; [|exact Hok|right; reflexivity].
    fold (hdr_fold (hm_insert (lower (hl_name h)) (hl_value h) m) hs).
    f_equal. f_equal. rewrite !app_length. lia.
Qed.

(** * The whole head *)

Lemma print_head_e_shape l0 fl lb g extra :
  print_head_e l0 fl lb g ++ extra =
  g_method g ++ SP :: g_target g ++ SP :: g_version g ++ eol l0 ++ (print_hlines_e fl (g_headers g) ++ eol lb) ++ extra.
Proof. unfold print_head_e, g_version. rewrite <- !app_assoc. reflexivity. Qed.

Lemma print_head_e_length l0 fl lb g :
  length (print_head_e l0 fl lb g) =
  length (g_method g) + 1 + length (g_target g) + 1 + 8 + length (eol l0) + length (print_hlines_e fl (g_headers g) ++ eol lb).
Proof.
  unfold print_head_e. repeat rewrite app_length. cbn [length].
  assert (Hl : length (if g_v11 g then v11 else v10) = 8) by (destruct (g_v11 g); reflexivity).
  rewrite Hl. lia.
Qed.

Lemma req_loop_print_e l0 fl lb g extra : greq_facts g ->
  let all := print_head_e l0 fl lb g ++ extra in
  req_loop all all 0 RMethod [] 0 0 [] 0 =
  Ok (mk_scan (g_method g) (length (g_method g) + 1) (length (g_method g) + 1 + length (g_target g)) (g_version g)
              (hdr_fold [] (g_headers g)) (S (length (print_head_e l0 fl lb g)))).
Proof.
  intros F all. destruct F as [Hstart Hmlen Hmtok Htnon Htplain Hlines Hnodup].
  destruct (version_shape g) as [Hvc [Hvl Hvcode]].
  set (block := print_hlines_e fl (g_headers g) ++ eol lb).
  assert (Hall : all = g_method g ++ SP :: g_target g ++ SP :: g_version g ++ eol l0 ++ block ++ extra).
  { unfold all, block. apply print_head_e_shape. }
  set (M := length (g_method g)). set (T := length (g_target g)).
  rewrite Hall at 2.
  rewrite req_method_chunk by (cbn [length]; assumption || lia). cbn [app Nat.add].
  rewrite req_step_method_sp.
  assert (Hm : slice_chk 0 M all = Ok (g_method g)).
  { rewrite Hall. apply (slice_chk_mid [] (g_method g)); reflexivity. }
  fold M. rewrite Hm.
  assert (Hmok : method_ok (g_method g) = true).
  { unfold method_ok. rewrite Hmtok. destruct (g_method g) eqn:E; [exfalso; apply (valid_start_nonempty _ Hstart); reflexivity|reflexivity]. }
  rewrite Hmok.
  destruct (g_target g) as [|t0 target'] eqn:Et; [contradiction|].
  cbn [forallb] in Htplain. apply andb_true_iff in Htplain as [Ht0 Htp].
  cbn [app]. rewrite req_step_path by exact Ht0. cbn [Nat.eqb].
  rewrite req_path_chunk by (try assumption; lia).
  rewrite req_step_path_sp.
  destruct (Nat.eqb (S M) 0) eqn:E0; [apply Nat.eqb_eq in E0; lia|].
  rewrite req_version_chunk by (cbn [length]; assumption || lia). cbn [app].
  set (pe := S (S M) + length target').
  set (pv := S pe + length (g_version g)).
  set (pl := pv + length (eol l0)).
  assert (Hline : forall X,
    req_loop all (eol l0 ++ X) pv RVersion (g_method g) (S M) pe (g_version g) 0 =
    req_loop all X pl RHeader (g_method g) (S M) pe (g_version g) 1).
  { intros X. subst pl. destruct l0; cbn [eol app length].
    - rewrite req_step_version_lf, Hvcode. replace (pv + 1) with (S pv) by lia. reflexivity.
    - rewrite req_step_cr, req_step_version_lf, Hvcode. replace (pv + 2) with (S (S pv)) by lia. reflexivity. }
  fold pe. fold pv. rewrite Hline.
  assert (HT : T = S (length target')) by (subst T; reflexivity).
  assert (Hfin : forall h e, S pl + e = S (length (print_head_e l0 fl lb g)) -> h = hdr_fold [] (g_headers g) ->
     Ok (mk_scan (g_method g) (S M) pe (g_version g) h (S pl + e)) =
     Ok (mk_scan (g_method g) (M + 1) (M + 1 + T) (g_version g) (hdr_fold [] (g_headers g)) (S (length (print_head_e l0 fl lb g))))).
  { intros h e He ->. rewrite He. repeat f_equal; subst pe; lia. }
  assert (Hpl : pl + length block = length (print_head_e l0 fl lb g)).
  { rewrite print_head_e_length. fold block. rewrite Et. fold M. subst pl pv pe. cbn [length]. rewrite Hvl. lia. }
  destruct (g_headers g) as [|h hs] eqn:Eh.
  - subst block. cbn [print_hlines_e app] in *. destruct lb; cbn [eol app length] in *.
    + rewrite req_step_blank. replace (S (S pl)) with (S pl + 1) by lia. apply Hfin; [lia|reflexivity].
    + rewrite req_step_cr, req_step_blank. replace (S (S (S pl))) with (S pl + 2) by lia. apply Hfin; [lia|reflexivity].
  - assert (Hn : name_ok (hl_name h) = true).
    { cbn [hlines_ok forallb] in Hlines. apply andb_true_iff in Hlines as [Hh _]. apply andb_true_iff in Hh as [Hh _]. exact Hh. }
    assert (Hn' := Hn). unfold name_ok in Hn'. apply andb_true_iff in Hn' as [Hn' _]. apply andb_true_iff in Hn' as [Hnn Hnt].
    assert (Hblock : exists c brest, block ++ extra = c :: brest /\ tchar c = true).
    { subst block. cbn [print_hlines_e]. unfold print_hline_e at 1. destruct (hl_name h) as [|c n']; [discriminate|].
      cbn [forallb] in Hnt. apply andb_true_iff in Hnt as [Hc _]. eexists. eexists. split; [|exact Hc].
      rewrite <- !app_assoc. cbn [app]. reflexivity. }
    destruct Hblock as [c [brest [Hb Hc]]]. rewrite Hb.
    rewrite req_step_header by exact Hc.
    assert (Hall2 : all = (g_method g ++ SP :: (t0 :: target') ++ SP :: g_version g ++ eol l0) ++ block ++ extra).
    { rewrite Hall. repeat (progress (try rewrite <- !app_assoc; cbn [app])). reflexivity. }
    assert (Hlpre : pl = length (g_method g ++ SP :: (t0 :: target') ++ SP :: g_version g ++ eol l0)).
    { rewrite !app_length. cbn [length]. rewrite !app_length. cbn [length]. rewrite !app_length.
      subst pl pv pe. fold M. lia. }
    rewrite Hall2. rewrite (slice_chk_tail _ (block ++ extra) pl Hlpre).
    unfold parse_headers.
    assert (Hne : h :: hs <> []) by discriminate.
    pose proof (hdr_block_e (h :: hs) fl lb [] extra 0 0 0 [] Hlines (or_introl Hne)) as Hhb.
    cbn [length] in Hhb. change ([] ++ ?x) with x in Hhb. fold block in Hhb. rewrite Hhb.
    apply Hfin; [cbn [Nat.add]; lia|reflexivity].
Qed.

Lemma parse_request_print_e https dh l0 fl lb g extra host auth path query :
  greq_ok g = true -> g_host dh g = Some host -> parse_uri https host (g_target g) = Some (auth, path, query) ->
  parse_request https dh (print_head_e l0 fl lb g ++ extra) =
  Ok (mk_request (g_method g) path query (if g_v11 g then 11%N else 10%N) (g_hmap g) auth extra).
Proof.
  intros Hok Hhost Huri. pose proof (greq_ok_facts g Hok) as F.
  unfold parse_request. rewrite (req_loop_print_e l0 fl lb g extra F). cbn [obind].
  destruct F as [Hstart Hmlen Hmtok Htnon Htplain Hlines Hnodup].
  destruct (version_shape g) as [_ [_ Hvcode]].
  unfold req_finish. cbn [sc_pe sc_ps sc_headers sc_method sc_ver sc_end].
  rewrite (hdr_fold_g g Hnodup).
  assert (Htl : 0 < length (g_target g)) by (destruct (g_target g); [contradiction|cbn [length]; lia]).
  destruct (Nat.leb (length (g_method g) + 1 + length (g_target g)) (length (g_method g) + 1)) eqn:E;
    [apply Nat.leb_le in E; lia|].
  unfold g_host in Hhost. rewrite Hhost.
  assert (Ht : slice_chk (length (g_method g) + 1) (length (g_method g) + 1 + length (g_target g)) (print_head_e l0 fl lb g ++ extra) = Ok (g_target g)).
  { rewrite print_head_e_shape.
    change (g_method g ++ SP :: g_target g ++ ?x) with (g_method g ++ [SP] ++ g_target g ++ x).
    rewrite app_assoc. apply slice_chk_mid; [rewrite app_length; cbn [length]; lia|reflexivity]. }
  rewrite Ht. cbn [obind].
  assert (Hmok : method_ok (g_method g) = true).
  { unfold method_ok. rewrite Hmtok. destruct (g_method g) eqn:Em; [exfalso; apply (valid_start_nonempty _ Hstart); reflexivity|reflexivity]. }
  rewrite Hmok. cbn [negb]. rewrite Huri, Hvcode.
  rewrite (slice_chk_tail (print_head_e l0 fl lb g) extra (length (print_head_e l0 fl lb g)) eq_refl). cbn [obind]. reflexivity.
Qed.

(** * Where such a head ends *)

Lemma bl_chunk : forall x ir r, forallb no_crlf x = true -> x <> [] ->
  bl_end ir (x ++ r) = option_map (fun k => length x + k) (bl_end false r).
Proof.
  induction x as [|c x IH]; intros ir r Hx Hne; [contradiction|].
  cbn [forallb] in Hx. apply andb_true_iff in Hx as [Hc Hx]. destruct (no_crlf_spec _ Hc) as [H1 H2].
  cbn [app bl_end]. rewrite H1, H2. destruct x as [|c' x'].
  - cbn [app length]. destruct (bl_end false r); reflexivity.
  - rewrite (IH false r Hx ltac:(discriminate)). destruct (bl_end false r); cbn [option_map length]; [f_equal; lia|reflexivity].
Qed.

Lemma bl_eol0 lf r : bl_end false (eol lf ++ r) = option_map (fun k => length (eol lf) + k) (bl_end true r).
Proof.
  destruct lf; cbn [eol app length].
  - change (bl_end false (LF :: r)) with (option_map S (bl_end true r)). destruct (bl_end true r); reflexivity.
  - change (bl_end false (CR :: LF :: r)) with (option_map S (option_map S (bl_end true r))). destruct (bl_end true r); reflexivity.
Qed.

Lemma bl_eol1 lf r : bl_end true (eol lf ++ r) = Some (length (eol lf)).
Proof. destruct lf; reflexivity. Qed.

Lemma bl_line_e x lf ir r : forallb no_crlf x = true -> x <> [] ->
  bl_end ir (x ++ eol lf ++ r) = option_map (fun k => length x + length (eol lf) + k) (bl_end true r).
Proof.
  intros Hx Hne. rewrite bl_chunk by assumption. rewrite bl_eol0.
  destruct (bl_end true r); cbn [option_map]; [f_equal; lia|reflexivity].
Qed.

Lemma bl_block_e : forall hs fl lb rest, hlines_ok hs = true ->
  bl_end true ((print_hlines_e fl hs ++ eol lb) ++ rest) = Some (length (print_hlines_e fl hs ++ eol lb)).
Proof.
  induction hs as [|h hs IH]; intros fl lb rest Hok.
  - cbn [print_hlines_e app]. apply bl_eol1.
  - cbn [hlines_ok forallb] in Hok. apply andb_true_iff in Hok as [Hh Hok].
    assert (Hh1 : hlines_ok [h] = true) by (cbn [hlines_ok forallb]; rewrite Hh; reflexivity).
    destruct (hline_body_shape h Hh1) as [_ [Hne Hx]].
    set (x := hl_name h ++ [COLON] ++ repeat SP (hl_sp h) ++ hl_value h) in *.
    cbn [print_hlines_e].
    replace (((print_hline_e (hd false fl) h ++ print_hlines_e (tl fl) hs) ++ eol lb) ++ rest)
      with (x ++ eol (hd false fl) ++ ((print_hlines_e (tl fl) hs ++ eol lb) ++ rest))
      by (unfold print_hline_e, x; rewrite <- !app_assoc; reflexivity).
    rewrite bl_line_e by assumption. fold (hlines_ok hs) in Hok. rewrite (IH (tl fl) lb rest Hok). cbn [option_map]. f_equal.
    unfold print_hline_e. subst x. repeat rewrite app_length. cbn [length]. lia.
Qed.

Lemma blank_end_print_e l0 fl lb g rest : greq_facts g ->
  blank_end (print_head_e l0 fl lb g ++ rest) = Some (length (print_head_e l0 fl lb g)).
Proof.
  intros F. destruct F as [Hstart Hmlen Hmtok Htnon Htplain Hlines Hnodup].
  destruct (version_shape g) as [Hvc [Hvl _]].
  unfold blank_end. rewrite print_head_e_shape, print_head_e_length.
  set (x := g_method g ++ SP :: g_target g ++ SP :: g_version g).
  replace (g_method g ++ SP :: g_target g ++ SP :: g_version g ++ eol l0 ++ (print_hlines_e fl (g_headers g) ++ eol lb) ++ rest)
    with (x ++ eol l0 ++ (print_hlines_e fl (g_headers g) ++ eol lb) ++ rest)
    by (unfold x; repeat (progress (try rewrite <- !app_assoc; cbn [app])); reflexivity).
  rewrite bl_line_e.
  - rewrite (bl_block_e _ fl lb rest Hlines). cbn [option_map]. f_equal. unfold x.
    rewrite !app_length. cbn [length]. rewrite !app_length. cbn [length]. rewrite Hvl. lia.
  - unfold x. rewrite forallb_app. rewrite (forallb_imp tchar no_crlf _ tchar_no_crlf Hmtok). cbn [forallb andb].
    rewrite forallb_app. rewrite (forallb_imp plain no_crlf _ plain_no_crlf Htplain). cbn [forallb]. rewrite Hvc. reflexivity.
  - unfold x. destruct (g_method g); discriminate.
Qed.

Lemma valid_start_print_e l0 fl lb g rest : greq_facts g -> valid_start (print_head_e l0 fl lb g ++ rest) = true.
Proof. intros F. rewrite print_head_e_shape. apply valid_start_app. exact (gf_start g F). Qed.

(** * Any head that the parser reads back: head, then body, for every schedule *)

Lemma serve_printed : forall grow mode https dh max_len limit head rest sched method path query v hm auth,
  grow_ok grow -> sched_pos sched -> length head <= max_len ->
  blank_end (head ++ rest) = Some (length head) -> valid_start (head ++ rest) = true ->
  (forall extra, parse_request https dh (head ++ extra) = Ok (mk_request method path query v hm auth extra)) ->
  N.to_nat (N.min (body_length method hm) limit) <= length rest ->
  length head + N.to_nat (N.min (body_length method hm) limit) <= sum_sched sched ->
  exists sv, serve grow mode https dh max_len limit (head ++ rest) sched = Ok sv /\
             observed sv = Some (mk_expected method path query v hm auth (firstn (N.to_nat (N.min (body_length method hm) limit)) rest)).
Proof.
  intros grow mode https dh max_len limit head rest sched method path query v hm auth Hg Hp Hmax Hbe Hvs Hparse Hneed1 Hneed2.
  set (need := N.to_nat (N.min (body_length method hm) limit)) in *.
  set (stream := head ++ rest) in *. set (H := length head) in *.
  set (d := Nat.min (sum_sched sched) (length stream)).
  assert (Hls : length stream = H + length rest) by (unfold stream; rewrite app_length; reflexivity).
  assert (Hd : H + need <= d) by lia.
  assert (HdS : d <= length stream) by lia.
  assert (Hhs : head_spec max_len (firstn d stream) = Ok H).
  { unfold head_spec, blank_end in *. rewrite (bl_end_firstn false stream H d Hbe) by lia.
    destruct (Nat.leb H max_len) eqn:E; [|apply Nat.leb_gt in E; lia].
    rewrite valid_start_prefix_stable; [rewrite Hvs; reflexivity|exact HdS|].
    right. rewrite ctn_firstn, Hbe. apply Nat.leb_le. lia. }
  pose proof (serve_head grow Hg mode https dh max_len limit stream sched Hp) as Hs. cbv zeta in Hs. fold d in Hs.
  rewrite Hhs in Hs. destruct Hs as [c [r' [Hc1 [Hc2 [Hat Hs]]]]].
  assert (Hcd : c <= d) by (destruct Hat as [_ [_ [? _]]]; assumption).
  assert (Hbuf : firstn c stream = head ++ firstn (c - H) rest).
  { unfold stream. rewrite firstn_app. fold H. rewrite firstn_all2 by (fold H; lia). reflexivity. }
  rewrite Hbuf in Hs. rewrite Hparse in Hs.
  cbn [obind q_early q_method q_headers] in Hs.
  pose proof (read_to_bytes_exact grow Hg mode (firstn (c - H) rest) (body_length method hm) limit stream d c r' Hat) as Hb.
  unfold body_spec in Hb. fold need in Hb.
  assert (Hel : length (firstn (c - H) rest) = c - H) by (rewrite firstn_length; lia).
  assert (Hdl : length (firstn (d - c) (skipn c stream)) = d - c) by (rewrite firstn_length, skipn_length; lia).
  rewrite Hel, Hdl in Hb.
  destruct (Nat.leb need (c - H + (d - c))) eqn:E; [|apply Nat.leb_gt in E; lia].
  destruct Hb as [r'' [Hb _]]. rewrite Hb in Hs.
  eexists. split; [exact Hs|]. unfold observed. cbn [sv_body sv_request q_method q_path q_query q_version q_headers q_authority].
  f_equal. f_equal.
  rewrite firstn_app_firstn by (rewrite Hel; lia).
  assert (Hsk : skipn c stream = skipn (c - H) rest).
  { unfold stream. rewrite skipn_app. fold H. rewrite skipn_all2 by (fold H; lia). reflexivity. }
  rewrite Hsk, firstn_skipn. reflexivity.
Qed.

Lemma parse_print_lf_lemma : forall grow mode https dh max_len limit l0 fl lb g rest sched e,
  grow_ok grow -> sched_pos sched -> greq_ok g = true -> length (print_head_e l0 fl lb g) <= max_len ->
  expect https dh limit g rest = Some e ->
  N.to_nat (N.min (body_length (g_method g) (g_hmap g)) limit) <= length rest ->
  length (print_head_e l0 fl lb g) + N.to_nat (N.min (body_length (g_method g) (g_hmap g)) limit) <= sum_sched sched ->
  exists sv, serve grow mode https dh max_len limit (print_head_e l0 fl lb g ++ rest) sched = Ok sv /\ observed sv = Some e.
Proof.
  intros grow mode https dh max_len limit l0 fl lb g rest sched e Hg Hp Hok Hmax Hex Hn1 Hn2.
  destruct (expect_some _ _ _ _ _ _ Hex) as [host [auth [path [query [Hhost [Huri He]]]]]].
  pose proof (greq_ok_facts g Hok) as F. rewrite He.
  apply serve_printed; try assumption.
  - apply blank_end_print_e. exact F.
  - apply valid_start_print_e. exact F.
  - intros extra. apply (parse_request_print_e https dh l0 fl lb g extra host auth path query Hok Hhost Huri).
Qed.
