(** C07 — the general header line [name ":" OWS value OWS (CRLF | LF)]: a printed request with any optional
    whitespace (spaces, tabs) around the values and any mix of CRLF / bare-LF line ends parses to the same request.
    The CRLF-only and the SP-only printers are instances. *)
From KV Require Export Bytes RustInt Http1Read Http1ReadProofs Http1ReadParseProofs.
From Coq Require Import ZifyBool ZifyNat ZifyN.
Open Scope N_scope.
Local Open Scope nat_scope.



Lemma eol_length lf : length (eol lf) = if lf then 1 else 2.
Proof. destruct lf; reflexivity. Qed.

Lemma print_hlines_e_crlf hs : print_hlines_e [] hs = concat (map print_hline hs).
Proof. induction hs as [|h hs IH]; [reflexivity|]. cbn [print_hlines_e hd tl map concat]. rewrite IH. reflexivity. Qed.

Lemma print_head_e_crlf g : print_head_e false [] false g = print_head g.
Proof. unfold print_head_e, print_head. rewrite print_hlines_e_crlf. reflexivity. Qed.

(** * Optional whitespace *)

Lemma pno_chunk : forall lead x, forallb ows lead = true ->
  (match x with c :: _ => ows c = false | [] => False end) ->
  position_non_ows (lead ++ x) = Some (length lead).
Proof.
  induction lead as [|c lead IH]; intros x Hl Hx; cbn [app length].
  - destruct x as [|c x]; [contradiction|]. cbn [position_non_ows]. rewrite Hx. reflexivity.
  - cbn [forallb] in Hl. apply andb_true_iff in Hl as [Hc Hl]. cbn [position_non_ows]. rewrite Hc.
    rewrite (IH x Hl Hx). reflexivity.
Qed.

Lemma trim_end_stop all vs ve :
  (vs < ve -> match nth_error all (ve - 1) with Some c => ows c = false | None => True end) ->
  trim_end all vs ve = ve.
Proof.
  intros H. destruct ve as [|p]; [reflexivity|]. cbn [trim_end].
  destruct (Nat.ltb vs (S p)) eqn:E; cbn [andb]; [|reflexivity]. apply Nat.ltb_lt in E. specialize (H E).
  replace (S p - 1) with p in H by qlia. destruct (nth_error all p) as [c|]; [rewrite H|]; reflexivity.
Qed.

(** trailing whitespace is trimmed up to the last byte of the value (which is not whitespace) *)
Lemma trim_end_spec (A value : bytes) : forall trail R,
  forallb ows trail = true -> (forall r c, value = r ++ [c] -> ows c = false) ->
  trim_end (A ++ value ++ trail ++ R) (length A) (length A + length value + length trail) = length A + length value.
Proof.
  intros trail. induction trail as [|c t IH] using rev_ind; intros R Ht Hv.
  - cbn [length]. rewrite Nat.add_0_r. apply trim_end_stop. intros Hlt.
    destruct value as [|v0 value'] using rev_ind; [cbn [length] in Hlt; qlia|]. clear IHvalue'.
    rewrite app_length in *. cbn [length] in *.
    replace (length A + (length value' + 1) - 1) with (length A + length value') by qlia.
    rewrite nth_error_app2 by qlia. replace (length A + length value' - length A) with (length value') by qlia.
    rewrite <- app_assoc. rewrite nth_error_app2 by qlia. rewrite Nat.sub_diag. cbn [app nth_error].
    apply (Hv value' v0). reflexivity.
  - rewrite forallb_app in Ht. apply andb_true_iff in Ht as [Ht Hc]. cbn [forallb] in Hc. rewrite andb_true_r in Hc.
    rewrite app_length. cbn [length].
    replace (length A + length value + (length t + 1)) with (S (length A + length value + length t)) by qlia.
    cbn [trim_end].
    assert (Hlt : Nat.ltb (length A) (S (length A + length value + length t)) = true) by (apply Nat.ltb_lt; qlia).
    rewrite Hlt. cbn [andb].
    assert (Hn : nth_error (A ++ value ++ (t ++ [c]) ++ R) (length A + length value + length t) = Some c).
    { rewrite nth_error_app2 by qlia. replace (length A + length value + length t - length A) with (length value + length t) by qlia.
      rewrite nth_error_app2 by qlia. replace (length value + length t - length value) with (length t) by qlia.
      rewrite <- app_assoc. rewrite nth_error_app2 by qlia. rewrite Nat.sub_diag. reflexivity. }
    rewrite Hn, Hc.
    replace (A ++ value ++ (t ++ [c]) ++ R) with (A ++ value ++ t ++ ([c] ++ R)) by (rewrite <- !app_assoc; reflexivity).
    apply IH; assumption.
Qed.

(** * One header line in its general form *)

Lemma eol_head lf post : exists c r, eol lf ++ post = c :: r /\ ows c = false.
Proof. destruct lf; cbn [eol app]; eexists; eexists; split; reflexivity. Qed.

Lemma prev_not_cr (pre X rest : bytes) : forallb no_crlf X = true -> X <> [] ->
  prev_is_cr (pre ++ X ++ rest) (length pre + length X) = false.
Proof.
  intros HX Hne. unfold prev_is_cr.
  destruct X as [|x0 X']; [contradiction|]. cbn [length]. replace (length pre + S (length X')) with (S (length pre + length X')) by qlia.
  rewrite nth_error_app2 by qlia. replace (length pre + length X' - length pre) with (length X') by qlia.
  rewrite nth_error_app1 by (cbn [length]; qlia).
  destruct (nth_error (x0 :: X') (length X')) as [c|] eqn:E; [|reflexivity].
  apply nth_error_In in E. rewrite forallb_forall in HX. apply HX in E. apply no_crlf_spec in E. tauto.
Qed.

Lemma ows_all_no_crlf l : forallb ows l = true -> forallb no_crlf l = true.
Proof. apply forallb_imp. apply ows_no_crlf. Qed.

Lemma hdr_line_d all pre name lead value trail lfl post :
  all = pre ++ name ++ [COLON] ++ lead ++ value ++ trail ++ eol lfl ++ post ->
  name_ok name = true -> value_ok value = true -> forallb ows lead = true -> forallb ows trail = true ->
  (value = [] -> trail = []) ->
  forall lf ne vs m,
  hdr_loop all (name ++ [COLON] ++ lead ++ value ++ trail ++ eol lfl ++ post) (length pre) false lf (length pre) ne vs m =
  hdr_loop all post (length pre + (length name + 1 + length lead + length value + length trail + length (eol lfl))) false 1
           (length pre + (length name + 1 + length lead + length value + length trail + length (eol lfl)))
           (length pre + length name) (length pre + length name + 1 + length lead)
           (hm_insert (lower name) value m).
Proof.
  intros Hall Hn Hv Hlead Htrail Hempty lf ne vs m.
  pose proof (name_ok_header_name _ Hn) as Hhn.
  assert (Hn' := Hn). unfold name_ok in Hn'. apply andb_true_iff in Hn' as [Hn' _]. apply andb_true_iff in Hn' as [Hnn Hnt].
  destruct name as [|c0 name']; [discriminate|]. assert (Hnt' := Hnt). cbn [forallb] in Hnt. apply andb_true_iff in Hnt as [Hc0 Hnt].
  set (name := c0 :: name') in *.
  set (P := length pre). set (pos1 := P + length name).
  set (K := length lead). set (V := length value). set (T := length trail).
  unfold name at 1. rewrite hdr_name_chunk by assumption.
  replace (P + S (length name')) with pos1 by (subst pos1 name; cbn [length]; qlia).
  cbn [app]. rewrite hdr_step_colon.
  assert (Hall1 : all = (pre ++ name ++ [COLON]) ++ lead ++ value ++ trail ++ eol lfl ++ post).
  { rewrite Hall. rewrite <- !app_assoc. reflexivity. }
  assert (Hl1 : length (pre ++ name ++ [COLON]) = S pos1).
  { rewrite !app_length. cbn [length]. subst pos1 P. qlia. }
  assert (Hname : slice_get P pos1 all = Some name).
  { rewrite Hall. apply slice_get_mid; subst pos1 P; reflexivity. }
  set (A := pre ++ name ++ [COLON] ++ lead).
  assert (Hall2 : all = A ++ value ++ trail ++ eol lfl ++ post).
  { rewrite Hall. unfold A. rewrite <- !app_assoc. reflexivity. }
  assert (Hl2 : length A = pos1 + 1 + K).
  { unfold A. rewrite !app_length. cbn [length]. subst pos1 P K. qlia. }
  assert (Hval : slice_chk (pos1 + 1 + K) (pos1 + 1 + K + V) all = Ok value).
  { rewrite Hall2. apply slice_chk_mid; [symmetry; exact Hl2|reflexivity]. }
  assert (Htrim : trim_end all (pos1 + 1 + K) (pos1 + 1 + K + V + T) = pos1 + 1 + K + V).
  { rewrite Hall2, <- Hl2. apply trim_end_spec; [exact Htrail|]. intros r c E. exact (value_ok_last _ _ _ Hv E). }
  set (X := name ++ [COLON] ++ lead ++ value ++ trail).
  pose proof (value_ok_hvalue _ Hv) as Hhv.
  pose proof (value_ok_no_crlf _ Hv) as Hvc.
  assert (HXc : forallb no_crlf X = true).
  { unfold X. rewrite !forallb_app. rewrite (forallb_imp tchar no_crlf _ tchar_no_crlf Hnt').
    rewrite (ows_all_no_crlf _ Hlead), Hvc, (ows_all_no_crlf _ Htrail). reflexivity. }
  assert (HXl : length X = length name + 1 + K + V + T).
  { unfold X. rewrite !app_length. cbn [length]. subst K V T. qlia. }
  assert (Hall3 : all = pre ++ X ++ eol lfl ++ post).
  { rewrite Hall. unfold X. rewrite <- !app_assoc. reflexivity. }
  (* the first byte after the leading whitespace is not whitespace *)
  assert (Hhead : match value ++ trail ++ eol lfl ++ post with c :: _ => ows c = false | [] => False end).
  { destruct value as [|v0 value'] eqn:Ev.
    - rewrite (Hempty eq_refl). cbn [app]. destruct (eol_head lfl post) as [ce [re [Heol Hce]]]. rewrite Heol. exact Hce.
    - cbn [app]. exact (value_ok_first _ _ _ Hv eq_refl). }
  assert (Htail : forall vs0, vs0 = pos1 + 1 + K ->
    hdr_loop all (eol lfl ++ post) (pos1 + 1 + K + V + T) true 0 P pos1 vs0 m =
    hdr_loop all post (P + (length name + 1 + K + V + T + length (eol lfl))) false 1
      (P + (length name + 1 + K + V + T + length (eol lfl))) pos1 (pos1 + 1 + K) (hm_insert (lower name) value m)).
  { intros vs0 ->. destruct lfl; cbn [eol app length].
    - rewrite hdr_step_lf_value. rewrite Hname, Hhn.
      assert (Hncr : prev_is_cr all (pos1 + 1 + K + V + T) = false).
      { rewrite Hall3. replace (pos1 + 1 + K + V + T) with (length pre + length X) by (subst pos1 P; qlia).
        apply prev_not_cr; [exact HXc|]. unfold X, name. discriminate. }
      rewrite Hncr, Htrim, Hval, Hhv.
      replace (S (pos1 + 1 + K + V + T)) with (P + (length name + 1 + K + V + T + 1)) by (subst pos1; qlia).
      reflexivity.
    - rewrite hdr_step_cr, hdr_step_lf_value. rewrite Hname, Hhn.
      assert (Hcr : prev_is_cr all (S (pos1 + 1 + K + V + T)) = true).
      { unfold prev_is_cr. rewrite Hall3. rewrite app_assoc. cbn [eol app].
        rewrite nth_error_mid by (rewrite app_length; subst pos1 P; qlia). reflexivity. }
      rewrite Hcr.
      replace (S (pos1 + 1 + K + V + T) - 1) with (pos1 + 1 + K + V + T) by qlia.
      rewrite Htrim, Hval, Hhv.
      replace (S (S (pos1 + 1 + K + V + T))) with (P + (length name + 1 + K + V + T + 2)) by (subst pos1; qlia).
      reflexivity. }
  destruct lead as [|l0 lead'] eqn:El.
  - assert (Hnsp : next_is_ows all pos1 = false).
    { unfold next_is_ows. rewrite Hall1. cbn [app].
      destruct (value ++ trail ++ eol lfl ++ post) as [|c x] eqn:Ex; [contradiction|].
      rewrite nth_error_mid by (symmetry; exact Hl1). exact Hhead. }
    rewrite Hnsp. cbn [app].
    rewrite (app_assoc value trail). rewrite hdr_value_chunk by (rewrite forallb_app, Hvc, (ows_all_no_crlf _ Htrail); reflexivity).
    rewrite app_length. fold V T. subst K. cbn [length].
    replace (S pos1 + (V + T)) with (pos1 + 1 + 0 + V + T) by qlia.
    apply Htail. cbn [length]. qlia.
  - cbn [forallb] in Hlead. apply andb_true_iff in Hlead as [Hl0 Hlead'].
    assert (Hnsp : next_is_ows all pos1 = true).
    { unfold next_is_ows. rewrite Hall1. cbn [app].
      rewrite nth_error_mid by (symmetry; exact Hl1). exact Hl0. }
    rewrite Hnsp. cbn [app]. rewrite hdr_step_ows by exact Hl0.
    assert (Hvs : value_start_from all (S pos1) = S pos1 + K).
    { unfold value_start_from. rewrite Hall1. rewrite skipn_mid by (symmetry; exact Hl1).
      rewrite pno_chunk; [subst K; qlia| |exact Hhead].
      cbn [forallb]. rewrite Hl0, Hlead'. reflexivity. }
    rewrite Hvs.
    replace (lead' ++ value ++ trail ++ eol lfl ++ post) with ((lead' ++ value ++ trail) ++ eol lfl ++ post)
      by (rewrite <- !app_assoc; reflexivity).
    rewrite hdr_value_chunk
      by (rewrite !forallb_app, (ows_all_no_crlf _ Hlead'), Hvc, (ows_all_no_crlf _ Htrail); reflexivity).
    rewrite !app_length. fold V T. subst K. cbn [length].
    replace (S (S pos1) + (length lead' + (V + T))) with (pos1 + 1 + S (length lead') + V + T) by qlia.
    apply Htail. cbn [length]. qlia.
Qed.

(** * A block of header lines *)

Definition h_lead (d : deco) (h : hline) : bytes := repeat SP (hl_sp h) ++ d_pre d.

Lemma print_hline_d_length d h :
  length (print_hline_d d h) =
  length (hl_name h) + 1 + length (h_lead d h) + length (hl_value h) + length (d_post d) + length (eol (d_lf d)).
Proof. unfold print_hline_d, h_lead. rewrite !app_length. cbn [length]. qlia. Qed.

Lemma deco_ok_facts d h : deco_ok d h = true ->
  forallb ows (h_lead d h) = true /\ forallb ows (d_post d) = true /\ (hl_value h = [] -> d_post d = []).
Proof.
  unfold deco_ok, h_lead. intros H. apply andb_true_iff in H as [H H3]. apply andb_true_iff in H as [H1 H2].
  split; [rewrite forallb_app, forallb_repeat by reflexivity; exact H1|]. split; [exact H2|].
  intros E. rewrite E in H3. cbn [null negb orb] in H3. destruct (d_post d); [reflexivity|discriminate].
Qed.

Lemma hdr_block_d : forall hs ds lb pre post lf ne vs m,
  hlines_ok hs = true -> decos_ok ds hs = true -> (hs <> [] \/ lf = 1) ->
  hdr_loop (pre ++ (print_hlines_d ds hs ++ eol lb) ++ post) ((print_hlines_d ds hs ++ eol lb) ++ post)
           (length pre) false lf (length pre) ne vs m =
  Ok (hdr_fold m hs, length pre + length (print_hlines_d ds hs ++ eol lb)).
Proof.
  induction hs as [|h hs IH]; intros ds lb pre post lf ne vs m Hok Hdk Hlf.
  - destruct Hlf as [Hlf|Hlf]; [contradiction|]. subst lf. cbn [print_hlines_d app hdr_fold fold_left].
    destruct lb; cbn [eol app length].
    + rewrite hdr_step_lf_end. f_equal. f_equal. qlia.
    + rewrite hdr_step_cr, hdr_step_lf_end. f_equal. f_equal. qlia.
  - cbn [hlines_ok forallb] in Hok. apply andb_true_iff in Hok as [Hh Hok]. apply andb_true_iff in Hh as [Hn Hv].
    cbn [decos_ok] in Hdk. apply andb_true_iff in Hdk as [Hd Hdk].
    destruct (deco_ok_facts _ _ Hd) as [Hlead [Htrail Hempty]].
    cbn [print_hlines_d hdr_fold fold_left].
    set (d := hd deco0 ds) in *.
    set (B' := print_hlines_d (tl ds) hs ++ eol lb).
    assert (Hrest : ((print_hline_d d h ++ print_hlines_d (tl ds) hs) ++ eol lb) ++ post =
                    hl_name h ++ [COLON] ++ h_lead d h ++ hl_value h ++ d_post d ++ eol (d_lf d) ++ (B' ++ post)).
    { unfold print_hline_d, h_lead, B'. rewrite <- !app_assoc. reflexivity. }
    rewrite Hrest.
    rewrite (hdr_line_d _ pre (hl_name h) (h_lead d h) (hl_value h) (d_post d) (d_lf d) (B' ++ post) eq_refl Hn Hv Hlead Htrail Hempty).
    assert (Hall' : pre ++ hl_name h ++ [COLON] ++ h_lead d h ++ hl_value h ++ d_post d ++ eol (d_lf d) ++ (B' ++ post) =
                    (pre ++ print_hline_d d h) ++ B' ++ post).
    { unfold print_hline_d, h_lead. rewrite <- !app_assoc. reflexivity. }
    rewrite Hall'.
    assert (Hlen : length pre + (length (hl_name h) + 1 + length (h_lead d h) + length (hl_value h) + length (d_post d) + length (eol (d_lf d))) =
                   length (pre ++ print_hline_d d h)).
    { rewrite app_length, print_hline_d_length. qlia. }
    rewrite Hlen. unfold B'. rewrite IH; [|exact Hok|exact Hdk|right; reflexivity].
    fold (hdr_fold (hm_insert (lower (hl_name h)) (hl_value h) m) hs).
    f_equal. f_equal. rewrite !app_length. qlia.
Qed.

(** * The whole head *)

Lemma print_head_d_shape l0 ds lb g extra :
  print_head_d l0 ds lb g ++ extra =
  g_method g ++ SP :: g_target g ++ SP :: g_version g ++ eol l0 ++ (print_hlines_d ds (g_headers g) ++ eol lb) ++ extra.
Proof. unfold print_head_d, g_version. rewrite <- !app_assoc. reflexivity. Qed.

Lemma print_head_d_length l0 ds lb g :
  length (print_head_d l0 ds lb g) =
  length (g_method g) + 1 + length (g_target g) + 1 + 8 + length (eol l0) + length (print_hlines_d ds (g_headers g) ++ eol lb).
Proof.
  unfold print_head_d. repeat rewrite app_length. cbn [length].
  assert (Hl : length (if g_v11 g then v11 else v10) = 8) by (destruct (g_v11 g); reflexivity).
  rewrite Hl. qlia.
Qed.

Lemma method_ok_facts g : greq_facts g -> method_ok (g_method g) = true.
Proof.
  intros F. unfold method_ok. rewrite (gf_mtok g F). destruct (g_method g) eqn:E; [exfalso; apply (gf_mnon g F); exact E|reflexivity].
Qed.

Lemma req_loop_print_d l0 ds lb g extra : greq_facts g -> decos_ok ds (g_headers g) = true ->
  let all := print_head_d l0 ds lb g ++ extra in
  req_loop all all 0 RMethod [] 0 0 [] 0 =
  Ok (mk_scan (g_method g) (length (g_method g) + 1) (length (g_method g) + 1 + length (g_target g)) (g_version g)
              (hdr_fold [] (g_headers g)) (S (length (print_head_d l0 ds lb g)))).
Proof.
  intros F Hdk all. pose proof (method_ok_facts g F) as Hmok. destruct F as [Hmnon Hmlen Hmtok Htnon Htplain Hlines Hnodup].
  destruct (version_shape g) as [Hvc [Hvl Hvcode]].
  set (block := print_hlines_d ds (g_headers g) ++ eol lb).
  assert (Hall : all = g_method g ++ SP :: g_target g ++ SP :: g_version g ++ eol l0 ++ block ++ extra).
  { unfold all, block. apply print_head_d_shape. }
  set (M := length (g_method g)). set (T := length (g_target g)).
  rewrite Hall at 2.
  rewrite req_method_chunk by (cbn [length]; assumption || qlia). cbn [app Nat.add].
  rewrite req_step_method_sp.
  assert (Hm : slice_chk 0 M all = Ok (g_method g)).
  { rewrite Hall. apply (slice_chk_mid [] (g_method g)); reflexivity. }
  fold M. rewrite Hm. rewrite Hmok.
  destruct (g_target g) as [|t0 target'] eqn:Et; [contradiction|].
  cbn [forallb] in Htplain. apply andb_true_iff in Htplain as [Ht0 Htp].
  cbn [app]. rewrite req_step_path by exact Ht0. cbn [Nat.eqb].
  rewrite req_path_chunk by (try assumption; qlia).
  rewrite req_step_path_sp.
  destruct (Nat.eqb (S M) 0) eqn:E0; [apply Nat.eqb_eq in E0; qlia|].
  rewrite req_version_chunk by (cbn [length]; assumption || qlia). cbn [app].
  set (pe := S (S M) + length target').
  set (pv := S pe + length (g_version g)).
  set (pl := pv + length (eol l0)).
  assert (Hline : forall X,
    req_loop all (eol l0 ++ X) pv RVersion (g_method g) (S M) pe (g_version g) 0 =
    req_loop all X pl RHeader (g_method g) (S M) pe (g_version g) 1).
  { intros X. subst pl. destruct l0; cbn [eol app length].
    - rewrite req_step_version_lf, Hvcode. replace (pv + 1) with (S pv) by qlia. reflexivity.
    - rewrite req_step_cr, req_step_version_lf, Hvcode. replace (pv + 2) with (S (S pv)) by qlia. reflexivity. }
  fold pe. fold pv. rewrite Hline.
  assert (HT : T = S (length target')) by (subst T; reflexivity).
  assert (Hfin : forall h e, S pl + e = S (length (print_head_d l0 ds lb g)) -> h = hdr_fold [] (g_headers g) ->
     Ok (mk_scan (g_method g) (S M) pe (g_version g) h (S pl + e)) =
     Ok (mk_scan (g_method g) (M + 1) (M + 1 + T) (g_version g) (hdr_fold [] (g_headers g)) (S (length (print_head_d l0 ds lb g))))).
  { intros h e He ->. rewrite He. repeat f_equal; subst pe; qlia. }
  assert (Hpl : pl + length block = length (print_head_d l0 ds lb g)).
  { rewrite print_head_d_length. fold block. rewrite Et. fold M. subst pl pv pe. cbn [length]. rewrite Hvl. qlia. }
  destruct (g_headers g) as [|h hs] eqn:Eh.
  - subst block. cbn [print_hlines_d app] in *. destruct lb; cbn [eol app length] in *.
    + rewrite req_step_blank. replace (S (S pl)) with (S pl + 1) by qlia. apply Hfin; [qlia|reflexivity].
    + rewrite req_step_cr, req_step_blank. replace (S (S (S pl))) with (S pl + 2) by qlia. apply Hfin; [qlia|reflexivity].
  - assert (Hn : name_ok (hl_name h) = true).
    { cbn [hlines_ok forallb] in Hlines. apply andb_true_iff in Hlines as [Hh _]. apply andb_true_iff in Hh as [Hh _]. exact Hh. }
    assert (Hn' := Hn). unfold name_ok in Hn'. apply andb_true_iff in Hn' as [Hn' _]. apply andb_true_iff in Hn' as [Hnn Hnt].
    assert (Hblock : exists c brest, block ++ extra = c :: brest /\ tchar c = true).
    { subst block. cbn [print_hlines_d]. unfold print_hline_d at 1. destruct (hl_name h) as [|c n']; [discriminate|].
      cbn [forallb] in Hnt. apply andb_true_iff in Hnt as [Hc _]. eexists. eexists. split; [|exact Hc].
      rewrite <- !app_assoc. cbn [app]. reflexivity. }
    destruct Hblock as [c [brest [Hb Hc]]]. rewrite Hb.
    rewrite req_step_header by exact Hc.
    assert (Hall2 : all = (g_method g ++ SP :: (t0 :: target') ++ SP :: g_version g ++ eol l0) ++ block ++ extra).
    { rewrite Hall. repeat (progress (try rewrite <- !app_assoc; cbn [app])). reflexivity. }
    assert (Hlpre : pl = length (g_method g ++ SP :: (t0 :: target') ++ SP :: g_version g ++ eol l0)).
    { rewrite !app_length. cbn [length]. rewrite !app_length. cbn [length]. rewrite !app_length.
      subst pl pv pe. fold M. qlia. }
    rewrite Hall2. rewrite (slice_chk_tail _ (block ++ extra) pl Hlpre).
    unfold parse_headers.
    assert (Hne : h :: hs <> []) by discriminate.
    pose proof (hdr_block_d (h :: hs) ds lb [] extra 0 0 0 [] Hlines Hdk (or_introl Hne)) as Hhb.
    cbn [length] in Hhb. change ([] ++ ?x) with x in Hhb. fold block in Hhb. rewrite Hhb.
    apply Hfin; [cbn [Nat.add]; qlia|reflexivity].
Qed.

Lemma request_uri_some https hostv target auth path query :
  request_uri https hostv target = Some (auth, path, query) ->
  no_host (usable_host hostv) target = false /\ uri_of https (usable_host hostv) target = Some (auth, path, query).
Proof.
  unfold request_uri. destruct (no_host (usable_host hostv) target); [discriminate|]. intros H. split; [reflexivity | exact H].
Qed.

Lemma parse_request_print_d https dh l0 ds lb g extra auth path query :
  greq_ok g = true -> decos_ok ds (g_headers g) = true ->
  request_uri https (g_host dh g) (g_target g) = Some (auth, path, query) ->
  parse_request https dh (print_head_d l0 ds lb g ++ extra) =
  Ok (mk_request (g_method g) path query (if g_v11 g then 11%N else 10%N) (g_hmap g) auth extra).
Proof.
  intros Hok Hdk Huri. apply request_uri_some in Huri as [Hnh Huri]. pose proof (greq_ok_facts g Hok) as F.
  unfold parse_request. rewrite (req_loop_print_d l0 ds lb g extra F Hdk). cbn [obind].
  pose proof (method_ok_facts g F) as Hmok.
  destruct F as [Hmnon Hmlen Hmtok Htnon Htplain Hlines Hnodup].
  destruct (version_shape g) as [_ [_ Hvcode]].
  unfold req_finish. cbn [sc_pe sc_ps sc_headers sc_method sc_ver sc_end].
  rewrite (hdr_fold_g g Hnodup).
  assert (Htl : 0 < length (g_target g)) by (destruct (g_target g); [contradiction|cbn [length]; qlia]).
  destruct (Nat.leb (length (g_method g) + 1 + length (g_target g)) (length (g_method g) + 1)) eqn:E;
    [apply Nat.leb_le in E; qlia|].
  unfold g_host in Hnh, Huri.
  assert (Ht : slice_chk (length (g_method g) + 1) (length (g_method g) + 1 + length (g_target g)) (print_head_d l0 ds lb g ++ extra) = Ok (g_target g)).
  { rewrite print_head_d_shape.
    change (g_method g ++ SP :: g_target g ++ ?x) with (g_method g ++ [SP] ++ g_target g ++ x).
    rewrite app_assoc. apply slice_chk_mid; [rewrite app_length; cbn [length]; qlia|reflexivity]. }
  rewrite Ht. cbn [obind].
  rewrite Hnh, Hmok. cbn [negb]. rewrite Huri, Hvcode.
  rewrite (slice_chk_tail (print_head_d l0 ds lb g) extra (length (print_head_d l0 ds lb g)) eq_refl). cbn [obind]. reflexivity.
Qed.

(** * Where such a head ends *)

Lemma bl_chunk : forall x ir r, forallb no_crlf x = true -> x <> [] ->
  bl_end ir (x ++ r) = option_map (fun k => length x + k) (bl_end false r).
Proof.
  induction x as [|c x IH]; intros ir r Hx Hne; [contradiction|].
  cbn [forallb] in Hx. apply andb_true_iff in Hx as [Hc Hx]. destruct (no_crlf_spec _ Hc) as [H1 H2].
  cbn [app bl_end]. rewrite H1, H2. destruct x as [|c' x'].
  - cbn [app length]. destruct (bl_end false r); reflexivity.
  - rewrite (IH false r Hx ltac:(discriminate)). destruct (bl_end false r); cbn [option_map length]; [f_equal; qlia|reflexivity].
Qed.

Lemma bl_eol0 lf r : bl_end false (eol lf ++ r) = option_map (fun k => length (eol lf) + k) (bl_end true r).
Proof.
  destruct lf; cbn [eol app length].
  - change (bl_end false (LF :: r)) with (option_map S (bl_end true r)). destruct (bl_end true r); reflexivity.
  - change (bl_end false (CR :: LF :: r)) with (option_map S (option_map S (bl_end true r))). destruct (bl_end true r); reflexivity.
Qed.

Lemma bl_eol1 lf r : bl_end true (eol lf ++ r) = Some (length (eol lf)).
Proof. destruct lf; reflexivity. Qed.

Lemma bl_line_e x lf ir r : forallb no_crlf x = true -> x <> [] ->
  bl_end ir (x ++ eol lf ++ r) = option_map (fun k => length x + length (eol lf) + k) (bl_end true r).
Proof.
  intros Hx Hne. rewrite bl_chunk by assumption. rewrite bl_eol0.
  destruct (bl_end true r); cbn [option_map]; [f_equal; qlia|reflexivity].
Qed.

Lemma hline_d_shape d h : name_ok (hl_name h) = true -> value_ok (hl_value h) = true -> deco_ok d h = true ->
  let x := hl_name h ++ [COLON] ++ h_lead d h ++ hl_value h ++ d_post d in
  print_hline_d d h = x ++ eol (d_lf d) /\ x <> [] /\ forallb no_crlf x = true.
Proof.
  intros Hn Hv Hd x. destruct (deco_ok_facts _ _ Hd) as [Hlead [Htrail _]].
  split; [unfold x, print_hline_d, h_lead; rewrite <- !app_assoc; reflexivity|].
  unfold name_ok in Hn. apply andb_true_iff in Hn as [Hn _]. apply andb_true_iff in Hn as [Hnn Hnt].
  split; [subst x; destruct (hl_name h); [discriminate|discriminate]|].
  subst x. rewrite !forallb_app. rewrite (forallb_imp tchar no_crlf _ tchar_no_crlf Hnt).
  rewrite (ows_all_no_crlf _ Hlead), (value_ok_no_crlf _ Hv), (ows_all_no_crlf _ Htrail). reflexivity.
Qed.

Lemma bl_block_d : forall hs ds lb rest, hlines_ok hs = true -> decos_ok ds hs = true ->
  bl_end true ((print_hlines_d ds hs ++ eol lb) ++ rest) = Some (length (print_hlines_d ds hs ++ eol lb)).
Proof.
  induction hs as [|h hs IH]; intros ds lb rest Hok Hdk.
  - cbn [print_hlines_d app]. apply bl_eol1.
  - cbn [hlines_ok forallb] in Hok. apply andb_true_iff in Hok as [Hh Hok]. apply andb_true_iff in Hh as [Hn Hv].
    cbn [decos_ok] in Hdk. apply andb_true_iff in Hdk as [Hd Hdk].
    destruct (hline_d_shape (hd deco0 ds) h Hn Hv Hd) as [Hp [Hne Hx]].
    set (x := hl_name h ++ [COLON] ++ h_lead (hd deco0 ds) h ++ hl_value h ++ d_post (hd deco0 ds)) in *.
    cbn [print_hlines_d]. rewrite Hp.
    replace ((((x ++ eol (d_lf (hd deco0 ds))) ++ print_hlines_d (tl ds) hs) ++ eol lb) ++ rest)
      with (x ++ eol (d_lf (hd deco0 ds)) ++ ((print_hlines_d (tl ds) hs ++ eol lb) ++ rest))
      by (rewrite <- !app_assoc; reflexivity).
    rewrite bl_line_e by assumption. fold (hlines_ok hs) in Hok. rewrite (IH (tl ds) lb rest Hok Hdk). cbn [option_map]. f_equal.
    repeat rewrite app_length. qlia.
Qed.

Lemma blank_end_print_d l0 ds lb g rest : greq_facts g -> decos_ok ds (g_headers g) = true ->
  blank_end (print_head_d l0 ds lb g ++ rest) = Some (length (print_head_d l0 ds lb g)).
Proof.
  intros F Hdk. destruct F as [Hmnon Hmlen Hmtok Htnon Htplain Hlines Hnodup].
  destruct (version_shape g) as [Hvc [Hvl _]].
  unfold blank_end. rewrite print_head_d_shape, print_head_d_length.
  set (x := g_method g ++ SP :: g_target g ++ SP :: g_version g).
  replace (g_method g ++ SP :: g_target g ++ SP :: g_version g ++ eol l0 ++ (print_hlines_d ds (g_headers g) ++ eol lb) ++ rest)
    with (x ++ eol l0 ++ (print_hlines_d ds (g_headers g) ++ eol lb) ++ rest)
    by (unfold x; repeat (progress (try rewrite <- !app_assoc; cbn [app])); reflexivity).
  rewrite bl_line_e.
  - rewrite (bl_block_d _ ds lb rest Hlines Hdk). cbn [option_map]. f_equal. unfold x.
    rewrite !app_length. cbn [length]. rewrite !app_length. cbn [length]. rewrite Hvl. qlia.
  - unfold x. rewrite forallb_app. rewrite (forallb_imp tchar no_crlf _ tchar_no_crlf Hmtok). cbn [forallb andb].
    rewrite forallb_app. rewrite (forallb_imp plain no_crlf _ plain_no_crlf Htplain). cbn [forallb]. rewrite Hvc. reflexivity.
  - unfold x. destruct (g_method g); discriminate.
Qed.

Lemma valid_start_print_d l0 ds lb g rest : greq_facts g -> valid_start (print_head_d l0 ds lb g ++ rest) = true.
Proof.
  intros F. rewrite print_head_d_shape. apply valid_start_token; [exact (gf_mtok g F)|exact (gf_mlen g F)|exact (gf_mnon g F)].
Qed.

(** * Any head that the parser reads back: head, then body, for every schedule *)

Lemma serve_printed : forall grow mode https dh max_len limit head rest sched method path query v hm auth,
  grow_ok grow -> sched_pos sched -> length head <= max_len ->
  blank_end (head ++ rest) = Some (length head) -> valid_start (head ++ rest) = true ->
  (forall extra, parse_request https dh (head ++ extra) = Ok (mk_request method path query v hm auth extra)) ->
  N.to_nat (N.min (body_length method hm) limit) <= length rest ->
  length head + N.to_nat (N.min (body_length method hm) limit) <= sum_sched sched ->
  exists sv, serve grow mode https dh max_len limit (head ++ rest) sched = Ok sv /\
             observed sv = Some (mk_expected method path query v hm auth (firstn (N.to_nat (N.min (body_length method hm) limit)) rest)).
Proof.
  intros grow mode https dh max_len limit head rest sched method path query v hm auth Hg Hp Hmax Hbe Hvs Hparse Hneed1 Hneed2.
  set (need := N.to_nat (N.min (body_length method hm) limit)) in *.
  set (stream := head ++ rest) in *. set (H := length head) in *.
  set (d := Nat.min (sum_sched sched) (length stream)).
  assert (Hls : length stream = H + length rest) by (unfold stream; rewrite app_length; reflexivity).
  assert (Hd : H + need <= d) by qlia.
  assert (HdS : d <= length stream) by qlia.
  assert (Hhs : head_spec max_len (firstn d stream) = Ok H).
  { unfold head_spec, blank_end in *. rewrite (bl_end_firstn false stream H d Hbe) by qlia.
    destruct (Nat.leb H max_len) eqn:E; [|apply Nat.leb_gt in E; qlia].
    rewrite valid_start_prefix_stable; [rewrite Hvs; reflexivity|exact HdS|].
    right. rewrite ctn_firstn, Hbe. apply Nat.leb_le. qlia. }
  pose proof (serve_head grow Hg mode https dh max_len limit stream sched Hp) as Hs. cbv zeta in Hs. fold d in Hs.
  rewrite Hhs in Hs. destruct Hs as [c [r' [Hc1 [Hc2 [Hat Hs]]]]].
  assert (Hcd : c <= d) by (destruct Hat as [_ [_ [? _]]]; assumption).
  assert (Hbuf : firstn c stream = head ++ firstn (c - H) rest).
  { unfold stream. rewrite firstn_app. fold H. rewrite firstn_all2 by (fold H; qlia). reflexivity. }
  rewrite Hbuf in Hs. rewrite Hparse in Hs.
  cbn [obind q_early q_method q_headers] in Hs.
  pose proof (read_to_bytes_exact grow Hg mode (firstn (c - H) rest) (body_length method hm) limit stream d c r' Hat) as Hb.
  unfold body_spec in Hb. fold need in Hb.
  assert (Hel : length (firstn (c - H) rest) = c - H) by (rewrite firstn_length; qlia).
  assert (Hdl : length (firstn (d - c) (skipn c stream)) = d - c) by (rewrite firstn_length, skipn_length; qlia).
  rewrite Hel, Hdl in Hb.
  destruct (Nat.leb need (c - H + (d - c))) eqn:E; [|apply Nat.leb_gt in E; qlia].
  destruct Hb as [r'' [Hb _]]. rewrite Hb in Hs.
  eexists. split; [exact Hs|]. unfold observed. cbn [sv_body sv_request q_method q_path q_query q_version q_headers q_authority].
  f_equal. f_equal.
  rewrite firstn_app_firstn by (rewrite Hel; qlia).
  assert (Hsk : skipn c stream = skipn (c - H) rest).
  { unfold stream. rewrite skipn_app. fold H. rewrite skipn_all2 by (fold H; qlia). reflexivity. }
  rewrite Hsk, firstn_skipn. reflexivity.
Qed.

(** * The theorems: the general printer, then its instances *)

Lemma parse_print_ows_lemma : forall grow mode https dh max_len limit l0 ds lb g rest sched e,
  grow_ok grow -> sched_pos sched -> greq_ok g = true -> decos_ok ds (g_headers g) = true ->
  length (print_head_d l0 ds lb g) <= max_len ->
  expect https dh limit g rest = Some e ->
  N.to_nat (N.min (body_length (g_method g) (g_hmap g)) limit) <= length rest ->
  length (print_head_d l0 ds lb g) + N.to_nat (N.min (body_length (g_method g) (g_hmap g)) limit) <= sum_sched sched ->
  exists sv, serve grow mode https dh max_len limit (print_head_d l0 ds lb g ++ rest) sched = Ok sv /\ observed sv = Some e.
Proof.
  intros grow mode https dh max_len limit l0 ds lb g rest sched e Hg Hp Hok Hdk Hmax Hex Hn1 Hn2.
  destruct (expect_some _ _ _ _ _ _ Hex) as [auth [path [query [Huri He]]]].
  pose proof (greq_ok_facts g Hok) as F. rewrite He.
  apply serve_printed; try assumption.
  - apply blank_end_print_d; assumption.
  - apply valid_start_print_d. exact F.
  - intros extra. apply (parse_request_print_d https dh l0 ds lb g extra auth path query Hok Hdk Huri).
Qed.

(** [print_head_e] and [print_head] are [print_head_d] without added whitespace *)
Lemma print_hlines_e_d : forall hs fl, print_hlines_e fl hs = print_hlines_d (map deco_of_lf fl) hs.
Proof.
  induction hs as [|h hs IH]; intros fl; [reflexivity|]. cbn [print_hlines_e print_hlines_d].
  rewrite IH. destruct fl as [|f fl]; cbn [map hd tl]; unfold print_hline_e, print_hline_d, deco0, deco_of_lf; cbn [d_pre d_post d_lf];
    rewrite !app_nil_r; cbn [app]; reflexivity.
Qed.

Lemma decos_ok_lf : forall hs fl, decos_ok (map deco_of_lf fl) hs = true.
Proof.
  induction hs as [|h hs IH]; intros fl; [reflexivity|]. cbn [decos_ok].
  assert (H1 : deco_ok (hd deco0 (map deco_of_lf fl)) h = true).
  { destruct fl; cbn [map hd]; unfold deco_ok, deco0, deco_of_lf; cbn [d_pre d_post forallb null]; rewrite orb_true_r; reflexivity. }
  rewrite H1. cbn [andb]. destruct fl as [|f fl]; cbn [map tl]; [apply (IH [])|apply IH].
Qed.

Lemma print_head_e_d l0 fl lb g : print_head_e l0 fl lb g = print_head_d l0 (map deco_of_lf fl) lb g.
Proof. unfold print_head_e, print_head_d. rewrite print_hlines_e_d. reflexivity. Qed.

Lemma parse_request_print_e https dh l0 fl lb g extra auth path query :
  greq_ok g = true -> request_uri https (g_host dh g) (g_target g) = Some (auth, path, query) ->
  parse_request https dh (print_head_e l0 fl lb g ++ extra) =
  Ok (mk_request (g_method g) path query (if g_v11 g then 11%N else 10%N) (g_hmap g) auth extra).
Proof.
  intros Hok Huri. rewrite print_head_e_d.
  apply (parse_request_print_d https dh l0 (map deco_of_lf fl) lb g extra auth path query Hok (decos_ok_lf _ _) Huri).
Qed.

Lemma parse_request_print https dh g extra auth path query :
  greq_ok g = true -> request_uri https (g_host dh g) (g_target g) = Some (auth, path, query) ->
  parse_request https dh (print_head g ++ extra) =
  Ok (mk_request (g_method g) path query (if g_v11 g then 11%N else 10%N) (g_hmap g) auth extra).
Proof. rewrite <- print_head_e_crlf. apply parse_request_print_e. Qed.

Lemma parse_print_lf_lemma : forall grow mode https dh max_len limit l0 fl lb g rest sched e,
  grow_ok grow -> sched_pos sched -> greq_ok g = true -> length (print_head_e l0 fl lb g) <= max_len ->
  expect https dh limit g rest = Some e ->
  N.to_nat (N.min (body_length (g_method g) (g_hmap g)) limit) <= length rest ->
  length (print_head_e l0 fl lb g) + N.to_nat (N.min (body_length (g_method g) (g_hmap g)) limit) <= sum_sched sched ->
  exists sv, serve grow mode https dh max_len limit (print_head_e l0 fl lb g ++ rest) sched = Ok sv /\ observed sv = Some e.
Proof.
  intros grow mode https dh max_len limit l0 fl lb g rest sched e Hg Hp Hok. rewrite print_head_e_d. intros Hmax Hex Hn1 Hn2.
  apply parse_print_ows_lemma; try assumption. apply decos_ok_lf.
Qed.

Lemma parse_print_lemma : forall grow mode https dh max_len limit g rest sched e,
  grow_ok grow -> sched_pos sched -> greq_ok g = true -> length (print_head g) <= max_len ->
  expect https dh limit g rest = Some e ->
  N.to_nat (N.min (body_length (g_method g) (g_hmap g)) limit) <= length rest ->
  length (print_head g) + N.to_nat (N.min (body_length (g_method g) (g_hmap g)) limit) <= sum_sched sched ->
  exists sv, serve grow mode https dh max_len limit (print_head g ++ rest) sched = Ok sv /\ observed sv = Some e.
Proof. intros grow mode https dh max_len limit g. rewrite <- print_head_e_crlf. apply parse_print_lf_lemma. Qed.

Lemma schedule_independent_lemma : forall grow1 grow2 mode1 mode2 https dh max_len limit g rest sched1 sched2,
  grow_ok grow1 -> grow_ok grow2 -> sched_pos sched1 -> sched_pos sched2 ->
  greq_ok g = true -> length (print_head g) <= max_len ->
  expect https dh limit g rest <> None ->
  N.to_nat (N.min (body_length (g_method g) (g_hmap g)) limit) <= length rest ->
  length (print_head g) + N.to_nat (N.min (body_length (g_method g) (g_hmap g)) limit) <= sum_sched sched1 ->
  length (print_head g) + N.to_nat (N.min (body_length (g_method g) (g_hmap g)) limit) <= sum_sched sched2 ->
  exists sv1 sv2,
    serve grow1 mode1 https dh max_len limit (print_head g ++ rest) sched1 = Ok sv1 /\
    serve grow2 mode2 https dh max_len limit (print_head g ++ rest) sched2 = Ok sv2 /\
    observed sv1 = observed sv2 /\ observed sv1 <> None.
Proof.
  intros grow1 grow2 mode1 mode2 https dh max_len limit g rest sched1 sched2 Hg1 Hg2 Hp1 Hp2 Hok Hmax Hex Hn H1 H2.
  destruct (expect https dh limit g rest) as [e|] eqn:He; [|contradiction].
  destruct (parse_print_lemma grow1 mode1 https dh max_len limit g rest sched1 e Hg1 Hp1 Hok Hmax He Hn H1) as [sv1 [Hs1 Ho1]].
  destruct (parse_print_lemma grow2 mode2 https dh max_len limit g rest sched2 e Hg2 Hp2 Hok Hmax He Hn H2) as [sv2 [Hs2 Ho2]].
  exists sv1, sv2. repeat split; try assumption; [congruence|rewrite Ho1; discriminate].
Qed.

(** the same request sent with two different spellings of its optional whitespace and line ends, cut in two
    different ways, is the same request to a handler *)
Lemma ows_independent_lemma : forall grow1 grow2 mode1 mode2 https dh max_len limit l0 l0' ds ds' lb lb' g rest sched1 sched2,
  grow_ok grow1 -> grow_ok grow2 -> sched_pos sched1 -> sched_pos sched2 ->
  greq_ok g = true -> decos_ok ds (g_headers g) = true -> decos_ok ds' (g_headers g) = true ->
  length (print_head_d l0 ds lb g) <= max_len -> length (print_head_d l0' ds' lb' g) <= max_len ->
  expect https dh limit g rest <> None ->
  N.to_nat (N.min (body_length (g_method g) (g_hmap g)) limit) <= length rest ->
  length (print_head_d l0 ds lb g) + N.to_nat (N.min (body_length (g_method g) (g_hmap g)) limit) <= sum_sched sched1 ->
  length (print_head_d l0' ds' lb' g) + N.to_nat (N.min (body_length (g_method g) (g_hmap g)) limit) <= sum_sched sched2 ->
  exists sv1 sv2,
    serve grow1 mode1 https dh max_len limit (print_head_d l0 ds lb g ++ rest) sched1 = Ok sv1 /\
    serve grow2 mode2 https dh max_len limit (print_head_d l0' ds' lb' g ++ rest) sched2 = Ok sv2 /\
    observed sv1 = observed sv2 /\ observed sv1 <> None.
Proof.
  intros grow1 grow2 mode1 mode2 https dh max_len limit l0 l0' ds ds' lb lb' g rest sched1 sched2
         Hg1 Hg2 Hp1 Hp2 Hok Hd Hd' Hmax Hmax' Hex Hn H1 H2.
  destruct (expect https dh limit g rest) as [e|] eqn:He; [|contradiction].
  destruct (parse_print_ows_lemma grow1 mode1 https dh max_len limit l0 ds lb g rest sched1 e Hg1 Hp1 Hok Hd Hmax He Hn H1) as [sv1 [Hs1 Ho1]].
  destruct (parse_print_ows_lemma grow2 mode2 https dh max_len limit l0' ds' lb' g rest sched2 e Hg2 Hp2 Hok Hd' Hmax' He Hn H2) as [sv2 [Hs2 Ho2]].
  exists sv1, sv2. repeat split; try assumption; [congruence|rewrite Ho1; discriminate].
Qed.
