(** C04 — lifetimes read from [kvarn-cache-control: N<unit>] and from [cache-control: …, max-age=N, …]
    (Model/CacheControl.v), for every N, unit and surrounding directives. *)
From KV Require Import Bytes RustInt Range RangeProofs DecProofs CacheControl Cache CacheProofs Cache04Proofs.
From Coq Require Import ZifyBool ZifyNat ZifyN.
Open Scope N_scope.
Arguments N.add : simpl never. Arguments N.sub : simpl never. Arguments N.mul : simpl never.
Arguments N.eqb : simpl never. Arguments N.ltb : simpl never. Arguments N.leb : simpl never.
Arguments N.of_nat : simpl never.

(** ---- kvarn-cache-control: N<unit> ---- *)
Definition unit_seconds (u : N) : option N :=
  if u =? 115 then Some 1 else if u =? 109 then Some 60 else if u =? 104 then Some 3600
  else if u =? 100 then Some 86400 else None.

Lemma dec_cons n : exists c rest, dec n = c :: rest /\ is_digit c = true /\ all_digits (c :: rest) = true.
Proof.
  destruct (dec_spec n) as (ds & E & Hne & Hd & _). destruct ds as [|c rest]; [congruence|].
  exists c, rest. split; [exact E|]. split; [|exact Hd].
  unfold all_digits in Hd. cbn [forallb] in Hd. apply andb_true_iff in Hd as [H _]. exact H.
Qed.

Lemma digits_visible ds : all_digits ds = true -> forallb visible ds = true.
Proof.
  unfold all_digits. rewrite !forallb_forall. intros H y Hy. specialize (H y Hy). unfold is_digit, visible in *. lia.
Qed.

Lemma from_kvarn_unit checked n u m :
  unit_seconds u = Some m -> n * m <= u32_max ->
  from_kvarn_cache_control checked (dec n ++ [u]) = Ok {| cc_max_age := Some (n * m); cc_no_store := false |}.
Proof.
  intros Hu Hle.
  assert (Hm : 1 <= m /\ is_ascii_alpha u = true /\ is_ws u = false /\
               (if u =? 115 then Some 1 else if u =? 109 then Some 60 else if u =? 104 then Some 3600
                else if u =? 100 then Some 86400 else None) = Some m).
  { unfold unit_seconds in Hu. split; [|split; [|split; [|exact Hu]]];
      destruct (u =? 115) eqn:E1; [inversion Hu; lia| |apply N.eqb_eq in E1; subst; reflexivity| |apply N.eqb_eq in E1; subst; reflexivity|];
      destruct (u =? 109) eqn:E2; [inversion Hu; lia| |apply N.eqb_eq in E2; subst; reflexivity| |apply N.eqb_eq in E2; subst; reflexivity|];
      destruct (u =? 104) eqn:E3; [inversion Hu; lia| |apply N.eqb_eq in E3; subst; reflexivity| |apply N.eqb_eq in E3; subst; reflexivity|];
      destruct (u =? 100) eqn:E4; [inversion Hu; lia| |apply N.eqb_eq in E4; subst; reflexivity| |apply N.eqb_eq in E4; subst; reflexivity|];
      discriminate. }
  destruct Hm as (Hm1 & Halpha & Hws & Hmult).
  assert (Hn : n <= u32_max) by nia.
  destruct (dec_cons n) as (c & rest & E & Hc & Hd).
  pose proof (parse_u32_dec n Hn) as Hp. rewrite E in *. cbn [app].
  unfold from_kvarn_cache_control.
  rewrite (trim_id (c :: rest ++ [u]) c u rest eq_refl); [| unfold is_digit, is_ws in *; lia | exact Hws].
  assert (Hnone : beq (c :: rest ++ [u]) (B "none") = false).
  { change (B "none") with (110 :: B "one"). cbn [beq]. unfold is_digit in Hc.
    destruct (c =? 110) eqn:X; [lia | reflexivity]. }
  assert (Hfull : beq (c :: rest ++ [u]) (B "full") = false).
  { change (B "full") with (102 :: B "ull"). cbn [beq]. unfold is_digit in Hc.
    destruct (c =? 102) eqn:X; [lia | reflexivity]. }
  rewrite Hnone, Hfull.
  assert (Hrev : rev (c :: rest ++ [u]) = u :: rev (c :: rest)).
  { change (c :: rest ++ [u]) with ((c :: rest) ++ [u]). apply rev_unit. }
  rewrite Hrev.
  assert (Hlen : Nat.ltb 1 (length (c :: rest ++ [u])) = true).
  { cbn [length]. rewrite app_length. cbn [length]. apply Nat.ltb_lt. lia. }
  rewrite Hlen, Hc, Halpha. cbn [andb]. rewrite rev_involutive, Hp, Hmult.
  assert (Hb : (n * m <=? u32_max) = true) by lia. rewrite Hb. reflexivity.
Qed.

(** a response carrying [kvarn-cache-control: N<unit>] (unit s, m, h or d; N·unit within u32) lives N·unit seconds *)
Lemma kvarn_unit_lifetime n u m hs :
  unit_seconds u = Some m -> n * m <= u32_max ->
  assoc (B "kvarn-cache-control") hs = Some (dec n ++ [u]) ->
  forall st body sp cmp, lifetime_ms (mkFat st hs body sp cmp) = Some (n * m * 1000).
Proof.
  intros Hu Hle Hk st body sp cmp. unfold lifetime_ms, cc_from_headers. cbn [f_headers]. rewrite Hk.
  assert (Hvis : to_str_ok (dec n ++ [u]) = true).
  { unfold to_str_ok. rewrite forallb_app'. apply andb_true_iff. split.
    - destruct (dec_cons n) as (c & rest & E & _ & Hd). rewrite E. apply digits_visible. exact Hd.
    - cbn [forallb]. rewrite andb_true_r. unfold unit_seconds in Hu. unfold visible.
      destruct (u =? 115) eqn:E1; [lia|]. destruct (u =? 109) eqn:E2; [lia|]. destruct (u =? 104) eqn:E3; [lia|].
      destruct (u =? 100) eqn:E4; [lia | discriminate]. }
  rewrite Hvis, (from_kvarn_unit false n u m Hu Hle). reflexivity.
Qed.

(** ---- cache-control: max-age=N among other directives ---- *)
(** a segment that does not set max-age: after trimming it starts with "no-store" or not with "max-age=" *)
Definition other_directive (s : bytes) : bool :=
  starts_with (B "no-store") (trim s) || negb (starts_with (B "max-age=") (trim s)).

Lemma segments_others l : forall ma ns,
  forallb other_directive l = true -> exists ns', cc_segments l ma ns = Ok {| cc_max_age := ma; cc_no_store := ns' |}.
Proof.
  induction l as [|s l IH]; intros ma ns H; cbn [cc_segments].
  - exists ns. reflexivity.
  - cbn [forallb] in H. apply andb_true_iff in H as [Hs Hl]. unfold other_directive in Hs.
    destruct (starts_with (B "no-store") (trim s)) eqn:N1; [apply IH; exact Hl|].
    cbn [orb] in Hs. apply negb_true_iff in Hs. unfold strip_prefix. rewrite Hs. apply IH. exact Hl.
Qed.
Lemma segments_others_app l : forall rest ma ns,
  forallb other_directive l = true -> exists ns', cc_segments (l ++ rest) ma ns = cc_segments rest ma ns'.
Proof.
  induction l as [|s l IH]; intros rest ma ns H; cbn [cc_segments app].
  - exists ns. reflexivity.
  - cbn [forallb] in H. apply andb_true_iff in H as [Hs Hl]. unfold other_directive in Hs.
    destruct (starts_with (B "no-store") (trim s)) eqn:N1; [apply IH; exact Hl|].
    cbn [orb] in Hs. apply negb_true_iff in Hs. unfold strip_prefix. rewrite Hs. apply IH. exact Hl.
Qed.

Lemma segments_max_age_among l1 seg l2 n ns :
  n <= u32_max -> forallb other_directive l1 = true -> forallb other_directive l2 = true ->
  trim seg = B "max-age=" ++ dec n ->
  exists ns', cc_segments (l1 ++ seg :: l2) None ns = Ok {| cc_max_age := Some n; cc_no_store := ns' |}.
Proof.
  intros Hn H1 H2 Ht. destruct (segments_others_app l1 (seg :: l2) None ns H1) as [ns1 E1]. rewrite E1.
  cbn [cc_segments]. rewrite Ht.
  change (starts_with (B "no-store") (B "max-age=" ++ dec n)) with false. cbn iota.
  unfold strip_prefix.
  assert (Hst : starts_with (B "max-age=") (B "max-age=" ++ dec n) = true) by (apply starts_with_app; eexists; reflexivity).
  rewrite Hst, skipn_app_exact, (parse_u32_dec n Hn). apply segments_others. exact H2.
Qed.

(** [str::split(',')] undoes joining comma-free segments with commas *)
Fixpoint join_commas (segs : list bytes) : bytes :=
  match segs with
  | [] => []
  | [s] => s
  | s :: r => s ++ 44 :: join_commas r
  end.

Lemma mem_byte_app c s t : mem_byte c (s ++ t) = mem_byte c s || mem_byte c t.
Proof. induction s as [|x s IH]; cbn [mem_byte app]; [reflexivity|]. rewrite IH. apply orb_assoc. Qed.

Lemma split_on_seg sep s rest cur :
  mem_byte sep s = false -> split_on sep (s ++ sep :: rest) cur = (rev cur ++ s) :: split_on sep rest [].
Proof.
  revert cur; induction s as [|c s IH]; intros cur H; cbn [split_on app mem_byte] in *.
  - rewrite N.eqb_refl, app_nil_r. reflexivity.
  - apply orb_false_iff in H as [H1 H2]. rewrite H1, IH by assumption. cbn [rev]. rewrite <- app_assoc. reflexivity.
Qed.

Lemma split_join segs :
  segs <> [] -> forallb (fun s => negb (mem_byte 44 s)) segs = true -> split_on 44 (join_commas segs) [] = segs.
Proof.
  induction segs as [|s r IH]; intros Hne H; [congruence|].
  cbn [forallb] in H. apply andb_true_iff in H as [Hs Hr]. apply negb_true_iff in Hs.
  destruct r as [|s2 r].
  - cbn [join_commas]. rewrite split_on_nosep by exact Hs. reflexivity.
  - change (join_commas (s :: s2 :: r)) with (s ++ 44 :: join_commas (s2 :: r)).
    rewrite split_on_seg by exact Hs. cbn [rev app]. rewrite IH; [reflexivity | discriminate | exact Hr].
Qed.

(** [cache-control] made of comma-separated directives, exactly one of which is max-age=N (possibly padded with
    blanks) and none of the others sets max-age: the response lives N seconds *)
Lemma max_age_among_lifetime l1 seg l2 n hs :
  n <= u32_max ->
  forallb (fun s => negb (mem_byte 44 s)) (l1 ++ seg :: l2) = true ->
  forallb other_directive l1 = true -> forallb other_directive l2 = true ->
  trim seg = B "max-age=" ++ dec n ->
  assoc (B "kvarn-cache-control") hs = None ->
  assoc (B "cache-control") hs = Some (join_commas (l1 ++ seg :: l2)) ->
  to_str_ok (join_commas (l1 ++ seg :: l2)) = true ->
  forall st body sp cmp, lifetime_ms (mkFat st hs body sp cmp) = Some (n * 1000).
Proof.
  intros Hn Hc H1 H2 Ht Hk Hcc Hvis st body sp cmp. unfold lifetime_ms, cc_from_headers. cbn [f_headers].
  rewrite Hk, Hcc, Hvis. unfold from_cache_control. rewrite split_join; [| destruct l1; discriminate | exact Hc].
  destruct (segments_max_age_among l1 seg l2 n false Hn H1 H2 Ht) as [ns' E]. rewrite E. reflexivity.
Qed.
