(** C14 — proofs about Model/Nonce.v: the nonce rewriting loop equals the splice
    specification for every body; the serialised policy carries the nonce in the four
    directives; the Package chain always yields the demanded security headers and never
    the internal header; a nonce page is never admitted to the response cache. *)
From Coq Require Import Sorting.Permutation ZifyBool ZifyNat ZifyN.
From KV Require Import Bytes RuleSetStd RuleSet RuleSetProofs.
From KV Require Cache.
From KV Require Import Nonce.
Open Scope N_scope.
Arguments N.add : simpl never. Arguments N.sub : simpl never. Arguments N.eqb : simpl never.
Arguments N.ltb : simpl never. Arguments N.leb : simpl never.

(** ---- list helpers ---- *)
Lemma nth_error_app_len {A} (a t : list A) : nth_error (a ++ t) (length a) = hd_error t.
Proof. rewrite nth_error_app2 by lia. rewrite Nat.sub_diag. destruct t; reflexivity. Qed.
Lemma skipn_app_len {A} (a t : list A) : skipn (length a) (a ++ t) = t.
Proof. rewrite skipn_app, Nat.sub_diag, skipn_all. reflexivity. Qed.
Lemma skipn_app_len1 {A} (a : list A) x t : skipn (length a + 1) (a ++ x :: t) = t.
Proof.
  replace (length a + 1)%nat with (length (a ++ [x])) by (rewrite app_length; reflexivity).
  replace (a ++ x :: t) with ((a ++ [x]) ++ t) by (rewrite <- app_assoc; reflexivity).
  apply skipn_app_len.
Qed.
Lemma firstn_app_len {A} (a t : list A) : firstn (length a) (a ++ t) = a.
Proof. rewrite firstn_app, Nat.sub_diag, firstn_all. cbn [firstn]. apply app_nil_r. Qed.

Lemma slice_get_suffix (done rest : bytes) :
  slice_get (length done) (length (done ++ rest)) (done ++ rest) = Some rest.
Proof.
  unfold slice_get, slice. rewrite app_length.
  replace (Nat.leb (length done) (length done + length rest)) with true by (symmetry; apply Nat.leb_le; lia).
  rewrite Nat.leb_refl. cbn [andb]. rewrite skipn_app_len.
  rewrite firstn_all2 by lia. reflexivity.
Qed.

Lemma cow_replace_mid (a mid repl b : bytes) :
  cow_replace (length a) (length a + length mid) repl (a ++ mid ++ b) = Ok (a ++ repl ++ b).
Proof.
  unfold cow_replace.
  replace (Nat.ltb (length a + length mid) (length a)) with false by (symmetry; apply Nat.ltb_ge; lia).
  replace (Nat.leb (length a + length mid) (length (a ++ mid ++ b))) with true
    by (symmetry; apply Nat.leb_le; rewrite !app_length; lia).
  rewrite firstn_app_len.
  replace (skipn (length a + length mid) (a ++ mid ++ b)) with b; [reflexivity|].
  rewrite (app_assoc a mid b), <- app_length. symmetry. apply skipn_app_len.
Qed.

(** ---- pieces of the specification ---- *)
Lemma strip_prefix_app p t : strip_prefix p (p ++ t) = Some t.
Proof. induction p as [|x p IH]; cbn [strip_prefix app]; [reflexivity|]. rewrite N.eqb_refl. exact IH. Qed.
Lemma strip_prefix_some p : forall s t, strip_prefix p s = Some t -> s = p ++ t.
Proof.
  induction p as [|x p IH]; intros s t H; cbn [strip_prefix] in H; [inversion H; reflexivity|].
  destruct s as [|y s]; [discriminate|]. destruct (N.eqb x y) eqn:E; [|discriminate].
  apply N.eqb_eq in E. subst y. cbn [app]. f_equal. apply IH. exact H.
Qed.

Lemma split_at_byte_intro q v rest : ~ In q v -> split_at_byte q (v ++ q :: rest) = Some (v, rest).
Proof.
  induction v as [|x v IH]; intros Hn; cbn [split_at_byte app]; [rewrite N.eqb_refl; reflexivity|].
  destruct (N.eqb x q) eqn:E; [apply N.eqb_eq in E; exfalso; apply Hn; left; exact E|].
  rewrite IH; [reflexivity|]. intros Hi. apply Hn. right. exact Hi.
Qed.
Lemma split_at_byte_some q : forall s v rest, split_at_byte q s = Some (v, rest) -> s = v ++ q :: rest /\ ~ In q v.
Proof.
  induction s as [|c s IH]; intros v rest H; cbn [split_at_byte] in H; [discriminate|].
  destruct (N.eqb c q) eqn:E.
  - inversion H; subst. apply N.eqb_eq in E. subst c. split; [reflexivity|intros []].
  - destruct (split_at_byte q s) as [[a b]|] eqn:S; [|discriminate]. inversion H; subst.
    destruct (IH a rest eq_refl) as [Hs Hn]. split; [cbn [app]; f_equal; exact Hs|].
    intros [Hc|Hi]; [subst c; rewrite N.eqb_refl in E; discriminate|exact (Hn Hi)].
Qed.
Lemma split_at_byte_none q s : find_byte q s = None -> split_at_byte q s = None.
Proof.
  induction s as [|c s IH]; cbn [find_byte split_at_byte]; [reflexivity|].
  destruct (N.eqb c q); [discriminate|]. destruct (find_byte q s); [discriminate|]. intros _.
  rewrite IH; reflexivity.
Qed.
Lemma find_byte_split q : forall s i, find_byte q s = Some i ->
  exists v rest, s = v ++ q :: rest /\ length v = i /\ ~ In q v.
Proof.
  induction s as [|c s IH]; intros i H; cbn [find_byte] in H; [discriminate|].
  destruct (N.eqb c q) eqn:E.
  - inversion H; subst. apply N.eqb_eq in E. subst c. exists [], s. repeat split. intros [].
  - destruct (find_byte q s) as [j|]; [|discriminate]. inversion H; subst.
    destruct (IH j eq_refl) as [v [rest [Hs [Hl Hn]]]]. exists (c :: v), rest.
    split; [cbn [app]; f_equal; exact Hs|]. split; [cbn [length]; f_equal; exact Hl|].
    intros [Hc|Hi]; [subst c; rewrite N.eqb_refl in E; discriminate|exact (Hn Hi)].
Qed.

Lemma attr_at_some s q v rest :
  attr_at s = Some (q, v, rest) -> s = NONCE_EQ ++ q :: v ++ q :: rest /\ is_quote q = true /\ ~ In q v.
Proof.
  unfold attr_at. destruct (strip_prefix NONCE_EQ s) as [[|c t]|] eqn:P; try discriminate.
  destruct (is_quote c) eqn:Q; [|discriminate].
  destruct (split_at_byte c t) as [[a b]|] eqn:S; [|discriminate]. intros H. inversion H; subst.
  apply strip_prefix_some in P. apply split_at_byte_some in S as [St Hn]. subst t. repeat split; assumption.
Qed.
Lemma attr_at_intro q v rest :
  is_quote q = true -> ~ In q v -> attr_at (NONCE_EQ ++ q :: v ++ q :: rest) = Some (q, v, rest).
Proof. intros Q Hn. unfold attr_at. rewrite strip_prefix_app, Q, split_at_byte_intro by exact Hn. reflexivity. Qed.
Lemma attr_at_noquote q t : is_quote q = false -> attr_at (NONCE_EQ ++ q :: t) = None.
Proof. intros Q. unfold attr_at. rewrite strip_prefix_app, Q. reflexivity. Qed.
Lemma attr_at_noclose q t : is_quote q = true -> find_byte q t = None -> attr_at (NONCE_EQ ++ q :: t) = None.
Proof. intros Q F. unfold attr_at. rewrite strip_prefix_app, Q, (split_at_byte_none q t F). reflexivity. Qed.
Lemma attr_at_starts s : starts_with NONCE_EQ s = false -> attr_at s = None.
Proof.
  intros H. destruct (attr_at s) as [[[q v] rest]|] eqn:A; [|reflexivity]. exfalso.
  apply attr_at_some in A as [Hs _]. assert (T : starts_with NONCE_EQ s = true) by (apply starts_with_app; eauto).
  congruence.
Qed.

(** the specification does not depend on its fuel *)
Lemma spec_go_fuel n : forall f1 f2 s, (length s < f1)%nat -> (length s < f2)%nat -> spec_go f1 n s = spec_go f2 n s.
Proof.
  induction f1 as [|f1 IH]; intros f2 s H1 H2; [lia|]. destruct f2 as [|f2]; [lia|]. cbn [spec_go].
  destruct (attr_at s) as [[[q v] rest]|] eqn:A.
  - apply attr_at_some in A as [Hs _].
    assert (L : (length rest < length s)%nat) by (rewrite Hs, !app_length; cbn [length]; rewrite app_length; cbn [length]; lia).
    rewrite (IH f2 rest) by lia. reflexivity.
  - destruct s as [|c r]; [reflexivity|]. cbn [length] in *. rewrite (IH f2 r) by lia. reflexivity.
Qed.

Lemma nonce_spec_unfold n s :
  nonce_spec n s =
  match attr_at s with
  | Some (q, _, rest) => NONCE_EQ ++ q :: n ++ q :: nonce_spec n rest
  | None => match s with [] => [] | c :: r => c :: nonce_spec n r end
  end.
Proof.
  unfold nonce_spec. cbn [spec_go]. destruct (attr_at s) as [[[q v] rest]|] eqn:A.
  - apply attr_at_some in A as [Hs _].
    assert (L : (length rest < length s)%nat) by (rewrite Hs, !app_length; cbn [length]; rewrite app_length; cbn [length]; lia).
    rewrite (spec_go_fuel n (length s) (S (length rest)) rest) by lia. reflexivity.
  - destruct s as [|c r]; reflexivity.
Qed.

Lemma nonce_spec_lit n c r : attr_at (c :: r) = None -> nonce_spec n (c :: r) = c :: nonce_spec n r.
Proof. intros H. rewrite nonce_spec_unfold, H. reflexivity. Qed.
Lemma nonce_spec_nil n : nonce_spec n [] = [].
Proof. reflexivity. Qed.

(** [nonce=] cannot overlap itself: inside an occurrence no other one starts *)
Lemma spec_skip_eq n tail : attr_at (NONCE_EQ ++ tail) = None -> nonce_spec n (NONCE_EQ ++ tail) = NONCE_EQ ++ nonce_spec n tail.
Proof.
  intros H. change (NONCE_EQ ++ tail) with (110 :: 111 :: 110 :: 99 :: 101 :: 61 :: tail) in *.
  rewrite (nonce_spec_lit n 110 _ H).
  rewrite (nonce_spec_lit n 111 (110 :: 99 :: 101 :: 61 :: tail) eq_refl).
  rewrite (nonce_spec_lit n 110 (99 :: 101 :: 61 :: tail) eq_refl).
  rewrite (nonce_spec_lit n 99 (101 :: 61 :: tail) eq_refl).
  rewrite (nonce_spec_lit n 101 (61 :: tail) eq_refl).
  rewrite (nonce_spec_lit n 61 tail eq_refl).
  reflexivity.
Qed.

Lemma spec_no_occ n : forall s, find_sub NONCE_EQ s = None -> nonce_spec n s = s.
Proof.
  induction s as [|c r IH]; intros H; [reflexivity|]. cbn [find_sub] in H.
  destruct (starts_with NONCE_EQ (c :: r)) eqn:E; [discriminate|].
  destruct (find_sub NONCE_EQ r) eqn:F; [discriminate|].
  rewrite (nonce_spec_lit n c r (attr_at_starts _ E)), IH; reflexivity.
Qed.

Lemma find_sub_split : forall s i, find_sub NONCE_EQ s = Some i ->
  exists pre tail, s = pre ++ NONCE_EQ ++ tail /\ length pre = i /\
                   forall n, nonce_spec n s = pre ++ nonce_spec n (NONCE_EQ ++ tail).
Proof.
  induction s as [|c r IH]; intros i H.
  - cbn in H. discriminate.
  - cbn [find_sub] in H. destruct (starts_with NONCE_EQ (c :: r)) eqn:E.
    + inversion H; subst. apply starts_with_app in E as [tail Ht]. exists [], tail. rewrite Ht. repeat split.
    + destruct (find_sub NONCE_EQ r) as [j|] eqn:F; [|discriminate]. inversion H; subst.
      destruct (IH j eq_refl) as [pre [tail [Hr [Hl Hs]]]]. exists (c :: pre), tail.
      split; [cbn [app]; f_equal; exact Hr|]. split; [cbn [length]; f_equal; exact Hl|].
      intros n. rewrite (nonce_spec_lit n c r (attr_at_starts _ E)), Hs. reflexivity.
Qed.

(** ---- the loop ---- *)
Lemma nonce_loop_correct n : forall fuel rest done,
  (length rest < fuel)%nat ->
  nonce_loop fuel n (done ++ rest) (length done) = Ok (done ++ nonce_spec n rest).
Proof.
  induction fuel as [|f IH]; intros rest done Hf; [lia|].
  cbn [nonce_loop]. rewrite slice_get_suffix.
  destruct (find_sub NONCE_EQ rest) as [occ|] eqn:F.
  2:{ rewrite (spec_no_occ n rest F). reflexivity. }
  destruct (find_sub_split rest occ F) as [pre [tail [Hrest [Hocc Hspec]]]].
  rewrite (Hspec n). subst rest occ. clear F Hspec.
  set (done' := done ++ pre ++ NONCE_EQ).
  assert (Hbody : done ++ pre ++ NONCE_EQ ++ tail = done' ++ tail)
    by (unfold done'; rewrite <- !app_assoc; reflexivity).
  assert (Hvs : (length done + length pre + 6)%nat = length done')
    by (unfold done'; rewrite !app_length; change (length NONCE_EQ) with 6%nat; lia).
  rewrite Hbody, Hvs.
  assert (Hlen : (length tail < f)%nat) by (rewrite !app_length in Hf; change (length NONCE_EQ) with 6%nat in Hf; lia).
  assert (Hskip : attr_at (NONCE_EQ ++ tail) = None ->
                  nonce_loop f n (done' ++ tail) (length done') = Ok (done ++ pre ++ nonce_spec n (NONCE_EQ ++ tail))).
  { intros HA. rewrite (IH tail done' Hlen), (spec_skip_eq n tail HA). unfold done'.
    rewrite <- !app_assoc. reflexivity. }
  rewrite nth_error_app_len. destruct tail as [|q t]; cbn [hd_error].
  - apply Hskip. reflexivity.
  - change (N.eqb q c_dquote || N.eqb q c_squote) with (is_quote q).
    destruct (is_quote q) eqn:Q.
    2:{ apply Hskip. apply attr_at_noquote. exact Q. }
    rewrite skipn_app_len1.
    destruct (find_byte q t) as [vl|] eqn:FB.
    2:{ apply Hskip. apply attr_at_noclose; assumption. }
    destruct (find_byte_split q t vl FB) as [v [rest2 [Ht [Hvl Hnin]]]]. subst t vl. clear Hskip FB.
    replace (length done' + 1 + length v + 1)%nat with (length done' + length (q :: v ++ [q]))%nat
      by (cbn [length]; rewrite app_length; cbn [length]; lia).
    replace (done' ++ q :: v ++ q :: rest2) with (done' ++ (q :: v ++ [q]) ++ rest2)
      by (cbn [app]; rewrite <- app_assoc; reflexivity).
    rewrite cow_replace_mid. cbn [obind].
    rewrite app_assoc, <- app_length.
    assert (Hlen2 : (length rest2 < f)%nat) by (cbn [length] in Hlen; rewrite app_length in Hlen; cbn [length] in Hlen; lia).
    rewrite (IH rest2 (done' ++ q :: n ++ [q]) Hlen2).
    rewrite (nonce_spec_unfold n (NONCE_EQ ++ q :: v ++ q :: rest2)), (attr_at_intro q v rest2 Q Hnin).
    unfold done'. f_equal. rewrite <- !app_assoc. f_equal. f_equal. f_equal. cbn [app]. f_equal.
    rewrite <- app_assoc. reflexivity.
Qed.

(** nonce_spec, part 1: for every body and every nonce value the loop terminates without a
    panic and returns the specification's text *)
Lemma nonce_rewrite_spec n body : nonce_rewrite n body = Ok (nonce_spec n body).
Proof. unfold nonce_rewrite. apply (nonce_loop_correct n (S (length body)) body []). lia. Qed.

Lemma nonce_rewrite_total n body : nonce_rewrite n body <> Panic /\ forall e, nonce_rewrite n body <> Err e.
Proof. rewrite nonce_rewrite_spec. split; [discriminate|intros e; discriminate]. Qed.

(** ---- the specification as a splice ---- *)
Lemma render_cons f p ps : render f (p :: ps) = render_piece f p ++ render f ps.
Proof. reflexivity. Qed.

Lemma spec_render n : forall ps, Forall wf_piece ps -> greedy ps ->
  nonce_spec n (render (fun v => v) ps) = render (fun _ => n) ps.
Proof.
  induction ps as [|p ps IH]; intros W G; [reflexivity|].
  apply Forall_cons_iff in W as [Wp W]. destruct p as [c|q v].
  - destruct G as [GA G]. rewrite !render_cons in *. cbn [render_piece app] in *.
    rewrite (nonce_spec_lit n c _ GA), (IH W G). reflexivity.
  - cbn [greedy] in G. destruct Wp as [Q Hn]. rewrite !render_cons. cbn [render_piece].
    replace ((NONCE_EQ ++ q :: v ++ [q]) ++ render (fun v0 => v0) ps)
      with (NONCE_EQ ++ q :: v ++ q :: render (fun v0 => v0) ps)
      by (rewrite <- app_assoc; cbn [app]; rewrite <- app_assoc; reflexivity).
    rewrite nonce_spec_unfold, (attr_at_intro q v _ Q Hn), (IH W G).
    rewrite <- app_assoc. cbn [app]. rewrite <- app_assoc. reflexivity.
Qed.

Lemma parse_exists_len : forall k s, (length s < k)%nat ->
  exists ps, Forall wf_piece ps /\ greedy ps /\ render (fun v => v) ps = s.
Proof.
  induction k as [|k IH]; intros s H; [lia|].
  destruct (attr_at s) as [[[q v] rest]|] eqn:A.
  - apply attr_at_some in A as [Hs [Q Hn]].
    assert (L : (length rest < k)%nat) by (rewrite Hs, !app_length in H; cbn [length] in H; rewrite app_length in H; cbn [length] in H; lia).
    destruct (IH rest L) as [ps [W [G Hr]]]. exists (Attr q v :: ps).
    split; [constructor; [split; assumption|exact W]|]. split; [exact G|].
    rewrite render_cons, Hr, Hs. cbn [render_piece]. rewrite <- app_assoc. cbn [app]. rewrite <- app_assoc. reflexivity.
  - destruct s as [|c r]; [exists []; repeat split; constructor|].
    cbn [length] in H. destruct (IH r ltac:(lia)) as [ps [W [G Hr]]]. exists (Lit c :: ps).
    split; [constructor; [exact I|exact W]|]. split.
    + cbn [greedy]. split; [|exact G]. rewrite render_cons, Hr. exact A.
    + rewrite render_cons, Hr. reflexivity.
Qed.

(** nonce_spec, part 2: the body is a sequence of literal bytes and well-formed attributes
    (cut greedily from the left); the output is the same sequence with every attribute value
    replaced by the nonce — nothing else changes *)
Lemma nonce_rewrite_splice n body :
  exists ps, Forall wf_piece ps /\ greedy ps /\ body = render (fun v => v) ps /\
             nonce_rewrite n body = Ok (render (fun _ => n) ps).
Proof.
  destruct (parse_exists_len (S (length body)) body ltac:(lia)) as [ps [W [G Hr]]].
  exists ps. split; [exact W|]. split; [exact G|]. split; [symmetry; exact Hr|].
  rewrite nonce_rewrite_spec, <- Hr. f_equal. apply spec_render; assumption.
Qed.

(** the parse is unique: the pieces are determined by the body *)
Lemma parse_unique : forall ps1 ps2, Forall wf_piece ps1 -> greedy ps1 -> Forall wf_piece ps2 -> greedy ps2 ->
  render (fun v => v) ps1 = render (fun v => v) ps2 -> ps1 = ps2.
Proof.
  induction ps1 as [|p1 ps1 IH]; intros ps2 W1 G1 W2 G2 E.
  - destruct ps2 as [|[c|q v] ps2]; [reflexivity| |]; rewrite render_cons in E; cbn [render_piece render concat map app] in E; discriminate.
  - apply Forall_cons_iff in W1 as [Wp1 W1]. destruct p1 as [c1|q1 v1].
    + destruct G1 as [A1 G1]. destruct ps2 as [|[c2|q2 v2] ps2].
      * rewrite render_cons in E. cbn in E. discriminate.
      * apply Forall_cons_iff in W2 as [_ W2]. destruct G2 as [_ G2].
        rewrite !render_cons in E. cbn [render_piece app] in E. inversion E; subst. f_equal. apply IH; assumption.
      * apply Forall_cons_iff in W2 as [[Q2 Hn2] _]. exfalso. rewrite E in A1.
        rewrite render_cons in A1. cbn [render_piece] in A1.
        replace ((NONCE_EQ ++ q2 :: v2 ++ [q2]) ++ render (fun v => v) ps2)
          with (NONCE_EQ ++ q2 :: v2 ++ q2 :: render (fun v => v) ps2) in A1
          by (rewrite <- app_assoc; cbn [app]; rewrite <- app_assoc; reflexivity).
        rewrite (attr_at_intro q2 v2 _ Q2 Hn2) in A1. discriminate.
    + cbn [greedy] in G1. destruct Wp1 as [Q1 Hn1]. destruct ps2 as [|[c2|q2 v2] ps2].
      * rewrite render_cons in E. cbn in E. discriminate.
      * destruct G2 as [A2 _]. exfalso. rewrite <- E in A2.
        rewrite render_cons in A2. cbn [render_piece] in A2.
        replace ((NONCE_EQ ++ q1 :: v1 ++ [q1]) ++ render (fun v => v) ps1)
          with (NONCE_EQ ++ q1 :: v1 ++ q1 :: render (fun v => v) ps1) in A2
          by (rewrite <- app_assoc; cbn [app]; rewrite <- app_assoc; reflexivity).
        rewrite (attr_at_intro q1 v1 _ Q1 Hn1) in A2. discriminate.
      * apply Forall_cons_iff in W2 as [[Q2 Hn2] W2]. cbn [greedy] in G2.
        pose proof (f_equal attr_at E) as EA. rewrite !render_cons in EA. cbn [render_piece] in EA.
        replace ((NONCE_EQ ++ q1 :: v1 ++ [q1]) ++ render (fun v => v) ps1)
          with (NONCE_EQ ++ q1 :: v1 ++ q1 :: render (fun v => v) ps1) in EA
          by (rewrite <- app_assoc; cbn [app]; rewrite <- app_assoc; reflexivity).
        replace ((NONCE_EQ ++ q2 :: v2 ++ [q2]) ++ render (fun v => v) ps2)
          with (NONCE_EQ ++ q2 :: v2 ++ q2 :: render (fun v => v) ps2) in EA
          by (rewrite <- app_assoc; cbn [app]; rewrite <- app_assoc; reflexivity).
        rewrite (attr_at_intro q1 v1 _ Q1 Hn1), (attr_at_intro q2 v2 _ Q2 Hn2) in EA.
        inversion EA; subst. f_equal. apply IH; assumption.
Qed.

(** ---- the code before the repair ---- *)
Lemma nonce_v0_panics_on_empty_body n : nonce_rewrite_v0 n [] = Panic.
Proof. reflexivity. Qed.
Lemma nonce_v0_stray_quote :
  nonce_rewrite_v0 (B "N") (B "<s nonce=""x"">") = Ok (B "<s nonce=""N"""">") /\
  nonce_rewrite (B "N") (B "<s nonce=""x"">") = Ok (B "<s nonce=""N"">").
Proof. vm_compute. split; reflexivity. Qed.
Lemma nonce_v0_clobbers_unquoted :
  nonce_rewrite_v0 (B "N") (B "<s nonce=abc>") = Ok (B "<s nonce=""""c>") /\
  nonce_rewrite (B "N") (B "<s nonce=abc>") = Ok (B "<s nonce=abc>").
Proof. vm_compute. split; reflexivity. Qed.
Lemma nonce_v0_panics_near_end : nonce_rewrite_v0 (B "N") (B "xnonce=") = Panic.
Proof. vm_compute. reflexivity. Qed.

(** ---- headers ---- *)
Lemma filter_filter_sub {A} (f g : A -> bool) (l : list A) :
  (forall x, f x = true -> g x = true) -> filter f (filter g l) = filter f l.
Proof.
  intros H. induction l as [|x l IH]; [reflexivity|]. cbn [filter]. destruct (g x) eqn:G.
  - cbn [filter]. destruct (f x); [f_equal|]; exact IH.
  - destruct (f x) eqn:F; [rewrite (H x F) in G; discriminate|exact IH].
Qed.
Lemma filter_filter_disj {A} (f g : A -> bool) (l : list A) :
  (forall x, f x = true -> g x = false) -> filter f (filter g l) = [].
Proof.
  intros H. induction l as [|x l IH]; [reflexivity|]. cbn [filter]. destruct (g x) eqn:G; [|exact IH].
  cbn [filter]. destruct (f x) eqn:F; [rewrite (H x F) in G; discriminate|exact IH].
Qed.

Section Headers.
  Implicit Types (h : headers) (n m v : bytes).

  Lemma beq_sym n m : beq n m = beq m n.
  Proof.
    destruct (beq n m) eqn:E; destruct (beq m n) eqn:E'; try reflexivity.
    - apply beq_eq in E. subst. rewrite beq_refl in E'. discriminate.
    - apply beq_eq in E'. subst. rewrite beq_refl in E. discriminate.
  Qed.
  Lemma beq_trans_false n m k : beq n m = false -> beq k n = true -> beq k m = false.
  Proof. intros H E. apply beq_eq in E. subst. exact H. Qed.

  Lemma h_all_app n h1 h2 : h_all n (h1 ++ h2) = h_all n h1 ++ h_all n h2.
  Proof. unfold h_all. rewrite filter_app, map_app. reflexivity. Qed.
  Lemma h_all_remove_same n h : h_all n (h_remove n h) = [].
  Proof.
    unfold h_all, h_remove. rewrite filter_filter_disj; [reflexivity|].
    intros x Hx. rewrite Hx. reflexivity.
  Qed.
  Lemma h_all_remove_other n m h : beq n m = false -> h_all m (h_remove n h) = h_all m h.
  Proof.
    intros D. unfold h_all, h_remove. rewrite filter_filter_sub; [reflexivity|].
    intros x Hx. rewrite (beq_trans_false m n (fst x)); [reflexivity| |exact Hx]. rewrite beq_sym. exact D.
  Qed.
  Lemma h_all_single_same n v : h_all n [(n, v)] = [v].
  Proof. unfold h_all. cbn [filter fst]. rewrite beq_refl. reflexivity. Qed.
  Lemma h_all_single_other n m v : beq n m = false -> h_all m [(n, v)] = [].
  Proof. intros D. unfold h_all. cbn [filter fst]. rewrite D. reflexivity. Qed.
  Lemma h_all_insert_same n v h : h_all n (h_insert n v h) = [v].
  Proof. unfold h_insert. rewrite h_all_app, h_all_remove_same, h_all_single_same. reflexivity. Qed.
  Lemma h_all_insert_other n m v h : beq n m = false -> h_all m (h_insert n v h) = h_all m h.
  Proof.
    intros D. unfold h_insert. rewrite h_all_app, (h_all_remove_other n m h D), (h_all_single_other n m v D).
    apply app_nil_r.
  Qed.

  Lemma h_get_hd n h : h_get n h = hd_error (h_all n h).
  Proof.
    unfold h_get, h_all. induction h as [|e h IH]; [reflexivity|]. cbn [find filter].
    destruct (beq (fst e) n); [reflexivity|exact IH].
  Qed.
  Lemma h_get_none_all n h : h_get n h = None <-> h_all n h = [].
  Proof. rewrite h_get_hd. destruct (h_all n h); split; intros H; try reflexivity; discriminate. Qed.

  Lemma h_all_or_insert_same n v h :
    h_all n (h_or_insert n v h) = match h_all n h with [] => [v] | l => l end.
  Proof.
    unfold h_or_insert. destruct (h_get n h) eqn:G.
    - rewrite h_get_hd in G. destruct (h_all n h); [discriminate|reflexivity].
    - apply h_get_none_all in G. rewrite h_all_app, G, h_all_single_same. reflexivity.
  Qed.
  Lemma h_all_or_insert_other n m v h : beq n m = false -> h_all m (h_or_insert n v h) = h_all m h.
  Proof.
    intros D. unfold h_or_insert. destruct (h_get n h); [reflexivity|].
    rewrite h_all_app, (h_all_single_other n m v D). apply app_nil_r.
  Qed.

  (** no entry with the name at all *)
  Lemma h_all_nil_not_in n h : h_all n h = [] <-> ~ In n (map fst h).
  Proof.
    unfold h_all. induction h as [|e h IH]; [split; [intros _ []|reflexivity]|]. cbn [filter map In].
    destruct (beq (fst e) n) eqn:E.
    - split; [discriminate|]. intros H. exfalso. apply H. left. apply beq_eq. exact E.
    - rewrite IH. split.
      + intros H [He|Hi]; [subst n; rewrite beq_refl in E; discriminate|exact (H Hi)].
      + intros H Hi. apply H. right. exact Hi.
  Qed.
End Headers.

(** ---- the Package chain ---- *)
Section Chain.
  Variable rules : ruleset csp_rule.
  Variables server path : bytes.

  Definition csp_step (h : headers) : list bytes :=
    match rs_get rules (csp_path path) with
    | Some rule =>
        match to_header_nonce rule (h_get H_NONCE h) with
        | Some v => [v]
        | None => h_all H_CSP h
        end
    | None => h_all H_CSP h
    end.

  Lemma pkg_csp_csp h : h_all H_CSP (pkg_csp rules path h) = csp_step h.
  Proof.
    unfold pkg_csp, pkg_csp_with, csp_step. destruct (rs_get rules (csp_path path)) as [rule|].
    - destruct (to_header_nonce rule (h_get H_NONCE h)) as [v|]; destruct (h_get H_NONCE h);
        rewrite ?(h_all_remove_other H_NONCE H_CSP) by reflexivity; rewrite ?h_all_insert_same; reflexivity.
    - destruct (h_get H_NONCE h); rewrite ?(h_all_remove_other H_NONCE H_CSP) by reflexivity; reflexivity.
  Qed.
  Lemma pkg_csp_nonce h : h_all H_NONCE (pkg_csp rules path h) = [].
  Proof.
    unfold pkg_csp, pkg_csp_with. destruct (h_get H_NONCE h) eqn:G; [apply h_all_remove_same|].
    apply h_get_none_all in G.
    destruct (rs_get rules (csp_path path)) as [rule|]; [|exact G].
    destruct (to_header_nonce rule None); [|exact G].
    rewrite (h_all_insert_other H_CSP H_NONCE) by reflexivity. exact G.
  Qed.
  Lemma pkg_csp_other m h : beq H_CSP m = false -> beq H_NONCE m = false -> h_all m (pkg_csp rules path h) = h_all m h.
  Proof.
    intros D1 D2. unfold pkg_csp, pkg_csp_with.
    assert (E : h_all m (match rs_get rules (csp_path path) with
                         | Some rule => match to_header_nonce rule (h_get H_NONCE h) with
                                        | Some v => h_insert H_CSP v h | None => h end
                         | None => h end) = h_all m h).
    { destruct (rs_get rules (csp_path path)) as [rule|]; [|reflexivity].
      destruct (to_header_nonce rule (h_get H_NONCE h)); [|reflexivity]. apply h_all_insert_other. exact D1. }
    destruct (h_get H_NONCE h); [rewrite (h_all_remove_other H_NONCE m _ D2)|]; exact E.
  Qed.

  Lemma chain_unfold h :
    package_chain rules server path h = pkg_server server (pkg_referrer (pkg_csp rules path h)).
  Proof. reflexivity. Qed.

  Lemma chain_server h : h_all H_SERVER (package_chain rules server path h) = [server].
  Proof. rewrite chain_unfold. unfold pkg_server. apply h_all_insert_same. Qed.
  Lemma chain_referrer h : h_all H_REFERRER (package_chain rules server path h) = spec_referrer h.
  Proof.
    rewrite chain_unfold. unfold pkg_server, pkg_referrer, spec_referrer.
    rewrite (h_all_insert_other H_SERVER H_REFERRER) by reflexivity.
    rewrite h_all_or_insert_same. rewrite (pkg_csp_other H_REFERRER) by reflexivity. reflexivity.
  Qed.
  Lemma chain_nonce h : h_all H_NONCE (package_chain rules server path h) = [].
  Proof.
    rewrite chain_unfold. unfold pkg_server, pkg_referrer.
    rewrite (h_all_insert_other H_SERVER H_NONCE) by reflexivity.
    rewrite (h_all_or_insert_other H_REFERRER H_NONCE) by reflexivity. apply pkg_csp_nonce.
  Qed.
  Lemma chain_csp h : h_all H_CSP (package_chain rules server path h) = csp_step h.
  Proof.
    rewrite chain_unfold. unfold pkg_server, pkg_referrer.
    rewrite (h_all_insert_other H_SERVER H_CSP) by reflexivity.
    rewrite (h_all_or_insert_other H_REFERRER H_CSP) by reflexivity. apply pkg_csp_csp.
  Qed.
End Chain.

Lemma csp_step_spec hist rules path h : rs_reach hist rules -> csp_step rules path h = spec_csp hist path h.
Proof. intros H. unfold csp_step, spec_csp. rewrite (rs_get_resolve hist rules (csp_path path) H). reflexivity. Qed.

(** always_headers / internal_header_hidden, for every response head [h] that reaches the chain *)
Lemma chain_always_headers hist rules server path h :
  rs_reach hist rules ->
  h_all H_CSP (package_chain rules server path h) = spec_csp hist path h /\
  h_all H_REFERRER (package_chain rules server path h) = spec_referrer h /\
  h_all H_SERVER (package_chain rules server path h) = [server] /\
  h_all H_NONCE (package_chain rules server path h) = [].
Proof.
  intros H. rewrite chain_csp, (csp_step_spec hist rules path h H), chain_referrer, chain_server, chain_nonce.
  repeat split.
Qed.

Lemma chain_hides_nonce rules server path h : ~ In H_NONCE (map fst (package_chain rules server path h)).
Proof. apply h_all_nil_not_in. apply chain_nonce. Qed.

(** the security headers of the model's output, as the correspondence run prints them, are the
    specification's up to order *)
Lemma h_all_security n h :
  In n [H_CSP; H_NONCE; H_REFERRER; H_SERVER] -> h_all n (only_security_headers h) = h_all n h.
Proof.
  intros Hn. unfold only_security_headers, h_all. rewrite filter_filter_sub; [reflexivity|].
  intros x Hx. apply beq_eq in Hx. rewrite Hx.
  destruct Hn as [<-|[<-|[<-|[<-|[]]]]]; rewrite beq_refl; cbn [orb]; rewrite ?orb_true_r; reflexivity.
Qed.

Lemma v0_exposes_nonce :
  h_all H_NONCE (package_chain_v0 [] (B "S") (B "/x") [(H_NONCE, B "n")]) = [B "n"] /\
  h_all H_NONCE (package_chain [] (B "S") (B "/x") [(H_NONCE, B "n")]) = [].
Proof. vm_compute. split; reflexivity. Qed.

(** ---- the policy carries the nonce ---- *)
Lemma sep_tail_app p1 p2 : sep_tail p1 -> sep_tail p2 -> sep_tail (p1 ++ p2).
Proof.
  intros [->|[p ->]] H2; [exact H2|]. right. exists (p ++ p2). rewrite app_assoc. reflexivity.
Qed.

Lemma is_nil_false {A} (l : list A) : l <> [] -> is_nil l = false.
Proof. destruct l; [contradiction|reflexivity]. Qed.

Lemma put_directive_ext s acc name : acc <> [] ->
  exists post, put_directive s acc name = acc ++ post /\ sep_tail post.
Proof.
  intros H. unfold put_directive. rewrite (is_nil_false acc H).
  exists (SEMI_SP ++ name ++ [c_sp] ++ s). split; [reflexivity|]. right. eexists. reflexivity.
Qed.

Lemma fold_ext {A} (f : bytes -> A -> bytes) :
  (forall acc x, acc <> [] -> exists post, f acc x = acc ++ post /\ sep_tail post) ->
  forall l acc, acc <> [] -> exists post, fold_left f l acc = acc ++ post /\ sep_tail post.
Proof.
  intros Hf. induction l as [|x l IH]; intros acc Ha; cbn [fold_left].
  - exists []. split; [symmetry; apply app_nil_r|left; reflexivity].
  - destruct (Hf acc x Ha) as [p1 [E1 S1]]. rewrite E1.
    assert (Ha' : acc ++ p1 <> []) by (destruct acc; [contradiction|discriminate]).
    destruct (IH (acc ++ p1) Ha') as [p2 [E2 S2]]. exists (p1 ++ p2). rewrite E2, app_assoc.
    split; [reflexivity|apply sep_tail_app; assumption].
Qed.

Lemma emit_named_ext nonce acc d : acc <> [] ->
  exists post, emit_named nonce acc d = acc ++ post /\ sep_tail post.
Proof.
  intros H. unfold emit_named. destruct (negb (is_nil (snd d)) || is_special nonce (fst d)).
  - apply (fold_ext (put_directive _)); [|exact H]. intros a x Ha. apply put_directive_ext. exact Ha.
  - exists []. split; [symmetry; apply app_nil_r|left; reflexivity].
Qed.
Lemma emit_undefined_ext acc u : acc <> [] ->
  exists post, emit_undefined acc u = acc ++ post /\ sep_tail post.
Proof.
  intros H. unfold emit_undefined. destruct (is_nil (snd u)).
  - exists []. split; [symmetry; apply app_nil_r|left; reflexivity].
  - apply put_directive_ext. exact H.
Qed.

Lemma is_special_single n d : In d nonce_directives -> is_special (Some n) [d] = true.
Proof.
  intros H. unfold is_special. cbn [existsb]. rewrite orb_false_r. apply existsb_exists.
  exists d. split; [exact H|apply beq_refl].
Qed.

(** nonce_in_directives: a directive [d] of the four, with the values [vals] the rule gives it,
    is emitted as the segment [d SP <values> 'nonce-n'] between "; " separators *)
Lemma to_header_nonce_directive (r : csp_rule) n d vals :
  hv_to_str_ok n = true -> In d nonce_directives -> In ([d], vals) (combine directive_names (fst r)) ->
  exists v pre post,
    to_header_nonce r (Some n) = Some v /\
    v = pre ++ d ++ [c_sp] ++ (if is_nil (join_sp vals) then SELF_SP else join_sp vals ++ [c_sp]) ++ nonce_source n ++ post /\
    sep_head pre /\ sep_tail post.
Proof.
  intros Hn Hd Hin. unfold to_header_nonce. rewrite andb_false_r.
  apply in_split in Hin as [l1 [l2 Hl]]. rewrite Hl, fold_left_app. cbn [fold_left].
  set (A := fold_left (emit_named (Some n)) l1 []).
  set (s := (if is_nil (join_sp vals) then SELF_SP else join_sp vals ++ [c_sp]) ++ nonce_source n).
  assert (EX : emit_named (Some n) A ([d], vals) = A ++ (if is_nil A then [] else SEMI_SP) ++ d ++ [c_sp] ++ s).
  { unfold emit_named. cbn [fst snd]. rewrite (is_special_single n d Hd), orb_true_r. cbn [fold_left].
    unfold put_directive, directive_value. rewrite Hn. reflexivity. }
  rewrite EX. set (X := A ++ (if is_nil A then [] else SEMI_SP) ++ d ++ [c_sp] ++ s).
  assert (HX : X <> []).
  { unfold X. destruct A; cbn [is_nil app]; [|discriminate].
    destruct d; cbn [app]; discriminate. }
  destruct (fold_ext (emit_named (Some n)) (fun a x Ha => emit_named_ext (Some n) a x Ha) l2 X HX) as [p2 [E2 S2]].
  rewrite E2.
  assert (HX2 : X ++ p2 <> []) by (destruct X; [contradiction|discriminate]).
  destruct (fold_ext emit_undefined (fun a x Ha => emit_undefined_ext a x Ha) (snd r) (X ++ p2) HX2) as [p3 [E3 S3]].
  rewrite E3. eexists. exists (A ++ (if is_nil A then [] else SEMI_SP)), (p2 ++ p3).
  split; [reflexivity|]. split.
  - unfold X, s. rewrite <- !app_assoc. reflexivity.
  - split; [|apply sep_tail_app; assumption].
    destruct A; cbn [is_nil]; [left; reflexivity|right; eexists; reflexivity].
Qed.

(** every rule the harness / kvarn builds has a value list for each of the 27 named directives *)
Lemma nonce_directive_present (vs : list (list bytes)) d :
  length vs = 27%nat -> In d nonce_directives -> exists vals, In ([d], vals) (combine directive_names vs).
Proof.
  intros L Hd.
  do 27 (destruct vs as [|? vs]; [discriminate|]). destruct vs; [|discriminate].
  cbn [nonce_directives In] in Hd.
  destruct Hd as [<-|[<-|[<-|[<-|[]]]]]; eexists; cbn [combine directive_names In];
    repeat (first [left; reflexivity|right]).
Qed.

(** nonce_in_directives for the rules kvarn builds (27 named directives) *)
Lemma nonce_in_four_directives (r : csp_rule) n d :
  length (fst r) = 27%nat -> hv_to_str_ok n = true -> In d nonce_directives ->
  exists vals v pre post,
    In ([d], vals) (combine directive_names (fst r)) /\
    to_header_nonce r (Some n) = Some v /\
    v = pre ++ d ++ [c_sp] ++ (if is_nil (join_sp vals) then SELF_SP else join_sp vals ++ [c_sp]) ++ nonce_source n ++ post /\
    sep_head pre /\ sep_tail post.
Proof.
  intros L Hn Hd. destruct (nonce_directive_present (fst r) d L Hd) as [vals Hin].
  destruct (to_header_nonce_directive r n d vals Hn Hd Hin) as [v [pre [post H]]].
  exists vals, v, pre, post. split; [exact Hin|exact H].
Qed.

(** ---- the nonce page ---- *)
Lemma h_get_insert_same n v h : h_get n (h_insert n v h) = Some v.
Proof. rewrite h_get_hd, h_all_insert_same. reflexivity. Qed.

Definition sp_code (p : server_pref) : N :=
  match p with SNone => Cache.SP_NONE | SFull => Cache.SP_FULL | SQueryMatters => Cache.SP_QUERY | SMaxAge => Cache.SP_MAXAGE end.
Definition fat_of (status : N) (compress : bool) (p : page) : Cache.fat :=
  Cache.mkFat status (pg_headers p) (pg_body p) (sp_code (pg_pref p)) compress.

Lemma admits_pref_caches p : admits p = Cache.pref_caches (sp_code p).
Proof. destruct p; reflexivity. Qed.

(** a page rewritten by the nonce extension is refused by the admission filter of Model/Cache.v *)
Lemma nonce_page_not_admitted rewrite n p p' :
  nonce_present rewrite n p = Ok p' ->
  pg_pref p' = SNone /\
  forall cache_on m status compress, Cache.may_store cache_on m (fat_of status compress p') = false.
Proof.
  unfold nonce_present. destruct (rewrite n (pg_body p)) as [b| |]; cbn [obind]; try discriminate.
  intros H. inversion H; subst p'. cbn [pg_pref]. split; [reflexivity|].
  intros cache_on m status compress. unfold Cache.may_store, Cache.wants_cache, fat_of. cbn.
  rewrite andb_false_r. reflexivity.
Qed.

(** the line [!> nonce]: one draw, the reply the property demands *)
Lemma chain_nonce_line guard rng handler k :
  present_chain guard nonce_rewrite rng [DNonce] k handler = Ok (S k, nonce_reply (rng (S k)) handler).
Proof.
  unfold present_chain. cbn [fold_left present_step obind fst snd]. unfold nonce_present.
  rewrite nonce_rewrite_spec. cbn [obind fst snd]. unfold nonce_guard, nonce_reply.
  destruct (guard && _); reflexivity.
Qed.

Lemma page_history_nonce guard rng handler : forall n calls,
  page_history guard nonce_rewrite rng [DNonce] handler n {| st_calls := calls; st_draws := calls; st_cache := None |}
  = Ok ({| st_calls := (calls + n)%nat; st_draws := (calls + n)%nat; st_cache := None |},
        map (fun k => nonce_reply (rng k) handler) (seq (S calls) n)).
Proof.
  induction n as [|n IH]; intros calls; cbn [page_history seq map].
  - rewrite Nat.add_0_r. reflexivity.
  - unfold page_request. cbn [st_cache st_calls st_draws]. rewrite chain_nonce_line.
    cbn [obind pg_pref nonce_reply admits andb fst snd].
    rewrite (IH (S calls)). cbn [obind fst snd]. rewrite Nat.add_succ_r. reflexivity.
Qed.

(** nonce_not_cached: n requests for a nonce page are n computations, nothing is stored, and
    the k-th reply carries the k-th draw of the generator in header and body *)
Lemma nonce_never_cached guard rng handler n :
  page_history guard nonce_rewrite rng [DNonce] handler n pstate0
  = Ok ({| st_calls := n; st_draws := n; st_cache := None |}, map (fun k => nonce_reply (rng k) handler) (seq 1 n)).
Proof. apply (page_history_nonce guard rng handler n O). Qed.

(** ... so replies i <> j carry different values whenever the generator's draws differ *)
Lemma nonce_replies_differ guard rng handler n i j :
  (forall a b, a <> b -> rng a <> rng b) -> i <> j -> (i < n)%nat -> (j < n)%nat ->
  forall st out, page_history guard nonce_rewrite rng [DNonce] handler n pstate0 = Ok (st, out) ->
  exists ri rj, nth_error out i = Some ri /\ nth_error out j = Some rj /\
                h_get H_NONCE (pg_headers ri) = Some (rng (S i)) /\ h_get H_NONCE (pg_headers rj) = Some (rng (S j)) /\
                rng (S i) <> rng (S j).
Proof.
  intros Inj Hij Hi Hj st out H. rewrite nonce_never_cached in H. inversion H; subst st out.
  exists (nonce_reply (rng (S i)) handler), (nonce_reply (rng (S j)) handler).
  assert (N1 : forall k, (k < n)%nat -> nth_error (map (fun k => nonce_reply (rng k) handler) (seq 1 n)) k
                                       = Some (nonce_reply (rng (S k)) handler)).
  { intros k Hk. rewrite nth_error_map. rewrite (nth_error_nth' (seq 1 n) O) by (rewrite seq_length; exact Hk).
    rewrite seq_nth by exact Hk. reflexivity. }
  rewrite (N1 i Hi), (N1 j Hj). cbn [nonce_reply pg_headers]. rewrite !h_get_insert_same.
  repeat split. apply Inj. lia.
Qed.

(** a cacheable page without the extension line is computed once (contrast) *)
Lemma plain_page_cached guard rng handler :
  admits (pg_pref handler) = true -> status_not_cached (pg_status handler) = false ->
  h_all H_NONCE (pg_headers handler) = [] ->
  page_history guard nonce_rewrite rng [] handler 2 pstate0
  = Ok ({| st_calls := 1; st_draws := 0; st_cache := Some handler |}, [handler; handler]).
Proof.
  intros H H2 H3. cbn. unfold nonce_guard. rewrite H3. cbn [is_nil negb]. rewrite andb_false_r.
  cbn. rewrite H, H2. reflexivity.
Qed.

(** ---- any line of directives ---- *)
Definition nonce_of (p : page) : option bytes := h_get H_NONCE (pg_headers p).

Lemma fold_step_not_ok rewrite rng line : forall o, (forall v, o <> Ok v) ->
  fold_left (present_step rewrite rng) line o = o.
Proof.
  induction line as [|d line IH]; intros o Ho; [reflexivity|]. cbn [fold_left].
  assert (E : present_step rewrite rng o d = o).
  { unfold present_step. destruct o as [v| |]; [exfalso; exact (Ho v eq_refl)|reflexivity|reflexivity]. }
  rewrite E. apply IH. exact Ho.
Qed.

(** the repair: whatever the line, a response that carries a nonce has no server cache preference *)
Lemma guard_pref rewrite rng line k p k' p' :
  present_chain true rewrite rng line k p = Ok (k', p') ->
  nonce_of p' <> None -> pg_pref p' = SNone.
Proof.
  unfold present_chain. destruct (fold_left _ line _) as [[k1 p1]| |]; cbn [obind]; try discriminate.
  intros H. inversion H; subst k' p'. clear H. cbn [snd]. unfold nonce_guard, nonce_of. cbn [andb].
  rewrite h_get_hd. destruct (h_all H_NONCE (pg_headers p1)) eqn:E; cbn [is_nil negb].
  - rewrite E. intros C. exfalso. apply C. reflexivity.
  - reflexivity.
Qed.

(** the nonce a page carries after the directives is a draw made while they ran *)
Definition nonce_between (rng : nat -> bytes) (lo hi : nat) (p : page) : Prop :=
  nonce_of p = None \/ exists m, (lo < m <= hi)%nat /\ nonce_of p = Some (rng m).

Lemma nonce_between_mono rng lo hi hi' p : (hi <= hi')%nat -> nonce_between rng lo hi p -> nonce_between rng lo hi' p.
Proof. intros L [H|[m [Hm H]]]; [left; exact H|right; exists m; split; [lia|exact H]]. Qed.

Lemma present_step_inv rewrite rng k0 d k p k' p' :
  present_step rewrite rng (Ok (k, p)) d = Ok (k', p') -> (k0 <= k)%nat -> nonce_between rng k0 k p ->
  (k <= k')%nat /\ nonce_between rng k0 k' p'.
Proof.
  unfold present_step. cbn [obind fst snd]. intros H L B.
  destruct d as [|[s|]|matched| |].
  - unfold nonce_present in H. destruct (rewrite (rng (S k)) (pg_body p)) as [b| |]; cbn [obind] in H; try discriminate.
    inversion H; subst k' p'. split; [lia|]. right. exists (S k). split; [lia|].
    unfold nonce_of. cbn [pg_headers]. apply h_get_insert_same.
  - inversion H; subst k' p'. split; [lia|]. destruct (pg_marker p); exact B.
  - inversion H; subst k' p'. split; [lia|exact B].
  - inversion H; subst k' p'. split; [lia|]. destruct matched; [exact B|left; reflexivity].
  - inversion H; subst k' p'. split; [lia|]. left. reflexivity.
  - inversion H; subst k' p'. split; [lia|exact B].
Qed.

Lemma fold_step_inv rewrite rng k0 : forall line k p k' p',
  fold_left (present_step rewrite rng) line (Ok (k, p)) = Ok (k', p') -> (k0 <= k)%nat -> nonce_between rng k0 k p ->
  (k <= k')%nat /\ nonce_between rng k0 k' p'.
Proof.
  induction line as [|d line IH]; intros k p k' p' H L B; cbn [fold_left] in H.
  - inversion H; subst k' p'. split; [lia|exact B].
  - destruct (present_step rewrite rng (Ok (k, p)) d) as [[k1 p1]| |] eqn:E.
    + destruct (present_step_inv rewrite rng k0 d k p k1 p1 E L B) as [L1 B1].
      destruct (IH k1 p1 k' p' H ltac:(lia) B1) as [L2 B2]. split; [lia|exact B2].
    + rewrite fold_step_not_ok in H by (intros v; discriminate). discriminate.
    + rewrite fold_step_not_ok in H by (intros v; discriminate). discriminate.
Qed.

Lemma nonce_of_guard g p : nonce_of (nonce_guard g p) = nonce_of p.
Proof. unfold nonce_guard. destruct (g && _); reflexivity. Qed.

Lemma present_chain_inv guard rewrite rng line k p k' p' :
  present_chain guard rewrite rng line k p = Ok (k', p') -> nonce_of p = None ->
  (k <= k')%nat /\ nonce_between rng k k' p'.
Proof.
  unfold present_chain. intros H Hp.
  destruct (fold_left _ line _) as [[k1 p1]| |] eqn:E; cbn [obind] in H; try discriminate.
  inversion H; subst k' p'. cbn [fst snd].
  destruct (fold_step_inv rewrite rng k line k p k1 p1 E (Nat.le_refl k) (or_introl Hp)) as [L B].
  split; [exact L|]. unfold nonce_between. rewrite nonce_of_guard. exact B.
Qed.

(** replies of a history: those that carry a nonce carry draws with strictly increasing indices *)
Inductive fresh_seq (rng : nat -> bytes) : nat -> list page -> nat -> Prop :=
| fs_nil d : fresh_seq rng d [] d
| fs_cons d d1 d' r out : (d <= d1)%nat -> nonce_between rng d d1 r -> fresh_seq rng d1 out d' -> fresh_seq rng d (r :: out) d'.

Lemma fresh_seq_le rng d out d' : fresh_seq rng d out d' -> (d <= d')%nat.
Proof. induction 1; lia. Qed.

Lemma fresh_seq_in rng d out d' : fresh_seq rng d out d' ->
  forall j r x, nth_error out j = Some r -> nonce_of r = Some x -> exists m, (d < m <= d')%nat /\ x = rng m.
Proof.
  induction 1 as [d|d d1 d' r0 out L B F IH]; intros j r x Hn Hx.
  - destruct j; discriminate.
  - pose proof (fresh_seq_le _ _ _ _ F) as L2. destruct j as [|j]; cbn [nth_error] in Hn.
    + inversion Hn; subst r0. destruct B as [B|[m [Hm B]]]; [rewrite B in Hx; discriminate|].
      rewrite B in Hx. inversion Hx. exists m. split; [lia|reflexivity].
    + destruct (IH j r x Hn Hx) as [m [Hm E]]. exists m. split; [lia|exact E].
Qed.

Lemma fresh_seq_distinct rng d out d' : (forall a b, a <> b -> rng a <> rng b) -> fresh_seq rng d out d' ->
  forall i j ri rj x y, (i < j)%nat -> nth_error out i = Some ri -> nth_error out j = Some rj ->
  nonce_of ri = Some x -> nonce_of rj = Some y -> x <> y.
Proof.
  intros Inj. induction 1 as [d|d d1 d' r0 out L B F IH]; intros i j ri rj x y Hij Hi Hj Hx Hy.
  - destruct i; discriminate.
  - destruct j as [|j]; [lia|]. cbn [nth_error] in Hj. destruct i as [|i]; cbn [nth_error] in Hi.
    + inversion Hi; subst r0. destruct B as [B|[m [Hm B]]]; [rewrite B in Hx; discriminate|].
      rewrite B in Hx. inversion Hx; subst x.
      destruct (fresh_seq_in rng d1 out d' F j rj y Hj Hy) as [m2 [Hm2 ->]]. apply Inj. lia.
    + apply (IH i j ri rj x y); try assumption. lia.
Qed.

Definition cache_clean (st : pstate) : Prop :=
  match st_cache st with Some p => nonce_of p = None | None => True end.

Lemma page_history_fresh rewrite rng line handler : nonce_of handler = None ->
  forall n st st' out, cache_clean st ->
  page_history true rewrite rng line handler n st = Ok (st', out) ->
  cache_clean st' /\ fresh_seq rng (st_draws st) out (st_draws st').
Proof.
  intros Hh. induction n as [|n IH]; intros st st' out C H; cbn [page_history] in H.
  - inversion H; subst st' out. split; [exact C|constructor].
  - destruct (page_request true rewrite rng line handler st) as [[st1 r]| |] eqn:E; cbn [obind] in H; try discriminate.
    cbn [fst snd] in H.
    destruct (page_history true rewrite rng line handler n st1) as [[st2 out2]| |] eqn:E2; cbn [obind] in H; try discriminate.
    inversion H; subst st' out. clear H. cbn [fst snd].
    assert (S1 : cache_clean st1 /\ (st_draws st <= st_draws st1)%nat /\ nonce_between rng (st_draws st) (st_draws st1) r).
    { unfold page_request in E. unfold cache_clean in C. destruct (st_cache st) as [stored|] eqn:SC.
      - inversion E; subst st1 r. split; [unfold cache_clean; rewrite SC; exact C|]. split; [lia|left; exact C].
      - destruct (present_chain true rewrite rng line (st_draws st) handler) as [[k1 p1]| |] eqn:PC; cbn [obind] in E; try discriminate.
        inversion E; subst st1 r. clear E. cbn [fst snd st_draws].
        destruct (present_chain_inv true rewrite rng line (st_draws st) handler k1 p1 PC Hh) as [L B].
        split; [|split; [exact L|exact B]].
        unfold cache_clean. cbn [st_cache].
        destruct (admits (pg_pref p1)) eqn:A; cbn [andb]; [|exact I].
        destruct (negb (status_not_cached (pg_status p1))); [|exact I].
        destruct (nonce_of p1) eqn:NO; [|reflexivity].
        rewrite (guard_pref rewrite rng line (st_draws st) handler k1 p1 PC) in A; [discriminate|].
        rewrite NO. discriminate. }
    destruct S1 as [C1 [L1 B1]]. destruct (IH st1 st2 out2 C1 E2) as [C2 F2].
    split; [exact C2|]. exact (fs_cons rng _ _ _ _ _ L1 B1 F2).
Qed.

(** nonce_not_cached_any_line: whatever directives the first line of the page has — and in whatever
    order — nothing that carries a nonce is in the cache afterwards, and two replies that carry a nonce
    carry different ones (draws of the generator with different indices) *)
Lemma any_line_fresh rewrite rng line handler n st out :
  nonce_of handler = None ->
  page_history true rewrite rng line handler n pstate0 = Ok (st, out) ->
  (forall p, st_cache st = Some p -> nonce_of p = None) /\
  ((forall a b, a <> b -> rng a <> rng b) ->
   forall i j ri rj x y, i <> j -> nth_error out i = Some ri -> nth_error out j = Some rj ->
   nonce_of ri = Some x -> nonce_of rj = Some y -> x <> y).
Proof.
  intros Hh H. destruct (page_history_fresh rewrite rng line handler Hh n pstate0 st out I H) as [C F].
  split.
  - intros p Hp. unfold cache_clean in C. rewrite Hp in C. exact C.
  - intros Inj i j ri rj x y Hij Hi Hj Hx Hy.
    destruct (Nat.lt_ge_cases i j) as [L|L].
    + exact (fresh_seq_distinct rng _ _ _ Inj F i j ri rj x y L Hi Hj Hx Hy).
    + intros E. symmetry in E. revert E.
      apply (fresh_seq_distinct rng _ _ _ Inj F j i rj ri y x); try assumption. lia.
Qed.

(** before the repair: [!> nonce &> cache server:full] is stored with its nonce and served again *)
Definition line_v0_handler : page :=
  {| pg_status := 200; pg_body := B "<script nonce=""x"">"; pg_headers := []; pg_pref := SNone; pg_marker := false |}.
Lemma line_v0_cached :
  (exists r, page_history false nonce_rewrite sym_nonce [DNonce; DCache (Some SFull)] line_v0_handler 2 pstate0
             = Ok ({| st_calls := 1; st_draws := 1; st_cache := Some r |}, [r; r]) /\ nonce_of r = Some (sym_nonce 1)) /\
  (exists r1 r2, page_history true nonce_rewrite sym_nonce [DNonce; DCache (Some SFull)] line_v0_handler 2 pstate0
             = Ok ({| st_calls := 2; st_draws := 2; st_cache := None |}, [r1; r2]) /\
             nonce_of r1 = Some (sym_nonce 1) /\ nonce_of r2 = Some (sym_nonce 2)).
Proof.
  split.
  - eexists. split; [vm_compute; reflexivity|vm_compute; reflexivity].
  - eexists. eexists. split; [vm_compute; reflexivity|split; vm_compute; reflexivity].
Qed.

(** the page and its policy carry the same value *)
Lemma page_and_policy_same_nonce hist rules server path (rng : nat -> bytes) handler rule (k : nat) :
  rs_reach hist rules -> resolve hist (csp_path path) = Some rule ->
  let reply := nonce_reply (rng k) handler in
  h_all H_CSP (package_chain rules server path (pg_headers reply))
  = match to_header_nonce rule (Some (rng k)) with Some v => [v] | None => h_all H_CSP (pg_headers handler) end /\
  exists ps, Forall wf_piece ps /\ greedy ps /\ pg_body handler = render (fun v => v) ps /\
             pg_body reply = render (fun _ => rng k) ps.
Proof.
  intros HR Hres reply. split.
  - destruct (chain_always_headers hist rules server path (pg_headers reply) HR) as [E _]. rewrite E.
    unfold spec_csp. rewrite Hres. unfold reply. cbn [nonce_reply pg_headers]. rewrite h_get_insert_same.
    destruct (to_header_nonce rule (Some (rng k))); [reflexivity|].
    apply h_all_insert_other. reflexivity.
  - destruct (nonce_rewrite_splice (rng k) (pg_body handler)) as [ps [W [G [Hb Hr]]]].
    exists ps. repeat split; try assumption. unfold reply. cbn [nonce_reply pg_body].
    rewrite nonce_rewrite_spec in Hr. inversion Hr. reflexivity.
Qed.

(** ---- the flags of [with_server_header] ---- *)
Lemma chain_cfg_unfold pl ov rules server path h :
  package_chain_cfg (mkCfg true true true pl ov) rules server path h
  = pkg_server_flags pl ov server (pkg_referrer (pkg_csp rules path h)).
Proof. reflexivity. Qed.

Lemma chain_cfg_new rules server path h : package_chain_cfg cfg_new rules server path h = package_chain rules server path h.
Proof.
  unfold cfg_new. rewrite chain_cfg_unfold, chain_unfold. unfold pkg_server_flags, pkg_server, server_value. rewrite app_nil_r. reflexivity.
Qed.

Lemma server_flags_other pl ov server m h : beq H_SERVER m = false -> h_all m (pkg_server_flags pl ov server h) = h_all m h.
Proof.
  intros D. unfold pkg_server_flags. destruct ov.
  - apply h_all_insert_other. exact D.
  - rewrite h_all_app, (h_all_single_other H_SERVER m _ D). apply app_nil_r.
Qed.

Lemma chain_flags_headers hist rules pl ov server path h :
  rs_reach hist rules ->
  h_all H_CSP (package_chain_cfg (mkCfg true true true pl ov) rules server path h) = spec_csp hist path h /\
  h_all H_REFERRER (package_chain_cfg (mkCfg true true true pl ov) rules server path h) = spec_referrer h /\
  h_all H_SERVER (package_chain_cfg (mkCfg true true true pl ov) rules server path h) = spec_server pl ov server h /\
  h_all H_NONCE (package_chain_cfg (mkCfg true true true pl ov) rules server path h) = [].
Proof.
  intros HR. rewrite chain_cfg_unfold.
  split; [|split; [|split]].
  - rewrite (server_flags_other pl ov server H_CSP) by reflexivity.
    unfold pkg_referrer. rewrite (h_all_or_insert_other H_REFERRER H_CSP) by reflexivity.
    rewrite pkg_csp_csp. apply csp_step_spec. exact HR.
  - rewrite (server_flags_other pl ov server H_REFERRER) by reflexivity.
    unfold pkg_referrer, spec_referrer. rewrite h_all_or_insert_same. rewrite (pkg_csp_other rules path H_REFERRER) by reflexivity. reflexivity.
  - unfold pkg_server_flags, spec_server. destruct ov.
    + apply h_all_insert_same.
    + rewrite h_all_app, h_all_single_same. f_equal.
      unfold pkg_referrer. rewrite (h_all_or_insert_other H_REFERRER H_SERVER) by reflexivity.
      apply (pkg_csp_other rules path H_SERVER); reflexivity.
  - rewrite (server_flags_other pl ov server H_NONCE) by reflexivity.
    unfold pkg_referrer. rewrite (h_all_or_insert_other H_REFERRER H_NONCE) by reflexivity. apply pkg_csp_nonce.
Qed.

(** the rule is looked up for the path the file is read from; before that repair it was not *)
Definition raw_hist : list (bytes * csp_rule) :=
  [(B "/*", csp_default_rule); (B "/uc/*", (set_nth 10 [B "'none'"] (fst csp_empty), []))].
Lemma raw_path_wrong_rule :
  h_all H_CSP (package_chain_raw (rs_build rs_add raw_hist) (B "S") (B "/%75c/evil.html") [])
    = [B "default-src 'self'; style-src 'self' 'unsafe-inline'"] /\
  spec_csp raw_hist (B "/%75c/evil.html") [] = [B "script-src 'none'"] /\
  h_all H_CSP (package_chain (rs_build rs_add raw_hist) (B "S") (B "/%75c/evil.html") []) = [B "script-src 'none'"].
Proof. vm_compute. repeat split; reflexivity. Qed.

(** ---- the send path of the fixture: every reply went through the chain, with the request's path ---- *)
Lemma conn_step_path guard rewrite hs st r st' rep p :
  conn_step guard rewrite hs st r = Ok (st', rep, p) -> p = prime_path (cr_path r).
Proof.
  unfold conn_step. match goal with |- obind ?X _ = _ -> _ => destruct X as [[s1 r1]| |] end; cbn [obind]; try discriminate.
  intros H. inversion H. reflexivity.
Qed.

Lemma conn_run_headers guard rewrite hist rules pl ov server hs : rs_reach hist rules ->
  forall rs st out,
  conn_run guard rewrite (package_chain_cfg (mkCfg true true true pl ov) rules server) hs st rs = Ok out ->
  Forall2 (fun r rep => exists h,
             h_all H_CSP (rp_headers rep) = spec_csp hist (prime_path (cr_path r)) h /\
             h_all H_REFERRER (rp_headers rep) = spec_referrer h /\
             h_all H_SERVER (rp_headers rep) = spec_server pl ov server h /\
             h_all H_NONCE (rp_headers rep) = []) rs out.
Proof.
  intros HR. induction rs as [|r rs IH]; intros st out H; cbn [conn_run] in H.
  - inversion H. constructor.
  - destruct (conn_step guard rewrite hs st r) as [[[st' rep] p]| |] eqn:ES; cbn [obind] in H; try discriminate.
    cbn [fst snd] in H.
    destruct (conn_run guard rewrite _ hs st' rs) as [out'| |] eqn:E; cbn [obind] in H; try discriminate.
    inversion H; subst out. constructor; [|apply (IH st' out' E)].
    unfold conn_wire. cbn [rp_headers]. rewrite (conn_step_path _ _ _ _ _ _ _ _ ES).
    exists (rp_headers rep). apply chain_flags_headers. exact HR.
Qed.

(** a rule that says something without a nonce says something with one *)
Lemma to_header_nonce_some r n v : to_header_nonce r None = Some v -> exists v', to_header_nonce r n = Some v'.
Proof.
  unfold to_header_nonce. destruct (forallb is_nil (fst r) && forallb (fun u => is_nil (snd u)) (snd r)); cbn [andb].
  - discriminate.
  - intros _. eexists. reflexivity.
Qed.

(** ... so when the most specific rule for the request's path says something, the reply carries exactly
    its serialisation (with the nonce of the reply's page, if it has one) *)
Lemma spec_csp_rule hist path h rule v0 :
  resolve hist (csp_path path) = Some rule -> to_header_nonce rule None = Some v0 ->
  exists v, to_header_nonce rule (h_get H_NONCE h) = Some v /\ spec_csp hist path h = [v].
Proof.
  intros R N. destruct (to_header_nonce_some rule (h_get H_NONCE h) v0 N) as [v E].
  exists v. split; [exact E|]. unfold spec_csp. rewrite R, E. reflexivity.
Qed.
