(** C07 — the loops that read from the connection end by themselves: for EVERY read schedule (any number of
    0-byte reads included), every end mode, every growth function.  In the model a loop that does not end within
    its fuel returns [Err E_FUEL]; the fuel is the number of bytes the loop can still get plus one, and every
    round of a loop is one [read] of the code, so "never [E_FUEL]" says: a round either gets at least one byte or
    is the last one. *)
From KV Require Export Bytes RustInt Http1Read Http1ReadProofs.
From Coq Require Import ZifyBool ZifyNat ZifyN.
Open Scope N_scope.
Local Open Scope nat_scope.

Arguments N.add : simpl never.
Arguments N.sub : simpl never.
Arguments N.eqb : simpl never.
Arguments N.ltb : simpl never.
Arguments N.leb : simpl never.
Arguments Nat.min : simpl never.
Arguments Nat.max : simpl never.
Arguments Nat.sub : simpl never.

(** how a body read can end: with a value, as [TimedOut], as an I/O error *)
Definition body_end {A} (o : outcome A) : Prop :=
  match o with Ok _ => True | Err e => e = E_TIMEDOUT \/ e = E_IO | Panic => False end.

Lemma body_end_not_fuel {A} (o : outcome A) : body_end o -> o <> Err E_FUEL /\ o <> Panic.
Proof.
  destruct o as [v|e|]; cbn [body_end]; intros H.
  - split; discriminate.
  - split; [|discriminate]. intros E. injection E as E. destruct H as [H|H]; rewrite H in E; discriminate E.
  - contradiction.
Qed.

(** [read_headers]: more fuel than bytes on the connection is enough, whatever the schedule *)
Lemma read_headers_ends grow fuel mode max_len buf cap r :
  length (rd_data r) < fuel ->
  match read_headers grow fuel mode max_len buf cap r with
  | Ok _ => True
  | Err e => e = E_TOO_LONG \/ e = E_UNEXPECTED_END \/ e = E_SYNTAX
  | Panic => False
  end.
Proof.
  intros Hf. pose proof (read_headers_sound grow fuel mode max_len buf cap r Hf) as H.
  destruct (read_headers grow fuel mode max_len buf cap r) as [[b r']|e|]; [exact I|exact H|exact H].
Qed.

Lemma head_read_ends_lemma : forall grow mode max_len stream sched,
  match read_headers grow (S (length stream)) mode max_len [] 512 (mk_reader stream sched) with
  | Ok _ => True
  | Err e => e = E_TOO_LONG \/ e = E_UNEXPECTED_END \/ e = E_SYNTAX
  | Panic => False
  end.
Proof. intros. apply read_headers_ends. cbn [rd_data]. lia. Qed.

(** the loop of [read_to_end_or_max]: every round takes at least one byte off [take_left] or is the last *)
Lemma rtem_loop_ends grow : forall fuel mode max_len buf cap tl r,
  tl < fuel -> body_end (rtem_loop grow fuel mode max_len buf cap tl r).
Proof.
  induction fuel as [|f IH]; intros mode max_len buf cap tl r Hf; [lia|].
  cbn [rtem_loop]. destruct (Nat.eqb tl 0) eqn:Et; [exact I|]. apply Nat.eqb_neq in Et.
  destruct (rd_read mode r (Nat.min (cap - length buf) tl)) as [got r'| |];
    [|left; reflexivity|right; reflexivity].
  destruct (null got) eqn:En; [exact I|]. apply null_false_length in En.
  destruct (Nat.leb max_len (length (buf ++ got))); [exact I|].
  apply IH. lia.
Qed.

Lemma read_to_bytes_ends grow mode early cl limit r : body_end (read_to_bytes grow mode early cl limit r).
Proof.
  unfold read_to_bytes.
  destruct (Nat.eqb (N.to_nat (N.min cl limit)) 0); [exact I|].
  destruct (Nat.leb (N.to_nat (N.min cl limit)) (length (firstn (N.to_nat (N.min cl limit)) early))); [exact I|].
  apply rtem_loop_ends. lia.
Qed.

(** [drain]: every round discards at least one byte of what is unread, or is the last *)
Lemma drain_loop_ends : forall fuel mode unread r, unread < fuel -> body_end (drain_loop fuel mode unread r).
Proof.
  induction fuel as [|f IH]; intros mode unread r Hf; [lia|].
  cbn [drain_loop]. destruct (Nat.eqb unread 0) eqn:Eu; [exact I|]. apply Nat.eqb_neq in Eu.
  destruct (rd_read mode r (Nat.min (N.to_nat 4096) unread)) as [got r'| |];
    [|left; reflexivity|right; reflexivity].
  destruct (null got) eqn:En; [right; reflexivity|]. apply null_false_length in En.
  apply IH. lia.
Qed.

Lemma hb_drain_ends mode b r : body_end (hb_drain mode b r).
Proof.
  unfold hb_drain. pose proof (drain_loop_ends (S (hb_unread b)) mode (hb_unread b) r ltac:(lia)) as H.
  destruct (drain_loop (S (hb_unread b)) mode (hb_unread b) r) as [r'|e|]; [exact I|exact H|exact H].
Qed.

Lemma hb_read_ends mode b r w : body_end (hb_read mode b r w).
Proof.
  unfold hb_read. destruct (Nat.eqb (hb_cl b - hb_offset b) 0); [exact I|].
  destruct (Nat.ltb (hb_offset b) (length (hb_bytes b))); [exact I|].
  destruct (rd_read mode r (Nat.min w (hb_cl b - hb_offset b))) as [got r'| |];
    [exact I|left; reflexivity|right; reflexivity].
Qed.

Lemma hb_read_to_bytes_ends grow mode b r limit : body_end (hb_read_to_bytes grow mode b r limit).
Proof.
  unfold hb_read_to_bytes.
  destruct (Nat.eqb (N.to_nat (N.min (N.of_nat (hb_cl b - hb_offset b)) limit)) 0); [exact I|].
  pose proof (read_to_bytes_ends grow mode (skipn (hb_offset b) (hb_bytes b)) (N.of_nat (hb_cl b - hb_offset b)) limit r) as H.
  destruct (read_to_bytes grow mode (skipn (hb_offset b) (hb_bytes b)) (N.of_nat (hb_cl b - hb_offset b)) limit r)
    as [[body r']|e|]; [exact I|exact H|exact H].
Qed.

(** any sequence of calls on a [Http1Body]: each of them ends *)
Lemma hb_run_ends grow mode : forall ops b r, Forall body_end (fst (hb_run grow mode b r ops)).
Proof.
  induction ops as [|op ops IH]; intros b r; cbn [hb_run]; [constructor|].
  assert (H : body_end (match op with
               | HRead w => hb_read mode b r w
               | HRtb limit => hb_read_to_bytes grow mode b r limit
               | HDrain => match hb_drain mode b r with Ok (b', r') => Ok ([], b', r') | Err e => Err e | Panic => Panic end
               end)).
  { destruct op as [w|limit|].
    - apply hb_read_ends.
    - apply hb_read_to_bytes_ends.
    - pose proof (hb_drain_ends mode b r) as Hd. destruct (hb_drain mode b r) as [[b' r']|e|]; [exact I|exact Hd|exact Hd]. }
  destruct (match op with
            | HRead w => hb_read mode b r w
            | HRtb limit => hb_read_to_bytes grow mode b r limit
            | HDrain => match hb_drain mode b r with Ok (b', r') => Ok ([], b', r') | Err e => Err e | Panic => Panic end
            end) as [[[got b'] r']|e|].
  - specialize (IH b' r'). destruct (hb_run grow mode b' r' ops) as [outs rf]. cbn [fst] in *.
    constructor; [exact I|exact IH].
  - cbn [fst]. constructor; [exact H|constructor].
  - contradiction.
Qed.

(** * The statements of Properties/C07.v *)

Lemma body_read_ends_lemma : forall grow mode early (cl limit : N) stream (sched : list nat),
  match read_to_bytes grow mode early cl limit (mk_reader stream sched) with
  | Ok _ => True
  | Err e => e = E_TIMEDOUT \/ e = E_IO
  | Panic => False
  end.
Proof. intros. exact (read_to_bytes_ends grow mode early cl limit (mk_reader stream sched)). Qed.

Lemma body_calls_end_lemma : forall grow mode early (cl : nat) stream (sched : list nat) (ops : list hop),
  Forall (fun o : outcome bytes => match o with Ok _ => True | Err e => e = E_TIMEDOUT \/ e = E_IO | Panic => False end)
         (fst (hb_run grow mode (hb_new early cl) (mk_reader stream sched) ops)).
Proof. intros. exact (hb_run_ends grow mode ops (hb_new early cl) (mk_reader stream sched)). Qed.

(** the whole reader: a result that is not "out of fuel", and a body outcome that is not either *)
Lemma serve_body_ends : forall grow mode https dh max_len limit stream sched sv,
  serve grow mode https dh max_len limit stream sched = Ok sv ->
  match sv_body sv with Ok _ => True | Err e => e = E_TIMEDOUT \/ e = E_IO | Panic => False end.
Proof.
  intros grow mode https dh max_len limit stream sched sv. unfold serve.
  destruct (read_request grow mode https dh max_len (mk_reader stream sched)) as [qr|e|]; cbn [obind]; [|discriminate|discriminate].
  pose proof (read_to_bytes_ends grow mode (q_early (fst qr)) (body_length (q_method (fst qr)) (q_headers (fst qr))) limit (snd qr)) as H.
  destruct (read_to_bytes grow mode (q_early (fst qr)) (body_length (q_method (fst qr)) (q_headers (fst qr))) limit (snd qr))
    as [[b r']|e|]; intros E; [| |contradiction].
  - injection E as E. subst sv. exact I.
  - injection E as E. subst sv. exact H.
Qed.
