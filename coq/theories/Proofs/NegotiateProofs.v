(** C06 — proofs about Model/Negotiate.v *)
From KV Require Import Bytes RustInt Range Negotiate.
From Coq Require Import ZifyBool ZifyNat ZifyN.
Open Scope N_scope.
