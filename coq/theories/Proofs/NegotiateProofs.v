(** C06 — proofs about Model/Negotiate.v *)
From KV Require Import Bytes RustInt Range Negotiate.
From Coq Require Import ZifyBool ZifyNat ZifyN.
Open Scope N_scope.

Arguments N.add : simpl never. Arguments N.sub : simpl never. Arguments N.mul : simpl never.
Arguments N.eqb : simpl never. Arguments N.ltb : simpl never. Arguments N.leb : simpl never.

(* ------------------------------------------------------------------------------------ *)
(** * Negotiation *)
Section NegP.
  Variable parse_q : bytes -> option qclass.
  Variable parse_mime : bytes -> option mime.
  Variable enc : alg -> N -> bytes -> bytes.

  Notation clone := (clone_preferred parse_q parse_mime enc).
  Notation values_of := (header_values parse_q).
  Notation choose_ := (choose parse_mime).

  Lemma q_is_zero_iff q : q_is_zero q = true <-> q = QZero.
  Proof. destruct q; cbn; split; intros H; try reflexivity; discriminate. Qed.

  Lemma contains_In values name :
    contains values name = true <-> exists q, In (name, q) values /\ q <> QZero.
  Proof.
    unfold contains. rewrite existsb_exists. split.
    - intros [[v q] [Hin Hb]]. cbn [fst snd] in Hb. apply andb_true_iff in Hb as [Hv Hq].
      apply beq_eq in Hv. subst v. exists q. split; [assumption|].
      intros ->. discriminate.
    - intros [q [Hin Hq]]. exists (name, q). split; [assumption|]. cbn [fst snd].
      rewrite beq_refl. destruct q; try reflexivity. congruence.
  Qed.

  (** ** "the client forbids identity", read off the list of (coding, quality) pairs (RFC 7231 5.3.4):
      identity — in any case — is listed with quality 0.0, or identity is not listed at all and "*" is
      listed with quality 0.0 *)
  Definition refuses_identity (values : list (bytes * qclass)) : Prop :=
    (exists v, In (v, QZero) values /\ lower v = s_identity) \/
    (In (s_star, QZero) values /\ forall v q, In (v, q) values -> lower v <> s_identity).

  Lemma disable_identity_iff values :
    disable_identity values = true <-> refuses_identity values.
  Proof.
    unfold disable_identity, disable_identity_gen, refuses_identity, names_identity. cbn [fx_case fx_star all_fixed andb].
    rewrite orb_true_iff, andb_true_iff, negb_true_iff. rewrite !existsb_exists. split.
    - intros [[[v q] [Hin Hb]]|[[[v q] [Hin Hb]] Hn]]; cbn [fst snd] in Hb; apply andb_true_iff in Hb as [Hv Hq];
        apply beq_eq in Hv; apply q_is_zero_iff in Hq; subst q.
      + left. exists v. auto.
      + right. subst v. split; [assumption|].
        intros w r Hw Hl. assert (E : existsb (fun v : bytes * qclass => beq (lower (fst v)) s_identity) values = true).
        { apply existsb_exists. exists (w, r). split; [assumption|]. cbn [fst]. rewrite Hl. apply beq_refl. }
        congruence.
    - intros [[v [Hin Hl]]|[Hin Hn]].
      + left. exists (v, QZero). split; [assumption|]. cbn [fst snd]. rewrite Hl, beq_refl. reflexivity.
      + right. split.
        * exists (s_star, QZero). split; [assumption|]. cbn [fst snd]. rewrite beq_refl. reflexivity.
        * destruct (existsb _ values) eqn:E; [|reflexivity]. apply existsb_exists in E as [[w r] [Hw Hb]].
          cbn [fst] in Hb. apply beq_eq in Hb. exfalso. exact (Hn _ _ Hw Hb).
  Qed.

  Lemma only_identity_spec values :
    only_identity values = true <-> values = [(s_identity, QOne)].
  Proof.
    unfold only_identity. destruct values as [|[v q] [|w r]]; split; intros H; try discriminate.
    - cbn [fst snd] in H. apply andb_true_iff in H as [Hv Hq]. apply beq_eq in Hv. subst v.
      destruct q; try discriminate. reflexivity.
    - inversion H; subst. cbn [fst snd]. rewrite beq_refl. reflexivity.
  Qed.

  Lemma only_identity_not_disabled values :
    only_identity values = true -> disable_identity values = false.
  Proof.
    intros H. apply only_identity_spec in H. subst values. vm_compute. reflexivity.
  Qed.

  Lemma pick_some p cz cb cg a :
    pick p cz cb cg = Some a ->
    (a = Zstd /\ cz = true) \/ (a = Br /\ cb = true) \/ (a = Gzip /\ cg = true).
  Proof.
    destruct p, cz, cb, cg; cbn; intros H; inversion H; subst; auto.
  Qed.
  Lemma pick_none p cz cb cg :
    pick p cz cb cg = None <-> cz = false /\ cb = false /\ cg = false.
  Proof.
    destruct p, cz, cb, cg; cbn; split; intros H; try discriminate; auto;
      destruct H as [H1 [H2 H3]]; discriminate.
  Qed.
  (** the preferred algorithm wins whenever the client lists it; otherwise zstd, br, gzip *)
  Lemma pick_order p cz cb cg :
    pick p cz cb cg =
    match p with
    | PZstd => if cz then Some Zstd else if cb then Some Br else if cg then Some Gzip else None
    | PBr => if cb then Some Br else if cz then Some Zstd else if cg then Some Gzip else None
    | PGzip => if cg then Some Gzip else if cz then Some Zstd else if cb then Some Br else None
    | PNone => if cz then Some Zstd else if cb then Some Br else if cg then Some Gzip else None
    end.
  Proof. destruct p, cz, cb, cg; reflexivity. Qed.

  Lemma choose_alg c values o a :
    choose_ c values o = Alg a -> compressible parse_mime c = true /\ contains values (alg_name a) = true.
  Proof.
    unfold choose, compressible. destruct (ctype_mime parse_mime c) as [m|]; [|discriminate].
    destruct (do_compress m); [|discriminate].
    destruct (pick _ _ _ _) as [a'|] eqn:Hp; [|discriminate].
    intros H. inversion H; subst a'. split; [reflexivity|].
    apply pick_some in Hp. destruct Hp as [[-> H1]|[[-> H1]|[-> H1]]]; assumption.
  Qed.

  Lemma choose_identity c values o :
    choose_ c values o = Identity <->
    compressible parse_mime c = false \/ (forall a, contains values (alg_name a) = false).
  Proof.
    unfold choose, compressible. destruct (ctype_mime parse_mime c) as [m|].
    - destruct (do_compress m).
      + destruct (pick _ _ _ _) as [a'|] eqn:Hp.
        * split; [discriminate|]. intros [H|H]; [discriminate|].
          apply pick_some in Hp.
          destruct Hp as [[-> H1]|[[-> H1]|[-> H1]]]; rewrite H in H1; discriminate.
        * split; [|reflexivity]. intros _. right. apply pick_none in Hp. destruct Hp as [H1 [H2 H3]].
          intros []; assumption.
      + split; auto.
    - split; auto.
  Qed.

  Definition label_of (hce : option bytes) (b : bytes) (ch : coding) : option bytes :=
    match b with [] => hce | _ => Some (coding_name ch) end.

  Lemma set_compression_eq hce b ch : set_compression hce b ch = Sent (label_of hce b ch) b ch.
  Proof. reflexivity. Qed.

  Notation identity_reply c := (Sent (label_of (cr_hce c) (cr_body c) Identity) (cr_body c) Identity).

  (** complete case analysis of [clone_preferred] *)
  Lemma clone_cases c ae o :
    let values := values_of ae in
    (* identity: opt-out / floor, only identity wanted, or nothing else chosen; identity not refused *)
    ((cr_compress c = false \/ only_identity values = true \/ choose_ c values o = Identity) /\
     disable_identity values = false /\ clone c ae o = (identity_reply c, c))
    \/ ((cr_compress c = false \/ (only_identity values = false /\ choose_ c values o = Identity)) /\
        disable_identity values = true /\ clone c ae o = (NotAcceptable, c))
    \/ (exists a, cr_compress c = true /\ only_identity values = false /\ choose_ c values o = Alg a /\
        clone c ae o = (Sent (label_of (cr_hce c) (fst (get_alg enc a (level_of o a) c)) (Alg a))
                             (fst (get_alg enc a (level_of o a) c)) (Alg a),
                        snd (get_alg enc a (level_of o a) c))).
  Proof.
    intros values. unfold clone_preferred, clone_preferred_gen. fold values. cbn [fx_floor all_fixed andb].
    fold (disable_identity values).
    destruct (cr_compress c) eqn:Hc; cbn [negb].
    2:{ destruct (disable_identity values) eqn:Hd.
        - right. left. auto.
        - left. auto. }
    destruct (only_identity values) eqn:Ho.
    { left. split; [auto|]. split; [apply only_identity_not_disabled; assumption|reflexivity]. }
    destruct (choose_ c values o) as [|a] eqn:Hch.
    - destruct (disable_identity values) eqn:Hd.
      + right. left. auto.
      + left. auto.
    - right. right. exists a. destruct (get_alg enc a (level_of o a) c) as [b c'] eqn:Hg.
      cbn [fst snd]. repeat split; reflexivity.
  Qed.

  Lemma header_values_some ae v q :
    In (v, q) (values_of ae) -> exists h, ae = Some h /\ to_str_ok h = true /\ In (v, q) (list_header parse_q h).
  Proof.
    unfold header_values. destruct ae as [h|]; [|intros []].
    destruct (to_str_ok h) eqn:Hs; [|intros []]. intros Hin. exists h. auto.
  Qed.

  Theorem chosen_is_listed_l c ae o l b ch c' :
    clone c ae o = (Sent l b ch, c') ->
    ch = Identity \/
    exists a h q, ch = Alg a /\ ae = Some h /\ to_str_ok h = true /\
                  In (alg_name a, q) (list_header parse_q h) /\ q <> QZero.
  Proof.
    intros H. destruct (clone_cases c ae o) as [[_ [_ E]]|[[_ [_ E]]|[a [_ [_ [Hch E]]]]]];
      rewrite E in H; inversion H; subst; auto.
    right. apply choose_alg in Hch as [_ Hc]. apply contains_In in Hc as [q [Hin Hq]].
    apply header_values_some in Hin as [h [-> [Hs Hin]]]. exists a, h, q. auto.
  Qed.

  Theorem never_refused_l c ae o l b a c' :
    clone c ae o = (Sent l b (Alg a), c') ->
    ~ (forall q, In (alg_name a, q) (values_of ae) -> q = QZero).
  Proof.
    intros H Hall. destruct (clone_cases c ae o) as [[_ [_ E]]|[[_ [_ E]]|[a' [_ [_ [Hch E]]]]]];
      rewrite E in H; inversion H; subst.
    apply choose_alg in Hch as [_ Hc]. apply contains_In in Hc as [q [Hin Hq]]. apply Hq, Hall, Hin.
  Qed.

  (** identity is never sent to a client that forbids it — whatever the size of the body, the handler's
      preference or the content type *)
  Theorem identity_refusal_l c ae o r c' :
    refuses_identity (values_of ae) ->
    clone c ae o = (r, c') -> forall l b, r <> Sent l b Identity.
  Proof.
    intros Hin H l b ->. apply disable_identity_iff in Hin.
    destruct (clone_cases c ae o) as [[_ [Hd E]]|[[_ [_ E]]|[a' [_ [_ [Hch E]]]]]];
      rewrite E in H; inversion H; subst; congruence.
  Qed.

  (** body under the floor or handler opted out: never a compressed body, no memo cell touched;
      the identity body, or 406 for a client that forbids identity *)
  Theorem floors_l body ct hce compress ae o :
    (length body < floor)%nat \/ compress = false ->
    clone (cresp_new body ct hce compress) ae o =
    (if disable_identity (values_of ae) then NotAcceptable
     else Sent (match body with [] => hce | _ => Some s_identity end) body Identity,
     cresp_new body ct hce compress).
  Proof.
    intros H. unfold clone_preferred, clone_preferred_gen.
    assert (Hc : cr_compress (cresp_new body ct hce compress) = false).
    { unfold cresp_new. cbn [cr_compress]. destruct H as [H| ->].
      - apply Nat.ltb_lt in H. rewrite H. reflexivity.
      - destruct (Nat.ltb _ _); reflexivity. }
    rewrite Hc. cbn [negb fx_floor all_fixed andb]. fold (disable_identity (values_of ae)).
    destruct (disable_identity (values_of ae)); reflexivity.
  Qed.

  Theorem floors_ctype_l c ae o r c' :
    compressible parse_mime c = false -> clone c ae o = (r, c') ->
    c' = c /\ (r = NotAcceptable \/ r = identity_reply c).
  Proof.
    intros Hn H.
    destruct (clone_cases c ae o) as [[_ [_ E]]|[[_ [_ E]]|[a' [_ [_ [Hch E]]]]]];
      rewrite E in H; inversion H; subst; auto.
    apply choose_alg in Hch as [Hc _]. congruence.
  Qed.

  (** the memo cells *)
  Lemma cell_get_set a a' v c : cell_get a (cell_set a' v c) = if alg_eqb a a' then v else cell_get a c.
  Proof. destruct a, a'; reflexivity. Qed.
  Lemma cell_set_body a v c : cr_body (cell_set a v c) = cr_body c.
  Proof. destruct a; reflexivity. Qed.
  Lemma cell_set_compress a v c : cr_compress (cell_set a v c) = cr_compress c.
  Proof. destruct a; reflexivity. Qed.
  Lemma cell_set_ctype a v c : cr_ctype (cell_set a v c) = cr_ctype c.
  Proof. destruct a; reflexivity. Qed.
  Lemma cell_set_hce a v c : cr_hce (cell_set a v c) = cr_hce c.
  Proof. destruct a; reflexivity. Qed.

  Lemma get_alg_ok a lvl c :
    cells_ok enc c ->
    (exists level, fst (get_alg enc a lvl c) = enc a level (cr_body c)) /\
    cells_ok enc (snd (get_alg enc a lvl c)) /\
    cr_body (snd (get_alg enc a lvl c)) = cr_body c /\
    cr_compress (snd (get_alg enc a lvl c)) = cr_compress c /\
    cr_ctype (snd (get_alg enc a lvl c)) = cr_ctype c /\
    cell_get a (snd (get_alg enc a lvl c)) = Some (fst (get_alg enc a lvl c)) /\
    cr_hce (snd (get_alg enc a lvl c)) = cr_hce c.
  Proof.
    intros Hok. unfold get_alg. destruct (cell_get a c) as [b|] eqn:Hg; cbn [fst snd].
    - repeat split; auto.
    - split; [exists lvl; reflexivity|]. split.
      + intros a' b' H. rewrite cell_get_set in H. rewrite cell_set_body.
        destruct (alg_eqb a' a) eqn:Ea.
        * inversion H; subst. destruct a, a'; try discriminate; exists lvl; reflexivity.
        * apply Hok. assumption.
      + rewrite cell_set_body, cell_set_compress, cell_set_ctype, cell_get_set, cell_set_hce.
        destruct a; repeat split; reflexivity.
  Qed.

  (** a filled cell is what every later request of that algorithm receives (memoisation) *)
  Lemma get_alg_memo a lvl c b :
    cell_get a c = Some b -> get_alg enc a lvl c = (b, c).
  Proof. intros H. unfold get_alg. rewrite H. reflexivity. Qed.

  Theorem label_matches_body_l c ae o l b ch c' :
    cells_ok enc c -> clone c ae o = (Sent l b ch, c') ->
    l = match b with [] => cr_hce c | _ => Some (coding_name ch) end /\
    match ch with
    | Identity => b = cr_body c /\ c' = c
    | Alg a => (exists level, b = enc a level (cr_body c)) /\ cell_get a c' = Some b
    end /\
    cells_ok enc c' /\ cr_body c' = cr_body c /\ cr_compress c' = cr_compress c /\ cr_ctype c' = cr_ctype c /\
    cr_hce c' = cr_hce c.
  Proof.
    intros Hok H.
    destruct (clone_cases c ae o) as [[_ [_ E]]|[[_ [_ E]]|[a' [_ [_ [Hch E]]]]]];
      rewrite E in H; inversion H; subst; auto.
    - repeat split; auto.
    - destruct (get_alg_ok a' (level_of o a') c Hok) as [H1 [H2 [H3 [H4 [H5 [H6 H7]]]]]].
      repeat split; auto.
  Qed.

  (** a content-encoding header set by the handler itself never reaches the client with a non-empty body *)
  Theorem handler_coding_overwritten_l c ae o l b ch c' :
    clone c ae o = (Sent l b ch, c') -> b <> [] -> l = Some (coding_name ch).
  Proof.
    intros H Hb.
    destruct (clone_cases c ae o) as [[_ [_ E]]|[[_ [_ E]]|[a' [_ [_ [Hch E]]]]]];
      rewrite E in H; [|discriminate|]; injection H as Hl Hb' Hc' _; subst l b ch; unfold label_of.
    - destruct (cr_body c); [congruence|reflexivity].
    - destruct (fst (get_alg enc a' (level_of o a') c)); [congruence|reflexivity].
  Qed.

  Lemma clone_not_acceptable_state c ae o c' : clone c ae o = (NotAcceptable, c') -> c' = c.
  Proof.
    intros H.
    destruct (clone_cases c ae o) as [[_ [_ E]]|[[_ [_ E]]|[a' [_ [_ [Hch E]]]]]];
      rewrite E in H; inversion H; subst; reflexivity.
  Qed.

  (** 406 <=> the client forbids identity and nothing else applies: the server does not compress this
      response (under the floor / opted out / content type not compressible) or none of zstd, br, gzip is
      listed with a non-zero quality *)
  Theorem not_acceptable_iff_l c ae o :
    fst (clone c ae o) = NotAcceptable <->
    refuses_identity (values_of ae) /\
    (cr_compress c = false \/ compressible parse_mime c = false \/
     forall a, contains (values_of ae) (alg_name a) = false).
  Proof.
    rewrite <- disable_identity_iff.
    destruct (clone_cases c ae o) as [[_ [Hd E]]|[[Hw [Hd E]]|[a' [E1 [E2 [E3 E]]]]]];
      rewrite E; cbn [fst]; split.
    - discriminate.
    - intros [H _]. congruence.
    - intros _. split; [assumption|]. destruct Hw as [Hw|[_ Hw]]; [auto|].
      right. eapply choose_identity. eassumption.
    - reflexivity.
    - discriminate.
    - intros [_ [H|H]]; [congruence|]. apply (choose_identity c (values_of ae) o) in H. congruence.
  Qed.

  (** ** Histories of one page *)
  Notation handle_ := (handle parse_q parse_mime enc).
  Notation handle_all_ := (handle_all parse_q parse_mime enc).
  Notation handle_group_ := (handle_group parse_q parse_mime enc).
  Notation serve_groups_ := (serve_groups parse_q parse_mime enc).

  (** the entry of a page is the page: its body, headers and preference (after the floor) *)
  Definition of_page (pg : page) (c : cresp) : Prop :=
    cells_ok enc c /\ cr_body c = pg_body pg /\ cr_ctype c = pg_ctype pg /\ cr_hce c = pg_hce pg /\
    cr_compress c = cr_compress (cresp_new (pg_body pg) (pg_ctype pg) (pg_hce pg) (pg_compress pg)).
  Definition entry_ok (pg : page) (e : option cresp) : Prop :=
    match e with None => True | Some c => of_page pg c end.

  Lemma cresp_new_ok body ct hce compress : cells_ok enc (cresp_new body ct hce compress).
  Proof. intros a b H. destruct a; discriminate. Qed.
  Lemma cresp_new_of_page pg : of_page pg (cresp_new (pg_body pg) (pg_ctype pg) (pg_hce pg) (pg_compress pg)).
  Proof. split; [apply cresp_new_ok|]. repeat split; reflexivity. Qed.

  Lemma clone_of_page pg c ae o r c' : of_page pg c -> clone c ae o = (r, c') -> of_page pg c'.
  Proof.
    intros [Hok [Hb [Hct [Hh Hc]]]] H. destruct r as [l b ch|].
    - destruct (label_matches_body_l _ _ _ _ _ _ _ Hok H) as [_ [_ [Hok' [Hb' [Hc' [Hct' Hh']]]]]].
      split; [assumption|]. repeat split; congruence.
    - apply clone_not_acceptable_state in H. subst c'. split; [assumption|]. auto.
  Qed.

  (** one step of a history: the reply comes from a [clone_preferred] on a response of the page *)
  Lemma handle_step pg e rq r e' :
    entry_ok pg e -> handle_ pg e rq = (r, e') ->
    entry_ok pg e' /\ exists c o c', of_page pg c /\ clone c (snd rq) o = (r, c') /\
                                   (was_memoised e rq r = true -> visible e (fst rq) = Some c).
  Proof.
    intros He H. destruct rq as [m ae]. unfold handle in H. cbn [fst snd]. unfold was_memoised. cbn [fst].
    destruct (visible e m) as [c|] eqn:Hv.
    - assert (Hc : of_page pg c).
      { unfold visible in Hv. destruct (cache_method m); [|discriminate]. subst e. exact He. }
      destruct (clone c ae (pg_cached pg)) as [r0 c0] eqn:Hcl. inversion H; subst.
      split; [exact (clone_of_page _ _ _ _ _ _ Hc Hcl)|]. exists c, (pg_cached pg), c0. auto.
    - destruct (clone _ ae _) as [r0 c0] eqn:Hcl. inversion H; subst.
      pose proof (clone_of_page _ _ _ _ _ _ (cresp_new_of_page pg) Hcl) as Hc0.
      split; [destruct (admitted pg m); [exact Hc0|exact He]|].
      eexists _, _, c0. split; [apply cresp_new_of_page|]. split; [eassumption|].
      destruct r; [destruct chosen|]; discriminate.
  Qed.

  (** a property of single replies that holds for every [clone_preferred] on a response of the page holds for
      every reply of every history of the page *)
  Section Lift.
    Variable pg : page.
    Variable Q : meth * option bytes -> reply -> Prop.
    Hypothesis Q_clone : forall c rq o r c', of_page pg c -> clone c (snd rq) o = (r, c') -> Q rq r.

    Lemma handle_all_lift reqs : forall e rs e',
      entry_ok pg e -> handle_all_ pg e reqs = (rs, e') ->
      Forall2 Q reqs (map fst rs) /\ entry_ok pg e'.
    Proof.
      induction reqs as [|rq rest IH]; intros e rs e' He H; cbn [handle_all] in H.
      - inversion H; subst. split; [constructor|assumption].
      - destruct (handle_ pg e rq) as [r e1] eqn:Hh.
        destruct (handle_all_ pg e1 rest) as [rs1 e2] eqn:Ha.
        inversion H; subst. destruct (handle_step _ _ _ _ _ He Hh) as [H1 [c [o [c' [Hc [Hcl _]]]]]].
        destruct (IH _ _ _ H1 Ha) as [H3 H4]. split; [|assumption]. cbn [map fst]. constructor; [|assumption].
        eapply Q_clone; eassumption.
    Qed.

    Lemma handle_group_lift e rq n rs e' :
      entry_ok pg e -> handle_group_ pg e rq n = (rs, e') ->
      Forall (Q rq) (map fst rs) /\ entry_ok pg e'.
    Proof.
      intros He H. unfold handle_group in H.
      assert (Hall : handle_all_ pg e (repeat rq n) = (rs, e') -> Forall (Q rq) (map fst rs) /\ entry_ok pg e').
      { intros Ha. destruct (handle_all_lift _ _ _ _ He Ha) as [H1 H2]. split; [|assumption].
        clear - H1. remember (repeat rq n) as l eqn:El. revert n El.
        induction H1 as [|x y l l' Hxy _ IH]; intros n El; [constructor|].
        destruct n as [|n]; [discriminate|]. cbn [repeat] in El. inversion El; subst. constructor; [assumption|].
        eapply IH. reflexivity. }
      destruct e as [c|]; [exact (Hall H)|]. destruct n as [|[|n]]; [exact (Hall H)|exact (Hall H)|].
      clear Hall. destruct (handle_ pg None rq) as [r e1] eqn:Hh. cbn [fst snd] in H. injection H as Hrs He'. subst rs e'.
      destruct (handle_step pg None rq r e1 He Hh) as [H1 [c [o [c' [Hc [Hcl _]]]]]].
      split; [|assumption]. apply Forall_forall. intros x Hx. apply in_map_iff in Hx as [[x0 m0] [Hx0 Hin]].
      change ((r, false) :: (r, false) :: repeat (r, false) n) with (repeat (r, false) (S (S n))) in Hin.
      apply repeat_spec in Hin. inversion Hin; subst. cbn [fst]. eapply Q_clone; eassumption.
    Qed.

    Lemma serve_groups_lift groups : forall e,
      entry_ok pg e ->
      Forall2 (fun g rs => Forall (Q (fst g)) (map fst rs)) groups (serve_groups_ pg e groups).
    Proof.
      induction groups as [|[rq n] rest IH]; intros e He; cbn [serve_groups]; [constructor|].
      destruct (handle_group_ pg e rq n) as [rs e1] eqn:Hg.
      destruct (handle_group_lift _ _ _ _ _ He Hg) as [H1 H2]. constructor; [exact H1|apply IH; assumption].
    Qed.
  End Lift.

  (** every reply of every history is one the specification allows *)
  Lemma may_compress_false pg c :
    of_page pg c -> may_compress parse_mime pg = false -> cr_compress c = false \/ compressible parse_mime c = false.
  Proof.
    intros [_ [Hb [Hct [_ Hc]]]] H. unfold may_compress in H. unfold compressible, ctype_mime. rewrite Hct, Hc.
    unfold cresp_new. cbn [cr_compress]. unfold page_ctype_ok in H.
    destruct (Nat.ltb (length (pg_body pg)) floor); [auto|]. destruct (pg_compress pg); [|auto].
    cbn [negb andb] in H. right. destruct (pg_ctype pg) as [h|]; [|reflexivity].
    destruct (to_str_ok h); [|reflexivity]. destruct (parse_mime h); [assumption|reflexivity].
  Qed.

  Lemma alg_in_all a : alg_in a all_algs = true.
  Proof. destruct a; reflexivity. Qed.
  Lemma alg_in_filter a f l : alg_in a l = true -> f a = true -> alg_in a (filter f l) = true.
  Proof.
    unfold alg_in. rewrite !existsb_exists. intros [x [Hin Hx]] Hf.
    assert (x = a) by (destruct a, x; try discriminate; reflexivity). subst x.
    exists a. split; [apply filter_In; auto|assumption].
  Qed.

  Theorem clone_meets_spec_l pg c ae o r c' :
    of_page pg c -> clone c ae o = (r, c') -> reply_allowed (spec_verdict parse_q parse_mime pg ae) r = true.
  Proof.
    intros Hc H. unfold spec_verdict. fold (values_of ae).
    set (algs := if may_compress parse_mime pg then filter _ all_algs else []).
    assert (Hnil : may_compress parse_mime pg = false -> algs = []) by (unfold algs; intros ->; reflexivity).
    destruct (clone_cases c ae o) as [[_ [Hd E]]|[[Hw [Hd E]]|[a' [E1 [E2 [E3 E]]]]]]; rewrite E in H; inversion H; subst r c'; clear H.
    - cbn [reply_allowed v_406 v_identity]. rewrite Hd. reflexivity.
    - cbn [reply_allowed v_406]. rewrite Hd. cbn [andb].
      assert (Hcases : cr_compress c = false \/ compressible parse_mime c = false \/ forall a, contains (values_of ae) (alg_name a) = false).
      { destruct Hw as [Hw|[_ Hw]]; [auto|]. right. eapply choose_identity. eassumption. }
      destruct (may_compress parse_mime pg) eqn:Hm.
      + assert (Hno : forall a, contains (values_of ae) (alg_name a) = false).
        { destruct Hcases as [Hx|[Hx|Hx]]; [| |assumption]; exfalso.
          - destruct Hc as [_ [_ [_ [_ Hcc]]]]. unfold may_compress in Hm. unfold cresp_new in Hcc. cbn [cr_compress] in Hcc.
            destruct (Nat.ltb _ _); [discriminate|]. cbn [negb andb] in Hm. destruct (pg_compress pg); [congruence|discriminate].
          - destruct Hc as [_ [_ [Hct _]]]. unfold may_compress, page_ctype_ok in Hm. unfold compressible, ctype_mime in Hx. rewrite Hct in Hx.
            apply andb_true_iff in Hm as [_ Hm]. destruct (pg_ctype pg) as [h|]; [|discriminate].
            destruct (to_str_ok h); [|discriminate]. destruct (parse_mime h); congruence. }
        unfold algs, all_algs. cbn [filter]. rewrite !Hno. reflexivity.
      + rewrite (Hnil eq_refl). reflexivity.
    - cbn [reply_allowed v_406 v_algs]. apply choose_alg in E3 as [Hcomp Hcont].
      assert (Hm : may_compress parse_mime pg = true).
      { destruct (may_compress parse_mime pg) eqn:Hm; [reflexivity|]. destruct (may_compress_false _ _ Hc Hm); congruence. }
      assert (Hin : alg_in a' algs = true).
      { unfold algs. rewrite Hm. apply alg_in_filter; [apply alg_in_all|assumption]. }
      rewrite Hin. destruct algs; [discriminate|]. rewrite andb_false_r. reflexivity.
  Qed.

  Theorem serve_meets_spec_l pg groups :
    Forall2 (fun g rs => Forall (fun r => reply_allowed (spec_verdict parse_q parse_mime pg (snd (fst g))) r = true) (map fst rs))
            groups (serve_groups_ pg None groups).
  Proof.
    apply (serve_groups_lift pg (fun rq r => reply_allowed (spec_verdict parse_q parse_mime pg (snd rq)) r = true)); [|exact I].
    intros c rq o r c' Hc H. eapply clone_meets_spec_l; eassumption.
  Qed.

  (** memoised bytes are reused: a filled cell is never changed, and a reply that uses the coding of a filled
      cell carries exactly the bytes in it *)
  Lemma clone_cell_stable c ae o r c' a b0 :
    clone c ae o = (r, c') -> cell_get a c = Some b0 ->
    cell_get a c' = Some b0 /\ forall l b, r = Sent l b (Alg a) -> b = b0.
  Proof.
    intros H Hg.
    destruct (clone_cases c ae o) as [[_ [_ E]]|[[_ [_ E]]|[a' [_ [_ [_ E]]]]]]; rewrite E in H; inversion H; subst r c'; clear H.
    - split; [assumption|]. intros l b Hs. discriminate.
    - split; [assumption|]. intros l b Hs. discriminate.
    - unfold get_alg. destruct (cell_get a' c) as [b1|] eqn:Hg'; cbn [fst snd].
      + split; [assumption|]. intros l b Hs. inversion Hs; subst. congruence.
      + split.
        * rewrite cell_get_set. destruct (alg_eqb a a') eqn:Ea; [|assumption].
          destruct a, a'; try discriminate; congruence.
        * intros l b Hs. inversion Hs; subst. congruence.
  Qed.

  Theorem memoised_reply_l pg e rq r e' :
    handle_ pg e rq = (r, e') -> was_memoised e rq r = true ->
    exists c a l b, visible e (fst rq) = Some c /\ r = Sent l b (Alg a) /\ cell_get a c = Some b /\
                    exists c', e' = Some c' /\ cell_get a c' = Some b.
  Proof.
    intros H Hw. destruct rq as [m ae]. unfold was_memoised in Hw. cbn [fst] in *. unfold handle in H.
    destruct r as [l b [|a]|]; try discriminate.
    destruct (visible e m) as [c|] eqn:Hv; [|discriminate].
    destruct (cell_get a c) as [b0|] eqn:Hg; [|discriminate].
    destruct (clone c ae (pg_cached pg)) as [r0 c0] eqn:Hcl. inversion H; subst.
    destruct (clone_cell_stable _ _ _ _ _ _ _ Hcl Hg) as [H1 H2]. specialize (H2 _ _ eq_refl). subst b0.
    exists c, a, l, b. repeat split; auto. exists c0. auto.
  Qed.

  (** ** every reply of every history decodes to the page's body *)
  Section Lossless.
    Variable dec : alg -> bytes -> bytes.
    Hypothesis dec_enc : forall a level b, dec a (enc a level b) = b.
    Hypothesis enc_nonempty : forall a level b, enc a level b <> [].

    (** the handler's own content-encoding header survives on an empty body only (a HEAD-like response): it has
        to be absent or identity there for the label to describe the body *)
    Definition hce_harmless (pg : page) : Prop :=
      pg_body pg <> [] \/ pg_hce pg = None \/ pg_hce pg = Some s_identity.

    Lemma decode_sent c ae o l b ch c' :
      cells_ok enc c -> (cr_body c <> [] \/ cr_hce c = None \/ cr_hce c = Some s_identity) ->
      clone c ae o = (Sent l b ch, c') -> decode_label dec l b = Some (cr_body c).
    Proof.
      intros Hok Hh H. destruct (label_matches_body_l _ _ _ _ _ _ _ Hok H) as [Hl [Hb _]]. subst l.
      destruct ch as [|a].
      - destruct Hb as [-> _]. destruct (cr_body c) eqn:Eb; [|reflexivity].
        destruct Hh as [Hh|[->| ->]]; [congruence|reflexivity|reflexivity].
      - destruct Hb as [[lvl ->] _]. destruct (enc a lvl (cr_body c)) eqn:He; [exfalso; eapply enc_nonempty; eassumption|].
        rewrite <- He. destruct a; cbn; rewrite dec_enc; reflexivity.
    Qed.

    Definition reply_ok (pg : page) (r : reply) : Prop :=
      r = NotAcceptable \/ exists l b ch, r = Sent l b ch /\ decode_label dec l b = Some (pg_body pg).

    Theorem lossless_l pg groups :
      hce_harmless pg ->
      Forall (fun rs => Forall (reply_ok pg) (map fst rs)) (serve_groups_ pg None groups).
    Proof.
      intros Hh.
      pose proof (serve_groups_lift pg (fun _ r => reply_ok pg r)) as L.
      assert (HQ : forall c (rq : meth * option bytes) o r c', of_page pg c -> clone c (snd rq) o = (r, c') -> reply_ok pg r).
      { intros c rq o r c' [Hok [Hb [_ [Hhc _]]]] H. destruct r as [l b ch|]; [|left; reflexivity].
        right. exists l, b, ch. split; [reflexivity|]. rewrite <- Hb. eapply decode_sent; try eassumption.
        rewrite Hb, Hhc. exact Hh. }
      specialize (L HQ groups None I). clear - L.
      induction L as [|g rs gs rss H _ IH]; constructor; assumption.
    Qed.
  End Lossless.

End NegP.

(* ------------------------------------------------------------------------------------ *)
(** * The memo cell under every interleaving *)
Lemma set_nth_length {A} i (v : A) l : length (set_nth i v l) = length l.
Proof. revert i; induction l as [|x l IH]; intros [|i]; cbn [set_nth length]; auto. Qed.
Lemma nth_error_set_nth_eq {A} i (v : A) l : (i < length l)%nat -> nth_error (set_nth i v l) i = Some v.
Proof.
  revert i; induction l as [|x l IH]; intros [|i] H; cbn [set_nth nth_error length] in *; try lia; auto.
  apply IH. lia.
Qed.
Lemma nth_error_set_nth_neq {A} i j (v : A) l : i <> j -> nth_error (set_nth i v l) j = nth_error l j.
Proof.
  revert i j; induction l as [|x l IH]; intros [|i] [|j] H; cbn [set_nth nth_error]; try reflexivity; try congruence.
  apply IH. congruence.
Qed.

Section Memo.
  Variable P : bytes -> Prop.
  Variable vals : list bytes.
  Variable n : nat.
  Hypothesis vals_ok : forall i, (i < n)%nat -> P (nth i vals []).

  (** task holds the permit *)
  Definition holds (p : pc) : bool := match p with PComputing | PComputed _ => true | _ => false end.

  Definition pc_ok (cell : option bytes) (p : pc) : Prop :=
    match p with
    | PStart | PComputing => True
    | PComputed b => P b
    | PRet => cell <> None
    | PDone r => exists b, r = Ok b /\ P b
    end.
  Definition memo_inv (st : mstate) : Prop :=
    (forall b, m_cell st = Some b -> P b) /\
    (forall i p, nth_error (m_pcs st) i = Some p -> pc_ok (m_cell st) p) /\
    length (m_pcs st) = n /\
    (* the permit: held by exactly the one task that is compressing, and only while the cell is empty *)
    (forall i p, nth_error (m_pcs st) i = Some p -> holds p = true -> m_lock st = true /\ m_cell st = None) /\
    (forall i j p q, nth_error (m_pcs st) i = Some p -> nth_error (m_pcs st) j = Some q ->
                     holds p = true -> holds q = true -> i = j) /\
    (m_lock st = true -> exists i p, nth_error (m_pcs st) i = Some p /\ holds p = true).

  Lemma pc_ok_mono cell cell' p : (cell <> None -> cell' <> None) -> pc_ok cell p -> pc_ok cell' p.
  Proof. destruct p; cbn; auto. Qed.

  Lemma nth_set_cases {A} i j (v : A) l q :
    nth_error (set_nth i v l) j = Some q -> (i < length l)%nat ->
    (i = j /\ q = v) \/ (i <> j /\ nth_error l j = Some q).
  Proof.
    intros H Hi. destruct (Nat.eq_dec i j) as [<-|Hne].
    - rewrite nth_error_set_nth_eq in H by assumption. inversion H. auto.
    - rewrite nth_error_set_nth_neq in H by assumption. auto.
  Qed.

  Lemma mstep_inv st i st' : memo_inv st -> mstep vals st i = Some st' -> memo_inv st'.
  Proof.
    intros Hinv Hs. pose proof Hinv as [H1 [H2 [H3 [H4 [H5 H6]]]]]. unfold mstep in Hs.
    destruct (nth_error (m_pcs st) i) as [p|] eqn:Hp; [|discriminate].
    assert (Hi : (i < length (m_pcs st))%nat) by (apply nth_error_Some; congruence).
    pose proof (H2 _ _ Hp) as Hok.
    destruct p as [| |buf| |r].
    - (* PStart *)
      destruct (m_cell st) as [b0|] eqn:Hc.
      + (* fast path *)
        inversion Hs; subst st'; clear Hs. unfold memo_inv; cbn [m_cell m_lock m_pcs]. rewrite set_nth_length.
        split; [exact H1|]. split.
        { intros j q Hq. apply nth_set_cases in Hq as [[<- ->]|[Hne Hq]]; [|exact (H2 _ _ Hq)|assumption].
          cbn. discriminate. }
        split; [assumption|]. split.
        { intros j q Hq Hh. apply nth_set_cases in Hq as [[<- ->]|[Hne Hq]]; [discriminate| |assumption].
          destruct (H4 _ _ Hq Hh) as [_ Hx]. discriminate. }
        split.
        { intros j k q q' Hq Hq' Hh Hh'.
          apply nth_set_cases in Hq as [[<- ->]|[Hne Hq]]; [discriminate| |assumption].
          apply nth_set_cases in Hq' as [[<- ->]|[Hne' Hq']]; [discriminate| |assumption].
          eapply H5; eassumption. }
        { intros Hl. destruct (H6 Hl) as [j [q [Hq Hh]]]. destruct (H4 _ _ Hq Hh) as [_ Hx]. discriminate. }
      + destruct (m_lock st) eqn:Hl; [discriminate|].
        inversion Hs; subst st'; clear Hs. unfold memo_inv; cbn [m_cell m_lock m_pcs]. rewrite set_nth_length.
        assert (Hnone : forall j q, nth_error (m_pcs st) j = Some q -> holds q = false).
        { intros j q Hq. destruct (holds q) eqn:Hh; [|reflexivity]. destruct (H4 _ _ Hq Hh). discriminate. }
        split; [exact H1|]. split.
        { intros j q Hq. apply nth_set_cases in Hq as [[<- ->]|[Hne Hq]]; [exact I|exact (H2 _ _ Hq)|assumption]. }
        split; [assumption|]. split.
        { intros j q Hq Hh. auto. }
        split.
        { intros j k q q' Hq Hq' Hh Hh'.
          apply nth_set_cases in Hq as [[<- ->]|[Hne Hq]]; [| |assumption];
            apply nth_set_cases in Hq' as [[<- ->]|[Hne' Hq']]; try assumption; try reflexivity.
          - rewrite (Hnone _ _ Hq') in Hh'. discriminate.
          - rewrite (Hnone _ _ Hq) in Hh. discriminate.
          - rewrite (Hnone _ _ Hq) in Hh. discriminate. }
        { intros _. exists i, PComputing. split; [apply nth_error_set_nth_eq; assumption|reflexivity]. }
    - (* PComputing *)
      inversion Hs; subst st'; clear Hs. unfold memo_inv; cbn [m_cell m_lock m_pcs]. rewrite set_nth_length.
      destruct (H4 _ _ Hp eq_refl) as [Hl Hc].
      split; [assumption|]. split.
      { intros j q Hq. apply nth_set_cases in Hq as [[<- ->]|[Hne Hq]]; [| |assumption].
        - cbn. apply vals_ok. rewrite <- H3. assumption.
        - apply H2 with j. assumption. }
      split; [assumption|]. split.
      { intros j q Hq Hh. auto. }
      split.
      { intros j k q q' Hq Hq' Hh Hh'.
        apply nth_set_cases in Hq as [[<- ->]|[Hne Hq]]; [| |assumption];
          apply nth_set_cases in Hq' as [[<- ->]|[Hne' Hq']]; try assumption; try reflexivity.
        - eapply H5; [exact Hp|exact Hq'|reflexivity|assumption].
        - eapply H5; [exact Hq|exact Hp|assumption|reflexivity].
        - eapply H5; eassumption. }
      { intros _. exists i, (PComputed (nth i vals [])). split; [apply nth_error_set_nth_eq; assumption|reflexivity]. }
    - (* PComputed: the value is stored, the permit given up *)
      inversion Hs; subst st'; clear Hs. unfold memo_inv; cbn [m_cell m_lock m_pcs]. rewrite set_nth_length.
      cbn in Hok.
      assert (Hnone : forall j q, j <> i -> nth_error (m_pcs st) j = Some q -> holds q = false).
      { intros j q Hne Hq. destruct (holds q) eqn:Hh; [|reflexivity]. exfalso. apply Hne.
        eapply H5; [exact Hq|exact Hp|assumption|reflexivity]. }
      split; [intros b Hb; inversion Hb; subst; assumption|]. split.
      { intros j q Hq. apply nth_set_cases in Hq as [[<- ->]|[Hne Hq]]; [cbn; discriminate| |assumption].
        eapply pc_ok_mono; [|eapply H2; eassumption]. intros _. discriminate. }
      split; [assumption|]. split.
      { intros j q Hq Hh. apply nth_set_cases in Hq as [[<- ->]|[Hne Hq]]; [discriminate| |assumption].
        rewrite (Hnone j q) in Hh by auto. discriminate. }
      split.
      { intros j k q q' Hq Hq' Hh Hh'.
        apply nth_set_cases in Hq as [[<- ->]|[Hne Hq]]; [discriminate| |assumption].
        rewrite (Hnone j q) in Hh by auto. discriminate. }
      { discriminate. }
    - (* PRet *)
      inversion Hs; subst st'; clear Hs. unfold memo_inv; cbn [m_cell m_lock m_pcs]. rewrite set_nth_length.
      cbn in Hok.
      split; [assumption|]. split.
      { intros j q Hq. apply nth_set_cases in Hq as [[<- ->]|[Hne Hq]]; [| |assumption].
        - cbn. destruct (m_cell st) as [b|] eqn:Hc; [|congruence]. exists b. auto.
        - eapply H2; eassumption. }
      split; [assumption|]. split.
      { intros j q Hq Hh. apply nth_set_cases in Hq as [[<- ->]|[Hne Hq]]; [discriminate| |assumption]. eauto. }
      split.
      { intros j k q q' Hq Hq' Hh Hh'.
        apply nth_set_cases in Hq as [[<- ->]|[Hne Hq]]; [discriminate| |assumption].
        apply nth_set_cases in Hq' as [[<- ->]|[Hne' Hq']]; [discriminate| |assumption].
        eapply H5; eassumption. }
      { intros Hl. destruct (H6 Hl) as [j [q [Hq Hh]]]. exists j, q. split; [|assumption].
        rewrite nth_error_set_nth_neq; [assumption|]. intros <-. rewrite Hp in Hq. inversion Hq; subst. discriminate. }
    - discriminate.
  Qed.

  Lemma mrun_inv sched : forall st, memo_inv st -> memo_inv (mrun vals st sched).
  Proof.
    induction sched as [|i r IH]; intros st H; cbn [mrun]; [assumption|].
    apply IH. destruct (mstep vals st i) as [st'|] eqn:Hs; [eapply mstep_inv; eassumption|assumption].
  Qed.

  Lemma minit_inv cell : (forall b, cell = Some b -> P b) -> memo_inv (minit cell n).
  Proof.
    intros H. unfold memo_inv, minit; cbn [m_pcs m_cell m_lock].
    assert (Hall : forall i p, nth_error (repeat PStart n) i = Some p -> p = PStart).
    { intros i p Hp. apply nth_error_In in Hp. apply repeat_spec in Hp. assumption. }
    split; [exact H|]. split; [intros i p Hp; rewrite (Hall _ _ Hp); exact I|].
    split; [apply repeat_length|]. split; [intros i p Hp Hh; rewrite (Hall _ _ Hp) in Hh; discriminate|].
    split; [intros i j p q Hp _ Hh; rewrite (Hall _ _ Hp) in Hh; discriminate|discriminate].
  Qed.

  Theorem memo_invariant_l cell sched :
    (forall b, cell = Some b -> P b) ->
    let st := mrun vals (minit cell n) sched in
    (forall b, m_cell st = Some b -> P b) /\
    (forall i r, nth_error (m_pcs st) i = Some (PDone r) -> exists b, r = Ok b /\ P b).
  Proof.
    intros H st. destruct (mrun_inv sched _ (minit_inv cell H)) as [H1 [H2 _]].
    split; [exact H1|]. intros i r Hr. apply (H2 _ _ Hr).
  Qed.

  (** written once: under the invariant a filled cell never changes *)
  Lemma mstep_cell_stable st i st' b : memo_inv st -> m_cell st = Some b -> mstep vals st i = Some st' -> m_cell st' = Some b.
  Proof.
    intros [_ [_ [_ [H4 _]]]] Hc Hs. unfold mstep in Hs.
    destruct (nth_error (m_pcs st) i) as [[| |buf| |r]|] eqn:Hp; try discriminate.
    - rewrite Hc in Hs. inversion Hs; subst st'; reflexivity.
    - inversion Hs; subst st'; exact Hc.
    - destruct (H4 _ _ Hp eq_refl) as [_ Hx]. congruence.
    - inversion Hs; subst st'; exact Hc.
  Qed.
  Lemma mrun_cell_stable sched : forall st b, memo_inv st -> m_cell st = Some b -> m_cell (mrun vals st sched) = Some b.
  Proof.
    induction sched as [|i r IH]; intros st b Hinv H; cbn [mrun]; [assumption|].
    destruct (mstep vals st i) as [st'|] eqn:Hs; [|apply IH; assumption].
    apply IH; [eapply mstep_inv; eassumption|eapply mstep_cell_stable; eassumption].
  Qed.
  Lemma mrun_app sched1 : forall sched2 st, mrun vals st (sched1 ++ sched2) = mrun vals (mrun vals st sched1) sched2.
  Proof. induction sched1 as [|i r IH]; intros sched2 st; cbn [mrun app]; [reflexivity|apply IH]. Qed.

  (** never stuck: some task that has not returned can move *)
  Lemma memo_progress_l st :
    memo_inv st -> forallb pc_done (m_pcs st) = false -> exists i st', mstep vals st i = Some st'.
  Proof.
    intros [_ [_ [_ [H4 [_ H6]]]]] Hnd.
    destruct (m_lock st) eqn:Hl.
    - destruct (H6 eq_refl) as [i [p [Hp Hh]]]. exists i. unfold mstep. rewrite Hp.
      destruct p; try discriminate; eexists; reflexivity.
    - assert (Hex : exists i p, nth_error (m_pcs st) i = Some p /\ pc_done p = false).
      { clear - Hnd. induction (m_pcs st) as [|q l IH]; [discriminate|]. cbn [forallb] in Hnd.
        destruct (pc_done q) eqn:Hq.
        - cbn [andb] in Hnd. destruct (IH Hnd) as [i [p [Hp Hd]]]. exists (S i), p. auto.
        - exists O, q. auto. }
      destruct Hex as [i [p [Hp Hd]]]. exists i. unfold mstep. rewrite Hp, Hl.
      destruct p; try discriminate; try (eexists; reflexivity).
      destruct (m_cell st); eexists; reflexivity.
  Qed.
End Memo.

Theorem memo_write_once_l vals n cell sched1 sched2 b :
  m_cell (mrun vals (minit cell n) sched1) = Some b -> m_cell (mrun vals (minit cell n) (sched1 ++ sched2)) = Some b.
Proof.
  intros H. rewrite mrun_app.
  assert (Hinv : memo_inv (fun _ => True) n (mrun vals (minit cell n) sched1)).
  { apply mrun_inv; [intros; exact I|]. apply minit_inv. intros; exact I. }
  exact (mrun_cell_stable (fun _ => True) vals n (fun _ _ => I) sched2 _ _ Hinv H).
Qed.

(** every step that is taken uses up one of the at most 4 steps of its task *)
Lemma total_left_set_nth i p l q :
  nth_error l i = Some q ->
  (fold_right (fun p acc => (steps_left p + acc)%nat) O (set_nth i p l) + steps_left q =
   fold_right (fun p acc => (steps_left p + acc)%nat) O l + steps_left p)%nat.
Proof.
  revert i; induction l as [|x l IH]; intros [|i] H; cbn [nth_error] in H; try discriminate.
  - inversion H; subst. cbn [set_nth fold_right]. lia.
  - cbn [set_nth fold_right]. specialize (IH _ H). lia.
Qed.
Theorem memo_step_decreases_l vals st i st' : mstep vals st i = Some st' -> (total_left st' < total_left st)%nat.
Proof.
  unfold mstep, total_left. destruct (nth_error (m_pcs st) i) as [p|] eqn:Hp; [|discriminate].
  destruct p as [| |buf| |r]; intros Hs.
  - destruct (m_cell st).
    + inversion Hs; subst; cbn [m_pcs]. pose proof (total_left_set_nth i PRet _ _ Hp). cbn [steps_left] in *. lia.
    + destruct (m_lock st); [discriminate|]. inversion Hs; subst; cbn [m_pcs].
      pose proof (total_left_set_nth i PComputing _ _ Hp). cbn [steps_left] in *. lia.
  - inversion Hs; subst; cbn [m_pcs]. pose proof (total_left_set_nth i (PComputed (nth i vals [])) _ _ Hp). cbn [steps_left] in *. lia.
  - inversion Hs; subst; cbn [m_pcs]. pose proof (total_left_set_nth i PRet _ _ Hp). cbn [steps_left] in *. lia.
  - inversion Hs; subst; cbn [m_pcs].
    pose proof (total_left_set_nth i (PDone (match m_cell st with Some b => Ok b | None => Panic end)) _ _ Hp). cbn [steps_left] in *. lia.
  - discriminate.
Qed.

(** no deadlock and termination: after any schedule either every task has returned, or some task can move — and
    every move uses up one of the at most 4n steps there are *)
Theorem memo_completes_l vals cell n sched :
  let st := mrun vals (minit cell n) sched in
  (total_left (minit cell n) = 4 * n)%nat /\
  (forallb pc_done (m_pcs st) = true \/
   exists i st', mstep vals st i = Some st' /\ (total_left st' < total_left st)%nat).
Proof.
  intros st. split.
  { unfold total_left, minit; cbn [m_pcs]. clear st. induction n as [|k IH]; [reflexivity|].
    change (repeat PStart (S k)) with (PStart :: repeat PStart k). cbn [fold_right steps_left].
    rewrite IH. lia. }
  destruct (forallb pc_done (m_pcs st)) eqn:Hd; [left; reflexivity|right].
  assert (Hinv : memo_inv (fun _ => True) n st).
  { apply mrun_inv; [intros; exact I|]. apply minit_inv. intros; exact I. }
  destruct (memo_progress_l (fun _ => True) vals n st Hinv Hd) as [i [st' Hs]].
  exists i, st'. split; [assumption|]. eapply memo_step_decreases_l. eassumption.
Qed.
