(** C06 — proofs about Model/Negotiate.v *)
From KV Require Import Bytes RustInt Range Negotiate.
From Coq Require Import ZifyBool ZifyNat ZifyN.
Open Scope N_scope.

Arguments N.add : simpl never. Arguments N.sub : simpl never. Arguments N.mul : simpl never.
Arguments N.eqb : simpl never. Arguments N.ltb : simpl never. Arguments N.leb : simpl never.

(* ------------------------------------------------------------------------------------ *)
(** * Negotiation *)
Section NegP.
  Variable parse_q : bytes -> option qclass.
  Variable parse_mime : bytes -> option mime.
  Variable enc : alg -> N -> bytes -> bytes.

  Notation clone := (clone_preferred parse_q parse_mime enc).
  Notation values_of := (header_values parse_q).
  Notation choose_ := (choose parse_mime).

  Lemma q_is_zero_iff q : q_is_zero q = true <-> q = QZero.
  Proof. destruct q; cbn; split; intros H; try reflexivity; discriminate. Qed.

  Lemma contains_In values name :
    contains values name = true <-> exists q, In (name, q) values /\ q <> QZero.
  Proof.
    unfold contains. rewrite existsb_exists. split.
    - intros [[v q] [Hin Hb]]. cbn [fst snd] in Hb. apply andb_true_iff in Hb as [Hv Hq].
      apply beq_eq in Hv. subst v. exists q. split; [assumption|].
      intros ->. discriminate.
    - intros [q [Hin Hq]]. exists (name, q). split; [assumption|]. cbn [fst snd].
      rewrite beq_refl. destruct q; try reflexivity. congruence.
  Qed.

  Lemma disable_identity_In values :
    disable_identity values = true <-> In (s_identity, QZero) values.
  Proof.
    unfold disable_identity. rewrite existsb_exists. split.
    - intros [[v q] [Hin Hb]]. cbn [fst snd] in Hb. apply andb_true_iff in Hb as [Hv Hq].
      apply beq_eq in Hv. apply q_is_zero_iff in Hq. subst. assumption.
    - intros Hin. exists (s_identity, QZero). split; [assumption|]. cbn [fst snd]. rewrite beq_refl. reflexivity.
  Qed.

  Lemma only_identity_spec values :
    only_identity values = true <-> values = [(s_identity, QOne)].
  Proof.
    unfold only_identity. destruct values as [|[v q] [|w r]]; split; intros H; try discriminate.
    - cbn [fst snd] in H. apply andb_true_iff in H as [Hv Hq]. apply beq_eq in Hv. subst v.
      destruct q; try discriminate. reflexivity.
    - inversion H; subst. cbn [fst snd]. rewrite beq_refl. reflexivity.
  Qed.

  Lemma only_identity_not_disabled values :
    only_identity values = true -> disable_identity values = false.
  Proof.
    intros H. apply only_identity_spec in H. subst values. unfold disable_identity.
    cbn [existsb fst snd q_is_zero]. rewrite andb_false_r. reflexivity.
  Qed.

  Lemma pick_some p cz cb cg a :
    pick p cz cb cg = Some a ->
    (a = Zstd /\ cz = true) \/ (a = Br /\ cb = true) \/ (a = Gzip /\ cg = true).
  Proof.
    destruct p, cz, cb, cg; cbn; intros H; inversion H; subst; auto.
  Qed.
  Lemma pick_none p cz cb cg :
    pick p cz cb cg = None <-> cz = false /\ cb = false /\ cg = false.
  Proof.
    destruct p, cz, cb, cg; cbn; split; intros H; try discriminate; auto;
      destruct H as [H1 [H2 H3]]; discriminate.
  Qed.
  (** the preferred algorithm wins whenever the client lists it; otherwise zstd, br, gzip *)
  Lemma pick_order p cz cb cg :
    pick p cz cb cg =
    match p with
    | PZstd => if cz then Some Zstd else if cb then Some Br else if cg then Some Gzip else None
    | PBr => if cb then Some Br else if cz then Some Zstd else if cg then Some Gzip else None
    | PGzip => if cg then Some Gzip else if cz then Some Zstd else if cb then Some Br else None
    | PNone => if cz then Some Zstd else if cb then Some Br else if cg then Some Gzip else None
    end.
  Proof. destruct p, cz, cb, cg; reflexivity. Qed.

  Lemma choose_alg c values o a :
    choose_ c values o = Alg a -> compressible parse_mime c = true /\ contains values (alg_name a) = true.
  Proof.
    unfold choose, compressible. destruct (ctype_mime parse_mime c) as [m|]; [|discriminate].
    destruct (do_compress m); [|discriminate].
    destruct (pick _ _ _ _) as [a'|] eqn:Hp; [|discriminate].
    intros H. inversion H; subst a'. split; [reflexivity|].
    apply pick_some in Hp. destruct Hp as [[-> H1]|[[-> H1]|[-> H1]]]; assumption.
  Qed.

  Lemma choose_identity c values o :
    choose_ c values o = Identity <->
    compressible parse_mime c = false \/ (forall a, contains values (alg_name a) = false).
  Proof.
    unfold choose, compressible. destruct (ctype_mime parse_mime c) as [m|].
    - destruct (do_compress m).
      + destruct (pick _ _ _ _) as [a'|] eqn:Hp.
        * split; [discriminate|]. intros [H|H]; [discriminate|].
          apply pick_some in Hp.
          destruct Hp as [[-> H1]|[[-> H1]|[-> H1]]]; rewrite H in H1; discriminate.
        * split; [|reflexivity]. intros _. right. apply pick_none in Hp. destruct Hp as [H1 [H2 H3]].
          intros []; assumption.
      + split; auto.
    - split; auto.
  Qed.

  Definition label_of (b : bytes) (ch : coding) : option bytes :=
    match b with [] => None | _ => Some (coding_name ch) end.

  Lemma set_compression_eq b ch : set_compression b ch = Sent (label_of b ch) b ch.
  Proof. reflexivity. Qed.

  (** complete case analysis of [clone_preferred] *)
  Lemma clone_cases c ae o :
    let values := values_of ae in
    (* opt-out / floor, or only identity wanted *)
    ((cr_compress c = false \/ only_identity values = true) /\
     clone c ae o = (Sent (label_of (cr_body c) Identity) (cr_body c) Identity, c))
    \/ (cr_compress c = true /\ only_identity values = false /\ choose_ c values o = Identity /\
        disable_identity values = true /\ clone c ae o = (NotAcceptable, c))
    \/ (cr_compress c = true /\ only_identity values = false /\ choose_ c values o = Identity /\
        disable_identity values = false /\
        clone c ae o = (Sent (label_of (cr_body c) Identity) (cr_body c) Identity, c))
    \/ (exists a, cr_compress c = true /\ only_identity values = false /\ choose_ c values o = Alg a /\
        clone c ae o = (Sent (label_of (fst (get_alg enc a (level_of o a) c)) (Alg a))
                             (fst (get_alg enc a (level_of o a) c)) (Alg a),
                        snd (get_alg enc a (level_of o a) c))).
  Proof.
    intros values. unfold clone_preferred. fold values.
    destruct (cr_compress c) eqn:Hc; cbn [negb].
    2:{ left. split; [left; reflexivity|reflexivity]. }
    destruct (only_identity values) eqn:Ho.
    { left. split; [right; reflexivity|reflexivity]. }
    destruct (choose_ c values o) as [|a] eqn:Hch.
    - destruct (disable_identity values) eqn:Hd.
      + right. left. repeat split; reflexivity.
      + right. right. left. repeat split; reflexivity.
    - right. right. right. exists a. destruct (get_alg enc a (level_of o a) c) as [b c'] eqn:Hg.
      cbn [fst snd]. repeat split; reflexivity.
  Qed.

  Lemma header_values_some ae v q :
    In (v, q) (values_of ae) -> exists h, ae = Some h /\ to_str_ok h = true /\ In (v, q) (list_header parse_q h).
  Proof.
    unfold header_values. destruct ae as [h|]; [|intros []].
    destruct (to_str_ok h) eqn:Hs; [|intros []]. intros Hin. exists h. auto.
  Qed.

  Theorem chosen_is_listed_l c ae o l b ch c' :
    clone c ae o = (Sent l b ch, c') ->
    ch = Identity \/
    exists a h q, ch = Alg a /\ ae = Some h /\ to_str_ok h = true /\
                  In (alg_name a, q) (list_header parse_q h) /\ q <> QZero.
  Proof.
    intros H. destruct (clone_cases c ae o) as [[_ E]|[[_ [_ [_ [_ E]]]]|[[_ [_ [_ [_ E]]]]|[a [_ [_ [Hch E]]]]]]];
      rewrite E in H; inversion H; subst; auto.
    right. apply choose_alg in Hch as [_ Hc]. apply contains_In in Hc as [q [Hin Hq]].
    apply header_values_some in Hin as [h [-> [Hs Hin]]]. exists a, h, q. auto.
  Qed.

  Theorem never_refused_l c ae o l b a c' :
    clone c ae o = (Sent l b (Alg a), c') ->
    ~ (forall q, In (alg_name a, q) (values_of ae) -> q = QZero).
  Proof.
    intros H Hall. destruct (clone_cases c ae o) as [[_ E]|[[_ [_ [_ [_ E]]]]|[[_ [_ [_ [_ E]]]]|[a' [_ [_ [Hch E]]]]]]];
      rewrite E in H; inversion H; subst.
    apply choose_alg in Hch as [_ Hc]. apply contains_In in Hc as [q [Hin Hq]]. apply Hq, Hall, Hin.
  Qed.

  Theorem identity_refusal_l c ae o r c' :
    cr_compress c = true -> In (s_identity, QZero) (values_of ae) ->
    clone c ae o = (r, c') -> forall l b, r <> Sent l b Identity.
  Proof.
    intros Hc Hin H l b ->. apply disable_identity_In in Hin.
    destruct (clone_cases c ae o) as [[[E0|E0] E]|[[_ [_ [_ [_ E]]]]|[[_ [_ [_ [Hd E]]]]|[a' [_ [_ [Hch E]]]]]]];
      rewrite E in H; inversion H; subst; try congruence.
    apply only_identity_not_disabled in E0. congruence.
  Qed.

  Theorem floors_l body ct compress ae o :
    (length body < floor)%nat \/ compress = false ->
    clone (cresp_new body ct compress) ae o =
    (Sent (match body with [] => None | _ => Some s_identity end) body Identity, cresp_new body ct compress).
  Proof.
    intros H. unfold clone_preferred.
    assert (Hc : cr_compress (cresp_new body ct compress) = false).
    { unfold cresp_new. cbn [cr_compress]. destruct H as [H| ->].
      - apply Nat.ltb_lt in H. rewrite H. reflexivity.
      - destruct (Nat.ltb _ _); reflexivity. }
    rewrite Hc. cbn [negb]. reflexivity.
  Qed.

  Theorem floors_ctype_l c ae o r c' :
    compressible parse_mime c = false -> clone c ae o = (r, c') ->
    c' = c /\ (r = NotAcceptable \/ r = Sent (label_of (cr_body c) Identity) (cr_body c) Identity).
  Proof.
    intros Hn H.
    destruct (clone_cases c ae o) as [[_ E]|[[_ [_ [_ [_ E]]]]|[[_ [_ [_ [_ E]]]]|[a' [_ [_ [Hch E]]]]]]];
      rewrite E in H; inversion H; subst; auto.
    apply choose_alg in Hch as [Hc _]. congruence.
  Qed.

  (** the memo cells *)
  Lemma cell_get_set a a' v c : cell_get a (cell_set a' v c) = if alg_eqb a a' then v else cell_get a c.
  Proof. destruct a, a'; reflexivity. Qed.
  Lemma cell_set_body a v c : cr_body (cell_set a v c) = cr_body c.
  Proof. destruct a; reflexivity. Qed.
  Lemma cell_set_compress a v c : cr_compress (cell_set a v c) = cr_compress c.
  Proof. destruct a; reflexivity. Qed.
  Lemma cell_set_ctype a v c : cr_ctype (cell_set a v c) = cr_ctype c.
  Proof. destruct a; reflexivity. Qed.

  Lemma get_alg_ok a lvl c :
    cells_ok enc c ->
    (exists level, fst (get_alg enc a lvl c) = enc a level (cr_body c)) /\
    cells_ok enc (snd (get_alg enc a lvl c)) /\
    cr_body (snd (get_alg enc a lvl c)) = cr_body c /\
    cr_compress (snd (get_alg enc a lvl c)) = cr_compress c /\
    cr_ctype (snd (get_alg enc a lvl c)) = cr_ctype c /\
    cell_get a (snd (get_alg enc a lvl c)) = Some (fst (get_alg enc a lvl c)).
  Proof.
    intros Hok. unfold get_alg. destruct (cell_get a c) as [b|] eqn:Hg; cbn [fst snd].
    - repeat split; auto.
    - split; [exists lvl; reflexivity|]. split.
      + intros a' b' H. rewrite cell_get_set in H. rewrite cell_set_body.
        destruct (alg_eqb a' a) eqn:Ea.
        * inversion H; subst. destruct a, a'; try discriminate; exists lvl; reflexivity.
        * apply Hok. assumption.
      + rewrite cell_set_body, cell_set_compress, cell_set_ctype, cell_get_set.
        destruct a; repeat split; reflexivity.
  Qed.

  (** a filled cell is what every later request of that algorithm receives (memoisation) *)
  Lemma get_alg_memo a lvl c b :
    cell_get a c = Some b -> get_alg enc a lvl c = (b, c).
  Proof. intros H. unfold get_alg. rewrite H. reflexivity. Qed.

  Theorem label_matches_body_l c ae o l b ch c' :
    cells_ok enc c -> clone c ae o = (Sent l b ch, c') ->
    l = match b with [] => None | _ => Some (coding_name ch) end /\
    match ch with
    | Identity => b = cr_body c /\ c' = c
    | Alg a => (exists level, b = enc a level (cr_body c)) /\ cell_get a c' = Some b
    end /\
    cells_ok enc c' /\ cr_body c' = cr_body c /\ cr_compress c' = cr_compress c /\ cr_ctype c' = cr_ctype c.
  Proof.
    intros Hok H.
    destruct (clone_cases c ae o) as [[_ E]|[[_ [_ [_ [_ E]]]]|[[_ [_ [_ [_ E]]]]|[a' [_ [_ [Hch E]]]]]]];
      rewrite E in H; inversion H; subst; auto.
    - repeat split; auto.
    - repeat split; auto.
    - destruct (get_alg_ok a' (level_of o a') c Hok) as [H1 [H2 [H3 [H4 [H5 H6]]]]].
      repeat split; auto.
  Qed.

  Lemma clone_not_acceptable_state c ae o c' : clone c ae o = (NotAcceptable, c') -> c' = c.
  Proof.
    intros H.
    destruct (clone_cases c ae o) as [[_ E]|[[_ [_ [_ [_ E]]]]|[[_ [_ [_ [_ E]]]]|[a' [_ [_ [Hch E]]]]]]];
      rewrite E in H; inversion H; subst; reflexivity.
  Qed.

  Theorem not_acceptable_iff_l c ae o :
    fst (clone c ae o) = NotAcceptable <->
    cr_compress c = true /\ In (s_identity, QZero) (values_of ae) /\
    (compressible parse_mime c = false \/ forall a, contains (values_of ae) (alg_name a) = false).
  Proof.
    rewrite <- disable_identity_In.
    destruct (clone_cases c ae o) as [[[E0|E0] E]|[[E1 [E2 [E3 [E4 E]]]]|[[E1 [E2 [E3 [E4 E]]]]|[a' [E1 [E2 [E3 E]]]]]]];
      rewrite E; cbn [fst]; split; try discriminate; try (intros [H1 [H2 H3]]; congruence).
    - intros [H1 [H2 H3]]. apply only_identity_not_disabled in E0. congruence.
    - intros _. split; [assumption|]. split; [assumption|]. eapply choose_identity. eassumption.
    - intros [H1 [H2 H3]]. apply (choose_identity c (values_of ae) o) in H3. congruence.
  Qed.

  (** ** Histories: every reply of a page decodes to the page's body *)
  Section Lossless.
    Variable dec : alg -> bytes -> bytes.
    Hypothesis dec_enc : forall a level b, dec a (enc a level b) = b.
    Hypothesis enc_nonempty : forall a level b, enc a level b <> [].

    Lemma decode_sent c ae o l b ch c' :
      cells_ok enc c -> clone c ae o = (Sent l b ch, c') -> decode_label dec l b = Some (cr_body c).
    Proof.
      intros Hok H. destruct (label_matches_body_l _ _ _ _ _ _ _ Hok H) as [Hl [Hb _]]. subst l.
      destruct ch as [|a].
      - destruct Hb as [-> _]. destruct (cr_body c); reflexivity.
      - destruct Hb as [[lvl ->] _]. destruct (enc a lvl (cr_body c)) eqn:He; [exfalso; eapply enc_nonempty; eassumption|].
        rewrite <- He. destruct a; cbn; rewrite dec_enc; reflexivity.
    Qed.

    Definition entry_ok (pg : page) (e : option cresp) : Prop :=
      match e with None => True | Some c => cells_ok enc c /\ cr_body c = pg_body pg end.
    Definition reply_ok (pg : page) (r : reply) : Prop :=
      r = NotAcceptable \/ exists l b ch, r = Sent l b ch /\ decode_label dec l b = Some (pg_body pg).

    Lemma cresp_new_ok body ct compress : cells_ok enc (cresp_new body ct compress).
    Proof. intros a b H. destruct a; discriminate. Qed.

    Lemma clone_reply_ok pg c ae o r c' :
      cells_ok enc c -> cr_body c = pg_body pg -> clone c ae o = (r, c') ->
      reply_ok pg r /\ cells_ok enc c' /\ cr_body c' = pg_body pg.
    Proof.
      intros Hok Hb H. destruct r as [l b ch|].
      - pose proof (decode_sent _ _ _ _ _ _ _ Hok H) as Hd.
        destruct (label_matches_body_l _ _ _ _ _ _ _ Hok H) as [_ [_ [Hok' [Hb' _]]]].
        split; [right; exists l, b, ch; split; [reflexivity|congruence]|]. split; [assumption|congruence].
      - apply clone_not_acceptable_state in H. subst c'. split; [left; reflexivity|auto].
    Qed.

    Lemma handle_ok pg e ae r e' :
      entry_ok pg e -> handle parse_q parse_mime enc pg e ae = (r, e') -> reply_ok pg r /\ entry_ok pg e'.
    Proof.
      intros He H. unfold handle in H. destruct e as [c|].
      - destruct He as [Hok Hb]. destruct (clone c ae (pg_cached pg)) as [r0 c0] eqn:Hc.
        inversion H; subst. destruct (clone_reply_ok pg _ _ _ _ _ Hok Hb Hc) as [H1 [H2 H3]].
        split; [assumption|split; assumption].
      - destruct (clone _ ae _) as [r0 c0] eqn:Hc. inversion H; subst.
        destruct (clone_reply_ok pg _ _ _ _ _ (cresp_new_ok _ _ _) eq_refl Hc) as [H1 [H2 H3]].
        split; [assumption|]. destruct (pg_cache pg); cbn; auto.
    Qed.

    Lemma handle_all_ok pg reqs : forall e rs e',
      entry_ok pg e -> handle_all parse_q parse_mime enc pg e reqs = (rs, e') ->
      Forall (reply_ok pg) rs /\ entry_ok pg e'.
    Proof.
      induction reqs as [|ae rest IH]; intros e rs e' He H; cbn [handle_all] in H.
      - inversion H; subst. split; [constructor|assumption].
      - destruct (handle parse_q parse_mime enc pg e ae) as [r e1] eqn:Hh.
        destruct (handle_all parse_q parse_mime enc pg e1 rest) as [rs1 e2] eqn:Ha.
        inversion H; subst. destruct (handle_ok _ _ _ _ _ He Hh) as [H1 H2].
        destruct (IH _ _ _ H2 Ha) as [H3 H4]. split; [constructor; assumption|assumption].
    Qed.

    Theorem lossless_l pg reqs :
      Forall (reply_ok pg) (serve parse_q parse_mime enc pg None reqs).
    Proof.
      unfold serve. destruct (handle_all parse_q parse_mime enc pg None reqs) as [rs e] eqn:H.
      cbn [fst]. eapply handle_all_ok; [|eassumption]. exact I.
    Qed.
  End Lossless.
End NegP.

(* ------------------------------------------------------------------------------------ *)
(** * The memo cell under every interleaving *)
Lemma set_nth_length {A} i (v : A) l : length (set_nth i v l) = length l.
Proof. revert i; induction l as [|x l IH]; intros [|i]; cbn [set_nth length]; auto. Qed.
Lemma nth_error_set_nth_eq {A} i (v : A) l : (i < length l)%nat -> nth_error (set_nth i v l) i = Some v.
Proof.
  revert i; induction l as [|x l IH]; intros [|i] H; cbn [set_nth nth_error length] in *; try lia; auto.
  apply IH. lia.
Qed.
Lemma nth_error_set_nth_neq {A} i j (v : A) l : i <> j -> nth_error (set_nth i v l) j = nth_error l j.
Proof.
  revert i j; induction l as [|x l IH]; intros [|i] [|j] H; cbn [set_nth nth_error]; try reflexivity; try congruence.
  apply IH. congruence.
Qed.

Section Memo.
  Variable P : bytes -> Prop.
  Variable vals : list bytes.
  Variable n : nat.
  Hypothesis vals_ok : forall i, (i < n)%nat -> P (nth i vals []).

  Definition pc_ok (cell : option bytes) (p : pc) : Prop :=
    match p with
    | PStart | PComputing => True
    | PComputed b => P b
    | PRet => cell <> None
    | PDone r => exists b, r = Ok b /\ P b
    end.
  Definition memo_inv (st : mstate) : Prop :=
    (forall b, m_cell st = Some b -> P b) /\
    (forall i p, nth_error (m_pcs st) i = Some p -> pc_ok (m_cell st) p) /\
    length (m_pcs st) = n.

  Lemma pc_ok_mono cell cell' p : (cell <> None -> cell' <> None) -> pc_ok cell p -> pc_ok cell' p.
  Proof. destruct p; cbn; auto. Qed.

  Lemma inv_set st i p cell' :
    memo_inv st -> (i < n)%nat ->
    (forall b, cell' = Some b -> P b) -> (m_cell st <> None -> cell' <> None) -> pc_ok cell' p ->
    memo_inv (mkM cell' (set_nth i p (m_pcs st))).
  Proof.
    intros [H1 [H2 H3]] Hi Hc Hm Hp. split; [exact Hc|]. split; cbn [m_cell m_pcs].
    - intros j q Hj. destruct (Nat.eq_dec i j) as [<-|Hne].
      + rewrite nth_error_set_nth_eq in Hj by lia. inversion Hj; subst. assumption.
      + rewrite nth_error_set_nth_neq in Hj by assumption. eapply pc_ok_mono; [exact Hm|]. eapply H2; eassumption.
    - rewrite set_nth_length. assumption.
  Qed.

  Lemma mstep_inv st i st' : memo_inv st -> mstep vals st i = Some st' -> memo_inv st'.
  Proof.
    intros Hinv Hs. pose proof Hinv as [H1 [H2 H3]]. unfold mstep in Hs.
    destruct (nth_error (m_pcs st) i) as [p|] eqn:Hp; [|discriminate].
    assert (Hi : (i < n)%nat) by (rewrite <- H3; apply nth_error_Some; congruence).
    pose proof (H2 _ _ Hp) as Hok.
    destruct p as [| |buf| |r]; inversion Hs; subst; clear Hs.
    - apply inv_set; auto. destruct (m_cell st); cbn; try discriminate; exact I.
    - apply inv_set; auto. cbn. apply vals_ok. assumption.
    - cbn in Hok. apply inv_set; auto.
      + intros b Hb. destruct (m_cell st) as [b0|] eqn:Hc; inversion Hb; subst; auto.
      + intros _. destruct (m_cell st); discriminate.
      + cbn. destruct (m_cell st); discriminate.
    - cbn in Hok. apply inv_set; auto. cbn. destruct (m_cell st) as [b|] eqn:Hc; [|congruence].
      exists b. split; [reflexivity|]. apply H1. reflexivity.
  Qed.

  Lemma mrun_inv sched : forall st, memo_inv st -> memo_inv (mrun vals st sched).
  Proof.
    induction sched as [|i r IH]; intros st H; cbn [mrun]; [assumption|].
    apply IH. destruct (mstep vals st i) as [st'|] eqn:Hs; [eapply mstep_inv; eassumption|assumption].
  Qed.

  Lemma minit_inv cell : (forall b, cell = Some b -> P b) -> memo_inv (minit cell n).
  Proof.
    intros H. split; [exact H|]. split; cbn [minit m_pcs m_cell].
    - intros i p Hp. apply nth_error_In in Hp. apply repeat_spec in Hp. subst. exact I.
    - apply repeat_length.
  Qed.

  Theorem memo_invariant_l cell sched :
    (forall b, cell = Some b -> P b) ->
    let st := mrun vals (minit cell n) sched in
    (forall b, m_cell st = Some b -> P b) /\
    (forall i r, nth_error (m_pcs st) i = Some (PDone r) -> exists b, r = Ok b /\ P b).
  Proof.
    intros H st. destruct (mrun_inv sched _ (minit_inv cell H)) as [H1 [H2 _]].
    split; [exact H1|]. intros i r Hr. apply (H2 _ _ Hr).
  Qed.
End Memo.

(** written once: a filled cell never changes *)
Lemma mstep_cell_stable vals st i st' b : m_cell st = Some b -> mstep vals st i = Some st' -> m_cell st' = Some b.
Proof.
  intros Hc Hs. unfold mstep in Hs. destruct (nth_error (m_pcs st) i) as [[| |buf| |r]|]; inversion Hs; subst; cbn [m_cell]; auto.
  rewrite Hc. reflexivity.
Qed.
Theorem memo_write_once_l vals sched : forall st b, m_cell st = Some b -> m_cell (mrun vals st sched) = Some b.
Proof.
  induction sched as [|i r IH]; intros st b H; cbn [mrun]; [assumption|].
  apply IH. destruct (mstep vals st i) as [st'|] eqn:Hs; [eapply mstep_cell_stable; eassumption|assumption].
Qed.

(** progress: no task waits for another one; four turns complete a task *)
Definition steps_left (p : pc) : nat :=
  match p with PStart => 4 | PComputing => 3 | PComputed _ => 2 | PRet => 1 | PDone _ => 0 end.
Definition left_of (st : mstate) (i : nat) : nat :=
  match nth_error (m_pcs st) i with Some p => steps_left p | None => 0 end.

Lemma mstep_left vals st j st' i :
  mstep vals st j = Some st' ->
  if Nat.eq_dec j i then (left_of st' i < left_of st i)%nat else left_of st' i = left_of st i.
Proof.
  intros Hs. unfold mstep in Hs. destruct (nth_error (m_pcs st) j) as [p|] eqn:Hp; [|discriminate].
  assert (Hj : (j < length (m_pcs st))%nat) by (apply nth_error_Some; congruence).
  destruct (Nat.eq_dec j i) as [<-|Hne]; unfold left_of.
  - rewrite Hp. destruct p as [| |buf| |r]; inversion Hs; subst; cbn [m_pcs];
      rewrite nth_error_set_nth_eq by assumption; cbn [steps_left]; try lia.
    destruct (m_cell st); cbn [steps_left]; lia.
  - destruct p as [| |buf| |r]; inversion Hs; subst; cbn [m_pcs];
      rewrite nth_error_set_nth_neq by assumption; reflexivity.
Qed.
Lemma mstep_none_left vals st i : mstep vals st i = None -> left_of st i = 0%nat.
Proof.
  unfold mstep, left_of. destruct (nth_error (m_pcs st) i) as [[| |buf| |r]|]; try discriminate; reflexivity.
Qed.

Lemma mrun_left vals sched : forall st i,
  (left_of (mrun vals st sched) i <= left_of st i - count_occ Nat.eq_dec sched i)%nat.
Proof.
  induction sched as [|j r IH]; intros st i; cbn [mrun count_occ]; [lia|].
  destruct (mstep vals st j) as [st'|] eqn:Hs.
  - pose proof (mstep_left _ _ _ _ i Hs) as Hl. specialize (IH st' i).
    destruct (Nat.eq_dec j i); lia.
  - specialize (IH st i). destruct (Nat.eq_dec j i) as [<-|]; [|assumption].
    apply mstep_none_left in Hs. lia.
Qed.

Theorem memo_completes_l vals cell n sched :
  (forall i, (i < n)%nat -> (4 <= count_occ Nat.eq_dec sched i)%nat) ->
  forallb pc_done (m_pcs (mrun vals (minit cell n) sched)) = true.
Proof.
  intros Hfair. apply forallb_forall. intros p Hin. apply In_nth_error in Hin as [i Hi].
  assert (Hlen : forall s st, length (m_pcs (mrun vals st s)) = length (m_pcs st)).
  { induction s as [|j r IH]; intros st; cbn [mrun]; [reflexivity|]. rewrite IH.
    destruct (mstep vals st j) as [st'|] eqn:Hs; [|reflexivity]. unfold mstep in Hs.
    destruct (nth_error (m_pcs st) j) as [[| |buf| |r0]|]; inversion Hs; subst; cbn [m_pcs]; apply set_nth_length. }
  assert (Hlt : (i < n)%nat).
  { assert (i < length (m_pcs (mrun vals (minit cell n) sched)))%nat by (apply nth_error_Some; congruence).
    rewrite Hlen in H. cbn [minit m_pcs] in H. rewrite repeat_length in H. assumption. }
  pose proof (mrun_left vals sched (minit cell n) i) as Hl. specialize (Hfair i Hlt).
  assert (H0 : left_of (minit cell n) i = 4%nat).
  { unfold left_of, minit. cbn [m_pcs]. destruct (nth_error (repeat PStart n) i) as [q|] eqn:Hq.
    - apply nth_error_In, repeat_spec in Hq. subst. reflexivity.
    - apply nth_error_None in Hq. rewrite repeat_length in Hq. lia. }
  unfold left_of in Hl at 1. rewrite Hi in Hl. destruct p; cbn [steps_left] in Hl; try lia. reflexivity.
Qed.
