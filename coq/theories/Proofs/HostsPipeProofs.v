(** C15 — proofs about Model/HostsPipe.v: the multi-host server over the real pipeline model. *)
From KV Require Import Bytes Hosts HostsProofs CacheX HostsPipe.
From Coq Require Import ZifyBool ZifyNat ZifyN.
Open Scope N_scope.
Arguments N.add : simpl never. Arguments N.sub : simpl never. Arguments N.mul : simpl never.
Arguments N.eqb : simpl never. Arguments N.ltb : simpl never. Arguments N.leb : simpl never.

(** ---- the product does not care how routing and targets are computed, only what they are ---------- *)
Section Ext.
  Variables (St Req Rep Adm : Type).
  Variable serve : nat -> St -> Req -> St * Rep.
  Variable admin : Adm -> St -> St.
  Variables (route route' : Req -> option nat).
  Variables (targets targets' : Adm -> nat -> bool).
  Variable refuse : Rep.

  Definition agree (e : event Req Adm) : Prop :=
    match e with
    | ERequest r => route r = route' r
    | EAdmin a => forall i, targets a i = targets' a i
    end.

  Lemma mrun_ext es : forall st st', (forall j, st j = st' j) -> Forall agree es ->
    (forall j, fst (mrun St Req Rep Adm serve admin route targets refuse st es) j
               = fst (mrun St Req Rep Adm serve admin route' targets' refuse st' es) j) /\
    snd (mrun St Req Rep Adm serve admin route targets refuse st es)
    = snd (mrun St Req Rep Adm serve admin route' targets' refuse st' es).
  Proof.
    induction es as [|e es IH]; intros st st' Hst Hag; cbn [mrun].
    - split; [exact Hst | reflexivity].
    - inversion Hag as [|x l He Hes]; subst.
      assert (Hstep : (forall j, fst (mstep St Req Rep Adm serve admin route targets refuse st e) j
                                 = fst (mstep St Req Rep Adm serve admin route' targets' refuse st' e) j) /\
                      snd (mstep St Req Rep Adm serve admin route targets refuse st e)
                      = snd (mstep St Req Rep Adm serve admin route' targets' refuse st' e)).
      { destruct e as [r|a]; cbn [mstep agree] in *.
        - unfold rstep. rewrite <- He. destruct (route r) as [i|].
          + rewrite <- (Hst i). destruct (serve i (st i) r) as [s' rep]. cbn [fst snd]. split; [|reflexivity].
            intros j. cbn [upd]. destruct (Nat.eqb j i); [reflexivity | apply Hst].
          + cbn [fst snd]. split; [exact Hst | reflexivity].
        - cbn [fst snd]. split; [|reflexivity]. intros j. rewrite <- (He j), (Hst j). reflexivity. }
      destruct (mstep St Req Rep Adm serve admin route targets refuse st e) as [st1 rep1].
      destruct (mstep St Req Rep Adm serve admin route' targets' refuse st' e) as [st1' rep1'].
      cbn [fst snd] in Hstep. destruct Hstep as [Hs1 Hr1]. subst rep1'.
      specialize (IH st1 st1' Hs1 Hes).
      destruct (mrun St Req Rep Adm serve admin route targets refuse st1 es) as [st2 reps].
      destruct (mrun St Req Rep Adm serve admin route' targets' refuse st1' es) as [st2' reps'].
      cbn [fst snd] in *. destruct IH as [IH1 IH2]. split; [exact IH1 | rewrite IH2; reflexivity].
  Qed.

  Lemma concerns_ext i e : agree e -> concerns Req Adm route targets i e = concerns Req Adm route' targets' i e.
  Proof. destruct e as [r|a]; cbn [agree concerns]; intros H; [rewrite H | rewrite (H i)]; reflexivity. Qed.

  Lemma filter_concerns_ext i es : Forall agree es ->
    filter (concerns Req Adm route targets i) es = filter (concerns Req Adm route' targets' i) es.
  Proof.
    induction es as [|e es IH]; intros Hag; [reflexivity|]. inversion Hag as [|x l He Hes]; subst.
    cbn [filter]. rewrite (concerns_ext i e He), (IH Hes). reflexivity.
  Qed.

  Lemma replies_for_ext i es : forall reps, Forall agree es ->
    replies_for Req Rep Adm route targets i es reps = replies_for Req Rep Adm route' targets' i es reps.
  Proof.
    induction es as [|e es IH]; intros reps Hag; [reflexivity|]. inversion Hag as [|x l He Hes]; subst.
    destruct reps as [|r reps]; [reflexivity|]. cbn [replies_for]. rewrite (concerns_ext i e He), (IH reps Hes). reflexivity.
  Qed.
End Ext.

(** ---- the code's routing and targets are the specification's -------------------------------------- *)
(** a request the harness can build: the authority of its URI is text *)
Definition wf_pevent (e : pevent) : Prop :=
  match e with
  | ERequest (PReq _ hh _) => is_text (req_authority hh)
  | _ => True
  end.

Lemma proute_spec ops c q : build ops = Ok c -> wf_pevent (ERequest q) -> proute c q = spec_proute ops q.
Proof.
  intros H Hwf. destruct q as [sni hh r|name r]; cbn [proute spec_proute wf_pevent] in *.
  - rewrite (choose_host_uri_general ops c sni hh (Some (req_authority hh)) H)
      by (intros a E; inversion E; subst; exact Hwf).
    rewrite <- route_general_reference.
    destruct (route_general ops sni (first_some (text_hd hh) (Some (req_authority hh)))); reflexivity.
  - pose proof (clear_target_reference ops c name H) as Hc.
    destruct (clear_target V1 c name) as [[h|]| |]; cbn [omap option_map] in Hc; inversion Hc; reflexivity.
Qed.

Lemma ptargets_spec ops c a i : build ops = Ok c -> ptargets c a i = spec_ptargets ops a i.
Proof.
  intros H. destruct a as [flt|ms]; cbn [ptargets spec_ptargets]; [|reflexivity].
  apply clear_all_targets_spec. exact H.
Qed.

Lemma agree_built ops c es : build ops = Ok c -> Forall wf_pevent es ->
  Forall (agree preq padm (proute c) (spec_proute ops) (ptargets c) (spec_ptargets ops)) es.
Proof.
  intros H Hwf. induction Hwf as [|e es He Hes IH]; constructor; [|exact IH].
  destruct e as [q|a]; cbn [agree].
  - apply proute_spec; assumption.
  - intros i. apply ptargets_spec. exact H.
Qed.

(** ---- the theorem: every host of the server behaves as if it ran alone ----------------------------
    For every configuration the builder accepts, every assignment of pipeline configurations to the
    hosts, every starting state and every history of requests (any SNI, any Host headers), [clear_page]
    calls (any host name), [clear_response_caches] calls (any filter) and waits: the state of host [i]
    in the model of the code, and the replies to the events that concern host [i], are those of host
    [i]'s own pipeline run on the sub-history of the events the SPECIFICATION assigns to it (reference
    resolver; owner of the name; hosts reachable under their own name that pass the filter). *)
Lemma pipeline_projection ops c cfgs es st i : build ops = Ok c -> Forall wf_pevent es ->
  fst (prun cfgs (proute c) (ptargets c) st es) i
  = fst (srun pstate preq prep padm (pserve cfgs) padmin i (st i)
              (filter (concerns preq padm (spec_proute ops) (spec_ptargets ops) i) es)) /\
  replies_for preq prep padm (spec_proute ops) (spec_ptargets ops) i es (snd (prun cfgs (proute c) (ptargets c) st es))
  = snd (srun pstate preq prep padm (pserve cfgs) padmin i (st i)
              (filter (concerns preq padm (spec_proute ops) (spec_ptargets ops) i) es)).
Proof.
  intros H Hwf. pose proof (agree_built ops c es H Hwf) as Hag. unfold prun.
  destruct (mrun_ext pstate preq prep padm (pserve cfgs) padmin (proute c) (spec_proute ops) (ptargets c) (spec_ptargets ops)
                     PRefused es st st (fun j => eq_refl) Hag) as [E1 E2].
  destruct (history_projection pstate preq prep padm (pserve cfgs) padmin (spec_proute ops) (spec_ptargets ops) PRefused es st i)
    as [P1 P2].
  split.
  - rewrite <- P1. apply E1.
  - rewrite <- P2. f_equal. exact E2.
Qed.

(** the model of the code equals the specification server on every such history *)
Lemma pipeline_eq_spec ops c cfgs es st : build ops = Ok c -> Forall wf_pevent es ->
  snd (prun cfgs (proute c) (ptargets c) st es) = snd (prun cfgs (spec_proute ops) (spec_ptargets ops) st es).
Proof.
  intros H Hwf. unfold prun.
  apply (mrun_ext pstate preq prep padm (pserve cfgs) padmin (proute c) (spec_proute ops) (ptargets c) (spec_ptargets ops)
                  PRefused es st st (fun j => eq_refl) (agree_built ops c es H Hwf)).
Qed.

(** ---- host [i] alone is the single-host pipeline of C03/C04 ---------------------------------------- *)
Definition to_opx (e : pevent) : opx :=
  match e with
  | ERequest (PReq _ _ r) => XReq r
  | ERequest (PClear _ r) => XClearPage r
  | EAdmin (PClearAll _) => XClearAll
  | EAdmin (PWait ms) => XWait ms
  end.

(** the state of a host after its sub-history is the state [CacheX.stepX] reaches on the same operations *)
Fixpoint cfg_run_state (cx : configx) (s : statex (list N)) (now : N) (ops : list opx) : statex (list N) * N :=
  match ops with
  | [] => (s, now)
  | o :: rest => let '(s', now', _) := cfg_step cx s now o in cfg_run_state cx s' now' rest
  end.

Lemma sstep_is_stepX cfgs i s now e :
  fst (sstep pstate preq prep padm (pserve cfgs) padmin i (s, now) e)
  = (fst (fst (cfg_step (cfg_of cfgs i) s now (to_opx e))), snd (fst (cfg_step (cfg_of cfgs i) s now (to_opx e)))).
Proof.
  destruct e as [[sni hh r|name r]|[flt|ms]]; cbn [sstep pserve to_opx].
  - destruct (cfg_step (cfg_of cfgs i) s now (XReq r)) as [[s' now'] ob]. reflexivity.
  - destruct (cfg_step (cfg_of cfgs i) s now (XClearPage r)) as [[s' now'] ob]. reflexivity.
  - destruct s as [c hs]. reflexivity.
  - destruct s as [c hs]. reflexivity.
Qed.

Lemma srun_state_is_stepX cfgs i es : forall s now,
  fst (srun pstate preq prep padm (pserve cfgs) padmin i (s, now) es)
  = cfg_run_state (cfg_of cfgs i) s now (map to_opx es).
Proof.
  induction es as [|e es IH]; intros s now; [reflexivity|].
  cbn [srun map cfg_run_state].
  pose proof (sstep_is_stepX cfgs i s now e) as Hs.
  destruct (sstep pstate preq prep padm (pserve cfgs) padmin i (s, now) e) as [[s1 now1] rep].
  destruct (cfg_step (cfg_of cfgs i) s now (to_opx e)) as [[s' now'] ob].
  cbn [fst snd] in Hs. inversion Hs; subst s1 now1.
  specialize (IH s' now').
  destruct (srun pstate preq prep padm (pserve cfgs) padmin i (s', now') es) as [s2 reps]. exact IH.
Qed.

(** [cfg_run_state] is [CacheX.runX_state] at the parameters [run_cfgx_state] uses *)
Lemma cfg_run_state_is_runX cx ops : forall s now,
  cfg_run_state cx s now ops
  = runX_state (list N) (compute_x (cf_default_ext (cx_base cx)) (cf_handlers (cx_base cx)) (cx_xhandlers cx))
      (cf_cache (cx_base cx)) (cf_ims (cx_base cx))
      (cx_fix_vary cx) (cx_fix_ovkey cx) (cx_fix_clear cx) (cx_fix_svary cx) (cx_fix_qmkey cx) (cx_fix_ims cx)
      (sfilter_fix (cx_sfilter cx)) parse_ims_fix sanitize_ok_fix
      (if cf_default_ext (cx_base cx) then uri_redirect else (fun r => r))
      (override_x (cf_default_ext (cx_base cx)) (cx_ovprime cx))
      (fun _ _ => None)
      (vary_tuple_x (cx_fix_ovkey cx) (cf_vary (cx_base cx))) (vary_header_x (cx_fix_ovkey cx) (cf_vary (cx_base cx))) clear_alias_fix
      s now ops.
Proof.
  induction ops as [|o rest IH]; intros s now; [reflexivity|].
  cbn [cfg_run_state runX_state]. unfold cfg_step at 1.
  destruct (stepX _ _ _ _ _ _ _ _ _ _ _ _ _ _ _ _ _ _ _ s now o) as [[s' now'] ob].
  apply IH.
Qed.

Lemma host_alone_is_cache_model cfgs i es s now :
  fst (srun pstate preq prep padm (pserve cfgs) padmin i (s, now) es)
  = runX_state (list N)
      (compute_x (cf_default_ext (cx_base (cfg_of cfgs i))) (cf_handlers (cx_base (cfg_of cfgs i))) (cx_xhandlers (cfg_of cfgs i)))
      (cf_cache (cx_base (cfg_of cfgs i))) (cf_ims (cx_base (cfg_of cfgs i)))
      (cx_fix_vary (cfg_of cfgs i)) (cx_fix_ovkey (cfg_of cfgs i)) (cx_fix_clear (cfg_of cfgs i)) (cx_fix_svary (cfg_of cfgs i))
      (cx_fix_qmkey (cfg_of cfgs i)) (cx_fix_ims (cfg_of cfgs i))
      (sfilter_fix (cx_sfilter (cfg_of cfgs i))) parse_ims_fix sanitize_ok_fix
      (if cf_default_ext (cx_base (cfg_of cfgs i)) then uri_redirect else (fun r => r))
      (override_x (cf_default_ext (cx_base (cfg_of cfgs i))) (cx_ovprime (cfg_of cfgs i)))
      (fun _ _ => None)
      (vary_tuple_x (cx_fix_ovkey (cfg_of cfgs i)) (cf_vary (cx_base (cfg_of cfgs i))))
      (vary_header_x (cx_fix_ovkey (cfg_of cfgs i)) (cf_vary (cx_base (cfg_of cfgs i)))) clear_alias_fix
      s now (map to_opx es).
Proof. rewrite srun_state_is_stepX. apply cfg_run_state_is_runX. Qed.

(** ---- a concrete history ------------------------------------------------------------------------- *)
Definition ex_h (p : bytes) : hspec := mkH p 2 200 (B "n=") [] SP_FULL 0 true [].
Definition ex_cx : configx := mkCfgX (mkCfg true false true [ex_h (B "/p")] [] [] 500) [] 0 None true true true true true true.
Definition ex_pops : list Hosts.op := [ (false, cfg (B "a.test") [B "www.a.test"]); (false, cfg (B "b.test") []) ].
Definition ex_get (h : bytes) : pevent := ERequest (PReq None [h] (mkReq M_GET (B "/p") None [(B "host", h)] 1)).
Definition ex_history : list pevent :=
  [ ex_get (B "a.test"); ex_get (B "b.test"); ex_get (B "www.a.test"); EAdmin (PClearAll (Some (B "a.test")));
    ex_get (B "a.test"); ex_get (B "b.test"); ERequest (PClear (B "b.test") (mkReq M_GET (B "/p") None [] 0)); ex_get (B "b.test") ].
