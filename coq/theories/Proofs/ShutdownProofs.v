(** C10 — proofs about the transition system of Model/Shutdown.v. *)
From Coq Require Import ZifyBool ZifyNat ZifyN.
From KV Require Import Shutdown.
Open Scope nat_scope.

(** ** Lists updated in one place *)
Lemma nth_error_upd {A} (l : list A) i j x :
  nth_error (upd i x l) j = if Nat.eqb i j then (match nth_error l i with Some _ => Some x | None => None end) else nth_error l j.
Proof.
  revert i j; induction l as [|a l IH]; intros [|i] [|j]; cbn [upd nth_error Nat.eqb]; try reflexivity.
  - destruct (Nat.eqb i j); reflexivity.
  - apply IH.
Qed.

Lemma upd_length {A} (l : list A) i x : length (upd i x l) = length l.
Proof. revert i; induction l as [|a l IH]; intros [|i]; cbn [upd length]; auto. Qed.

Lemma existsb_upd {A} (f : A -> bool) l i x :
  existsb f (upd i x l) = true -> f x = true \/ existsb f l = true.
Proof.
  revert i; induction l as [|a l IH]; intros [|i]; cbn [upd existsb]; intros H; auto.
  - apply orb_true_iff in H as [H|H]; auto. right. rewrite H. apply orb_true_r.
  - apply orb_true_iff in H as [H|H]; [right; rewrite H; reflexivity|].
    apply IH in H as [H|H]; auto. right. rewrite H. apply orb_true_r.
Qed.

Lemma existsb_nth {A} (f : A -> bool) l i x : nth_error l i = Some x -> f x = true -> existsb f l = true.
Proof.
  revert i; induction l as [|a l IH]; intros [|i]; cbn [nth_error existsb]; intros H Hf; try discriminate.
  - inversion H; subst. rewrite Hf. reflexivity.
  - rewrite (IH _ H Hf). apply orb_true_r.
Qed.

Lemma existsb_upd_other {A} (f : A -> bool) l i x old :
  nth_error l i = Some old -> f old = false -> f x = false -> existsb f (upd i x l) = existsb f l.
Proof.
  revert i; induction l as [|a l IH]; intros [|i]; cbn [upd existsb nth_error]; intros H Ho Hx; try discriminate; auto.
  - inversion H; subst. rewrite Ho, Hx. reflexivity.
  - rewrite (IH _ H Ho Hx). reflexivity.
Qed.

Lemma existsb_upd_intro {A} (f : A -> bool) l i x old :
  nth_error l i = Some old -> f x = true -> existsb f (upd i x l) = true.
Proof.
  intros H Hx. apply existsb_exists. exists x. split; auto.
  apply nth_error_In with (n := i). rewrite nth_error_upd, Nat.eqb_refl, H. reflexivity.
Qed.

Lemma existsb_upd_keep {A} (f : A -> bool) l i x old :
  nth_error l i = Some old -> f old = false -> existsb f l = true -> existsb f (upd i x l) = true.
Proof.
  revert i; induction l as [|a l IH]; intros [|i]; cbn [upd existsb nth_error]; intros H Ho He; try discriminate.
  - inversion H; subst. rewrite Ho in He. cbn in He. rewrite He. apply orb_true_r.
  - apply orb_true_iff in He as [He|He]; [rewrite He; reflexivity|].
    rewrite (IH _ H Ho He). apply orb_true_r.
Qed.

Lemma existsb_app1 {A} (f : A -> bool) l x : existsb f (l ++ [x]) = existsb f l || f x.
Proof. rewrite existsb_app. cbn. rewrite orb_false_r. reflexivity. Qed.

Lemma forallb_upd {A} (f : A -> bool) l i x : forallb f l = true -> f x = true -> forallb f (upd i x l) = true.
Proof.
  revert i; induction l as [|a l IH]; intros [|i]; cbn [upd forallb]; intros H Hx; auto.
  - apply andb_true_iff in H as [_ H]. rewrite Hx, H. reflexivity.
  - apply andb_true_iff in H as [H1 H]. rewrite H1, (IH _ H Hx). reflexivity.
Qed.

Lemma forallb_nth {A} (f : A -> bool) l i x : forallb f l = true -> nth_error l i = Some x -> f x = true.
Proof. intros H Hn. rewrite forallb_forall in H. apply H. eapply nth_error_In; eauto. Qed.

Lemma forallb_app1 {A} (f : A -> bool) l x : forallb f (l ++ [x]) = forallb f l && f x.
Proof. rewrite forallb_app. cbn. rewrite andb_true_r. reflexivity. Qed.

(** sums of token counts *)
Fixpoint sumZ (l : list Z) : Z := match l with [] => 0%Z | a :: r => (a + sumZ r)%Z end.

Lemma sumZ_upd {A} (f : A -> Z) l i x old :
  nth_error l i = Some old -> sumZ (map f (upd i x l)) = (sumZ (map f l) - f old + f x)%Z.
Proof.
  revert i; induction l as [|a l IH]; intros [|i]; cbn [upd map sumZ nth_error]; intros H; try discriminate.
  - inversion H; subst. lia.
  - rewrite (IH _ H). lia.
Qed.

Lemma sumZ_app1 {A} (f : A -> Z) l x : sumZ (map f (l ++ [x])) = (sumZ (map f l) + f x)%Z.
Proof. induction l as [|a l IH]; cbn [app map sumZ]; lia. Qed.

Lemma sumZ_nonneg {A} (f : A -> Z) l : (forall x, 0 <= f x)%Z -> (0 <= sumZ (map f l))%Z.
Proof. intros Hf. induction l as [|a l IH]; cbn [map sumZ]; [lia|]. specialize (Hf a). lia. Qed.

Lemma sumZ_ge_nth {A} (f : A -> Z) l i x :
  (forall x, 0 <= f x)%Z -> nth_error l i = Some x -> (f x <= sumZ (map f l))%Z.
Proof.
  intros Hf. revert i; induction l as [|a l IH]; intros [|i]; cbn [nth_error map sumZ]; intros H; try discriminate.
  - inversion H; subst. pose proof (sumZ_nonneg f l Hf). lia.
  - specialize (IH _ H). specialize (Hf a). lia.
Qed.

Lemma sumZ_map_ext {A} (f : A -> Z) (g : A -> A) l : (forall x, f (g x) = f x) -> sumZ (map f (map g l)) = sumZ (map f l).
Proof. intros H. induction l as [|a l IH]; cbn [map sumZ]; [reflexivity|]. rewrite H, IH. reflexivity. Qed.

Lemma existsb_map_ext {A} (f : A -> bool) (g : A -> A) l : (forall x, f (g x) = f x) -> existsb f (map g l) = existsb f l.
Proof. intros H. induction l as [|a l IH]; cbn [map existsb]; [reflexivity|]. rewrite H, IH. reflexivity. Qed.

Lemma sumZ_repeat {A} (f : A -> Z) x n : sumZ (map f (repeat x n)) = (Z.of_nat n * f x)%Z.
Proof. induction n as [|n IH]; cbn [repeat map sumZ]; [lia|]. rewrite IH. lia. Qed.

(** ** Safety invariant of the repaired code *)
Definition ltok (l : listener) : Z :=
  match l_pc l with
  | LRel RCheck | LRel RSwap | LExited => 0
  | LCounted => 2
  | _ => 1
  end%Z.
Definition ctok (p : cpc) : Z := match p with CRunning | CRem RStart => 1 | _ => 0 end%Z.
Definition l_hot (l : listener) : bool := match l_pc l with LRel RCheck | LRel RSwap => true | _ => false end.
Definition c_hot (p : cpc) : bool := match p with CRem RCheck | CRem RSwap => true | _ => false end.
Definition s_hot (p : spc) : bool := match p with SSwap => true | _ => false end.
Definition hot (s : state) : bool :=
  existsb l_hot (ls s) || existsb c_hot (cs s) || existsb s_hot (callers s) || gD s.
Definition c_ok (p : cpc) : bool := match p with CSpawned | CPanicked => false | _ => true end.

Lemma ltok_nonneg l : (0 <= ltok l)%Z.
Proof. unfold ltok. destruct (l_pc l) as [| | | | | | | |[]|]; lia. Qed.
Lemma ctok_nonneg p : (0 <= ctok p)%Z.
Proof. destruct p as [| | |[]|]; cbn; lia. Qed.

Record safe (s : state) : Prop := {
  sf_count : gC s = (sumZ (map ltok (ls s)) + sumZ (map ctok (cs s)))%Z;
  sf_hot : hot s = true -> (gC s <= 0)%Z;
  sf_cok : forallb c_ok (cs s) = true;
  sf_comp : comp s <> KNone -> gD s = true;
  sf_fin : finished s = true -> comp s = KFinished }.

Lemma safe_init nl nc nh nw : safe (init repaired nl nc nh nw).
Proof.
  constructor; cbn.
  - rewrite sumZ_repeat. cbn. lia.
  - unfold hot; cbn. intros H.
    assert (E1 : existsb l_hot (repeat new_listener nl) = false) by (induction nl; cbn; auto).
    assert (E2 : existsb s_hot (repeat SNew nc) = false) by (induction nc; cbn; auto).
    rewrite E1, E2 in H. discriminate.
  - reflexivity.
  - congruence.
  - discriminate.
Qed.

Ltac hot_split H :=
  unfold hot in H; cbn [ls cs callers gD with_ls with_cs with_callers with_C with_S with_init with_hooks with_waiters with_comp swapD] in H;
  repeat (apply orb_true_iff in H; destruct H as [H|H]).

Lemma hot_intro_l s i l : nth_error (ls s) i = Some l -> l_hot l = true -> hot s = true.
Proof. intros H1 H2. unfold hot. rewrite (existsb_nth _ _ _ _ H1 H2). reflexivity. Qed.
Lemma hot_intro_c s i p : nth_error (cs s) i = Some p -> c_hot p = true -> hot s = true.
Proof. intros H1 H2. unfold hot. rewrite (existsb_nth _ _ _ _ H1 H2). rewrite orb_true_r. reflexivity. Qed.
Lemma hot_intro_s s i p : nth_error (callers s) i = Some p -> s_hot p = true -> hot s = true.
Proof. intros H1 H2. unfold hot. rewrite (existsb_nth _ _ _ _ H1 H2). rewrite !orb_true_r. reflexivity. Qed.
Lemma hot_intro_D s : gD s = true -> hot s = true.
Proof. intros H. unfold hot. rewrite H. rewrite !orb_true_r. reflexivity. Qed.

Lemma tok_le_l s i l : safe s -> nth_error (ls s) i = Some l -> (ltok l <= gC s)%Z.
Proof.
  intros S H. rewrite (sf_count _ S).
  pose proof (sumZ_ge_nth ltok _ _ _ ltok_nonneg H). pose proof (sumZ_nonneg ctok (cs s) ctok_nonneg). lia.
Qed.
Lemma tok_le_c s i p : safe s -> nth_error (cs s) i = Some p -> (ctok p <= gC s)%Z.
Proof.
  intros S H. rewrite (sf_count _ S).
  pose proof (sumZ_ge_nth ctok _ _ _ ctok_nonneg H). pose proof (sumZ_nonneg ltok (ls s) ltok_nonneg). lia.
Qed.

(** a hot thread list after a one-place update: the new element is hot or an old one was *)
Lemma hot_upd_l s s' i l l' :
  nth_error (ls s) i = Some l -> ls s' = upd i l' (ls s) -> cs s' = cs s -> callers s' = callers s -> gD s' = gD s ->
  hot s' = true -> l_hot l' = true \/ hot s = true.
Proof.
  intros Hn E1 E2 E3 E4 H. unfold hot in *. rewrite E1, E2, E3, E4 in H.
  repeat (apply orb_true_iff in H; destruct H as [H|H]).
  - apply existsb_upd in H as [H|H]; auto. right. rewrite H. reflexivity.
  - right. rewrite H. rewrite !orb_true_r. reflexivity.
  - right. rewrite H. rewrite !orb_true_r. reflexivity.
  - right. rewrite H. rewrite !orb_true_r. reflexivity.
Qed.
Lemma hot_upd_c s s' i p p' :
  nth_error (cs s) i = Some p -> ls s' = ls s -> cs s' = upd i p' (cs s) -> callers s' = callers s -> gD s' = gD s ->
  hot s' = true -> c_hot p' = true \/ hot s = true.
Proof.
  intros Hn E1 E2 E3 E4 H. unfold hot in *. rewrite E1, E2, E3, E4 in H.
  repeat (apply orb_true_iff in H; destruct H as [H|H]).
  - right. rewrite H. reflexivity.
  - apply existsb_upd in H as [H|H]; auto. right. rewrite H. rewrite !orb_true_r. reflexivity.
  - right. rewrite H. rewrite !orb_true_r. reflexivity.
  - right. rewrite H. rewrite !orb_true_r. reflexivity.
Qed.
Lemma hot_upd_s s s' i p p' :
  nth_error (callers s) i = Some p -> ls s' = ls s -> cs s' = cs s -> callers s' = upd i p' (callers s) -> gD s' = gD s ->
  hot s' = true -> s_hot p' = true \/ hot s = true.
Proof.
  intros Hn E1 E2 E3 E4 H. unfold hot in *. rewrite E1, E2, E3, E4 in H.
  repeat (apply orb_true_iff in H; destruct H as [H|H]).
  - right. rewrite H. reflexivity.
  - right. rewrite H. rewrite !orb_true_r. reflexivity.
  - apply existsb_upd in H as [H|H]; auto. right. rewrite H. rewrite !orb_true_r. reflexivity.
  - right. rewrite H. rewrite !orb_true_r. reflexivity.
Qed.

(** ** The three windows of kvarn 0.6.3 (model [today]); each schedule was replayed on the real
    code (files corpus/C10/refutations-today) and every observation agreed with the model. *)
Definition sched_uncounted : list label :=
  [EConn 0; LTake 0; SStep 0; SStep 0; SStep 0; SStep 0; KStep; KStep; KStep].
Definition sched_panic : list label :=
  [EConn 0; LTake 0; LStep 0; CStep 0; CPanic 0; SStep 0; SStep 0; SStep 0; SStep 0; LStep 0; LStep 0].
Definition sched_late_waker : list label :=
  [LStep 0; SStep 0; SStep 0; SStep 0; SStep 0; SStep 0; LStep 0; LStep 0; KStep; KStep; KStep; WStep 0].

Lemma reachable_run v s sched s' : reachable v s -> run v s sched = Some s' -> reachable v s'.
Proof.
  revert s; induction sched as [|lb r IH]; cbn [run]; intros s R H.
  - inversion H; subst; exact R.
  - destruct (step v s lb) as [s1|] eqn:E; [|discriminate]. eapply IH; [|exact H]. eapply reach_step; eauto.
Qed.

Lemma nth_lt {A} (l : list A) i x : nth_error l i = Some x -> i < length l.
Proof. intros H. apply nth_error_Some. congruence. Qed.

Lemma quiescentb_sound v s : quiescentb v s = true -> quiescent v s.
Proof.
  unfold quiescentb, quiescent. intros H lb Henv.
  apply negb_true_iff in H.
  destruct (step v s lb) as [s'|] eqn:E; [|reflexivity]. exfalso.
  assert (In lb (thread_labels s)).
  { unfold thread_labels. rewrite !in_app_iff.
    destruct lb as [i|i|i|c|c|k| |h|w]; cbn [step] in E; try discriminate Henv.
    - left. apply in_map, in_seq. destruct (nth_error (ls s) i) eqn:N; [|discriminate]. apply nth_lt in N. lia.
    - right; left. apply in_map, in_seq. destruct (nth_error (ls s) i) eqn:N; [|discriminate]. apply nth_lt in N. lia.
    - do 2 right; left. apply in_map, in_seq. destruct (nth_error (cs s) c) eqn:N; [|discriminate]. apply nth_lt in N. lia.
    - do 3 right; left. apply in_map, in_seq. destruct (nth_error (cs s) c) eqn:N; [|discriminate]. apply nth_lt in N. lia.
    - do 4 right; left. apply in_map, in_seq. destruct (nth_error (callers s) k) eqn:N; [|discriminate]. apply nth_lt in N. lia.
    - do 5 right; left. left. reflexivity.
    - do 6 right; left. apply in_map, in_seq. destruct (nth_error (hooks s) h) eqn:N; [|discriminate]. apply nth_lt in N. lia.
    - do 7 right. apply in_map, in_seq. destruct (nth_error (waiters s) w) eqn:N; [|discriminate]. apply nth_lt in N. lia. }
  assert (existsb (enabledb v s) (thread_labels s) = true).
  { apply existsb_exists. exists lb. split; auto. unfold enabledb. rewrite E. reflexivity. }
  congruence.
Qed.

(** (a) wait() resolves while an accepted connection has not even been handed to its task *)
Lemma finished_after_all_today_refuted :
  exists s, reachable today s /\ finished s = true /\ all_done s = false.
Proof.
  destruct (run today (init today 1 1 0 1) sched_uncounted) as [s|] eqn:E; [|vm_compute in E; discriminate].
  exists s. split; [eapply reachable_run; [apply reach_init|exact E]|].
  vm_compute in E. inversion E; subst. split; reflexivity.
Qed.

(** (b) a panicking handler: everything has stopped, shutdown was requested, wait() never resolves *)
Lemma no_hang_today_panic_refuted :
  exists s, reachable today s /\ requested s = true /\ quiescent today s /\ finished s = false.
Proof.
  destruct (run today (init today 1 1 0 1) sched_panic) as [s|] eqn:E; [|vm_compute in E; discriminate].
  exists s. split; [eapply reachable_run; [apply reach_init|exact E]|].
  vm_compute in E. inversion E; subst. split; [reflexivity|]. split; [|reflexivity].
  apply quiescentb_sound. vm_compute. reflexivity.
Qed.

(** (c) waker registered after notify: everything has stopped, wait() resolved, the listener is still bound *)
Lemma no_hang_today_late_waker_refuted :
  exists s, reachable today s /\ requested s = true /\ quiescent today s /\ finished s = true /\
            forallb l_exited (ls s) = false.
Proof.
  destruct (run today (init today 1 1 0 1) sched_late_waker) as [s|] eqn:E; [|vm_compute in E; discriminate].
  exists s. split; [eapply reachable_run; [apply reach_init|exact E]|].
  vm_compute in E. inversion E; subst. split; [reflexivity|]. split; [|split; reflexivity].
  apply quiescentb_sound. vm_compute. reflexivity.
Qed.

(** ** Preservation of [safe] by every transition of the repaired code *)
Lemma safe_ext s s' :
  safe s -> gC s' = gC s -> ls s' = ls s -> cs s' = cs s -> callers s' = callers s -> gD s' = gD s ->
  comp s' = comp s -> finished s' = finished s -> safe s'.
Proof.
  intros [A B C D E] E1 E2 E3 E4 E5 E6 E7. constructor.
  - rewrite E1, E2, E3. exact A.
  - unfold hot. rewrite E1, E2, E3, E4, E5. exact B.
  - rewrite E3. exact C.
  - rewrite E5, E6. exact D.
  - rewrite E6, E7. exact E.
Qed.

Lemma safe_upd_l s i l l' :
  safe s -> nth_error (ls s) i = Some l -> ltok l' = ltok l -> (l_hot l' = true -> l_hot l = true) ->
  safe (with_ls s (upd i l' (ls s))).
Proof.
  intros S N T Hh. destruct S as [A B C D E]. constructor; cbn [with_ls gC ls cs callers gD comp finished]; auto.
  - rewrite (sumZ_upd ltok _ _ _ _ N). lia.
  - intros H. apply B.
    eapply (hot_upd_l s (with_ls s (upd i l' (ls s)))) in H; [|exact N|reflexivity|reflexivity|reflexivity|reflexivity].
    destruct H as [H|H]; auto. eapply hot_intro_l; eauto.
Qed.

Lemma safe_upd_c s i p p' :
  safe s -> nth_error (cs s) i = Some p -> ctok p' = ctok p -> (c_hot p' = true -> c_hot p = true) -> c_ok p' = true ->
  safe (with_cs s (upd i p' (cs s))).
Proof.
  intros S N T Hh Ok. destruct S as [A B C D E]. constructor; cbn [with_cs gC ls cs callers gD comp finished]; auto.
  - rewrite (sumZ_upd ctok _ _ _ _ N). lia.
  - intros H. apply B.
    eapply (hot_upd_c s (with_cs s (upd i p' (cs s)))) in H; [|exact N|reflexivity|reflexivity|reflexivity|reflexivity].
    destruct H as [H|H]; auto. eapply hot_intro_c; eauto.
  - apply forallb_upd; auto.
Qed.

Lemma safe_upd_s s i p p' :
  safe s -> nth_error (callers s) i = Some p -> (s_hot p' = true -> s_hot p = true \/ (gC s <= 0)%Z) ->
  safe (with_callers s (upd i p' (callers s))).
Proof.
  intros S N Hh. destruct S as [A B C D E]. constructor; cbn [with_callers gC ls cs callers gD comp finished]; auto.
  intros H.
  eapply (hot_upd_s s (with_callers s (upd i p' (callers s)))) in H; [|exact N|reflexivity|reflexivity|reflexivity|reflexivity].
  destruct H as [H|H]; auto. destruct (Hh H) as [H1|H1]; auto. apply B. eapply hot_intro_s; eauto.
Qed.

Lemma safe_swapD s : safe s -> hot s = true -> safe (swapD s).
Proof.
  intros S Hh. pose proof (sf_hot _ S Hh) as HC. destruct S as [A B C D E]. unfold swapD.
  destruct (gD s) eqn:ED; [constructor; auto|].
  constructor; cbn [gC ls cs callers gD comp finished]; auto.
  intros F. specialize (E F). rewrite E in D. assert (false = true) by (apply D; discriminate). discriminate.
Qed.

Lemma swapD_ls s : ls (swapD s) = ls s. Proof. unfold swapD; destruct (gD s); reflexivity. Qed.
Lemma swapD_cs s : cs (swapD s) = cs s. Proof. unfold swapD; destruct (gD s); reflexivity. Qed.
Lemma swapD_callers s : callers (swapD s) = callers s. Proof. unfold swapD; destruct (gD s); reflexivity. Qed.
Lemma swapD_C s : gC (swapD s) = gC s. Proof. unfold swapD; destruct (gD s); reflexivity. Qed.

(** the decrement of [remove_connection] by a thread holding one count *)
Lemma safe_dec_l s i l l' :
  safe s -> nth_error (ls s) i = Some l -> ltok l = 1%Z -> ltok l' = 0%Z ->
  (l_hot l' = true -> (gC s - 1 <= 0)%Z) ->
  safe (with_ls (with_C s (gC s - 1)) (upd i l' (ls s))).
Proof.
  intros S N T T' Hh. pose proof (tok_le_l _ _ _ S N) as G. destruct S as [A B C D E].
  constructor; cbn [with_ls with_C gC ls cs callers gD comp finished]; auto.
  - rewrite (sumZ_upd ltok _ _ _ _ N). lia.
  - intros H.
    eapply (hot_upd_l s (with_ls (with_C s (gC s - 1)) (upd i l' (ls s)))) in H; [|exact N|reflexivity|reflexivity|reflexivity|reflexivity].
    destruct H as [H|H]; auto. specialize (B H). lia.
Qed.
Lemma safe_dec_c s i p p' :
  safe s -> nth_error (cs s) i = Some p -> ctok p = 1%Z -> ctok p' = 0%Z -> c_ok p' = true ->
  (c_hot p' = true -> (gC s - 1 <= 0)%Z) ->
  safe (with_cs (with_C s (gC s - 1)) (upd i p' (cs s))).
Proof.
  intros S N T T' Ok Hh. pose proof (tok_le_c _ _ _ S N) as G. destruct S as [A B C D E].
  constructor; cbn [with_cs with_C gC ls cs callers gD comp finished]; auto.
  - rewrite (sumZ_upd ctok _ _ _ _ N). lia.
  - intros H.
    eapply (hot_upd_c s (with_cs (with_C s (gC s - 1)) (upd i p' (cs s)))) in H; [|exact N|reflexivity|reflexivity|reflexivity|reflexivity].
    destruct H as [H|H]; auto. specialize (B H). lia.
  - apply forallb_upd; auto.
Qed.

Lemma safe_step s lb s' : safe s -> step repaired s lb = Some s' -> safe s'.
Proof.
  intros S H. destruct lb as [i|i|i|c|c|k| |h|w]; cbn [step] in H.
  - (* LStep *)
    destruct (nth_error (ls s) i) as [l|] eqn:N; [|discriminate].
    unfold step_listener in H. destruct l as [pc slot woken q]. cbn [l_pc l_slot l_woken l_queue fixA fixC repaired] in H.
    destruct pc as [| | | | | | | |r|].
    + inversion H; subst. eapply safe_upd_l; eauto; destruct (gS s); cbn; auto; discriminate.
    + inversion H; subst. eapply safe_upd_l; eauto; cbn; auto; discriminate.
    + inversion H; subst. eapply safe_upd_l; eauto; destruct (gS s); cbn; auto; discriminate.
    + unfold park in H; cbn [l_queue] in H. destruct q; [|discriminate]. inversion H; subst.
      eapply safe_upd_l; eauto; cbn; auto; discriminate.
    + destruct (woken || negb (q =? 0)); [|discriminate]. inversion H; subst.
      eapply safe_upd_l; eauto; cbn; auto; discriminate.
    + (* LGot: count *)
      inversion H; subst. pose proof (tok_le_l _ _ _ S N) as G. cbn in G. destruct S as [A B C D E].
      constructor; cbn [with_ls with_C gC ls cs callers gD comp finished]; auto.
      * rewrite (sumZ_upd ltok _ _ _ _ N). cbn. lia.
      * intros Hh.
        eapply (hot_upd_l s (with_ls (with_C s (gC s + 1)) _)) in Hh; [|exact N|reflexivity|reflexivity|reflexivity|reflexivity].
        destruct Hh as [Hh|Hh]; [discriminate|]. specialize (B Hh). lia.
    + (* LCounted: spawn *)
      inversion H; subst. destruct S as [A B C D E].
      constructor; cbn [with_ls with_cs with_C gC ls cs callers gD comp finished]; auto.
      * rewrite (sumZ_upd ltok _ _ _ _ N), sumZ_app1. cbn. lia.
      * intros Hh. apply B. unfold hot in *. cbn [with_ls with_cs ls cs callers gD] in Hh.
        rewrite existsb_app1 in Hh. cbn [c_hot] in Hh. rewrite orb_false_r in Hh.
        repeat (apply orb_true_iff in Hh; destruct Hh as [Hh|Hh]).
        -- apply existsb_upd in Hh as [Hh|Hh]; [discriminate|]. rewrite Hh. reflexivity.
        -- rewrite Hh. rewrite !orb_true_r. reflexivity.
        -- rewrite Hh. rewrite !orb_true_r. reflexivity.
        -- rewrite Hh. rewrite !orb_true_r. reflexivity.
      * rewrite forallb_app1, C. reflexivity.
    + inversion H; subst. eapply safe_upd_l; eauto; cbn; auto; discriminate.
    + (* LRel r *)
      destruct r; cbn [rstep] in H.
      * inversion H; subst. cbn [ls with_C].
        eapply safe_dec_l; eauto; destruct (gC s - 1 <=? 0)%Z eqn:Ez; cbn; auto; try discriminate. intros _. lia.
      * inversion H; subst. eapply safe_upd_l; eauto; destruct (gS s); cbn; auto.
      * inversion H; subst.
        assert (Hh : hot s = true) by (eapply hot_intro_l; eauto).
        pose proof (safe_swapD _ S Hh) as S2.
        eapply (safe_upd_l (swapD s)); [exact S2 | rewrite swapD_ls; exact N | reflexivity | cbn; discriminate].
    + discriminate.
  - (* LTake *)
    destruct (nth_error (ls s) i) as [l|] eqn:N; [|discriminate].
    unfold step_take in H. destruct l as [pc slot woken q]. cbn [l_pc l_slot l_woken l_queue] in H.
    destruct q; [discriminate|]. destruct (can_take repaired pc) eqn:CT; [|discriminate]. inversion H; subst.
    eapply safe_upd_l; eauto; [|cbn; discriminate].
    destruct pc as [| | | | | | | |r|]; cbn in CT; try discriminate; reflexivity.
  - (* EConn *)
    destruct (nth_error (ls s) i) as [l|] eqn:N; [|discriminate].
    destruct (l_bound l); [|discriminate]. inversion H; subst.
    eapply safe_upd_l; eauto; destruct l; cbn; auto.
  - (* CStep *)
    destruct (nth_error (cs s) c) as [p|] eqn:N; [|discriminate].
    pose proof (forallb_nth _ _ _ _ (sf_cok _ S) N) as Ok.
    unfold step_conn in H. destruct p as [| | |r|]; try discriminate.
    + inversion H; subst. eapply safe_upd_c; eauto; cbn; auto; discriminate.
    + destruct r; cbn [rstep] in H.
      * inversion H; subst. cbn [cs with_C].
        eapply safe_dec_c; eauto; destruct (gC s - 1 <=? 0)%Z eqn:Ez; cbn; auto; try discriminate. intros _. lia.
      * inversion H; subst. eapply safe_upd_c; eauto; destruct (gS s); cbn; auto.
      * inversion H; subst.
        assert (Hh : hot s = true) by (eapply hot_intro_c; eauto).
        pose proof (safe_swapD _ S Hh) as S2.
        eapply (safe_upd_c (swapD s)); [exact S2 | rewrite swapD_cs; exact N | reflexivity | cbn; discriminate | reflexivity].
  - (* CPanic *)
    destruct (nth_error (cs s) c) as [p|] eqn:N; [|discriminate].
    unfold step_panic in H. destruct p; try discriminate. cbn [fixB repaired] in H. inversion H; subst.
    eapply safe_upd_c; eauto; cbn; auto; discriminate.
  - (* SStep *)
    destruct (nth_error (callers s) k) as [p|] eqn:N; [|discriminate].
    unfold step_caller in H. destruct p; try discriminate.
    + inversion H; subst.
      assert (S1 : safe (with_S s true)) by (eapply safe_ext; eauto).
      eapply (safe_upd_s (with_S s true)); eauto; try (cbn; discriminate).
    + inversion H; subst.
      assert (S1 : safe (with_init s)) by (eapply safe_ext; eauto).
      eapply (safe_upd_s (with_init s)); eauto; try (cbn; discriminate).
    + inversion H; subst. eapply safe_upd_s; eauto.
      destruct (gC s <=? 0)%Z eqn:Ez; cbn; [intros _; right; lia|discriminate].
    + inversion H; subst.
      assert (Hh : hot s = true) by (eapply hot_intro_s; eauto).
      pose proof (safe_swapD _ S Hh) as S2.
      eapply (safe_upd_s (swapD s)); [exact S2 | rewrite swapD_callers; exact N | cbn; discriminate].
    + inversion H; subst.
      assert (S1 : safe (with_ls s (map notify_one (ls s)))).
      { destruct S as [A B C D E]. constructor; cbn [with_ls gC ls cs callers gD comp finished]; auto.
        - rewrite sumZ_map_ext; auto. intros x. unfold notify_one, ltok. destruct (l_slot x); reflexivity.
        - intros Hh. apply B. unfold hot in *. cbn [with_ls ls cs callers gD] in Hh.
          rewrite existsb_map_ext in Hh; auto. intros x. unfold notify_one, l_hot. destruct (l_slot x); reflexivity. }
      eapply (safe_upd_s (with_ls s (map notify_one (ls s)))); eauto; try (cbn; discriminate).
  - (* KStep *)
    unfold step_comp in H. destruct S as [A B C D E].
    assert (KT : forall pc ps w a r f k, (k <> KNone) -> (f = true -> k = KFinished) -> comp s <> KNone ->
                 safe (with_comp s pc ps w a r f k)).
    { intros pc ps w a r f k K1 K2 K3. constructor; cbn; auto. }
    destruct (comp s) eqn:K; try discriminate.
    + inversion H; subst. apply KT; try discriminate. intros F. specialize (E F). congruence.
    + inversion H; subst. apply KT; try discriminate. intros F. specialize (E F). congruence.
    + destruct (want s <=? received s).
      * inversion H; subst. apply KT; try discriminate. auto.
      * destruct (received s <? acks s); [|discriminate]. inversion H; subst. apply KT; try discriminate.
        intros F. specialize (E F). congruence.
  - (* HStep *)
    destruct (nth_error (hooks s) h) as [p|] eqn:N; [|discriminate].
    unfold step_hook in H. destruct p; try discriminate.
    + inversion H; subst. eapply safe_ext; eauto.
    + destruct (pre_sent s); [|discriminate]. inversion H; subst. eapply safe_ext; eauto.
    + inversion H; subst. eapply safe_ext; eauto.
  - (* WStep *)
    destruct (nth_error (waiters s) w) as [[|]|] eqn:N; try discriminate.
    destruct (finished s); [|discriminate]. inversion H; subst. eapply safe_ext; eauto.
Qed.

Lemma safe_reachable s : reachable repaired s -> safe s.
Proof. induction 1 as [nl nc nh nw|s lb s' R IH H]; [apply safe_init|eapply safe_step; eauto]. Qed.

(** a count of 0 means: no accept loop can still accept and no connection task is still to end *)
Lemma safe_zero s : safe s -> (gC s <= 0)%Z ->
  (forall i l, nth_error (ls s) i = Some l -> ltok l = 0%Z) /\ (forall i p, nth_error (cs s) i = Some p -> ctok p = 0%Z).
Proof.
  intros S Z. split.
  - intros i l N. pose proof (tok_le_l _ _ _ S N). pose proof (ltok_nonneg l). lia.
  - intros i p N. pose proof (tok_le_c _ _ _ S N). pose proof (ctok_nonneg p). lia.
Qed.

(** [finished_after_all]: in every reachable state of the repaired code, once the completion signal
    has been sent every accepted connection is done (no loop holds a stream, no task is running). *)
Lemma finished_after_all s : reachable repaired s -> finished s = true -> all_done s = true.
Proof.
  intros R F. pose proof (safe_reachable _ R) as S.
  assert (D : gD s = true). { apply (sf_comp _ S). rewrite (sf_fin _ S F). discriminate. }
  pose proof (sf_hot _ S (hot_intro_D _ D)) as Z.
  destruct (safe_zero _ S Z) as [ZL ZC].
  unfold all_done. apply andb_true_iff. split; apply forallb_forall; intros x Hin; apply In_nth_error in Hin as [i N].
  - specialize (ZL _ _ N). unfold ltok in ZL. unfold l_holds. destruct (l_pc x) as [| | | | | | | |[]|]; try reflexivity; discriminate.
  - specialize (ZC _ _ N). pose proof (forallb_nth _ _ _ _ (sf_cok _ S) N) as Ok.
    destruct x as [| | |[]|]; try reflexivity; discriminate.
Qed.

(** also: no listener is bound any more once the signal has been sent *)
Lemma finished_listeners_closed s : reachable repaired s -> finished s = true -> forallb (fun l => negb (l_bound l)) (ls s) = true.
Proof.
  intros R F. pose proof (safe_reachable _ R) as S.
  assert (D : gD s = true). { apply (sf_comp _ S). rewrite (sf_fin _ S F). discriminate. }
  pose proof (sf_hot _ S (hot_intro_D _ D)) as Z.
  destruct (safe_zero _ S Z) as [ZL _].
  apply forallb_forall; intros x Hin; apply In_nth_error in Hin as [i N].
  specialize (ZL _ _ N). unfold ltok in ZL. unfold l_bound. destruct (l_pc x) as [| | | | | | | |[]|]; try reflexivity; discriminate.
Qed.

(** ** Progress invariant of the repaired code (for [no_hang] and [hooks_before_finished]) *)
Definition s_pend (p : spc) : bool := match p with SSet | SInit | SSwap => true | _ => false end.
Definition s_will_notify (p : spc) : bool := match p with SSet | SInit | SSwap | SNotify => true | _ => false end.
Definition pend (s : state) : bool := existsb s_pend (callers s) || existsb l_hot (ls s) || existsb c_hot (cs s).
Definition l_waits (l : listener) : bool := match l_pc l with LWaker | LChecked | LParked => true | _ => false end.
Definition l_asleep (l : listener) : bool :=
  match l_pc l with LChecked | LParked => negb (l_woken l) | _ => false end.
Definition l_slot_ok (l : listener) : bool := implb (l_waits l && negb (l_woken l)) (l_slot l).
Definition count (A : Type) (f : A -> bool) (l : list A) : nat := length (filter f l).
Arguments count {A} f l.

Record liveA (s : state) : Prop := {
  lv_pend : gS s = true -> gD s = true \/ (0 < gC s)%Z \/ pend s = true;
  lv_slot : forallb l_slot_ok (ls s) = true;
  lv_wake : gS s = true -> existsb l_asleep (ls s) = true -> existsb s_will_notify (callers s) = true }.
Record liveB (s : state) : Prop := {
  lv_D : gD s = true -> comp s <> KNone;
  lv_sent : match comp s with KSent | KLoop | KFinished => pre_sent s = true | _ => True end;
  lv_acks : acks s = count h_acked (hooks s);
  lv_reg : pre_count s = count h_registered (hooks s);
  lv_want : match comp s with KLoop | KFinished => want s <= pre_count s | _ => True end;
  lv_recv : received s <= acks s;
  lv_fin : comp s = KFinished -> finished s = true /\ want s <= received s }.
Definition live (s : state) : Prop := liveA s /\ liveB s.

Lemma count_upd {A} (f : A -> bool) l i x old :
  nth_error l i = Some old -> count f (upd i x l) + (if f old then 1 else 0) = count f l + (if f x then 1 else 0).
Proof.
  unfold count. revert i; induction l as [|a l IH]; intros [|i]; cbn [upd filter nth_error]; intros H; try discriminate.
  - inversion H; subst. destruct (f old), (f x); cbn [length]; lia.
  - specialize (IH _ H). destruct (f a); cbn [length]; lia.
Qed.
Lemma count_repeat_false {A} (f : A -> bool) x n : f x = false -> count f (repeat x n) = 0.
Proof. intros H. unfold count. induction n; cbn [repeat filter]; [reflexivity|]. rewrite H. exact IHn. Qed.
Lemma count_all {A} (f : A -> bool) l : forallb f l = true -> count f l = length l.
Proof.
  unfold count. induction l as [|a l IH]; cbn [forallb filter length]; [reflexivity|].
  intros H. apply andb_true_iff in H as [H1 H2]. rewrite H1. cbn [length]. rewrite IH; auto.
Qed.
Lemma count_le {A} (f : A -> bool) l : count f l <= length l.
Proof. unfold count. induction l as [|a l IH]; cbn [filter length]; [lia|]. destruct (f a); cbn [length]; lia. Qed.
Lemma count_mono {A} (f g : A -> bool) l : (forall x, f x = true -> g x = true) -> count f l <= count g l.
Proof.
  intros H. unfold count. induction l as [|a l IH]; cbn [filter length]; [lia|].
  destruct (f a) eqn:F; [rewrite (H _ F); cbn [length]; lia|]. destruct (g a); cbn [length]; lia.
Qed.
Lemma count_eq_all {A} (f g : A -> bool) l :
  (forall x, f x = true -> g x = true) -> count g l <= count f l -> forall x, In x l -> g x = true -> f x = true.
Proof.
  intros H. unfold count. induction l as [|a l IH]; cbn [filter length]; intros Hc x Hin Hg; [destruct Hin|].
  pose proof (count_mono f g l H) as M. unfold count in M.
  destruct (f a) eqn:F, (g a) eqn:G; cbn [length] in Hc.
  - destruct Hin as [->|Hin]; auto. apply IH; auto. lia.
  - rewrite (H _ F) in G. discriminate.
  - lia.
  - destruct Hin as [->|Hin]; [congruence|]. apply IH; auto.
Qed.

Lemma live_init nl nc nh nw : live (init repaired nl nc nh nw).
Proof.
  split; constructor; cbn [init gS gD gC comp pre_sent acks pre_count hooks ls callers want received finished]; auto; try discriminate.
  - induction nl; cbn; auto.
  - rewrite count_repeat_false; auto.
  - rewrite count_repeat_false; auto.
Qed.

Lemma existsb_upd_mono {A} (f : A -> bool) l i x old :
  nth_error l i = Some old -> (f old = true -> f x = true) -> existsb f l = true -> existsb f (upd i x l) = true.
Proof.
  intros N H E. destruct (f old) eqn:Fo.
  - eapply existsb_upd_intro; eauto.
  - eapply existsb_upd_keep; eauto.
Qed.

(** *** part A: flag / count / wakers *)
Lemma liveA_upd_l s s' i l l' :
  liveA s -> nth_error (ls s) i = Some l ->
  gS s' = gS s -> gD s' = gD s -> ls s' = upd i l' (ls s) -> callers s' = callers s ->
  (existsb c_hot (cs s) = true -> existsb c_hot (cs s') = true) ->
  (gS s = true -> (0 < gC s)%Z -> (0 < gC s')%Z \/ l_hot l' = true) ->
  (gS s = true -> l_hot l = true -> l_hot l' = true \/ gD s = true) ->
  l_slot_ok l' = true ->
  (gS s = true -> l_asleep l' = true -> l_asleep l = true) ->
  liveA s'.
Proof.
  intros [P SL W] N E1 E2 E3 E4 Hcs Hc Hh Hs Ha. constructor.
  - rewrite E1, E2. intros GS. destruct (P GS) as [D|[Z|Pe]]; auto.
    + destruct (Hc GS Z) as [Z'|Hl]; auto. right; right. unfold pend. rewrite E3.
      rewrite (existsb_upd_intro _ _ _ _ _ N Hl). rewrite orb_true_r. reflexivity.
    + unfold pend in Pe. apply orb_true_iff in Pe as [Pe|Pe]; [apply orb_true_iff in Pe as [Pe|Pe]|].
      * right; right. unfold pend. rewrite E4, Pe. reflexivity.
      * destruct (l_hot l) eqn:HL.
        -- destruct (Hh GS eq_refl) as [Hl|D]; auto. right; right. unfold pend. rewrite E3.
           rewrite (existsb_upd_intro _ _ _ _ _ N Hl). rewrite orb_true_r. reflexivity.
        -- right; right. unfold pend. rewrite E3. rewrite (existsb_upd_keep _ _ _ _ _ N HL Pe). rewrite orb_true_r. reflexivity.
      * right; right. unfold pend. rewrite (Hcs Pe). rewrite !orb_true_r. reflexivity.
  - rewrite E3. apply forallb_upd; auto.
  - rewrite E1, E3, E4. intros GS Ex. apply W; auto.
    apply existsb_upd in Ex as [Ex|Ex]; auto. eapply existsb_nth; eauto.
Qed.

Lemma liveA_upd_c s s' i p p' :
  liveA s -> nth_error (cs s) i = Some p ->
  gS s' = gS s -> gD s' = gD s -> ls s' = ls s -> callers s' = callers s -> cs s' = upd i p' (cs s) ->
  (gS s = true -> (0 < gC s)%Z -> (0 < gC s')%Z \/ c_hot p' = true) ->
  (gS s = true -> c_hot p = true -> c_hot p' = true \/ gD s = true) ->
  liveA s'.
Proof.
  intros [P SL W] N E1 E2 E3 E4 E5 Hc Hh. constructor.
  - rewrite E1, E2. intros GS. destruct (P GS) as [D|[Z|Pe]]; auto.
    + destruct (Hc GS Z) as [Z'|Hl]; auto. right; right. unfold pend. rewrite E5.
      rewrite (existsb_upd_intro _ _ _ _ _ N Hl). rewrite !orb_true_r. reflexivity.
    + unfold pend in Pe. apply orb_true_iff in Pe as [Pe|Pe]; [apply orb_true_iff in Pe as [Pe|Pe]|].
      * right; right. unfold pend. rewrite E4, Pe. reflexivity.
      * right; right. unfold pend. rewrite E3, Pe. rewrite orb_true_r. reflexivity.
      * destruct (c_hot p) eqn:HL.
        -- destruct (Hh GS eq_refl) as [Hl|D]; auto. right; right. unfold pend. rewrite E5.
           rewrite (existsb_upd_intro _ _ _ _ _ N Hl). rewrite !orb_true_r. reflexivity.
        -- right; right. unfold pend. rewrite E5. rewrite (existsb_upd_keep _ _ _ _ _ N HL Pe). rewrite !orb_true_r. reflexivity.
  - rewrite E3. exact SL.
  - rewrite E1, E3, E4. exact W.
Qed.

Lemma liveA_upd_s s s' k p p' :
  liveA s -> nth_error (callers s) k = Some p ->
  ls s' = ls s -> cs s' = cs s -> callers s' = upd k p' (callers s) ->
  (gS s' = true -> gS s = true \/ (s_pend p' = true /\ s_will_notify p' = true)) ->
  (gD s = true -> gD s' = true) -> (gS s = true -> (0 < gC s)%Z -> (0 < gC s')%Z \/ s_pend p' = true) ->
  (s_pend p = true -> s_pend p' = true \/ gD s' = true \/ (0 < gC s')%Z) ->
  (s_will_notify p = true -> s_will_notify p' = true) ->
  liveA s'.
Proof.
  intros [P SL W] N E3 E4 E5 HS HD HC Hp Hw. constructor.
  - intros GS'. destruct (HS GS') as [GS|[Pp _]].
    + destruct (P GS) as [D|[Z|Pe]]; auto.
      * destruct (HC GS Z) as [Z'|Pp]; auto. right; right. unfold pend. rewrite E5.
        rewrite (existsb_upd_intro _ _ _ _ _ N Pp). reflexivity.
      * unfold pend in Pe. apply orb_true_iff in Pe as [Pe|Pe]; [apply orb_true_iff in Pe as [Pe|Pe]|].
        -- destruct (s_pend p) eqn:PP.
           ++ destruct (Hp eq_refl) as [Pp|[D|Z]]; auto. right; right. unfold pend. rewrite E5.
              rewrite (existsb_upd_intro _ _ _ _ _ N Pp). reflexivity.
           ++ right; right. unfold pend. rewrite E5. rewrite (existsb_upd_keep _ _ _ _ _ N PP Pe). reflexivity.
        -- right; right. unfold pend. rewrite E3, Pe. rewrite orb_true_r. reflexivity.
        -- right; right. unfold pend. rewrite E4, Pe. rewrite !orb_true_r. reflexivity.
    + right; right. unfold pend. rewrite E5. rewrite (existsb_upd_intro _ _ _ _ _ N Pp). reflexivity.
  - rewrite E3. exact SL.
  - rewrite E3, E5. intros GS' Ex. destruct (HS GS') as [GS|[_ Pw]].
    + eapply existsb_upd_mono; eauto.
    + eapply existsb_upd_intro; eauto.
Qed.

Lemma liveA_ext s s' :
  liveA s -> gS s' = gS s -> (gD s = true -> gD s' = true) -> gC s' = gC s -> ls s' = ls s -> cs s' = cs s -> callers s' = callers s ->
  liveA s'.
Proof.
  intros [P SL W] E1 E2 E3 E4 E5 E6. constructor.
  - rewrite E1, E3. unfold pend. rewrite E4, E5, E6. intros GS. destruct (P GS) as [D|[Z|Pe]]; auto.
  - rewrite E4. exact SL.
  - rewrite E1, E4, E6. exact W.
Qed.

Lemma swapD_S s : gS (swapD s) = gS s. Proof. unfold swapD; destruct (gD s); reflexivity. Qed.
Lemma swapD_D s : gD (swapD s) = true. Proof. unfold swapD; destruct (gD s) eqn:E; auto. Qed.

Lemma notify_not_asleep l : forallb l_slot_ok l = true -> existsb l_asleep (map notify_one l) = false.
Proof.
  induction l as [|a l IH]; cbn [forallb map existsb]; intros H; [reflexivity|].
  apply andb_true_iff in H as [H1 H2]. rewrite (IH H2), orb_false_r.
  unfold l_slot_ok, l_waits, l_asleep, notify_one in *. destruct a as [pc sl wk q]; cbn [l_pc l_slot l_woken l_queue] in *.
  destruct sl; cbn [l_pc l_woken]; [destruct pc; reflexivity|]. destruct pc, wk; cbn in *; congruence.
Qed.
Lemma notify_slot_ok l : forallb l_slot_ok l = true -> forallb l_slot_ok (map notify_one l) = true.
Proof.
  induction l as [|a l IH]; cbn [forallb map]; intros H; [reflexivity|].
  apply andb_true_iff in H as [H1 H2]. rewrite (IH H2), andb_true_r.
  unfold l_slot_ok, l_waits, notify_one in *. destruct a as [pc sl wk q]; cbn [l_pc l_slot l_woken l_queue] in *.
  destruct sl; cbn [l_pc l_slot l_woken]; auto. rewrite andb_false_r. reflexivity.
Qed.

Ltac la_fin :=
  try reflexivity; try (intros; assumption);
  try (cbn; intros; auto; try discriminate; try congruence; try (left; lia)).

Lemma liveA_swapD s : liveA s -> liveA (swapD s).
Proof.
  intros LA. eapply liveA_ext; eauto using swapD_S, swapD_C, swapD_ls, swapD_cs, swapD_callers. intros _. apply swapD_D.
Qed.

Lemma slot_ok_nth s i l : liveA s -> nth_error (ls s) i = Some l -> l_slot_ok l = true.
Proof. intros LA N. eapply forallb_nth; [apply (lv_slot _ LA)|exact N]. Qed.

Lemma liveA_step s lb s' : liveA s -> step repaired s lb = Some s' -> liveA s'.
Proof.
  intros LA H. destruct lb as [i|i|i|c|c|k| |h|w]; cbn [step] in H.
  - (* LStep *)
    destruct (nth_error (ls s) i) as [l|] eqn:N; [|discriminate].
    pose proof (slot_ok_nth _ _ _ LA N) as SO.
    unfold step_listener in H. destruct l as [pc slot woken q]. cbn [l_pc l_slot l_woken l_queue fixA fixC repaired] in H.
    unfold l_slot_ok, l_waits in SO; cbn [l_pc l_slot l_woken] in SO.
    destruct pc as [| | | | | | | |r|].
    + inversion H; subst. eapply (liveA_upd_l s _ i _ _ LA N); la_fin; destruct (gS s); cbn; auto; discriminate.
    + inversion H; subst. eapply (liveA_upd_l s _ i _ _ LA N); la_fin. destruct woken; reflexivity.
    + inversion H; subst. eapply (liveA_upd_l s _ i _ _ LA N); la_fin; destruct (gS s); cbn; auto; try discriminate.
    + unfold park in H; cbn [l_queue] in H. destruct q; [|discriminate]. inversion H; subst.
      eapply (liveA_upd_l s _ i _ _ LA N); la_fin.
    + destruct (woken || negb (q =? 0)); [|discriminate]. inversion H; subst.
      eapply (liveA_upd_l s _ i _ _ LA N); la_fin.
    + inversion H; subst. eapply (liveA_upd_l s _ i _ _ LA N); la_fin.
    + inversion H; subst. eapply (liveA_upd_l s _ i _ _ LA N); la_fin.
      match goal with E : existsb c_hot _ = true |- _ => rewrite existsb_app1, E; reflexivity end.
    + inversion H; subst. eapply (liveA_upd_l s _ i _ _ LA N); la_fin.
    + destruct r; cbn [rstep] in H.
      * inversion H; subst. destruct (gC s - 1 <=? 0)%Z eqn:Ez;
          eapply (liveA_upd_l s _ i _ _ LA N); la_fin; try (right; reflexivity); try (left; lia).
      * inversion H; subst. eapply (liveA_upd_l s _ i _ _ LA N); la_fin; destruct (gS s); cbn; auto; try discriminate.
      * inversion H; subst. pose proof (liveA_swapD _ LA) as LA2.
        assert (N2 : nth_error (ls (swapD s)) i = Some {| l_pc := LRel RSwap; l_slot := slot; l_woken := woken; l_queue := q |})
          by (rewrite swapD_ls; exact N).
        eapply (liveA_upd_l (swapD s) _ i _ _ LA2 N2); la_fin. right. apply swapD_D.
    + discriminate.
  - (* LTake *)
    destruct (nth_error (ls s) i) as [l|] eqn:N; [|discriminate].
    unfold step_take in H. destruct l as [pc slot woken q]. cbn [l_pc l_slot l_woken l_queue] in H.
    destruct q; [discriminate|]. destruct (can_take repaired pc) eqn:CT; [|discriminate]. inversion H; subst.
    eapply (liveA_upd_l s _ i _ _ LA N); la_fin.
    destruct pc as [| | | | | | | |r|]; cbn in CT; try discriminate; cbn; discriminate.
  - (* EConn *)
    destruct (nth_error (ls s) i) as [l|] eqn:N; [|discriminate].
    pose proof (slot_ok_nth _ _ _ LA N) as SO.
    destruct (l_bound l); [|discriminate]. inversion H; subst.
    eapply (liveA_upd_l s _ i _ _ LA N); la_fin; destruct l; cbn in *; auto.
  - (* CStep *)
    destruct (nth_error (cs s) c) as [p|] eqn:N; [|discriminate].
    unfold step_conn in H. destruct p as [| | |r|]; try discriminate.
    + inversion H; subst. eapply (liveA_upd_c s _ c _ _ LA N); la_fin.
    + inversion H; subst. eapply (liveA_upd_c s _ c _ _ LA N); la_fin.
    + destruct r; cbn [rstep] in H.
      * inversion H; subst. destruct (gC s - 1 <=? 0)%Z eqn:Ez;
          eapply (liveA_upd_c s _ c _ _ LA N); la_fin; try (right; reflexivity); try (left; lia).
      * inversion H; subst. eapply (liveA_upd_c s _ c _ _ LA N); la_fin; destruct (gS s); cbn; auto; try discriminate.
      * inversion H; subst. pose proof (liveA_swapD _ LA) as LA2.
        assert (N2 : nth_error (cs (swapD s)) c = Some (CRem RSwap)) by (rewrite swapD_cs; exact N).
        eapply (liveA_upd_c (swapD s) _ c _ _ LA2 N2); la_fin. right. apply swapD_D.
  - (* CPanic *)
    destruct (nth_error (cs s) c) as [p|] eqn:N; [|discriminate].
    unfold step_panic in H. destruct p; try discriminate. cbn [fixB repaired] in H. inversion H; subst.
    eapply (liveA_upd_c s _ c _ _ LA N); la_fin.
  - (* SStep *)
    destruct (nth_error (callers s) k) as [p|] eqn:N; [|discriminate].
    unfold step_caller in H. destruct p; try discriminate.
    + inversion H; subst. eapply (liveA_upd_s s _ k _ _ LA N); la_fin.
    + inversion H; subst. eapply (liveA_upd_s s _ k _ _ LA N); la_fin.
    + inversion H; subst. eapply (liveA_upd_s s _ k _ _ LA N); la_fin; destruct (gC s <=? 0)%Z eqn:Ez; cbn; auto; try (right; right; lia).
    + inversion H; subst. pose proof (liveA_swapD _ LA) as LA2.
      assert (N2 : nth_error (callers (swapD s)) k = Some SSwap) by (rewrite swapD_callers; exact N).
      eapply (liveA_upd_s (swapD s) _ k _ _ LA2 N2); la_fin. right; left. apply swapD_D.
    + inversion H; subst. destruct LA as [P SL W]. constructor; cbn [with_callers with_ls gS gD gC ls cs callers].
      * intros GS. destruct (P GS) as [D|[Z|Pe]]; auto. right; right. unfold pend in *.
        cbn [with_callers with_ls ls cs callers].
        apply orb_true_iff in Pe as [Pe|Pe]; [apply orb_true_iff in Pe as [Pe|Pe]|].
        -- rewrite (existsb_upd_keep s_pend _ _ SDone _ N eq_refl Pe). reflexivity.
        -- rewrite existsb_map_ext; [rewrite Pe; rewrite orb_true_r; reflexivity|].
           intros x. unfold notify_one, l_hot. destruct (l_slot x); reflexivity.
        -- rewrite Pe. rewrite !orb_true_r. reflexivity.
      * apply notify_slot_ok; auto.
      * intros _ Ex. rewrite notify_not_asleep in Ex; auto. discriminate.
  - (* KStep *)
    unfold step_comp in H.
    destruct (comp s); try discriminate.
    + inversion H; subst. eapply liveA_ext; eauto.
    + inversion H; subst. eapply liveA_ext; eauto.
    + destruct (want s <=? received s).
      * inversion H; subst. eapply liveA_ext; eauto.
      * destruct (received s <? acks s); [|discriminate]. inversion H; subst. eapply liveA_ext; eauto.
  - (* HStep *)
    destruct (nth_error (hooks s) h) as [p|] eqn:N; [|discriminate].
    unfold step_hook in H. destruct p; try discriminate.
    + inversion H; subst. eapply liveA_ext; eauto.
    + destruct (pre_sent s); [|discriminate]. inversion H; subst. eapply liveA_ext; eauto.
    + inversion H; subst. eapply liveA_ext; eauto.
  - (* WStep *)
    destruct (nth_error (waiters s) w) as [[|]|] eqn:N; try discriminate.
    destruct (finished s); [|discriminate]. inversion H; subst. eapply liveA_ext; eauto.
Qed.

(** *** part B: completion task and hooks *)
Lemma liveB_ext s s' :
  liveB s -> gD s' = gD s -> comp s' = comp s -> pre_sent s' = pre_sent s -> acks s' = acks s -> hooks s' = hooks s ->
  pre_count s' = pre_count s -> want s' = want s -> received s' = received s -> finished s' = finished s -> liveB s'.
Proof.
  intros [A B C D E F G] E1 E2 E3 E4 E5 E6 E7 E8 E9.
  constructor; rewrite ?E1, ?E2, ?E3, ?E4, ?E5, ?E6, ?E7, ?E8, ?E9; auto.
Qed.

Lemma liveB_swapD s : liveB s -> safe s -> liveB (swapD s).
Proof.
  intros LB S. unfold swapD. destruct (gD s) eqn:ED; auto.
  assert (K : comp s = KNone).
  { destruct (comp s) eqn:K; auto; assert (X : gD s = true) by (apply (sf_comp _ S); rewrite K; discriminate); congruence. }
  destruct LB as [A B C D E F G]. constructor; cbn [gD comp pre_sent acks hooks pre_count want received finished]; auto; discriminate.
Qed.

Lemma swapD_B s :
  pre_sent (swapD s) = pre_sent s /\ acks (swapD s) = acks s /\ hooks (swapD s) = hooks s /\ pre_count (swapD s) = pre_count s /\
  want (swapD s) = want s /\ received (swapD s) = received s /\ finished (swapD s) = finished s.
Proof. unfold swapD; destruct (gD s); cbn; auto 10. Qed.

Lemma liveB_step s lb s' : liveB s -> safe s -> step repaired s lb = Some s' -> liveB s'.
Proof.
  intros LB S H. destruct lb as [i|i|i|c|c|k| |h|w]; cbn [step] in H.
  - destruct (nth_error (ls s) i) as [l|] eqn:N; [|discriminate].
    unfold step_listener in H. destruct l as [pc slot woken q]. cbn [l_pc l_slot l_woken l_queue fixA fixC repaired] in H.
    destruct pc as [| | | | | | | |r|]; try discriminate;
      try (inversion H; subst; eapply liveB_ext; eauto; fail).
    + unfold park in H; cbn [l_queue] in H. destruct q; [|discriminate]. inversion H; subst. eapply liveB_ext; eauto.
    + destruct (woken || negb (q =? 0)); [|discriminate]. inversion H; subst. eapply liveB_ext; eauto.
    + destruct r; cbn [rstep] in H; try (inversion H; subst; eapply liveB_ext; eauto; fail).
      inversion H; subst. pose proof (liveB_swapD _ LB S) as LB2. eapply (liveB_ext (swapD s)); eauto.
  - destruct (nth_error (ls s) i) as [l|] eqn:N; [|discriminate].
    unfold step_take in H. destruct (l_queue l); [discriminate|]. destruct (can_take repaired (l_pc l)); [|discriminate].
    inversion H; subst. eapply liveB_ext; eauto.
  - destruct (nth_error (ls s) i) as [l|] eqn:N; [|discriminate].
    destruct (l_bound l); [|discriminate]. inversion H; subst. eapply liveB_ext; eauto.
  - destruct (nth_error (cs s) c) as [p|] eqn:N; [|discriminate].
    unfold step_conn in H. destruct p as [| | |r|]; try discriminate; try (inversion H; subst; eapply liveB_ext; eauto; fail).
    destruct r; cbn [rstep] in H; try (inversion H; subst; eapply liveB_ext; eauto; fail).
    inversion H; subst. pose proof (liveB_swapD _ LB S) as LB2. eapply (liveB_ext (swapD s)); eauto.
  - destruct (nth_error (cs s) c) as [p|] eqn:N; [|discriminate].
    unfold step_panic in H. destruct p; try discriminate. inversion H; subst. eapply liveB_ext; eauto.
  - destruct (nth_error (callers s) k) as [p|] eqn:N; [|discriminate].
    unfold step_caller in H. destruct p; try discriminate; try (inversion H; subst; eapply liveB_ext; eauto; fail).
    inversion H; subst. pose proof (liveB_swapD _ LB S) as LB2. eapply (liveB_ext (swapD s)); eauto.
  - unfold step_comp in H. destruct LB as [A B C D E F G].
    destruct (comp s) eqn:K; try discriminate.
    + inversion H; subst. constructor; cbn [with_comp gD comp pre_sent acks hooks pre_count want received finished]; auto; discriminate.
    + inversion H; subst. constructor; cbn [with_comp gD comp pre_sent acks hooks pre_count want received finished]; auto; discriminate.
    + destruct (want s <=? received s) eqn:LE.
      * inversion H; subst. constructor; cbn [with_comp gD comp pre_sent acks hooks pre_count want received finished]; auto; try discriminate.
        intros _. split; auto. apply Nat.leb_le. exact LE.
      * destruct (received s <? acks s) eqn:LT; [|discriminate]. inversion H; subst.
        constructor; cbn [with_comp gD comp pre_sent acks hooks pre_count want received finished]; auto; try discriminate.
        apply Nat.ltb_lt in LT. lia.
  - destruct (nth_error (hooks s) h) as [p|] eqn:N; [|discriminate].
    destruct LB as [A B C D E F G].
    unfold step_hook in H. destruct p; try discriminate.
    + inversion H; subst.
      pose proof (count_upd h_acked _ _ HReg _ N) as U1. pose proof (count_upd h_registered _ _ HReg _ N) as U2. cbn in U1, U2.
      constructor; cbn [with_hooks with_comp gD comp pre_sent acks hooks pre_count want received finished]; auto; try lia.
      destruct (comp s); auto; lia.
    + destruct (pre_sent s) eqn:PS; [|discriminate]. inversion H; subst.
      pose proof (count_upd h_acked _ _ HSig _ N) as U1. pose proof (count_upd h_registered _ _ HSig _ N) as U2. cbn in U1, U2.
      constructor; cbn [with_hooks with_comp gD comp pre_sent acks hooks pre_count want received finished]; auto; try lia.
      destruct (comp s); auto.
    + inversion H; subst.
      pose proof (count_upd h_acked _ _ HAcked _ N) as U1. pose proof (count_upd h_registered _ _ HAcked _ N) as U2. cbn in U1, U2.
      constructor; cbn [with_hooks with_comp gD comp pre_sent acks hooks pre_count want received finished]; auto; try lia.
  - destruct (nth_error (waiters s) w) as [[|]|] eqn:N; try discriminate.
    destruct (finished s); [|discriminate]. inversion H; subst. eapply liveB_ext; eauto.
Qed.

Lemma live_reachable s : reachable repaired s -> live s.
Proof.
  induction 1 as [nl nc nh nw|s lb s' R IH H]; [apply live_init|].
  destruct IH as [LA LB]. split; [eapply liveA_step; eauto|eapply liveB_step; eauto using safe_reachable].
Qed.

(** ** [no_hang] *)
Lemma forallb_intro {A} (f : A -> bool) l : (forall i x, nth_error l i = Some x -> f x = true) -> forallb f l = true.
Proof. intros H. apply forallb_forall. intros x Hin. apply In_nth_error in Hin as [i N]. eauto. Qed.
Lemma existsb_none {A} (f : A -> bool) l : (forall i x, nth_error l i = Some x -> f x = false) -> existsb f l = false.
Proof.
  intros H. destruct (existsb f l) eqn:E; auto. apply existsb_exists in E as [x [Hin Fx]].
  apply In_nth_error in Hin as [i N]. rewrite (H _ _ N) in Fx. discriminate.
Qed.
Lemma sumZ_zero {A} (f : A -> Z) l : (forall i x, nth_error l i = Some x -> f x = 0%Z) -> sumZ (map f l) = 0%Z.
Proof.
  induction l as [|a l IH]; cbn [map sumZ]; intros H; [reflexivity|].
  rewrite (H 0 a eq_refl), IH; [reflexivity|]. intros i x N. apply (H (S i) x N).
Qed.

Lemma no_hang s : reachable repaired s -> requested s = true -> quiescent repaired s -> completed s = true.
Proof.
  intros R GS Q. unfold requested in GS.
  pose proof (safe_reachable _ R) as S. destruct (live_reachable _ R) as [LA LB].
  (* 1: every caller has returned *)
  assert (Hcall : forall k p, nth_error (callers s) k = Some p -> p = SDone).
  { intros k p N. specialize (Q (SStep k) eq_refl). cbn [step] in Q. rewrite N in Q. destruct p; cbn in Q; try discriminate; reflexivity. }
  (* 2: every connection task has ended *)
  assert (Hconn : forall c p, nth_error (cs s) c = Some p -> p = CDone).
  { intros c p N. pose proof (forallb_nth _ _ _ _ (sf_cok _ S) N) as Ok.
    specialize (Q (CStep c) eq_refl). cbn [step] in Q. rewrite N in Q.
    destruct p as [| | |r|]; cbn in Q; try discriminate; try reflexivity.
    destruct (rstep s r); discriminate. }
  (* 3: a listener has exited or sleeps *)
  assert (Hlis : forall i l, nth_error (ls s) i = Some l -> l_pc l = LExited \/ l_asleep l = true).
  { intros i l N. pose proof (Q (LStep i) eq_refl) as Q1. pose proof (Q (LTake i) eq_refl) as Q2.
    cbn [step] in Q1, Q2. rewrite N in Q1, Q2. unfold step_listener in Q1. unfold step_take in Q2.
    destruct l as [pc slot woken q]. cbn [l_pc l_slot l_woken l_queue fixA fixC repaired] in *.
    destruct pc as [| | | | | | | |r|]; try discriminate; auto.
    - unfold park in Q1; cbn [l_queue] in Q1. destruct q; [discriminate|]. cbn in Q2. discriminate.
    - right. unfold l_asleep; cbn [l_pc l_woken]. destruct woken; [discriminate|reflexivity].
    - destruct (rstep s r); discriminate. }
  assert (Hexit : forall i l, nth_error (ls s) i = Some l -> l_pc l = LExited).
  { intros i l N. destruct (Hlis _ _ N) as [E|A]; auto. exfalso.
    pose proof (lv_wake _ LA GS (existsb_nth _ _ _ _ N A)) as W.
    apply existsb_exists in W as [p [Hin Wp]]. apply In_nth_error in Hin as [k Nk]. rewrite (Hcall _ _ Nk) in Wp. discriminate. }
  (* 4: the count is 0, nobody is about to complete: completion has started *)
  assert (Z : gC s = 0%Z).
  { assert (Z1 : sumZ (map ltok (ls s)) = 0%Z) by (apply sumZ_zero; intros i l N; unfold ltok; rewrite (Hexit _ _ N); reflexivity).
    assert (Z2 : sumZ (map ctok (cs s)) = 0%Z) by (apply sumZ_zero; intros i p N; rewrite (Hconn _ _ N); reflexivity).
    rewrite (sf_count _ S), Z1, Z2. reflexivity. }
  assert (D : gD s = true).
  { destruct (lv_pend _ LA GS) as [D|[C|P]]; auto; [lia|]. exfalso. unfold pend in P.
    assert (P1 : existsb s_pend (callers s) = false) by (apply existsb_none; intros k p N; rewrite (Hcall _ _ N); reflexivity).
    assert (P2 : existsb l_hot (ls s) = false) by (apply existsb_none; intros i l N; unfold l_hot; rewrite (Hexit _ _ N); reflexivity).
    assert (P3 : existsb c_hot (cs s) = false) by (apply existsb_none; intros i p N; rewrite (Hconn _ _ N); reflexivity).
    rewrite P1, P2, P3 in P. discriminate. }
  pose proof (lv_D _ LB D) as K.
  pose proof (Q KStep eq_refl) as QK. cbn [step] in QK. unfold step_comp in QK.
  (* 5: every hook has acknowledged *)
  assert (PS : pre_sent s = true).
  { pose proof (lv_sent _ LB) as B. destruct (comp s); try discriminate; auto; try congruence. }
  assert (Hhook : forall h p, nth_error (hooks s) h = Some p -> p = HAcked).
  { intros h p N. specialize (Q (HStep h) eq_refl). cbn [step] in Q. rewrite N in Q. unfold step_hook in Q.
    rewrite PS in Q. destruct p; try discriminate; reflexivity. }
  assert (F : comp s = KFinished).
  { destruct (comp s) eqn:KK; try discriminate; auto; [congruence|]. exfalso.
    pose proof (lv_want _ LB) as W. rewrite KK in W.
    pose proof (lv_acks _ LB) as A. pose proof (lv_reg _ LB) as RG. pose proof (count_le h_registered (hooks s)) as CL.
    rewrite (count_all h_acked) in A; [|apply forallb_intro; intros i x N; rewrite (Hhook _ _ N); reflexivity].
    destruct (want s <=? received s) eqn:LE; [discriminate|]. destruct (received s <? acks s) eqn:LT; [discriminate|].
    apply Nat.leb_gt in LE. apply Nat.ltb_ge in LT. lia. }
  destruct (lv_fin _ LB F) as [Fin _].
  unfold completed. rewrite Fin. cbn [andb].
  repeat (apply andb_true_iff; split).
  - apply forallb_intro. intros i l N. unfold l_exited. rewrite (Hexit _ _ N). reflexivity.
  - apply forallb_intro. intros i p N. rewrite (Hconn _ _ N). reflexivity.
  - apply forallb_intro. intros i p N. rewrite (Hhook _ _ N). reflexivity.
  - apply forallb_intro. intros w b N. specialize (Q (WStep w) eq_refl). cbn [step] in Q. rewrite N, Fin in Q.
    destruct b; [reflexivity|discriminate].
Qed.

(** ** [hooks_before_finished]: when the completion signal is sent, at least [want] acknowledgements have
    been received, [want] being the number of hooks registered when the completion task read the
    count; if no hook registered later than that, every registered hook has acknowledged. *)
Lemma hooks_before_finished s :
  reachable repaired s -> finished s = true ->
  want s <= count h_acked (hooks s) /\
  (want s = pre_count s -> forall h p, nth_error (hooks s) h = Some p -> h_registered p = true -> h_acked p = true).
Proof.
  intros R F. pose proof (safe_reachable _ R) as S. destruct (live_reachable _ R) as [LA LB].
  pose proof (sf_fin _ S F) as K. destruct (lv_fin _ LB K) as [_ WR].
  pose proof (lv_recv _ LB) as RA. pose proof (lv_acks _ LB) as A. pose proof (lv_reg _ LB) as RG.
  split; [lia|]. intros E h p N Hr.
  apply (count_eq_all h_acked h_registered (hooks s)); auto.
  - intros x Hx. destruct x; try discriminate; reflexivity.
  - lia.
  - eapply nth_error_In; eauto.
Qed.

(** ** Towards [completes]: the deterministic scheduler [drain] only takes transitions, so whenever it
    comes to rest from a reachable requested state, that state is completed.  What is NOT mechanised
    is that it always comes to rest (termination of the threads' programs: every loop iteration of a
    listener consumes a queued connection or a wake-up). *)
Lemma drain_run v fuel s : exists sched, run v s sched = Some (drain v fuel s).
Proof.
  revert s; induction fuel as [|f IH]; intros s; cbn [drain]; [exists []; reflexivity|].
  destruct (find (enabledb v s) (thread_labels s)) as [lb|] eqn:F; [|exists []; reflexivity].
  destruct (step v s lb) as [s1|] eqn:E; [|exists []; reflexivity].
  destruct (IH s1) as [sched H]. exists (lb :: sched). cbn [run]. rewrite E. exact H.
Qed.

Lemma swapD_gS s : gS (swapD s) = gS s. Proof. apply swapD_S. Qed.
Lemma rstep_gS s r : gS (fst (rstep s r)) = gS s.
Proof. destruct r; cbn [rstep fst]; try reflexivity. apply swapD_S. Qed.

Lemma step_requested v s lb s' : step v s lb = Some s' -> requested s = true -> requested s' = true.
Proof.
  unfold requested. intros H GS. destruct lb as [i|i|i|c|c|k| |h|w]; cbn [step] in H.
  - destruct (nth_error (ls s) i) as [l|]; [|discriminate]. unfold step_listener in H.
    destruct (l_pc l) as [| | | | | | | |r|]; try discriminate;
      repeat match type of H with
             | context [if ?b then _ else _] => destruct b eqn:?
             | context [option_map _ (park ?l)] => destruct (park l); cbn [option_map] in H
             end; try discriminate; try (inversion H; subst; cbn; congruence).
    pose proof (rstep_gS s r) as G. destruct (rstep s r) as [s1 o]. cbn [fst] in G. inversion H; subst. cbn. congruence.
  - destruct (nth_error (ls s) i) as [l|]; [|discriminate]. unfold step_take in H.
    destruct (l_queue l); [discriminate|]. destruct (can_take v (l_pc l)); [|discriminate]. inversion H; subst. exact GS.
  - destruct (nth_error (ls s) i) as [l|]; [|discriminate]. destruct (l_bound l); [|discriminate]. inversion H; subst. exact GS.
  - destruct (nth_error (cs s) c) as [p|]; [|discriminate]. unfold step_conn in H.
    destruct p as [| | |r|]; try discriminate; try (inversion H; subst; cbn; congruence).
    pose proof (rstep_gS s r) as G. destruct (rstep s r) as [s1 o]. cbn [fst] in G. inversion H; subst. cbn. congruence.
  - destruct (nth_error (cs s) c) as [p|]; [|discriminate]. unfold step_panic in H.
    destruct p; try discriminate. inversion H; subst. exact GS.
  - destruct (nth_error (callers s) k) as [p|]; [|discriminate]. unfold step_caller in H.
    destruct p; try discriminate; inversion H; subst; cbn; auto. rewrite swapD_S. exact GS.
  - unfold step_comp in H. destruct (comp s); try discriminate;
      repeat match type of H with context [if ?b then _ else _] => destruct b eqn:? end; try discriminate; inversion H; subst; cbn; congruence.
  - destruct (nth_error (hooks s) h) as [p|]; [|discriminate]. unfold step_hook in H.
    destruct p; try discriminate; repeat match type of H with context [if ?b then _ else _] => destruct b eqn:? end;
      try discriminate; inversion H; subst; cbn; congruence.
  - destruct (nth_error (waiters s) w) as [[|]|]; try discriminate. destruct (finished s); [|discriminate]. inversion H; subst. exact GS.
Qed.

Lemma run_requested v s sched s' : run v s sched = Some s' -> requested s = true -> requested s' = true.
Proof.
  revert s; induction sched as [|lb r IH]; cbn [run]; intros s H GS; [inversion H; subst; exact GS|].
  destruct (step v s lb) as [s1|] eqn:E; [|discriminate]. eapply IH; eauto. eapply step_requested; eauto.
Qed.

Lemma completes_partial s fuel :
  reachable repaired s -> requested s = true -> quiescentb repaired (drain repaired fuel s) = true ->
  exists sched s', run repaired s sched = Some s' /\ completed s' = true.
Proof.
  intros R GS Q. destruct (drain_run repaired fuel s) as [sched H].
  exists sched, (drain repaired fuel s). split; auto.
  apply no_hang; [eapply reachable_run; eauto|eapply run_requested; eauto|apply quiescentb_sound; exact Q].
Qed.
