(** C10 — proofs about the transition system of Model/Shutdown.v. *)
From Coq Require Import ZifyBool ZifyNat ZifyN.
From KV Require Import Shutdown.
Open Scope nat_scope.

(** ** Lists updated in one place *)
Lemma nth_error_upd {A} (l : list A) i j x :
  nth_error (upd i x l) j = if Nat.eqb i j then (match nth_error l i with Some _ => Some x | None => None end) else nth_error l j.
Proof.
  revert i j; induction l as [|a l IH]; intros [|i] [|j]; cbn [upd nth_error Nat.eqb]; try reflexivity.
  - destruct (Nat.eqb i j); reflexivity.
  - apply IH.
Qed.

Lemma upd_length {A} (l : list A) i x : length (upd i x l) = length l.
Proof. revert i; induction l as [|a l IH]; intros [|i]; cbn [upd length]; auto. Qed.

Lemma existsb_upd {A} (f : A -> bool) l i x :
  existsb f (upd i x l) = true -> f x = true \/ existsb f l = true.
Proof.
  revert i; induction l as [|a l IH]; intros [|i]; cbn [upd existsb]; intros H; auto.
  - apply orb_true_iff in H as [H|H]; auto. right. rewrite H. apply orb_true_r.
  - apply orb_true_iff in H as [H|H]; [right; rewrite H; reflexivity|].
    apply IH in H as [H|H]; auto. right. rewrite H. apply orb_true_r.
Qed.

Lemma existsb_nth {A} (f : A -> bool) l i x : nth_error l i = Some x -> f x = true -> existsb f l = true.
Proof.
  revert i; induction l as [|a l IH]; intros [|i]; cbn [nth_error existsb]; intros H Hf; try discriminate.
  - inversion H; subst. rewrite Hf. reflexivity.
  - rewrite (IH _ H Hf). apply orb_true_r.
Qed.

Lemma existsb_upd_other {A} (f : A -> bool) l i x old :
  nth_error l i = Some old -> f old = false -> f x = false -> existsb f (upd i x l) = existsb f l.
Proof.
  revert i; induction l as [|a l IH]; intros [|i]; cbn [upd existsb nth_error]; intros H Ho Hx; try discriminate; auto.
  - inversion H; subst. rewrite Ho, Hx. reflexivity.
  - rewrite (IH _ H Ho Hx). reflexivity.
Qed.

Lemma existsb_upd_intro {A} (f : A -> bool) l i x old :
  nth_error l i = Some old -> f x = true -> existsb f (upd i x l) = true.
Proof.
  intros H Hx. apply existsb_exists. exists x. split; auto.
  apply nth_error_In with (n := i). rewrite nth_error_upd, Nat.eqb_refl, H. reflexivity.
Qed.

Lemma existsb_upd_keep {A} (f : A -> bool) l i x old :
  nth_error l i = Some old -> f old = false -> existsb f l = true -> existsb f (upd i x l) = true.
Proof.
  revert i; induction l as [|a l IH]; intros [|i]; cbn [upd existsb nth_error]; intros H Ho He; try discriminate.
  - inversion H; subst. rewrite Ho in He. cbn in He. rewrite He. apply orb_true_r.
  - apply orb_true_iff in He as [He|He]; [rewrite He; reflexivity|].
    rewrite (IH _ H Ho He). apply orb_true_r.
Qed.

Lemma existsb_app1 {A} (f : A -> bool) l x : existsb f (l ++ [x]) = existsb f l || f x.
Proof. rewrite existsb_app. cbn. rewrite orb_false_r. reflexivity. Qed.

Lemma forallb_upd {A} (f : A -> bool) l i x : forallb f l = true -> f x = true -> forallb f (upd i x l) = true.
Proof.
  revert i; induction l as [|a l IH]; intros [|i]; cbn [upd forallb]; intros H Hx; auto.
  - apply andb_true_iff in H as [_ H]. rewrite Hx, H. reflexivity.
  - apply andb_true_iff in H as [H1 H]. rewrite H1, (IH _ H Hx). reflexivity.
Qed.

Lemma forallb_nth {A} (f : A -> bool) l i x : forallb f l = true -> nth_error l i = Some x -> f x = true.
Proof. intros H Hn. rewrite forallb_forall in H. apply H. eapply nth_error_In; eauto. Qed.

Lemma forallb_app1 {A} (f : A -> bool) l x : forallb f (l ++ [x]) = forallb f l && f x.
Proof. rewrite forallb_app. cbn. rewrite andb_true_r. reflexivity. Qed.

(** sums of token counts *)
Fixpoint sumZ (l : list Z) : Z := match l with [] => 0%Z | a :: r => (a + sumZ r)%Z end.

Lemma sumZ_upd {A} (f : A -> Z) l i x old :
  nth_error l i = Some old -> sumZ (map f (upd i x l)) = (sumZ (map f l) - f old + f x)%Z.
Proof.
  revert i; induction l as [|a l IH]; intros [|i]; cbn [upd map sumZ nth_error]; intros H; try discriminate.
  - inversion H; subst. lia.
  - rewrite (IH _ H). lia.
Qed.

Lemma sumZ_app1 {A} (f : A -> Z) l x : sumZ (map f (l ++ [x])) = (sumZ (map f l) + f x)%Z.
Proof. induction l as [|a l IH]; cbn [app map sumZ]; lia. Qed.

Lemma sumZ_nonneg {A} (f : A -> Z) l : (forall x, 0 <= f x)%Z -> (0 <= sumZ (map f l))%Z.
Proof. intros Hf. induction l as [|a l IH]; cbn [map sumZ]; [lia|]. specialize (Hf a). lia. Qed.

Lemma sumZ_ge_nth {A} (f : A -> Z) l i x :
  (forall x, 0 <= f x)%Z -> nth_error l i = Some x -> (f x <= sumZ (map f l))%Z.
Proof.
  intros Hf. revert i; induction l as [|a l IH]; intros [|i]; cbn [nth_error map sumZ]; intros H; try discriminate.
  - inversion H; subst. pose proof (sumZ_nonneg f l Hf). lia.
  - specialize (IH _ H). specialize (Hf a). lia.
Qed.

Lemma sumZ_map_ext {A} (f : A -> Z) (g : A -> A) l : (forall x, f (g x) = f x) -> sumZ (map f (map g l)) = sumZ (map f l).
Proof. intros H. induction l as [|a l IH]; cbn [map sumZ]; [reflexivity|]. rewrite H, IH. reflexivity. Qed.

Lemma sumZ_repeat {A} (f : A -> Z) x n : sumZ (map f (repeat x n)) = (Z.of_nat n * f x)%Z.
Proof. induction n as [|n IH]; cbn [repeat map sumZ]; [lia|]. rewrite IH. lia. Qed.

(** ** Safety invariant of the repaired code *)
Definition ltok (l : listener) : Z :=
  match l_pc l with
  | LRel RCheck | LRel RSwap | LExited => 0
  | LCounted => 2
  | _ => 1
  end%Z.
Definition ctok (p : cpc) : Z := match p with CRunning | CRem RStart => 1 | _ => 0 end%Z.
Definition l_hot (l : listener) : bool := match l_pc l with LRel RCheck | LRel RSwap => true | _ => false end.
Definition c_hot (p : cpc) : bool := match p with CRem RCheck | CRem RSwap => true | _ => false end.
Definition s_hot (p : spc) : bool := match p with SSwap => true | _ => false end.
Definition hot (s : state) : bool :=
  existsb l_hot (ls s) || existsb c_hot (cs s) || existsb s_hot (callers s) || gD s.
Definition c_ok (p : cpc) : bool := match p with CSpawned | CPanicked => false | _ => true end.

Lemma ltok_nonneg l : (0 <= ltok l)%Z.
Proof. unfold ltok. destruct (l_pc l) as [| | | | | | | |[]|]; lia. Qed.
Lemma ctok_nonneg p : (0 <= ctok p)%Z.
Proof. destruct p as [| | |[]|]; cbn; lia. Qed.

Record safe (s : state) : Prop := {
  sf_count : gC s = (sumZ (map ltok (ls s)) + sumZ (map ctok (cs s)))%Z;
  sf_hot : hot s = true -> (gC s <= 0)%Z;
  sf_cok : forallb c_ok (cs s) = true;
  sf_comp : comp s <> KNone -> gD s = true;
  sf_fin : finished s = true -> comp s = KFinished }.

Lemma safe_init nl nc nh nw : safe (init repaired nl nc nh nw).
Proof.
  constructor; cbn.
  - rewrite sumZ_repeat. cbn. lia.
  - unfold hot; cbn. intros H.
    assert (E1 : existsb l_hot (repeat new_listener nl) = false) by (induction nl; cbn; auto).
    assert (E2 : existsb s_hot (repeat SNew nc) = false) by (induction nc; cbn; auto).
    rewrite E1, E2 in H. discriminate.
  - reflexivity.
  - congruence.
  - discriminate.
Qed.

Ltac hot_split H :=
  unfold hot in H; cbn [ls cs callers gD with_ls with_cs with_callers with_C with_S with_init with_hooks with_waiters with_comp swapD] in H;
  repeat (apply orb_true_iff in H; destruct H as [H|H]).

Lemma hot_intro_l s i l : nth_error (ls s) i = Some l -> l_hot l = true -> hot s = true.
Proof. intros H1 H2. unfold hot. rewrite (existsb_nth _ _ _ _ H1 H2). reflexivity. Qed.
Lemma hot_intro_c s i p : nth_error (cs s) i = Some p -> c_hot p = true -> hot s = true.
Proof. intros H1 H2. unfold hot. rewrite (existsb_nth _ _ _ _ H1 H2). rewrite orb_true_r. reflexivity. Qed.
Lemma hot_intro_s s i p : nth_error (callers s) i = Some p -> s_hot p = true -> hot s = true.
Proof. intros H1 H2. unfold hot. rewrite (existsb_nth _ _ _ _ H1 H2). rewrite !orb_true_r. reflexivity. Qed.
Lemma hot_intro_D s : gD s = true -> hot s = true.
Proof. intros H. unfold hot. rewrite H. rewrite !orb_true_r. reflexivity. Qed.

Lemma tok_le_l s i l : safe s -> nth_error (ls s) i = Some l -> (ltok l <= gC s)%Z.
Proof.
  intros S H. rewrite (sf_count _ S).
  pose proof (sumZ_ge_nth ltok _ _ _ ltok_nonneg H). pose proof (sumZ_nonneg ctok (cs s) ctok_nonneg). lia.
Qed.
Lemma tok_le_c s i p : safe s -> nth_error (cs s) i = Some p -> (ctok p <= gC s)%Z.
Proof.
  intros S H. rewrite (sf_count _ S).
  pose proof (sumZ_ge_nth ctok _ _ _ ctok_nonneg H). pose proof (sumZ_nonneg ltok (ls s) ltok_nonneg). lia.
Qed.

(** a hot thread list after a one-place update: the new element is hot or an old one was *)
Lemma hot_upd_l s s' i l l' :
  nth_error (ls s) i = Some l -> ls s' = upd i l' (ls s) -> cs s' = cs s -> callers s' = callers s -> gD s' = gD s ->
  hot s' = true -> l_hot l' = true \/ hot s = true.
Proof.
  intros Hn E1 E2 E3 E4 H. unfold hot in *. rewrite E1, E2, E3, E4 in H.
  repeat (apply orb_true_iff in H; destruct H as [H|H]).
  - apply existsb_upd in H as [H|H]; auto. right. rewrite H. reflexivity.
  - right. rewrite H. rewrite !orb_true_r. reflexivity.
  - right. rewrite H. rewrite !orb_true_r. reflexivity.
  - right. rewrite H. rewrite !orb_true_r. reflexivity.
Qed.
Lemma hot_upd_c s s' i p p' :
  nth_error (cs s) i = Some p -> ls s' = ls s -> cs s' = upd i p' (cs s) -> callers s' = callers s -> gD s' = gD s ->
  hot s' = true -> c_hot p' = true \/ hot s = true.
Proof.
  intros Hn E1 E2 E3 E4 H. unfold hot in *. rewrite E1, E2, E3, E4 in H.
  repeat (apply orb_true_iff in H; destruct H as [H|H]).
  - right. rewrite H. reflexivity.
  - apply existsb_upd in H as [H|H]; auto. right. rewrite H. rewrite !orb_true_r. reflexivity.
  - right. rewrite H. rewrite !orb_true_r. reflexivity.
  - right. rewrite H. rewrite !orb_true_r. reflexivity.
Qed.
Lemma hot_upd_s s s' i p p' :
  nth_error (callers s) i = Some p -> ls s' = ls s -> cs s' = cs s -> callers s' = upd i p' (callers s) -> gD s' = gD s ->
  hot s' = true -> s_hot p' = true \/ hot s = true.
Proof.
  intros Hn E1 E2 E3 E4 H. unfold hot in *. rewrite E1, E2, E3, E4 in H.
  repeat (apply orb_true_iff in H; destruct H as [H|H]).
  - right. rewrite H. reflexivity.
  - right. rewrite H. rewrite !orb_true_r. reflexivity.
  - apply existsb_upd in H as [H|H]; auto. right. rewrite H. rewrite !orb_true_r. reflexivity.
  - right. rewrite H. rewrite !orb_true_r. reflexivity.
Qed.
