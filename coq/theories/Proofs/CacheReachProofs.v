(** C03 — transparency of the cache layer (Model/CacheX.v) under a handler contract that is asked only of the
    (request, override) pairs the server can produce: [reach r ov] holds of every [(prime r0, override r0)].  The
    contract of Proofs/CacheXProofs.v ([run_simx]) quantifies over ALL override URIs, which a handler that echoes the
    request path cannot meet (an arbitrary override would route an unrelated request to it); this is the same simulation
    with the invariant carrying [reach].  [reach := fun _ _ => True] gives [run_simx] back. *)
From KV Require Import Bytes RustInt Range CacheControl Cache CacheProofs Cache04Proofs Fixture CacheX CacheXProofs.
From Coq Require Import ZifyBool ZifyNat ZifyN.
Open Scope N_scope.
Arguments N.add : simpl never. Arguments N.sub : simpl never. Arguments N.mul : simpl never.
Arguments N.eqb : simpl never. Arguments N.ltb : simpl never. Arguments N.leb : simpl never.
Arguments N.of_nat : simpl never. Arguments N.min : simpl never.

Section TransparencyReach.
  Variable hstate : Type.
  Variable compute : hstate -> request -> option (bytes * option bytes) -> bool -> fatx * hstate * list bytes.
  Variable ims_on : bool.
  Variable fix_clear : bool.
  Variable sfilter : N -> bool.
  Variable parse_ims : bytes -> option Z.
  Variable sanitize_ok : request -> bool.
  Variable prime : request -> request.
  Variable override : request -> option (bytes * option bytes).
  Variable negotiate : request -> fatx -> option (N * bytes).
  Variable vary_tuple : request -> option (bytes * option bytes) -> tuple.
  Variable vary_header : request -> option (bytes * option bytes) -> fatx -> list (bytes * bytes).
  Variable clear_alias : request -> option request.

  (** what the Primes can hand to the cache layer *)
  Variable reach : request -> option (bytes * option bytes) -> Prop.
  Hypothesis Hreach : forall r0, reach (prime r0) (override r0).

  Variable cf : request -> option (bytes * option bytes) -> bool -> fatx.
  Hypothesis Hpure : forall hs r ov ok, fst (fst (compute hs r ov ok)) = cf r ov ok.
  Hypothesis contract : forall r ov r' ov',
    reach r ov -> reach r' ov' ->
    get_or_head (rq_method r) = true -> get_or_head (rq_method r') = true ->
    vary_tuple r ov = vary_tuple r' ov' -> rq_path (lookup_req r ov) = rq_path (lookup_req r' ov') ->
    (qmx (cf r ov true) = true -> path_query (lookup_req r ov) = path_query (lookup_req r' ov')) ->
    cf r ov true = cf r' ov' true.
  Hypothesis Herr : forall r ov, f_spref (fx_fat (cf r ov false)) = SP_NONE.

  Notation finishT := (finishX true negotiate vary_header).
  Notation serveC := (serveX hstate compute true ims_on true true true true true sfilter parse_ims sanitize_ok prime override
                             negotiate vary_tuple vary_header).
  Notation serveU := (serveX hstate compute false ims_on true true true true true sfilter parse_ims sanitize_ok prime override
                             negotiate vary_tuple vary_header).
  Notation stepC := (stepX hstate compute true ims_on true true fix_clear true true true sfilter parse_ims sanitize_ok prime
                           override negotiate vary_tuple vary_header clear_alias).
  Notation stepU := (stepX hstate compute false ims_on true true fix_clear true true true sfilter parse_ims sanitize_ok prime
                           override negotiate vary_tuple vary_header clear_alias).
  Notation runC := (runX hstate compute true ims_on true true fix_clear true true true sfilter parse_ims sanitize_ok prime
                         override negotiate vary_tuple vary_header clear_alias).
  Notation runU := (runX hstate compute false ims_on true true fix_clear true true true sfilter parse_ims sanitize_ok prime
                         override negotiate vary_tuple vary_header clear_alias).

  Definition var_okR (k : key) (v : variant) : Prop :=
    exists r ov, reach r ov /\ get_or_head (rq_method r) = true /\ vary_tuple r ov = v_tuple v /\ v_resp v = cf r ov true /\
                 key_okx k (lookup_req r ov) (v_resp v).
  Definition entry_okR (k : key) (e : entryx) : Prop :=
    ex_vars e <> [] /\ forall v, In v (ex_vars e) -> var_okR k v.
  Definition TInvR (c : cachex) : Prop := forall k e, xc_find k c = Some e -> entry_okR k e.

  Lemma TInvR_nil : TInvR [].
  Proof. intros k e H. discriminate. Qed.
  Lemma TInvR_remove k c : TInvR c -> TInvR (xc_remove k c).
  Proof. intros H k0 e0. rewrite xc_find_remove. destruct (key_eqb k0 k); [discriminate|]. apply H. Qed.
  Lemma TInvR_insert k e c : TInvR c -> entry_okR k e -> TInvR (xc_insert k e c).
  Proof.
    intros H He k0 e0. rewrite xc_find_insert. destruct (key_eqb k0 k) eqn:E.
    - intros H0; inversion H0; subst. apply key_eqb_eq in E. subst. exact He.
    - apply H.
  Qed.
  Lemma TInvR_lookup lr c now k res c' : xlookup lr c now = ((k, res), c') -> TInvR c -> TInvR c'.
  Proof.
    intros L I k0 e0 F. destruct (xlookup_cases _ _ _ _ _ _ L) as (_ & Hc & _).
    destruct (Hc k0) as [E | [E _]]; rewrite E in F; [eapply I; exact F | discriminate].
  Qed.

  (** what a hit returns is what the layer below would compute for this request *)
  Lemma hit_is_cfR c now r ov k e c1 v :
    TInvR c -> reach r ov -> xlookup (lookup_req r ov) c now = ((k, Some e), c1) -> get_or_head (rq_method r) = true ->
    xv_find (vary_tuple r ov) (ex_vars e) = Some v -> v_resp v = cf r ov true.
  Proof.
    intros I Rr L GH V. destruct (xlookup_cases _ _ _ _ _ _ L) as (Hk & _ & F & _ & _).
    destruct (I _ _ F) as [_ Hvars]. destruct (xv_find_in _ _ _ V) as [Hin Ht].
    destruct (Hvars v Hin) as (r1 & ov1 & R1 & GH1 & T1 & F1 & K1). rewrite F1. rewrite F1 in K1.
    apply contract; try assumption; [congruence | |].
    - destruct Hk as [-> | ->]; unfold key_okx, key_pq, key_p in K1.
      + destruct (path_query (lookup_req r ov)) as [s i] eqn:PQ. apply path_query_path. congruence.
      + destruct K1 as [K1 _]. exact K1.
    - intros Q. destruct Hk as [-> | ->]; unfold key_okx, key_pq, key_p in K1.
      + destruct (path_query (lookup_req r ov)) as [s i] eqn:PQ. congruence.
      + destruct K1 as [_ K1]. congruence.
  Qed.

  Lemma compute_cfR hs r ov ok x hs' lg : compute hs r ov ok = (x, hs', lg) -> x = cf r ov ok.
  Proof. intros H. rewrite <- (Hpure hs r ov ok), H. reflexivity. Qed.

  Lemma cc_tinvR c1 now r ov ok k found c2 :
    TInvR c1 -> reach r ov -> (ok = true \/ ok = false) ->
    (forall e, found = Some e -> xc_find k c1 = Some e /\ (k = key_pq (lookup_req r ov) \/ k = key_p (lookup_req r ov))) ->
    cache_change true sfilter vary_tuple c1 now r ov ok k found (cf r ov ok) c2 -> TInvR c2.
  Proof.
    intros I Rr Hok Hf CC. destruct CC as [ | A G | e Ef G V A Q ].
    - exact I.
    - assert (Hok' : ok = true).
      { destruct ok; [reflexivity|]. apply may_store_x_iff in A. rewrite Herr in A. tauto. }
      subst ok. assert (GH : get_or_head (rq_method r) = true) by (apply may_store_x_iff in A; tauto).
      apply TInvR_insert; [exact I|]. split; [cbn; discriminate|]. cbn [ex_vars]. intros v [<- | []].
      exists r, ov. cbn [v_tuple v_resp]. repeat split; try assumption; try reflexivity. apply key_ok_insert.
    - apply andb_true_iff in G as [Gok GH]. subst ok. destruct (Hf e Ef) as [F Hk].
      destruct (I _ _ F) as [Hne Hvars].
      apply TInvR_insert; [exact I|]. split; [cbn; discriminate|]. cbn [ex_vars]. intros v [<- | Hin]; [|apply Hvars; exact Hin].
      exists r, ov. cbn [v_tuple v_resp]. repeat split; try assumption; try reflexivity.
      destruct Hk as [-> | ->]; unfold key_okx, key_pq, key_p.
      + destruct (path_query (lookup_req r ov)). reflexivity.
      + split; [reflexivity|]. unfold qm_key_ok, key_p in Q. rewrite orb_false_r in Q. apply negb_true_iff in Q. exact Q.
  Qed.

  Lemma serve_simR c hs now r0 st' rp lg cU hsU :
    serveC (c, hs) now r0 = (st', rp, lg) -> TInvR c -> no_imsx ims_on prime r0 ->
    TInvR (fst st') /\ replyx_equiv rp (snd (fst (serveU (cU, hsU) now r0))).
  Proof.
    intros H I Hims. pose proof (Hreach r0) as Rr.
    set (r := prime r0) in *. set (ov := override r0) in *. set (ok := sanitize_ok r0) in *.
    assert (HU : snd (fst (serveU (cU, hsU) now r0)) = finishT r ov (cf r ov ok) false false true).
    { unfold serveX. cbn [negb]. fold r ov ok. destruct (compute hsU r ov ok) as [[x h] l] eqn:C.
      cbn [fst snd]. apply compute_cfR in C. subst. reflexivity. }
    rewrite HU. clear HU. split.
    - (* the invariant *)
      destruct (serve_cache_update _ _ _ _ _ _ _ _ _ _ _ _ _ _ _ _ _ _ _ _ H) as (k & found & c1 & L & CC).
      fold r ov ok in L, CC. rewrite Hpure in CC.
      pose proof (TInvR_lookup _ _ _ _ _ _ L I) as I1.
      apply (cc_tinvR c1 now r ov ok k found (fst st') I1 Rr); [destruct ok; auto | | exact CC].
      intros e Ef. destruct (xlookup_cases _ _ _ _ _ _ L) as (Hk & _ & Hres). rewrite Ef in Hres.
      split; [apply Hres | exact Hk].
    - (* the reply *)
      unfold serveX in H. cbn [negb] in H. fold r ov ok in H.
      destruct (xlookup (lookup_req r ov) c now) as [[k found] c1] eqn:L.
      assert (Hmiss : forall st2 rp2 lg2,
                 missX hstate compute true ims_on true true sfilter negotiate vary_tuple vary_header c1 hs now r ov ok = (st2, rp2, lg2) ->
                 replyx_equiv rp2 (finishT r ov (cf r ov ok) false false true)).
      { intros st2 rp2 lg2 M. unfold missX in M. destruct (compute hs r ov ok) as [[x hs'] lg'] eqn:C.
        apply compute_cfR in C. subst x.
        destruct (may_store_x true sfilter (rq_method r) (cf r ov ok)); inversion M; subst; apply finish_equiv_x. }
      destruct found as [e|]; [|eapply Hmiss; exact H].
      destruct (ok && get_or_head (rq_method r)) eqn:G; [|eapply Hmiss; exact H].
      apply andb_true_iff in G as [Gok GH]. rewrite Gok in *.
      assert (Hno : (match (if ims_on then match header (B "if-modified-since") r with
                                             | Some v => parse_ims v | None => None end else None) with
                     | Some t => ims_fresh t (ex_created e) | None => false end) = false).
      { destruct Hims as [-> | Hh]; [reflexivity|]. fold r in Hh. rewrite Hh. destruct ims_on; reflexivity. }
      rewrite Hno in H. cbn [andb] in H. clear Hno.
      destruct (xv_find (vary_tuple r ov) (ex_vars e)) as [v|] eqn:V.
      + inversion H; subst. rewrite (hit_is_cfR _ _ _ _ _ _ _ _ I Rr L GH V). apply finish_equiv_x.
      + unfold vary_missingX in H. destruct (compute hs r ov true) as [[x hs'] lg'] eqn:C. apply compute_cfR in C. subst x.
        destruct (may_store_x true sfilter (rq_method r) (cf r ov true) && _); inversion H; subst; apply finish_equiv_x.
  Qed.

  Lemma step_simR c hs cU hsU now o :
    TInvR c -> op_no_imsx ims_on prime o ->
    let '(stC, nowC, obC) := stepC (c, hs) now o in
    let '(stU, nowU, obU) := stepU (cU, hsU) now o in
    TInvR (fst stC) /\ nowC = nowU /\ obsx_equiv obC obU.
  Proof.
    intros I Hno. destruct o as [r | r | | ms]; cbn [stepX].
    - destruct (serveC (c, hs) now r) as [[stC rp] lg] eqn:SC.
      destruct (serveU (cU, hsU) now r) as [[stU rpU] lgU] eqn:SU.
      destruct (serve_simR _ _ _ _ _ _ _ cU hsU SC I Hno) as [I' E]. rewrite SU in E. cbn [fst snd] in E.
      split; [exact I' | split; [reflexivity | exact E]].
    - cbn [fst]. split; [| split; [reflexivity | exact Logic.I]]. unfold xclear_page, xclear_uri.
      destruct (if fix_clear then clear_alias r else None); repeat apply TInvR_remove; exact I.
    - cbn [fst]. split; [| split; [reflexivity | exact Logic.I]]. apply TInvR_nil.
    - cbn [fst]. split; [| split; [reflexivity | exact Logic.I]]. exact I.
  Qed.

  Lemma run_simR ops : forall c hs cU hsU now,
    TInvR c -> Forall (op_no_imsx ims_on prime) ops ->
    Forall2 obsx_equiv (runC (c, hs) now ops) (runU (cU, hsU) now ops).
  Proof.
    induction ops as [|o ops IH]; intros c hs cU hsU now I Hno; cbn [runX]; [constructor|].
    inversion Hno as [|? ? Ho Hrest]; subst.
    pose proof (step_simR c hs cU hsU now o I Ho) as S.
    destruct (stepC (c, hs) now o) as [[[c' hs'] nowC] obC].
    destruct (stepU (cU, hsU) now o) as [[[cU' hsU'] nowU] obU].
    destruct S as (I' & En & Eo). subst nowU. constructor; [exact Eo|]. apply IH; assumption.
  Qed.

  (** an entry stored for one path / query / method class / variant is never served for another *)
  Lemma hit_same_class_R c now lr k e c1 v :
    TInvR c -> xlookup lr c now = ((k, Some e), c1) -> xv_find (v_tuple v) (ex_vars e) = Some v ->
    exists r1 ov1, reach r1 ov1 /\ get_or_head (rq_method r1) = true /\ vary_tuple r1 ov1 = v_tuple v /\ v_resp v = cf r1 ov1 true /\
                   rq_path (lookup_req r1 ov1) = rq_path lr /\
                   (qmx (v_resp v) = true -> path_query (lookup_req r1 ov1) = path_query lr).
  Proof.
    intros I L V. destruct (xlookup_cases _ _ _ _ _ _ L) as (Hk & _ & F & _ & _).
    destruct (I _ _ F) as [_ Hvars]. destruct (xv_find_in _ _ _ V) as [Hin _].
    destruct (Hvars v Hin) as (r1 & ov1 & R1 & GH1 & T1 & F1 & K1). exists r1, ov1. repeat split; try assumption.
    - destruct Hk as [-> | ->]; unfold key_okx, key_pq, key_p in K1.
      + destruct (path_query lr) as [s i] eqn:PQ. apply path_query_path. congruence.
      + destruct K1 as [K1 _]. exact K1.
    - intros Q. destruct Hk as [-> | ->]; unfold key_okx, key_pq, key_p in K1.
      + destruct (path_query lr) as [s i] eqn:PQ. congruence.
      + destruct K1 as [_ K1]. congruence.
  Qed.
End TransparencyReach.
