(** C05 — lemmas: the rules [rules_fix] gives a page are those of the most specific rule of the host's rule set. *)
From Coq Require Import List Bool Arith Lia.
From KV Require Import Bytes RustInt Range CacheControl Cache Fixture CacheX CacheRules RuleSetStd RuleSet RuleSetProofs CacheRulesProofs RustStd Vary VaryRules.
Import ListNotations.
Open Scope N_scope.

Lemma rules_fix_rules_for_x vr p : rules_fix vr p = map conv_rule (rules_for_x p vr).
Proof.
  unfold rules_fix, rules_for_x. apply map_ext. intros [[n xf] d]. reflexivity.
Qed.

Lemma rules_fix_resolve vr p : rules_fix vr p = map conv_rule (rules_or_none (resolve vr p)).
Proof. rewrite rules_fix_rules_for_x, rules_for_x_resolve. reflexivity. Qed.

Lemma rules_fix_exact_wins vr p rs :
  is_wild p = false -> last_added vr p = Some rs -> rules_fix vr p = map conv_rule rs.
Proof. intros W L. rewrite rules_fix_rules_for_x, (exact_rule_wins vr p rs W L). reflexivity. Qed.

Lemma rules_fix_longest_pattern_wins vr p q rs :
  (forall x, In x (map fst vr) -> covers x p = true -> is_wild x = true /\ (length x <= length q)%nat) ->
  is_wild q = true -> covers q p = true -> last_added vr q = Some rs -> rules_fix vr p = map conv_rule rs.
Proof. intros H W C L. rewrite rules_fix_rules_for_x, (longest_pattern_wins vr p q rs H W C L). reflexivity. Qed.

(** a path no rule covers has no vary rules: its variants are keyed by the empty tuple *)
Lemma rules_fix_uncovered vr p :
  (forall x, In x (map fst vr) -> covers x p = false) -> rules_fix vr p = [].
Proof.
  intros H. rewrite rules_fix_resolve.
  replace (resolve vr p) with (@None (list vrule)); [reflexivity|].
  symmetry. apply resolve_none. exact H.
Qed.

(** the seeded change C05-9: ordered by the length of the pattern text alone (stable), "/docs*" (6 bytes) comes before the
    exact rule "/docs" (5 bytes) whatever the order of addition, and "/doc*" (5 bytes) before it when it was added first:
    the page "/docs" is then keyed by x-b, and its accept-language variants sv / en get ONE key (the one cached first is
    served for the other), although the page's own rule tells them apart *)
Lemma length_only_shadows_exact_refuted_w :
  map ru_name (rules_fix w9_star (B "/docs")) = [B "accept-language"] /\
  map ru_name (rules_fix (rev w9_star) (B "/docs")) = [B "accept-language"] /\
  map ru_name (rules_fix w9_tie (B "/docs")) = [B "accept-language"] /\
  map ru_name (rules_fix_len_only w9_star (B "/docs")) = [B "x-b"] /\
  map ru_name (rules_fix_len_only (rev w9_star) (B "/docs")) = [B "x-b"] /\
  map ru_name (rules_fix_len_only w9_tie (B "/docs")) = [B "x-b"] /\
  headers_for_request (rules_fix w9_tie (B "/docs")) (w9_req (B "sv")) <> headers_for_request (rules_fix w9_tie (B "/docs")) (w9_req (B "en")) /\
  headers_for_request (rules_fix_len_only w9_tie (B "/docs")) (w9_req (B "sv")) =
  headers_for_request (rules_fix_len_only w9_tie (B "/docs")) (w9_req (B "en")) /\
  headers_for_request (rules_fix_len_only w9_star (B "/docs")) (w9_req (B "sv")) =
  headers_for_request (rules_fix_len_only w9_star (B "/docs")) (w9_req (B "en")).
Proof. vm_compute. repeat split; try reflexivity. intros H. discriminate H. Qed.

(** a rule header that is present with an EMPTY value is a text value like any other: its component is the
    transformation of the empty string, not the rule's default *)
Lemma empty_value_transformed ref r :
  header_get (ru_name ref) r = Some [] -> header_for ref r = (ru_name ref, ru_xf ref []).
Proof. intros H. unfold header_for. rewrite H. reflexivity. Qed.

(** hence a request with the empty value and one without the header select DIFFERENT variants whenever the
    transformation of "" is not the default *)
Lemma empty_and_absent_differ ref r r' :
  header_get (ru_name ref) r = Some [] -> header_get (ru_name ref) r' = None -> ru_xf ref [] <> ru_default ref ->
  header_for ref r <> header_for ref r'.
Proof.
  intros H H' D E. rewrite (empty_value_transformed ref r H) in E. unfold header_for in E. rewrite H' in E.
  inversion E as [E1]. exact (D E1).
Qed.

(** the seeded change C03-11 on the model: with empty values skipped, the request with `accept-language:` (empty) and the
    one without the header get ONE key (default "lo"), although the handler — a function of the transformed header
    [xform 1 ""] = "none" — answers them differently *)
Lemma empty_as_default_refuted_w :
  header_for w10_rule w10_empty = (B "accept-language", B "none") /\
  header_for w10_rule w10_absent = (B "accept-language", B "lo") /\
  header_for_skip_empty w10_rule w10_empty = header_for_skip_empty w10_rule w10_absent.
Proof. vm_compute. repeat split; reflexivity. Qed.
