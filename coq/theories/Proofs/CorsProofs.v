(** C13 — proofs about Model/Cors.v. *)
From Coq Require Import ZifyBool ZifyNat ZifyN Lia.
From KV Require Import Bytes RustInt Cache Fixture RuleSet RuleSetProofs Cors.
Open Scope N_scope.
