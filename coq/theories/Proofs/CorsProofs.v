(** C13 — proofs about Model/Cors.v. *)
From Coq Require Import ZifyBool ZifyNat ZifyN Lia.
From KV Require PathSan PathSanProofs.
From KV Require Import Bytes RustInt Cache Fixture RuleSet RuleSetProofs Cors.
Open Scope N_scope.

(** ---- strings ---- *)
Lemma find_sub_split p s i : find_sub p s = Some i -> s = firstn i s ++ p ++ skipn (i + length p) s.
Proof.
  revert i; induction s as [|c r IH]; intros i; cbn [find_sub].
  - destruct (starts_with p []) eqn:E; [|discriminate].
    intros H; inversion H; subst. apply starts_with_app in E as [q Hq].
    destruct p; [reflexivity|discriminate].
  - destruct (starts_with p (c :: r)) eqn:E.
    + intros H; inversion H; subst. apply starts_with_app in E as [q Hq].
      cbn [firstn app plus]. rewrite Hq at 1. f_equal.
      rewrite Hq. rewrite skipn_app, Nat.sub_diag, skipn_all. reflexivity.
    + destruct (find_sub p r) as [j|] eqn:F; [|discriminate].
      intros H; inversion H; subst. cbn [firstn plus skipn app]. f_equal. apply IH. reflexivity.
Qed.

Lemma split_once_sound o x y : split_once_sep o = Some (x, y) -> o = x ++ B "://" ++ y.
Proof.
  unfold split_once_sep. destruct (find_sub (B "://") o) as [i|] eqn:F; [|discriminate].
  intros H; inversion H; subst. apply find_sub_split in F. exact F.
Qed.

Lemma find_sub_nocolon s a : mem_byte c_colon s = false -> find_sub (B "://") (s ++ B "://" ++ a) = Some (length s).
Proof.
  induction s as [|c r IH]; intros H.
  - reflexivity.
  - cbn [mem_byte] in H. apply orb_false_iff in H as [H1 H2].
    cbn [app find_sub length]. replace (starts_with (B "://") (c :: r ++ B "://" ++ a)) with false.
    + rewrite (IH H2). reflexivity.
    + symmetry. change (B "://") with (c_colon :: B "//"). cbn [starts_with].
      rewrite N.eqb_sym, H1. reflexivity.
Qed.

Lemma firstn_app_exact {A} (l r : list A) : firstn (length l) (l ++ r) = l.
Proof. rewrite firstn_app, Nat.sub_diag, firstn_all. cbn. apply app_nil_r. Qed.
Lemma skipn_app_exact {A} (l r : list A) : skipn (length l) (l ++ r) = r.
Proof. rewrite skipn_app, Nat.sub_diag, skipn_all. reflexivity. Qed.

Lemma beq_sym a c : beq a c = beq c a.
Proof.
  destruct (beq a c) eqn:E1, (beq c a) eqn:E2; try reflexivity.
  - apply beq_eq in E1; subst. rewrite beq_refl in E2. discriminate.
  - apply beq_eq in E2; subst. rewrite beq_refl in E1. discriminate.
Qed.

(** the same-origin test is "the header is literally scheme://authority" *)
Lemma ipo_literal o s a : mem_byte c_colon s = false ->
  is_part_of_origin o (Some s) (Some a) = beq o (s ++ B "://" ++ a).
Proof.
  intros Hs. unfold is_part_of_origin.
  destruct (beq o (s ++ B "://" ++ a)) eqn:E.
  - apply beq_eq in E; subst. unfold split_once_sep. rewrite (find_sub_nocolon s a Hs).
    rewrite firstn_app_exact.
    replace (length s + 3)%nat with (length (s ++ B "://")) by (rewrite app_length; reflexivity).
    rewrite app_assoc, skipn_app_exact. cbn [opt_beq]. rewrite !beq_refl. reflexivity.
  - destruct (split_once_sep o) as [[x y]|] eqn:S; [|reflexivity].
    apply split_once_sound in S. cbn [opt_beq].
    destruct (beq x s) eqn:E1; [|reflexivity]. cbn [negb].
    destruct (beq a y) eqn:E2; [|reflexivity].
    apply beq_eq in E1, E2; subst. rewrite beq_refl in E. discriminate.
Qed.

Lemma existsb_pointwise {A} (f g : A -> bool) l : (forall x, f x = g x) -> existsb f l = existsb g l.
Proof. intros H; induction l as [|x r IH]; cbn [existsb]; [reflexivity|]. rewrite H, IH. reflexivity. Qed.

(** ---- the code's check is the property's decision function ---- *)

(** one path: the code's inner check and [cors_spec] for an origin that is not the request's own *)
Lemma spec_one_path parse get m s a p o ou :
  to_str_ok o && beq o (s ++ B "://" ++ a) = false -> parse o = Some ou ->
  cors_spec parse get m s a p (Some o)
  = match (match get p with Some cal => al_check cal ou | None => None end) with
    | Some allowed => if method_allowed (fst (fst allowed)) m then VAllow allowed else VRefuse
    | None => VRefuse
    end.
Proof.
  intros Hn Hp. unfold cors_spec. rewrite Hn, Hp.
  destruct (get p) as [al|]; [|reflexivity].
  unfold al_check, al_grant.
  rewrite (existsb_pointwise (fun allowed => origin_matches allowed ou)
             (fun a0 => opt_beq (Some (ao_scheme a0)) (u_scheme ou) && opt_beq (Some (ao_host a0)) (u_host ou)
                        && opt_neq (ao_port a0) (u_port ou))).
  2:{ intros x. unfold origin_matches.
      destruct (opt_beq (Some (ao_scheme x)) (u_scheme ou)), (opt_beq (Some (ao_host x)) (u_host ou)),
               (opt_neq (ao_port x) (u_port ou)); reflexivity. }
  destruct (al_all al); cbn [orb fst].
  - unfold method_allowed. destruct (al_methods al) as [l|]; [destruct (mem_N m l)|]; reflexivity.
  - destruct (existsb _ (al_allowed al)); cbn [andb fst]; [|reflexivity].
    unfold method_allowed. destruct (al_methods al) as [l|]; [destruct (mem_N m l)|]; reflexivity.
Qed.

Lemma check_is_spec parse norm get m s a p o : mem_byte c_colon s = false ->
  check_cors_request parse is_part_of_origin norm get m (Some s) (Some a) p o
  = verdict_grant (cors_spec2 norm parse get m s a p o).
Proof.
  intros Hs. unfold check_cors_request, cors_spec2. destruct o as [o|]; [|reflexivity].
  rewrite (ipo_literal o s a Hs).
  destruct (to_str_ok o && beq o (s ++ B "://" ++ a)) eqn:Hn.
  - unfold cors_spec. rewrite Hn. reflexivity.
  - destruct (parse o) as [ou|] eqn:Hp.
    2:{ unfold cors_spec. rewrite Hn, Hp. destruct (get p); reflexivity. }
    rewrite (spec_one_path parse get m s a p o ou Hn Hp), (spec_one_path parse get m s a (norm p) o ou Hn Hp).
    destruct (beq (norm p) p); cbn [negb andb].
    + destruct (match get p with Some cal => al_check cal ou | None => None end) as [al1|]; [|reflexivity].
      destruct (method_allowed (fst (fst al1)) m); reflexivity.
    + destruct (match get (norm p) with Some cal => al_check cal ou | None => None end) as [al2|].
      * destruct (method_allowed (fst (fst al2)) m).
        -- destruct (match get p with Some cal => al_check cal ou | None => None end) as [al1|]; [|reflexivity].
           destruct (method_allowed (fst (fst al1)) m); reflexivity.
        -- destruct (match get p with Some cal => al_check cal ou | None => None end) as [al1|]; [|reflexivity].
           destruct (method_allowed (fst (fst al1)) m); reflexivity.
      * destruct (match get p with Some cal => al_check cal ou | None => None end) as [al1|]; [|reflexivity].
        destruct (method_allowed (fst (fst al1)) m); reflexivity.
Qed.

(** a request that is let through is allowed by the rule of the path as requested and by the rule of the
    path the file system resolves it to *)
Lemma spec2_both norm parse get m s a p o :
  cors_spec2 norm parse get m s a p o <> VRefuse ->
  cors_spec parse get m s a p o <> VRefuse /\ cors_spec parse get m s a (norm p) o <> VRefuse.
Proof.
  unfold cors_spec2. intros H.
  destruct (cors_spec parse get m s a p o) as [|g|] eqn:E1.
  - split; [discriminate|]. unfold cors_spec in *. destruct o as [o|]; [|discriminate].
    destruct (to_str_ok o && beq o (s ++ B "://" ++ a)); [discriminate|].
    destruct (get p), (parse o); try discriminate. destruct (_ && _) in E1; discriminate.
  - split; [discriminate|]. destruct (beq (norm p) p) eqn:Eb.
    + apply beq_eq in Eb. rewrite Eb, E1. discriminate.
    + destruct (cors_spec parse get m s a (norm p) o); [discriminate|discriminate|congruence].
  - congruence.
Qed.

(** ... and the file a request path designates lies at the resolved path *)
Lemma find_file_key rel files p c : find_file rel files = Some (p, c) -> p = rel.
Proof.
  induction files as [|[q d] r IH]; cbn [find_file]; [discriminate|].
  destruct (beq q rel) eqn:E; [|exact IH]. intros H; inversion H; subst. apply beq_eq in E. exact E.
Qed.
Lemma fs_find_resolved files p rel content :
  fs_find files p = Some (rel, content) -> resolved_path p = c_slash :: rel.
Proof.
  unfold fs_find, resolved_path, PathSan.util_percent_decode, PathSan.decoded_for_use.
  destruct (PathSan.utf8_valid (PathSan.percent_decode p)); [|discriminate].
  destruct (mem_byte 0 (PathSan.percent_decode p)); [discriminate|].
  destruct (collapse_slashes (PathSan.percent_decode p) false) as [|c r]; [discriminate|].
  destruct (c =? c_slash) eqn:E; [|discriminate]. apply N.eqb_eq in E. subst c.
  intros H. apply find_file_key in H. subst. reflexivity.
Qed.
Lemma served_file_rule parse get m s a p o files rel content :
  fs_find files p = Some (rel, content) ->
  cors_spec2 resolved_path parse get m s a p o <> VRefuse ->
  cors_spec parse get m s a (c_slash :: rel) o <> VRefuse.
Proof.
  intros Hf Hv. apply spec2_both in Hv as [_ Hv]. rewrite (fs_find_resolved files p rel content Hf) in Hv. exact Hv.
Qed.

(** ---- internal routes and [uri_redirect] ---- *)
Lemma internal_contains p : starts_with (B "/./") p = true -> contains_sub (B "./") p = true.
Proof.
  change (B "/./") with [47; 46; 47]. intros H.
  destruct p as [|a [|b [|c r]]]; cbn [starts_with] in H.
  - discriminate.
  - apply andb_true_iff in H as [_ H]. discriminate.
  - apply andb_true_iff in H as [_ H]. apply andb_true_iff in H as [_ H]. discriminate.
  - apply andb_true_iff in H as [Ha H]. apply andb_true_iff in H as [Hb H]. apply andb_true_iff in H as [Hc _].
    apply N.eqb_eq in Ha, Hb, Hc; subst. reflexivity.
Qed.

Lemma internal_app p s :
  contains_sub (B "./") p = false ->
  starts_with (B "/./") s = false -> starts_with (B "./") s = false -> starts_with (B "/") s = false ->
  starts_with (B "/./") (p ++ s) = false.
Proof.
  intros Hp H3 H2 H1. destruct p as [|a [|b [|c r]]].
  - exact H3.
  - change (B "/./") with (47 :: B "./"). cbn [app starts_with]. rewrite H2. apply andb_false_r.
  - change (B "/./") with (47 :: 46 :: B "/"). cbn [app starts_with]. rewrite H1. rewrite !andb_false_r. reflexivity.
  - destruct (starts_with (B "/./") ((a :: b :: c :: r) ++ s)) eqn:E; [|reflexivity].
    assert (starts_with (B "/./") (a :: b :: c :: r) = true) as Hi.
    { change (B "/./") with [47; 46; 47] in *. cbn [app starts_with] in *. exact E. }
    apply internal_contains in Hi. congruence.
Qed.

Lemma uri_redirect_fields r :
  rq_method (uri_redirect r) = rq_method r /\ rq_query (uri_redirect r) = rq_query r /\
  rq_headers (uri_redirect r) = rq_headers r /\ rq_addr (uri_redirect r) = rq_addr r.
Proof.
  unfold uri_redirect. destruct (rev (rq_path r)) as [|c l]; [repeat split|].
  destruct (c =? 46); [repeat split|]. destruct (c =? 47); repeat split.
Qed.

Lemma no_dot_slash_external p : contains_sub (B "./") p = false -> starts_with (B "/./") p = false.
Proof.
  intros H. destruct (starts_with (B "/./") p) eqn:E; [|reflexivity]. apply internal_contains in E. congruence.
Qed.

Lemma uri_redirect_external r : contains_sub (B "./") (rq_path r) = false -> starts_with (B "/./") (rq_path (uri_redirect r)) = false.
Proof.
  intros Hc. pose proof (no_dot_slash_external _ Hc) as He.
  unfold uri_redirect. destruct (rev (rq_path r)) as [|c l]; [exact He|].
  destruct (c =? 46); [cbn [rq_path]; apply internal_app; [exact Hc|reflexivity..]|].
  destruct (c =? 47); [cbn [rq_path]; apply internal_app; [exact Hc|reflexivity..]|exact He].
Qed.

(** a path that passes [sanitize_request] (tested on the percent-decoded path) has no "./" as spelled either *)
Lemma sanitize_path r : sanitize_ok_pct r = true -> contains_sub (B "./") (rq_path r) = false.
Proof.
  unfold sanitize_ok_pct. intros H. apply andb_true_iff in H as [H _].
  destruct (PathSan.sanitize_path (rq_path r)) as [[]| |] eqn:E; try discriminate.
  destruct (PathSanProofs.internal_routes_lemma _ E) as [Hn _].
  destruct (contains_sub (B "./") (rq_path r)) eqn:C; [|reflexivity]. exfalso. apply Hn.
  apply PathSanProofs.has_dot_slash_iff. rewrite PathSanProofs.has_dot_slash_b_contains. exact C.
Qed.

(** ---- the prime chain ---- *)
Section Primes.
  Variable parse : bytes -> option uparts.
  Variable norm : bytes -> bytes.
  Variable denied_sp : N.
  Variable filt : N -> bool.
  Variable conn_scheme : bytes.
  Variable cfg : ccfg.
  Hypothesis Hscheme : mem_byte c_colon conn_scheme = false.
  Notation ipo := is_part_of_origin.
  Notation verdict_of := (req_verdict parse norm conn_scheme cfg).

  Definition gate_id : prime_id := if cc_with_cors cfg then P_with_cors else P_deny.
  Lemma prime_list_shape :
    prime_list cfg = (16777216%Z, gate_id) :: (16777215%Z, P_options)
                     :: (if cc_new cfg then [((-100)%Z, P_uri_redirect)] else []).
  Proof. unfold prime_list, gate_id. destruct (cc_new cfg), (cc_with_cors cfg); reflexivity. Qed.

  Definition ov_of (r : request) : option bytes :=
    if pf_shape r then Some OV_OPTIONS
    else match verdict_of r with VRefuse => Some OV_FAIL | _ => None end.
  (** the requested path is kept when [uri_redirect] rewrites the URI *)
  Definition orig_of (r : request) : option bytes :=
    if cc_new cfg then (if beq (rq_path (uri_redirect r)) (rq_path r) then None else Some (rq_path r)) else None.

  (** the check on the requested path, with any request that has the same method and headers *)
  Lemma req_check_spec r r' a : header H_HOST r = Some a ->
    rq_method r' = rq_method r -> rq_headers r' = rq_headers r ->
    req_check parse ipo norm conn_scheme (effective_rules cfg) (rq_path r) r' = verdict_grant (verdict_of r).
  Proof.
    intros Ha Hm Hh. unfold req_check, req_verdict, header. rewrite Hm, Hh. fold (header H_HOST r). fold (header H_ORIGIN r).
    rewrite Ha. apply check_is_spec. exact Hscheme.
  Qed.

  Lemma call_gate r a : header H_HOST r = Some a ->
    call_prime parse ipo norm true conn_scheme cfg gate_id None r
    = match verdict_of r with VRefuse => Some (OV_FAIL, None) | _ => None end.
  Proof.
    intros Ha. unfold gate_id. destruct (cc_with_cors cfg) eqn:W.
    - cbn [call_prime cors_path]. pose proof (req_check_spec r r a Ha eq_refl eq_refl) as H. unfold effective_rules in H. rewrite W in H.
      rewrite H. destruct (verdict_of r); reflexivity.
    - cbn [call_prime]. unfold req_verdict, effective_rules, cors_spec2, cors_spec. rewrite W, Ha.
      destruct (header H_ORIGIN r) as [o|]; [|reflexivity].
      rewrite (ipo_literal o conn_scheme a Hscheme).
      destruct (to_str_ok o); cbn [andb].
      + destruct (beq o (conn_scheme ++ B "://" ++ a)); [reflexivity|]. cbn [rs_get]. destruct (parse o); reflexivity.
      + cbn [rs_get]. destruct (parse o); reflexivity.
  Qed.

  Lemma call_options orig r :
    call_prime parse ipo norm true conn_scheme cfg P_options orig r = if pf_shape r then Some (OV_OPTIONS, None) else None.
  Proof. reflexivity. Qed.

  Lemma resolve_tail r0 u : contains_sub (B "./") (rq_path r0) = false ->
    resolve_prime parse ipo norm true conn_scheme cfg (if cc_new cfg then [((-100)%Z, P_uri_redirect)] else []) r0 u None
    = (rw cfg r0, u, orig_of r0).
  Proof.
    intros Hs. unfold rw, orig_of. destruct (cc_new cfg); [|reflexivity].
    cbn [resolve_prime call_prime].
    destruct (beq (rq_path (uri_redirect r0)) (rq_path r0)) eqn:E.
    - f_equal. f_equal. apply beq_eq in E. destruct (uri_redirect_fields r0) as (Hm & Hq & Hh & Had).
      destruct r0 as [m p q h ad], (uri_redirect (mkReq m p q h ad)) as [m' p' q' h' ad'] eqn:U; cbn in *; subst; reflexivity.
    - rewrite (uri_redirect_external r0 Hs).
      destruct (uri_redirect_fields r0) as (Hm & Hq & Hh & Had).
      f_equal. f_equal. destruct (uri_redirect r0) as [m' p' q' h' ad'] eqn:U; cbn in *; subst; reflexivity.
  Qed.

  Lemma resolve_prime_eq r0 a :
    header H_HOST r0 = Some a -> sanitize_ok_pct r0 = true ->
    primed parse ipo norm true conn_scheme cfg r0 = (rw cfg r0, ov_of r0, orig_of r0).
  Proof.
    intros Ha Hs. unfold primed. rewrite prime_list_shape. cbn [resolve_prime].
    rewrite (call_gate r0 a Ha), call_options. unfold ov_of.
    destruct (verdict_of r0); destruct (pf_shape r0);
      repeat (change (starts_with (B "/./") OV_FAIL) with true; change (starts_with (B "/./") OV_OPTIONS) with true; cbv iota);
      apply resolve_tail, sanitize_path, Hs.
  Qed.

  (** the path the CORS rules are looked up with is the requested one *)
  Lemma cors_path_orig r0 : cors_path true (orig_of r0) (rw cfg r0) = rq_path r0.
  Proof.
    unfold cors_path, orig_of, rw. destruct (cc_new cfg); [|reflexivity].
    destruct (beq (rq_path (uri_redirect r0)) (rq_path r0)) eqn:E; [apply beq_eq in E; exact E|reflexivity].
  Qed.
End Primes.

(** ---- the cache layer on internal routes ---- *)
Lemma key_eqb_internal k k' : key_eqb k k' = true -> key_internal k' = key_internal k.
Proof.
  destruct k as [p|s i], k' as [p'|s' i']; cbn [key_eqb]; try discriminate.
  - intros H. apply beq_eq in H; subst. reflexivity.
  - intros H. apply andb_true_iff in H as [H1 H2]. apply beq_eq in H1. apply Nat.eqb_eq in H2. subst. reflexivity.
Qed.

Lemma c_find_internal c k : no_internal c -> key_internal k = true -> c_find k c = None.
Proof.
  intros Hc Hk. induction c as [|[k' e] r IH]; [reflexivity|].
  cbn [c_find]. destruct (key_eqb k k') eqn:E.
  - apply key_eqb_internal in E. rewrite (Hc k' e (or_introl eq_refl)) in E. congruence.
  - apply IH. intros k0 e0 Hin. apply (Hc k0 e0). right. exact Hin.
Qed.

Lemma lookup_internal c now r u : no_internal c -> starts_with (B "/./") u = true ->
  lookup (key_request r (Some u)) c now = ((KPath u, None), c).
Proof.
  intros Hc Hu. unfold lookup, key_request, key_pq, key_p, path_query, get_item. cbn [rq_query rq_path].
  rewrite (c_find_internal c (KPathQuery u (length u)) Hc) by (cbn [key_internal]; rewrite firstn_all; exact Hu).
  rewrite (c_find_internal c (KPath u) Hc) by exact Hu. reflexivity.
Qed.

Lemma find_marker_internal u hs i acc :
  (forall p sp, In (p, sp) hs -> starts_with (B "/./") p = false) -> starts_with (B "/./") u = true ->
  find_marker u hs i acc = acc.
Proof.
  revert i acc. induction hs as [|[q sp] r IH]; intros i acc Hh Hu; [reflexivity|].
  cbn [find_marker]. destruct (beq q u) eqn:E.
  - apply beq_eq in E; subst. rewrite (Hh u sp (or_introl eq_refl)) in Hu. discriminate.
  - apply IH; [|exact Hu]. intros p sp' Hin. apply (Hh p sp'). right. exact Hin.
Qed.

(** the refusal and the preflight response are never let into the cache, whatever the status filter *)
Lemma wants_cache_denied filt b m : wants_cache_f filt b m denied_fat = false.
Proof.
  unfold wants_cache_f. change (pref_caches (f_spref denied_fat)) with false.
  rewrite andb_false_r. reflexivity.
Qed.
Lemma wants_cache_options filt b m g : wants_cache_f filt b m (options_fat g) = false.
Proof.
  destruct g as [[[ms hs] t]|]; [|apply wants_cache_denied].
  unfold wants_cache_f. change (pref_caches (f_spref (options_fat (Some (ms, hs, t))))) with false.
  rewrite andb_false_r. reflexivity.
Qed.

Section Main.
  Variable parse : bytes -> option uparts.
  Variable filt : N -> bool.
  Variable conn_scheme : bytes.
  Variable cfg : ccfg.
  Variable app : app_handlers.
  Hypothesis Hscheme : mem_byte c_colon conn_scheme = false.
  Hypothesis Hext : app_external app.
  Hypothesis Hign : app_ignores_origin app.
  Notation ipo := is_part_of_origin.
  Notation norm := resolved_path.
  Notation verdict_of := (req_verdict parse norm conn_scheme cfg).
  Notation respond' := (respond parse ipo norm true SP_NONE filt conn_scheme cfg app).
  Notation compute' := (compute_ov parse ipo norm SP_NONE conn_scheme cfg app).
  Notation serve_core' := (serve_core parse ipo norm SP_NONE filt conn_scheme cfg app).

  Lemma compute_fail cp r : compute' cp tt r (Some OV_FAIL) true = (denied_fat, tt, []).
  Proof.
    unfold compute_ov. cbn [negb]. rewrite (Hext OV_FAIL r eq_refl). reflexivity.
  Qed.
  Lemma compute_options cp r :
    compute' cp tt r (Some OV_OPTIONS) true
    = (options_fat (req_check parse ipo norm conn_scheme (effective_rules cfg) cp r), tt, []).
  Proof.
    unfold compute_ov. cbn [negb]. rewrite (Hext OV_OPTIONS r eq_refl). reflexivity.
  Qed.

  Lemma serve_core_internal cp c now r u f lg :
    no_internal c -> starts_with (B "/./") u = true ->
    compute' cp tt r (Some u) true = (f, tt, lg) ->
    wants_cache_f filt (cc_cache cfg) (rq_method r) f = false ->
    serve_core' cp (c, tt) now true r (Some u)
    = ((c, tt), {| rp_status := f_status f; rp_headers := f_headers f; rp_body := f_body f; rp_identity := f_body f;
                   rp_last_modified := false; rp_from_cache := false |}, lg).
  Proof.
    intros Hc Hu Hcomp Hw. unfold serve_core. destruct (cc_cache cfg) eqn:C; cbn [negb].
    - rewrite (lookup_internal c now r u Hc Hu). unfold miss_f. rewrite Hcomp.
      unfold may_store_f. rewrite ?C. rewrite Hw. cbn [andb]. unfold finish, no_negotiate, no_vary_header. rewrite app_nil_r. reflexivity.
    - rewrite Hcomp. unfold finish, no_negotiate, no_vary_header. rewrite app_nil_r. reflexivity.
  Qed.

  Lemma rw_fields r : rq_method (rw cfg r) = rq_method r /\ rq_headers (rw cfg r) = rq_headers r.
  Proof.
    unfold rw. destruct (cc_new cfg); [|split; reflexivity].
    destruct (uri_redirect_fields r) as (Hm & _ & Hh & _). split; assumption.
  Qed.
  Lemma rw_header n r : header n (rw cfg r) = header n r.
  Proof. unfold header. destruct (rw_fields r) as [_ H]. rewrite H. reflexivity. Qed.

  (** the check the Package and the preflight Prepare make (on the rewritten request, with the requested path) *)
  Lemma req_check_rw r a : header H_HOST r = Some a ->
    req_check parse ipo norm conn_scheme (effective_rules cfg) (rq_path r) (rw cfg r) = verdict_grant (verdict_of r).
  Proof.
    intros Ha. destruct (rw_fields r) as [Hm Hh].
    apply (req_check_spec parse norm conn_scheme cfg Hscheme r (rw cfg r) a Ha Hm Hh).
  Qed.

  (** what the Package does, in terms of the verdict *)
  Lemma package_eq r0 a hs : header H_HOST r0 = Some a ->
    cors_package parse ipo norm conn_scheme cfg (rq_path r0) (rw cfg r0) hs
    = if cc_with_cors cfg then
        match header H_ORIGIN r0 with
        | Some o => match verdict_of r0 with VRefuse => hs | _ => set_header H_ACAO o hs end
        | None => hs
        end
      else hs.
  Proof.
    intros Ha. unfold cors_package. destruct (cc_with_cors cfg) eqn:W; [|reflexivity].
    rewrite rw_header. destruct (header H_ORIGIN r0) as [o|]; [|reflexivity].
    pose proof (req_check_rw r0 a Ha) as H1.
    unfold effective_rules in H1. rewrite W in H1. rewrite H1.
    destruct (verdict_of r0); reflexivity.
  Qed.

  (** ---- refused: 403, no handler, no access-control-allow-origin, cache untouched — for every cache state ---- *)
  Lemma refused_reply c now r0 a :
    header H_HOST r0 = Some a -> sanitize_ok_pct r0 = true -> no_internal c ->
    verdict_of r0 = VRefuse ->
    respond' (c, tt) now r0 = ((c, tt), mkWire 403 [] (if rq_method r0 =? M_HEAD then [] else DENIED) []).
  Proof.
    intros Ha Hs Hc Hv. unfold respond, serve_ov.
    rewrite (resolve_prime_eq parse norm conn_scheme cfg Hscheme r0 a Ha Hs). rewrite (cors_path_orig cfg r0). rewrite Hs.
    assert (exists u, ov_of parse norm conn_scheme cfg r0 = Some u /\ starts_with (B "/./") u = true /\
                      compute' (rq_path r0) tt (rw cfg r0) (Some u) true = (denied_fat, tt, [])) as (u & Hu & Hi & Hcomp).
    { unfold ov_of. rewrite Hv. destruct (pf_shape r0).
      - exists OV_OPTIONS. split; [reflexivity|]. split; [reflexivity|].
        rewrite compute_options, (req_check_rw r0 a Ha), Hv. reflexivity.
      - exists OV_FAIL. split; [reflexivity|]. split; [reflexivity|]. apply compute_fail. }
    rewrite Hu. rewrite (serve_core_internal (rq_path r0) c now (rw cfg r0) u denied_fat [] Hc Hi Hcomp (wants_cache_denied _ _ _)).
    cbn [rp_status rp_headers rp_body f_status f_headers f_body denied_fat denied_fat_sp].
    rewrite (package_eq r0 a [] Ha), Hv.
    destruct (cc_with_cors cfg); [destruct (header H_ORIGIN r0)|]; reflexivity.
  Qed.

  (** ---- preflight: exactly the rule's methods, headers and max-age (rounded up), for every cache state ---- *)
  Lemma preflight_reply c now r0 a o ms hs t :
    header H_HOST r0 = Some a -> sanitize_ok_pct r0 = true -> no_internal c ->
    pf_shape r0 = true -> header H_ORIGIN r0 = Some o ->
    verdict_grant (verdict_of r0) = Some (ms, hs, t) ->
    respond' (c, tt) now r0
    = ((c, tt), mkWire 204 (let h := [(H_ACAM, methods_bytes ms); (H_ACAH, join_comma hs); (H_ACMA, dec (max_age_secs t))] in
                            if cc_with_cors cfg then h ++ [(H_ACAO, o)] else h) [] []).
  Proof.
    intros Ha Hs Hc Hpf Ho Hv. unfold respond, serve_ov.
    rewrite (resolve_prime_eq parse norm conn_scheme cfg Hscheme r0 a Ha Hs). rewrite (cors_path_orig cfg r0). rewrite Hs.
    unfold ov_of. rewrite Hpf.
    assert (compute' (rq_path r0) tt (rw cfg r0) (Some OV_OPTIONS) true = (options_fat (Some (ms, hs, t)), tt, [])) as Hcomp.
    { rewrite compute_options, (req_check_rw r0 a Ha), Hv. reflexivity. }
    rewrite (serve_core_internal (rq_path r0) c now (rw cfg r0) OV_OPTIONS _ [] Hc eq_refl Hcomp (wants_cache_options _ _ _ _)).
    cbn [rp_status rp_headers rp_body f_status f_headers f_body options_fat options_fat_sp].
    rewrite (package_eq r0 a _ Ha), Ho.
    assert (rq_method r0 =? M_HEAD = false) as Hm.
    { unfold pf_shape in Hpf. apply andb_true_iff in Hpf as [Hpf _]. apply andb_true_iff in Hpf as [Hpf _].
      apply N.eqb_eq in Hpf. rewrite Hpf. reflexivity. }
    rewrite Hm. destruct (cc_with_cors cfg); [|reflexivity].
    destruct (verdict_of r0); [reflexivity|reflexivity|discriminate].
  Qed.

  (** ---- allowed or same-origin (and not a preflight): the reply of the same request without Origin,
      plus access-control-allow-origin = the origin bytes — in every server state ---- *)
  Lemma assoc_strip n hs : beq n H_ORIGIN = false ->
    assoc n (filter (fun h : bytes * bytes => negb (beq (fst h) H_ORIGIN)) hs) = assoc n hs.
  Proof.
    intros Hn. induction hs as [|[k v] r IH]; [reflexivity|].
    cbn [filter fst assoc]. destruct (beq k H_ORIGIN) eqn:E; cbn [negb].
    - apply beq_eq in E; subst. rewrite Hn. exact IH.
    - cbn [assoc]. rewrite IH. reflexivity.
  Qed.
  Lemma assoc_strip_origin hs : assoc H_ORIGIN (filter (fun h : bytes * bytes => negb (beq (fst h) H_ORIGIN)) hs) = None.
  Proof.
    induction hs as [|[k v] r IH]; [reflexivity|].
    cbn [filter fst]. destruct (beq k H_ORIGIN) eqn:E; cbn [negb]; [exact IH|].
    cbn [assoc]. rewrite beq_sym, E. exact IH.
  Qed.
  Lemma header_strip n r : beq n H_ORIGIN = false -> header n (strip_origin r) = header n r.
  Proof. intros Hn. unfold header, strip_origin. cbn [rq_headers]. apply assoc_strip. exact Hn. Qed.

  Lemma compute_strip cp cp' r : starts_with (B "/./") (rq_path r) = false ->
    compute' cp tt (strip_origin r) None true = compute' cp' tt r None true.
  Proof.
    intros Hp. unfold compute_ov. cbn [negb]. change (rq_path (strip_origin r)) with (rq_path r).
    rewrite (Hign (rq_path r) r). destruct (app (rq_path r) r) as [[f lg]|]; [reflexivity|].
    destruct (beq (rq_path r) OV_FAIL) eqn:E1; [reflexivity|].
    destruct (beq (rq_path r) OV_OPTIONS) eqn:E2; [|reflexivity].
    apply beq_eq in E2. rewrite E2 in Hp. discriminate.
  Qed.

  Lemma serve_core_strip cp cp' st now r : starts_with (B "/./") (rq_path r) = false ->
    serve_core' cp st now true (strip_origin r) None
    = serve_core' cp' st now true r None.
  Proof.
    intros Hp. unfold serve_core. destruct st as [c []].
    rewrite (compute_strip cp cp' r Hp).
    change (key_request (strip_origin r) None) with (strip_origin r). change (key_request r None) with r.
    change (lookup (strip_origin r) c now) with (lookup r c now).
    rewrite (header_strip (B "if-modified-since") r eq_refl).
    unfold miss_f. rewrite (compute_strip cp cp' r Hp). reflexivity.
  Qed.

  Lemma rw_strip r : rw cfg (strip_origin r) = strip_origin (rw cfg r).
  Proof.
    unfold rw. destruct (cc_new cfg); [|reflexivity].
    unfold uri_redirect, strip_origin. cbn [rq_path rq_method rq_query rq_headers rq_addr].
    destruct (rev (rq_path r)) as [|c l]; [reflexivity|].
    destruct (c =? 46); [reflexivity|]. destruct (c =? 47); reflexivity.
  Qed.

  Lemma rw_external r : sanitize_ok_pct r = true -> starts_with (B "/./") (rq_path (rw cfg r)) = false.
  Proof.
    intros Hs. unfold rw. destruct (cc_new cfg).
    - apply uri_redirect_external, sanitize_path, Hs.
    - apply no_dot_slash_external, sanitize_path, Hs.
  Qed.

  Lemma sanitize_strip r : sanitize_ok_pct (strip_origin r) = sanitize_ok_pct r.
  Proof.
    unfold sanitize_ok_pct, range_part_ok. change (rq_path (strip_origin r)) with (rq_path r).
    rewrite (header_strip (B "range") r eq_refl). reflexivity.
  Qed.

  Lemma allowed_reply st now r0 a o :
    header H_HOST r0 = Some a -> sanitize_ok_pct r0 = true ->
    header H_ORIGIN r0 = Some o -> verdict_of r0 <> VRefuse -> pf_shape r0 = false ->
    respond' st now r0
    = (fst (respond' st now (strip_origin r0)),
       let w := snd (respond' st now (strip_origin r0)) in
       mkWire (w_status w) (if cc_with_cors cfg then set_header H_ACAO o (w_headers w) else w_headers w) (w_body w) (w_log w)).
  Proof.
    intros Ha Hs Ho Hv Hpf.
    assert (header H_HOST (strip_origin r0) = Some a) as Ha' by (rewrite (header_strip H_HOST r0 eq_refl); exact Ha).
    assert (sanitize_ok_pct (strip_origin r0) = true) as Hs' by (rewrite sanitize_strip; exact Hs).
    unfold respond, serve_ov.
    rewrite (resolve_prime_eq parse norm conn_scheme cfg Hscheme r0 a Ha Hs).
    rewrite (resolve_prime_eq parse norm conn_scheme cfg Hscheme (strip_origin r0) a Ha' Hs').
    rewrite !(cors_path_orig cfg). rewrite Hs, Hs'.
    assert (ov_of parse norm conn_scheme cfg r0 = None) as Hov.
    { unfold ov_of. rewrite Hpf. destruct (verdict_of r0); [reflexivity|reflexivity|congruence]. }
    assert (ov_of parse norm conn_scheme cfg (strip_origin r0) = None) as Hov'.
    { assert (header H_ORIGIN (strip_origin r0) = None) as Hn
        by (unfold header, strip_origin; cbn [rq_headers]; apply assoc_strip_origin).
      unfold ov_of, pf_shape, has, req_verdict, cors_spec2, cors_spec. rewrite !Hn. rewrite andb_false_r. reflexivity. }
    rewrite Hov, Hov', rw_strip.
    change (rq_path (strip_origin r0)) with (rq_path r0).
    rewrite (serve_core_strip (rq_path r0) (rq_path r0) st now (rw cfg r0) (rw_external r0 Hs)).
    destruct (serve_core' (rq_path r0) st now true (rw cfg r0) None) as [[st' rp] lg]. cbn [fst snd].
    rewrite (package_eq r0 a _ Ha), Ho.
    assert (cors_package parse ipo norm conn_scheme cfg (rq_path r0) (strip_origin (rw cfg r0)) (rp_headers rp) = rp_headers rp) as Hpk.
    { unfold cors_package. destruct (cc_with_cors cfg); [|reflexivity].
      unfold header, strip_origin. cbn [rq_headers]. rewrite assoc_strip_origin. reflexivity. }
    rewrite Hpk. cbn [w_status w_headers w_body w_log].
    change (rq_method (strip_origin r0)) with (rq_method r0).
    destruct (cc_with_cors cfg); [|reflexivity].
    destruct (verdict_of r0); [reflexivity|reflexivity|congruence].
  Qed.
End Main.

(** ---- the invariant: no history stores anything under an internal route ---- *)
Lemma no_internal_remove k c : no_internal c -> no_internal (c_remove k c).
Proof.
  intros Hc. induction c as [|[k' e] r IH]; [exact Hc|].
  assert (no_internal r) as Hr by (intros k0 e0 Hin; apply (Hc k0 e0); right; exact Hin).
  cbn [c_remove]. destruct (key_eqb k k'); [apply IH, Hr|].
  intros k0 e0 [Hin|Hin]; [inversion Hin; subst; apply (Hc k0 e0); left; reflexivity|apply (IH Hr k0 e0 Hin)].
Qed.
Lemma no_internal_insert k e c : key_internal k = false -> no_internal c -> no_internal (c_insert k e c).
Proof.
  intros Hk Hc k0 e0 [Hin|Hin]; [inversion Hin; subst; exact Hk|apply (no_internal_remove k c Hc k0 e0 Hin)].
Qed.
Lemma c_find_external k c e : no_internal c -> c_find k c = Some e -> key_internal k = false.
Proof.
  intros Hc. induction c as [|[k' e'] r IH]; [discriminate|].
  cbn [c_find]. destruct (key_eqb k k') eqn:E.
  - intros _. apply key_eqb_internal in E. rewrite <- E. apply (Hc k' e'). left. reflexivity.
  - apply IH. intros k0 e0 Hin. apply (Hc k0 e0). right. exact Hin.
Qed.
Lemma get_item_inv k c now res c' : get_item k c now = (res, c') -> no_internal c ->
  no_internal c' /\ (forall e, res = Some e -> key_internal k = false).
Proof.
  unfold get_item. intros H Hc. destruct (c_find k c) as [e|] eqn:F.
  - pose proof (c_find_external k c e Hc F) as Hk. destruct (fresh e now); inversion H; subst.
    + split; [exact Hc|intros; exact Hk].
    + split; [apply no_internal_remove, Hc|discriminate].
  - inversion H; subst. split; [exact Hc|discriminate].
Qed.
Lemma lookup_inv r c now k found c1 : lookup r c now = ((k, found), c1) -> no_internal c ->
  no_internal c1 /\ (forall e, found = Some e -> key_internal k = false).
Proof.
  unfold lookup. intros H Hc. destruct (get_item (key_pq r) c now) as [res c'] eqn:G1.
  destruct (get_item_inv _ _ _ _ _ G1 Hc) as [Hc' Hk1]. destruct res as [e|].
  - inversion H; subst. split; [exact Hc'|intros e0 _; apply (Hk1 e eq_refl)].
  - destruct (get_item (key_p r) c' now) as [res2 c''] eqn:G2.
    destruct (get_item_inv _ _ _ _ _ G2 Hc') as [Hc'' Hk2]. inversion H; subst. split; [exact Hc''|exact Hk2].
Qed.
Lemma insert_key_external r f : starts_with (B "/./") (rq_path r) = false -> key_internal (insert_key r f) = false.
Proof.
  intros Hp. unfold insert_key, key_pq, key_p, path_query.
  destruct (f_spref f =? SP_QUERY); [|exact Hp].
  destruct (rq_query r) as [q|]; cbn [key_internal].
  - rewrite firstn_app_exact. exact Hp.
  - rewrite firstn_all. exact Hp.
Qed.

Section Invariant.
  Variable parse : bytes -> option uparts.
  Variable ipo : bytes -> option bytes -> option bytes -> bool.
  Variable norm : bytes -> bytes.
  Variable keep : bool.
  Variable denied_sp : N.
  Variable filt : N -> bool.
  Variable conn_scheme : bytes.
  Variable cfg : ccfg.
  Variable app : app_handlers.
  Notation compute' := (compute_ov parse ipo norm denied_sp conn_scheme cfg app).

  Lemma compute_not_ok cp r ov f lg : compute' cp tt r ov false = (f, tt, lg) ->
    wants_cache_f filt (cc_cache cfg) (rq_method r) f = false.
  Proof.
    unfold compute_ov. cbn [negb]. intros H. inversion H; subst.
    unfold wants_cache_f. cbn [error_fat f_spref]. change (pref_caches SP_NONE) with false. rewrite andb_false_r. reflexivity.
  Qed.

  Lemma miss_no_internal cp c1 now r ok ov :
    no_internal c1 -> (ok = true -> starts_with (B "/./") (rq_path r) = false) ->
    no_internal (fst (fst (fst (miss_f filt cfg (fun hs r ok => compute' cp hs r ov ok) c1 tt now r ok)))).
  Proof.
    intros Hc Hp. unfold miss_f. destruct (compute' cp tt r ov ok) as [[f []] lg] eqn:Hcomp.
    destruct (may_store_f filt (cc_cache cfg) (rq_method r) f) eqn:M; cbn [fst]; [|exact Hc].
    apply no_internal_insert; [|exact Hc]. apply insert_key_external.
    destruct ok; [apply Hp; reflexivity|].
    apply compute_not_ok in Hcomp. unfold may_store_f in M. rewrite Hcomp in M. discriminate.
  Qed.

  Lemma serve_core_no_internal cp c now ok r ov :
    no_internal c -> (ok = true -> starts_with (B "/./") (rq_path r) = false) ->
    no_internal (fst (fst (fst (serve_core parse ipo norm denied_sp filt conn_scheme cfg app cp (c, tt) now ok r ov)))).
  Proof.
    intros Hc Hp. unfold serve_core. destruct (negb (cc_cache cfg)).
    - destruct (compute' cp tt r ov ok) as [[f hs'] lg]. exact Hc.
    - destruct (lookup (key_request r ov) c now) as [[k found] c1] eqn:L.
      destruct (lookup_inv _ _ _ _ _ _ L Hc) as [Hc1 Hk].
      destruct found as [e|]; [|apply miss_no_internal; assumption].
      destruct (ok && get_or_head (rq_method r)); [|apply miss_no_internal; assumption].
      destruct (match match header (B "if-modified-since") r with Some v => parse_ims_fix v | None => None end with
                | Some t => ims_fresh t (e_created e) | None => false end); [exact Hc1|].
      destruct (v_find (no_vary_tuple r) (e_vars e)); [exact Hc1|].
      destruct (compute' cp tt r ov ok) as [[f hs'] lg]. cbn [fst].
      apply no_internal_insert; [apply (Hk e eq_refl)|exact Hc1].
  Qed.

  (** whatever the primes before it did, [uri_redirect] leaves a sanitary path external *)
  Lemma resolve_tail_fst r0 u og : contains_sub (B "./") (rq_path r0) = false ->
    fst (fst (resolve_prime parse ipo norm keep conn_scheme cfg (if cc_new cfg then [((-100)%Z, P_uri_redirect)] else []) r0 u og)) = rw cfg r0.
  Proof.
    intros Hs. unfold rw. destruct (cc_new cfg); [|reflexivity].
    cbn [resolve_prime call_prime].
    destruct (beq (rq_path (uri_redirect r0)) (rq_path r0)) eqn:E.
    - cbn [fst]. apply beq_eq in E. destruct (uri_redirect_fields r0) as (Hm & Hq & Hh & Had).
      destruct r0 as [m p q h ad], (uri_redirect (mkReq m p q h ad)) as [m' p' q' h' ad'] eqn:U; cbn in *; subst; reflexivity.
    - rewrite (uri_redirect_external r0 Hs). cbn [fst].
      destruct (uri_redirect_fields r0) as (Hm & Hq & Hh & Had).
      destruct (uri_redirect r0) as [m' p' q' h' ad'] eqn:U; cbn in *; subst; reflexivity.
  Qed.

  Lemma call_gate_shape og r :
    call_prime parse ipo norm keep conn_scheme cfg (gate_id cfg) og r = None \/
    call_prime parse ipo norm keep conn_scheme cfg (gate_id cfg) og r = Some (OV_FAIL, None).
  Proof.
    unfold gate_id. destruct (cc_with_cors cfg); cbn [call_prime].
    - destruct (req_check parse ipo norm conn_scheme (cc_rules cfg) (cors_path keep og r) r); [left|right]; reflexivity.
    - destruct (header H_ORIGIN r) as [o|]; [|left; reflexivity].
      destruct (to_str_ok o); [destruct (ipo o (Some conn_scheme) (header H_HOST r)); cbn [negb]; [left|right]; reflexivity|right; reflexivity].
  Qed.

  Lemma call_options' og r :
    call_prime parse ipo norm keep conn_scheme cfg P_options og r = if pf_shape r then Some (OV_OPTIONS, None) else None.
  Proof. reflexivity. Qed.

  Lemma resolve_prime_fst r0 : sanitize_ok_pct r0 = true ->
    fst (fst (primed parse ipo norm keep conn_scheme cfg r0)) = rw cfg r0.
  Proof.
    intros Hs. unfold primed. rewrite prime_list_shape. cbn [resolve_prime].
    destruct (call_gate_shape None r0) as [-> | ->]; rewrite call_options'; destruct (pf_shape r0);
      repeat (change (starts_with (B "/./") OV_FAIL) with true; change (starts_with (B "/./") OV_OPTIONS) with true; cbv iota);
      apply resolve_tail_fst, sanitize_path, Hs.
  Qed.

  Lemma respond_no_internal c now r0 :
    no_internal c -> no_internal (fst (fst (respond parse ipo norm keep denied_sp filt conn_scheme cfg app (c, tt) now r0))).
  Proof.
    intros Hc. unfold respond, serve_ov.
    destruct (primed parse ipo norm keep conn_scheme cfg r0) as [[r ov] og] eqn:R.
    pose proof (serve_core_no_internal (cors_path keep og r) c now (sanitize_ok_pct r0) r ov Hc) as H.
    destruct (serve_core parse ipo norm denied_sp filt conn_scheme cfg app (cors_path keep og r) (c, tt) now (sanitize_ok_pct r0) r ov) as [[st' rp] lg].
    cbn [fst] in *.
    apply H. intros Hs. pose proof (resolve_prime_fst r0 Hs) as Hf. rewrite R in Hf. cbn [fst] in Hf. subst r.
    unfold rw. destruct (cc_new cfg).
    - apply uri_redirect_external, sanitize_path, Hs.
    - apply no_dot_slash_external, sanitize_path, Hs.
  Qed.

  (** every cache state reachable by a history of requests (at any times) and clears keeps the invariant *)
  Lemma reachable_no_internal ops st now :
    no_internal (fst st) -> no_internal (fst (run_conn_state parse ipo norm keep denied_sp filt conn_scheme cfg app st now ops)).
  Proof.
    revert st now. induction ops as [|[[r|] dt] rest IH]; intros [c []] now Hc; cbn [run_conn_state].
    - exact Hc.
    - apply IH. pose proof (respond_no_internal c (now + dt) r Hc) as H.
      destruct (respond parse ipo norm keep denied_sp filt conn_scheme cfg app (c, tt) (now + dt) r) as [[c' []] w]. exact H.
    - apply IH. cbn [fst snd]. intros k e [].
  Qed.
End Invariant.

(** ---- the statements of Properties/C13.v ---- *)

(** the verdict is the decision function applied to the most specific rule of the configuration history *)
Lemma verdict_most_specific parse norm conn_scheme cfg hist r a :
  rs_reach hist (cc_rules cfg) -> header H_HOST r = Some a ->
  req_verdict parse norm conn_scheme cfg r
  = cors_spec2 norm parse (hist_lookup cfg hist) (rq_method r) conn_scheme a (rq_path r) (header H_ORIGIN r).
Proof.
  intros Hr Ha. unfold req_verdict, cors_spec2, cors_spec, hist_lookup, effective_rules. rewrite Ha.
  destruct (cc_with_cors cfg); [|reflexivity].
  rewrite (rs_get_resolve hist (cc_rules cfg) (rq_path r) Hr), (rs_get_resolve hist (cc_rules cfg) (norm (rq_path r)) Hr). reflexivity.
Qed.

Lemma decision_proof :
  forall (parse : bytes -> option uparts) (filt : N -> bool) (conn_scheme : bytes) (cfg : ccfg) (app : app_handlers) (c : cache) (now : N) (r0 : request) (a o : bytes),
    mem_byte c_colon conn_scheme = false -> app_external app -> app_ignores_origin app -> no_internal c ->
    header H_HOST r0 = Some a -> header H_ORIGIN r0 = Some o -> sanitize_ok_pct r0 = true ->
    (req_verdict parse resolved_path conn_scheme cfg r0 = VRefuse ->
       respond parse is_part_of_origin resolved_path true SP_NONE filt conn_scheme cfg app (c, tt) now r0
       = ((c, tt), mkWire 403 [] (if rq_method r0 =? M_HEAD then [] else DENIED) []))
    /\ (req_verdict parse resolved_path conn_scheme cfg r0 <> VRefuse -> pf_shape r0 = false ->
       respond parse is_part_of_origin resolved_path true SP_NONE filt conn_scheme cfg app (c, tt) now r0
       = (fst (respond parse is_part_of_origin resolved_path true SP_NONE filt conn_scheme cfg app (c, tt) now (strip_origin r0)),
          let w := snd (respond parse is_part_of_origin resolved_path true SP_NONE filt conn_scheme cfg app (c, tt) now (strip_origin r0)) in
          mkWire (w_status w) (if cc_with_cors cfg then set_header H_ACAO o (w_headers w) else w_headers w) (w_body w) (w_log w))).
Proof.
  intros parse filt sch cfg app c now r0 a o Hsch Hext Hign Hc Ha Ho Hs. split.
  - intros Hv. apply (refused_reply parse filt sch cfg app Hsch Hext c now r0 a Ha Hs Hc Hv).
  - intros Hv Hpf. apply (allowed_reply parse filt sch cfg app Hsch Hign (c, tt) now r0 a o Ha Hs Ho Hv Hpf).
Qed.

Lemma cache_independent_proof :
  forall (parse : bytes -> option uparts) (filt : N -> bool) (conn_scheme : bytes) (cfg : ccfg) (app : app_handlers) (r0 : request) (a : bytes),
    mem_byte c_colon conn_scheme = false -> app_external app ->
    header H_HOST r0 = Some a -> sanitize_ok_pct r0 = true ->
    (* (a) the invariant holds in every state a history of requests and clears can reach *)
    (forall ops now, no_internal (fst (run_conn_state parse is_part_of_origin resolved_path true SP_NONE filt conn_scheme cfg app ([], tt) now ops)))
    (* (b) a refused request and a preflight get the same reply and leave the cache alone in every such state *)
    /\ (req_verdict parse resolved_path conn_scheme cfg r0 = VRefuse \/ (pf_shape r0 = true) ->
        forall c1 c2 now1 now2, no_internal c1 -> no_internal c2 ->
          snd (respond parse is_part_of_origin resolved_path true SP_NONE filt conn_scheme cfg app (c1, tt) now1 r0)
          = snd (respond parse is_part_of_origin resolved_path true SP_NONE filt conn_scheme cfg app (c2, tt) now2 r0)
          /\ fst (respond parse is_part_of_origin resolved_path true SP_NONE filt conn_scheme cfg app (c1, tt) now1 r0) = (c1, tt)).
Proof.
  intros parse filt sch cfg app r0 a Hsch Hext Ha Hs. split.
  - intros ops now. apply reachable_no_internal. intros k e [].
  - intros Hcase c1 c2 now1 now2 Hc1 Hc2.
    destruct (req_verdict parse resolved_path sch cfg r0) eqn:Hv.
    + destruct Hcase as [Hcase|Hpf]; [discriminate|].
      destruct (header H_ORIGIN r0) as [o|] eqn:Ho.
      2:{ unfold pf_shape, has in Hpf. rewrite Ho in Hpf. rewrite andb_false_r in Hpf. discriminate. }
      rewrite (preflight_reply parse filt sch cfg app Hsch Hext c1 now1 r0 a o None [] 604800000 Ha Hs Hc1 Hpf Ho) by (rewrite Hv; reflexivity).
      rewrite (preflight_reply parse filt sch cfg app Hsch Hext c2 now2 r0 a o None [] 604800000 Ha Hs Hc2 Hpf Ho) by (rewrite Hv; reflexivity).
      split; reflexivity.
    + destruct Hcase as [Hcase|Hpf]; [discriminate|].
      destruct (header H_ORIGIN r0) as [o|] eqn:Ho.
      2:{ unfold pf_shape, has in Hpf. rewrite Ho in Hpf. rewrite andb_false_r in Hpf. discriminate. }
      destruct g as [[ms hs] t].
      rewrite (preflight_reply parse filt sch cfg app Hsch Hext c1 now1 r0 a o ms hs t Ha Hs Hc1 Hpf Ho) by (rewrite Hv; reflexivity).
      rewrite (preflight_reply parse filt sch cfg app Hsch Hext c2 now2 r0 a o ms hs t Ha Hs Hc2 Hpf Ho) by (rewrite Hv; reflexivity).
      split; reflexivity.
    + rewrite (refused_reply parse filt sch cfg app Hsch Hext c1 now1 r0 a Ha Hs Hc1 Hv).
      rewrite (refused_reply parse filt sch cfg app Hsch Hext c2 now2 r0 a Ha Hs Hc2 Hv). split; reflexivity.
Qed.

Lemma same_origin_proof :
  forall (parse : bytes -> option uparts) (filt : N -> bool) (conn_scheme : bytes) (cfg : ccfg) (app : app_handlers) (st : state unit) (now : N) (r0 : request) (a o : bytes),
    mem_byte c_colon conn_scheme = false -> app_ignores_origin app ->
    header H_HOST r0 = Some a -> header H_ORIGIN r0 = Some o -> sanitize_ok_pct r0 = true ->
    req_verdict parse resolved_path conn_scheme cfg r0 = VSame -> pf_shape r0 = false ->
    respond parse is_part_of_origin resolved_path true SP_NONE filt conn_scheme cfg app st now r0
    = (fst (respond parse is_part_of_origin resolved_path true SP_NONE filt conn_scheme cfg app st now (strip_origin r0)),
       let w := snd (respond parse is_part_of_origin resolved_path true SP_NONE filt conn_scheme cfg app st now (strip_origin r0)) in
       mkWire (w_status w) (if cc_with_cors cfg then set_header H_ACAO o (w_headers w) else w_headers w) (w_body w) (w_log w)).
Proof.
  intros parse filt sch cfg app st now r0 a o Hsch Hign Ha Ho Hs Hv Hpf.
  apply (allowed_reply parse filt sch cfg app Hsch Hign st now r0 a o Ha Hs Ho); [rewrite Hv; discriminate|exact Hpf].
Qed.

(** the same along every history: whatever requests (same-origin, allowed, refused, unsanitary, at any
    times) and cache clears came before, from the empty cache *)
Lemma decision_histories_proof :
  forall (parse : bytes -> option uparts) (filt : N -> bool) (conn_scheme : bytes) (cfg : ccfg) (app : app_handlers) (ops : list (cop * N)) (t0 now : N) (r0 : request) (a o : bytes),
    mem_byte c_colon conn_scheme = false -> app_external app -> app_ignores_origin app ->
    header H_HOST r0 = Some a -> header H_ORIGIN r0 = Some o -> sanitize_ok_pct r0 = true ->
    let st := run_conn_state parse is_part_of_origin resolved_path true SP_NONE filt conn_scheme cfg app ([], tt) t0 ops in
    (req_verdict parse resolved_path conn_scheme cfg r0 = VRefuse ->
       respond parse is_part_of_origin resolved_path true SP_NONE filt conn_scheme cfg app st now r0
       = (st, mkWire 403 [] (if rq_method r0 =? M_HEAD then [] else DENIED) []))
    /\ (req_verdict parse resolved_path conn_scheme cfg r0 <> VRefuse -> pf_shape r0 = false ->
       respond parse is_part_of_origin resolved_path true SP_NONE filt conn_scheme cfg app st now r0
       = (fst (respond parse is_part_of_origin resolved_path true SP_NONE filt conn_scheme cfg app st now (strip_origin r0)),
          let w := snd (respond parse is_part_of_origin resolved_path true SP_NONE filt conn_scheme cfg app st now (strip_origin r0)) in
          mkWire (w_status w) (if cc_with_cors cfg then set_header H_ACAO o (w_headers w) else w_headers w) (w_body w) (w_log w))).
Proof.
  intros parse filt sch cfg app ops t0 now r0 a o Hsch Hext Hign Ha Ho Hs st.
  assert (no_internal (fst st)) as Hc by (apply reachable_no_internal; intros k e []).
  destruct st as [c []]. cbn [fst] in Hc.
  apply (decision_proof parse filt sch cfg app c now r0 a o Hsch Hext Hign Hc Ha Ho Hs).
Qed.

(** the header an allowed request gets is the one header of that name and carries the origin bytes,
    whatever the handler set itself *)
Lemma assoc_set_header n v hs : assoc n (set_header n v hs) = Some v.
Proof.
  induction hs as [|[k w] r IH]; cbn [set_header assoc]; [rewrite beq_refl; reflexivity|].
  destruct (beq k n) eqn:E; cbn [assoc]; [rewrite beq_refl; reflexivity|].
  rewrite beq_sym, E. exact IH.
Qed.
Definition count_header (n : bytes) (hs : list (bytes * bytes)) : nat := length (filter (fun h => beq (fst h) n) hs).
Lemma count_filter_out n hs : count_header n (filter (fun h : bytes * bytes => negb (beq (fst h) n)) hs) = O.
Proof.
  unfold count_header. induction hs as [|[k w] r IH]; [reflexivity|].
  cbn [filter fst]. destruct (beq k n) eqn:E; cbn [negb]; [exact IH|]. cbn [filter fst]. rewrite E. exact IH.
Qed.
Lemma count_set_header n v hs : count_header n (set_header n v hs) = 1%nat.
Proof.
  induction hs as [|[k w] r IH]; cbn [set_header].
  - unfold count_header. cbn [filter fst]. rewrite beq_refl. reflexivity.
  - destruct (beq k n) eqn:E.
    + unfold count_header. cbn [filter fst]. rewrite beq_refl. cbn [length]. f_equal. apply count_filter_out.
    + unfold count_header in *. cbn [filter fst]. rewrite E. exact IH.
Qed.

Lemma acao_exact_proof :
  forall (parse : bytes -> option uparts) (filt : N -> bool) (conn_scheme : bytes) (cfg : ccfg) (app : app_handlers) (st : state unit) (now : N) (r0 : request) (a o : bytes),
    mem_byte c_colon conn_scheme = false -> app_ignores_origin app ->
    header H_HOST r0 = Some a -> header H_ORIGIN r0 = Some o -> sanitize_ok_pct r0 = true ->
    req_verdict parse resolved_path conn_scheme cfg r0 <> VRefuse -> pf_shape r0 = false -> cc_with_cors cfg = true ->
    let w := snd (respond parse is_part_of_origin resolved_path true SP_NONE filt conn_scheme cfg app st now r0) in
    assoc H_ACAO (w_headers w) = Some o /\ count_header H_ACAO (w_headers w) = 1%nat.
Proof.
  intros parse filt sch cfg app st now r0 a o Hsch Hign Ha Ho Hs Hv Hpf W.
  rewrite (allowed_reply parse filt sch cfg app Hsch Hign st now r0 a o Ha Hs Ho Hv Hpf).
  cbn [snd w_headers]. rewrite W. split; [apply assoc_set_header|apply count_set_header].
Qed.

(** the handlers of the correspondence are such an application *)
Lemma marker_app_external hs :
  (forall p sp, In (p, sp) hs -> starts_with (B "/./") p = false) -> app_external (marker_app hs).
Proof. intros H key r Hk. unfold marker_app. rewrite (find_marker_internal key hs O None H Hk). reflexivity. Qed.
Lemma marker_app_ignores_origin hs : app_ignores_origin (marker_app hs).
Proof. intros key r. reflexivity. Qed.
Lemma site_app_external hs st : app_external (site_app hs st).
Proof. intros key r Hk. unfold site_app. rewrite Hk. reflexivity. Qed.
Lemma site_app_ignores_origin hs st : app_ignores_origin (site_app hs st).
Proof. intros key r. reflexivity. Qed.

(** ---- witnesses ---- *)
Definition ex_al (origins : list aorigin) (all : bool) : allow_list :=
  mkAL origins all (Some [M_GET; M_HEAD; M_OPTIONS]) [B "content-type"] 1500.
Definition ex_hist : list (bytes * allow_list) :=
  [(B "/api/*", ex_al [mkAO (B "https") (B "icelk.dev") None] false); (B "/api/index.html", ex_al [] true)].
Definition ex_cfg : ccfg := mkCfgC true true (rs_build rs_add ex_hist) [(B "/api/x", 2); (B "/api/index.html", 2)] true.
Definition ex_req (m : N) (p : bytes) (hs : list (bytes * bytes)) : request := mkReq m p None ((H_HOST, B "localhost") :: hs) 0.
(** a site with files: /api/* only for https://icelk.dev, everything else open *)
Definition ex_hist_fs : list (bytes * allow_list) :=
  [(B "/api/*", ex_al [mkAO (B "https") (B "icelk.dev") None] false); (B "/*", ex_al [] true)].
Definition ex_site : site := mkSite [(B "api/secret.json", B "SECRET"); (B "pub.txt", B "PUBLIC")] [] 0.
Definition ex_cfg_fs : ccfg := mkCfgC false true (rs_build rs_add ex_hist_fs) [] true.
Definition ex_app_fs : app_handlers := site_app [] (Some ex_site).

(** the code before the repair 8f77d7d (no RequestedUri): GET /api/ from an origin the rule of /api/ refuses;
    uri_redirect moves the path to /api/index.html whose rule allows all origins: 403 *with*
    access-control-allow-origin *)
Lemma known_class_witness :
  let r := ex_req M_GET (B "/api/") [(H_ORIGIN, B "https://evil.example")] in
  req_verdict parse_uri resolved_path CONN_SCHEME ex_cfg r = VRefuse /\ ~ stable ex_cfg r /\
  snd (respond parse_uri is_part_of_origin resolved_path false SP_NONE default_filter CONN_SCHEME ex_cfg (marker_app (cc_handlers ex_cfg)) ([], tt) 0 r)
  = mkWire 403 [(H_ACAO, B "https://evil.example")] DENIED [].
Proof.
  cbv zeta. split; [vm_compute; reflexivity|]. split; [|vm_compute; reflexivity].
  unfold stable. vm_compute. discriminate.
Qed.

(** the code before the repair c64bc9b: Origin: null took the same-origin branch *)
Lemma null_origin_v0_witness :
  let r := ex_req M_GET (B "/api/x") [(H_ORIGIN, B "null")] in
  req_verdict parse_uri resolved_path CONN_SCHEME ex_cfg r = VRefuse /\
  snd (respond parse_uri is_part_of_origin_v0 resolved_path true SP_NONE default_filter CONN_SCHEME ex_cfg (marker_app (cc_handlers ex_cfg)) ([], tt) 0 r)
  = mkWire 200 [(H_ACAO, B "null")] (B "h0:/api/x") [B "h0"].
Proof.
  cbv zeta. split; vm_compute; reflexivity.
Qed.

(** the code before the repair 673b91a (rule looked up with the path as spelled only): GET /%61pi/secret.json
    from an origin that the rule of /api/secret.json refuses is judged by /* and gets the file *)
Lemma raw_path_v0_witness :
  let r := ex_req M_GET (B "/%61pi/secret.json") [(H_ORIGIN, B "https://evil.example")] in
  fs_find (st_files ex_site) (rq_path r) = Some (B "api/secret.json", B "SECRET") /\
  cors_spec parse_uri (rs_get (effective_rules ex_cfg_fs)) M_GET CONN_SCHEME (B "localhost") (B "/api/secret.json") (Some (B "https://evil.example")) = VRefuse /\
  snd (respond parse_uri is_part_of_origin resolved_path_v0 true SP_NONE default_filter CONN_SCHEME ex_cfg_fs ex_app_fs ([], tt) 0 r)
  = mkWire 200 [(H_ACAO, B "https://evil.example")] (B "SECRET") [].
Proof.
  cbv zeta. split; [vm_compute; reflexivity|]. split; vm_compute; reflexivity.
Qed.

(** the code before the repair d00feae (the refusal had the cache preference Full): with a status filter that
    caches every status, a refused request stores its 403 under the request's own path, and the next
    request without Origin gets it *)
Lemma denied_cached_v0_witness :
  let bad := ex_req M_GET (B "/api/x") [(H_ORIGIN, B "https://evil.example")] in
  let plain := ex_req M_GET (B "/api/x") [] in
  let st := fst (respond parse_uri is_part_of_origin resolved_path true SP_FULL cache_all_filter CONN_SCHEME ex_cfg (marker_app (cc_handlers ex_cfg)) ([], tt) 0 bad) in
  fst st <> [] /\
  snd (respond parse_uri is_part_of_origin resolved_path true SP_FULL cache_all_filter CONN_SCHEME ex_cfg (marker_app (cc_handlers ex_cfg)) st 0 plain)
  = mkWire 403 [] DENIED [].
Proof.
  cbv zeta. split; [vm_compute; discriminate|vm_compute; reflexivity].
Qed.
