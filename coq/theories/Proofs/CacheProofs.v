(** C03 — cache transparency: the caching server simulates the cache-less server. *)
From KV Require Import Bytes RustInt Range CacheControl Cache.
From Coq Require Import ZifyBool ZifyNat ZifyN.
Open Scope N_scope.

Lemma key_eqb_eq a c : key_eqb a c = true <-> a = c.
Proof.
  destruct a as [p|s i], c as [q|t j]; cbn [key_eqb]; split; intros H; try discriminate.
  - apply beq_eq in H. congruence.
  - inversion H; subst. apply beq_refl.
  - apply andb_true_iff in H as [H1 H2]. apply beq_eq in H1. apply Nat.eqb_eq in H2. congruence.
  - inversion H; subst. rewrite beq_refl, Nat.eqb_refl. reflexivity.
Qed.
Lemma key_eqb_refl a : key_eqb a a = true.
Proof. apply key_eqb_eq. reflexivity. Qed.
Lemma key_eqb_neq a c : key_eqb a c = false <-> a <> c.
Proof.
  split.
  - intros H E. apply key_eqb_eq in E. congruence.
  - intros H. destruct (key_eqb a c) eqn:E; [apply key_eqb_eq in E; contradiction | reflexivity].
Qed.

Lemma c_find_remove k k' c :
  c_find k (c_remove k' c) = if key_eqb k k' then None else c_find k c.
Proof.
  induction c as [|[k0 e0] c IH]; cbn [c_remove c_find].
  - destruct (key_eqb k k'); reflexivity.
  - destruct (key_eqb k' k0) eqn:E0.
    + rewrite IH. destruct (key_eqb k k') eqn:E1; [reflexivity|].
      apply key_eqb_eq in E0. subst k0. rewrite E1. reflexivity.
    + cbn [c_find]. rewrite IH. destruct (key_eqb k k0) eqn:E2; [|reflexivity].
      apply key_eqb_eq in E2. subst k0.
      destruct (key_eqb k k') eqn:E1; [|reflexivity].
      apply key_eqb_eq in E1. subst k'. rewrite key_eqb_refl in E0. discriminate.
Qed.

Lemma c_find_insert k k' e c :
  c_find k (c_insert k' e c) = if key_eqb k k' then Some e else c_find k c.
Proof.
  unfold c_insert. cbn [c_find]. destruct (key_eqb k k') eqn:E; [reflexivity|].
  rewrite c_find_remove, E. reflexivity.
Qed.

Lemma tuple_eqb_eq a c : tuple_eqb a c = true <-> a = c.
Proof.
  revert c; induction a as [|x a IH]; intros [|y c]; cbn [tuple_eqb]; split; intros H;
    try reflexivity; try discriminate.
  - apply andb_true_iff in H as [H1 H2]. apply beq_eq in H1. apply IH in H2. congruence.
  - inversion H; subst. rewrite beq_refl. apply IH. reflexivity.
Qed.

Lemma v_find_in t vs f : v_find t vs = Some f -> In (t, f) vs.
Proof.
  induction vs as [|[t' f'] vs IH]; cbn [v_find]; [discriminate|].
  destruct (tuple_eqb t t') eqn:E.
  - intros H; inversion H; subst. apply tuple_eqb_eq in E. subst. left. reflexivity.
  - intros H. right. auto.
Qed.

Lemma path_query_fst r : firstn (snd (path_query r)) (fst (path_query r)) = rq_path r.
Proof.
  unfold path_query. destruct (rq_query r) as [q0|]; cbn [fst snd].
  - rewrite firstn_app, Nat.sub_diag, firstn_all. cbn. apply app_nil_r.
  - apply firstn_all.
Qed.
Lemma path_query_path r r' : path_query r = path_query r' -> rq_path r = rq_path r'.
Proof. intros H. rewrite <- (path_query_fst r), <- (path_query_fst r'), H. reflexivity. Qed.

Section Transparency.
  Variable hstate : Type.
  Variable compute : hstate -> request -> bool -> fat * hstate * list bytes.
  Variable ims_on : bool.
  Variable parse_ims : bytes -> option Z.
  Variable sanitize_ok : request -> bool.
  Variable prime : request -> request.
  Variable negotiate : request -> fat -> option (N * bytes).
  Variable vary_tuple : request -> tuple.
  Variable vary_header : request -> fat -> list (bytes * bytes).

  (** the handler contract of the property *)
  Variable cf : request -> bool -> fat.
  Hypothesis Hpure : forall hs r ok, fst (fst (compute hs r ok)) = cf r ok.
  Definition qm (f : fat) : bool := f_spref f =? SP_QUERY.
  Hypothesis contract : forall r r',
    get_or_head (rq_method r) = true -> get_or_head (rq_method r') = true ->
    vary_tuple r = vary_tuple r' -> rq_path r = rq_path r' ->
    (qm (cf r true) = true -> path_query r = path_query r') ->
    cf r true = cf r' true.
  Hypothesis pref_uniform : forall r r', rq_path r = rq_path r' -> qm (cf r true) = qm (cf r' true).
  Hypothesis Herr : forall r, f_spref (cf r false) = SP_NONE.

  Notation serveC := (serve hstate compute true ims_on parse_ims sanitize_ok prime negotiate vary_tuple vary_header).
  Notation serveU := (serve hstate compute false ims_on parse_ims sanitize_ok prime negotiate vary_tuple vary_header).
  Notation finishX := (finish negotiate vary_header).

  Definition key_ok (k : key) (r : request) (f : fat) : Prop :=
    match k with
    | KPath p => rq_path r = p /\ qm f = false
    | KPathQuery s i => path_query r = (s, i)
    end.
  Definition var_ok (k : key) (t : tuple) (f : fat) : Prop :=
    exists r, get_or_head (rq_method r) = true /\ vary_tuple r = t /\ f = cf r true /\ key_ok k r f.
  Definition entry_ok (k : key) (e : entry) : Prop :=
    e_vars e <> [] /\ forall t f, In (t, f) (e_vars e) -> var_ok k t f.
  Definition Inv (c : cache) : Prop := forall k e, c_find k c = Some e -> entry_ok k e.

  Lemma Inv_nil : Inv [].
  Proof. intros k e H. discriminate. Qed.

  Lemma Inv_remove k c : Inv c -> Inv (c_remove k c).
  Proof.
    intros H k0 e0. rewrite c_find_remove. destruct (key_eqb k0 k); [discriminate|]. apply H.
  Qed.
  Lemma Inv_insert k e c : Inv c -> entry_ok k e -> Inv (c_insert k e c).
  Proof.
    intros H He k0 e0. rewrite c_find_insert. destruct (key_eqb k0 k) eqn:E.
    - intros H0; inversion H0; subst. apply key_eqb_eq in E. subst. exact He.
    - apply H.
  Qed.

  Lemma get_item_inv k c now res c' :
    get_item k c now = (res, c') -> Inv c ->
    Inv c' /\ (forall e, res = Some e -> entry_ok k e).
  Proof.
    unfold get_item. destruct (c_find k c) as [e|] eqn:F.
    - destruct (fresh e now); intros H I; inversion H; subst.
      + split; [exact I|]. intros e0 H0; inversion H0; subst. apply (I _ _ F).
      + split; [apply Inv_remove; exact I | discriminate].
    - intros H I; inversion H; subst. split; [exact I | discriminate].
  Qed.

  Lemma lookup_inv r c now k res c' :
    lookup r c now = ((k, res), c') -> Inv c ->
    Inv c' /\ (k = key_pq r \/ k = key_p r) /\ (forall e, res = Some e -> entry_ok k e).
  Proof.
    unfold lookup. destruct (get_item (key_pq r) c now) as [[e|] c1] eqn:G1.
    - intros H I; inversion H; subst. destruct (get_item_inv _ _ _ _ _ G1 I) as [I1 E1].
      split; [exact I1|]. split; [left; reflexivity | exact E1].
    - destruct (get_item (key_p r) c1 now) as [res2 c2] eqn:G2.
      intros H I; inversion H; subst.
      destruct (get_item_inv _ _ _ _ _ G1 I) as [I1 _].
      destruct (get_item_inv _ _ _ _ _ G2 I1) as [I2 E2].
      split; [exact I2|]. split; [right; reflexivity | exact E2].
  Qed.

  (** replies are compared on status, headers, body sent and identity body; the cache's own
      [last-modified] stamp and the hit flag are not part of the representation *)
  Definition reply_equiv (a c : reply) : Prop :=
    rp_status a = rp_status c /\ rp_headers a = rp_headers c /\ rp_body a = rp_body c /\ rp_identity a = rp_identity c.

  Lemma finish_equiv r f lm1 c1 lm2 c2 : reply_equiv (finishX r f lm1 c1) (finishX r f lm2 c2).
  Proof. unfold finish. destruct (negotiate r f) as [[st body]|]; repeat split. Qed.

  Definition no_ims (r0 : request) : Prop :=
    ims_on = false \/ header (B "if-modified-since") (prime r0) = None.

  Lemma compute_cf hs r ok f hs' lg : compute hs r ok = (f, hs', lg) -> f = cf r ok.
  Proof. intros H. rewrite <- (Hpure hs r ok), H. reflexivity. Qed.

  Lemma miss_sim c1 hs now r ok st' rp lg :
    miss hstate compute true ims_on negotiate vary_tuple vary_header c1 hs now r ok = (st', rp, lg) ->
    ok = true \/ ok = false -> Inv c1 ->
    Inv (fst st') /\ reply_equiv rp (finishX r (cf r ok) false false).
  Proof.
    unfold miss. destruct (compute hs r ok) as [[f hs'] lg'] eqn:C.
    apply compute_cf in C. subst f.
    destruct (may_store true (rq_method r) (cf r ok)) eqn:A; intros H Hok I; inversion H; subst; cbn [fst].
    - split; [| apply finish_equiv].
      apply Inv_insert; [exact I|].
      unfold may_store, wants_cache in A. cbn [andb] in A.
      assert (Hok' : ok = true).
      { destruct ok; [reflexivity|]. rewrite Herr in A. cbn in A. discriminate. }
      subst ok.
      assert (GH : get_or_head (rq_method r) = true).
      { destruct (get_or_head (rq_method r)); [reflexivity|]. rewrite !andb_false_r in A. discriminate. }
      split; [cbn; discriminate|]. cbn [e_vars]. intros t f [E|[]]. inversion E; subst.
      exists r. repeat split; try assumption; try reflexivity.
      unfold insert_key, key_ok. fold (qm (cf r true)). destruct (qm (cf r true)) eqn:Q.
      + unfold key_pq. destruct (path_query r). reflexivity.
      + unfold key_p. split; reflexivity.
    - split; [exact I | apply finish_equiv].
  Qed.

  Lemma serve_sim c hs now r0 st' rp lg cU hsU :
    serveC (c, hs) now r0 = (st', rp, lg) -> Inv c -> no_ims r0 ->
    Inv (fst st') /\ reply_equiv rp (snd (fst (serveU (cU, hsU) now r0))).
  Proof.
    intros H I Hims.
    assert (HU : snd (fst (serveU (cU, hsU) now r0)) = finishX (prime r0) (cf (prime r0) (sanitize_ok r0)) false false).
    { unfold serve. cbn [negb]. destruct (compute hsU (prime r0) (sanitize_ok r0)) as [[f h] l] eqn:C.
      cbn [fst snd]. apply compute_cf in C. subst. reflexivity. }
    rewrite HU. clear HU.
    unfold serve in H. cbn [negb] in H.
    set (r := prime r0) in *. set (ok := sanitize_ok r0) in *.
    destruct (lookup r c now) as [[k found] c1] eqn:L.
    destruct (lookup_inv _ _ _ _ _ _ L I) as (I1 & Hk & Hfound).
    assert (Hokb : ok = true \/ ok = false) by (destruct ok; auto).
    destruct found as [e|].
    - destruct (ok && get_or_head (rq_method r)) eqn:G.
      + apply andb_true_iff in G as [Gok GH]. rewrite Gok in *.
        (* no 304: either IMS is off or the request has no such header *)
        assert (Hno : (match (if ims_on then match header (B "if-modified-since") r with
                                               | Some v => parse_ims v | None => None end else None) with
                       | Some t => ims_fresh t (e_created e) | None => false end) = false).
        { destruct Hims as [-> | Hh]; [reflexivity|]. fold r in Hh. rewrite Hh. destruct ims_on; reflexivity. }
        rewrite Hno in H. clear Hno.
        destruct (Hfound e eq_refl) as [Hne Hvars].
        destruct (v_find (vary_tuple r) (e_vars e)) as [f|] eqn:V.
        * (* hit *)
          apply v_find_in in V. destruct (Hvars _ _ V) as (r1 & GH1 & T1 & F1 & K1).
          assert (Hf : cf r1 true = cf r true).
          { apply contract; try assumption.
            - destruct Hk as [-> | ->]; unfold key_ok, key_pq, key_p in K1.
              + destruct (path_query r) as [s i] eqn:PQ. apply path_query_path. congruence.
              + destruct K1 as [K1 _]. exact K1.
            - intros Q. destruct Hk as [-> | ->]; unfold key_ok, key_pq, key_p in K1.
              + destruct (path_query r) as [s i] eqn:PQ. congruence.
              + destruct K1 as [_ K1]. rewrite <- F1 in Q. congruence. }
          rewrite F1, Hf in H.
          inversion H; subst. cbn [fst]. split; [exact I1|].
          apply finish_equiv.
        * (* variant missing: compute, push, re-insert *)
          destruct (compute hs r true) as [[f hs'] lg'] eqn:C. apply compute_cf in C. subst f.
          inversion H; subst. cbn [fst]. split; [| apply finish_equiv].
          apply Inv_insert; [exact I1|]. split; [cbn; discriminate|].
          cbn [e_vars]. intros t f [E | Hin]; [| apply Hvars; exact Hin].
          inversion E; subst. exists r. repeat split; try assumption; try reflexivity.
          destruct Hk as [-> | ->]; unfold key_ok, key_pq, key_p.
          -- destruct (path_query r). reflexivity.
          -- split; [reflexivity|].
             destruct (e_vars e) as [|[t1 f1] rest] eqn:Ev; [congruence|].
             destruct (Hvars t1 f1 (or_introl eq_refl)) as (r1 & _ & _ & F1 & K1).
             unfold key_ok, key_p in K1. destruct K1 as [P1 Q1].
             rewrite (pref_uniform r r1) by congruence. rewrite <- F1. exact Q1.
      + (* entry found but the request may not use it *)
        eapply miss_sim; eassumption.
    - eapply miss_sim; eassumption.
  Qed.

  (** ---- histories ---- *)
  Notation stepC := (step hstate compute true ims_on parse_ims sanitize_ok prime negotiate vary_tuple vary_header).
  Notation stepU := (step hstate compute false ims_on parse_ims sanitize_ok prime negotiate vary_tuple vary_header).
  Notation runC := (run hstate compute true ims_on parse_ims sanitize_ok prime negotiate vary_tuple vary_header).
  Notation runU := (run hstate compute false ims_on parse_ims sanitize_ok prime negotiate vary_tuple vary_header).

  Definition obs_equiv (a c : obs) : Prop :=
    match a, c with
    | ObReply ra _, ObReply rc _ => reply_equiv ra rc
    | ObCleared _ _, ObCleared _ _ => True
    | ObNone, ObNone => True
    | _, _ => False
    end.

  Definition op_no_ims (o : op) : Prop := match o with OReq r => no_ims r | _ => True end.

  Lemma step_sim c hs cU hsU now o :
    Inv c -> op_no_ims o ->
    let '(stC, nowC, obC) := stepC (c, hs) now o in
    let '(stU, nowU, obU) := stepU (cU, hsU) now o in
    Inv (fst stC) /\ nowC = nowU /\ obs_equiv obC obU.
  Proof.
    intros I Hno. destruct o as [r | r | | ms]; cbn [step].
    - destruct (serveC (c, hs) now r) as [[stC rp] lg] eqn:SC.
      destruct (serveU (cU, hsU) now r) as [[stU rpU] lgU] eqn:SU.
      destruct (serve_sim _ _ _ _ _ _ _ cU hsU SC I Hno) as [I' E]. rewrite SU in E. cbn [fst snd] in E.
      split; [exact I' | split; [reflexivity | exact E]].
    - cbn [fst]. split; [| split; [reflexivity | exact Logic.I]]. unfold clear_page, clear_uri. destruct (redirect_target r); repeat apply Inv_remove; exact I.
    - cbn [fst]. split; [| split; [reflexivity | exact Logic.I]]. apply Inv_nil.
    - cbn [fst]. split; [| split; [reflexivity | exact Logic.I]]. exact I.
  Qed.

  Lemma run_sim ops : forall c hs cU hsU now,
    Inv c -> Forall op_no_ims ops ->
    Forall2 obs_equiv (runC (c, hs) now ops) (runU (cU, hsU) now ops).
  Proof.
    induction ops as [|o ops IH]; intros c hs cU hsU now I Hno; cbn [run]; [constructor|].
    inversion Hno as [|? ? Ho Hrest]; subst.
    pose proof (step_sim c hs cU hsU now o I Ho) as S.
    destruct (stepC (c, hs) now o) as [[[c' hs'] nowC] obC].
    destruct (stepU (cU, hsU) now o) as [[[cU' hsU'] nowU] obU].
    destruct S as (I' & En & Eo). subst nowU. constructor; [exact Eo|]. apply IH; assumption.
  Qed.

  (** an entry stored for one path / query / method class / variant is never served for another:
      what a hit returns was computed for a request of the same class *)
  Lemma hit_same_class c now r k e c1 f :
    Inv c -> lookup r c now = ((k, Some e), c1) -> v_find (vary_tuple r) (e_vars e) = Some f ->
    exists r1, get_or_head (rq_method r1) = true /\ vary_tuple r1 = vary_tuple r /\ f = cf r1 true /\
               rq_path r1 = rq_path r /\ (qm f = true -> path_query r1 = path_query r).
  Proof.
    intros I L V. destruct (lookup_inv _ _ _ _ _ _ L I) as (_ & Hk & Hfound).
    destruct (Hfound e eq_refl) as [_ Hvars]. apply v_find_in in V.
    destruct (Hvars _ _ V) as (r1 & GH1 & T1 & F1 & K1). exists r1. repeat split; try assumption.
    - destruct Hk as [-> | ->]; unfold key_ok, key_pq, key_p in K1.
      + destruct (path_query r) as [s i] eqn:PQ. apply path_query_path. congruence.
      + destruct K1 as [K1 _]. exact K1.
    - intros Q. destruct Hk as [-> | ->]; unfold key_ok, key_pq, key_p in K1.
      + destruct (path_query r) as [s i] eqn:PQ. congruence.
      + destruct K1 as [_ K1]. congruence.
  Qed.
End Transparency.
