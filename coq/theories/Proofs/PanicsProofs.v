(** C02 — panic-freedom lemmas for Model/Panics.v and for the composed request path. *)
From Coq Require Import ZifyBool ZifyNat ZifyN.
From KV Require Import Bytes RustInt RustStd Panics.
From KV Require PathSan PathSanProofs Range RangeProofs RangeConn RangeConnProofs Http1Read Hosts HostsProofs Negotiate Cors.
Open Scope N_scope.

(** * [binary_search_by] stays inside the slice *)

Lemma binary_search_by_bound {T} (f : T -> comparison) (l : list T) r :
  binary_search_by f l = Some r -> (bs_pos r <= length l)%nat.
Proof.
  unfold binary_search_by. destruct (Nat.eqb_spec (length l) 0) as [E0|Hn].
  - intros H; inversion H; subst. cbn. lia.
  - destruct (bs_loop_total f (length l) l 0 (length l)) as (b & E & _ & B2); try lia.
    rewrite E. destruct (nth_error l b) as [x|] eqn:En; [|discriminate].
    destruct (f x); intros H; inversion H; subst; cbn [bs_pos]; lia.
Qed.

Lemma index_of_some pairs name : exists r, index_of pairs name = Some r /\ (bs_pos r <= length pairs)%nat.
Proof.
  unfold index_of. destruct (binary_search_by_total (q_cmp name) pairs) as [r Hr].
  exists r. split; [exact Hr|]. eapply binary_search_by_bound; eassumption.
Qed.

(** * [iterate_to_last], [iterate_to_first] *)

Lemma iter_to_last_bound name rest index :
  (index <= iter_to_last name rest index <= index + length rest)%nat.
Proof.
  revert index; induction rest as [|p r IH]; intros index; cbn [iter_to_last length]; [lia|].
  destruct (beq (fst p) name); [|lia]. specialize (IH (S index)). lia.
Qed.

Lemma iterate_to_last_ok pairs name i :
  (i <= length pairs)%nat ->
  exists p, iterate_to_last pairs name i = Ok p /\ (i <= p <= length pairs)%nat.
Proof.
  intros Hi. unfold iterate_to_last.
  destruct (Nat.ltb_spec (length pairs) i) as [Hlt|_]; [lia|].
  eexists; split; [reflexivity|].
  pose proof (iter_to_last_bound name (skipn i pairs) i) as B. rewrite skipn_length in B. lia.
Qed.

Lemma iter_to_first_ok name rp index :
  (length rp <= index)%nat -> exists p, iter_to_first name rp index = Ok p /\ (p <= index)%nat.
Proof.
  revert index; induction rp as [|x r IH]; intros index Hl; cbn [iter_to_first length] in *.
  - eexists; split; [reflexivity|lia].
  - destruct (beq (fst x) name).
    + destruct index as [|i]; [lia|]. destruct (IH i ltac:(lia)) as (p & E & B). exists p; split; [exact E|lia].
    + eexists; split; [reflexivity|lia].
Qed.

Lemma iterate_to_first_ok pairs name i :
  (i <= length pairs)%nat ->
  exists p, iterate_to_first pairs name i = Ok p /\ (p <= i)%nat.
Proof.
  intros Hi. unfold iterate_to_first.
  destruct (Nat.ltb_spec (length pairs) i) as [Hlt|_]; [lia|].
  apply iter_to_first_ok. rewrite rev_length, firstn_length. lia.
Qed.

(** * [Query::insert], [parse::query] *)

Lemma q_insert_ok pairs name value : exists m, q_insert pairs name value = Ok m.
Proof.
  unfold q_insert. destruct (index_of_some pairs name) as (r & -> & Hr).
  destruct (iterate_to_last_ok pairs name (bs_pos r) Hr) as (p & -> & Hp). cbn [obind].
  destruct (Nat.ltb_spec (length pairs) p) as [Hlt|_]; [lia|]. eauto.
Qed.

Lemma q_take_ok all ps vs ve m : exists m', q_take all ps vs ve m = Ok m'.
Proof.
  unfold q_take. destruct (slice_get ps (vs - 1) all) as [key|]; [|eauto].
  destruct (slice_get vs ve all) as [value|]; [|eauto].
  destruct key as [|k key']; [eauto|]. apply q_insert_ok.
Qed.

Lemma query_loop_ok all rest : forall pos ps vs m, exists l, query_loop all rest pos ps vs m = Ok l.
Proof.
  induction rest as [|c r IH]; intros pos ps vs m; cbn [query_loop].
  - apply q_take_ok.
  - destruct (c =? c_eq); [apply IH|].
    destruct (c =? c_amp); [|apply IH].
    destruct (q_take_ok all ps vs pos m) as [m' ->]. cbn [obind]. apply IH.
Qed.

Lemma query_ok q : exists l, query q = Ok l.
Proof. apply query_loop_ok. Qed.

Lemma query_no_panic q : query q <> Panic.
Proof. destruct (query_ok q) as [l ->]. discriminate. Qed.

(** * [QueryPairIter] *)

Definition qi_wf (pairs : list qpair) (it : qiter) : Prop :=
  match qi_pos it with Some p => (p <= length pairs)%nat | None => True end /\
  match qi_back it with Some b => (b <= length pairs)%nat | None => True end.

Lemma qi_new_wf pairs : qi_wf pairs qi_new.
Proof. split; exact I. Qed.

Lemma find_first_ok pairs name :
  exists f, find_first pairs name = Ok f /\ match f with Some i => (i <= length pairs)%nat | None => True end.
Proof.
  unfold find_first. destruct (index_of_some pairs name) as (r & -> & Hr).
  destruct r as [i|i]; cbn [bs_pos] in Hr.
  - destruct (iterate_to_first_ok pairs name i Hr) as (p & -> & Hp). cbn [obind].
    eexists; split; [reflexivity|]. cbn. lia.
  - eexists; split; [reflexivity|exact I].
Qed.

Lemma ensure_pos_ok pairs name it :
  qi_wf pairs it ->
  exists it', ensure_pos pairs name it = Ok it' /\ qi_wf pairs it' /\
              (exists p, qi_pos it' = Some p) /\ qi_back it' = qi_back it.
Proof.
  intros [Hp Hb]. unfold ensure_pos. destruct (qi_pos it) as [p|] eqn:Ep.
  - exists it. repeat split; try assumption; try (rewrite Ep; assumption). eauto.
  - destruct (qi_back it) as [last|] eqn:Eb.
    + destruct (iterate_to_first_ok pairs name last Hb) as (p & -> & Hle). cbn [obind].
      eexists; split; [reflexivity|]. unfold qi_wf. cbn [qi_pos qi_back].
      split; [split; [lia|exact Hb]|]. split; [eauto|reflexivity].
    + destruct (find_first_ok pairs name) as (f & -> & Hf). cbn [obind].
      eexists; split; [reflexivity|]. unfold qi_wf. cbn [qi_pos qi_back].
      split; [split; [destruct f; [exact Hf|lia]|exact I]|]. split; [eauto|reflexivity].
Qed.

Lemma ensure_back_pos_ok pairs name it :
  qi_wf pairs it ->
  exists it', ensure_back_pos pairs name it = Ok it' /\ qi_wf pairs it' /\
              (exists b, qi_back it' = Some b) /\ qi_pos it' = qi_pos it.
Proof.
  intros [Hp Hb]. unfold ensure_back_pos. destruct (qi_back it) as [b|] eqn:Eb.
  - exists it. repeat split; try assumption; try (rewrite Eb; assumption). eauto.
  - destruct (qi_pos it) as [first|] eqn:Ep.
    + destruct (iterate_to_last_ok pairs name first Hp) as (b & -> & Hle). cbn [obind].
      eexists; split; [reflexivity|]. unfold qi_wf. cbn [qi_pos qi_back].
      split; [split; [exact Hp|lia]|]. split; [eauto|reflexivity].
    + destruct (index_of_some pairs name) as (r & -> & Hr). destruct r as [i|i]; cbn [bs_pos] in Hr.
      * destruct (iterate_to_last_ok pairs name i Hr) as (b & -> & Hle). cbn [obind].
        eexists; split; [reflexivity|]. unfold qi_wf. cbn [qi_pos qi_back].
        split; [split; [exact I|lia]|]. split; [eauto|reflexivity].
      * cbn [obind]. eexists; split; [reflexivity|]. unfold qi_wf. cbn [qi_pos qi_back].
        split; [split; [exact I|lia]|]. split; [eauto|reflexivity].
Qed.

Lemma qi_next_ok pairs name it :
  qi_wf pairs it -> exists v it', qi_next pairs name it = Ok (v, it') /\ qi_wf pairs it'.
Proof.
  intros Hwf. unfold qi_next.
  destruct (ensure_pos_ok pairs name it Hwf) as (it1 & -> & Hwf1 & [p Ep] & _). cbn [obind]. rewrite Ep.
  destruct (match qi_back it1 with Some b => (p =? b)%nat | None => false end); [eauto|].
  destruct (nth_error pairs p) as [cur|] eqn:En; [|eauto].
  destruct (beq (fst cur) name); [|eauto].
  do 2 eexists; split; [reflexivity|]. destruct Hwf1 as [_ Hb1]. split; cbn [qi_pos qi_back]; [|exact Hb1].
  assert (p < length pairs)%nat by (apply nth_error_Some; congruence). lia.
Qed.

Lemma qi_next_back_ok pairs name it :
  qi_wf pairs it -> exists v it', qi_next_back pairs name it = Ok (v, it') /\ qi_wf pairs it'.
Proof.
  intros Hwf. unfold qi_next_back.
  destruct (ensure_back_pos_ok pairs name it Hwf) as (it1 & -> & Hwf1 & [b Eb] & _). cbn [obind]. rewrite Eb.
  destruct (match qi_pos it1 with Some p => (p =? b)%nat | None => false end); [eauto|].
  destruct b as [|b']; [eauto|].
  destruct (nth_error pairs b') as [cur|] eqn:En; [|eauto].
  destruct (beq (fst cur) name); [|eauto].
  do 2 eexists; split; [reflexivity|]. destruct Hwf1 as [Hp1 Hb1]. rewrite Eb in Hb1.
  split; cbn [qi_pos qi_back]; [exact Hp1|lia].
Qed.

Lemma qi_run_ok pairs name script : forall it,
  qi_wf pairs it -> exists l, qi_run qi_next qi_next_back pairs name it script = Ok l.
Proof.
  induction script as [|s rest IH]; intros it Hwf; cbn [qi_run]; [eauto|].
  destruct s.
  - destruct (qi_next_back_ok pairs name it Hwf) as (v & it' & -> & Hwf'). cbn [obind snd fst].
    destruct (IH it' Hwf') as [l ->]. cbn [obind]. eauto.
  - destruct (qi_next_ok pairs name it Hwf) as (v & it' & -> & Hwf'). cbn [obind snd fst].
    destruct (IH it' Hwf') as [l ->]. cbn [obind]. eauto.
Qed.

Lemma query_script_no_panic q name script : query_script false q name script <> Panic.
Proof.
  unfold query_script. destruct (query_ok q) as [pairs ->]. cbn [obind].
  destruct (qi_run_ok pairs name script qi_new (qi_new_wf pairs)) as [l ->]. discriminate.
Qed.

(** The code as it was: the first [next_back] of every iterator panics ([Query::get_last]). *)
Lemma query_get_last_v0_panics q name : query_script true q name [true] = Panic.
Proof.
  unfold query_script. destruct (query_ok q) as [pairs ->]. reflexivity.
Qed.

(** * [PathQuery] *)

Lemma slice_chk_prefix (a c : bytes) : slice_chk 0 (length a) (a ++ c) = Ok a.
Proof.
  unfold slice_chk, slice_get. rewrite app_length.
  replace (Nat.leb 0 (length a) && Nat.leb (length a) (length a + length c))%bool with true.
  2:{ symmetry. apply andb_true_iff. split; apply Nat.leb_le; lia. }
  unfold slice. rewrite Nat.sub_0_r. cbn [skipn]. rewrite firstn_app, Nat.sub_diag, firstn_all. cbn. rewrite app_nil_r. reflexivity.
Qed.

Lemma slice_chk_suffix (a c : bytes) : slice_chk (length a) (length (a ++ c)) (a ++ c) = Ok c.
Proof.
  unfold slice_chk, slice_get. rewrite app_length.
  replace (Nat.leb (length a) (length a + length c) && Nat.leb (length a + length c) (length a + length c))%bool with true.
  2:{ symmetry. apply andb_true_iff. split; apply Nat.leb_le; lia. }
  unfold slice. rewrite skipn_app, skipn_all, Nat.sub_diag. cbn [skipn app].
  replace (length a + length c - length a)%nat with (length c) by lia. rewrite firstn_all. reflexivity.
Qed.

Lemma pq_path_ok path query : pq_path (pq_from path query) = Ok path.
Proof. unfold pq_path, pq_from. cbn [pq_query_start pq_string]. apply slice_chk_prefix. Qed.

Lemma pq_query_ok path query : exists r, pq_query (pq_from path query) = Ok r.
Proof.
  unfold pq_query, pq_from. cbn [pq_query_start pq_string].
  destruct (Nat.eqb (length path) (length (path ++ _))); [eauto|].
  rewrite slice_chk_suffix. cbn [obind]. eauto.
Qed.

(** * [stream_body] *)

Lemma parse_range_le v a c : Range.parse_range v = Some (a, c) -> a <= u64_max /\ c <= u64_max.
Proof.
  intros H. apply RangeProofs.parse_range_syntax in H. destruct H as (sa & sb & _ & Ha & Hb).
  destruct Ha as (? & _ & _ & _ & _ & Ha). destruct Hb as (? & _ & _ & _ & _ & Hb). split; assumption.
Qed.

Lemma sanitize_range_ordered hdr s e :
  Range.sanitize_range hdr = Ok (Some (s, e)) -> s <= e /\ e <= u64_max.
Proof.
  unfold Range.sanitize_range. destruct hdr as [v|]; [|discriminate].
  destruct (Range.parse_range v) as [[start e0]|] eqn:Ep; [|discriminate].
  apply parse_range_le in Ep. destruct (N.ltb_spec e0 start) as [|Hle]; [discriminate|].
  intros H. inversion H; subst. unfold sat_add_u64. unfold u64_max in *. lia.
Qed.

Lemma stream_window_no_panic checked hdr range file_len :
  Range.sanitize_range hdr = Ok range -> stream_window checked range file_len <> Panic.
Proof.
  intros Hs. unfold stream_window. destruct range as [[s e]|].
  - apply sanitize_range_ordered in Hs as [Hle _]. unfold sub_u64.
    destruct (N.leb_spec s e) as [_|]; [|lia]. cbn [obind]. intros H. destruct (_ <? s); discriminate H.
  - unfold sub_u64. destruct (N.leb_spec 0 file_len) as [_|]; [|lia]. cbn [obind]. intros H.
    destruct (_ <? 0); discriminate H.
Qed.

(** One turn of the loop: the position before the read is inside the window ([pos < end], the loop's
    exit test) and file offsets do not wrap. *)
Lemma stream_chunk_no_panic checked pos read end_ :
  pos < end_ -> pos + read <= u64_max -> stream_chunk checked pos read end_ <> Panic.
Proof.
  intros Hlt Hfit. unfold stream_chunk, add_u64. destruct (N.leb_spec (pos + read) u64_max) as [_|]; [|lia].
  cbn [obind]. destruct (N.ltb_spec end_ (pos + read)) as [Hover|]; [|discriminate].
  unfold sub_u64. destruct (N.leb_spec end_ (pos + read)) as [_|]; [|lia]. cbn [obind].
  destruct (N.leb_spec (pos + read - end_) read) as [_|]; [|lia]. discriminate.
Qed.
