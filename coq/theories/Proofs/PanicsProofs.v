(** C02 — panic-freedom lemmas for Model/Panics.v and for the composed request path. *)
From Coq Require Import ZifyBool ZifyNat ZifyN.
From KV Require Import Bytes RustInt RustStd RustStdProofs Panics.
From KV Require PathSan PathSanProofs Range RangeProofs RangeConn RangeConnProofs Http1Read Hosts HostsProofs Negotiate NegotiateProofs Cors CacheControl Limiter LimiterProofs.
Open Scope N_scope.

(** * [binary_search_by] stays inside the slice *)

Lemma binary_search_by_bound {T} (f : T -> comparison) (l : list T) r :
  binary_search_by f l = Some r -> (bs_pos r <= length l)%nat.
Proof.
  unfold binary_search_by. destruct (Nat.eqb_spec (length l) 0) as [E0|Hn].
  - intros H; inversion H; subst. cbn. lia.
  - destruct (bs_loop_total f (length l) l 0 (length l)) as (b & E & _ & B2); try lia.
    rewrite E. destruct (nth_error l b) as [x|] eqn:En; [|discriminate].
    destruct (f x); intros H; inversion H; subst; cbn [bs_pos]; lia.
Qed.

Lemma index_of_some pairs name : exists r, index_of pairs name = Some r /\ (bs_pos r <= length pairs)%nat.
Proof.
  unfold index_of. destruct (binary_search_by_total (q_cmp name) pairs) as [r Hr].
  exists r. split; [exact Hr|]. eapply binary_search_by_bound; eassumption.
Qed.

(** * [iterate_to_last], [iterate_to_first] *)

Lemma iter_to_last_bound name rest index :
  (index <= iter_to_last name rest index <= index + length rest)%nat.
Proof.
  revert index; induction rest as [|p r IH]; intros index; cbn [iter_to_last length]; [lia|].
  destruct (beq (fst p) name); [|lia]. specialize (IH (S index)). lia.
Qed.

Lemma iterate_to_last_ok pairs name i :
  (i <= length pairs)%nat ->
  exists p, iterate_to_last pairs name i = Ok p /\ (i <= p <= length pairs)%nat.
Proof.
  intros Hi. unfold iterate_to_last.
  destruct (Nat.ltb_spec (length pairs) i) as [Hlt|_]; [lia|].
  eexists; split; [reflexivity|].
  pose proof (iter_to_last_bound name (skipn i pairs) i) as B. rewrite skipn_length in B. lia.
Qed.

Lemma iter_to_first_ok name rp index :
  (length rp <= index)%nat -> exists p, iter_to_first name rp index = Ok p /\ (p <= index)%nat.
Proof.
  revert index; induction rp as [|x r IH]; intros index Hl; cbn [iter_to_first length] in *.
  - eexists; split; [reflexivity|lia].
  - destruct (beq (fst x) name).
    + destruct index as [|i]; [lia|]. destruct (IH i ltac:(lia)) as (p & E & B). exists p; split; [exact E|lia].
    + eexists; split; [reflexivity|lia].
Qed.

Lemma iterate_to_first_ok pairs name i :
  (i <= length pairs)%nat ->
  exists p, iterate_to_first pairs name i = Ok p /\ (p <= i)%nat.
Proof.
  intros Hi. unfold iterate_to_first.
  destruct (Nat.ltb_spec (length pairs) i) as [Hlt|_]; [lia|].
  apply iter_to_first_ok. rewrite rev_length, firstn_length. lia.
Qed.

(** * [Query::insert], [parse::query] *)

Lemma q_insert_ok pairs name value : exists m, q_insert pairs name value = Ok m.
Proof.
  unfold q_insert. destruct (index_of_some pairs name) as (r & -> & Hr).
  destruct (iterate_to_last_ok pairs name (bs_pos r) Hr) as (p & -> & Hp). cbn [obind].
  destruct (Nat.ltb_spec (length pairs) p) as [Hlt|_]; [lia|]. eauto.
Qed.

Lemma q_take_ok all ps vs ve m : exists m', q_take all ps vs ve m = Ok m'.
Proof.
  unfold q_take. destruct (slice_get ps (vs - 1) all) as [key|]; [|eauto].
  destruct (slice_get vs ve all) as [value|]; [|eauto].
  destruct key as [|k key']; [eauto|]. apply q_insert_ok.
Qed.

Lemma query_loop_ok all rest : forall pos ps vs m, exists l, query_loop all rest pos ps vs m = Ok l.
Proof.
  induction rest as [|c r IH]; intros pos ps vs m; cbn [query_loop].
  - apply q_take_ok.
  - destruct (c =? c_eq); [apply IH|].
    destruct (c =? c_amp); [|apply IH].
    destruct (q_take_ok all ps vs pos m) as [m' ->]. cbn [obind]. apply IH.
Qed.

Lemma query_ok q : exists l, query q = Ok l.
Proof. apply query_loop_ok. Qed.

Lemma query_no_panic q : query q <> Panic.
Proof. destruct (query_ok q) as [l ->]. discriminate. Qed.

(** * [QueryPairIter] *)

Definition qi_wf (pairs : list qpair) (it : qiter) : Prop :=
  match qi_pos it with Some p => (p <= length pairs)%nat | None => True end /\
  match qi_back it with Some b => (b <= length pairs)%nat | None => True end.

Lemma qi_new_wf pairs : qi_wf pairs qi_new.
Proof. split; exact I. Qed.

Lemma find_first_ok pairs name :
  exists f, find_first pairs name = Ok f /\ match f with Some i => (i <= length pairs)%nat | None => True end.
Proof.
  unfold find_first. destruct (index_of_some pairs name) as (r & -> & Hr).
  destruct r as [i|i]; cbn [bs_pos] in Hr.
  - destruct (iterate_to_first_ok pairs name i Hr) as (p & -> & Hp). cbn [obind].
    eexists; split; [reflexivity|]. cbn. lia.
  - eexists; split; [reflexivity|exact I].
Qed.

Lemma ensure_pos_ok pairs name it :
  qi_wf pairs it ->
  exists it', ensure_pos pairs name it = Ok it' /\ qi_wf pairs it' /\
              (exists p, qi_pos it' = Some p) /\ qi_back it' = qi_back it.
Proof.
  intros [Hp Hb]. unfold ensure_pos. destruct (qi_pos it) as [p|] eqn:Ep.
  - exists it. repeat split; try assumption; try (rewrite Ep; assumption). eauto.
  - destruct (qi_back it) as [last|] eqn:Eb.
    + destruct (iterate_to_first_ok pairs name last Hb) as (p & -> & Hle). cbn [obind].
      eexists; split; [reflexivity|]. unfold qi_wf. cbn [qi_pos qi_back].
      split; [split; [lia|exact Hb]|]. split; [eauto|reflexivity].
    + destruct (find_first_ok pairs name) as (f & -> & Hf). cbn [obind].
      eexists; split; [reflexivity|]. unfold qi_wf. cbn [qi_pos qi_back].
      split; [split; [destruct f; [exact Hf|lia]|exact I]|]. split; [eauto|reflexivity].
Qed.

Lemma ensure_back_pos_ok pairs name it :
  qi_wf pairs it ->
  exists it', ensure_back_pos pairs name it = Ok it' /\ qi_wf pairs it' /\
              (exists b, qi_back it' = Some b) /\ qi_pos it' = qi_pos it.
Proof.
  intros [Hp Hb]. unfold ensure_back_pos. destruct (qi_back it) as [b|] eqn:Eb.
  - exists it. repeat split; try assumption; try (rewrite Eb; assumption). eauto.
  - destruct (qi_pos it) as [first|] eqn:Ep.
    + destruct (iterate_to_last_ok pairs name first Hp) as (b & -> & Hle). cbn [obind].
      eexists; split; [reflexivity|]. unfold qi_wf. cbn [qi_pos qi_back].
      split; [split; [exact Hp|lia]|]. split; [eauto|reflexivity].
    + destruct (index_of_some pairs name) as (r & -> & Hr). destruct r as [i|i]; cbn [bs_pos] in Hr.
      * destruct (iterate_to_last_ok pairs name i Hr) as (b & -> & Hle). cbn [obind].
        eexists; split; [reflexivity|]. unfold qi_wf. cbn [qi_pos qi_back].
        split; [split; [exact I|lia]|]. split; [eauto|reflexivity].
      * cbn [obind]. eexists; split; [reflexivity|]. unfold qi_wf. cbn [qi_pos qi_back].
        split; [split; [exact I|lia]|]. split; [eauto|reflexivity].
Qed.

Lemma qi_next_ok pairs name it :
  qi_wf pairs it -> exists v it', qi_next pairs name it = Ok (v, it') /\ qi_wf pairs it'.
Proof.
  intros Hwf. unfold qi_next.
  destruct (ensure_pos_ok pairs name it Hwf) as (it1 & -> & Hwf1 & [p Ep] & _). cbn [obind]. rewrite Ep.
  destruct (match qi_back it1 with Some b => (p =? b)%nat | None => false end); [eauto|].
  destruct (nth_error pairs p) as [cur|] eqn:En; [|eauto].
  destruct (beq (fst cur) name); [|eauto].
  do 2 eexists; split; [reflexivity|]. destruct Hwf1 as [_ Hb1]. split; cbn [qi_pos qi_back]; [|exact Hb1].
  assert (p < length pairs)%nat by (apply nth_error_Some; congruence). lia.
Qed.

Lemma qi_next_back_ok pairs name it :
  qi_wf pairs it -> exists v it', qi_next_back pairs name it = Ok (v, it') /\ qi_wf pairs it'.
Proof.
  intros Hwf. unfold qi_next_back.
  destruct (ensure_back_pos_ok pairs name it Hwf) as (it1 & -> & Hwf1 & [b Eb] & _). cbn [obind]. rewrite Eb.
  destruct (match qi_pos it1 with Some p => (p =? b)%nat | None => false end); [eauto|].
  destruct b as [|b']; [eauto|].
  destruct (nth_error pairs b') as [cur|] eqn:En; [|eauto].
  destruct (beq (fst cur) name); [|eauto].
  do 2 eexists; split; [reflexivity|]. destruct Hwf1 as [Hp1 Hb1]. rewrite Eb in Hb1.
  split; cbn [qi_pos qi_back]; [exact Hp1|lia].
Qed.

Lemma qi_run_ok pairs name script : forall it,
  qi_wf pairs it -> exists l, qi_run qi_next qi_next_back pairs name it script = Ok l.
Proof.
  induction script as [|s rest IH]; intros it Hwf; cbn [qi_run]; [eauto|].
  destruct s.
  - destruct (qi_next_back_ok pairs name it Hwf) as (v & it' & -> & Hwf'). cbn [obind snd fst].
    destruct (IH it' Hwf') as [l ->]. cbn [obind]. eauto.
  - destruct (qi_next_ok pairs name it Hwf) as (v & it' & -> & Hwf'). cbn [obind snd fst].
    destruct (IH it' Hwf') as [l ->]. cbn [obind]. eauto.
Qed.

Lemma query_script_no_panic q name script : query_script false q name script <> Panic.
Proof.
  unfold query_script. destruct (query_ok q) as [pairs ->]. cbn [obind].
  destruct (qi_run_ok pairs name script qi_new (qi_new_wf pairs)) as [l ->]. discriminate.
Qed.

(** The code as it was: the first [next_back] of every iterator panics ([Query::get_last]). *)
Lemma query_get_last_v0_panics q name : query_script true q name [true] = Panic.
Proof.
  unfold query_script. destruct (query_ok q) as [pairs ->]. reflexivity.
Qed.

(** * [PathQuery] *)

Lemma slice_chk_prefix (a c : bytes) : slice_chk 0 (length a) (a ++ c) = Ok a.
Proof.
  unfold slice_chk, slice_get. rewrite app_length.
  replace (Nat.leb 0 (length a) && Nat.leb (length a) (length a + length c))%bool with true.
  2:{ symmetry. apply andb_true_iff. split; apply Nat.leb_le; lia. }
  unfold slice. rewrite Nat.sub_0_r. cbn [skipn]. rewrite firstn_app, Nat.sub_diag, firstn_all. cbn. rewrite app_nil_r. reflexivity.
Qed.

Lemma slice_chk_suffix (a c : bytes) : slice_chk (length a) (length (a ++ c)) (a ++ c) = Ok c.
Proof.
  unfold slice_chk, slice_get. rewrite app_length.
  replace (Nat.leb (length a) (length a + length c) && Nat.leb (length a + length c) (length a + length c))%bool with true.
  2:{ symmetry. apply andb_true_iff. split; apply Nat.leb_le; lia. }
  unfold slice. rewrite skipn_app, skipn_all, Nat.sub_diag. cbn [skipn app].
  replace (length a + length c - length a)%nat with (length c) by lia. rewrite firstn_all. reflexivity.
Qed.

Lemma pq_path_ok path query : pq_path (pq_from path query) = Ok path.
Proof. unfold pq_path, pq_from. cbn [pq_query_start pq_string]. apply slice_chk_prefix. Qed.

Lemma pq_query_ok path query : exists r, pq_query (pq_from path query) = Ok r.
Proof.
  unfold pq_query, pq_from. cbn [pq_query_start pq_string].
  destruct (Nat.eqb (length path) (length (path ++ _))); [eauto|].
  rewrite slice_chk_suffix. cbn [obind]. eauto.
Qed.

(** * [stream_body] *)

Lemma parse_range_le v a c : Range.parse_range v = Some (a, c) -> a <= u64_max /\ c <= u64_max.
Proof.
  intros H. apply RangeProofs.parse_range_syntax in H. destruct H as (sa & sb & _ & Ha & Hb).
  destruct Ha as (? & _ & _ & _ & _ & Ha). destruct Hb as (? & _ & _ & _ & _ & Hb). split; assumption.
Qed.

Lemma sanitize_range_ordered hdr s e :
  Range.sanitize_range hdr = Ok (Some (s, e)) -> s <= e /\ e <= u64_max.
Proof.
  unfold Range.sanitize_range. destruct hdr as [v|]; [|discriminate].
  destruct (Range.parse_range v) as [[start e0]|] eqn:Ep; [|discriminate].
  apply parse_range_le in Ep. destruct (N.ltb_spec e0 start) as [|Hle]; [discriminate|].
  intros H. inversion H; subst. unfold sat_add_u64. unfold u64_max in *. lia.
Qed.

Lemma stream_window_no_panic checked hdr range file_len :
  Range.sanitize_range hdr = Ok range -> stream_window checked range file_len <> Panic.
Proof.
  intros Hs. unfold stream_window. destruct range as [[s e]|].
  - apply sanitize_range_ordered in Hs as [Hle _].
    destruct (N.leb_spec file_len s) as [|Hin]; [discriminate|]. unfold sub_u64.
    destruct (N.leb_spec s (N.min e file_len)) as [_|]; [|lia]. cbn [obind]. intros H. destruct (_ <? s); discriminate H.
  - unfold sub_u64. destruct (N.leb_spec 0 file_len) as [_|]; [|lia]. cbn [obind]. intros H.
    destruct (_ <? 0); discriminate H.
Qed.

(** One turn of the loop: the position before the read is inside the window ([pos < end], the loop's
    exit test) and file offsets do not wrap. *)
Lemma stream_chunk_no_panic checked pos read end_ :
  pos < end_ -> pos + read <= u64_max -> stream_chunk checked pos read end_ <> Panic.
Proof.
  intros Hlt Hfit. unfold stream_chunk, add_u64. destruct (N.leb_spec (pos + read) u64_max) as [_|]; [|lia].
  cbn [obind]. destruct (N.ltb_spec end_ (pos + read)) as [Hover|]; [|discriminate].
  unfold sub_u64. destruct (N.leb_spec end_ (pos + read)) as [_|]; [|lia]. cbn [obind].
  destruct (N.leb_spec (pos + read - end_) read) as [_|]; [|lia]. discriminate.
Qed.

(** The whole loop.  Invariant: the position before each read is at most [end] (at the start: [start <= end]
    by [sanitize_range] resp. [0 <= file_len]; afterwards the loop goes on only while [pos < end]).  The
    loop never sends more than the announced length and exactly it when the file delivers enough. *)
Ltac min_lia :=
  repeat match goal with
         | |- context [N.min ?a ?b] =>
             let H := fresh "Hmin" in destruct (N.min_spec a b) as [[? H]|[? H]]; rewrite H; clear H
         end; lia.

Lemma stream_loop_sent checked end_ reads : forall pos,
  pos <= end_ -> pos + nsum (live_reads reads) <= u64_max -> Forall (fun r => r <= stream_buf) reads ->
  exists sent, stream_loop checked pos end_ reads = Ok sent /\
               nsum sent = N.min (end_ - pos) (nsum (live_reads reads)) /\ Forall (fun c => c <= stream_buf) sent.
Proof.
  induction reads as [|r rest IH]; intros pos Hpos Hfit Hbuf.
  - exists []. cbn [stream_loop live_reads nsum]. split; [reflexivity|]. split; [min_lia|constructor].
  - revert Hfit. cbn [stream_loop live_reads]. destruct (N.eqb_spec r 0) as [->|Hr]; intros Hfit.
    + exists []. cbn [nsum]. split; [reflexivity|]. split; [min_lia|constructor].
    + cbn [nsum] in Hfit. inversion Hbuf as [|? ? Hrb Hrest]; subst.
      unfold stream_chunk, add_u64. destruct (N.leb_spec (pos + r) u64_max) as [_|]; [|lia]. cbn [obind].
      destruct (N.ltb_spec end_ (pos + r)) as [Hover|Hin].
      * unfold sub_u64. destruct (N.leb_spec end_ (pos + r)) as [_|]; [|lia]. cbn [obind].
        destruct (N.leb_spec (pos + r - end_) r) as [_|]; [|lia]. cbn [obind fst snd].
        destruct (N.ltb_spec stream_buf (r - (pos + r - end_))) as [|_]; [lia|].
        destruct (N.leb_spec end_ (pos + r)) as [_|]; [|lia].
        exists [r - (pos + r - end_)]. cbn [nsum]. split; [reflexivity|].
        split; [min_lia|constructor; [lia|constructor]].
      * cbn [obind fst snd]. destruct (N.ltb_spec stream_buf r) as [|_]; [lia|].
        destruct (N.leb_spec end_ (pos + r)) as [Hend|Hmore].
        -- exists [r]. cbn [nsum]. split; [reflexivity|]. split; [min_lia|constructor; [lia|constructor]].
        -- destruct (IH (pos + r)) as (l & -> & Hl & Hlb); [lia|lia|assumption|].
           cbn [obind]. exists (r :: l). cbn [nsum]. split; [reflexivity|].
           split; [rewrite Hl; min_lia|constructor; assumption].
Qed.

Lemma stream_window_start_le_end checked hdr range file_len start end_ len :
  Range.sanitize_range hdr = Ok range -> stream_window checked range file_len = Ok (start, end_, len) ->
  start <= end_ /\ len = end_ - start /\ start <= 9223372036854775807.
Proof.
  intros Hs. unfold stream_window. destruct range as [[s e]|].
  - apply sanitize_range_ordered in Hs as [Hle _]. unfold sub_u64.
    destruct (N.leb_spec file_len s) as [|Hin]; [discriminate|].
    assert (Hm : s <= N.min e file_len) by (destruct (N.min_spec e file_len) as [[_ ->]|[_ ->]]; lia).
    destruct (N.leb_spec s (N.min e file_len)) as [_|]; [|lia]. cbn [obind].
    destruct (N.ltb_spec 9223372036854775807 s) as [Hbig|Hsmall]; intros Hw; inversion Hw; subst.
    repeat split; lia.
  - unfold sub_u64. destruct (N.leb_spec 0 file_len) as [_|]; [|lia]. cbn [obind].
    destruct (N.ltb_spec 9223372036854775807 0) as [Hbig|Hsmall]; intros Hw; inversion Hw; subst.
    repeat split; lia.
Qed.

(** [stream_body] as a whole: for every Range header [sanitize_request] accepts, every file length and every
    sequence of read results (each at most the buffer, file offsets below 2^63 as the kernel keeps them). *)
Lemma stream_body_no_panic checked hdr range file_len reads start end_ len :
  Range.sanitize_range hdr = Ok range -> stream_window checked range file_len = Ok (start, end_, len) ->
  Forall (fun r => r <= stream_buf) reads -> start + nsum (live_reads reads) <= 9223372036854775807 ->
  exists sent, stream_loop checked start end_ reads = Ok sent /\
               nsum sent = N.min len (nsum (live_reads reads)) /\ nsum sent <= len.
Proof.
  intros Hs Hw Hbuf Hfit. destruct (stream_window_start_le_end _ _ _ _ _ _ _ Hs Hw) as (Hle & -> & _).
  destruct (stream_loop_sent checked end_ reads start) as (sent & H1 & H2 & _);
    [assumption|unfold u64_max; lia|assumption|].
  exists sent. split; [assumption|]. split; [assumption|]. rewrite H2. min_lia.
Qed.

(** The reads of a regular file are within the buffer and add up to what is left of the file. *)
Lemma file_reads_spec fuel : forall pos file_len,
  Forall (fun r => r <= stream_buf) (file_reads fuel pos file_len) /\
  nsum (live_reads (file_reads fuel pos file_len)) <= file_len - pos.
Proof.
  induction fuel as [|f IH]; intros pos file_len; cbn [file_reads].
  - split; [constructor|cbn [live_reads nsum]; lia].
  - destruct (N.leb_spec file_len pos) as [Hle|Hlt]; cbv iota zeta.
    + split; [constructor; [unfold stream_buf; lia|constructor]|].
      change (live_reads [0]) with (@nil N). cbn [nsum]. lia.
    + destruct (IH (pos + N.min stream_buf (file_len - pos)) file_len) as [H1 H2].
      destruct (N.min_spec stream_buf (file_len - pos)) as [[Hm Em]|[Hm Em]]; rewrite Em in *.
      * split; [constructor; [lia|assumption]|]. cbn [live_reads].
        destruct (N.eqb_spec stream_buf 0) as [E|_]; [unfold stream_buf in E; lia|]. cbn [nsum]. lia.
      * split; [constructor; [lia|assumption]|]. cbn [live_reads].
        destruct (N.eqb_spec (file_len - pos) 0) as [E|_]; [lia|]. cbn [nsum]. lia.
Qed.

Lemma stream_reply_no_panic checked hdr range file_len :
  Range.sanitize_range hdr = Ok range -> file_len <= 9223372036854775807 ->
  exists r, stream_reply checked range file_len = r /\ r <> Panic /\
            forall len sent, r = Ok (len, sent) -> sent <= len.
Proof.
  intros Hs Hfl. eexists. split; [reflexivity|]. unfold stream_reply.
  destruct (stream_window checked range file_len) as [[[start end_] len]|e|] eqn:Hw.
  - cbn [obind]. set (reads := file_reads _ start file_len).
    destruct (file_reads_spec (S (N.to_nat (file_len / stream_buf + 2))) start file_len) as [Hb Hsum].
    fold reads in Hb, Hsum.
    destruct (stream_window_start_le_end _ _ _ _ _ _ _ Hs Hw) as (_ & _ & Hst).
    destruct (stream_body_no_panic checked hdr range file_len reads start end_ len Hs Hw Hb) as (sent & -> & _ & Hle); [lia|].
    cbn [obind]. split; [discriminate|]. intros l s H. inversion H; subst. assumption.
  - cbn [obind]. split; [discriminate|]. intros l s H. discriminate H.
  - exfalso. eapply stream_window_no_panic; eassumption.
Qed.

(** * The HTTP/1 reader ([Model/Http1Read.v]): [parse::headers], [read::request], [Http1Body] *)
Module Reader.
Import Http1Read.

Lemma slice_chk_ok lo hi (s : bytes) : (lo <= hi)%nat -> (hi <= length s)%nat -> slice_chk lo hi s = Ok (slice lo hi s).
Proof.
  intros H1 H2. unfold slice_chk, slice_get.
  replace (Nat.leb lo hi && Nat.leb hi (length s))%bool with true; [reflexivity|].
  symmetry. apply andb_true_iff. split; apply Nat.leb_le; assumption.
Qed.

Lemma nth_error_skipn_add {A} (l : list A) p j : nth_error (skipn p l) j = nth_error l (p + j).
Proof.
  revert l; induction p as [|p IH]; intros l; [reflexivity|].
  destruct l as [|x l]; cbn [skipn Nat.add nth_error]; [destruct j; reflexivity|apply IH].
Qed.

Lemma nth_error_here {A} (pre : list A) c rest : nth_error (pre ++ c :: rest) (length pre) = Some c.
Proof. rewrite nth_error_app2 by lia. rewrite Nat.sub_diag. reflexivity. Qed.

(** optional whitespace: SP or HTAB *)
Definition is_ows_at (l : bytes) (j : nat) : Prop := exists c, nth_error l j = Some c /\ ows c = true.

Lemma pns_spec l i : position_non_ows l = Some i -> forall j, (j < i)%nat -> is_ows_at l j.
Proof.
  revert i; induction l as [|c r IH]; intros i H j Hj; cbn [position_non_ows] in H; [discriminate|].
  destruct (ows c) eqn:Eo.
  - destruct (position_non_ows r) as [k|] eqn:E; [|discriminate]. cbn in H. inversion H; subst.
    destruct j as [|j]; [exists c; split; [reflexivity|exact Eo]|]. unfold is_ows_at. cbn [nth_error]. apply (IH k eq_refl). lia.
  - inversion H; subst. lia.
Qed.

Lemma pns_pos c r i : position_non_ows (c :: r) = Some i -> ows c = true -> (1 <= i)%nat.
Proof.
  intros H Ho. cbn [position_non_ows] in H. rewrite Ho in H.
  destruct (position_non_ows r); [|discriminate]. cbn in H. inversion H. lia.
Qed.

Lemma ows_not_cr c : ows c = true -> c <> CR.
Proof. intros H ->. vm_compute in H. discriminate. Qed.
Lemma ows_not_lf c : ows c = true -> c <> LF.
Proof. intros H ->. vm_compute in H. discriminate. Qed.

(** trimming trailing whitespace stays between [value_start] and the untrimmed end *)
Lemma trim_end_bounds all vs : forall ve, (vs <= ve)%nat -> (vs <= trim_end all vs ve <= ve)%nat.
Proof.
  induction ve as [|p IH]; intros H; cbn [trim_end]; [lia|].
  destruct (Nat.ltb vs (S p)) eqn:E; cbn [andb]; [|lia]. apply Nat.ltb_lt in E.
  destruct (match nth_error all p with Some c => ows c | None => false end); [|lia].
  specialize (IH ltac:(lia)). lia.
Qed.

(** What the loop knows about [value_start] while it is inside a value. *)
Definition vs_inv (all : bytes) (pos vs : nat) : Prop :=
  ((vs <= pos)%nat \/ (forall i, (pos <= i < vs)%nat -> is_ows_at all i)) /\
  (((1 <= vs)%nat /\ nth_error all (vs - 1) <> Some CR) \/ (vs < pos)%nat).

Lemma vs_inv_step all pos vs : vs_inv all pos vs -> vs_inv all (S pos) vs.
Proof.
  intros [[H1|H1] H2]; (split; [|destruct H2 as [H2|H2]; [left; exact H2|right; lia]]).
  - left; lia.
  - right. intros i Hi. apply H1. lia.
Qed.

Lemma hdr_loop_no_panic all : forall rest pre pos inval lf ns ne vs m,
  all = pre ++ rest -> pos = length pre -> (inval = true -> vs_inv all pos vs) ->
  hdr_loop all rest pos inval lf ns ne vs m <> Panic.
Proof.
  induction rest as [|byte rest' IH]; intros pre pos inval lf ns ne vs m Hall Hpos Hinv; cbn [hdr_loop]; [discriminate|].
  assert (Hall' : all = (pre ++ [byte]) ++ rest') by (rewrite <- app_assoc; exact Hall).
  assert (Hpos' : S pos = length (pre ++ [byte])) by (rewrite app_length; cbn; lia).
  assert (Hbyte : nth_error all pos = Some byte) by (subst; apply nth_error_here).
  assert (Hlen : (pos < length all)%nat) by (apply nth_error_Some; congruence).
  destruct (N.eqb_spec byte CR) as [Hcr|Hncr].
  { eapply IH; eauto. intros Hv. apply vs_inv_step. auto. }
  destruct ((byte =? LF) && (S lf =? 2)%nat)%bool; [discriminate|].
  destruct inval.
  - specialize (Hinv eq_refl).
    destruct (N.eqb_spec byte LF) as [Hlf|Hnlf].
    + destruct (slice_get ns ne all) as [raw|]; [|discriminate].
      destruct (header_name raw) as [name|]; [|discriminate].
      assert (Hve0 : (vs <= (if prev_is_cr all pos then pos - 1 else pos))%nat
                    /\ ((if prev_is_cr all pos then pos - 1 else pos) <= length all)%nat).
      { destruct Hinv as [H1 H2].
        assert (Hle : (vs <= pos)%nat).
        { destruct H1 as [H1|H1]; [exact H1|].
          destruct (Nat.le_gt_cases vs pos) as [?|Hgt]; [assumption|].
          specialize (H1 pos ltac:(lia)). destruct H1 as [c [H1 Ho]]. rewrite Hbyte in H1. inversion H1 as [E]. subst c byte.
          exfalso. exact (ows_not_lf _ Ho eq_refl). }
        destruct (prev_is_cr all pos) eqn:Ecr; [|split; lia].
        unfold prev_is_cr in Ecr. destruct pos as [|p]; [discriminate|].
        destruct (nth_error all p) as [c|] eqn:Ep; [|discriminate]. apply N.eqb_eq in Ecr. subst c.
        split; [|lia]. replace (S p - 1)%nat with p by lia.
        destruct H2 as [[Hge Hncr2]|Hlt]; [|lia].
        destruct (Nat.eq_dec vs (S p)) as [->|]; [|lia].
        replace (S p - 1)%nat with p in Hncr2 by lia. congruence. }
      assert (Hve : (vs <= trim_end all vs (if prev_is_cr all pos then pos - 1 else pos))%nat
                    /\ (trim_end all vs (if prev_is_cr all pos then pos - 1 else pos) <= length all)%nat).
      { destruct Hve0 as [Ha Hb]. pose proof (trim_end_bounds all vs _ Ha). lia. }
      destruct Hve as [Hv1 Hv2]. rewrite (slice_chk_ok _ _ _ Hv1 Hv2).
      destruct (hvalue_ok _); [|discriminate].
      eapply IH; eauto. discriminate.
    + eapply IH; eauto. intros _. apply vs_inv_step. exact Hinv.
  - destruct (N.eqb_spec byte COLON) as [Hc|Hnc].
    + destruct (next_is_ows all pos).
      * eapply IH; eauto. discriminate.
      * eapply IH; eauto. intros _. split; [left; lia|left]. split; [lia|].
        replace (S pos - 1)%nat with pos by lia. rewrite Hbyte. subst byte. unfold COLON, CR. intros E; inversion E.
    + destruct (ows byte) eqn:Hs.
      * eapply IH; eauto. intros _. unfold value_start_from.
        destruct (position_non_ows (skipn pos all)) as [i|] eqn:Epn.
        -- assert (Hsk : skipn pos all = byte :: rest').
           { subst all pos. rewrite skipn_app, skipn_all, Nat.sub_diag. reflexivity. }
           assert (Hi : (1 <= i)%nat) by (rewrite Hsk in Epn; eapply pns_pos; eauto).
           assert (Hsp : forall j, (j < i)%nat -> is_ows_at all (pos + j)).
           { intros j Hj. unfold is_ows_at. rewrite <- nth_error_skipn_add. eapply pns_spec; eauto. }
           split.
           ++ right. intros k Hk. replace k with (pos + (k - pos))%nat by lia. apply Hsp. lia.
           ++ left. split; [lia|]. replace (i + pos - 1)%nat with (pos + (i - 1))%nat by lia.
              destruct (Hsp (i - 1)%nat ltac:(lia)) as [c [Hc Ho]]. rewrite Hc. intros E; inversion E. exact (ows_not_cr _ Ho H0).
        -- split; [left; lia|right; lia].
      * eapply IH; eauto. discriminate.
Qed.

Lemma parse_headers_no_panic b : parse_headers b <> Panic.
Proof.
  unfold parse_headers. apply (hdr_loop_no_panic b b [] 0%nat); try reflexivity. discriminate.
Qed.

Lemma hdr_loop_end all : forall rest pos inval lf ns ne vs m m' e,
  (pos + length rest = length all)%nat ->
  hdr_loop all rest pos inval lf ns ne vs m = Ok (m', e) -> (e <= length all)%nat.
Proof.
  induction rest as [|byte rest' IH]; intros pos inval lf ns ne vs m m' e Hl H; cbn [hdr_loop length] in *.
  - inversion H; subst. lia.
  - destruct (byte =? CR); [eapply IH; [|exact H]; lia|].
    destruct ((byte =? LF) && (S lf =? 2)%nat)%bool; [inversion H; subst; lia|].
    destruct inval.
    + destruct (byte =? LF).
      * destruct (slice_get ns ne all) as [raw|]; [|discriminate]. destruct (header_name raw) as [name|]; [|discriminate].
        destruct (slice_chk _ _ all) as [v| |]; try discriminate.
        destruct (hvalue_ok v); [|discriminate]. eapply IH; [|exact H]; lia.
      * eapply IH; [|exact H]; lia.
    + destruct (byte =? COLON); [destruct (next_is_ows all pos); (eapply IH; [|exact H]; lia)|].
      destruct (ows byte); (eapply IH; [|exact H]; lia).
Qed.

Definition scan_ok (all : bytes) (s : scan) : Prop :=
  (sc_pe s <= sc_end s)%nat /\ (sc_pe s <= length all)%nat /\ (sc_end s <= S (length all))%nat.

Lemma req_loop_ok all : forall rest pre pos st method ps pe ver lf,
  all = pre ++ rest -> pos = length pre -> (length method <= pos)%nat -> (pe <= pos)%nat ->
  req_loop all rest pos st method ps pe ver lf <> Panic /\
  (forall s, req_loop all rest pos st method ps pe ver lf = Ok s -> scan_ok all s).
Proof.
  induction rest as [|byte rest' IH]; intros pre pos st method ps pe ver lf Hall Hpos Hm Hpe; cbn [req_loop].
  { split; [discriminate|]. intros s H. inversion H; subst s. unfold scan_ok. cbn.
    assert (length all = pos) by (subst; rewrite app_nil_r; reflexivity). lia. }
  assert (Hall' : all = (pre ++ [byte]) ++ rest') by (rewrite <- app_assoc; exact Hall).
  assert (Hpos' : S pos = length (pre ++ [byte])) by (rewrite app_length; cbn; lia).
  assert (Hlen : (pos < length all)%nat).
  { subst all pos. rewrite app_length. cbn. lia. }
  destruct (byte =? CR); [apply (IH (pre ++ [byte])); auto; lia|].
  destruct ((byte =? LF) && (S lf =? 2)%nat)%bool.
  { split; [discriminate|]. intros s H. inversion H; subst s. unfold scan_ok. cbn. lia. }
  destruct st.
  - destruct ((byte =? SP) || (length method =? 7)%nat)%bool.
    + rewrite slice_chk_ok by lia. destruct (method_ok _).
      * apply (IH (pre ++ [byte])); auto; lia.
      * split; [discriminate|]. intros s H; discriminate.
    + apply (IH (pre ++ [byte])); auto; try lia. rewrite app_length. cbn. lia.
  - destruct (byte =? SP); apply (IH (pre ++ [byte])); auto; lia.
  - destruct ((byte =? LF) || (length ver =? 8)%nat)%bool.
    + destruct (version_code ver).
      * apply (IH (pre ++ [byte])); auto; lia.
      * split; [discriminate|]. intros s H; discriminate.
    + apply (IH (pre ++ [byte])); auto; lia.
  - rewrite slice_chk_ok by lia.
    destruct (parse_headers (slice pos (length all) all)) as [[h e]| |] eqn:Eh.
    + split; [discriminate|]. intros s H. inversion H; subst s. unfold scan_ok. cbn.
      unfold parse_headers in Eh. apply hdr_loop_end in Eh; [|cbn; lia].
      rewrite slice_length in Eh by lia. lia.
    + split; [discriminate|]. intros s H; discriminate.
    + exfalso. eapply parse_headers_no_panic; eassumption.
Qed.

Lemma req_finish_no_panic https dh all s : scan_ok all s -> req_finish https dh all s <> Panic.
Proof.
  intros (H1 & H2 & H3). unfold req_finish.
  destruct (Nat.leb_spec (sc_pe s) (sc_ps s)) as [|Hlt]; [discriminate|].
  generalize (usable_host (match hm_get host_name (sc_headers s) with Some h => Some h | None => dh end)). intros host.
  rewrite slice_chk_ok by lia. cbn [obind].
  destruct (no_host host _); [discriminate|].
  destruct (negb (method_ok (sc_method s))); [discriminate|].
  destruct (uri_of https host _) as [[[auth path] query]|]; [|discriminate].
  destruct (version_code (sc_ver s)); [|discriminate].
  destruct (sc_end s) as [|body_start] eqn:Ee; [lia|].
  rewrite slice_chk_ok by lia. discriminate.
Qed.

Lemma parse_request_no_panic https dh buffer : parse_request https dh buffer <> Panic.
Proof.
  unfold parse_request.
  destruct (req_loop_ok buffer buffer [] 0%nat RMethod [] 0%nat 0%nat [] 0%nat eq_refl eq_refl (Nat.le_refl _) (Nat.le_refl _))
    as [Hnp Hok].
  destruct (req_loop buffer buffer 0 RMethod [] 0 0 [] 0) as [s| |] eqn:E; cbn [obind]; try discriminate.
  - apply req_finish_no_panic. apply Hok. reflexivity.
  - exfalso. apply Hnp. reflexivity.
Qed.

Lemma read_headers_no_panic grow : forall fuel mode max_len buf cap r,
  read_headers grow fuel mode max_len buf cap r <> Panic.
Proof.
  induction fuel as [|f IH]; intros mode max_len buf cap r; cbn [read_headers]; [discriminate|].
  destruct (max_len <=? length buf)%nat; [discriminate|].
  destruct (rd_read _ _ _) as [got r'| |]; try discriminate.
  destruct (null got); [discriminate|].
  destruct (_ && _)%bool; [discriminate|].
  destruct (contains_two_newlines _); [discriminate|apply IH].
Qed.

Lemma read_request_no_panic grow mode https dh max_len r : read_request grow mode https dh max_len r <> Panic.
Proof.
  unfold read_request.
  destruct (read_headers grow _ mode max_len [] 512 r) as [br| |] eqn:E; cbn [obind]; try discriminate.
  - destruct (parse_request https dh (fst br)) as [q| |] eqn:Eq; cbn [obind]; try discriminate.
    exfalso. eapply parse_request_no_panic; eassumption.
  - exfalso. eapply read_headers_no_panic; eassumption.
Qed.

Lemma rtem_loop_no_panic grow : forall fuel mode max_len buf cap take_left r,
  rtem_loop grow fuel mode max_len buf cap take_left r <> Panic.
Proof.
  induction fuel as [|f IH]; intros mode max_len buf cap take_left r; cbn [rtem_loop]; [discriminate|].
  destruct (take_left =? 0)%nat; [discriminate|].
  destruct (rd_read _ _ _) as [got r'| |]; try discriminate.
  destruct (null got); [discriminate|].
  destruct (max_len <=? _)%nat; [discriminate|apply IH].
Qed.

Lemma read_to_bytes_no_panic grow mode early cl limit r : read_to_bytes grow mode early cl limit r <> Panic.
Proof.
  unfold read_to_bytes. destruct (_ =? 0)%nat; [discriminate|].
  destruct (_ <=? _)%nat; [discriminate|apply rtem_loop_no_panic].
Qed.

Lemma serve_no_panic grow mode https dh max_len limit stream sched :
  serve grow mode https dh max_len limit stream sched <> Panic.
Proof.
  unfold serve.
  destruct (read_request grow mode https dh max_len _) as [qr| |] eqn:E; cbn [obind]; try discriminate.
  - destruct (read_to_bytes grow mode _ _ limit (snd qr)) as [[b r']| |] eqn:Eb; try discriminate.
    exfalso. eapply read_to_bytes_no_panic; eassumption.
  - exfalso. eapply read_request_no_panic; eassumption.
Qed.
End Reader.

(** * The request path *)

Lemma sanitize_path_no_panic p : PathSan.sanitize_path p <> Panic.
Proof. destruct (PathSanProofs.sanitize_path_total p) as [-> | ->]; discriminate. Qed.

Lemma choose_host_no_panic ops c b sni hh authority :
  Hosts.build ops = Ok c -> Hosts.choose_host_uri b Hosts.V1 c sni hh authority <> Panic.
Proof.
  intros Hb. destruct (HostsProofs.choose_host_uri_total ops c b sni hh authority Hb) as (ch & ->). discriminate.
Qed.

Lemma conn_step_no_panic checked caching pg cache q :
  RangeConn.page_fits pg -> RangeConn.cache_ok pg cache ->
  fst (RangeConn.conn_step checked caching pg cache q) <> Panic.
Proof.
  intros Hf Hc. destruct (RangeConnProofs.conn_step_spec checked caching pg cache q Hf Hc) as [-> _]. discriminate.
Qed.

(** The range stage on a page with another status than 200: the status only chooses 206 or not. *)
Lemma serve_range_any_status_no_panic checked hdr status body :
  N.of_nat (length body) <= u64_max -> Range.serve_range checked hdr status body <> Panic.
Proof.
  intros Hlen Hp. apply (RangeProofs.serve_range_no_panic checked hdr body Hlen).
  revert Hp. unfold Range.serve_range. destruct (Range.sanitize_range hdr) as [range|e|]; try discriminate; [|reflexivity].
  unfold Range.apply_range. destruct range as [[rs re]|]; [|discriminate].
  destruct (_ <=? rs); [discriminate|].
  destruct (sub_u64 checked _ 1) as [ei|e|]; cbn [obind]; try discriminate; [|reflexivity].
  destruct (slice_chk _ _ body) as [sl|e|]; cbn [obind]; try discriminate. reflexivity.
Qed.

Lemma limiter_decision_ok checked lcfg t0 lh addr now :
  Limiter.fits (S (length lh)) -> exists a, limiter_decision checked lcfg t0 lh addr now = Ok a.
Proof.
  intros Hf. unfold limiter_decision.
  assert (Hlen : length (lh ++ [(addr, now)]) = S (length lh)) by (rewrite app_length; cbn [length]; lia).
  pose proof (LimiterProofs.register_no_panic checked lcfg t0 (lh ++ [(addr, now)])) as HF.
  rewrite Hlen in HF. specialize (HF Hf). rewrite Forall_forall in HF. apply HF. apply nth_In.
  unfold Limiter.decisions. rewrite LimiterProofs.run_length, Hlen. lia.
Qed.

Lemma request_path_no_panic grow parse_q checked mode https ops c dh max_len limit lcfg t0 lh addr now public deny caching pg cache stream sched :
  Hosts.build ops = Ok c -> Limiter.fits (S (length lh)) -> RangeConn.page_fits pg -> RangeConn.cache_ok pg cache ->
  request_path grow parse_q checked mode https c dh max_len limit lcfg t0 lh addr now public deny caching pg cache stream sched <> Panic.
Proof.
  intros Hb Hl Hf Hc. unfold request_path.
  destruct (Http1Read.serve grow mode https dh max_len limit stream sched) as [sv|e|] eqn:Es; try discriminate.
  2:{ exfalso. eapply Reader.serve_no_panic; eassumption. }
  destruct (Hosts.choose_host_uri true Hosts.V1 c None _ _) as [[|h]|e|] eqn:Eh; try discriminate.
  2:{ exfalso. eapply choose_host_no_panic; eassumption. }
  destruct (limiter_decision_ok checked lcfg t0 lh addr now Hl) as [a ->]. destruct a; try discriminate.
  destruct (PathSan.sanitize_path _) as [[]|e|] eqn:Ep; try discriminate.
  2:{ exfalso. eapply sanitize_path_no_panic; eassumption. }
  assert (Hgate : forall st body, N.of_nat (length body) <= u64_max ->
            obind (Range.serve_range checked (Http1Read.hm_get h_range (Http1Read.q_headers (Http1Read.sv_request sv))) st body)
                  (fun r => Ok (PGate r)) <> Panic).
  { intros st body Hbody. pose proof (serve_range_any_status_no_panic checked (Http1Read.hm_get h_range (Http1Read.q_headers (Http1Read.sv_request sv))) st body Hbody) as Hn.
    destruct (Range.serve_range _ _ st body); cbn [obind]; [discriminate|discriminate|exfalso; apply Hn; reflexivity]. }
  match goal with |- context [if ?b then obind (Range.serve_range _ _ 403 _) _ else _] => destruct b end;
    [apply Hgate; vm_compute; discriminate|].
  match goal with |- context [if ?b then obind (Range.serve_range _ _ 204 _) _ else _] => destruct b end;
    [apply Hgate; vm_compute; discriminate|].
  rewrite pq_path_ok. cbn [obind].
  destruct (pq_query_ok (Http1Read.q_path (Http1Read.sv_request sv)) (Http1Read.q_query (Http1Read.sv_request sv))) as [r ->].
  cbn [obind].
  destruct (PathSan.request_fs_path _ public _) as [fs|e|] eqn:Efs; cbn [obind]; try discriminate.
  2:{ exfalso. eapply PathSanProofs.request_fs_path_no_panic; eassumption. }
  assert (Hq : exists qs, match Http1Read.q_query (Http1Read.sv_request sv) with Some s => query s | None => Ok [] end = Ok qs).
  { destruct (Http1Read.q_query _) as [s|]; [apply query_ok|eauto]. }
  destruct Hq as [qs ->]. cbn [obind].
  match goal with |- context [RangeConn.conn_step ?a ?b ?c ?d ?q] =>
    pose proof (conn_step_no_panic a b c d q Hf Hc) as Hcs; destruct (RangeConn.conn_step a b c d q) as [o cache'] end.
  cbn [fst] in Hcs. destruct o as [w|e|]; cbn [obind]; try discriminate. exfalso; apply Hcs; reflexivity.
Qed.

(** * [from_kvarn_cache_control] without overflow checks *)
Lemma cc_kvarn_unchecked_no_panic h : CacheControl.from_kvarn_cache_control false h <> Panic.
Proof.
  unfold CacheControl.from_kvarn_cache_control. cbv zeta.
  destruct (beq _ _); [discriminate|]. destruct (beq _ _); [discriminate|].
  destruct (CacheControl.trim h) as [|first t]; [discriminate|].
  destruct (rev (first :: t)) as [|last rev_init]; [discriminate|].
  destruct (_ && _)%bool; [|discriminate].
  destruct (parse_u32 _) as [i|]; [|discriminate].
  destruct (last =? 115); [|destruct (last =? 109); [|destruct (last =? 104); [|destruct (last =? 100); [|discriminate]]]];
    destruct (_ <=? u32_max); discriminate.
Qed.

(** * The answer to a weighted [accept-encoding] list (component c02.ae) *)

(** Whatever [f32::from_str] makes of the weight texts ([parse_q] is arbitrary: "nan", "inf", "1e400", "-0" ... fall in one of the
    three classes the code tests for), a page is answered with the 406 page exactly when identity is refused and nothing else
    applies, else with its own status and the name of identity or of a coding the list names with a weight that is not zero —
    and a page under the 50-byte floor only ever as identity. *)
Lemma ae_answer_cases parse_q status big ae :
  let values := Negotiate.header_values parse_q ae in
  (ae_answer parse_q status big ae = (406, Some Negotiate.s_identity) /\ Negotiate.disable_identity values = true)
  \/ (ae_answer parse_q status big ae = (status, Some Negotiate.s_identity) /\ Negotiate.disable_identity values = false)
  \/ (exists a, ae_answer parse_q status big ae = (status, Some (Negotiate.alg_name a)) /\ big = true /\
                Negotiate.contains values (Negotiate.alg_name a) = true).
Proof.
  intros values. unfold ae_answer.
  destruct (NegotiateProofs.clone_cases parse_q Negotiate.parse_mime_std Negotiate.enc_tag (ae_page big) ae ae_options)
    as [[_ [Hd E]]|[[_ [Hd E]]|[a [Hc [_ [Hch E]]]]]]; rewrite E; cbn [fst].
  - right. left. split; [|exact Hd]. destruct big; reflexivity.
  - left. split; [reflexivity|exact Hd].
  - right. right. exists a. apply NegotiateProofs.choose_alg in Hch as [_ Hin].
    destruct big; [|discriminate Hc]. split; [|split; [reflexivity|exact Hin]].
    destruct a; reflexivity.
Qed.

(** * Ordering client-controlled weights with [partial_cmp(..).unwrap()] (a variant the code does not contain) *)

Definition weight_is_nan {A} (x : A * fweight) : Prop := snd x = FNan.

Lemma partial_cmp_nan_r a : partial_cmp a FNan = None.
Proof. destruct a; reflexivity. Qed.

Lemma insert_weight_ok {A} (x : A * fweight) : forall l,
  ~ weight_is_nan x -> Forall (fun y => ~ weight_is_nan y) l ->
  exists l', insert_weight x l = Ok l' /\ length l' = S (length l) /\ Forall (fun y => ~ weight_is_nan y) l'.
Proof.
  intros l Hx. induction l as [|y r IH]; intros Hl.
  - exists [x]. repeat split. constructor; [exact Hx|constructor].
  - inversion Hl as [|y' r' Hy Hr]; subst. cbn [insert_weight].
    unfold weight_is_nan in Hx, Hy. destruct (snd y) as [|vy] eqn:Ey; [contradiction|]. destruct (snd x) as [|vx] eqn:Ex; [contradiction|].
    cbn [partial_cmp].
    assert (Hny : ~ weight_is_nan y) by (unfold weight_is_nan; rewrite Ey; discriminate).
    assert (Hnx : ~ weight_is_nan x) by (unfold weight_is_nan; rewrite Ex; discriminate).
    destruct (IH Hr) as (l' & E & Hlen & Hall).
    destruct (vy ?= vx)%Z.
    + exists (x :: y :: r). repeat split. constructor; [exact Hnx|constructor; assumption].
    + exists (x :: y :: r). repeat split. constructor; [exact Hnx|constructor; assumption].
    + rewrite E. cbn [obind]. exists (y :: l'). repeat split; [cbn [length]; lia|constructor; assumption].
Qed.

(** without a NaN the sort returns (and keeps the number of members) *)
Lemma sort_weights_ok {A} : forall l : list (A * fweight),
  Forall (fun y => ~ weight_is_nan y) l ->
  exists l', sort_weights l = Ok l' /\ length l' = length l /\ Forall (fun y => ~ weight_is_nan y) l'.
Proof.
  induction l as [|x r IH]; intros Hl.
  - exists []. repeat split. constructor.
  - inversion Hl as [|x' r' Hx Hr]; subst. destruct (IH Hr) as (r1 & E & Hlen & Hall).
    cbn [sort_weights]. rewrite E. cbn [obind].
    destruct (insert_weight_ok x r1 Hx Hall) as (l' & E' & Hlen' & Hall').
    exists l'. repeat split; [exact E'|cbn [length]; lia|exact Hall'].
Qed.

(** with one, and a second member to compare it with, the [unwrap] fails *)
Lemma sort_weights_nan_panics {A} : forall l : list (A * fweight),
  (2 <= length l)%nat -> Exists weight_is_nan l -> sort_weights l = Panic.
Proof.
  induction l as [|x r IH]; intros Hlen Hex; [cbn in Hlen; lia|].
  cbn [sort_weights].
  destruct (Exists_dec weight_is_nan r) as [Hr|Hr].
  { intros y. unfold weight_is_nan. destruct (snd y); [left; reflexivity|right; discriminate]. }
  - (* a NaN in the rest *)
    destruct r as [|y [|z r2]]; [inversion Hr| |].
    + (* the rest is that single member *)
      cbn [sort_weights insert_weight obind]. inversion Hr as [? ? Hy|? ? Hy]; [|inversion Hy]. subst.
      unfold weight_is_nan in Hy. rewrite Hy. reflexivity.
    + rewrite IH; [reflexivity|cbn [length]; lia|exact Hr].
  - (* the NaN is the new member; the sorted rest is not empty *)
    inversion Hex as [? ? Hx|? ? Hx']; subst; [|contradiction].
    assert (Hall : Forall (fun y => ~ weight_is_nan y) r) by (apply Forall_Exists_neg; exact Hr).
    destruct (sort_weights_ok r Hall) as (r1 & E & Hl1 & _). rewrite E. cbn [obind].
    destruct r1 as [|y r1]; [cbn [length] in *; lia|].
    cbn [insert_weight]. unfold weight_is_nan in Hx. rewrite Hx, partial_cmp_nan_r. reflexivity.
Qed.

Lemma weight_order_variant A (l : list (A * fweight)) :
  sort_weights l = Panic <-> (2 <= length l)%nat /\ Exists weight_is_nan l.
Proof.
  split.
  - intros HP. destruct (Exists_dec weight_is_nan l) as [Hex|Hno].
    { intros y. unfold weight_is_nan. destruct (snd y); [left; reflexivity|right; discriminate]. }
    + split; [|exact Hex]. destruct l as [|x [|y r]]; [discriminate HP| |cbn [length]; lia].
      cbn in HP. discriminate HP.
    + apply Forall_Exists_neg in Hno. destruct (sort_weights_ok l Hno) as (l' & E & _). congruence.
  - intros [Hlen Hex]. apply sort_weights_nan_panics; assumption.
Qed.
