(** C07 — the parser of Model/Http1Read.v on printed requests: parse (print g ++ extra) = g. *)
From KV Require Export Bytes RustInt Http1Read Http1ReadProofs.
From Coq Require Import ZifyBool ZifyNat ZifyN.
Open Scope N_scope.
Local Open Scope nat_scope.

(** [lia] after dropping everything that is not a statement about [nat]: ZifyBool otherwise unfolds every boolean
    hypothesis ([tchar c = true], ...) into arithmetic, which makes [lia] take minutes in the larger contexts *)
Ltac keep_arith := repeat match goal with
  | H : ?T |- _ =>
      lazymatch T with
      | @eq nat _ _ => fail
      | le _ _ => fail
      | lt _ _ => fail
      | not (@eq nat _ _) => fail
      | _ => clear H
      end
  end.
Ltac qlia := first [ solve [keep_arith; lia] | lia ].

(** * Byte classes *)

Lemma tchar_neq c x : tchar x = false -> tchar c = true -> N.eqb c x = false.
Proof. intros Hx Hc. destruct (N.eqb_spec c x) as [->|]; [congruence|reflexivity]. Qed.
Lemma tchar_CR c : tchar c = true -> N.eqb c CR = false.
Proof. apply tchar_neq. vm_compute. reflexivity. Qed.
Lemma tchar_LF c : tchar c = true -> N.eqb c LF = false.
Proof. apply tchar_neq. vm_compute. reflexivity. Qed.
Lemma tchar_SP c : tchar c = true -> N.eqb c SP = false.
Proof. apply tchar_neq. vm_compute. reflexivity. Qed.
Lemma tchar_COLON c : tchar c = true -> N.eqb c COLON = false.
Proof. apply tchar_neq. vm_compute. reflexivity. Qed.

Definition no_crlf (c : N) : bool := negb (N.eqb c CR) && negb (N.eqb c LF).

Lemma no_crlf_spec c : no_crlf c = true -> N.eqb c CR = false /\ N.eqb c LF = false.
Proof. unfold no_crlf. destruct (N.eqb c CR), (N.eqb c LF); cbn; intros H; try discriminate; split; reflexivity. Qed.

Lemma plain_spec c : plain c = true -> N.eqb c SP = false /\ N.eqb c CR = false /\ N.eqb c LF = false.
Proof.
  unfold plain. destruct (N.eqb c SP), (N.eqb c CR), (N.eqb c LF); cbn; intros H; try discriminate; repeat split; reflexivity.
Qed.

Lemma hvalue_no_crlf c : hvalue_byte c = true -> no_crlf c = true.
Proof. unfold hvalue_byte, no_crlf, CR, LF. lia. Qed.
Lemma ows_no_crlf c : ows c = true -> no_crlf c = true.
Proof. unfold ows, no_crlf, SP, TAB, CR, LF. lia. Qed.
Lemma ows_spec c : ows c = true -> N.eqb c CR = false /\ N.eqb c LF = false /\ N.eqb c COLON = false.
Proof. unfold ows, SP, TAB, CR, LF, COLON. lia. Qed.
Lemma tchar_ows c : tchar c = true -> ows c = false.
Proof.
  intros H. unfold ows. rewrite (tchar_SP _ H). cbn [orb].
  destruct (N.eqb_spec c TAB) as [->|]; [vm_compute in H; discriminate|reflexivity].
Qed.
Lemma tchar_no_crlf c : tchar c = true -> no_crlf c = true.
Proof. intros H. unfold no_crlf. rewrite (tchar_CR _ H), (tchar_LF _ H). reflexivity. Qed.
Lemma plain_no_crlf c : plain c = true -> no_crlf c = true.
Proof. intros H. destruct (plain_spec _ H) as [_ [H1 H2]]. unfold no_crlf. rewrite H1, H2. reflexivity. Qed.
Lemma tchar_plain c : tchar c = true -> plain c = true.
Proof. intros H. unfold plain. rewrite (tchar_CR _ H), (tchar_LF _ H), (tchar_SP _ H). reflexivity. Qed.

Lemma forallb_imp {A} (f g : A -> bool) l : (forall x, f x = true -> g x = true) -> forallb f l = true -> forallb g l = true.
Proof.
  intros Hfg. induction l as [|x l IH]; cbn [forallb]; [auto|].
  intros H. apply andb_true_iff in H as [H1 H2]. rewrite (Hfg _ H1), (IH H2). reflexivity.
Qed.

Lemma forallb_repeat {A} (f : A -> bool) x n : f x = true -> forallb f (repeat x n) = true.
Proof. intros H. induction n as [|n IH]; cbn [repeat forallb]; [reflexivity|]. rewrite H, IH. reflexivity. Qed.

(** * Lists: looking into [pre ++ x ++ post] *)

Lemma nth_error_mid {A} (pre : list A) c post n : n = length pre -> nth_error (pre ++ c :: post) n = Some c.
Proof. intros ->. rewrite nth_error_app2 by lia. rewrite Nat.sub_diag. reflexivity. Qed.

Lemma skipn_mid {A} (pre x : list A) n : n = length pre -> skipn n (pre ++ x) = x.
Proof. intros ->. rewrite skipn_app, skipn_all, Nat.sub_diag. reflexivity. Qed.

Lemma slice_get_mid (pre x post : bytes) lo hi :
  lo = length pre -> hi = lo + length x -> slice_get lo hi (pre ++ x ++ post) = Some x.
Proof.
  intros -> ->. unfold slice_get, slice.
  assert (Hc : (Nat.leb (length pre) (length pre + length x) && Nat.leb (length pre + length x) (length (pre ++ x ++ post)))%bool = true).
  { apply andb_true_iff. split; apply Nat.leb_le; [lia|]. rewrite !app_length. lia. }
  rewrite Hc. rewrite skipn_mid by reflexivity.
  replace (length pre + length x - length pre) with (length x) by lia.
  rewrite firstn_app, Nat.sub_diag, firstn_all. cbn [firstn]. rewrite app_nil_r. reflexivity.
Qed.

Lemma slice_chk_mid (pre x post : bytes) lo hi :
  lo = length pre -> hi = lo + length x -> slice_chk lo hi (pre ++ x ++ post) = Ok x.
Proof. intros H1 H2. unfold slice_chk. rewrite (slice_get_mid pre x post lo hi H1 H2). reflexivity. Qed.

Lemma slice_chk_tail (pre x : bytes) lo : lo = length pre -> slice_chk lo (length (pre ++ x)) (pre ++ x) = Ok x.
Proof.
  intros ->. unfold slice_chk, slice_get, slice.
  assert (Hc : (Nat.leb (length pre) (length (pre ++ x)) && Nat.leb (length (pre ++ x)) (length (pre ++ x)))%bool = true).
  { apply andb_true_iff. split; apply Nat.leb_le; [rewrite app_length|]; lia. }
  rewrite Hc, skipn_mid by reflexivity. rewrite firstn_all2 by (rewrite app_length; lia). reflexivity.
Qed.

(** * [parse::headers] on a printed header block *)

Lemma hdr_step_name all c rest pos lf ns ne vs m :
  tchar c = true -> hdr_loop all (c :: rest) pos false lf ns ne vs m = hdr_loop all rest (S pos) false 0 ns ne vs m.
Proof.
  intros H. cbn [hdr_loop]. rewrite (tchar_CR _ H), (tchar_LF _ H), (tchar_COLON _ H), (tchar_ows _ H). reflexivity.
Qed.

Lemma hdr_name_chunk all : forall chunk c rest pos lf ns ne vs m,
  tchar c = true -> forallb tchar chunk = true ->
  hdr_loop all ((c :: chunk) ++ rest) pos false lf ns ne vs m = hdr_loop all rest (pos + S (length chunk)) false 0 ns ne vs m.
Proof.
  induction chunk as [|c' chunk IH]; intros c rest pos lf ns ne vs m Hc Hch.
  - cbn [app length]. rewrite hdr_step_name by exact Hc. replace (pos + 1) with (S pos) by lia. reflexivity.
  - cbn [forallb] in Hch. apply andb_true_iff in Hch as [Hc' Hch].
    cbn [app]. rewrite hdr_step_name by exact Hc.
    change (c' :: chunk ++ rest) with ((c' :: chunk) ++ rest). rewrite IH by assumption.
    cbn [length]. replace (S pos + S (length chunk)) with (pos + S (S (length chunk))) by lia. reflexivity.
Qed.

Lemma hdr_step_value all c rest pos lf ns ne vs m :
  no_crlf c = true -> hdr_loop all (c :: rest) pos true lf ns ne vs m = hdr_loop all rest (S pos) true 0 ns ne vs m.
Proof.
  intros H. destruct (no_crlf_spec _ H) as [H1 H2]. cbn [hdr_loop]. rewrite H1, H2. reflexivity.
Qed.

Lemma hdr_value_chunk all : forall chunk rest pos ns ne vs m,
  forallb no_crlf chunk = true ->
  hdr_loop all (chunk ++ rest) pos true 0 ns ne vs m = hdr_loop all rest (pos + length chunk) true 0 ns ne vs m.
Proof.
  induction chunk as [|c chunk IH]; intros rest pos ns ne vs m Hch.
  - cbn [app length]. rewrite Nat.add_0_r. reflexivity.
  - cbn [forallb] in Hch. apply andb_true_iff in Hch as [Hc Hch].
    cbn [app]. rewrite hdr_step_value by exact Hc. rewrite IH by exact Hch.
    cbn [length]. replace (S pos + length chunk) with (pos + S (length chunk)) by lia. reflexivity.
Qed.

Lemma hdr_step_colon all rest pos lf ns ne vs m :
  hdr_loop all (COLON :: rest) pos false lf ns ne vs m =
  if next_is_ows all pos then hdr_loop all rest (S pos) false 0 ns pos vs m
  else hdr_loop all rest (S pos) true 0 ns pos (S pos) m.
Proof. reflexivity. Qed.

Lemma hdr_step_ows all c rest pos lf ns ne vs m : ows c = true ->
  hdr_loop all (c :: rest) pos false lf ns ne vs m = hdr_loop all rest (S pos) true 0 ns ne (value_start_from all pos) m.
Proof.
  intros H. destruct (ows_spec _ H) as [H1 [H2 H3]]. cbn [hdr_loop]. rewrite H1, H2, H3, H. reflexivity.
Qed.

Lemma hdr_step_cr all rest pos inval lf ns ne vs m :
  hdr_loop all (CR :: rest) pos inval lf ns ne vs m = hdr_loop all rest (S pos) inval lf ns ne vs m.
Proof. reflexivity. Qed.

Lemma hdr_step_lf_end all rest pos inval ns ne vs m :
  hdr_loop all (LF :: rest) pos inval 1 ns ne vs m = Ok (m, S pos).
Proof. reflexivity. Qed.

Lemma hdr_step_lf_value all rest pos ns ne vs m :
  hdr_loop all (LF :: rest) pos true 0 ns ne vs m =
  match slice_get ns ne all with
  | None => Err E_ILLEGAL_NAME
  | Some raw =>
      match header_name raw with
      | None => Err E_ILLEGAL_NAME
      | Some name =>
          match slice_chk vs (trim_end all vs (if prev_is_cr all pos then pos - 1 else pos)) all with
          | Ok v => if hvalue_ok v then hdr_loop all rest (S pos) false 1 (S pos) ne vs (hm_insert name v m)
                    else Err E_ILLEGAL_VALUE
          | Err e => Err e
          | Panic => Panic
          end
      end
  end.
Proof. reflexivity. Qed.

Lemma name_ok_header_name n : name_ok n = true -> header_name n = Some (lower n).
Proof.
  unfold name_ok, header_name. intros H. apply andb_true_iff in H as [H H3]. apply andb_true_iff in H as [H1 H2].
  apply negb_true_iff in H1. rewrite H1, H2. cbn [orb].
  destruct (N.ltb 65535 (N.of_nat (length n))) eqn:E; [lia|reflexivity].
Qed.

Lemma value_ok_hvalue v : value_ok v = true -> hvalue_ok v = true.
Proof.
  unfold value_ok, hvalue_ok. intros H. apply andb_true_iff in H as [H _]. apply andb_true_iff in H as [H _]. exact H.
Qed.

Lemma value_ok_no_crlf v : value_ok v = true -> forallb no_crlf v = true.
Proof. intros H. apply (forallb_imp hvalue_byte); [apply hvalue_no_crlf|apply value_ok_hvalue; exact H]. Qed.

(** a value does not start with whitespace ... *)
Lemma value_ok_first v c r : value_ok v = true -> v = c :: r -> ows c = false.
Proof.
  unfold value_ok. intros H ->. apply andb_true_iff in H as [H _]. apply andb_true_iff in H as [_ H].
  apply negb_true_iff in H. exact H.
Qed.
(** ... and does not end with it *)
Lemma last_not_ows_app : forall r c, last_not_ows (r ++ [c]) = true -> ows c = false.
Proof.
  induction r as [|x r IH]; intros c H.
  - cbn [app last_not_ows] in H. apply negb_true_iff in H. exact H.
  - apply IH. cbn [app] in H. destruct (r ++ [c]) as [|y l] eqn:E; [destruct r; discriminate|]. exact H.
Qed.
Lemma value_ok_last v r c : value_ok v = true -> v = r ++ [c] -> ows c = false.
Proof. unfold value_ok. intros H ->. apply andb_true_iff in H as [_ H]. apply last_not_ows_app in H. exact H. Qed.

Definition hdr_fold (m : hmap) (hs : list hline) : hmap :=
  fold_left (fun m h => hm_insert (lower (hl_name h)) (hl_value h) m) hs m.

Definition hlines_ok (hs : list hline) : bool :=
  forallb (fun h => name_ok (hl_name h) && value_ok (hl_value h)) hs.

(** unique names: [HeaderMap::insert] appends *)
Lemma hm_insert_fresh k v m : forallb (fun e => negb (beq (fst e) k)) m = true -> hm_insert k v m = m ++ [(k, v)].
Proof.
  induction m as [|[k' v'] m IH]; cbn [forallb hm_insert app fst]; [reflexivity|].
  intros H. apply andb_true_iff in H as [H1 H2]. apply negb_true_iff in H1. rewrite H1, (IH H2). reflexivity.
Qed.

Lemma beq_sym a c : beq a c = beq c a.
Proof.
  destruct (beq a c) eqn:E.
  - apply beq_eq in E. subst. symmetry. apply beq_refl.
  - destruct (beq c a) eqn:E'; [|reflexivity]. apply beq_eq in E'. subst. rewrite beq_refl in E. discriminate.
Qed.

Definition lname (h : hline) : bytes := lower (hl_name h).

Lemma hdr_fold_nodup : forall hs m,
  forallb (fun h => forallb (fun e => negb (beq (fst e) (lname h))) m) hs = true ->
  nodup_b (map lname hs) = true ->
  hdr_fold m hs = m ++ map (fun h => (lname h, hl_value h)) hs.
Proof.
  induction hs as [|h hs IH]; intros m Hfresh Hnd; cbn [hdr_fold fold_left map]; [rewrite app_nil_r; reflexivity|].
  cbn [forallb] in Hfresh. apply andb_true_iff in Hfresh as [Hh Hfresh].
  cbn [map nodup_b] in Hnd. apply andb_true_iff in Hnd as [Hnot Hnd]. apply negb_true_iff in Hnot.
  fold (lname h). rewrite (hm_insert_fresh _ _ _ Hh).
  fold (hdr_fold (m ++ [(lname h, hl_value h)]) hs). rewrite IH; [rewrite <- app_assoc; reflexivity| |exact Hnd].
  clear IH Hnd. induction hs as [|h' hs IH']; [reflexivity|].
  cbn [forallb map existsb] in *. apply andb_true_iff in Hfresh as [Hf1 Hf2].
  apply orb_false_iff in Hnot as [Hn1 Hn2].
  rewrite forallb_app, Hf1. cbn [forallb fst]. rewrite Hn1. cbn [negb andb]. apply IH'; assumption.
Qed.

Lemma hdr_fold_g g : nodup_b (map (fun h => lower (hl_name h)) (g_headers g)) = true -> hdr_fold [] (g_headers g) = g_hmap g.
Proof.
  intros H. rewrite hdr_fold_nodup; [reflexivity| |exact H].
  induction (g_headers g) as [|h hs IH]; [reflexivity|]. cbn [forallb]. apply IH.
  cbn [map nodup_b] in H. apply andb_true_iff in H as [_ H]. exact H.
Qed.

(** * The request line *)

Lemma req_step_method all c rest pos acc ps pe ver lf :
  tchar c = true -> length acc < 7 ->
  req_loop all (c :: rest) pos RMethod acc ps pe ver lf = req_loop all rest (S pos) RMethod (acc ++ [c]) ps pe ver 0.
Proof.
  intros H Hl. cbn [req_loop]. rewrite (tchar_CR _ H), (tchar_LF _ H), (tchar_SP _ H).
  destruct (Nat.eqb (length acc) 7) eqn:E; [apply Nat.eqb_eq in E; lia|]. reflexivity.
Qed.

Lemma req_method_chunk all : forall chunk acc rest pos ps pe ver,
  forallb tchar chunk = true -> length acc + length chunk <= 7 ->
  req_loop all (chunk ++ rest) pos RMethod acc ps pe ver 0 = req_loop all rest (pos + length chunk) RMethod (acc ++ chunk) ps pe ver 0.
Proof.
  induction chunk as [|c chunk IH]; intros acc rest pos ps pe ver Hch Hl.
  - cbn [app length]. rewrite Nat.add_0_r, app_nil_r. reflexivity.
  - cbn [forallb] in Hch. apply andb_true_iff in Hch as [Hc Hch]. cbn [length] in Hl.
    cbn [app]. rewrite req_step_method by (assumption || lia).
    rewrite IH by (try assumption; rewrite app_length; cbn [length]; lia).
    rewrite <- app_assoc. cbn [app length]. replace (S pos + length chunk) with (pos + S (length chunk)) by lia. reflexivity.
Qed.

Lemma req_step_method_sp all rest pos acc ps pe ver :
  req_loop all (SP :: rest) pos RMethod acc ps pe ver 0 =
  match slice_chk 0 (length acc) all with
  | Ok m0 => if method_ok m0 then req_loop all rest (S pos) RPath acc ps pe ver 0 else Err E_INVALID_METHOD
  | Err e => Err e
  | Panic => Panic
  end.
Proof. reflexivity. Qed.

Lemma req_step_path all c rest pos m ps pe ver lf :
  plain c = true ->
  req_loop all (c :: rest) pos RPath m ps pe ver lf =
  req_loop all rest (S pos) RPath m (if Nat.eqb ps 0 then pos else ps) pe ver 0.
Proof.
  intros H. destruct (plain_spec _ H) as [H1 [H2 H3]]. cbn [req_loop]. rewrite H1, H2, H3. reflexivity.
Qed.

Lemma req_path_chunk all : forall chunk rest pos m ps pe ver,
  forallb plain chunk = true -> ps <> 0 ->
  req_loop all (chunk ++ rest) pos RPath m ps pe ver 0 = req_loop all rest (pos + length chunk) RPath m ps pe ver 0.
Proof.
  induction chunk as [|c chunk IH]; intros rest pos m ps pe ver Hch Hps.
  - cbn [app length]. rewrite Nat.add_0_r. reflexivity.
  - cbn [forallb] in Hch. apply andb_true_iff in Hch as [Hc Hch].
    cbn [app]. rewrite req_step_path by exact Hc.
    destruct (Nat.eqb ps 0) eqn:E; [apply Nat.eqb_eq in E; lia|].
    rewrite IH by assumption. cbn [length]. replace (S pos + length chunk) with (pos + S (length chunk)) by lia. reflexivity.
Qed.

Lemma req_step_path_sp all rest pos m ps pe ver :
  req_loop all (SP :: rest) pos RPath m ps pe ver 0 =
  req_loop all rest (S pos) RVersion m (if Nat.eqb ps 0 then pos else ps) pos ver 0.
Proof. reflexivity. Qed.

Lemma req_step_version all c rest pos m ps pe ver lf :
  no_crlf c = true -> length ver < 8 ->
  req_loop all (c :: rest) pos RVersion m ps pe ver lf = req_loop all rest (S pos) RVersion m ps pe (ver ++ [c]) 0.
Proof.
  intros H Hl. destruct (no_crlf_spec _ H) as [H1 H2]. cbn [req_loop]. rewrite H1, H2.
  destruct (Nat.eqb (length ver) 8) eqn:E; [apply Nat.eqb_eq in E; lia|]. reflexivity.
Qed.

Lemma req_version_chunk all : forall chunk acc rest pos m ps pe,
  forallb no_crlf chunk = true -> length acc + length chunk <= 8 ->
  req_loop all (chunk ++ rest) pos RVersion m ps pe acc 0 = req_loop all rest (pos + length chunk) RVersion m ps pe (acc ++ chunk) 0.
Proof.
  induction chunk as [|c chunk IH]; intros acc rest pos m ps pe Hch Hl.
  - cbn [app length]. rewrite Nat.add_0_r, app_nil_r. reflexivity.
  - cbn [forallb] in Hch. apply andb_true_iff in Hch as [Hc Hch]. cbn [length] in Hl.
    cbn [app]. rewrite req_step_version by (assumption || lia).
    rewrite IH by (try assumption; rewrite app_length; cbn [length]; lia).
    rewrite <- app_assoc. cbn [app length]. replace (S pos + length chunk) with (pos + S (length chunk)) by lia. reflexivity.
Qed.

Lemma req_step_cr all rest pos st m ps pe ver lf :
  req_loop all (CR :: rest) pos st m ps pe ver lf = req_loop all rest (S pos) st m ps pe ver lf.
Proof. reflexivity. Qed.

Lemma req_step_version_lf all rest pos m ps pe ver :
  req_loop all (LF :: rest) pos RVersion m ps pe ver 0 =
  match version_code ver with
  | None => Err E_INVALID_VERSION
  | Some _ => req_loop all rest (S pos) RHeader m ps pe ver 1
  end.
Proof. reflexivity. Qed.

Lemma req_step_blank all rest pos st m ps pe ver :
  req_loop all (LF :: rest) pos st m ps pe ver 1 = Ok (mk_scan m ps pe ver [] (S (S pos))).
Proof. reflexivity. Qed.

Lemma req_step_header all c rest pos m ps pe ver lf :
  tchar c = true ->
  req_loop all (c :: rest) pos RHeader m ps pe ver lf =
  match slice_chk pos (length all) all with
  | Ok hb =>
      match parse_headers hb with
      | Ok (h, e) => Ok (mk_scan m ps pe ver h (S pos + e))
      | Err e => Err e
      | Panic => Panic
      end
  | Err e => Err e
  | Panic => Panic
  end.
Proof. intros H. cbn [req_loop]. rewrite (tchar_CR _ H), (tchar_LF _ H). reflexivity. Qed.

(** * The whole head *)

Definition g_version (g : greq) : bytes := if g_v11 g then v11 else v10.

Lemma version_shape g : forallb no_crlf (g_version g) = true /\ length (g_version g) = 8 /\
  version_code (g_version g) = Some (if g_v11 g then 11%N else 10%N).
Proof. unfold g_version. destruct (g_v11 g); vm_compute; repeat split; reflexivity. Qed.

Record greq_facts (g : greq) : Prop := mk_facts {
  gf_mnon : g_method g <> [];
  gf_mlen : length (g_method g) <= 7;
  gf_mtok : forallb tchar (g_method g) = true;
  gf_tnon : g_target g <> [];
  gf_tplain : forallb plain (g_target g) = true;
  gf_lines : hlines_ok (g_headers g) = true;
  gf_nodup : nodup_b (map (fun h => lower (hl_name h)) (g_headers g)) = true }.

Lemma greq_ok_facts g : greq_ok g = true -> greq_facts g.
Proof.
  unfold greq_ok. intros H.
  repeat (apply andb_true_iff in H; destruct H as [H ?]).
  constructor; try assumption.
  - destruct (g_method g); [discriminate|discriminate].
  - apply Nat.leb_le. assumption.
  - destruct (g_target g); [discriminate|discriminate].
Qed.

(** * Head, then body *)

Lemma serve_head grow : grow_ok grow -> forall mode https dh max_len limit stream sched,
  sched_pos sched ->
  let d := Nat.min (sum_sched sched) (length stream) in
  match head_spec max_len (firstn d stream) with
  | Ok k => exists c r', k <= c /\ c <= max_len /\ rd_at stream d c r' /\
      serve grow mode https dh max_len limit stream sched =
      obind (parse_request https dh (firstn c stream)) (fun q =>
        match read_to_bytes grow mode (q_early q) (body_length (q_method q) (q_headers q)) limit r' with
        | Ok (b, r'') => Ok (mk_served q (Ok b) (length stream - length (rd_data r'')))
        | Err e => Ok (mk_served q (Err e) 0)
        | Panic => Panic
        end)
  | Err e => serve grow mode https dh max_len limit stream sched = Err e
  | Panic => False
  end.
Proof.
  intros Hg mode https dh max_len limit stream sched Hp d.
  pose proof (read_headers_exact grow Hg (S (length stream)) mode max_len stream d 0 512 (mk_reader stream sched)
                (rd_at_start stream sched Hp)) as H.
  cbn [firstn] in H. specialize (H ltac:(lia) ltac:(lia) eq_refl ltac:(lia)).
  unfold serve, read_request. cbn [rd_data].
  destruct (head_spec max_len (firstn d stream)) as [k|e|]; [|rewrite H; reflexivity|exact H].
  destruct H as [c [r' [H [Hk [Hc Hat]]]]]. exists c, r'. rewrite H. cbn [obind fst snd].
  split; [exact Hk|]. split; [exact Hc|]. split; [exact Hat|].
  destruct (parse_request https dh (firstn c stream)); reflexivity.
Qed.

Lemma expect_some https dh limit g rest e : expect https dh limit g rest = Some e ->
  exists auth path query,
    request_uri https (g_host dh g) (g_target g) = Some (auth, path, query) /\
    e = mk_expected (g_method g) path query (if g_v11 g then 11%N else 10%N) (g_hmap g) auth
          (firstn (N.to_nat (N.min (body_length (g_method g) (g_hmap g)) limit)) rest).
Proof.
  unfold expect.
  destruct (request_uri https (g_host dh g) (g_target g)) as [[[auth path] query]|] eqn:Eu; [|discriminate].
  intros H. inversion H. exists auth, path, query. split; reflexivity.
Qed.

