(** C07 — the parser of Model/Http1Read.v on printed requests: parse (print g ++ extra) = g. *)
From KV Require Export Bytes RustInt Http1Read Http1ReadProofs.
From Coq Require Import ZifyBool ZifyNat ZifyN.
Open Scope N_scope.
Local Open Scope nat_scope.

(** * Byte classes *)

Lemma tchar_neq c x : tchar x = false -> tchar c = true -> N.eqb c x = false.
Proof. intros Hx Hc. destruct (N.eqb_spec c x) as [->|]; [congruence|reflexivity]. Qed.
Lemma tchar_CR c : tchar c = true -> N.eqb c CR = false.
Proof. apply tchar_neq. vm_compute. reflexivity. Qed.
Lemma tchar_LF c : tchar c = true -> N.eqb c LF = false.
Proof. apply tchar_neq. vm_compute. reflexivity. Qed.
Lemma tchar_SP c : tchar c = true -> N.eqb c SP = false.
Proof. apply tchar_neq. vm_compute. reflexivity. Qed.
Lemma tchar_COLON c : tchar c = true -> N.eqb c COLON = false.
Proof. apply tchar_neq. vm_compute. reflexivity. Qed.

Definition no_crlf (c : N) : bool := negb (N.eqb c CR) && negb (N.eqb c LF).

Lemma no_crlf_spec c : no_crlf c = true -> N.eqb c CR = false /\ N.eqb c LF = false.
Proof. unfold no_crlf. destruct (N.eqb c CR), (N.eqb c LF); cbn; intros H; try discriminate; split; reflexivity. Qed.

Lemma plain_spec c : plain c = true -> N.eqb c SP = false /\ N.eqb c CR = false /\ N.eqb c LF = false.
Proof.
  unfold plain. destruct (N.eqb c SP), (N.eqb c CR), (N.eqb c LF); cbn; intros H; try discriminate; repeat split; reflexivity.
Qed.

Lemma vis_no_crlf c : visible_or_sp c = true -> no_crlf c = true.
Proof. unfold visible_or_sp, no_crlf, CR, LF. lia. Qed.
Lemma vis_hvalue c : visible_or_sp c = true -> hvalue_byte c = true.
Proof. unfold visible_or_sp, hvalue_byte. lia. Qed.
Lemma tchar_no_crlf c : tchar c = true -> no_crlf c = true.
Proof. intros H. unfold no_crlf. rewrite (tchar_CR _ H), (tchar_LF _ H). reflexivity. Qed.
Lemma plain_no_crlf c : plain c = true -> no_crlf c = true.
Proof. intros H. destruct (plain_spec _ H) as [_ [H1 H2]]. unfold no_crlf. rewrite H1, H2. reflexivity. Qed.
Lemma tchar_plain c : tchar c = true -> plain c = true.
Proof. intros H. unfold plain. rewrite (tchar_CR _ H), (tchar_LF _ H), (tchar_SP _ H). reflexivity. Qed.

Lemma forallb_imp {A} (f g : A -> bool) l : (forall x, f x = true -> g x = true) -> forallb f l = true -> forallb g l = true.
Proof.
  intros Hfg. induction l as [|x l IH]; cbn [forallb]; [auto|].
  intros H. apply andb_true_iff in H as [H1 H2]. rewrite (Hfg _ H1), (IH H2). reflexivity.
Qed.

Lemma forallb_repeat {A} (f : A -> bool) x n : f x = true -> forallb f (repeat x n) = true.
Proof. intros H. induction n as [|n IH]; cbn [repeat forallb]; [reflexivity|]. rewrite H, IH. reflexivity. Qed.

(** * Lists: looking into [pre ++ x ++ post] *)

Lemma nth_error_mid {A} (pre : list A) c post n : n = length pre -> nth_error (pre ++ c :: post) n = Some c.
Proof. intros ->. rewrite nth_error_app2 by lia. rewrite Nat.sub_diag. reflexivity. Qed.

Lemma skipn_mid {A} (pre x : list A) n : n = length pre -> skipn n (pre ++ x) = x.
Proof. intros ->. rewrite skipn_app, skipn_all, Nat.sub_diag. reflexivity. Qed.

Lemma slice_get_mid (pre x post : bytes) lo hi :
  lo = length pre -> hi = lo + length x -> slice_get lo hi (pre ++ x ++ post) = Some x.
Proof.
  intros -> ->. unfold slice_get, slice.
  assert (Hc : (Nat.leb (length pre) (length pre + length x) && Nat.leb (length pre + length x) (length (pre ++ x ++ post)))%bool = true).
  { apply andb_true_iff. split; apply Nat.leb_le; [lia|]. rewrite !app_length. lia. }
  rewrite Hc. rewrite skipn_mid by reflexivity.
  replace (length pre + length x - length pre) with (length x) by lia.
  rewrite firstn_app, Nat.sub_diag, firstn_all. cbn [firstn]. rewrite app_nil_r. reflexivity.
Qed.

Lemma slice_chk_mid (pre x post : bytes) lo hi :
  lo = length pre -> hi = lo + length x -> slice_chk lo hi (pre ++ x ++ post) = Ok x.
Proof. intros H1 H2. unfold slice_chk. rewrite (slice_get_mid pre x post lo hi H1 H2). reflexivity. Qed.

Lemma slice_chk_tail (pre x : bytes) lo : lo = length pre -> slice_chk lo (length (pre ++ x)) (pre ++ x) = Ok x.
Proof.
  intros ->. unfold slice_chk, slice_get, slice.
  assert (Hc : (Nat.leb (length pre) (length (pre ++ x)) && Nat.leb (length (pre ++ x)) (length (pre ++ x)))%bool = true).
  { apply andb_true_iff. split; apply Nat.leb_le; [rewrite app_length|]; lia. }
  rewrite Hc, skipn_mid by reflexivity. rewrite firstn_all2 by (rewrite app_length; lia). reflexivity.
Qed.

(** * [parse::headers] on a printed header block *)

Lemma hdr_step_name all c rest pos lf ns ne vs m :
  tchar c = true -> hdr_loop all (c :: rest) pos false lf ns ne vs m = hdr_loop all rest (S pos) false 0 ns ne vs m.
Proof.
  intros H. cbn [hdr_loop]. rewrite (tchar_CR _ H), (tchar_LF _ H), (tchar_COLON _ H), (tchar_SP _ H). reflexivity.
Qed.

Lemma hdr_name_chunk all : forall chunk c rest pos lf ns ne vs m,
  tchar c = true -> forallb tchar chunk = true ->
  hdr_loop all ((c :: chunk) ++ rest) pos false lf ns ne vs m = hdr_loop all rest (pos + S (length chunk)) false 0 ns ne vs m.
Proof.
  induction chunk as [|c' chunk IH]; intros c rest pos lf ns ne vs m Hc Hch.
  - cbn [app length]. rewrite hdr_step_name by exact Hc. replace (pos + 1) with (S pos) by lia. reflexivity.
  - cbn [forallb] in Hch. apply andb_true_iff in Hch as [Hc' Hch].
    cbn [app]. rewrite hdr_step_name by exact Hc.
    change (c' :: chunk ++ rest) with ((c' :: chunk) ++ rest). rewrite IH by assumption.
    cbn [length]. replace (S pos + S (length chunk)) with (pos + S (S (length chunk))) by lia. reflexivity.
Qed.

Lemma hdr_step_value all c rest pos lf ns ne vs m :
  no_crlf c = true -> hdr_loop all (c :: rest) pos true lf ns ne vs m = hdr_loop all rest (S pos) true 0 ns ne vs m.
Proof.
  intros H. destruct (no_crlf_spec _ H) as [H1 H2]. cbn [hdr_loop]. rewrite H1, H2. reflexivity.
Qed.

Lemma hdr_value_chunk all : forall chunk rest pos ns ne vs m,
  forallb no_crlf chunk = true ->
  hdr_loop all (chunk ++ rest) pos true 0 ns ne vs m = hdr_loop all rest (pos + length chunk) true 0 ns ne vs m.
Proof.
  induction chunk as [|c chunk IH]; intros rest pos ns ne vs m Hch.
  - cbn [app length]. rewrite Nat.add_0_r. reflexivity.
  - cbn [forallb] in Hch. apply andb_true_iff in Hch as [Hc Hch].
    cbn [app]. rewrite hdr_step_value by exact Hc. rewrite IH by exact Hch.
    cbn [length]. replace (S pos + length chunk) with (pos + S (length chunk)) by lia. reflexivity.
Qed.

Lemma hdr_step_colon all rest pos lf ns ne vs m :
  hdr_loop all (COLON :: rest) pos false lf ns ne vs m =
  if next_is_space all pos then hdr_loop all rest (S pos) false 0 ns pos vs m
  else hdr_loop all rest (S pos) true 0 ns pos (S pos) m.
Proof. reflexivity. Qed.

Lemma hdr_step_space all rest pos lf ns ne vs m :
  hdr_loop all (SP :: rest) pos false lf ns ne vs m = hdr_loop all rest (S pos) true 0 ns ne (value_start_from all pos) m.
Proof. reflexivity. Qed.

Lemma hdr_step_cr all rest pos inval lf ns ne vs m :
  hdr_loop all (CR :: rest) pos inval lf ns ne vs m = hdr_loop all rest (S pos) inval lf ns ne vs m.
Proof. reflexivity. Qed.

Lemma hdr_step_lf_end all rest pos inval ns ne vs m :
  hdr_loop all (LF :: rest) pos inval 1 ns ne vs m = Ok (m, S pos).
Proof. reflexivity. Qed.

Lemma hdr_step_lf_value all rest pos ns ne vs m :
  hdr_loop all (LF :: rest) pos true 0 ns ne vs m =
  match slice_get ns ne all with
  | None => Err E_ILLEGAL_NAME
  | Some raw =>
      match header_name raw with
      | None => Err E_ILLEGAL_NAME
      | Some name =>
          match slice_chk vs (if prev_is_cr all pos then pos - 1 else pos) all with
          | Ok v => if hvalue_ok v then hdr_loop all rest (S pos) false 1 (S pos) ne vs (hm_insert name v m)
                    else Err E_ILLEGAL_VALUE
          | Err e => Err e
          | Panic => Panic
          end
      end
  end.
Proof. reflexivity. Qed.

Lemma pns_repeat k x : (match x with c :: _ => N.eqb c SP = false | [] => False end) ->
  position_non_space (repeat SP k ++ x) = Some k.
Proof.
  intros Hx. induction k as [|k IH]; cbn [repeat app].
  - destruct x as [|c x]; [contradiction|]. cbn [position_non_space]. rewrite Hx. reflexivity.
  - cbn [position_non_space]. change (N.eqb SP SP) with true. cbn iota. rewrite IH. reflexivity.
Qed.

Lemma name_ok_header_name n : name_ok n = true -> header_name n = Some (lower n).
Proof.
  unfold name_ok, header_name. intros H. apply andb_true_iff in H as [H H3]. apply andb_true_iff in H as [H1 H2].
  apply negb_true_iff in H1. rewrite H1, H2. cbn [orb].
  destruct (N.ltb 65535 (N.of_nat (length n))) eqn:E; [lia|reflexivity].
Qed.

Lemma value_ok_head v post : value_ok v = true ->
  match v ++ CR :: post with c :: _ => N.eqb c SP = false | [] => False end.
Proof.
  unfold value_ok. intros H. apply andb_true_iff in H as [_ H]. destruct v as [|c v]; cbn [app]; [reflexivity|].
  apply negb_true_iff in H. exact H.
Qed.

Lemma value_ok_hvalue v : value_ok v = true -> hvalue_ok v = true.
Proof.
  unfold value_ok, hvalue_ok. intros H. apply andb_true_iff in H as [H _].
  apply (forallb_imp visible_or_sp); [apply vis_hvalue|exact H].
Qed.

Lemma value_ok_no_crlf v : value_ok v = true -> forallb no_crlf v = true.
Proof.
  unfold value_ok. intros H. apply andb_true_iff in H as [H _].
  apply (forallb_imp visible_or_sp); [apply vis_no_crlf|exact H].
Qed.

(** one header line [name ":" SP^k value CR LF] *)
Lemma hdr_line all pre name k value post :
  all = pre ++ name ++ [COLON] ++ repeat SP k ++ value ++ [CR; LF] ++ post ->
  name_ok name = true -> value_ok value = true ->
  forall lf ne vs m,
  hdr_loop all (name ++ [COLON] ++ repeat SP k ++ value ++ [CR; LF] ++ post) (length pre) false lf (length pre) ne vs m =
  hdr_loop all post (length pre + (length name + 1 + k + length value + 2)) false 1
           (length pre + (length name + 1 + k + length value + 2))
           (length pre + length name) (length pre + length name + 1 + k)
           (hm_insert (lower name) value m).
Proof.
  intros Hall Hn Hv lf ne vs m.
  pose proof (name_ok_header_name _ Hn) as Hhn.
  assert (Hn' := Hn). unfold name_ok in Hn'. apply andb_true_iff in Hn' as [Hn' _]. apply andb_true_iff in Hn' as [Hnn Hnt].
  destruct name as [|c0 name']; [discriminate|]. cbn [forallb] in Hnt. apply andb_true_iff in Hnt as [Hc0 Hnt].
  set (name := c0 :: name') in *.
  set (P := length pre). set (pos1 := P + length name).
  (* the name *)
  unfold name at 1. rewrite hdr_name_chunk by assumption.
  replace (P + S (length name')) with pos1 by (subst pos1 name; cbn [length]; lia).
  cbn [app]. rewrite hdr_step_colon.
  (* lookups *)
  assert (Hall1 : all = (pre ++ name ++ [COLON]) ++ repeat SP k ++ value ++ CR :: LF :: post).
  { rewrite Hall. rewrite <- !app_assoc. reflexivity. }
  assert (Hl1 : length (pre ++ name ++ [COLON]) = S pos1).
  { rewrite !app_length. cbn [length]. subst pos1 P. lia. }
  assert (Hname : slice_get P pos1 all = Some name).
  { rewrite Hall. apply slice_get_mid; subst pos1 P; reflexivity. }
  assert (Hall2 : all = (pre ++ name ++ [COLON] ++ repeat SP k) ++ value ++ CR :: LF :: post).
  { rewrite Hall. rewrite <- !app_assoc. reflexivity. }
  assert (Hl2 : length (pre ++ name ++ [COLON] ++ repeat SP k) = pos1 + 1 + k).
  { rewrite !app_length, repeat_length. cbn [length]. subst pos1 P. lia. }
  assert (Hval : slice_chk (pos1 + 1 + k) (pos1 + 1 + k + length value) all = Ok value).
  { rewrite Hall2. apply slice_chk_mid; [symmetry; exact Hl2|reflexivity]. }
  assert (Hall3 : all = (pre ++ name ++ [COLON] ++ repeat SP k ++ value) ++ CR :: LF :: post).
  { rewrite Hall. rewrite <- !app_assoc. reflexivity. }
  assert (Hl3 : length (pre ++ name ++ [COLON] ++ repeat SP k ++ value) = pos1 + 1 + k + length value).
  { rewrite !app_length, repeat_length. cbn [length]. subst pos1 P. lia. }
  assert (Hcr : prev_is_cr all (S (pos1 + 1 + k + length value)) = true).
  { unfold prev_is_cr. rewrite Hall3. rewrite nth_error_mid by (symmetry; exact Hl3). reflexivity. }
  pose proof (value_ok_head value (LF :: post) Hv) as Hhead.
  pose proof (value_ok_hvalue _ Hv) as Hhv.
  pose proof (value_ok_no_crlf _ Hv) as Hvc.
  (* after the value: CR LF *)
  assert (Htail : forall vs0, vs0 = pos1 + 1 + k ->
    hdr_loop all (CR :: LF :: post) (pos1 + 1 + k + length value) true 0 P pos1 vs0 m =
    hdr_loop all post (P + (length name + 1 + k + length value + 2)) false 1
      (P + (length name + 1 + k + length value + 2)) pos1 (pos1 + 1 + k) (hm_insert (lower name) value m)).
  { intros vs0 ->. rewrite hdr_step_cr, hdr_step_lf_value. rewrite Hname, Hhn, Hcr.
    replace (S (pos1 + 1 + k + length value) - 1) with (pos1 + 1 + k + length value) by lia.
    rewrite Hval, Hhv.
    replace (S (S (pos1 + 1 + k + length value))) with (P + (length name + 1 + k + length value + 2)) by (subst pos1; lia).
    reflexivity. }
  destruct k as [|k'].
  - (* "name:value" *)
    assert (Hnsp : next_is_space all pos1 = false).
    { unfold next_is_space. rewrite Hall1. cbn [repeat app].
      destruct (value ++ CR :: LF :: post) as [|c x] eqn:Ex; [contradiction|].
      rewrite nth_error_mid by (symmetry; exact Hl1). exact Hhead. }
    rewrite Hnsp. cbn [repeat app].
    rewrite hdr_value_chunk by exact Hvc.
    replace (S pos1 + length value) with (pos1 + 1 + 0 + length value) by lia.
    apply Htail. lia.
  - assert (Hnsp : next_is_space all pos1 = true).
    { unfold next_is_space. rewrite Hall1. cbn [repeat app].
      rewrite nth_error_mid by (symmetry; exact Hl1). reflexivity. }
    rewrite Hnsp. cbn [repeat app]. rewrite hdr_step_space.
    assert (Hvs : value_start_from all (S pos1) = S pos1 + S k').
    { unfold value_start_from. rewrite Hall1. rewrite skipn_mid by (symmetry; exact Hl1).
      rewrite (pns_repeat (S k')) by exact Hhead. lia. }
    rewrite Hvs. rewrite app_assoc.
    rewrite hdr_value_chunk.
    + rewrite app_length, repeat_length.
      replace (S (S pos1) + (k' + length value)) with (pos1 + 1 + S k' + length value) by lia.
      apply Htail. lia.
    + rewrite forallb_app. rewrite forallb_repeat by reflexivity. exact Hvc.
Qed.

Definition hdr_fold (m : hmap) (hs : list hline) : hmap :=
  fold_left (fun m h => hm_insert (lower (hl_name h)) (hl_value h) m) hs m.

Definition hlines_ok (hs : list hline) : bool :=
  forallb (fun h => name_ok (hl_name h) && value_ok (hl_value h)) hs.

Lemma print_hline_length h : length (print_hline h) = length (hl_name h) + 1 + hl_sp h + length (hl_value h) + 2.
Proof. unfold print_hline, crlf. rewrite !app_length, repeat_length. cbn [length]. lia. Qed.

Lemma hdr_block : forall hs pre post lf ne vs m,
  hlines_ok hs = true -> (hs <> [] \/ lf = 1) ->
  hdr_loop (pre ++ (concat (map print_hline hs) ++ [CR; LF]) ++ post) ((concat (map print_hline hs) ++ [CR; LF]) ++ post)
           (length pre) false lf (length pre) ne vs m =
  Ok (hdr_fold m hs, length pre + length (concat (map print_hline hs) ++ [CR; LF])).
Proof.
  induction hs as [|h hs IH]; intros pre post lf ne vs m Hok Hlf.
  - destruct Hlf as [Hlf|Hlf]; [contradiction|]. subst lf. cbn [map concat app length hdr_fold fold_left].
    rewrite hdr_step_cr, hdr_step_lf_end. repeat f_equal. lia.
  - cbn [hlines_ok forallb] in Hok. apply andb_true_iff in Hok as [Hh Hok]. apply andb_true_iff in Hh as [Hn Hv].
    cbn [map concat hdr_fold fold_left].
    set (B' := concat (map print_hline hs) ++ [CR; LF]).
    assert (Hrest : ((print_hline h ++ concat (map print_hline hs)) ++ [CR; LF]) ++ post =
                    hl_name h ++ [COLON] ++ repeat SP (hl_sp h) ++ hl_value h ++ [CR; LF] ++ (B' ++ post)).
    { unfold print_hline, crlf, B'. rewrite <- !app_assoc. reflexivity. }
    rewrite Hrest.
    rewrite (hdr_line _ pre (hl_name h) (hl_sp h) (hl_value h) (B' ++ post) eq_refl Hn Hv).
    assert (Hall' : pre ++ hl_name h ++ [COLON] ++ repeat SP (hl_sp h) ++ hl_value h ++ [CR; LF] ++ (B' ++ post) =
                    (pre ++ print_hline h) ++ B' ++ post).
    { unfold print_hline, crlf. rewrite <- !app_assoc. reflexivity. }
    rewrite Hall'.
    assert (Hlen : length pre + (length (hl_name h) + 1 + hl_sp h + length (hl_value h) + 2) = length (pre ++ print_hline h)).
    { rewrite app_length, print_hline_length. lia. }
    rewrite Hlen. unfold B'. rewrite IH; [|exact Hok|right; reflexivity].
    fold (hdr_fold (hm_insert (lower (hl_name h)) (hl_value h) m) hs).
    f_equal. f_equal. rewrite !app_length. lia.
Qed.

(** unique names: [HeaderMap::insert] appends *)
Lemma hm_insert_fresh k v m : forallb (fun e => negb (beq (fst e) k)) m = true -> hm_insert k v m = m ++ [(k, v)].
Proof.
  induction m as [|[k' v'] m IH]; cbn [forallb hm_insert app fst]; [reflexivity|].
  intros H. apply andb_true_iff in H as [H1 H2]. apply negb_true_iff in H1. rewrite H1, (IH H2). reflexivity.
Qed.

Lemma beq_sym a c : beq a c = beq c a.
Proof.
  destruct (beq a c) eqn:E.
  - apply beq_eq in E. subst. symmetry. apply beq_refl.
  - destruct (beq c a) eqn:E'; [|reflexivity]. apply beq_eq in E'. subst. rewrite beq_refl in E. discriminate.
Qed.

Definition lname (h : hline) : bytes := lower (hl_name h).

Lemma hdr_fold_nodup : forall hs m,
  forallb (fun h => forallb (fun e => negb (beq (fst e) (lname h))) m) hs = true ->
  nodup_b (map lname hs) = true ->
  hdr_fold m hs = m ++ map (fun h => (lname h, hl_value h)) hs.
Proof.
  induction hs as [|h hs IH]; intros m Hfresh Hnd; cbn [hdr_fold fold_left map]; [rewrite app_nil_r; reflexivity|].
  cbn [forallb] in Hfresh. apply andb_true_iff in Hfresh as [Hh Hfresh].
  cbn [map nodup_b] in Hnd. apply andb_true_iff in Hnd as [Hnot Hnd]. apply negb_true_iff in Hnot.
  fold (lname h). rewrite (hm_insert_fresh _ _ _ Hh).
  fold (hdr_fold (m ++ [(lname h, hl_value h)]) hs). rewrite IH; [rewrite <- app_assoc; reflexivity| |exact Hnd].
  clear IH Hnd. induction hs as [|h' hs IH']; [reflexivity|].
  cbn [forallb map existsb] in *. apply andb_true_iff in Hfresh as [Hf1 Hf2].
  apply orb_false_iff in Hnot as [Hn1 Hn2].
  rewrite forallb_app, Hf1. cbn [forallb fst]. rewrite Hn1. cbn [negb andb]. apply IH'; assumption.
Qed.

Lemma hdr_fold_g g : nodup_b (map (fun h => lower (hl_name h)) (g_headers g)) = true -> hdr_fold [] (g_headers g) = g_hmap g.
Proof.
  intros H. rewrite hdr_fold_nodup; [reflexivity| |exact H].
  induction (g_headers g) as [|h hs IH]; [reflexivity|]. cbn [forallb]. apply IH.
  cbn [map nodup_b] in H. apply andb_true_iff in H as [_ H]. exact H.
Qed.

(** * The request line *)

Lemma req_step_method all c rest pos acc ps pe ver lf :
  tchar c = true -> length acc < 7 ->
  req_loop all (c :: rest) pos RMethod acc ps pe ver lf = req_loop all rest (S pos) RMethod (acc ++ [c]) ps pe ver 0.
Proof.
  intros H Hl. cbn [req_loop]. rewrite (tchar_CR _ H), (tchar_LF _ H), (tchar_SP _ H).
  destruct (Nat.eqb (length acc) 7) eqn:E; [apply Nat.eqb_eq in E; lia|]. reflexivity.
Qed.

Lemma req_method_chunk all : forall chunk acc rest pos ps pe ver,
  forallb tchar chunk = true -> length acc + length chunk <= 7 ->
  req_loop all (chunk ++ rest) pos RMethod acc ps pe ver 0 = req_loop all rest (pos + length chunk) RMethod (acc ++ chunk) ps pe ver 0.
Proof.
  induction chunk as [|c chunk IH]; intros acc rest pos ps pe ver Hch Hl.
  - cbn [app length]. rewrite Nat.add_0_r, app_nil_r. reflexivity.
  - cbn [forallb] in Hch. apply andb_true_iff in Hch as [Hc Hch]. cbn [length] in Hl.
    cbn [app]. rewrite req_step_method by (assumption || lia).
    rewrite IH by (try assumption; rewrite app_length; cbn [length]; lia).
    rewrite <- app_assoc. cbn [app length]. replace (S pos + length chunk) with (pos + S (length chunk)) by lia. reflexivity.
Qed.

Lemma req_step_method_sp all rest pos acc ps pe ver :
  req_loop all (SP :: rest) pos RMethod acc ps pe ver 0 =
  match slice_chk 0 (length acc) all with
  | Ok m0 => if method_ok m0 then req_loop all rest (S pos) RPath acc ps pe ver 0 else Err E_INVALID_METHOD
  | Err e => Err e
  | Panic => Panic
  end.
Proof. reflexivity. Qed.

Lemma req_step_path all c rest pos m ps pe ver lf :
  plain c = true ->
  req_loop all (c :: rest) pos RPath m ps pe ver lf =
  req_loop all rest (S pos) RPath m (if Nat.eqb ps 0 then pos else ps) pe ver 0.
Proof.
  intros H. destruct (plain_spec _ H) as [H1 [H2 H3]]. cbn [req_loop]. rewrite H1, H2, H3. reflexivity.
Qed.

Lemma req_path_chunk all : forall chunk rest pos m ps pe ver,
  forallb plain chunk = true -> ps <> 0 ->
  req_loop all (chunk ++ rest) pos RPath m ps pe ver 0 = req_loop all rest (pos + length chunk) RPath m ps pe ver 0.
Proof.
  induction chunk as [|c chunk IH]; intros rest pos m ps pe ver Hch Hps.
  - cbn [app length]. rewrite Nat.add_0_r. reflexivity.
  - cbn [forallb] in Hch. apply andb_true_iff in Hch as [Hc Hch].
    cbn [app]. rewrite req_step_path by exact Hc.
    destruct (Nat.eqb ps 0) eqn:E; [apply Nat.eqb_eq in E; lia|].
    rewrite IH by assumption. cbn [length]. replace (S pos + length chunk) with (pos + S (length chunk)) by lia. reflexivity.
Qed.

Lemma req_step_path_sp all rest pos m ps pe ver :
  req_loop all (SP :: rest) pos RPath m ps pe ver 0 =
  req_loop all rest (S pos) RVersion m (if Nat.eqb ps 0 then pos else ps) pos ver 0.
Proof. reflexivity. Qed.

Lemma req_step_version all c rest pos m ps pe ver lf :
  no_crlf c = true -> length ver < 8 ->
  req_loop all (c :: rest) pos RVersion m ps pe ver lf = req_loop all rest (S pos) RVersion m ps pe (ver ++ [c]) 0.
Proof.
  intros H Hl. destruct (no_crlf_spec _ H) as [H1 H2]. cbn [req_loop]. rewrite H1, H2.
  destruct (Nat.eqb (length ver) 8) eqn:E; [apply Nat.eqb_eq in E; lia|]. reflexivity.
Qed.

Lemma req_version_chunk all : forall chunk acc rest pos m ps pe,
  forallb no_crlf chunk = true -> length acc + length chunk <= 8 ->
  req_loop all (chunk ++ rest) pos RVersion m ps pe acc 0 = req_loop all rest (pos + length chunk) RVersion m ps pe (acc ++ chunk) 0.
Proof.
  induction chunk as [|c chunk IH]; intros acc rest pos m ps pe Hch Hl.
  - cbn [app length]. rewrite Nat.add_0_r, app_nil_r. reflexivity.
  - cbn [forallb] in Hch. apply andb_true_iff in Hch as [Hc Hch]. cbn [length] in Hl.
    cbn [app]. rewrite req_step_version by (assumption || lia).
    rewrite IH by (try assumption; rewrite app_length; cbn [length]; lia).
    rewrite <- app_assoc. cbn [app length]. replace (S pos + length chunk) with (pos + S (length chunk)) by lia. reflexivity.
Qed.

Lemma req_step_cr all rest pos st m ps pe ver lf :
  req_loop all (CR :: rest) pos st m ps pe ver lf = req_loop all rest (S pos) st m ps pe ver lf.
Proof. reflexivity. Qed.

Lemma req_step_version_lf all rest pos m ps pe ver :
  req_loop all (LF :: rest) pos RVersion m ps pe ver 0 =
  match version_code ver with
  | None => Err E_INVALID_VERSION
  | Some _ => req_loop all rest (S pos) RHeader m ps pe ver 1
  end.
Proof. reflexivity. Qed.

Lemma req_step_blank all rest pos st m ps pe ver :
  req_loop all (LF :: rest) pos st m ps pe ver 1 = Ok (mk_scan m ps pe ver [] (S (S pos))).
Proof. reflexivity. Qed.

Lemma req_step_header all c rest pos m ps pe ver lf :
  tchar c = true ->
  req_loop all (c :: rest) pos RHeader m ps pe ver lf =
  match slice_chk pos (length all) all with
  | Ok hb =>
      match parse_headers hb with
      | Ok (h, e) => Ok (mk_scan m ps pe ver h (S pos + e))
      | Err e => Err e
      | Panic => Panic
      end
  | Err e => Err e
  | Panic => Panic
  end.
Proof. intros H. cbn [req_loop]. rewrite (tchar_CR _ H), (tchar_LF _ H). reflexivity. Qed.

(** * The whole head *)

Definition g_version (g : greq) : bytes := if g_v11 g then v11 else v10.

Lemma version_shape g : forallb no_crlf (g_version g) = true /\ length (g_version g) = 8 /\
  version_code (g_version g) = Some (if g_v11 g then 11%N else 10%N).
Proof. unfold g_version. destruct (g_v11 g); vm_compute; repeat split; reflexivity. Qed.

Lemma print_head_shape g extra :
  print_head g ++ extra =
  g_method g ++ SP :: g_target g ++ SP :: g_version g ++ CR :: LF :: (concat (map print_hline (g_headers g)) ++ [CR; LF]) ++ extra.
Proof. unfold print_head, crlf, g_version. rewrite <- !app_assoc. reflexivity. Qed.

Lemma print_head_length g :
  length (print_head g) =
  length (g_method g) + 1 + length (g_target g) + 1 + 8 + 2 + length (concat (map print_hline (g_headers g)) ++ [CR; LF]).
Proof.
  unfold print_head, crlf. repeat rewrite app_length. cbn [length].
  assert (Hl : length (if g_v11 g then v11 else v10) = 8) by (destruct (g_v11 g); reflexivity).
  rewrite Hl. lia.
Qed.

Record greq_facts (g : greq) : Prop := mk_facts {
  gf_start : valid_start (g_method g) = true;
  gf_mlen : length (g_method g) <= 7;
  gf_mtok : forallb tchar (g_method g) = true;
  gf_tnon : g_target g <> [];
  gf_tplain : forallb plain (g_target g) = true;
  gf_lines : hlines_ok (g_headers g) = true;
  gf_nodup : nodup_b (map (fun h => lower (hl_name h)) (g_headers g)) = true }.

Lemma greq_ok_facts g : greq_ok g = true -> greq_facts g.
Proof.
  unfold greq_ok. intros H.
  repeat (apply andb_true_iff in H; destruct H as [H ?]).
  constructor; try assumption.
  - apply Nat.leb_le. assumption.
  - destruct (g_target g); [discriminate|discriminate].
Qed.

Lemma valid_start_nonempty m : valid_start m = true -> m <> [].
Proof. intros H ->. vm_compute in H. discriminate. Qed.

Lemma req_loop_print g extra : greq_facts g ->
  let all := print_head g ++ extra in
  req_loop all all 0 RMethod [] 0 0 [] 0 =
  Ok (mk_scan (g_method g) (length (g_method g) + 1) (length (g_method g) + 1 + length (g_target g)) (g_version g)
              (hdr_fold [] (g_headers g)) (S (length (print_head g)))).
Proof.
  intros F all. destruct F as [Hstart Hmlen Hmtok Htnon Htplain Hlines Hnodup].
  destruct (version_shape g) as [Hvc [Hvl Hvcode]].
  set (block := concat (map print_hline (g_headers g)) ++ [CR; LF]).
  assert (Hall : all = g_method g ++ SP :: g_target g ++ SP :: g_version g ++ CR :: LF :: block ++ extra).
  { unfold all, block. apply print_head_shape. }
  set (M := length (g_method g)). set (T := length (g_target g)).
  rewrite Hall at 2.
  (* method *)
  rewrite req_method_chunk by (cbn [length]; assumption || lia). cbn [app Nat.add].
  rewrite req_step_method_sp.
  assert (Hm : slice_chk 0 M all = Ok (g_method g)).
  { rewrite Hall. apply (slice_chk_mid [] (g_method g)); reflexivity. }
  fold M. rewrite Hm.
  assert (Hmok : method_ok (g_method g) = true).
  { unfold method_ok. rewrite Hmtok. destruct (g_method g) eqn:E; [exfalso; apply (valid_start_nonempty _ Hstart); reflexivity|reflexivity]. }
  rewrite Hmok.
  (* target *)
  destruct (g_target g) as [|t0 target'] eqn:Et; [contradiction|].
  cbn [forallb] in Htplain. apply andb_true_iff in Htplain as [Ht0 Htp].
  cbn [app]. rewrite req_step_path by exact Ht0. cbn [Nat.eqb].
  rewrite req_path_chunk by (try assumption; lia).
  rewrite req_step_path_sp.
  destruct (Nat.eqb (S M) 0) eqn:E0; [apply Nat.eqb_eq in E0; lia|].
  (* version *)
  rewrite req_version_chunk by (cbn [length]; assumption || lia). cbn [app].
  rewrite req_step_cr, req_step_version_lf, Hvcode.
  (* positions *)
  set (pe := S (S M) + length target').
  set (pl := S (S (S pe + length (g_version g)))).
  assert (HT : T = S (length target')) by (subst T; reflexivity).
  (* header block *)
  assert (Hfin : forall h e, S pl + e = S (length (print_head g)) -> h = hdr_fold [] (g_headers g) ->
     Ok (mk_scan (g_method g) (S M) pe (g_version g) h (S pl + e)) =
     Ok (mk_scan (g_method g) (M + 1) (M + 1 + T) (g_version g) (hdr_fold [] (g_headers g)) (S (length (print_head g))))).
  { intros h e He ->. rewrite He. repeat f_equal; subst pe; lia. }
  assert (Hpl : pl + length block = length (print_head g)).
  { rewrite print_head_length. fold block. rewrite Et. fold M. subst pl pe. cbn [length]. rewrite Hvl. lia. }
  destruct (g_headers g) as [|h hs] eqn:Eh.
  - (* no header lines *)
    subst block. cbn [map concat app]. rewrite req_step_cr, req_step_blank.
    cbn [map concat app length] in Hpl. cbn [hdr_fold fold_left].
    replace (S (S (S pl))) with (S pl + 2) by lia. apply Hfin; [lia|reflexivity].
  - (* at least one: parse::headers on the rest of the buffer *)
    assert (Hn : name_ok (hl_name h) = true).
    { cbn [hlines_ok forallb] in Hlines. apply andb_true_iff in Hlines as [Hh _]. apply andb_true_iff in Hh as [Hh _]. exact Hh. }
    assert (Hn' := Hn). unfold name_ok in Hn'. apply andb_true_iff in Hn' as [Hn' _]. apply andb_true_iff in Hn' as [Hnn Hnt].
    assert (Hblock : exists c brest, block ++ extra = c :: brest /\ tchar c = true).
    { subst block. cbn [map concat]. unfold print_hline at 1. destruct (hl_name h) as [|c n']; [discriminate|].
      cbn [forallb] in Hnt. apply andb_true_iff in Hnt as [Hc _]. eexists. eexists. split; [|exact Hc].
      rewrite <- !app_assoc. cbn [app]. reflexivity. }
    destruct Hblock as [c [brest [Hb Hc]]]. rewrite Hb.
    rewrite req_step_header by exact Hc.
    assert (Hall2 : all = (g_method g ++ SP :: (t0 :: target') ++ SP :: g_version g ++ [CR; LF]) ++ block ++ extra).
    { rewrite Hall. repeat (progress (try rewrite <- !app_assoc; cbn [app])). reflexivity. }
    assert (Hlpre : pl = length (g_method g ++ SP :: (t0 :: target') ++ SP :: g_version g ++ [CR; LF])).
    { rewrite !app_length. cbn [length]. rewrite !app_length. cbn [length]. rewrite !app_length. cbn [length].
      subst pl pe. fold M. lia. }
    rewrite Hall2. rewrite (slice_chk_tail _ (block ++ extra) pl Hlpre).
    unfold parse_headers.
    assert (Hne : h :: hs <> []) by discriminate.
    pose proof (hdr_block (h :: hs) [] extra 0 0 0 [] Hlines (or_introl Hne)) as Hhb.
    cbn [app length] in Hhb. fold block in Hhb. rewrite Hhb.
    apply Hfin; [cbn [Nat.add]; lia|reflexivity].
Qed.

(** [parse_request] on a printed head followed by anything: exactly the printed request, and
    [extra] as the bytes after the head. *)
Lemma parse_request_print https dh g extra host auth path query :
  greq_ok g = true -> g_host dh g = Some host -> parse_uri https host (g_target g) = Some (auth, path, query) ->
  parse_request https dh (print_head g ++ extra) =
  Ok (mk_request (g_method g) path query (if g_v11 g then 11%N else 10%N) (g_hmap g) auth extra).
Proof.
  intros Hok Hhost Huri. pose proof (greq_ok_facts g Hok) as F.
  unfold parse_request. rewrite (req_loop_print g extra F). cbn [obind].
  destruct F as [Hstart Hmlen Hmtok Htnon Htplain Hlines Hnodup].
  destruct (version_shape g) as [_ [_ Hvcode]].
  unfold req_finish. cbn [sc_pe sc_ps sc_headers sc_method sc_ver sc_end].
  rewrite (hdr_fold_g g Hnodup).
  assert (Htl : 0 < length (g_target g)) by (destruct (g_target g); [contradiction|cbn [length]; lia]).
  destruct (Nat.leb (length (g_method g) + 1 + length (g_target g)) (length (g_method g) + 1)) eqn:E;
    [apply Nat.leb_le in E; lia|].
  unfold g_host in Hhost. rewrite Hhost.
  assert (Ht : slice_chk (length (g_method g) + 1) (length (g_method g) + 1 + length (g_target g)) (print_head g ++ extra) = Ok (g_target g)).
  { rewrite print_head_shape.
    change (g_method g ++ SP :: g_target g ++ ?x) with (g_method g ++ [SP] ++ g_target g ++ x).
    rewrite app_assoc. apply slice_chk_mid; [rewrite app_length; cbn [length]; lia|reflexivity]. }
  rewrite Ht. cbn [obind].
  assert (Hmok : method_ok (g_method g) = true).
  { unfold method_ok. rewrite Hmtok. destruct (g_method g) eqn:Em; [exfalso; apply (valid_start_nonempty _ Hstart); reflexivity|reflexivity]. }
  rewrite Hmok. cbn [negb]. rewrite Huri, Hvcode.
  rewrite (slice_chk_tail (print_head g) extra (length (print_head g)) eq_refl). cbn [obind]. reflexivity.
Qed.

(** * Where a printed head ends *)

Lemma bl_line : forall x ir rest, forallb no_crlf x = true -> (x <> [] \/ ir = false) ->
  bl_end ir (x ++ CR :: LF :: rest) = option_map (fun k => length x + 2 + k) (bl_end true rest).
Proof.
  induction x as [|c x IH]; intros ir rest Hx Hor.
  - destruct Hor as [Hor|Hor]; [contradiction|]. subst ir. cbn [app length].
    change (bl_end false (CR :: LF :: rest)) with (option_map S (option_map S (bl_end true rest))).
    destruct (bl_end true rest); reflexivity.
  - cbn [forallb] in Hx. apply andb_true_iff in Hx as [Hc Hx]. destruct (no_crlf_spec _ Hc) as [H1 H2].
    cbn [app bl_end]. rewrite H1, H2. rewrite (IH false rest Hx (or_intror eq_refl)).
    destruct (bl_end true rest); cbn [option_map length]; [f_equal; lia|reflexivity].
Qed.

Lemma hline_body_shape h : hlines_ok [h] = true ->
  let x := hl_name h ++ [COLON] ++ repeat SP (hl_sp h) ++ hl_value h in
  print_hline h = x ++ [CR; LF] /\ x <> [] /\ forallb no_crlf x = true.
Proof.
  intros H x. cbn [hlines_ok forallb] in H. rewrite andb_true_r in H. apply andb_true_iff in H as [Hn Hv].
  split; [unfold print_hline, crlf, x; rewrite <- !app_assoc; reflexivity|].
  unfold name_ok in Hn. apply andb_true_iff in Hn as [Hn _]. apply andb_true_iff in Hn as [Hnn Hnt].
  split; [subst x; destruct (hl_name h); [discriminate|discriminate]|].
  subst x. rewrite !forallb_app. rewrite (forallb_imp tchar no_crlf _ tchar_no_crlf Hnt).
  rewrite forallb_repeat by reflexivity. rewrite (value_ok_no_crlf _ Hv). reflexivity.
Qed.

Lemma bl_block : forall hs rest, hlines_ok hs = true ->
  bl_end true ((concat (map print_hline hs) ++ [CR; LF]) ++ rest) = Some (length (concat (map print_hline hs) ++ [CR; LF])).
Proof.
  induction hs as [|h hs IH]; intros rest Hok; [reflexivity|].
  cbn [hlines_ok forallb] in Hok. apply andb_true_iff in Hok as [Hh Hok].
  assert (Hh1 : hlines_ok [h] = true) by (cbn [hlines_ok forallb]; rewrite Hh; reflexivity).
  destruct (hline_body_shape h Hh1) as [Hp [Hne Hx]].
  set (x := hl_name h ++ [COLON] ++ repeat SP (hl_sp h) ++ hl_value h) in *.
  cbn [map concat]. rewrite Hp.
  replace (((x ++ [CR; LF]) ++ concat (map print_hline hs)) ++ [CR; LF]) with (x ++ CR :: LF :: (concat (map print_hline hs) ++ [CR; LF]))
    by (rewrite <- !app_assoc; reflexivity).
  rewrite <- app_assoc. cbn [app]. rewrite bl_line by (try assumption; left; exact Hne).
  fold (hlines_ok hs) in Hok. rewrite (IH rest Hok). cbn [option_map]. f_equal.
  rewrite !app_length. cbn [length]. rewrite !app_length. cbn [length]. lia.
Qed.

Lemma blank_end_print g rest : greq_facts g -> blank_end (print_head g ++ rest) = Some (length (print_head g)).
Proof.
  intros F. destruct F as [Hstart Hmlen Hmtok Htnon Htplain Hlines Hnodup].
  destruct (version_shape g) as [Hvc [Hvl _]].
  unfold blank_end. rewrite print_head_shape, print_head_length.
  set (x := g_method g ++ SP :: g_target g ++ SP :: g_version g).
  replace (g_method g ++ SP :: g_target g ++ SP :: g_version g ++ CR :: LF :: (concat (map print_hline (g_headers g)) ++ [CR; LF]) ++ rest)
    with (x ++ CR :: LF :: (concat (map print_hline (g_headers g)) ++ [CR; LF]) ++ rest)
    by (unfold x; repeat (progress (try rewrite <- !app_assoc; cbn [app])); reflexivity).
  rewrite bl_line.
  - rewrite (bl_block _ rest Hlines). cbn [option_map]. f_equal. unfold x.
    rewrite !app_length. cbn [length]. rewrite !app_length. cbn [length]. rewrite Hvl. lia.
  - unfold x. rewrite forallb_app. rewrite (forallb_imp tchar no_crlf _ tchar_no_crlf Hmtok). cbn [forallb andb].
    rewrite forallb_app. rewrite (forallb_imp plain no_crlf _ plain_no_crlf Htplain). cbn [forallb]. rewrite Hvc. reflexivity.
  - left. unfold x. destruct (g_method g); discriminate.
Qed.

Lemma valid_start_print g rest : greq_facts g -> valid_start (print_head g ++ rest) = true.
Proof.
  intros F. rewrite print_head_shape. apply valid_start_app. exact (gf_start g F).
Qed.

(** * Head, then body *)

Lemma serve_head grow : grow_ok grow -> forall mode https dh max_len limit stream sched,
  sched_pos sched ->
  let d := Nat.min (sum_sched sched) (length stream) in
  match head_spec max_len (firstn d stream) with
  | Ok k => exists c r', k <= c /\ c <= max_len /\ rd_at stream d c r' /\
      serve grow mode https dh max_len limit stream sched =
      obind (parse_request https dh (firstn c stream)) (fun q =>
        match read_to_bytes grow mode (q_early q) (body_length (q_method q) (q_headers q)) limit r' with
        | Ok (b, r'') => Ok (mk_served q (Ok b) (length stream - length (rd_data r'')))
        | Err e => Ok (mk_served q (Err e) 0)
        | Panic => Panic
        end)
  | Err e => serve grow mode https dh max_len limit stream sched = Err e
  | Panic => False
  end.
Proof.
  intros Hg mode https dh max_len limit stream sched Hp d.
  pose proof (read_headers_exact grow Hg (S (length stream)) mode max_len stream d 0 512 (mk_reader stream sched)
                (rd_at_start stream sched Hp)) as H.
  cbn [firstn] in H. specialize (H ltac:(lia) ltac:(lia) eq_refl ltac:(lia)).
  unfold serve, read_request. cbn [rd_data].
  destruct (head_spec max_len (firstn d stream)) as [k|e|]; [|rewrite H; reflexivity|exact H].
  destruct H as [c [r' [H [Hk [Hc Hat]]]]]. exists c, r'. rewrite H. cbn [obind fst snd].
  split; [exact Hk|]. split; [exact Hc|]. split; [exact Hat|].
  destruct (parse_request https dh (firstn c stream)); reflexivity.
Qed.

Lemma expect_some https dh limit g rest e : expect https dh limit g rest = Some e ->
  exists host auth path query,
    g_host dh g = Some host /\ parse_uri https host (g_target g) = Some (auth, path, query) /\
    e = mk_expected (g_method g) path query (if g_v11 g then 11%N else 10%N) (g_hmap g) auth
          (firstn (N.to_nat (N.min (body_length (g_method g) (g_hmap g)) limit)) rest).
Proof.
  unfold expect. destruct (g_host dh g) as [host|] eqn:Eh; [|discriminate].
  destruct (parse_uri https host (g_target g)) as [[[auth path] query]|] eqn:Eu; [|discriminate].
  intros H. inversion H. exists host, auth, path, query. split; [reflexivity|]. split; [exact Eu|reflexivity].
Qed.

Lemma parse_print_lemma : forall grow mode https dh max_len limit g rest sched e,
  grow_ok grow -> sched_pos sched -> greq_ok g = true -> length (print_head g) <= max_len ->
  expect https dh limit g rest = Some e ->
  N.to_nat (N.min (body_length (g_method g) (g_hmap g)) limit) <= length rest ->
  length (print_head g) + N.to_nat (N.min (body_length (g_method g) (g_hmap g)) limit) <= sum_sched sched ->
  exists sv, serve grow mode https dh max_len limit (print_head g ++ rest) sched = Ok sv /\ observed sv = Some e.
Proof.
  intros grow mode https dh max_len limit g rest sched e Hg Hp Hok Hmax Hex Hneed1 Hneed2.
  destruct (expect_some _ _ _ _ _ _ Hex) as [host [auth [path [query [Hhost [Huri He]]]]]].
  pose proof (greq_ok_facts g Hok) as F.
  set (need := N.to_nat (N.min (body_length (g_method g) (g_hmap g)) limit)) in *.
  set (stream := print_head g ++ rest). set (H := length (print_head g)) in *.
  set (d := Nat.min (sum_sched sched) (length stream)).
  assert (Hls : length stream = H + length rest) by (unfold stream; rewrite app_length; reflexivity).
  assert (Hd : H + need <= d) by lia.
  assert (HdS : d <= length stream) by lia.
  pose proof (blank_end_print g rest F) as Hbe. fold stream in Hbe. fold H in Hbe.
  assert (Hhs : head_spec max_len (firstn d stream) = Ok H).
  { unfold head_spec, blank_end in *. rewrite (bl_end_firstn false stream H d Hbe) by lia.
    destruct (Nat.leb H max_len) eqn:E; [|apply Nat.leb_gt in E; lia].
    rewrite valid_start_prefix_stable; [unfold stream; rewrite (valid_start_print g rest F); reflexivity|exact HdS|].
    right. rewrite ctn_firstn, Hbe. apply Nat.leb_le. lia. }
  pose proof (serve_head grow Hg mode https dh max_len limit stream sched Hp) as Hs. cbv zeta in Hs. fold d in Hs.
  rewrite Hhs in Hs. destruct Hs as [c [r' [Hc1 [Hc2 [Hat Hs]]]]].
  assert (Hcd : c <= d) by (destruct Hat as [_ [_ [? _]]]; assumption).
  assert (Hbuf : firstn c stream = print_head g ++ firstn (c - H) rest).
  { unfold stream. rewrite firstn_app. fold H. rewrite firstn_all2 by (fold H; lia). reflexivity. }
  rewrite Hbuf in Hs. rewrite (parse_request_print https dh g _ host auth path query Hok Hhost Huri) in Hs.
  cbn [obind q_early q_method q_headers] in Hs.
  pose proof (read_to_bytes_exact grow Hg mode (firstn (c - H) rest) (body_length (g_method g) (g_hmap g)) limit stream d c r' Hat) as Hb.
  unfold body_spec in Hb. fold need in Hb.
  assert (Hel : length (firstn (c - H) rest) = c - H) by (rewrite firstn_length; lia).
  assert (Hdl : length (firstn (d - c) (skipn c stream)) = d - c) by (rewrite firstn_length, skipn_length; lia).
  rewrite Hel, Hdl in Hb.
  destruct (Nat.leb need (c - H + (d - c))) eqn:E; [|apply Nat.leb_gt in E; lia].
  destruct Hb as [r'' [Hb _]]. rewrite Hb in Hs.
  eexists. split; [exact Hs|]. unfold observed. cbn [sv_body sv_request q_method q_path q_query q_version q_headers q_authority].
  rewrite He. f_equal. f_equal.
  rewrite firstn_app_firstn by (rewrite Hel; lia).
  assert (Hsk : skipn c stream = skipn (c - H) rest).
  { unfold stream. rewrite skipn_app. fold H. rewrite skipn_all2 by (fold H; lia). reflexivity. }
  rewrite Hsk, firstn_skipn. reflexivity.
Qed.

Lemma schedule_independent_lemma : forall grow1 grow2 mode1 mode2 https dh max_len limit g rest sched1 sched2,
  grow_ok grow1 -> grow_ok grow2 -> sched_pos sched1 -> sched_pos sched2 ->
  greq_ok g = true -> length (print_head g) <= max_len ->
  expect https dh limit g rest <> None ->
  N.to_nat (N.min (body_length (g_method g) (g_hmap g)) limit) <= length rest ->
  length (print_head g) + N.to_nat (N.min (body_length (g_method g) (g_hmap g)) limit) <= sum_sched sched1 ->
  length (print_head g) + N.to_nat (N.min (body_length (g_method g) (g_hmap g)) limit) <= sum_sched sched2 ->
  exists sv1 sv2,
    serve grow1 mode1 https dh max_len limit (print_head g ++ rest) sched1 = Ok sv1 /\
    serve grow2 mode2 https dh max_len limit (print_head g ++ rest) sched2 = Ok sv2 /\
    observed sv1 = observed sv2 /\ observed sv1 <> None.
Proof.
  intros grow1 grow2 mode1 mode2 https dh max_len limit g rest sched1 sched2 Hg1 Hg2 Hp1 Hp2 Hok Hmax Hex Hn H1 H2.
  destruct (expect https dh limit g rest) as [e|] eqn:He; [|contradiction].
  destruct (parse_print_lemma grow1 mode1 https dh max_len limit g rest sched1 e Hg1 Hp1 Hok Hmax He Hn H1) as [sv1 [Hs1 Ho1]].
  destruct (parse_print_lemma grow2 mode2 https dh max_len limit g rest sched2 e Hg2 Hp2 Hok Hmax He Hn H2) as [sv2 [Hs2 Ho2]].
  exists sv1, sv2. repeat split; try assumption; [congruence|rewrite Ho1; discriminate].
Qed.
