From Coq Require Import ZifyBool ZifyNat ZifyN.
From KV Require Import Shutdown ShutdownProofs Handover.
(** C11 — proofs about the transition system of Model/Handover.v. *)
Open Scope nat_scope.

Ltac break_step H :=
  repeat match type of H with
  | (match ?x with _ => _ end) = Some _ => destruct x eqn:?; try discriminate H
  | (if ?x then _ else _) = Some _ => destruct x eqn:?; try discriminate H
  | (let (_, _) := ?x in _) = Some _ => destruct x eqn:?
  | option_map _ ?x = Some _ => destruct x eqn:?; cbn [option_map] in H; try discriminate H
  end.

Lemma swapD_init s : init_sent (swapD s) = init_sent s. Proof. unfold swapD; destruct (gD s); reflexivity. Qed.
Lemma rstep_ls s r s' o : rstep s r = (s', o) -> ls s' = ls s.
Proof. destruct r; cbn; intros H; inversion H; subst; try reflexivity. apply swapD_ls. Qed.
Lemma rstep_callers s r s' o : rstep s r = (s', o) -> callers s' = callers s.
Proof. destruct r; cbn; intros H; inversion H; subst; try reflexivity. apply swapD_callers. Qed.
Lemma rstep_S s r s' o : rstep s r = (s', o) -> gS s' = gS s.
Proof. destruct r; cbn; intros H; inversion H; subst; try reflexivity. apply swapD_S. Qed.

Ltac unfold_steps H :=
  unfold step_listener, step_take, step_conn, step_panic, step_caller, step_comp, step_hook, park in H.

Lemma step_lengths v s lb s' : step v s lb = Some s' ->
  length (ls s') = length (ls s) /\ length (callers s') = length (callers s).
Proof.
  intros H. destruct lb; cbn [step] in H; unfold_steps H; break_step H.
  all: try (inversion H; subst; clear H; cbn; rewrite ?upd_length, ?map_length, ?swapD_ls, ?swapD_callers; auto; fail).
  all: try (inversion H; subst; clear H; cbn; rewrite ?upd_length;
            match goal with E : rstep _ _ = _ |- _ => rewrite (rstep_ls _ _ _ _ E), (rstep_callers _ _ _ _ E) end; auto; fail).
Qed.

(* F3 *)
Lemma step_S_other v s lb s' : step v s lb = Some s' -> (forall k, lb <> SStep k) -> gS s' = gS s.
Proof.
  intros H Hn. destruct lb; cbn [step] in H; unfold_steps H; break_step H.
  all: try (exfalso; eapply Hn; reflexivity).
  all: try (inversion H; subst; clear H; cbn; rewrite ?swapD_S; auto; fail).
  all: try (inversion H; subst; clear H; cbn;
            match goal with E : rstep _ _ = _ |- _ => rewrite (rstep_S _ _ _ _ E) end; auto; fail).
Qed.

(** the shutdown flag is never reset *)
Lemma step_S_mono v s lb s' : step v s lb = Some s' -> gS s = true -> gS s' = true.
Proof.
  intros H HS. destruct lb; try (rewrite (step_S_other _ _ _ _ H); [exact HS|intros; discriminate]).
  cbn [step] in H. unfold_steps H. break_step H.
  all: inversion H; subst; clear H; cbn; rewrite ?swapD_S; auto.
Qed.

Definition l_open (l : listener) : bool := match l_pc l with LShut | LRel _ | LExited => false | _ => true end.
Definition s_new (p : spc) : bool := match p with SNew => true | _ => false end.
Definition unreq (s : state) : Prop :=
  gS s = false -> forallb l_open (ls s) = true /\ forallb s_new (callers s) = true /\ init_sent s = false.

Lemma rstep_init s r s' o : rstep s r = (s', o) -> init_sent s' = init_sent s.
Proof. destruct r; cbn; intros H; inversion H; subst; try reflexivity. apply swapD_init. Qed.

Lemma unreq_step s lb s' : unreq s -> step repaired s lb = Some s' -> unreq s'.
Proof.
  intros Hinv H HS'.
  destruct lb; cbn [step] in H; unfold_steps H; cbn [fixA fixB fixC repaired] in H; break_step H.
  all: inversion H; subst; clear H; cbn in HS'.
  all: try match goal with E : rstep _ _ = _ |- _ =>
         pose proof (rstep_S _ _ _ _ E) as HrS; pose proof (rstep_ls _ _ _ _ E) as Hrl;
         pose proof (rstep_callers _ _ _ _ E) as Hrc; pose proof (rstep_init _ _ _ _ E) as Hri end.
  all: try rewrite swapD_S in HS'.
  all: try (rewrite HrS in HS').
  all: try discriminate HS'.
  all: destruct (Hinv HS') as (Hl & Hc & Hi).
  all: cbn; rewrite ?swapD_ls, ?swapD_callers, ?swapD_init, ?Hrl, ?Hrc, ?Hri.
  all: try (split; [|split]; assumption).
  all: try (match goal with E : nth_error (ls _) _ = Some ?l |- _ =>
         pose proof (forallb_nth _ _ _ _ Hl E) as Hopen; unfold l_open in Hopen end).
  all: try (match goal with E : nth_error (callers _) _ = Some ?l |- _ =>
         pose proof (forallb_nth _ _ _ _ Hc E) as Hnew; unfold s_new in Hnew end).
  all: try match goal with E : l_pc _ = _ |- _ => rewrite E in Hopen; try discriminate Hopen end.
  all: try (subst; discriminate Hnew).
  all: try (split; [|split]; try assumption; apply forallb_upd; try assumption; unfold l_open; cbn; try rewrite HS'; try reflexivity;
            match goal with E : l_pc _ = _ |- _ => rewrite E; reflexivity end).
  destruct (l_queue l); inversion Heqo0; subst.
  split; [|split]; try assumption. apply forallb_upd; try assumption; try reflexivity.
Qed.

Lemma forallb_repeat {A} (f : A -> bool) x n : f x = true -> forallb f (repeat x n) = true.
Proof. intros H; induction n; cbn; auto. rewrite H, IHn. reflexivity. Qed.

Lemma unreq_reachable s : reachable repaired s -> unreq s.
Proof.
  induction 1 as [nl nc nh nw|s lb s' _ IH Hs].
  - intros _. cbn. split; [|split]; auto; apply forallb_repeat; reflexivity.
  - eapply unreq_step; eauto.
Qed.

Lemma nth_upd {A} (l : list A) i j x d :
  nth j (upd i x l) d = if Nat.eqb i j then (if Nat.ltb i (length l) then x else d) else nth j l d.
Proof.
  revert i j; induction l as [|a l IH]; intros [|i] [|j]; cbn [upd nth Nat.eqb length]; try reflexivity.
  - destruct (Nat.eqb i j); reflexivity.
  - rewrite IH. change (Nat.ltb (S i) (S (length l))) with (Nat.ltb i (length l)). reflexivity.
Qed.

Lemma nth_error_lt {A} (l : list A) i x : nth_error l i = Some x -> i < length l.
Proof. intros H. apply nth_error_Some. rewrite H. discriminate. Qed.

Lemma kget_kset c c' v l : kget c' (kset c v l) = if Nat.eqb c c' then v else kget c' l.
Proof.
  unfold kget. revert c' l. induction c as [|c IH]; intros [|c'] [|a l]; cbn [kset nth Nat.eqb]; try reflexivity.
  - destruct c'; reflexivity.
  - rewrite IH. destruct (Nat.eqb c c'); [reflexivity|]. destruct c'; reflexivity.
  - apply IH.
Qed.

Lemma step_init_mono v s lb s' : step v s lb = Some s' -> init_sent s = true -> init_sent s' = true.
Proof.
  intros H HS. destruct lb; cbn [step] in H; unfold_steps H; break_step H.
  all: try (inversion H; subst; clear H; cbn; rewrite ?swapD_init; auto; fail).
  all: try (inversion H; subst; clear H; cbn;
            match goal with E : rstep _ _ = _ |- _ => rewrite (rstep_init _ _ _ _ E) end; auto; fail).
Qed.

Lemma step_callers_other v s lb s' : step v s lb = Some s' -> (forall k, lb <> SStep k) -> callers s' = callers s.
Proof.
  intros H Hn. destruct lb; cbn [step] in H; unfold_steps H; break_step H.
  all: try (exfalso; eapply Hn; reflexivity).
  all: try (inversion H; subst; clear H; cbn; rewrite ?swapD_callers; auto; fail).
  all: try (inversion H; subst; clear H; cbn;
            match goal with E : rstep _ _ = _ |- _ => rewrite (rstep_callers _ _ _ _ E) end; auto; fail).
Qed.

(** a caller that has returned stays returned *)
Lemma step_done_stays s lb s' :
  step repaired s lb = Some s' -> length (callers s) = 1 -> nth_error (callers s) 0 = Some SDone -> nth_error (callers s') 0 = Some SDone.
Proof.
  intros H Hl Hd. destruct lb; try (rewrite (step_callers_other _ _ _ _ H); [exact Hd|intros; discriminate]).
  exfalso. cbn [step] in H. destruct k as [|k].
  - rewrite Hd in H. discriminate.
  - destruct (nth_error (callers s) (S k)) eqn:E; try discriminate. apply nth_error_lt in E. lia.
Qed.

(** ** The chain of instances: inductive invariant *)
Definition has_sent (p : ipc) : bool := match p with PSpawn _ | PListen _ => false | _ => true end.
Definition told (x : inst) : bool := i_msg x || i_recv x.
Ltac cbn_inst := cbn [with_pc with_bnd with_ctl with_msg with_sd with_ka with_lw i_pc i_bnd i_ctl i_msg i_recv i_replied i_sd i_ka i_lw
                      spawned told has_sent].

Record wf (n : nat) (x : inst) : Prop := {
  wf_len : length (i_bnd x) = n;
  wf_ls : length (ls (i_sd x)) = n;
  wf_callers : length (callers (i_sd x)) = 1;
  wf_reach : reachable repaired (i_sd x);
  wf_bnd : forall j, spawned n (i_pc x) j = true -> nth j (i_bnd x) BNone = BListening;
  wf_S : gS (i_sd x) = true -> i_recv x = true;
  wf_recv : told x = true -> i_ctl x <> TNone;
  wf_ctl : i_ctl x <> TNone -> i_pc x = PRunning;
  wf_run : i_pc x = PRunning -> i_ctl x <> TNone;
  wf_nsp : i_ctl x <> TSpawned;
  wf_closed : i_ctl x = TClosed -> init_sent (i_sd x) = true;
  wf_replied : i_replied x = true -> caller_pc x = Some SDone /\ i_recv x = true;
  wf_msg : i_msg x = true -> i_recv x = false /\ i_ctl x = TBound;
  wf_ka : forall c, k_after (kget c (i_ka x)) <= 1 /\
                    (k_after (kget c (i_ka x)) = 1 -> gS (i_sd x) = true /\ k_st (kget c (i_ka x)) <> KIdle);
  wf_pl : forall j, i_pc x = PListen j -> j < n
}.

(** instance [a] (state [x]) and its successor (state [y]); [last]: the successor is the newest instance *)
Record pairinv (a : nat) (x y : inst) (last : bool) : Prop := {
  pi_run : i_pc x = PRunning;
  pi_sent : told x = true -> has_sent (i_pc y) = true;
  pi_wait : told x = true -> i_replied x = false -> i_pc y = PWait a /\ last = true;
  pi_pwait : forall k, i_pc y = PWait k -> k = a /\ told x = true
}.

Record hinv (n : nat) (s : hstate) : Prop := {
  hi_np : np s = n;
  hi_first : exists x, nth_error (insts s) 0 = Some x /\ i_pc x = PRunning;
  hi_wf : forall i x, nth_error (insts s) i = Some x -> wf n x;
  hi_pair : forall a x y, nth_error (insts s) a = Some x -> nth_error (insts s) (S a) = Some y ->
            pairinv a x y (Nat.eqb (S (S a)) (length (insts s)));
  hi_last : forall x, nth_error (insts s) (pred (length (insts s))) = Some x -> told x = false;
  hi_path : forall k, path s = Some k ->
            S k = length (insts s) \/
            (S (S k) = length (insts s) /\ exists y, nth_error (insts s) (S k) = Some y /\ i_ctl y = TNone);
  hi_bindctl : forall i y, nth_error (insts s) i = Some y -> i_pc y = PBindCtl -> path s = None;
  hi_served : forall y, nth_error (insts s) (pred (length (insts s))) = Some y -> i_ctl y = TBound ->
              path s = Some (pred (length (insts s)))
}.

Lemma kget_nil c : kget c [] = kc0. Proof. unfold kget. destruct c; reflexivity. Qed.

Lemma wf_new n : wf n (new_inst n).
Proof.
  constructor; cbn.
  all: try (apply repeat_length).
  all: try reflexivity.
  all: try (apply reach_init).
  all: try discriminate.
  all: try (intros; discriminate).
  all: try (intros H; exfalso; apply H; reflexivity).
  all: try (intros c; destruct c; (split; [cbv; lia|cbv; intros Hc; discriminate Hc])).
Qed.

Lemma nth_repeat {A} (x d : A) n j : j < n -> nth j (repeat x n) d = x.
Proof. revert j; induction n; intros [|j] H; cbn; auto; try lia. apply IHn. lia. Qed.

Lemma wf_up n : wf n (up_inst n).
Proof.
  constructor; cbn.
  all: try (apply repeat_length).
  all: try reflexivity.
  all: try (apply reach_init).
  all: try discriminate.
  all: try (intros; discriminate).
  all: try (intros c; destruct c; (split; [cbv; lia|cbv; intros Hc; discriminate Hc])).
  intros j H. apply Nat.ltb_lt in H. apply nth_repeat; exact H.
Qed.

Lemma hinv_init n : hinv n (hinit n).
Proof.
  constructor; cbn.
  - reflexivity.
  - eexists; split; reflexivity.
  - intros [|i] x H; cbn in H; inversion H; subst; try apply wf_up. destruct i; discriminate.
  - intros a x y _ H. destruct a; discriminate.
  - intros x H. inversion H; subst. reflexivity.
  - intros k H. inversion H; subst. left. reflexivity.
  - intros [|i] y H Hp; cbn in H; inversion H; subst; try discriminate. destruct i; discriminate.
  - intros y _ _. reflexivity.
Qed.

(** *** updating one instance *)
Lemma hinv_len n s : hinv n s -> length (insts s) > 0.
Proof. intros [_ (x & H & _) _ _ _ _ _ _]. apply nth_error_lt in H. lia. Qed.

(** every instance but the newest has returned from [execute] *)
Lemma hinv_old n s i x : hinv n s -> nth_error (insts s) i = Some x -> S i < length (insts s) -> i_pc x = PRunning.
Proof.
  intros Hinv Hx Hlt. destruct (nth_error (insts s) (S i)) as [y|] eqn:Hy; [|apply nth_error_None in Hy; lia].
  exact (pi_run _ _ _ _ (hi_pair _ _ Hinv _ _ _ Hx Hy)).
Qed.

Lemma hinv_upd n s i x x' p' :
  hinv n s -> nth_error (insts s) i = Some x -> wf n x' ->
  (i = 0 -> i_pc x' = PRunning) ->
  (forall a z, nth_error (insts s) a = Some z -> S a = i -> pairinv a z x' (Nat.eqb (S i) (length (insts s)))) ->
  (forall y, nth_error (insts s) (S i) = Some y -> pairinv i x' y (Nat.eqb (S (S i)) (length (insts s)))) ->
  (S i = length (insts s) -> told x' = false) ->
  ((p' = path s /\ (i_ctl x = TNone -> i_ctl x' = TNone) /\ (i_pc x' = PBindCtl -> i_pc x = PBindCtl) /\
    (i_ctl x' = TBound -> i_ctl x = TBound)) \/
   (p' = None /\ (S i = length (insts s) -> i_ctl x' <> TBound) /\
                 (forall y, S i <> length (insts s) -> nth_error (insts s) (pred (length (insts s))) = Some y -> i_ctl y <> TBound)) \/
   (p' = Some i /\ S i = length (insts s) /\ i_pc x' <> PBindCtl)) ->
  hinv n {| np := np s; insts := upd i x' (insts s); path := p' |}.
Proof.
  intros Hinv Hx Hwf' H0 Hpred Hsucc Hlast Hp.
  pose proof (hinv_len _ _ Hinv) as Hpos.
  pose proof Hinv as [Hnp Hfirst Hwf Hpair Hlst Hpath Hbc Hsv].
  assert (Hlen : length (upd i x' (insts s)) = length (insts s)) by apply upd_length.
  assert (Hi : i < length (insts s)) by (eapply nth_error_lt; eauto).
  constructor; cbn [np insts path]; try rewrite Hlen.
  - exact Hnp.
  - destruct Hfirst as (x0 & Hx0 & Hpc0). rewrite nth_error_upd.
    destruct (Nat.eqb i 0) eqn:E.
    + apply Nat.eqb_eq in E. rewrite Hx. eexists; split; [reflexivity|]. auto.
    + eexists; split; eauto.
  - intros k y. rewrite nth_error_upd. destruct (Nat.eqb i k) eqn:E.
    + rewrite Hx. intros H; inversion H; subst. assumption.
    + apply Hwf.
  - intros a z y. rewrite !nth_error_upd.
    destruct (Nat.eqb_spec i a) as [Ea|Ea]; destruct (Nat.eqb_spec i (S a)) as [Eb|Eb].
    + lia.
    + subst a. rewrite Hx. intros Hz Hy. inversion Hz; subst z. apply Hsucc; exact Hy.
    + rewrite Hx. intros Hz Hy. inversion Hy; subst y. rewrite <- Eb. apply Hpred; auto.
    + apply Hpair.
  - intros y. rewrite nth_error_upd. destruct (Nat.eqb i (pred (length (insts s)))) eqn:E.
    + apply Nat.eqb_eq in E. rewrite Hx. intros H; inversion H; subst. apply Hlast. lia.
    + apply Hlst.
  - intros k Hk. destruct Hp as [(Hp & Hc & _ & _)|[(Hp & _)|(Hp & Hl & _)]]; subst p'; try discriminate.
    + destruct (Hpath _ Hk) as [H|(H & y & Hy & Hyc)]; [left; exact H|right]. split; [exact H|].
      rewrite nth_error_upd. destruct (Nat.eqb i (S k)) eqn:E.
      * apply Nat.eqb_eq in E; subst. rewrite Hx. rewrite Hy in Hx. inversion Hx; subst.
        eexists; split; [reflexivity|]. auto.
      * eexists; split; eauto.
    + inversion Hk; subst. left; exact Hl.
  - intros a y. rewrite nth_error_upd. destruct (Nat.eqb i a) eqn:E.
    + apply Nat.eqb_eq in E; subst a. rewrite Hx. intros H Hpc; inversion H; subst y.
      destruct Hp as [(Hp & _ & Hb & _)|[(Hp & _)|(Hp & Hl & Hnb)]]; subst p'; auto.
      * apply (Hbc _ _ Hx). auto.
      * contradiction.
    + apply Nat.eqb_neq in E. intros Hy Hpc.
      destruct Hp as [(Hp & _)|[(Hp & _)|(Hp & Hl & _)]]; subst p'; auto.
      * eapply Hbc; eauto.
      * exfalso. assert (S a < length (insts s)) by (apply nth_error_lt in Hy; lia).
        rewrite (hinv_old _ _ _ _ Hinv Hy H) in Hpc. discriminate.
  - intros y. rewrite nth_error_upd. destruct (Nat.eqb i (pred (length (insts s)))) eqn:E.
    + apply Nat.eqb_eq in E. rewrite Hx. intros H Hc; inversion H; subst y.
      destruct Hp as [(Hp & _ & _ & Hb)|[(Hp & Hn & _)|(Hp & Hl & _)]]; subst p'.
      * apply (Hsv x); [rewrite <- E; exact Hx|auto].
      * exfalso. apply Hn; [lia|exact Hc].
      * f_equal. lia.
    + apply Nat.eqb_neq in E. intros Hy Hc.
      destruct Hp as [(Hp & _)|[(Hp & _ & Hn)|(Hp & Hl & _)]]; subst p'.
      * apply (Hsv y); auto.
      * exfalso. eapply Hn; eauto. lia.
      * lia.
Qed.

Definition same_ctl (x x' : inst) : Prop :=
  i_pc x' = i_pc x /\ i_ctl x' = i_ctl x /\ i_msg x' = i_msg x /\ i_recv x' = i_recv x /\ i_replied x' = i_replied x.

Lemma pairinv_l a x x' y last :
  i_pc x' = i_pc x -> told x' = told x -> (i_replied x = true -> i_replied x' = true) -> pairinv a x y last -> pairinv a x' y last.
Proof.
  intros Hp Ht Hrp [P1 P2 P3 P4].
  constructor; rewrite ?Hp, ?Ht; auto.
  intros H1 H2. apply P3; auto. destruct (i_replied x); auto. rewrite Hrp in H2; auto.
Qed.

Lemma same_told x x' : same_ctl x x' -> told x' = told x.
Proof. intros (_ & _ & Hm & Hr & _). unfold told. rewrite Hm, Hr. reflexivity. Qed.

Lemma pairinv_r a x y y' last : i_pc y' = i_pc y -> pairinv a x y last -> pairinv a x y' last.
Proof. intros Hp [P1 P2 P3 P4]. constructor; rewrite ?Hp; auto. Qed.

Lemma hinv_inert n s i x x' p' :
  hinv n s -> nth_error (insts s) i = Some x -> wf n x' -> same_ctl x x' ->
  (p' = path s \/ (p' = None /\ forall y, nth_error (insts s) (pred (length (insts s))) = Some y -> i_ctl y <> TBound)) ->
  hinv n {| np := np s; insts := upd i x' (insts s); path := p' |}.
Proof.
  intros Hinv Hx Hwf' Hsame Hp. pose proof Hsame as (Hpc & Hc & Hm & Hr & Hrp).
  pose proof (hinv_len _ _ Hinv) as Hpos.
  apply (hinv_upd n s i x); auto.
  - intros ->. rewrite Hpc. destruct (hi_first _ _ Hinv) as (x0 & Hx0 & Hp0). rewrite Hx in Hx0. inversion Hx0; subst. exact Hp0.
  - intros a z Hz Ha. apply (pairinv_r a z x); auto. subst i. apply (hi_pair _ _ Hinv); auto.
  - intros y Hy. apply (pairinv_l i x); auto; [apply same_told; auto|intros H1; rewrite Hrp; exact H1|apply (hi_pair _ _ Hinv); auto].
  - intros Hl. unfold told. rewrite Hm, Hr. apply (hi_last _ _ Hinv). replace (pred (length (insts s))) with i by lia. exact Hx.
  - destruct Hp as [Hp|(Hp & Hn)]; [left|right; left]; subst p'.
    + rewrite Hpc, Hc. auto.
    + split; auto. split.
      * intros Hl. rewrite Hc. apply Hn. replace (pred (length (insts s))) with i by lia. exact Hx.
      * intros y _ Hy. apply Hn; exact Hy.
Qed.

Lemma wf_sd n x lb sd' :
  wf n x -> sd_gate x lb = true -> step repaired (i_sd x) lb = Some sd' -> wf n (with_sd x sd').
Proof.
  intros [W1 W2 W3 W4 W5 W6 W7 W8 W9 W10 W11 W12 W13 W14 W15] Hg Hs.
  destruct (step_lengths _ _ _ _ Hs) as (L1 & L2).
  constructor; cbn [with_sd i_pc i_bnd i_ctl i_msg i_recv i_replied i_sd i_ka i_lw]; auto; try congruence.
  - eapply reach_step; eauto.
  - intros HS. destruct lb; try (apply W6; rewrite <- HS; symmetry; eapply step_S_other; eauto; intros; discriminate).
    exact Hg.
  - intros Hc. eapply step_init_mono; eauto.
  - intros Hr. destruct (W12 Hr) as (Hd & Hrv). split; auto. unfold caller_pc in *. cbn. eapply step_done_stays; eauto.
  - intros c. destruct (W14 c) as (Ha & Hb). split; auto. intros H1. destruct (Hb H1) as (HS & Hk). split; auto.
    eapply step_S_mono; eauto.
Qed.

Lemma wf_lw n x w : wf n x -> wf n (with_lw x w).
Proof. intros [W1 W2 W3 W4 W5 W6 W7 W8 W9 W10 W11 W12 W13 W14 W15]. constructor; auto. Qed.

Lemma wf_ka_upd n x c v :
  wf n x -> (k_after v <= 1 /\ (k_after v = 1 -> gS (i_sd x) = true /\ k_st v <> KIdle)) -> wf n (with_ka x (kset c v (i_ka x))).
Proof.
  intros [W1 W2 W3 W4 W5 W6 W7 W8 W9 W10 W11 W12 W13 W14 W15] Hv. constructor; auto.
  intros c'. cbn [with_ka i_ka i_sd]. rewrite kget_kset. destruct (Nat.eqb c c'); auto.
Qed.

(** while [shutdown()] of an instance is at the point where it removes the socket file, its successor is the newest
    instance and waits for the reply *)
Lemma told_unreplied_waits n s i x :
  hinv n s -> nth_error (insts s) i = Some x -> told x = true -> i_replied x = false ->
  exists y, nth_error (insts s) (S i) = Some y /\ i_pc y = PWait i /\ S (S i) = length (insts s).
Proof.
  intros Hinv Hx Ht Hr.
  destruct (nth_error (insts s) (S i)) as [y|] eqn:Hy.
  - destruct (pi_wait _ _ _ _ (hi_pair _ _ Hinv _ _ _ Hx Hy) Ht Hr) as (Hp & Hl). exists y. split; auto. split; auto.
    apply Nat.eqb_eq; exact Hl.
  - exfalso. apply nth_error_None in Hy. apply nth_error_lt in Hx as Hlt.
    assert (Hi : i = pred (length (insts s))) by lia. rewrite Hi in Hx. rewrite (hi_last _ _ Hinv _ Hx) in Ht. discriminate.
Qed.

Lemma caller_moved_recv n x p : wf n x -> caller_pc x = Some p -> p <> SNew -> i_recv x = true.
Proof.
  intros Hw Hc Hn. apply (wf_S _ _ Hw). destruct (gS (i_sd x)) eqn:ES; auto. exfalso.
  destruct (unreq_reachable _ (wf_reach _ _ Hw) ES) as (_ & Hcs & _).
  unfold caller_pc in Hc. pose proof (forallb_nth _ _ _ _ Hcs Hc) as Hnew. destruct p; try discriminate. contradiction.
Qed.

Lemma sset_newest_waits n s i x :
  hinv n s -> nth_error (insts s) i = Some x -> caller_pc x = Some SSet ->
  exists y, nth_error (insts s) (S i) = Some y /\ i_pc y = PWait i /\ S (S i) = length (insts s).
Proof.
  intros Hinv Hx Hc. pose proof (hi_wf _ _ Hinv _ _ Hx) as Hw.
  assert (Hr : i_recv x = true) by (eapply caller_moved_recv; eauto; discriminate).
  apply (told_unreplied_waits n s i x); auto.
  - unfold told. rewrite Hr. apply orb_true_r.
  - destruct (i_replied x) eqn:E; auto. destruct (wf_replied _ _ Hw E) as (Hd & _). rewrite Hd in Hc. discriminate.
Qed.

Lemma not_running_no_ctl n x : wf n x -> i_pc x <> PRunning -> i_ctl x = TNone.
Proof. intros Hw Hp. destruct (i_ctl x) eqn:E; auto; exfalso; apply Hp; apply (wf_ctl _ _ Hw); rewrite E; discriminate. Qed.

Lemma newest_of_not_running n s i x :
  hinv n s -> nth_error (insts s) i = Some x -> i_pc x <> PRunning -> S i = length (insts s) /\ i <> 0.
Proof.
  intros Hinv Hx Hp. split.
  - destruct (Nat.eq_dec (S i) (length (insts s))); auto. exfalso. apply Hp. apply (hinv_old n s i x); auto.
    apply nth_error_lt in Hx. lia.
  - intros ->. destruct (hi_first _ _ Hinv) as (x0 & H0 & Hp0). rewrite Hx in H0. inversion H0; subst. contradiction.
Qed.

Lemma no_succ_of_newest {A} (l : list A) i : S i = length l -> nth_error l (S i) = None.
Proof. intros H. apply nth_error_None. lia. Qed.

(** a step of the start-up program that leaves the path alone *)
Lemma hinv_main_step n s i x x' :
  hinv n s -> nth_error (insts s) i = Some x -> i_pc x <> PRunning -> wf n x' ->
  i_ctl x' = i_ctl x -> told x' = told x -> i_pc x' <> PRunning ->
  (has_sent (i_pc x) = true -> has_sent (i_pc x') = true) ->
  (forall k, i_pc x' = PWait k -> i_pc x = PWait k) ->
  (forall k, i_pc x = PWait k -> i_pc x' = PWait k \/ exists z, nth_error (insts s) k = Some z /\ i_replied z = true) ->
  (i_pc x' = PBindCtl -> i_pc x = PBindCtl) ->
  hinv n (set_inst s i x').
Proof.
  intros Hinv Hx Hnr Hwf' Hc Ht Hnr' C1 C2 C3 C4.
  destruct (newest_of_not_running _ _ _ _ Hinv Hx Hnr) as (Hl & Hi0).
  apply (hinv_upd n s i x); auto.
  - intros E. contradiction.
  - intros a z Hz Ha. subst i. pose proof (hi_pair _ _ Hinv _ _ _ Hz Hx) as [P1 P2 P3 P4]. rewrite Hl, Nat.eqb_refl in *.
    constructor; auto.
    + intros T R. destruct (P3 T R) as (Hp & _). split; auto. destruct (C3 _ Hp) as [H|(z0 & Hz0 & Hr0)]; auto.
      rewrite Hz in Hz0. inversion Hz0; subst. congruence.
  - intros y Hy. rewrite (no_succ_of_newest _ _ Hl) in Hy. discriminate.
  - intros _. rewrite Ht. apply (hi_last _ _ Hinv). replace (pred (length (insts s))) with i by lia. exact Hx.
  - left. split; auto. split; [rewrite Hc; auto|]. split; auto. rewrite Hc; auto.
Qed.

Lemma nth_error_snoc {A} (l : list A) x i y :
  nth_error (l ++ [x]) i = Some y -> (i < length l /\ nth_error l i = Some y) \/ (i = length l /\ y = x).
Proof.
  intros H. destruct (Nat.ltb i (length l)) eqn:E.
  - apply Nat.ltb_lt in E. rewrite nth_error_app1 in H; auto.
  - apply Nat.ltb_ge in E. rewrite nth_error_app2 in H; auto.
    destruct (i - length l) as [|d] eqn:Ed; cbn in H; [|destruct d; discriminate]. inversion H; subst. right. split; auto. lia.
Qed.

Lemma hinv_start n s x :
  hinv n s -> nth_error (insts s) (pred (length (insts s))) = Some x -> is_running x = true ->
  hinv n (with_insts s (insts s ++ [new_inst (np s)])).
Proof.
  intros Hinv Hx Hup. pose proof (hinv_len _ _ Hinv) as Hpos.
  pose proof Hinv as [Hnp Hfirst Hwf Hpair Hlst Hpath Hbc Hsv].
  unfold is_running in Hup. destruct (i_pc x) eqn:Epc; try discriminate.
  assert (Hctl : i_ctl x <> TNone) by (apply (wf_run _ _ (Hwf _ _ Hx)); exact Epc).
  constructor; cbn [np insts path with_insts]; try rewrite app_length; cbn [length].
  - exact Hnp.
  - destruct Hfirst as (x0 & H0 & Hpc0). exists x0. split; auto. rewrite nth_error_app1; auto.
  - intros i y H. destruct (nth_error_snoc _ _ _ _ H) as [(_ & H1)|(_ & ->)]; [eapply Hwf; eauto|rewrite Hnp; apply wf_new].
  - intros a z y Hz Hy.
    destruct (nth_error_snoc _ _ _ _ Hz) as [(La & Hz1)|(La & ->)]; destruct (nth_error_snoc _ _ _ _ Hy) as [(Lb & Hy1)|(Lb & ->)]; try lia.
    + pose proof (Hpair _ _ _ Hz1 Hy1) as [P1 P2 P3 P4].
      assert (Nat.eqb (S (S a)) (length (insts s) + 1) = false) as -> by (apply Nat.eqb_neq; lia).
      constructor; auto. intros T R. destruct (P3 T R) as (Hp & Hl). apply Nat.eqb_eq in Hl. exfalso.
      assert (S a = pred (length (insts s))) by lia. rewrite H, Hx in Hy1. inversion Hy1; subst. congruence.
    + assert (a = pred (length (insts s))) by lia. subst a. rewrite Hx in Hz1. inversion Hz1; subst z.
      pose proof (Hlst _ Hx) as Ht.
      constructor; cbn; auto; try (intros; congruence).
  - replace (pred (length (insts s) + 1)) with (length (insts s)) by lia. intros y H.
    destruct (nth_error_snoc _ _ _ _ H) as [(L & _)|(_ & ->)]; [lia|reflexivity].
  - intros k Hk. right. destruct (Hpath _ Hk) as [H|(H & y & Hy & Hyc)].
    + split; [lia|]. exists (new_inst (np s)). split; [|reflexivity].
      rewrite nth_error_app2 by lia. rewrite H, Nat.sub_diag. reflexivity.
    + exfalso. assert (S k = pred (length (insts s))) by lia. rewrite H0, Hx in Hy. inversion Hy; subst. contradiction.
  - intros i y H Hp. destruct (nth_error_snoc _ _ _ _ H) as [(_ & H1)|(_ & ->)]; [eapply Hbc; eauto|discriminate].
  - replace (pred (length (insts s) + 1)) with (length (insts s)) by lia. intros y H Hc.
    destruct (nth_error_snoc _ _ _ _ H) as [(L & _)|(_ & ->)]; [lia|discriminate].
Qed.

Lemma nth_error_upd2 {A} (l : list A) i k x y x' y' a :
  nth_error l i = Some x -> nth_error l k = Some y -> k <> i ->
  nth_error (upd k y' (upd i x' l)) a = if Nat.eqb k a then Some y' else if Nat.eqb i a then Some x' else nth_error l a.
Proof.
  intros Hx Hy Hki. rewrite !nth_error_upd. rewrite Hx.
  assert (Nat.eqb i k = false) as -> by (apply Nat.eqb_neq; lia). rewrite Hy. reflexivity.
Qed.

(** the successor writes "shutdown no-wait" to the predecessor's control socket *)
Lemma hinv_send n s i x j k y :
  hinv n s -> nth_error (insts s) i = Some x -> i_pc x = PSpawn j -> n <= j ->
  path s = Some k -> nth_error (insts s) k = Some y -> i_ctl y = TBound -> k <> i ->
  hinv n (set_inst (set_inst s i (with_pc x (PWait k))) k (with_msg y true (i_recv y) (i_replied y))).
Proof.
  intros Hinv Hx Hpc Hj Hp Hy Hcy Hki.
  pose proof Hinv as [Hnp Hfirst Hwf Hpair Hlst Hpath Hbc Hsv].
  assert (Hnr : i_pc x <> PRunning) by (rewrite Hpc; discriminate).
  destruct (newest_of_not_running _ _ _ _ Hinv Hx Hnr) as (Hl & Hi0).
  assert (Hk : S k = i).
  { destruct (Hpath _ Hp) as [H|(H & _)]; lia. }
  pose proof (Hpair _ _ _ Hy ltac:(rewrite Hk; exact Hx)) as [P1 P2 P3 P4].
  assert (Hty : told y = false).
  { destruct (told y) eqn:E; auto. specialize (P2 eq_refl). rewrite Hpc in P2. discriminate. }
  unfold told in Hty. apply orb_false_iff in Hty as (Hmy & Hry).
  pose proof (Hwf _ _ Hy) as Wy. pose proof (Hwf _ _ Hx) as Wx.
  assert (Hrpy : i_replied y = false).
  { destruct (i_replied y) eqn:E; auto. destruct (wf_replied _ _ Wy E) as (_ & H). congruence. }
  assert (Hcx : i_ctl x = TNone) by (eapply not_running_no_ctl; eauto).
  assert (Htx : told x = false).
  { apply Hlst. replace (pred (length (insts s))) with i by lia. exact Hx. }
  rewrite Hry, Hrpy.
  set (x' := with_pc x (PWait k)). set (y' := with_msg y true false false).
  assert (Wx' : wf n x').
  { destruct Wx as [W1 W2 W3 W4 W5 W6 W7 W8 W9 W10 W11 W12 W13 W14 W15]. constructor; cbn_inst; auto.
    all: try (intros; discriminate).
    all: try (intros Hc; contradiction).
    intros j0 Hj0. apply W5. rewrite Hpc. cbn_inst. apply Nat.ltb_lt. apply Nat.ltb_lt in Hj0. lia. }
  assert (Wy' : wf n y').
  { destruct Wy as [W1 W2 W3 W4 W5 W6 W7 W8 W9 W10 W11 W12 W13 W14 W15]. constructor; cbn_inst; auto.
    all: try (intros HS; rewrite (W6 HS) in Hry; discriminate).
    all: try (intros; rewrite ?Hcy; discriminate). }
  unfold set_inst, with_insts. cbn [np insts path].
  assert (Hlen : length (upd k y' (upd i x' (insts s))) = length (insts s)) by (rewrite !upd_length; reflexivity).
  assert (Hnth : forall a, nth_error (upd k y' (upd i x' (insts s))) a =
                           if Nat.eqb k a then Some y' else if Nat.eqb i a then Some x' else nth_error (insts s) a).
  { intros a. eapply nth_error_upd2; eauto. }
  constructor; cbn [np insts path]; try rewrite Hlen.
  - exact Hnp.
  - rewrite Hnth. destruct (Nat.eqb_spec k 0) as [E|E].
    + exists y'. split; auto.
    + destruct (Nat.eqb_spec i 0) as [E2|E2]; [contradiction|]. exact Hfirst.
  - intros a z. rewrite Hnth. destruct (Nat.eqb_spec k a); [intros H; inversion H; subst; exact Wy'|].
    destruct (Nat.eqb_spec i a); [intros H; inversion H; subst; exact Wx'|]. apply Hwf.
  - intros a z w. rewrite !Hnth.
    destruct (Nat.eqb_spec k a) as [Ea|Ea].
    + subst a. rewrite Hk. destruct (Nat.eqb_spec k i); [contradiction|]. rewrite Nat.eqb_refl.
      intros Hz Hw. inversion Hz; subst z. inversion Hw; subst w.
      assert (Nat.eqb (S i) (length (insts s)) = true) as -> by (apply Nat.eqb_eq; exact Hl).
      constructor; cbn; auto. intros k0 H0. inversion H0; subst. split; auto.
    + destruct (Nat.eqb_spec k (S a)) as [Eb|Eb].
      * destruct (Nat.eqb_spec i a) as [Ec|Ec]; [lia|]. intros Hz Hw. inversion Hw; subst w.
        apply (pairinv_r a z y); auto. rewrite Eb in Hy. apply Hpair; auto.
      * destruct (Nat.eqb_spec i a) as [Ec|Ec].
        -- subst a. destruct (Nat.eqb_spec i (S i)); [lia|]. intros _ Hw. rewrite (no_succ_of_newest _ _ Hl) in Hw. discriminate.
        -- destruct (Nat.eqb_spec i (S a)) as [Ed|Ed]; [lia|]. apply Hpair.
  - rewrite Hnth. replace (pred (length (insts s))) with i by lia.
    destruct (Nat.eqb_spec k i); [contradiction|]. rewrite Nat.eqb_refl. intros z H; inversion H; subst z. exact Htx.
  - intros k0 H0. rewrite Hp in H0. inversion H0; subst k0. right. split; [lia|]. exists x'. split; auto.
    rewrite Hnth, Hk. destruct (Nat.eqb_spec k i); [contradiction|]. rewrite Nat.eqb_refl. reflexivity.
  - intros a z. rewrite Hnth. destruct (Nat.eqb_spec k a); [intros H; inversion H; subst; cbn; rewrite P1; discriminate|].
    destruct (Nat.eqb_spec i a); [intros H; inversion H; subst; cbn; discriminate|]. apply Hbc.
  - rewrite Hnth. replace (pred (length (insts s))) with i by lia.
    destruct (Nat.eqb_spec k i); [contradiction|]. rewrite Nat.eqb_refl. intros z H; inversion H; subst z. cbn. rewrite Hcx. discriminate.
Qed.


Lemma same_ctl_refl_sd x sd : same_ctl x (with_sd x sd). Proof. repeat split. Qed.
Lemma same_ctl_refl_ka x k : same_ctl x (with_ka x k). Proof. repeat split. Qed.
Lemma same_ctl_refl_lw x w : same_ctl x (with_lw x w). Proof. repeat split. Qed.

(** a step of the start-up program that changes only the program counter and the sockets *)
Lemma wf_startup n x x' :
  wf n x -> i_pc x <> PRunning -> i_pc x' <> PRunning -> length (i_bnd x') = n ->
  i_ctl x' = i_ctl x -> i_msg x' = i_msg x -> i_recv x' = i_recv x -> i_replied x' = i_replied x -> i_sd x' = i_sd x ->
  i_ka x' = i_ka x ->
  (forall j, spawned n (i_pc x') j = true -> nth j (i_bnd x') BNone = BListening) ->
  (forall j, i_pc x' = PListen j -> j < n) -> wf n x'.
Proof.
  intros Hw Hnr Hnr' Hlen Hc Hm Hr Hrp Hsd Hka Hb Hpl.
  pose proof (not_running_no_ctl _ _ Hw Hnr) as Hc0.
  destruct Hw as [W1 W2 W3 W4 W5 W6 W7 W8 W9 W10 W11 W12 W13 W14 W15].
  constructor; unfold told, caller_pc in *; rewrite ?Hc, ?Hm, ?Hr, ?Hrp, ?Hsd, ?Hka; auto.
  all: try (rewrite Hc0; intros H; contradiction).
  all: try (intros H; contradiction).
Qed.

Lemma hinv_step_main n s i s' : hinv n s -> hstep hrepaired s (HMain i) = Some s' -> hinv n s'.
Proof.
  intros Hinv H. pose proof Hinv as [Hnp Hfirst Hwf Hpair Hlst Hpath Hbc Hsv]. cbn [hstep] in H.
  destruct (nth_error (insts s) i) as [x|] eqn:Hx; try discriminate.
  pose proof (Hwf _ _ Hx) as Hw.
  unfold step_main in H. destruct (i_pc x) as [j|j|k| | |] eqn:Epc; try discriminate;
    pose proof Hw as [W1 W2 W3 W4 W5 W6 W7 W8 W9 W10 W11 W12 W13 W14 W15];
    assert (Hnr : i_pc x <> PRunning) by (rewrite Epc; discriminate);
    pose proof (not_running_no_ctl _ _ Hw Hnr) as Hc;
    destruct (newest_of_not_running _ _ _ _ Hinv Hx Hnr) as (Hl & Hi0).
  - (* PSpawn *)
    destruct (Nat.ltb j (np s)) eqn:Ej.
    + apply Nat.ltb_lt in Ej. cbn [fixD hrepaired] in H. inversion H; subst s'; clear H.
      apply (hinv_main_step n s i x); auto; cbn_inst; try discriminate; try (rewrite Epc; discriminate).
      apply (wf_startup n x); auto; cbn_inst; try discriminate.
      * rewrite upd_length; auto.
      * intros j0 Hj0. apply Nat.ltb_lt in Hj0. rewrite nth_upd.
        assert (Nat.eqb j j0 = false) as -> by (apply Nat.eqb_neq; lia).
        apply W5. rewrite Epc. cbn_inst. apply Nat.ltb_lt. lia.
      * intros j0 E. inversion E; subst. lia.
    + apply Nat.ltb_ge in Ej.
      assert (Hrm : hinv n (set_inst s i (with_pc x PRm))).
      { apply (hinv_main_step n s i x); auto; cbn_inst; try discriminate; try (rewrite Epc; discriminate).
        apply (wf_startup n x); auto; cbn_inst; try discriminate.
        intros j0 Hj0. apply W5. rewrite Epc. cbn_inst. apply Nat.ltb_lt. apply Nat.ltb_lt in Hj0. lia. }
      destruct (path s) as [k|] eqn:Hp; [|inversion H; subst; exact Hrm].
      destruct (nth_error (insts s) k) as [y|] eqn:Hy; [|inversion H; subst; exact Hrm].
      destruct (i_ctl y) eqn:Ey; try (inversion H; subst; exact Hrm).
      destruct (Nat.eqb k i) eqn:Eki; try discriminate. apply Nat.eqb_neq in Eki.
      inversion H; subst s'; clear H. eapply hinv_send; eauto. lia.
  - (* PListen *)
    inversion H; subst s'; clear H.
    apply (hinv_main_step n s i x); auto; cbn_inst; try discriminate; try (rewrite Epc; discriminate).
    apply (wf_startup n x); auto; cbn_inst; try discriminate.
    + rewrite upd_length; auto.
    + intros j0 Hj0. apply Nat.ltb_lt in Hj0. rewrite nth_upd. destruct (Nat.eqb_spec j j0) as [E|E].
      * assert (Nat.ltb j (length (i_bnd x)) = true) as ->; [|reflexivity].
        apply Nat.ltb_lt. rewrite W1. apply W15; auto.
      * apply W5. rewrite Epc. cbn_inst. apply Nat.ltb_lt. lia.
  - (* PWait *)
    destruct (nth_error (insts s) k) as [y|] eqn:Hy; try discriminate. destruct (i_replied y) eqn:Ery; try discriminate.
    inversion H; subst s'; clear H.
    apply (hinv_main_step n s i x); auto; cbn_inst; try discriminate; try (rewrite Epc; discriminate).
    + apply (wf_startup n x); auto; cbn_inst; try discriminate.
      intros j0 Hj0. apply W5. rewrite Epc. exact Hj0.
    + rewrite Epc. intros k0 E. inversion E; subst. right. eauto.
  - (* PRm *)
    cbn [fixE hrepaired] in H. inversion H; subst s'; clear H.
    apply (hinv_upd n s i x); auto; cbn_inst.
    + apply (wf_startup n x); auto; cbn_inst; try discriminate.
      intros j0 Hj0. apply W5. rewrite Epc. exact Hj0.
    + intros E. contradiction.
    + intros a z Hz Ha. subst i. pose proof (Hpair _ _ _ Hz Hx) as [P1 P2 P3 P4]. rewrite Epc in *.
      constructor; cbn_inst; auto; try discriminate.
      intros T R. destruct (P3 T R) as (E & _). discriminate.
    + intros y Hy. rewrite (no_succ_of_newest _ _ Hl) in Hy. discriminate.
    + intros _. apply (Hlst x). replace (pred (length (insts s))) with i by lia. exact Hx.
    + right. left. split; auto. split; [intros _; rewrite Hc; discriminate|]. intros y Hn. contradiction.
  - (* PBindCtl *)
    rewrite (Hbc _ _ Hx Epc) in H. inversion H; subst s'; clear H.
    assert (Htx : told x = false) by (apply (Hlst x); replace (pred (length (insts s))) with i by lia; exact Hx).
    unfold told in Htx. apply orb_false_iff in Htx as (Hmx & Hrx).
    apply (hinv_upd n s i x); auto; cbn_inst.
    + constructor; cbn_inst; unfold caller_pc; cbn_inst; auto; try discriminate.
      all: try (intros; discriminate).
      all: try (rewrite Hmx; intros; discriminate).
      intros j0 Hj0. apply W5. rewrite Epc. exact Hj0.
    + intros a z Hz Ha. subst i. pose proof (Hpair _ _ _ Hz Hx) as [P1 P2 P3 P4]. rewrite Epc in *.
      constructor; cbn_inst; auto; try discriminate.
      intros T R. destruct (P3 T R) as (E & _). discriminate.
    + intros y Hy. rewrite (no_succ_of_newest _ _ Hl) in Hy. discriminate.
    + intros _. unfold told. cbn_inst. rewrite Hmx, Hrx. reflexivity.
    + right. right. split; auto. split; auto. discriminate.
Qed.

Lemma init_sent_recv n x : wf n x -> init_sent (i_sd x) = true -> i_recv x = true.
Proof.
  intros Hw Hi. apply (wf_S _ _ Hw). destruct (gS (i_sd x)) eqn:ES; auto.
  destruct (unreq_reachable _ (wf_reach _ _ Hw) ES) as (_ & _ & H). congruence.
Qed.

Lemma removes_path_sset n x lb : wf n x -> removes_path x lb = true -> caller_pc x = Some SSet.
Proof.
  intros Hw H. destruct lb; try discriminate. cbn [removes_path] in H. unfold caller_pc.
  destruct (nth_error (callers (i_sd x)) k) as [p|] eqn:E; try discriminate. destruct p; try discriminate.
  apply nth_error_lt in E as Hlt. rewrite (wf_callers _ _ Hw) in Hlt. assert (k = 0) by lia. subst. exact E.
Qed.

Lemma hinv_step n s lb s' : hinv n s -> hstep hrepaired s lb = Some s' -> hinv n s'.
Proof.
  intros Hinv H. destruct lb; try (eapply hinv_step_main; eauto; fail).
  all: pose proof Hinv as [Hnp Hfirst Hwf Hpair Hlst Hpath Hbc Hsv]; cbn [hstep] in H.
  - (* HStart *)
    destruct (nth_error (insts s) (pred (length (insts s)))) as [x|] eqn:Hx; try discriminate.
    destruct (is_running x) eqn:Hup; try discriminate. inversion H; subst. eapply hinv_start; eauto.
  - (* HBind *)
    destruct (nth_error (insts s) i); discriminate.
  - (* HCtl *)
    destruct (nth_error (insts s) i) as [x|] eqn:Hx; try discriminate.
    pose proof (Hwf _ _ Hx) as Hw. pose proof Hw as [W1 W2 W3 W4 W5 W6 W7 W8 W9 W10 W11 W12 W13 W14 W15].
    unfold step_ctl in H. destruct (i_ctl x) eqn:Ec; try discriminate; [contradiction|].
    destruct (init_sent (i_sd x)) eqn:Ei; try discriminate. inversion H; subst s'; clear H.
    assert (Hr : i_pc x = PRunning) by (apply W8; discriminate).
    assert (Hrecv : i_recv x = true) by (eapply init_sent_recv; eauto).
    assert (Hm : i_msg x = false).
    { destruct (i_msg x) eqn:E; auto. destruct (W13 eq_refl) as (Hf & _). congruence. }
    apply (hinv_upd n s i x); auto; cbn_inst.
    + constructor; cbn_inst; unfold caller_pc; cbn_inst; auto; try discriminate.
      all: try (intros; discriminate).
      all: try (rewrite ?Hm; intros; discriminate).
    + intros a z Hz Ha. subst i. apply (pairinv_r a z x); auto.
    + intros y Hy. apply (pairinv_l i x); auto.
    + intros Hl. apply (Hlst x). replace (pred (length (insts s))) with i by lia. exact Hx.
    + left. repeat split; auto; try (rewrite ?Ec; discriminate).
  - (* HRecv *)
    destruct (nth_error (insts s) i) as [x|] eqn:Hx; try discriminate.
    pose proof (Hwf _ _ Hx) as Hw. pose proof Hw as [W1 W2 W3 W4 W5 W6 W7 W8 W9 W10 W11 W12 W13 W14 W15].
    unfold step_recv in H. destruct (i_ctl x) eqn:Ec; try discriminate.
    destruct (i_msg x) eqn:Em; try discriminate. destruct (i_recv x) eqn:Er; try discriminate.
    cbn [andb negb] in H. inversion H; subst s'; clear H.
    assert (Hrp : i_replied x = false).
    { destruct (i_replied x) eqn:E; auto. destruct (W12 eq_refl) as (_ & Hf). congruence. }
    assert (Ht : told x = true) by (unfold told; rewrite Em; reflexivity).
    apply (hinv_upd n s i x); auto; cbn_inst.
    + constructor; cbn_inst; unfold caller_pc; cbn_inst; auto; try discriminate.
      all: try (intros; discriminate).
      all: try (rewrite ?Ec; intros; discriminate).
      rewrite Hrp. intros; discriminate.
    + intros a z Hz Ha. subst i. apply (pairinv_r a z x); auto.
    + intros y Hy. apply (pairinv_l i x); auto; unfold told; cbn_inst; rewrite ?Em, ?Er; reflexivity.
    + intros Hl. exfalso. assert (told x = false); [|congruence]. apply (Hlst x).
      replace (pred (length (insts s))) with i by lia. exact Hx.
  - (* HReply *)
    destruct (nth_error (insts s) i) as [x|] eqn:Hx; try discriminate.
    pose proof (Hwf _ _ Hx) as Hw. pose proof Hw as [W1 W2 W3 W4 W5 W6 W7 W8 W9 W10 W11 W12 W13 W14 W15].
    unfold step_reply in H. destruct (i_recv x) eqn:Er; try discriminate.
    destruct (i_replied x) eqn:Ep; try discriminate. cbn [andb negb] in H.
    destruct (caller_pc x) as [[]|] eqn:Ecp; try discriminate. inversion H; subst s'; clear H.
    assert (Ht : told x = true) by (unfold told; rewrite Er; apply orb_true_r).
    apply (hinv_upd n s i x); auto; cbn_inst.
    + constructor; cbn_inst; unfold caller_pc in *; cbn_inst; auto; try discriminate.
    + intros a z Hz Ha. subst i. apply (pairinv_r a z x); auto.
    + intros y Hy. apply (pairinv_l i x); auto. unfold told; cbn_inst. rewrite Er, !orb_true_r. reflexivity.
    + intros Hl. exfalso. assert (told x = false); [|congruence]. apply (Hlst x).
      replace (pred (length (insts s))) with i by lia. exact Hx.
  - (* HSd *)
    destruct (nth_error (insts s) i) as [x|] eqn:Hx; try discriminate.
    pose proof (Hwf _ _ Hx) as Hw.
    unfold step_sd in H. destruct (sd_gate x lb) eqn:Eg; try discriminate.
    destruct (step repaired (i_sd x) lb) as [sd'|] eqn:Es; try discriminate.
    assert (Hw' : wf n (with_sd x sd')) by (eapply wf_sd; eauto).
    destruct (removes_path x lb) eqn:Erm; inversion H; subst s'; clear H.
    + apply (hinv_inert n s i x); auto; [apply same_ctl_refl_sd|]. right. split; auto.
      intros y Hy Hcy.
      destruct (sset_newest_waits n s i x Hinv Hx (removes_path_sset _ _ _ Hw Erm)) as (z & Hz & Hpz & Hl).
      assert (S i = pred (length (insts s))) by lia. rewrite <- H in Hy. rewrite Hz in Hy. inversion Hy; subst z.
      assert (i_ctl y = TNone); [|congruence]. apply (not_running_no_ctl n y); [eapply Hwf; eauto|rewrite Hpz; discriminate].
    + apply (hinv_inert n s i x); auto. apply same_ctl_refl_sd.
  - (* HReq *)
    destruct (nth_error (insts s) i) as [x|] eqn:Hx; try discriminate.
    pose proof (Hwf _ _ Hx) as Hw. unfold step_req in H. destruct (conn_running x c); try discriminate.
    destruct (k_st (kget c (i_ka x))) eqn:Ek; try discriminate. inversion H; subst s'; clear H.
    apply (hinv_inert n s i x); auto; [|apply same_ctl_refl_ka].
    apply wf_ka_upd; auto. destruct (wf_ka _ _ Hw c) as (Ha & Hb). unfold k_read. cbn [k_after k_st].
    assert (H0 : k_after (kget c (i_ka x)) = 0).
    { destruct (Nat.eq_dec (k_after (kget c (i_ka x))) 1) as [E|E]; [|lia]. destruct (Hb E) as (_ & Hn). congruence. }
    rewrite H0. destruct (gS (i_sd x)); split; try lia; intros; try lia. split; auto. discriminate.
  - (* HResp *)
    destruct (nth_error (insts s) i) as [x|] eqn:Hx; try discriminate.
    pose proof (Hwf _ _ Hx) as Hw. unfold step_resp in H. destruct (conn_running x c); try discriminate.
    destruct (k_st (kget c (i_ka x))) eqn:Ek; try discriminate. inversion H; subst s'; clear H.
    apply (hinv_inert n s i x); auto; [|apply same_ctl_refl_ka].
    apply wf_ka_upd; auto. destruct (wf_ka _ _ Hw c) as (Ha & Hb). unfold k_answered. cbn [k_after k_st].
    split; auto. intros E. destruct (Hb E) as (HS & _). rewrite HS. split; auto. discriminate.
  - (* HKaEnd *)
    destruct (nth_error (insts s) i) as [x|] eqn:Hx; try discriminate.
    pose proof (Hwf _ _ Hx) as Hw. unfold step_kaend in H. destruct (conn_running x c); try discriminate.
    assert (Hg : hinv n (set_inst s i (with_ka x (kset c (k_ended x c) (i_ka x))))).
    { apply (hinv_inert n s i x); auto; [|apply same_ctl_refl_ka].
      apply wf_ka_upd; auto. destruct (wf_ka _ _ Hw c) as (Ha & Hb). unfold k_ended. cbn [k_after k_st].
      split; auto. intros E. destruct (Hb E) as (HS & _). split; auto. discriminate. }
    destruct (k_st (kget c (i_ka x))); try discriminate; inversion H; subst s'; exact Hg.
  - (* HWaitNew *)
    destruct (nth_error (insts s) i) as [x|] eqn:Hx; try discriminate. inversion H; subst s'; clear H.
    apply (hinv_inert n s i x); auto; [apply wf_lw; eauto|apply same_ctl_refl_lw].
  - (* HWaitPoll *)
    destruct (nth_error (insts s) i) as [x|] eqn:Hx; try discriminate.
    unfold step_wpoll in H. destruct (nth_error (i_lw x) w) as [[]|]; try discriminate.
    destruct (finished (i_sd x)); try discriminate. inversion H; subst s'; clear H.
    apply (hinv_inert n s i x); auto; [apply wf_lw; eauto|apply same_ctl_refl_lw].
Qed.

Lemma hinv_reachable n s : hreachable hrepaired n s -> hinv n s.
Proof. induction 1. apply hinv_init. eapply hinv_step; eauto. Qed.

(** ** The theorems *)
Lemma l_open_bound l : l_open l = true -> l_bound l = true.
Proof. unfold l_open, l_bound. destruct (l_pc l); auto. Qed.

(** an instance that has not been asked to shut down listens on every socket its start-up has put into listening state *)
Lemma unasked_listening n x j :
  wf n x -> i_recv x = false -> j < n -> nth j (i_bnd x) BNone = BListening -> listening x j = true.
Proof.
  intros Hw Hr Hj Hb. unfold listening. rewrite Hb. cbn [andb is_listening].
  destruct (nth_error (ls (i_sd x)) j) as [l|] eqn:El.
  - assert (HS : gS (i_sd x) = false) by (destruct (gS (i_sd x)) eqn:E; auto; rewrite (wf_S _ _ Hw E) in Hr; discriminate).
    destruct (unreq_reachable _ (wf_reach _ _ Hw) HS) as (Hl & _). apply l_open_bound. eapply forallb_nth; eauto.
  - apply nth_error_None in El. rewrite (wf_ls _ _ Hw) in El. lia.
Qed.

Lemma has_sent_spawned n p j : has_sent p = true -> j < n -> spawned n p j = true.
Proof. intros H Hj. destruct p; try discriminate; cbn; apply Nat.ltb_lt; exact Hj. Qed.

Lemma always_bound n s j : hreachable hrepaired n s -> j < n -> port_served s j = true.
Proof.
  intros Hr Hj. apply hinv_reachable in Hr.
  pose proof (hinv_len _ _ Hr) as Hlen.
  destruct (nth_error (insts s) (pred (length (insts s)))) as [x|] eqn:Hx; [|apply nth_error_None in Hx; lia].
  pose proof (hi_last _ _ Hr _ Hx) as Htx. pose proof Hr as [Hnp Hfirst Hwf Hpair Hlst Hpath Hbc Hsv]. unfold told in Htx. apply orb_false_iff in Htx as (_ & Hrx).
  unfold port_served.
  destruct (spawned n (i_pc x) j) eqn:Esp.
  - eapply ShutdownProofs.existsb_nth; [exact Hx|]. pose proof (Hwf _ _ Hx) as Hw. apply (unasked_listening n); auto.
    apply (wf_bnd _ _ Hw). exact Esp.
  - (* the newest instance is still creating its sockets: the one before it has not been told *)
    destruct (pred (length (insts s))) as [|L] eqn:EL.
    + destruct Hfirst as (x0 & H0 & Hp0). rewrite H0 in Hx. inversion Hx; subst. rewrite Hp0 in Esp. cbn in Esp.
      apply Nat.ltb_ge in Esp. lia.
    + destruct (nth_error (insts s) L) as [y|] eqn:Hy; [|apply nth_error_None in Hy; lia].
      pose proof (Hpair _ _ _ Hy Hx) as [P1 P2 P3 P4].
      pose proof (Hwf _ _ Hy) as Hw. eapply ShutdownProofs.existsb_nth; [exact Hy|]. apply (unasked_listening n); auto.
      * destruct (i_recv y) eqn:E; auto. exfalso.
        assert (Ht : told y = true) by (unfold told; rewrite E; apply orb_true_r).
        rewrite (has_sent_spawned n _ j (P2 Ht) Hj) in Esp. discriminate.
      * apply (wf_bnd _ _ Hw). rewrite P1. cbn. apply Nat.ltb_lt. exact Hj.
Qed.

(** the predecessor is told (the message is on its control socket, or its plugin has been entered) only when the successor
    has every socket bound and listening *)
Lemma told_after_bound n s i x :
  hreachable hrepaired n s -> nth_error (insts s) i = Some x -> (i_msg x || i_recv x) = true ->
  exists y, nth_error (insts s) (S i) = Some y /\ all_bnd n y.
Proof.
  intros Hr Hx Ht. apply hinv_reachable in Hr.
  destruct (nth_error (insts s) (S i)) as [y|] eqn:Hy.
  - exists y. split; auto. intros j Hj. apply (wf_bnd _ _ (hi_wf _ _ Hr _ _ Hy)).
    apply has_sent_spawned; auto. exact (pi_sent _ _ _ _ (hi_pair _ _ Hr _ _ _ Hx Hy) Ht).
  - exfalso. apply nth_error_None in Hy. apply nth_error_lt in Hx as Hlt.
    assert (Hi : i = pred (length (insts s))) by lia. rewrite Hi in Hx. pose proof (hi_last _ _ Hr _ Hx) as Hf.
    unfold told in Hf. congruence.
Qed.

Lemma successor_binds_first n s i x j :
  hreachable hrepaired n s -> nth_error (insts s) i = Some x -> closed x j ->
  exists y, nth_error (insts s) (S i) = Some y /\ all_bnd n y.
Proof.
  intros Hr Hx (l & Hl & Hb). apply (told_after_bound n s i x); auto.
  apply hinv_reachable in Hr. pose proof (hi_wf _ _ Hr _ _ Hx) as Hw.
  assert (HS : gS (i_sd x) = true).
  { destruct (gS (i_sd x)) eqn:E; auto. destruct (unreq_reachable _ (wf_reach _ _ Hw) E) as (Ho & _).
    pose proof (forallb_nth _ _ _ _ Ho Hl) as Hlo. apply l_open_bound in Hlo. congruence. }
  rewrite (wf_S _ _ Hw HS). apply orb_true_r.
Qed.

(** the embedded machine of every instance is a reachable state of C10's system: C10's theorems apply *)
Lemma handover_drains_safe n s i x :
  hreachable hrepaired n s -> nth_error (insts s) i = Some x -> finished (i_sd x) = true ->
  all_done (i_sd x) = true /\ forallb (fun l => negb (l_bound l)) (ls (i_sd x)) = true.
Proof.
  intros Hr Hx Hf. apply hinv_reachable in Hr. pose proof (wf_reach _ _ (hi_wf _ _ Hr _ _ Hx)) as W4.
  split; [apply finished_after_all|apply finished_listeners_closed]; auto.
Qed.

(** keep-alive: after the shutdown flag has been set, a connection task reads at most one more request *)
Lemma keepalive_one_more n s i x c :
  hreachable hrepaired n s -> nth_error (insts s) i = Some x -> k_after (kget c (i_ka x)) <= 1.
Proof. intros Hr Hx. apply hinv_reachable in Hr. exact (proj1 (wf_ka _ _ (hi_wf _ _ Hr _ _ Hx) c)). Qed.

(** a wait() that is polled after the shutdown-complete signal resolves at once, whenever it was called *)
Lemma late_wait_resolves v s i x w :
  nth_error (insts s) i = Some x -> finished (i_sd x) = true -> nth_error (i_lw x) w = Some false ->
  exists s', hstep v s (HWaitPoll i w) = Some s' /\
             exists x', nth_error (insts s') i = Some x' /\ nth_error (i_lw x') w = Some true.
Proof.
  intros Hx Hf Hw. cbn [hstep]. rewrite Hx. unfold step_wpoll. rewrite Hw, Hf. eexists; split; [reflexivity|].
  cbn. rewrite nth_error_upd, Nat.eqb_refl, Hx. eexists; split; [reflexivity|]. cbn.
  rewrite nth_error_upd, Nat.eqb_refl, Hw. reflexivity.
Qed.

Lemma told_running n x : wf n x -> told x = true -> i_pc x = PRunning.
Proof. intros Hw Ht. apply (wf_ctl _ _ Hw). apply (wf_recv _ _ Hw). exact Ht. Qed.

Lemma handover_no_hang n s i x :
  hreachable hrepaired n s -> nth_error (insts s) i = Some x -> i_recv x = true -> hquiescent hrepaired s ->
  completed (i_sd x) = true /\ forallb (fun w => w) (i_lw x) = true.
Proof.
  intros Hr Hx Hrecv Hq. apply hinv_reachable in Hr. pose proof (hi_wf _ _ Hr _ _ Hx) as Hw.
  pose proof Hw as [W1 W2 W3 W4 W5 W6 W7 W8 W9 W10 W11 W12 W13 W14 W15].
  assert (Hrun : i_pc x = PRunning) by (apply (told_running n); auto; unfold told; rewrite Hrecv; apply orb_true_r).
  (* every step of the embedded machine is a step of the whole system *)
  assert (Hq' : quiescent repaired (i_sd x)).
  { intros lb Hlb. pose proof (Hq (HSd i lb) Hlb) as Hq1. cbn [hstep] in Hq1. rewrite Hx in Hq1. unfold step_sd in Hq1.
    destruct (step repaired (i_sd x) lb) as [sd'|] eqn:Es; auto. exfalso.
    assert (Hg : sd_gate x lb = true).
    { destruct lb; cbn [sd_gate]; auto.
      - cbn [step] in Es. destruct (nth_error (ls (i_sd x)) i0) eqn:El; try discriminate.
        rewrite W5; auto. rewrite Hrun. cbn. apply Nat.ltb_lt. apply nth_error_lt in El. lia.
      - cbn [step] in Es. destruct (nth_error (ls (i_sd x)) i0) eqn:El; try discriminate.
        rewrite W5; auto. rewrite Hrun. cbn. apply Nat.ltb_lt. apply nth_error_lt in El. lia.
      - discriminate Hlb.
      - destruct (conn_running x c) eqn:Ecr; auto. unfold k_exited.
        destruct (k_st (kget c (i_ka x))) eqn:Ek; auto; exfalso;
          specialize (Hq (HKaEnd i c) eq_refl); cbn [hstep] in Hq; rewrite Hx in Hq; unfold step_kaend in Hq;
          rewrite Ecr, Ek in Hq; discriminate. }
    rewrite Hg in Hq1. destruct (removes_path x lb); discriminate. }
  assert (Hc : completed (i_sd x) = true).
  { apply no_hang; auto.
    (* requested: the caller has left SNew, else its first step would be enabled *)
    unfold requested. destruct (gS (i_sd x)) eqn:ES; auto. exfalso.
    destruct (unreq_reachable _ W4 ES) as (_ & Hc & _).
    destruct (callers (i_sd x)) as [|p r] eqn:Ec; [discriminate W3|].
    cbn in Hc. apply andb_true_iff in Hc as (Hp & _). destruct p; try discriminate.
    specialize (Hq (HSd i (SStep 0)) eq_refl). cbn [hstep] in Hq. rewrite Hx in Hq. unfold step_sd in Hq.
    cbn [sd_gate] in Hq. rewrite Hrecv in Hq. cbn [step] in Hq. rewrite Ec in Hq. cbn in Hq.
    destruct (removes_path x (SStep 0)); discriminate. }
  split; auto.
  apply forallb_intro. intros w b Hwb. destruct b; auto. exfalso.
  specialize (Hq (HWaitPoll i w) eq_refl). cbn [hstep] in Hq. rewrite Hx in Hq. unfold step_wpoll in Hq. rewrite Hwb in Hq.
  unfold completed in Hc. repeat (apply andb_true_iff in Hc as (Hc & ?)). rewrite Hc in Hq. discriminate.
Qed.

(** who answers at the control-socket path: the newest instance, or its predecessor while the newest is still
    starting (its [execute] has not returned) *)
Lemma ctl_successor_only n s i :
  hreachable hrepaired n s -> serves s i = true ->
  S i = length (insts s) \/
  (S (S i) = length (insts s) /\ exists y, nth_error (insts s) (S i) = Some y /\ i_pc y <> PRunning).
Proof.
  intros Hr Hs. apply hinv_reachable in Hr. unfold serves in Hs.
  destruct (path s) as [k|] eqn:Hp; try discriminate. destruct (nth_error (insts s) i) as [x|] eqn:Hx; try discriminate.
  apply andb_true_iff in Hs as (Hk & _). apply Nat.eqb_eq in Hk. subst k.
  destruct (hi_path _ _ Hr _ Hp) as [H|(H & y & Hy & Hc)]; [left; exact H|right].
  split; auto. exists y. split; auto. intros Hrun. apply (wf_run _ _ (hi_wf _ _ Hr _ _ Hy)) in Hrun. contradiction.
Qed.

(** when nothing can move, the newest instance's [execute] has returned *)
Lemma quiescent_newest_running n s x :
  hinv n s -> hquiescent hrepaired s -> nth_error (insts s) (pred (length (insts s))) = Some x -> i_pc x = PRunning.
Proof.
  intros Hinv Hq Hx. pose proof (hinv_len _ _ Hinv) as Hlen. set (L := pred (length (insts s))) in *.
  pose proof (hi_wf _ _ Hinv _ _ Hx) as Hw.
  pose proof (Hq (HMain L) eq_refl) as Hm. cbn [hstep] in Hm. rewrite Hx in Hm. unfold step_main in Hm.
  destruct (i_pc x) as [j|j|k| | |] eqn:Epc; auto; exfalso; cbn [fixD fixE hrepaired] in Hm.
  - destruct (Nat.ltb j (np s)); try discriminate.
    destruct (path s) as [k|] eqn:Hp; try discriminate.
    destruct (nth_error (insts s) k) as [y|] eqn:Hy; try discriminate.
    destruct (i_ctl y) eqn:Ey; try discriminate.
    destruct (Nat.eqb_spec k L) as [E|E]; try discriminate. subst k. rewrite Hx in Hy. inversion Hy; subst y.
    assert (i_pc x = PRunning) by (apply (wf_ctl _ _ Hw); rewrite Ey; discriminate). congruence.
  - discriminate.
  - (* waiting for the reply of instance k: it has been told, so its plugin can run and reply *)
    assert (HL : L <> 0).
    { intros E. destruct (hi_first _ _ Hinv) as (x0 & H0 & Hp0). rewrite E in Hx. rewrite Hx in H0. inversion H0; subst. congruence. }
    destruct L as [|a] eqn:EL; [contradiction|].
    destruct (nth_error (insts s) a) as [y|] eqn:Hy; [|apply nth_error_None in Hy; lia].
    destruct (pi_pwait _ _ _ _ (hi_pair _ _ Hinv _ _ _ Hy Hx) _ Epc) as (-> & Ht).
    rewrite Hy in Hm. destruct (i_replied y) eqn:Erp; try discriminate.
    pose proof (hi_wf _ _ Hinv _ _ Hy) as Hwy.
    destruct (i_msg y) eqn:Em.
    + destruct (wf_msg _ _ Hwy Em) as (Hr0 & Hc0).
      pose proof (Hq (HRecv a) eq_refl) as H1. cbn [hstep] in H1. rewrite Hy in H1. unfold step_recv in H1.
      rewrite Hc0, Em, Hr0 in H1. discriminate.
    + unfold told in Ht. rewrite Em in Ht. cbn in Ht.
      pose proof (wf_callers _ _ Hwy) as Hcl.
      destruct (callers (i_sd y)) as [|p r] eqn:Ec; [discriminate Hcl|].
      destruct (match p with SDone => true | _ => false end) eqn:Ed.
      * pose proof (Hq (HReply a) eq_refl) as H1. cbn [hstep] in H1. rewrite Hy in H1. unfold step_reply, caller_pc in H1.
        rewrite Ht, Erp, Ec in H1. cbn in H1. destruct p; discriminate.
      * pose proof (Hq (HSd a (SStep 0)) eq_refl) as H1. cbn [hstep] in H1. rewrite Hy in H1. unfold step_sd in H1.
        cbn [sd_gate] in H1. rewrite Ht in H1. cbn [step] in H1. rewrite Ec in H1. cbn [nth_error] in H1.
        destruct p; cbn in H1; try discriminate; destruct (removes_path y (SStep 0)); try discriminate;
          destruct (gC (i_sd y) <=? 0)%Z; discriminate.
  - discriminate.
  - destruct (path s); discriminate.
Qed.

(** ... and afterwards the control socket answers for the successor: when nothing can move, a connect to the path reaches
    the newest instance *)
Lemma ctl_successor_answers n s :
  hreachable hrepaired n s -> hquiescent hrepaired s -> serves s (pred (length (insts s))) = true.
Proof.
  intros Hr Hq. apply hinv_reachable in Hr. pose proof (hinv_len _ _ Hr) as Hlen.
  destruct (nth_error (insts s) (pred (length (insts s)))) as [x|] eqn:Hx; [|apply nth_error_None in Hx; lia].
  pose proof (quiescent_newest_running _ _ _ Hr Hq Hx) as Hrun.
  pose proof (hi_wf _ _ Hr _ _ Hx) as Hw. pose proof (hi_last _ _ Hr _ Hx) as Ht.
  assert (Hc : i_ctl x = TBound).
  { destruct (i_ctl x) eqn:Ec; auto; exfalso.
    - apply (wf_run _ _ Hw Hrun). exact Ec.
    - apply (wf_nsp _ _ Hw). exact Ec.
    - pose proof (init_sent_recv _ _ Hw (wf_closed _ _ Hw Ec)) as Hrc. unfold told in Ht. rewrite Hrc, orb_true_r in Ht. discriminate. }
  unfold serves. rewrite (hi_served _ _ Hr _ Hx Hc), Hx, Hc, Nat.eqb_refl. reflexivity.
Qed.

(** ... and keeps answering: no step of anybody takes the path away from the newest instance (until a next one is started and
    tells it to shut down) *)
Lemma nth_set_inst s i x k : nth_error (insts (set_inst s i x)) k =
  if Nat.eqb i k then (match nth_error (insts s) i with Some _ => Some x | None => None end) else nth_error (insts s) k.
Proof. cbn. apply nth_error_upd. Qed.

Lemma keeps_other s i x' k x : nth_error (insts s) k = Some x -> i_ctl x = TBound ->
  (forall x0, nth_error (insts s) i = Some x0 -> i = k -> i_ctl x' = TBound) ->
  exists x1, nth_error (insts (set_inst s i x')) k = Some x1 /\ i_ctl x1 = TBound.
Proof.
  intros Hx Hc H. rewrite nth_set_inst. destruct (Nat.eqb_spec i k) as [E|E].
  - subst i. rewrite Hx. eexists; split; [reflexivity|]. eapply H; eauto.
  - eauto.
Qed.

Lemma hstep_keeps_bound n s lb s' k x :
  hinv n s -> hstep hrepaired s lb = Some s' -> lb <> HStart ->
  nth_error (insts s) k = Some x -> i_ctl x = TBound -> S k = length (insts s) ->
  length (insts s') = length (insts s) /\ exists x', nth_error (insts s') k = Some x' /\ i_ctl x' = TBound.
Proof.
  intros Hinv H Hns Hx Hc Hk. pose proof (hi_wf _ _ Hinv _ _ Hx) as Hw.
  assert (Hrun : i_pc x = PRunning) by (apply (wf_ctl _ _ Hw); rewrite Hc; discriminate).
  assert (Htold : told x = false) by (apply (hi_last _ _ Hinv x); replace (pred (length (insts s))) with k by lia; exact Hx).
  destruct lb; try contradiction; cbn [hstep] in H.
  - (* HMain: only the newest instance can be inside execute(), and it is not *)
    exfalso. destruct (nth_error (insts s) i) as [y|] eqn:Hy; try discriminate.
    assert (Hnr : i_pc y <> PRunning) by (intros E; unfold step_main in H; rewrite E in H; discriminate).
    destruct (newest_of_not_running _ _ _ _ Hinv Hy Hnr) as (Hl & _). assert (i = k) by lia. subst i.
    rewrite Hx in Hy. inversion Hy; subst. contradiction.
  - destruct (nth_error (insts s) i); discriminate.
  - destruct (nth_error (insts s) i) as [y|] eqn:Hy; try discriminate. unfold step_ctl in H.
    destruct (i_ctl y) eqn:Ecy; try discriminate.
    + exfalso. apply (wf_nsp _ _ (hi_wf _ _ Hinv _ _ Hy)). exact Ecy.
    + destruct (init_sent (i_sd y)) eqn:Ei; try discriminate. inversion H; subst s'; clear H. cbn [insts set_inst with_insts].
      split; [apply upd_length|]. apply (keeps_other _ _ _ k x); auto. intros x0 H0 E. subst i. exfalso. rewrite Hx in Hy. inversion Hy; subst y.
      pose proof (init_sent_recv _ _ Hw Ei) as Hr. unfold told in Htold. rewrite Hr, orb_true_r in Htold. discriminate.
  - destruct (nth_error (insts s) i) as [y|] eqn:Hy; try discriminate. unfold step_recv in H.
    destruct (i_ctl y) eqn:Ecy; try discriminate. destruct (i_msg y && negb (i_recv y)); try discriminate.
    inversion H; subst s'; clear H. split; [apply upd_length|]. apply (keeps_other _ _ _ k x); auto.
  - destruct (nth_error (insts s) i) as [y|] eqn:Hy; try discriminate. unfold step_reply in H.
    destruct (i_recv y && negb (i_replied y)); try discriminate. destruct (caller_pc y) as [[]|]; try discriminate.
    inversion H; subst s'; clear H. split; [apply upd_length|]. apply (keeps_other _ _ _ k x); auto.
    intros x0 H0 E. subst i. rewrite Hx in Hy. inversion Hy; subst. exact Hc.
  - destruct (nth_error (insts s) i) as [y|] eqn:Hy; try discriminate. unfold step_sd in H.
    destruct (sd_gate y lb); try discriminate. destruct (step repaired (i_sd y) lb); try discriminate.
    destruct (removes_path y lb); inversion H; subst s'; clear H; (split; [apply upd_length|]); apply (keeps_other _ _ _ k x); auto;
      intros x0 H0 E; subst i; rewrite Hx in Hy; inversion Hy; subst; exact Hc.
  - destruct (nth_error (insts s) i) as [y|] eqn:Hy; try discriminate. unfold step_req in H.
    destruct (conn_running y c); try discriminate. destruct (k_st (kget c (i_ka y))); try discriminate.
    inversion H; subst s'; clear H. split; [apply upd_length|]. apply (keeps_other _ _ _ k x); auto.
    intros x0 H0 E. subst i. rewrite Hx in Hy. inversion Hy; subst. exact Hc.
  - destruct (nth_error (insts s) i) as [y|] eqn:Hy; try discriminate. unfold step_resp in H.
    destruct (conn_running y c); try discriminate. destruct (k_st (kget c (i_ka y))); try discriminate.
    inversion H; subst s'; clear H. split; [apply upd_length|]. apply (keeps_other _ _ _ k x); auto.
    intros x0 H0 E. subst i. rewrite Hx in Hy. inversion Hy; subst. exact Hc.
  - destruct (nth_error (insts s) i) as [y|] eqn:Hy; try discriminate. unfold step_kaend in H.
    destruct (conn_running y c); try discriminate.
    destruct (k_st (kget c (i_ka y))); try discriminate; inversion H; subst s'; clear H; (split; [apply upd_length|]);
      apply (keeps_other _ _ _ k x); auto; intros x0 H0 E; subst i; rewrite Hx in Hy; inversion Hy; subst; exact Hc.
  - destruct (nth_error (insts s) i) as [y|] eqn:Hy; try discriminate.
    inversion H; subst s'; clear H. split; [apply upd_length|]. apply (keeps_other _ _ _ k x); auto.
    intros x0 H0 E. subst i. rewrite Hx in Hy. inversion Hy; subst. exact Hc.
  - destruct (nth_error (insts s) i) as [y|] eqn:Hy; try discriminate. unfold step_wpoll in H.
    destruct (nth_error (i_lw y) w) as [[]|]; try discriminate. destruct (finished (i_sd y)); try discriminate.
    inversion H; subst s'; clear H. split; [apply upd_length|]. apply (keeps_other _ _ _ k x); auto.
    intros x0 H0 E. subst i. rewrite Hx in Hy. inversion Hy; subst. exact Hc.
Qed.

Lemma hlabel_eq_start lb : {lb = HStart} + {lb <> HStart}.
Proof. destruct lb; try (right; discriminate). left; reflexivity. Qed.

Lemma path_stable n s k lb s' :
  hreachable hrepaired n s -> serves s k = true -> S k = length (insts s) -> hstep hrepaired s lb = Some s' -> serves s' k = true.
Proof.
  intros Hr Hs Hk H. apply hinv_reachable in Hr. pose proof (hinv_step _ _ _ _ Hr H) as Hinv'.
  unfold serves in Hs. destruct (path s) as [k0|] eqn:Hp; try discriminate.
  destruct (nth_error (insts s) k) as [x|] eqn:Hx; try discriminate.
  apply andb_true_iff in Hs as (E & Hc). apply Nat.eqb_eq in E. subst k0.
  assert (Hcx : i_ctl x = TBound) by (destruct (i_ctl x); auto; discriminate).
  destruct (hlabel_eq_start lb) as [->|Hns].
  - cbn [hstep] in H. destruct (nth_error (insts s) (pred (length (insts s)))) as [z|]; try discriminate.
    destruct (is_running z); try discriminate. inversion H; subst s'. unfold serves. cbn [path insts with_insts].
    rewrite Hp, nth_error_app1 by (apply nth_error_lt in Hx; exact Hx). rewrite Hx, Hcx, Nat.eqb_refl. reflexivity.
  - destruct (hstep_keeps_bound _ _ _ _ _ _ Hr H Hns Hx Hcx Hk) as (Hlen & x' & Hx' & Hc').
    assert (Hk' : k = pred (length (insts s'))) by lia.
    assert (Hp' : path s' = Some k).
    { rewrite Hk'. apply (hi_served _ _ Hinv' x'); [rewrite <- Hk'; exact Hx'|exact Hc']. }
    unfold serves. rewrite Hp', Hx', Hc', Nat.eqb_refl. reflexivity.
Qed.

(** ** kvarn 0.6.3 as found *)
Lemma hreachable_run v n s sched s' : hreachable v n s -> hrun v s sched = Some s' -> hreachable v n s'.
Proof.
  revert s; induction sched as [|lb r IH]; intros s Hr H; cbn [hrun] in H.
  - inversion H; subst; exact Hr.
  - destruct (hstep v s lb) as [s1|] eqn:E; try discriminate. apply (IH s1); [eapply hreach_step; eauto|exact H].
Qed.

Lemma hreachable_drain v n fuel s ok : hreachable v n s -> hreachable v n (fst (hdrain v fuel s ok)).
Proof.
  revert s ok; induction fuel as [|f IH]; intros s ok Hr; cbn [hdrain]; auto.
  destruct (find (henabledb v s) (all_labels 0 (insts s))) as [lb|]; auto.
  destruct (hstep v s lb) as [s1|] eqn:E; auto. apply IH. eapply hreach_step; eauto.
Qed.

(** the accept task binds, the start-up program goes on to the handover message: a schedule after which socket 0 is
    bound by nobody *)
Definition sched_unbound : list hlabel :=
  [HStart; HMain 1; HMain 1; HRecv 0; HSd 0 (SStep 0); HSd 0 (SStep 0); HSd 0 (SStep 0); HSd 0 (SStep 0);
   HSd 0 (LStep 0); HSd 0 (LStep 0); HSd 0 (LStep 0); HSd 0 (LStep 0)].

Lemma always_bound_today_refuted :
  exists s, hreachable htoday 1 s /\ port_served s 0 = false /\
            exists x y, nth_error (insts s) 0 = Some x /\ closed x 0 /\ nth_error (insts s) 1 = Some y /\ nth 0 (i_bnd y) BNone = BNone.
Proof.
  destruct (hrun htoday (hinit 1) sched_unbound) as [s|] eqn:E; [|vm_compute in E; discriminate].
  exists s. split; [eapply hreachable_run; [apply hreach_init|exact E]|].
  vm_compute in E. inversion E; subst s; clear E. split; [reflexivity|].
  do 2 eexists. split; [reflexivity|]. split; [eexists; split; reflexivity|]. split; reflexivity.
Qed.

(** after the first repair only: [execute] returns while its control-socket task has not bound the path yet.  An instance
    started right then finds no socket ("NotFound"), goes on as if there were nobody to take over from, and the older instance
    binds the path afterwards: two instances listen on the port for ever, the control socket is answered by the OLDER one, which
    is never told to shut down — nothing can move any more *)
Definition sched_eager : list hlabel :=
  [HStart; HMain 1; HMain 1; HMain 1; HRecv 0; HSd 0 (SStep 0); HSd 0 (SStep 0); HSd 0 (SStep 0); HSd 0 (SStep 0); HReply 0;
   HMain 1; HMain 1; HStart; HMain 2; HMain 2; HMain 2; HMain 2; HCtl 1; HCtl 2].

Lemma eager_start_refuted :
  exists s, hreachable hbound 1 s /\ hquiescentb hbound s = true /\ length (insts s) = 3 /\
            serves s 1 = true /\ serves s 2 = false /\
            exists x y, nth_error (insts s) 1 = Some x /\ nth_error (insts s) 2 = Some y /\
                        listening x 0 = true /\ listening y 0 = true /\ i_pc x = PRunning /\ i_pc y = PRunning /\
                        i_msg x = false /\ i_recv x = false /\ finished (i_sd x) = false.
Proof.
  destruct (hrun hbound (hinit 1) sched_eager) as [s0|] eqn:E; [|vm_compute in E; discriminate].
  exists (fst (hdrain hbound 400 s0 true)).
  split; [apply hreachable_drain; eapply hreachable_run; [apply hreach_init|exact E]|].
  vm_compute in E. inversion E; subst s0; clear E. vm_compute.
  repeat split. do 2 eexists. repeat split.
Qed.

(** ** All clauses together, for a chain of any length *)
Lemma chain n s :
  hreachable hrepaired n s ->
  (forall j, j < n -> port_served s j = true) /\
  (forall i x, nth_error (insts s) i = Some x ->
     ((i_msg x || i_recv x) = true -> exists y, nth_error (insts s) (S i) = Some y /\ all_bnd n y) /\
     (forall j, closed x j -> exists y, nth_error (insts s) (S i) = Some y /\ all_bnd n y) /\
     (finished (i_sd x) = true -> all_done (i_sd x) = true /\ forallb (fun l => negb (l_bound l)) (ls (i_sd x)) = true) /\
     (forall c, k_after (kget c (i_ka x)) <= 1) /\
     (i_recv x = true -> hquiescent hrepaired s -> completed (i_sd x) = true /\ forallb (fun w => w) (i_lw x) = true)) /\
  (forall i, serves s i = true ->
     S i = length (insts s) \/
     (S (S i) = length (insts s) /\ exists y, nth_error (insts s) (S i) = Some y /\ i_pc y <> PRunning)) /\
  (hquiescent hrepaired s -> serves s (pred (length (insts s))) = true) /\
  (forall k lb s', serves s k = true -> S k = length (insts s) -> hstep hrepaired s lb = Some s' -> serves s' k = true).
Proof.
  intros Hr. split; [|split; [|split; [|split]]].
  - intros j Hj. eapply always_bound; eauto.
  - intros i x Hx. split; [|split; [|split; [|split]]].
    + intros Ht. eapply told_after_bound; eauto.
    + intros j Hc. eapply successor_binds_first; eauto.
    + intros Hf. eapply handover_drains_safe; eauto.
    + intros c. eapply keepalive_one_more; eauto.
    + intros Hrecv Hq. eapply handover_no_hang; eauto.
  - intros i Hs. eapply ctl_successor_only; eauto.
  - intros Hq. eapply ctl_successor_answers; eauto.
  - intros k lb s' Hs Hk H. eapply path_stable; eauto.
Qed.
