From Coq Require Import ZifyBool ZifyNat ZifyN.
From KV Require Import Shutdown ShutdownProofs Handover.
(** C11 — proofs about the transition system of Model/Handover.v. *)
Open Scope nat_scope.

Ltac break_step H :=
  repeat match type of H with
  | (match ?x with _ => _ end) = Some _ => destruct x eqn:?; try discriminate H
  | (if ?x then _ else _) = Some _ => destruct x eqn:?; try discriminate H
  | (let (_, _) := ?x in _) = Some _ => destruct x eqn:?
  | option_map _ ?x = Some _ => destruct x eqn:?; cbn [option_map] in H; try discriminate H
  end.

Lemma swapD_init s : init_sent (swapD s) = init_sent s. Proof. unfold swapD; destruct (gD s); reflexivity. Qed.
Lemma rstep_ls s r s' o : rstep s r = (s', o) -> ls s' = ls s.
Proof. destruct r; cbn; intros H; inversion H; subst; try reflexivity. apply swapD_ls. Qed.
Lemma rstep_callers s r s' o : rstep s r = (s', o) -> callers s' = callers s.
Proof. destruct r; cbn; intros H; inversion H; subst; try reflexivity. apply swapD_callers. Qed.
Lemma rstep_S s r s' o : rstep s r = (s', o) -> gS s' = gS s.
Proof. destruct r; cbn; intros H; inversion H; subst; try reflexivity. apply swapD_S. Qed.

Ltac unfold_steps H :=
  unfold step_listener, step_take, step_conn, step_panic, step_caller, step_comp, step_hook, park in H.

Lemma step_lengths v s lb s' : step v s lb = Some s' ->
  length (ls s') = length (ls s) /\ length (callers s') = length (callers s).
Proof.
  intros H. destruct lb; cbn [step] in H; unfold_steps H; break_step H.
  all: try (inversion H; subst; clear H; cbn; rewrite ?upd_length, ?map_length, ?swapD_ls, ?swapD_callers; auto; fail).
  all: try (inversion H; subst; clear H; cbn; rewrite ?upd_length;
            match goal with E : rstep _ _ = _ |- _ => rewrite (rstep_ls _ _ _ _ E), (rstep_callers _ _ _ _ E) end; auto; fail).
  all: idtac "left".
Qed.

(* F3 *)
Lemma step_S_other v s lb s' : step v s lb = Some s' -> (forall k, lb <> SStep k) -> gS s' = gS s.
Proof.
  intros H Hn. destruct lb; cbn [step] in H; unfold_steps H; break_step H.
  all: try (exfalso; eapply Hn; reflexivity).
  all: try (inversion H; subst; clear H; cbn; rewrite ?swapD_S; auto; fail).
  all: try (inversion H; subst; clear H; cbn;
            match goal with E : rstep _ _ = _ |- _ => rewrite (rstep_S _ _ _ _ E) end; auto; fail).
  all: idtac "left2".
Qed.

Definition l_open (l : listener) : bool := match l_pc l with LShut | LRel _ | LExited => false | _ => true end.
Definition s_new (p : spc) : bool := match p with SNew => true | _ => false end.
Definition unreq (s : state) : Prop :=
  gS s = false -> forallb l_open (ls s) = true /\ forallb s_new (callers s) = true /\ init_sent s = false.

Lemma rstep_init s r s' o : rstep s r = (s', o) -> init_sent s' = init_sent s.
Proof. destruct r; cbn; intros H; inversion H; subst; try reflexivity. apply swapD_init. Qed.

Lemma unreq_step s lb s' : unreq s -> step repaired s lb = Some s' -> unreq s'.
Proof.
  intros Hinv H HS'.
  destruct lb; cbn [step] in H; unfold_steps H; cbn [fixA fixB fixC repaired] in H; break_step H.
  all: inversion H; subst; clear H; cbn in HS'.
  all: try match goal with E : rstep _ _ = _ |- _ =>
         pose proof (rstep_S _ _ _ _ E) as HrS; pose proof (rstep_ls _ _ _ _ E) as Hrl;
         pose proof (rstep_callers _ _ _ _ E) as Hrc; pose proof (rstep_init _ _ _ _ E) as Hri end.
  all: try rewrite swapD_S in HS'.
  all: try (rewrite HrS in HS').
  all: try discriminate HS'.
  all: destruct (Hinv HS') as (Hl & Hc & Hi).
  all: cbn; rewrite ?swapD_ls, ?swapD_callers, ?swapD_init, ?Hrl, ?Hrc, ?Hri.
  all: try (split; [|split]; assumption).
  all: try (match goal with E : nth_error (ls _) _ = Some ?l |- _ =>
         pose proof (forallb_nth _ _ _ _ Hl E) as Hopen; unfold l_open in Hopen end).
  all: try (match goal with E : nth_error (callers _) _ = Some ?l |- _ =>
         pose proof (forallb_nth _ _ _ _ Hc E) as Hnew; unfold s_new in Hnew end).
  all: try match goal with E : l_pc _ = _ |- _ => rewrite E in Hopen; try discriminate Hopen end.
  all: try (subst; discriminate Hnew).
  all: try (split; [|split]; try assumption; apply forallb_upd; try assumption; unfold l_open; cbn; try rewrite HS'; try reflexivity;
            match goal with E : l_pc _ = _ |- _ => rewrite E; reflexivity end).
  destruct (l_queue l); inversion Heqo0; subst.
  split; [|split]; try assumption. apply forallb_upd; try assumption; try reflexivity.
Qed.

Lemma forallb_repeat {A} (f : A -> bool) x n : f x = true -> forallb f (repeat x n) = true.
Proof. intros H; induction n; cbn; auto. rewrite H, IHn. reflexivity. Qed.

Lemma unreq_reachable s : reachable repaired s -> unreq s.
Proof.
  induction 1 as [nl nc nh nw|s lb s' _ IH Hs].
  - intros _. cbn. split; [|split]; auto; apply forallb_repeat; reflexivity.
  - eapply unreq_step; eauto.
Qed.

(** ** The chain of instances: inductive invariant *)
Lemma nth_upd {A} (l : list A) i j x d :
  nth j (upd i x l) d = if Nat.eqb i j then (if Nat.ltb i (length l) then x else d) else nth j l d.
Proof.
  revert i j; induction l as [|a l IH]; intros [|i] [|j]; cbn [upd nth Nat.eqb length]; try reflexivity.
  - destruct (Nat.eqb i j); reflexivity.
  - rewrite IH. change (Nat.ltb (S i) (S (length l))) with (Nat.ltb i (length l)). reflexivity.
Qed.

Definition past_spawn (n : nat) (p : ipc) : Prop := forall j, j < n -> spawned n p j = true.

Record wf (n : nat) (x : inst) : Prop := {
  wf_len : length (i_bnd x) = n;
  wf_ls : length (ls (i_sd x)) = n;
  wf_callers : length (callers (i_sd x)) = 1;
  wf_reach : reachable repaired (i_sd x);
  wf_bnd : forall j, spawned n (i_pc x) j = true -> nth j (i_bnd x) false = true;
  wf_S : gS (i_sd x) = true -> i_recv x = true;
  wf_recv : (i_msg x || i_recv x) = true -> i_ctl x <> TNone;
  wf_ctl : i_ctl x <> TNone -> i_pc x = PRunning;
  wf_run : i_pc x = PRunning -> i_ctl x <> TNone
}.

Record hinv (n : nat) (s : hstate) : Prop := {
  hi_np : np s = n;
  hi_first : exists x, nth_error (insts s) 0 = Some x /\ i_pc x = PRunning;
  hi_wf : forall i x, nth_error (insts s) i = Some x -> wf n x;
  hi_old : forall i x, nth_error (insts s) i = Some x -> S i < length (insts s) ->
           i_pc x = PRunning /\ i_ctl x <> TSpawned;
  hi_succ : forall i x, nth_error (insts s) i = Some x -> (i_msg x || i_recv x) = true ->
            exists y, nth_error (insts s) (S i) = Some y /\ past_spawn n (i_pc y);
  hi_path : forall k, path s = Some k ->
            S k = length (insts s) \/
            (S (S k) = length (insts s) /\ exists y, nth_error (insts s) (S k) = Some y /\ i_ctl y = TNone)
}.

Lemma wf_new n : wf n (new_inst n).
Proof.
  constructor; cbn.
  - apply repeat_length.
  - apply repeat_length.
  - reflexivity.
  - apply reach_init.
  - intros j H. destruct j; discriminate.
  - discriminate.
  - discriminate.
  - intros H; contradiction.
  - discriminate.
Qed.

Lemma wf_up n : wf n (up_inst n).
Proof.
  constructor; cbn.
  - apply repeat_length.
  - apply repeat_length.
  - reflexivity.
  - apply reach_init.
  - intros j H. apply Nat.ltb_lt in H. revert j H. induction n; intros [|j] H; cbn; auto; try lia. apply IHn. lia.
  - discriminate.
  - discriminate.
  - reflexivity.
  - discriminate.
Qed.

Lemma hinv_init n : hinv n (hinit n).
Proof.
  constructor; cbn.
  - reflexivity.
  - eexists; split; reflexivity.
  - intros [|i] x H; cbn in H; inversion H; subst; try apply wf_up. destruct i; discriminate.
  - intros i x _ H. lia.
  - intros [|i] x H; cbn in H; inversion H; subst; cbn; try discriminate. destruct i; discriminate.
  - intros k H. inversion H; subst. left. reflexivity.
Qed.

Lemma nth_error_lt {A} (l : list A) i x : nth_error l i = Some x -> i < length l.
Proof. intros H. apply nth_error_Some. rewrite H. discriminate. Qed.

Lemma hinv_upd n s i x x' p' :
  hinv n s -> nth_error (insts s) i = Some x ->
  wf n x' ->
  (i_pc x = PRunning -> i_pc x' = PRunning /\ (i_ctl x <> TSpawned -> i_ctl x' <> TSpawned)) ->
  (past_spawn n (i_pc x) -> past_spawn n (i_pc x')) ->
  ((i_msg x' || i_recv x') = true -> (i_msg x || i_recv x) = true \/
       exists y, nth_error (insts s) (S i) = Some y /\ past_spawn n (i_pc y)) ->
  ((p' = path s /\ (i_ctl x = TNone -> i_ctl x' = TNone)) \/ p' = None \/ (p' = Some i /\ S i = length (insts s))) ->
  hinv n {| np := np s; insts := upd i x' (insts s); path := p' |}.
Proof.
  intros [Hnp Hfirst Hwf Hold Hsucc Hpath] Hx Hwf' Hpc Hps Hmsg Hp.
  assert (Hlen : length (upd i x' (insts s)) = length (insts s)) by apply upd_length.
  constructor; cbn [np insts path]; try rewrite Hlen.
  - exact Hnp.
  - destruct Hfirst as (x0 & H0 & Hpc0). rewrite nth_error_upd.
    destruct (Nat.eqb i 0) eqn:E.
    + apply Nat.eqb_eq in E; subst. rewrite Hx. rewrite H0 in Hx. inversion Hx; subst.
      eexists; split; [reflexivity|]. apply Hpc; assumption.
    + eexists; split; eauto.
  - intros k y. rewrite nth_error_upd. destruct (Nat.eqb i k) eqn:E.
    + rewrite Hx. intros H; inversion H; subst. assumption.
    + apply Hwf.
  - intros k y. rewrite nth_error_upd. destruct (Nat.eqb i k) eqn:E.
    + apply Nat.eqb_eq in E; subst. rewrite Hx. intros H Hlt; inversion H; subst.
      destruct (Hold _ _ Hx Hlt) as (Ha & Hb). destruct (Hpc Ha) as (Hc & Hd). split; auto.
    + apply Hold.
  - intros k y. rewrite !nth_error_upd. destruct (Nat.eqb i k) eqn:E.
    + apply Nat.eqb_eq in E; subst. rewrite Hx. intros H Hm; inversion H; subst.
      assert (Nat.eqb k (S k) = false) as -> by (apply Nat.eqb_neq; lia).
      destruct (Hmsg Hm) as [Hm'|Hy]; [apply (Hsucc _ _ Hx Hm')|exact Hy].
    + intros Hk Hm. destruct (Hsucc _ _ Hk Hm) as (z & Hz & Hzp).
      destruct (Nat.eqb i (S k)) eqn:E2.
      * apply Nat.eqb_eq in E2; subst. rewrite Hx. rewrite Hz in Hx. inversion Hx; subst.
        eexists; split; [reflexivity|]. apply Hps; assumption.
      * eexists; split; eauto.
  - intros k Hk. destruct Hp as [(Hp & Hc)|[Hp|(Hp & Hl)]]; subst p'; try discriminate.
    + destruct (Hpath _ Hk) as [H|(H & y & Hy & Hyc)]; [left; exact H|right]. split; [exact H|].
      rewrite nth_error_upd. destruct (Nat.eqb i (S k)) eqn:E.
      * apply Nat.eqb_eq in E; subst. rewrite Hx. rewrite Hy in Hx. inversion Hx; subst.
        eexists; split; [reflexivity|]. auto.
      * eexists; split; eauto.
    + inversion Hk; subst. left; exact Hl.
Qed.

Lemma past_spawn_other n p : (forall j, p <> PSpawn j) -> past_spawn n p.
Proof. intros H j Hj. destruct p; cbn; try (apply Nat.ltb_lt; exact Hj). exfalso; eapply H; reflexivity. Qed.

Lemma hinv_start n s x :
  hinv n s -> nth_error (insts s) (pred (length (insts s))) = Some x -> is_up x = true ->
  hinv n (with_insts s (insts s ++ [new_inst (np s)])).
Proof.
  intros [Hnp Hfirst Hwf Hold Hsucc Hpath] Hx Hup.
  assert (Hl : length (insts s) > 0) by (apply nth_error_lt in Hx; lia).
  unfold is_up in Hup. destruct (i_pc x) eqn:Epc; try discriminate. destruct (i_ctl x) eqn:Ectl; try discriminate.
  constructor; cbn [np insts path with_insts]; try rewrite app_length; cbn [length].
  - exact Hnp.
  - destruct Hfirst as (x0 & H0 & Hpc0). exists x0. split; auto. rewrite nth_error_app1; auto.
  - intros i y H. destruct (Nat.ltb i (length (insts s))) eqn:E.
    + apply Nat.ltb_lt in E. rewrite nth_error_app1 in H; auto. eapply Hwf; eauto.
    + apply Nat.ltb_ge in E. rewrite nth_error_app2 in H; auto.
      destruct (i - length (insts s)) as [|d]; cbn in H; [|destruct d; discriminate]. inversion H; subst. apply wf_new.
  - intros i y H Hlt. assert (i < length (insts s)) by lia. rewrite nth_error_app1 in H; auto.
    destruct (Nat.eq_dec (S i) (length (insts s))) as [E|E].
    + assert (i = pred (length (insts s))) by lia. subst i. rewrite Hx in H. inversion H; subst. split; auto. rewrite Ectl. discriminate.
    + apply (Hold _ _ H). lia.
  - intros i y H Hm. destruct (Nat.ltb i (length (insts s))) eqn:E.
    + apply Nat.ltb_lt in E. rewrite nth_error_app1 in H; auto.
      destruct (Hsucc _ _ H Hm) as (z & Hz & Hzp). exists z. split; auto.
      rewrite nth_error_app1; auto. apply nth_error_lt in Hz. exact Hz.
    + apply Nat.ltb_ge in E. rewrite nth_error_app2 in H; auto.
      destruct (i - length (insts s)) as [|d]; cbn in H; [|destruct d; discriminate]. inversion H; subst. discriminate.
  - intros k Hk. right. destruct (Hpath _ Hk) as [H|(H & y & Hy & Hyc)].
    + split; [lia|]. exists (new_inst (np s)). split; [|reflexivity].
      rewrite nth_error_app2 by lia. rewrite H, Nat.sub_diag. reflexivity.
    + exfalso. assert (S k = pred (length (insts s))) by lia. rewrite H0, Hx in Hy. inversion Hy; subst. rewrite Ectl in Hyc. discriminate.
Qed.

Lemma spawned_all n p j : past_spawn n p -> j < n -> spawned n p j = true.
Proof. intros H Hj. apply H; exact Hj. Qed.

Lemma past_spawn_ge n j : n <= j -> past_spawn n (PSpawn j).
Proof. intros H k Hk. cbn. apply Nat.ltb_lt. lia. Qed.

(** a change of the program counter to one that is past the spawn loop *)
Lemma wf_pc n x p : wf n x -> past_spawn n (i_pc x) -> (forall j, p <> PSpawn j) -> i_ctl x = TNone -> p <> PRunning -> wf n (with_pc x p).
Proof.
  intros [H1 H2 H3 H4 H5 H6 H7 H8 H9] Hps Hp Hc Hr. constructor; cbn; auto.
  - intros j Hj. apply H5. apply Hps. destruct p; cbn in Hj; try (apply Nat.ltb_lt; exact Hj). exfalso; eapply Hp; reflexivity.
  - intros H. contradiction.
Qed.

Lemma hinv_step n s lb s' : hinv n s -> hstep hrepaired s lb = Some s' -> hinv n s'.
Proof.
  intros Hinv H. pose proof Hinv as [Hnp Hfirst Hwf Hold Hsucc Hpath].
  destruct lb; cbn [hstep] in H.
  - (* HStart *)
    destruct (nth_error (insts s) (pred (length (insts s)))) as [x|] eqn:Hx; try discriminate.
    destruct (is_up x) eqn:Hup; try discriminate. inversion H; subst. eapply hinv_start; eauto.
  - (* HMain *)
    destruct (nth_error (insts s) i) as [x|] eqn:Hx; try discriminate.
    pose proof (Hwf _ _ Hx) as Hw.
    unfold step_main in H. destruct (i_pc x) as [j|k| |] eqn:Epc; try discriminate; pose proof Hw as [W1 W2 W3 W4 W5 W6 W7 W8 W9].
    + (* PSpawn *)
      assert (Hc : i_ctl x = TNone).
      { destruct (i_ctl x) eqn:E; auto; exfalso; assert (i_pc x = PRunning) by (apply W8; discriminate); congruence. }
      destruct (Nat.ltb j (np s)) eqn:Ej.
      * apply Nat.ltb_lt in Ej. cbn [fixD hrepaired] in H. inversion H; subst s'; clear H.
        apply (hinv_upd n s i x); auto.
        -- constructor; cbn; auto.
           ++ rewrite upd_length; auto.
           ++ intros j0 Hj0. assert (j0 < S j) by (cbn in Hj0; lia). rewrite nth_upd. destruct (Nat.eqb j j0) eqn:E.
              ** assert (Nat.ltb j (length (i_bnd x)) = true) as -> by (apply Nat.ltb_lt; lia). reflexivity.
              ** apply Nat.eqb_neq in E. apply W5. rewrite Epc. cbn. apply Nat.ltb_lt. lia.
           ++ intros Hn. contradiction.
           ++ discriminate.
        -- rewrite Epc. discriminate.
        -- rewrite Epc. intros Hps. assert (Hjn : j < n) by lia. specialize (Hps j Hjn). unfold spawned in Hps. rewrite Nat.ltb_irrefl in Hps. discriminate Hps.
      * apply Nat.ltb_ge in Ej.
        assert (Hps : past_spawn n (i_pc x)) by (rewrite Epc; apply past_spawn_ge; lia).
        assert (Hrm : hinv n (set_inst s i (with_pc x PRm))).
        { apply (hinv_upd n s i x); auto.
          - apply wf_pc; auto; discriminate.
          - rewrite Epc; discriminate.
          - intros _. apply past_spawn_other. discriminate. }
        destruct (path s) as [k|] eqn:Hp; [|inversion H; subst; exact Hrm].
        destruct (nth_error (insts s) k) as [y|] eqn:Hy; [|inversion H; subst; exact Hrm].
        destruct (i_ctl y) eqn:Ey; try (inversion H; subst; exact Hrm).
        destruct (Nat.eqb k i) eqn:Eki; try discriminate. apply Nat.eqb_neq in Eki.
        inversion H; subst s'; clear H.
        assert (Hi : S i = length (insts s)).
        { destruct (Nat.eq_dec (S i) (length (insts s))); auto. apply nth_error_lt in Hx as Hlt.
          destruct (Hold _ _ Hx) as (Hr & _); [lia|]. congruence. }
        assert (Hk : S k = i).
        { destruct (Hpath k eq_refl) as [Hk|(Hk & _)]; lia. }
        assert (H1 : hinv n (set_inst s i (with_pc x (PWait k)))).
        { apply (hinv_upd n s i x); auto.
          - apply wf_pc; auto; discriminate.
          - rewrite Epc; discriminate.
          - intros _. apply past_spawn_other. discriminate. }
        apply (hinv_upd n (set_inst s i (with_pc x (PWait k))) k y); auto.
        -- cbn. rewrite nth_error_upd. assert (Nat.eqb i k = false) as -> by (apply Nat.eqb_neq; lia). exact Hy.
        -- pose proof (Hwf _ _ Hy) as [V1 V2 V3 V4 V5 V6 V7 V8 V9]. constructor; cbn; auto. intros _. rewrite Ey. discriminate.
        -- intros _. right. cbn [insts set_inst with_insts]. rewrite Hk. rewrite nth_error_upd. rewrite Nat.eqb_refl, Hx. eexists; split; [reflexivity|].
           cbn. apply past_spawn_other. discriminate.
    + (* PWait *)
      destruct (nth_error (insts s) k) as [y|] eqn:Hy; try discriminate. destruct (i_replied y); try discriminate.
      inversion H; subst s'; clear H.
      assert (Hc : i_ctl x = TNone).
      { destruct (i_ctl x) eqn:E; auto; exfalso; assert (i_pc x = PRunning) by (apply W8; discriminate); congruence. }
      apply (hinv_upd n s i x); auto.
      * apply wf_pc; auto; try discriminate. rewrite Epc. apply past_spawn_other. discriminate.
      * rewrite Epc; discriminate.
      * intros _. apply past_spawn_other. discriminate.
    + (* PRm *)
      inversion H; subst s'; clear H.
      apply (hinv_upd n s i x); auto.
      * constructor; cbn; auto; try (intros; discriminate). intros j Hj. apply W5. rewrite Epc. exact Hj.
      * rewrite Epc; discriminate.
      * intros _. apply past_spawn_other. discriminate.
  - (* HBind *)
    destruct (nth_error (insts s) i); try discriminate.
  - (* HCtl *)
    destruct (nth_error (insts s) i) as [x|] eqn:Hx; try discriminate.
    pose proof (Hwf _ _ Hx) as Hw.
    unfold step_ctl in H. destruct (i_ctl x) eqn:Ec; try discriminate; pose proof Hw as [W1 W2 W3 W4 W5 W6 W7 W8 W9].
    + assert (Hi : S i = length (insts s)).
      { destruct (Nat.eq_dec (S i) (length (insts s))); auto. apply nth_error_lt in Hx as Hlt.
        destruct (Hold _ _ Hx) as (_ & Hr); [lia|]. congruence. }
      assert (Hr : i_pc x = PRunning) by (apply W8; rewrite Ec; discriminate).
      destruct (path s) eqn:Hp; inversion H; subst s'; clear H; apply (hinv_upd n s i x); auto.
      all: try (constructor; cbn; auto; intros; discriminate).
      all: try (intros _; split; auto; intros _; cbn; discriminate).
      all: try (left; split; auto; rewrite Ec; discriminate).
      all: try (right; right; split; auto).
    + destruct (init_sent (i_sd x)); try discriminate. inversion H; subst s'; clear H.
      assert (Hr : i_pc x = PRunning) by (apply W8; rewrite Ec; discriminate).
      apply (hinv_upd n s i x); auto.
      * constructor; cbn; auto; intros; discriminate.
      * intros _. split; auto. intros _. cbn. discriminate.
      * left. split; auto. rewrite Ec. discriminate.
  - (* HRecv *)
    destruct (nth_error (insts s) i) as [x|] eqn:Hx; try discriminate.
    pose proof (Hwf _ _ Hx) as Hw.
    unfold step_recv in H. destruct (i_ctl x) eqn:Ec; try discriminate.
    destruct (i_msg x) eqn:Em; try discriminate. destruct (i_recv x) eqn:Er; try discriminate.
    cbn in H. inversion H; subst s'; clear H. pose proof Hw as [W1 W2 W3 W4 W5 W6 W7 W8 W9].
    apply (hinv_upd n s i x); auto.
    + constructor; cbn; auto. intros _. rewrite Ec. discriminate.
    + intros _. left. rewrite Em. reflexivity.
  - (* HReply *)
    destruct (nth_error (insts s) i) as [x|] eqn:Hx; try discriminate.
    pose proof (Hwf _ _ Hx) as Hw.
    unfold step_reply in H. destruct (i_recv x) eqn:Er; try discriminate.
    destruct (i_replied x) eqn:Ep; try discriminate. cbn [andb negb] in H.
    destruct (caller_pc x) as [[]|]; try discriminate. inversion H; subst s'; clear H. pose proof Hw as [W1 W2 W3 W4 W5 W6 W7 W8 W9].
    apply (hinv_upd n s i x); auto.
    + constructor; cbn; auto. intros _. apply W7. rewrite Er. apply orb_true_r.
    + intros _. left. rewrite Er. apply orb_true_r.
  - (* HSd *)
    destruct (nth_error (insts s) i) as [x|] eqn:Hx; try discriminate.
    pose proof (Hwf _ _ Hx) as Hw. pose proof Hw as [W1 W2 W3 W4 W5 W6 W7 W8 W9].
    unfold step_sd in H. destruct (sd_gate x lb) eqn:Eg; try discriminate.
    destruct (step repaired (i_sd x) lb) as [sd'|] eqn:Es; try discriminate.
    destruct (step_lengths _ _ _ _ Es) as (L1 & L2).
    assert (Hw' : wf n (with_sd x sd')).
    { constructor; cbn; auto; try congruence.
      - eapply reach_step; eauto.
      - intros HS. destruct lb; try (apply W6; rewrite <- HS; symmetry; eapply step_S_other; eauto; intros; discriminate).
        exact Eg. }
    destruct (removes_path x lb); inversion H; subst s'; clear H; apply (hinv_upd n s i x); auto.
Qed.

Lemma hinv_reachable n s : hreachable hrepaired n s -> hinv n s.
Proof. induction 1. apply hinv_init. eapply hinv_step; eauto. Qed.

(** ** The theorems *)
Lemma l_open_bound l : l_open l = true -> l_bound l = true.
Proof. unfold l_open, l_bound. destruct (l_pc l); auto. Qed.

(** an instance that has not been asked to shut down listens on every port its start-up has handled *)
Lemma unasked_listening n x j :
  wf n x -> i_recv x = false -> j < n -> nth j (i_bnd x) false = true -> listening x j = true.
Proof.
  intros [W1 W2 W3 W4 W5 W6 W7 W8 W9] Hr Hj Hb. unfold listening. rewrite Hb. cbn [andb].
  destruct (nth_error (ls (i_sd x)) j) as [l|] eqn:El.
  - assert (HS : gS (i_sd x) = false) by (destruct (gS (i_sd x)); auto; rewrite W6 in Hr; auto; discriminate).
    destruct (unreq_reachable _ W4 HS) as (Hl & _). apply l_open_bound. eapply forallb_nth; eauto.
  - apply nth_error_None in El. lia.
Qed.

Lemma past_spawn_dec n p : {past_spawn n p} + {exists j, p = PSpawn j /\ j < n}.
Proof.
  destruct p as [j|k| |]; try (left; apply past_spawn_other; discriminate).
  destruct (le_lt_dec n j); [left; apply past_spawn_ge; auto|right; eauto].
Qed.

Lemma always_bound n s j : hreachable hrepaired n s -> j < n -> port_served s j = true.
Proof.
  intros Hr Hj. apply hinv_reachable in Hr. destruct Hr as [Hnp Hfirst Hwf Hold Hsucc Hpath].
  destruct Hfirst as (x0 & H0 & Hp0).
  assert (Hlen : length (insts s) > 0) by (apply nth_error_lt in H0; lia).
  destruct (nth_error (insts s) (pred (length (insts s)))) as [x|] eqn:Hx; [|apply nth_error_None in Hx; lia].
  assert (Hrx : i_recv x = false).
  { destruct (i_recv x) eqn:E; auto. destruct (Hsucc _ _ Hx) as (y & Hy & _); [rewrite E; apply orb_true_r|].
    apply nth_error_lt in Hy. lia. }
  unfold port_served.
  destruct (past_spawn_dec n (i_pc x)) as [Hps|(j' & Hpc & Hj')].
  - eapply ShutdownProofs.existsb_nth; [exact Hx|]. pose proof (Hwf _ _ Hx) as Hw. apply (unasked_listening n); auto.
    apply (wf_bnd _ _ Hw). apply Hps; exact Hj.
  - destruct (pred (length (insts s))) as [|L] eqn:EL.
    + rewrite H0 in Hx. inversion Hx; subst. congruence.
    + destruct (nth_error (insts s) L) as [y|] eqn:Hy; [|apply nth_error_None in Hy; lia].
      destruct (Hold _ _ Hy) as (Hpy & _); [lia|].
      pose proof (Hwf _ _ Hy) as Hw. eapply ShutdownProofs.existsb_nth; [exact Hy|]. apply (unasked_listening n); auto.
      * destruct (i_recv y) eqn:E; auto. destruct (Hsucc _ _ Hy) as (z & Hz & Hzp); [rewrite E; apply orb_true_r|].
        rewrite Hx in Hz. inversion Hz; subst z. rewrite Hpc in Hzp. specialize (Hzp j' Hj'). unfold spawned in Hzp.
        rewrite Nat.ltb_irrefl in Hzp. discriminate.
      * apply (wf_bnd _ _ Hw). rewrite Hpy. cbn. apply Nat.ltb_lt. exact Hj.
Qed.

Lemma successor_binds_first n s i x j :
  hreachable hrepaired n s -> nth_error (insts s) i = Some x -> closed x j ->
  exists y, nth_error (insts s) (S i) = Some y /\ all_bnd n y.
Proof.
  intros Hr Hx (l & Hl & Hb). apply hinv_reachable in Hr. destruct Hr as [Hnp Hfirst Hwf Hold Hsucc Hpath].
  pose proof (Hwf _ _ Hx) as [W1 W2 W3 W4 W5 W6 W7 W8 W9].
  assert (HS : gS (i_sd x) = true).
  { destruct (gS (i_sd x)) eqn:E; auto. destruct (unreq_reachable _ W4 E) as (Ho & _).
    pose proof (forallb_nth _ _ _ _ Ho Hl) as Hlo. apply l_open_bound in Hlo. congruence. }
  destruct (Hsucc _ _ Hx) as (y & Hy & Hyp); [rewrite (W6 HS); apply orb_true_r|].
  exists y. split; auto. intros j0 Hj0. apply (wf_bnd _ _ (Hwf _ _ Hy)). apply Hyp; exact Hj0.
Qed.

(** the embedded machine of every instance is a reachable state of C10's system: C10's theorems apply *)
Lemma handover_drains_safe n s i x :
  hreachable hrepaired n s -> nth_error (insts s) i = Some x -> finished (i_sd x) = true ->
  all_done (i_sd x) = true /\ forallb (fun l => negb (l_bound l)) (ls (i_sd x)) = true.
Proof.
  intros Hr Hx Hf. apply hinv_reachable in Hr. destruct (hi_wf _ _ Hr _ _ Hx) as [W1 W2 W3 W4 W5 W6 W7 W8 W9].
  split; [apply finished_after_all|apply finished_listeners_closed]; auto.
Qed.

Lemma handover_no_hang n s i x :
  hreachable hrepaired n s -> nth_error (insts s) i = Some x -> i_recv x = true -> hquiescent hrepaired s ->
  completed (i_sd x) = true.
Proof.
  intros Hr Hx Hrecv Hq. apply hinv_reachable in Hr. pose proof (hi_wf _ _ Hr _ _ Hx) as Hw.
  pose proof Hw as [W1 W2 W3 W4 W5 W6 W7 W8 W9].
  assert (Hrun : i_pc x = PRunning) by (apply W8, W7; rewrite Hrecv; apply orb_true_r).
  (* every step of the embedded machine is a step of the whole system *)
  assert (Hq' : quiescent repaired (i_sd x)).
  { intros lb Hlb. specialize (Hq (HSd i lb) Hlb). cbn [hstep] in Hq. rewrite Hx in Hq. unfold step_sd in Hq.
    destruct (step repaired (i_sd x) lb) as [sd'|] eqn:Es; auto. exfalso.
    assert (Hg : sd_gate x lb = true).
    { destruct lb; cbn [sd_gate]; auto; cbn [step] in Es;
        match type of Es with context [nth_error (ls _) ?j] => destruct (nth_error (ls (i_sd x)) j) eqn:El; try discriminate end;
        apply W5; rewrite Hrun; cbn; apply Nat.ltb_lt; apply nth_error_lt in El; lia. }
    rewrite Hg in Hq. destruct (removes_path x lb); discriminate. }
  apply no_hang; auto.
  (* requested: the caller has left SNew, else its first step would be enabled *)
  unfold requested. destruct (gS (i_sd x)) eqn:ES; auto. exfalso.
  destruct (unreq_reachable _ W4 ES) as (_ & Hc & _).
  destruct (callers (i_sd x)) as [|p r] eqn:Ec; [discriminate W3|].
  cbn in Hc. apply andb_true_iff in Hc as (Hp & _). destruct p; try discriminate.
  specialize (Hq (HSd i (SStep 0)) eq_refl). cbn [hstep] in Hq. rewrite Hx in Hq. unfold step_sd in Hq.
  cbn [sd_gate] in Hq. rewrite Hrecv in Hq. cbn [step] in Hq. rewrite Ec in Hq. cbn in Hq.
  destruct (removes_path x (SStep 0)); discriminate.
Qed.

(** who answers at the control-socket path: the newest instance, or its predecessor while the newest is still
    starting (its [execute] has not returned) *)
Lemma ctl_successor_only n s i :
  hreachable hrepaired n s -> serves s i = true ->
  S i = length (insts s) \/
  (S (S i) = length (insts s) /\ exists y, nth_error (insts s) (S i) = Some y /\ i_pc y <> PRunning).
Proof.
  intros Hr Hs. apply hinv_reachable in Hr. unfold serves in Hs.
  destruct (path s) as [k|] eqn:Hp; try discriminate. destruct (nth_error (insts s) i) as [x|] eqn:Hx; try discriminate.
  apply andb_true_iff in Hs as (Hk & _). apply Nat.eqb_eq in Hk. subst k.
  destruct (hi_path _ _ Hr _ Hp) as [H|(H & y & Hy & Hc)]; [left; exact H|right].
  split; auto. exists y. split; auto. intros Hrun. apply (wf_run _ _ (hi_wf _ _ Hr _ _ Hy)) in Hrun. contradiction.
Qed.

(** ** kvarn 0.6.3 as found: the accept task binds, the start-up program goes on to the handover message *)
Lemma hreachable_run v n s sched s' : hreachable v n s -> hrun v s sched = Some s' -> hreachable v n s'.
Proof.
  revert s; induction sched as [|lb r IH]; intros s Hr H; cbn [hrun] in H.
  - inversion H; subst; exact Hr.
  - destruct (hstep v s lb) as [s1|] eqn:E; try discriminate. apply (IH s1); [eapply hreach_step; eauto|exact H].
Qed.

Definition sched_unbound : list hlabel :=
  [HStart; HMain 1; HMain 1; HRecv 0; HSd 0 (SStep 0); HSd 0 (SStep 0); HSd 0 (SStep 0); HSd 0 (SStep 0);
   HSd 0 (LStep 0); HSd 0 (LStep 0); HSd 0 (LStep 0); HSd 0 (LStep 0)].

Lemma always_bound_today_refuted :
  exists s, hreachable htoday 1 s /\ port_served s 0 = false /\
            exists x y, nth_error (insts s) 0 = Some x /\ closed x 0 /\ nth_error (insts s) 1 = Some y /\ nth 0 (i_bnd y) false = false.
Proof.
  destruct (hrun htoday (hinit 1) sched_unbound) as [s|] eqn:E; [|vm_compute in E; discriminate].
  exists s. split; [eapply hreachable_run; [apply hreach_init|exact E]|].
  vm_compute in E. inversion E; subst s; clear E. split; [reflexivity|].
  do 2 eexists. split; [reflexivity|]. split; [eexists; split; reflexivity|]. split; reflexivity.
Qed.

(** ** All clauses together, for a chain of any length *)
Lemma chain n s :
  hreachable hrepaired n s ->
  (forall j, j < n -> port_served s j = true) /\
  (forall i x, nth_error (insts s) i = Some x ->
     (forall j, closed x j -> exists y, nth_error (insts s) (S i) = Some y /\ all_bnd n y) /\
     (finished (i_sd x) = true -> all_done (i_sd x) = true /\ forallb (fun l => negb (l_bound l)) (ls (i_sd x)) = true) /\
     (i_recv x = true -> hquiescent hrepaired s -> completed (i_sd x) = true)) /\
  (forall i, serves s i = true ->
     S i = length (insts s) \/
     (S (S i) = length (insts s) /\ exists y, nth_error (insts s) (S i) = Some y /\ i_pc y <> PRunning)).
Proof.
  intros Hr. split; [|split].
  - intros j Hj. eapply always_bound; eauto.
  - intros i x Hx. split; [|split].
    + intros j Hc. eapply successor_binds_first; eauto.
    + intros Hf. eapply handover_drains_safe; eauto.
    + intros Hrecv Hq. eapply handover_no_hang; eauto.
  - intros i Hs. eapply ctl_successor_only; eauto.
Qed.
