(** Decimal rendering and Rust's integer parser are inverse: [parse_uint max (dec n) = Some n]. *)
From KV Require Import Bytes RustInt Range RangeProofs.
From Coq Require Import ZifyBool ZifyNat ZifyN.
Open Scope N_scope.
Arguments N.add : simpl never. Arguments N.sub : simpl never. Arguments N.mul : simpl never.
Arguments N.div : simpl never. Arguments N.modulo : simpl never. Arguments N.pow : simpl never.
Arguments N.eqb : simpl never. Arguments N.ltb : simpl never. Arguments N.leb : simpl never.
Arguments N.of_nat : simpl never.

Lemma digits_value_app a0 s t : digits_value a0 (s ++ t) = digits_value (digits_value a0 s) t.
Proof. revert a0; induction s as [|c s IH]; intros a0; cbn [app digits_value]; [reflexivity | apply IH]. Qed.

Lemma all_digits_app s t : all_digits (s ++ t) = all_digits s && all_digits t.
Proof. unfold all_digits. apply forallb_app'. Qed.

Lemma dec_fuel_spec f : forall n acc,
  (0 < f)%nat -> n < 2 ^ N.of_nat f ->
  exists ds, dec_fuel f n acc = ds ++ acc /\ ds <> [] /\ all_digits ds = true /\
             forall a0, digits_value a0 ds = a0 * 10 ^ N.of_nat (length ds) + n.
Proof.
  induction f as [|f IH]; intros n acc Hf Hn; [lia|].
  cbn [dec_fuel].
  assert (Hmod : n mod 10 < 10) by (apply N.mod_lt; lia).
  assert (Hdiv : n = 10 * (n / 10) + n mod 10) by (apply N.div_mod; lia).
  destruct (N.eqb_spec (n / 10) 0) as [Hq|Hq].
  - exists [48 + n mod 10]. split; [reflexivity|]. split; [discriminate|]. split.
    + unfold all_digits, is_digit. cbn [forallb]. lia.
    + intros a0. cbn [digits_value length]. change (N.of_nat 1) with 1. rewrite N.pow_1_r. lia.
  - assert (Hpow : 2 ^ N.of_nat (S f) = 2 * 2 ^ N.of_nat f).
    { rewrite Nat2N.inj_succ, N.pow_succ_r'. reflexivity. }
    assert (Hq2 : n / 10 < 2 ^ N.of_nat f).
    { apply N.div_lt_upper_bound; lia. }
    assert (Hf' : (0 < f)%nat).
    { destruct f; [|lia]. change (2 ^ N.of_nat 0) with 1 in Hq2. lia. }
    destruct (IH (n / 10) ((48 + n mod 10) :: acc) Hf' Hq2) as (ds' & E & Hne & Hd & Hv).
    exists (ds' ++ [48 + n mod 10]). split; [rewrite E, <- app_assoc; reflexivity|].
    split; [destruct ds'; discriminate|]. split.
    + rewrite all_digits_app, Hd. unfold all_digits, is_digit. cbn [forallb]. lia.
    + intros a0. rewrite digits_value_app, Hv. cbn [digits_value].
      rewrite app_length. cbn [length]. rewrite Nat.add_1_r, Nat2N.inj_succ, N.pow_succ_r'. lia.
Qed.

Lemma dec_spec n :
  exists ds, dec n = ds /\ ds <> [] /\ all_digits ds = true /\ digits_value 0 ds = n.
Proof.
  unfold dec.
  assert (Hn : n < 2 ^ N.of_nat (S (N.to_nat (N.log2 n)))).
  { rewrite Nat2N.inj_succ, N2Nat.id. destruct n as [|p]; [reflexivity|]. apply N.log2_spec. lia. }
  destruct (dec_fuel_spec _ n [] (Nat.lt_0_succ _) Hn) as (ds & E & Hne & Hd & Hv).
  exists ds. rewrite E, app_nil_r. repeat split; try assumption. rewrite Hv. lia.
Qed.

Lemma parse_uint_dec max n : n <= max -> parse_uint max (dec n) = Some n.
Proof.
  intros Hle. destruct (dec_spec n) as (ds & E & Hne & Hd & Hv). rewrite E.
  unfold parse_uint. destruct ds as [|c r]; [congruence|].
  assert (Hc : is_digit c = true).
  { unfold all_digits in Hd. cbn [forallb] in Hd. apply andb_true_iff in Hd as [? _]. assumption. }
  rewrite (is_digit_not_plus _ Hc). rewrite (parse_digits_complete max 0 (c :: r) Hd); [congruence | lia].
Qed.

Lemma parse_u64_dec n : n <= u64_max -> parse_u64 (dec n) = Some n.
Proof. apply parse_uint_dec. Qed.
Lemma parse_u32_dec n : n <= u32_max -> parse_u32 (dec n) = Some n.
Proof. apply parse_uint_dec. Qed.

(** non-vacuity of C09's syntax: the canonical header of any two u64 values denotes them *)
Lemma range_header_roundtrip a c :
  a <= u64_max -> c <= u64_max -> parse_range (B "bytes=" ++ dec a ++ [c_dash] ++ dec c) = Some (a, c).
Proof.
  intros Ha Hc. apply parse_range_complete. exists (dec a), (dec c). split; [reflexivity|].
  split; apply parse_u64_number; apply parse_u64_dec; assumption.
Qed.
