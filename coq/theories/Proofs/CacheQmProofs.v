(** C03 — a query-dependent (QueryMatters) response is never held by an entry keyed by the path alone: the lookup of a
    request falls back from its PathQuery key to its Path key, so such an entry is served whatever the query is
    (seeded change C03-10: [handle_vary_missing] admitting the QueryMatters response of a query-less request to a
    path-keyed item).  A corollary of the invariant [TInv] of Proofs/CacheXProofs.v, stated over all histories. *)
From Coq Require Import List Bool.
From KV Require Import Bytes RustInt Range CacheControl Cache CacheProofs Fixture CacheX CacheXProofs CacheXWitness.
Import ListNotations.
Open Scope N_scope.

Section QM.
  Variable hstate : Type.
  Variable compute : hstate -> request -> option (bytes * option bytes) -> bool -> fatx * hstate * list bytes.
  Variable ims_on : bool.
  Variable fix_clear : bool.
  Variable sfilter : N -> bool.
  Variable parse_ims : bytes -> option Z.
  Variable sanitize_ok : request -> bool.
  Variable prime : request -> request.
  Variable override : request -> option (bytes * option bytes).
  Variable negotiate : request -> fatx -> option (N * bytes).
  Variable vary_tuple : request -> option (bytes * option bytes) -> tuple.
  Variable vary_header : request -> option (bytes * option bytes) -> fatx -> list (bytes * bytes).
  Variable clear_alias : request -> option request.
  Variable cf : request -> option (bytes * option bytes) -> bool -> fatx.
  Hypothesis Hpure : forall hs r ov ok, fst (fst (compute hs r ov ok)) = cf r ov ok.
  Hypothesis contract : forall r ov r' ov',
    get_or_head (rq_method r) = true -> get_or_head (rq_method r') = true ->
    vary_tuple r ov = vary_tuple r' ov' -> rq_path (lookup_req r ov) = rq_path (lookup_req r' ov') ->
    (qmx (cf r ov true) = true -> path_query (lookup_req r ov) = path_query (lookup_req r' ov')) ->
    cf r ov true = cf r' ov' true.
  Hypothesis Herr : forall r ov, f_spref (fx_fat (cf r ov false)) = SP_NONE.

  Notation runC_state := (runX_state hstate compute true ims_on true true fix_clear true true true sfilter parse_ims sanitize_ok prime
                                     override negotiate vary_tuple vary_header clear_alias).

  Lemma stored_variant_key_ok ops st now k e v :
    TInv vary_tuple cf (fst st) -> Forall (op_no_imsx ims_on prime) ops ->
    xc_find k (fst (fst (runC_state st now ops))) = Some e -> In v (ex_vars e) ->
    exists r ov, get_or_head (rq_method r) = true /\ vary_tuple r ov = v_tuple v /\ v_resp v = cf r ov true /\
      match k with
      | KPath p => rq_path (lookup_req r ov) = p /\ qmx (v_resp v) = false
      | KPathQuery s i => path_query (lookup_req r ov) = (s, i)
      end.
  Proof.
    intros I Hops F Hin.
    pose proof (run_tinv hstate compute ims_on fix_clear sfilter parse_ims sanitize_ok prime override negotiate vary_tuple
                  vary_header clear_alias cf Hpure contract Herr ops st now I Hops) as I'.
    destruct (I' k e F) as [_ Hv]. destruct (Hv v Hin) as (r & ov & G & T & R & K).
    exists r, ov. repeat split; try assumption.
  Qed.

  Lemma qm_never_under_path_key ops hs now p e v :
    Forall (op_no_imsx ims_on prime) ops ->
    xc_find (KPath p) (fst (fst (runC_state ([], hs) now ops))) = Some e -> In v (ex_vars e) ->
    qmx (v_resp v) = false.
  Proof.
    intros Hops F Hin.
    destruct (stored_variant_key_ok ops ([], hs) now (KPath p) e v (TInv_nil vary_tuple cf) Hops F Hin) as (r & ov & _ & _ & _ & K).
    cbn in K. exact (proj2 K).
  Qed.
End QM.

(** non-vacuity on the fixture (the page of seeded change C03-10: variant a Full and static, variant b QueryMatters and an
    echo of path?query): Full variant; QueryMatters variant WITHOUT query; the same with a query; without again.  The
    path-keyed entry holds the Full variant only, every QueryMatters request is recomputed. *)
Definition w6r_cx : configx := mkCfgX (cx_base w6_cx) (cx_xhandlers w6_cx) 0 None true true true true true true.
Definition w6q_req (q : option bytes) (v : bytes) : request := mkReq M_GET (B "/v") q [(B "x-v", v)] 1.
Definition w6q_ops : list opx :=
  [XReq (w6q_req None (B "a")); XReq (w6q_req None (B "b")); XReq (w6q_req (Some (B "id=7")) (B "b")); XReq (w6q_req None (B "b"))].
Lemma qm_queryless_variant_ex_w :
  bodies (run_cfgx true w6r_cx w6q_ops) = [B "static-a"; B "b:/v"; B "b:/v?id=7"; B "b:/v"] /\
  bodies (run_cfgx false w6r_cx w6q_ops) = [B "static-a"; B "b:/v"; B "b:/v?id=7"; B "b:/v"] /\
  map (fun '(k, e) => (k, map (fun v => (v_tuple v, qmx (v_resp v))) (ex_vars e))) (fst (fst (run_cfgx_state true w6r_cx w6q_ops)))
  = [(KPath (B "/v"), [([B "a"], false)])].
Proof. repeat split; vm_compute; reflexivity. Qed.

(** the same history on the model WITHOUT the key-kind guard of [handle_vary_missing] ([cx_fix_qmkey] off: the code before
    its repair).  The seeded change C03-10 ("a QueryMatters response may join a path-keyed item when its request has no
    query") admits exactly the variants this history pushes — both pushing requests are query-less —, so on this history it
    behaves as the unguarded model: the QueryMatters variant sits in the path-keyed entry and is served for /v?id=7. *)
Lemma qm_queryless_variant_refuted_w :
  bodies (run_cfgx true w6_cx w6q_ops) = [B "static-a"; B "b:/v"; B "b:/v"; B "b:/v"] /\
  bodies (run_cfgx false w6_cx w6q_ops) = [B "static-a"; B "b:/v"; B "b:/v?id=7"; B "b:/v"] /\
  map (fun '(k, e) => (k, map (fun v => (v_tuple v, qmx (v_resp v))) (ex_vars e))) (fst (fst (run_cfgx_state true w6_cx w6q_ops)))
  = [(KPath (B "/v"), [([B "b"], true); ([B "a"], false)])].
Proof. repeat split; vm_compute; reflexivity. Qed.
