(** C01 — proofs about the request pipeline model (Model/PathSanServe.v): one request through
    [serve_st] (file cache threaded) and through [serve] (no file cache). *)
From Coq Require Import ZifyBool ZifyNat ZifyN.
From KV Require Import Bytes PathSan PathSanProofs PathSanServe.
Open Scope N_scope.
Arguments N.add : simpl never.
Arguments N.sub : simpl never.
Arguments N.mul : simpl never.
Arguments N.eqb : simpl never.
Arguments N.ltb : simpl never.
Arguments N.leb : simpl never.

Definition benign_host (h : host_cfg) : Prop :=
  benign_suffix (h_ext_default h) /\ benign_suffix (h_folder_default h).

Lemma primed_safe h p :
  benign_host h -> unsafe_b (percent_decode p) = false ->
  unsafe_b (percent_decode (primed_path h p)) = false.
Proof.
  intros [Be Bf] U. unfold primed_path, uri_redirect.
  destruct (h_redirect h); [|exact U].
  destruct (ends_with_byte c_dot p) eqn:E1.
  { apply append_safe; [exact U|left; exact E1|exact Be]. }
  destruct (ends_with_byte c_slash p) eqn:E2; [|exact U].
  apply append_safe; [exact U|right; exact E2|exact Bf].
Qed.

Lemma sanitize_ok_safe p u : sanitize_path p = Ok u -> unsafe_b (percent_decode p) = false.
Proof. rewrite sanitize_path_spec. destruct (unsafe_b (percent_decode p)); [discriminate|reflexivity]. Qed.

(** ------------------------------------------------------------------ *)
(** * The file cache *)

(** every entry of the file cache is what the operating system returns for that path string now
    (the files do not change while the server runs) *)
Definition fc_coherent (rd : bytes -> option bytes) (fc : fcache) : Prop :=
  forall k e, fc_get k fc = Some e -> e = rd k.

Lemma fc_coherent_nil rd : fc_coherent rd [].
Proof. intros k e H. discriminate. Qed.

Lemma fc_coherent_cons rd fc k : fc_coherent rd fc -> fc_coherent rd ((k, rd k) :: fc).
Proof.
  intros H k' e. cbn [fc_get]. destruct (beq k k') eqn:E.
  - apply beq_eq in E. subst k'. intros X. inversion X. reflexivity.
  - apply H.
Qed.

Lemma read_file_coherent rd on fc path :
  fc_coherent rd fc -> fst (read_file rd on fc path) = rd path.
Proof.
  intros H. unfold read_file. destruct on; [|reflexivity].
  destruct (fc_get path fc) as [e|] eqn:E; [|reflexivity]. cbn [fst]. exact (H _ _ E).
Qed.

Lemma read_file_os rd on fc path f : In f (snd (read_file rd on fc path)) -> f = path.
Proof.
  unfold read_file. destruct (if on then fc_get path fc else None); cbn [snd In]; [contradiction|].
  intros [H|[]]. symmetry. exact H.
Qed.

Lemma read_file_cached_spec rd on fc path :
  fc_coherent rd fc ->
  let '(r, fc', os) := read_file_cached rd on fc path in
  r = rd path /\ fc_coherent rd fc' /\ (forall f, In f os -> f = path) /\
  (forall k, k <> path -> fc_get k fc' = fc_get k fc).
Proof.
  intros H. unfold read_file_cached.
  destruct (if on then fc_get path fc else None) as [e|] eqn:E.
  - destruct on; [|discriminate]. split; [exact (H _ _ E)|]. split; [exact H|]. split; [intros f []|reflexivity].
  - split; [reflexivity|]. split; [|split].
    + destruct on; [apply fc_coherent_cons|]; exact H.
    + intros f [X|[]]. symmetry. exact X.
    + intros k Hk. destruct on; [|reflexivity]. cbn [fc_get]. destruct (beq path k) eqn:B; [|reflexivity].
      apply beq_eq in B. congruence.
Qed.

(** [error::default] under a coherent file cache *)
Lemma error_default_spec h rd on fc status :
  fc_coherent rd fc ->
  let '(e, ev, fc', os) := error_default h rd on fc status in
  e = (if h_fs h then rd (error_path h status) else None) /\
  ev = (if h_fs h then [EErrorPage status; EErrRead (error_path h status)] else [EErrorPage status]) /\
  fc_coherent rd fc' /\ (forall f, In f os -> h_fs h = true /\ f = error_path h status) /\
  (forall k, k <> error_path h status -> fc_get k fc' = fc_get k fc).
Proof.
  intros H. unfold error_default. destruct (h_fs h).
  - pose proof (read_file_cached_spec rd on fc (error_path h status) H) as S.
    destruct (read_file_cached rd on fc (error_path h status)) as [[r fc'] os].
    destruct S as (S1 & S2 & S3 & S4). repeat split; auto.
  - split; [reflexivity|]. split; [reflexivity|]. split; [exact H|]. split; [intros f0 []|reflexivity].
Qed.

(** ------------------------------------------------------------------ *)
(** * The pipeline *)

Definition silent (ev : list event) : Prop := forallb (fun e => negb (is_prepare_or_read e)) ev = true.

(** the paths of the read events of a trace *)
Definition read_paths (ev : list event) : list bytes :=
  flat_map (fun e => match e with EFsRead f => [f] | EErrRead f => [f] | _ => [] end) ev.

Lemma serve_st_unsafe h rd on fc m ov cached p :
  sanitize_path p = Err E_UNSAFE ->
  serve_st h rd on fc m ov cached p = err_reply h rd on fc E_UNSAFE ev0 [].
Proof. intros U. unfold serve_st. rewrite U. destruct cached, m; reflexivity. Qed.

Lemma serve_st_fresh h rd on fc m ov p u :
  sanitize_path p = Ok u ->
  serve_st h rd on fc m ov None p = serve_fresh h rd on fc m ov p.
Proof. intros U. unfold serve_st. rewrite U. destruct m; reflexivity. Qed.

(** An unsafe request: 400, never from the response cache, no Prepare extension, the path built from
    the request is never read; the only path handed to the operating system is the operator's page
    for status 400, and the file cache changes at most under that path. *)
Lemma unsafe_is_400_and_silent_st_lemma h rd on fc m ov cached p :
  unsafe (percent_decode p) ->
  let '(r, ev, fc', os) := serve_st h rd on fc m ov cached p in
  r_status r = 400 /\ r_body r = None /\ r_from_cache r = false /\ silent ev /\
  Forall (fun f => f = error_path h 400) os /\
  (forall k, k <> error_path h 400 -> fc_get k fc' = fc_get k fc).
Proof.
  intros U. apply unsafe_is_rejected_lemma in U. rewrite (serve_st_unsafe _ _ _ _ _ _ _ _ U).
  unfold err_reply, error_default. destruct (h_fs h).
  - unfold read_file_cached.
    destruct (if on then fc_get (error_path h E_UNSAFE) fc else None) as [e|] eqn:E.
    + repeat split; auto. constructor.
    + repeat split; auto.
      * constructor; [reflexivity|constructor].
      * intros k Hk. destruct on; [|reflexivity]. cbn [fc_get].
        destruct (beq (error_path h E_UNSAFE) k) eqn:B; [|reflexivity]. apply beq_eq in B.
        unfold E_UNSAFE in B. congruence.
  - repeat split; auto. constructor.
Qed.

Lemma unsafe_is_400_and_silent_lemma h fs m ov cached p :
  unsafe (percent_decode p) ->
  let '(r, ev) := serve h fs m ov cached p in
  r_status r = 400 /\ r_body r = None /\ r_from_cache r = false /\ silent ev.
Proof.
  intros U. unfold serve.
  pose proof (unsafe_is_400_and_silent_st_lemma h fs false [] m ov cached p U) as H.
  destruct (serve_st h fs false [] m ov cached p) as [[[r ev] fc'] os].
  destruct H as (H1 & H2 & H3 & H4 & _). auto.
Qed.

(** ** The file cache is transparent.  [agrees rd a b]: the outcome [a] (with some file cache) has the
    reply and the trace of the outcome [b] (without), leaves a coherent file cache, and hands to the
    operating system only paths that occur in the read events of its trace. *)
Definition agrees (rd : bytes -> option bytes) (a b : outcome_t) : Prop :=
  let '(r, ev, fc', os) := a in
  let '(r0, ev0, _, _) := b in
  r = r0 /\ ev = ev0 /\ fc_coherent rd fc' /\ incl os (read_paths ev).

Lemma read_paths_app a b : read_paths (a ++ b) = read_paths a ++ read_paths b.
Proof. unfold read_paths. apply flat_map_app. Qed.

Lemma err_reply_agrees h rd on fc status ev os os0 :
  fc_coherent rd fc -> incl os (read_paths ev) ->
  agrees rd (err_reply h rd on fc status ev os) (err_reply h rd false [] status ev os0).
Proof.
  intros C Hos. unfold err_reply.
  pose proof (error_default_spec h rd on fc status C) as S1.
  pose proof (error_default_spec h rd false [] status (fc_coherent_nil rd)) as S2.
  destruct (error_default h rd on fc status) as [[[e1 ev1] fc1] os1].
  destruct (error_default h rd false [] status) as [[[e2 ev2] fc2] os2].
  destruct S1 as (A1 & A2 & A3 & A4 & _). destruct S2 as (B1 & B2 & _).
  subst e1 ev1 e2 ev2. cbn [agrees]. repeat split; [exact A3|].
  rewrite read_paths_app. apply incl_app; [apply incl_appl; exact Hos|].
  apply incl_appr. intros f Hf. destruct (A4 _ Hf) as [E1 E]. subst f. rewrite E1.
  left. reflexivity.
Qed.

Lemma serve_file_agrees h rd on fc m ev1 f :
  fc_coherent rd fc -> read_paths ev1 = [] ->
  agrees rd (serve_file h rd on fc m ev1 f) (serve_file h rd false [] m ev1 f).
Proof.
  intros C E1. unfold serve_file.
  assert (Hread :
    agrees rd
      (let '(c, os) := read_file rd on fc f in
       match c with
       | Some c => ({| r_status := 200; r_body := Some c; r_err := None; r_from_cache := false |}, ev1 ++ [EFsRead f], fc, os)
       | None => err_reply h rd on fc 404 (ev1 ++ [EFsRead f]) os
       end)
      (let '(c, os) := read_file rd false [] f in
       match c with
       | Some c => ({| r_status := 200; r_body := Some c; r_err := None; r_from_cache := false |}, ev1 ++ [EFsRead f], [], os)
       | None => err_reply h rd false [] 404 (ev1 ++ [EFsRead f]) os
       end)).
  { pose proof (read_file_coherent rd on fc f C) as R1.
    pose proof (read_file_os rd on fc f) as R2.
    destruct (read_file rd on fc f) as [c os] eqn:RF. cbn [fst snd] in R1, R2. subst c.
    unfold read_file at 1. cbn [fc_get].
    assert (Hos : incl os (read_paths (ev1 ++ [EFsRead f]))).
    { intros x Hx. apply R2 in Hx. subst x. rewrite read_paths_app. apply in_or_app. right. left. reflexivity. }
    destruct (rd f) as [c|].
    - cbn [agrees]. repeat split; [exact C|exact Hos].
    - apply err_reply_agrees; assumption. }
  destruct m; [exact Hread|exact Hread|].
  apply err_reply_agrees; [exact C|intros x []].
Qed.

Lemma serve_fresh_agrees h rd on fc m ov p :
  fc_coherent rd fc ->
  agrees rd (serve_fresh h rd on fc m ov p) (serve_fresh h rd false [] m ov p).
Proof.
  intros C. unfold serve_fresh.
  destruct (if h_fs h then request_fs_path (h_path h) (h_public h) (primed_path h p) else Ok None) as [path|e|].
  2,3: (cbn [agrees]; repeat split; [exact C|intros x []]).
  destruct (existsb _ (h_prepare_single h)).
  { cbn [agrees]. repeat split; [exact C|intros x []]. }
  destruct path as [f|].
  - apply serve_file_agrees; [exact C|reflexivity].
  - apply err_reply_agrees; [exact C|intros x []].
Qed.

Lemma serve_st_agrees h rd on fc m ov cached p :
  fc_coherent rd fc ->
  agrees rd (serve_st h rd on fc m ov cached p) (serve_st h rd false [] m ov cached p).
Proof.
  intros C. unfold serve_st.
  assert (Hit : forall cr : reply, agrees rd
            ({| r_status := r_status cr; r_body := r_body cr; r_err := r_err cr; r_from_cache := true |}, ev0, fc, [])
            ({| r_status := r_status cr; r_body := r_body cr; r_err := r_err cr; r_from_cache := true |}, ev0, [], [])).
  { intros cr. cbn [agrees]. repeat split; [exact C|intros x []]. }
  assert (Hu : agrees rd (err_reply h rd on fc E_UNSAFE ev0 []) (err_reply h rd false [] E_UNSAFE ev0 [])).
  { apply err_reply_agrees; [exact C|intros x []]. }
  pose proof (serve_fresh_agrees h rd on fc m ov p C) as Hf.
  destruct (sanitize_path p) as [u|e|]; destruct cached as [cr|], m; auto.
Qed.

Lemma fcache_transparent_lemma h rd on fc m ov cached p :
  fc_coherent rd fc ->
  let '(r, ev, fc', os) := serve_st h rd on fc m ov cached p in
  (r, ev) = serve h rd m ov cached p /\ fc_coherent rd fc' /\ incl os (read_paths ev).
Proof.
  intros C. pose proof (serve_st_agrees h rd on fc m ov cached p C) as A. unfold serve.
  destruct (serve_st h rd on fc m ov cached p) as [[[r ev] fc'] os].
  destruct (serve_st h rd false [] m ov cached p) as [[[r0 ev1] fc0] os0].
  cbn [agrees] in A. destruct A as (A1 & A2 & A3 & A4). subst. auto.
Qed.

(** ** Every error-page read goes to [error_path h (r_status r)]: a function of the host and of the
    status code in which the request does not occur. *)
Definition err_reads_ok (h : host_cfg) (o : outcome_t) : Prop :=
  let '(r, ev, _, _) := o in forall path, In (EErrRead path) ev -> path = error_path h (r_status r).

Lemma err_reply_reads h rd on fc status ev os :
  (forall path, ~ In (EErrRead path) ev) -> err_reads_ok h (err_reply h rd on fc status ev os).
Proof.
  intros Hn. unfold err_reply, error_default. destruct (h_fs h).
  - destruct (read_file_cached rd on fc (error_path h status)) as [[r fc'] os'].
    intros path Hp. apply in_app_or in Hp. destruct Hp as [Hp|Hp]; [exfalso; exact (Hn _ Hp)|].
    destruct Hp as [Hp|[Hp|[]]]; [discriminate|]. inversion Hp. reflexivity.
  - intros path Hp. apply in_app_or in Hp. destruct Hp as [Hp|Hp]; [exfalso; exact (Hn _ Hp)|].
    destruct Hp as [Hp|[]]. discriminate.
Qed.

Lemma error_page_path_lemma h rd on fc m ov cached p :
  err_reads_ok h (serve_st h rd on fc m ov cached p).
Proof.
  assert (N0 : forall path, ~ In (EErrRead path) ev0).
  { intros path [X|[X|[]]]; discriminate. }
  assert (Hu : err_reads_ok h (err_reply h rd on fc E_UNSAFE ev0 [])) by (apply err_reply_reads; exact N0).
  assert (Hf : err_reads_ok h (serve_fresh h rd on fc m ov p)).
  { unfold serve_fresh.
    set (key := match ov with Some k => k | None => primed_path h p end).
    assert (N1 : forall path, ~ In (EErrRead path) (ev0 ++ [EPrepareSingle key; EPrepareFn])).
    { intros path X. cbn in X. repeat (destruct X as [X|X]; try discriminate). exact X. }
    destruct (if h_fs h then request_fs_path (h_path h) (h_public h) (primed_path h p) else Ok None) as [path|e|].
    2,3: (intros path X; exfalso; exact (N0 _ X)).
    destruct (existsb _ (h_prepare_single h)).
    { intros path0 X. cbn in X. repeat (destruct X as [X|X]; try discriminate). contradiction. }
    destruct path as [f|]; [|apply err_reply_reads; exact N1].
    unfold serve_file.
    assert (N2 : forall path, ~ In (EErrRead path) ((ev0 ++ [EPrepareSingle key; EPrepareFn]) ++ [EFsRead f])).
    { intros path X. cbn in X. repeat (destruct X as [X|X]; try discriminate). exact X. }
    destruct m; [| |apply err_reply_reads; exact N1].
    all: destruct (read_file rd on fc f) as [[c|] os]; [intros path X; exfalso; exact (N2 _ X)|apply err_reply_reads; exact N2]. }
  unfold serve_st.
  destruct (sanitize_path p) as [u|e|]; destruct cached as [cr|], m; auto; intros path X; exfalso; exact (N0 _ X).
Qed.

(** ------------------------------------------------------------------ *)
(** * [serve] (no file cache) in closed form *)
Definition err_pure (h : host_cfg) (fs : bytes -> option bytes) (status : N) (ev : list event) : reply * list event :=
  (gen_reply status (if h_fs h then fs (error_path h status) else None),
   ev ++ (if h_fs h then [EErrorPage status; EErrRead (error_path h status)] else [EErrorPage status])).

Lemma serve_unfold h fs m ov cached p :
  serve h fs m ov cached p =
  let key := match ov with Some k => k | None => primed_path h p end in
  let ev1 := ev0 ++ [EPrepareSingle key; EPrepareFn] in
  match cached, sanitize_path p, m with
  | Some r, Ok _, MGet | Some r, Ok _, MHead =>
      ({| r_status := r_status r; r_body := r_body r; r_err := r_err r; r_from_cache := true |}, ev0)
  | _, _, _ =>
      match sanitize_path p with
      | Ok _ =>
          match (if h_fs h then request_fs_path (h_path h) (h_public h) (primed_path h p) else Ok None) with
          | Panic => (failed_reply, ev0)
          | Err _ => (failed_reply, ev0)
          | Ok path =>
              if existsb (beq key) (h_prepare_single h) then (gen_reply 200 None, ev0 ++ [EPrepareSingle key; EPrepareRun key])
              else
                match path with
                | None => err_pure h fs 404 ev1
                | Some f =>
                    match m with
                    | MOther => err_pure h fs 405 ev1
                    | _ =>
                        match fs f with
                        | Some c => ({| r_status := 200; r_body := Some c; r_err := None; r_from_cache := false |}, ev1 ++ [EFsRead f])
                        | None => err_pure h fs 404 (ev1 ++ [EFsRead f])
                        end
                    end
                end
          end
      | _ => err_pure h fs E_UNSAFE ev0
      end
  end.
Proof.
  unfold serve, serve_st, serve_fresh, serve_file, err_reply, err_pure, error_default, read_file_cached, read_file. cbn [fc_get].
  destruct (sanitize_path p) as [u|e|]; [|destruct cached, m; destruct (h_fs h); reflexivity..].
  destruct (if h_fs h then request_fs_path (h_path h) (h_public h) (primed_path h p) else Ok None) as [path|e|].
  2,3: (destruct cached, m; reflexivity).
  destruct (existsb _ (h_prepare_single h)); [destruct cached, m; reflexivity|].
  destruct path as [f|].
  - destruct (fs f); destruct cached, m; destruct (h_fs h); reflexivity.
  - destruct cached, m; destruct (h_fs h); reflexivity.
Qed.

(** Whatever the configuration (benign default suffixes), the method, the Prime override and
    the Prepare table: a file content in the reply comes from inside the public directory. *)
Lemma served_file_inside_lemma h root cwd P m ov p r ev c :
  benign_host h -> wf_pos root -> wf_pos cwd ->
  resolve_path root cwd (h_path h ++ [c_slash] ++ h_public h) = Some P ->
  serve h (read_path root cwd) m ov None p = (r, ev) ->
  r_body r = Some c ->
  exists names, names <> [] /\ Forall (fun s => proper_name s = true) names /\
                descend (fst P) names = Some (File c).
Proof.
  intros Bh Wr Wc RP. rewrite serve_unfold. cbn zeta. unfold err_pure.
  destruct (sanitize_path p) as [u| |] eqn:S.
  2,3: (intros H; inversion H; subst; cbn [r_body gen_reply]; discriminate).
  apply sanitize_ok_safe in S. apply (primed_safe h p Bh) in S.
  destruct (h_fs h).
  2: { destruct (existsb _ (h_prepare_single h)); intros H; inversion H; subst; cbn [r_body gen_reply]; discriminate. }
  destruct (request_fs_path (h_path h) (h_public h) (primed_path h p)) as [path| |] eqn:F.
  2,3: (intros H; inversion H; subst; cbn [r_body failed_reply gen_reply]; discriminate).
  destruct (existsb _ (h_prepare_single h)).
  { intros H; inversion H; subst; cbn [r_body gen_reply]; discriminate. }
  destruct path as [f|]; [|intros H; inversion H; subst; cbn [r_body gen_reply]; discriminate].
  assert (G : forall c', read_path root cwd f = Some c' -> c' = c ->
              exists names, names <> [] /\ Forall (fun s => proper_name s = true) names /\
                            descend (fst P) names = Some (File c)).
  { intros c' R ->. exact (served_content_safe (primed_path h p) (h_path h) (h_public h) f root cwd P c S F Wr Wc RP R). }
  destruct m.
  3: (intros H; inversion H; subst; cbn [r_body gen_reply]; discriminate).
  all: destruct (read_path root cwd f) as [c'|] eqn:R;
    intros H; inversion H; subst; cbn [r_body gen_reply]; intros Hb; try discriminate;
    inversion Hb; subst; eapply G; reflexivity.
Qed.

(** An error-page content in a computed reply is what the operating system returns for
    [error_path h (r_status r)]. *)
Lemma err_content_lemma h fs m ov p r ev c :
  serve h fs m ov None p = (r, ev) -> r_err r = Some c -> fs (error_path h (r_status r)) = Some c.
Proof.
  rewrite serve_unfold. cbn zeta. unfold err_pure.
  assert (E : forall (st : N) (eva : list event) (r0 : reply) (evb : list event),
             (gen_reply st (if h_fs h then fs (error_path h st) else None), eva) = (r0, evb) ->
             r_err r0 = Some c -> fs (error_path h (r_status r0)) = Some c).
  { intros st eva r0 evb H. inversion H; subst. cbn [r_err r_status gen_reply]. destruct (h_fs h); [auto|discriminate]. }
  destruct (sanitize_path p) as [u| |]; [|apply E..].
  destruct (if h_fs h then request_fs_path (h_path h) (h_public h) (primed_path h p) else Ok None) as [path| |].
  2,3: (intros H; inversion H; subst; cbn [r_err failed_reply gen_reply]; discriminate).
  destruct (existsb _ (h_prepare_single h)).
  { intros H; inversion H; subst; cbn [r_err gen_reply]; discriminate. }
  destruct path as [f|]; [|apply E].
  destruct m; [| |apply E].
  all: destruct (fs f); [intros H; inversion H; subst; cbn [r_err]; discriminate|apply E].
Qed.

(** Without a Prime override, no Prepare key contains "./": the internal routes are
    consulted only when a Prime extension produced them. *)
Lemma prepare_key_lemma h fs m cached p r ev key :
  benign_host h ->
  serve h fs m None cached p = (r, ev) ->
  In (EPrepareSingle key) ev \/ In (EPrepareRun key) ev ->
  key = primed_path h p /\ ~ has_dot_slash key.
Proof.
  intros Bh. rewrite serve_unfold. cbn zeta. unfold err_pure.
  destruct (sanitize_path p) as [u| |] eqn:S.
  2,3: (destruct cached, m; destruct (h_fs h); intros H; inversion H; subst; cbn [app In];
        intros [K|K]; repeat (destruct K as [K|K]; try discriminate); contradiction).
  apply sanitize_ok_safe in S. apply (primed_safe h p Bh) in S.
  assert (N : ~ has_dot_slash (primed_path h p)).
  { rewrite <- has_dot_slash_iff. intros H. apply pd_keeps_dot_slash in H.
    unfold unsafe_b in S. apply orb_false_iff in S as [S _]. congruence. }
  assert (Fin : forall l, (In (EPrepareSingle key) l \/ In (EPrepareRun key) l) ->
          (forall e, In e l -> e = EPrepareSingle (primed_path h p) \/ e = EPrepareRun (primed_path h p) \/
                                 (forall k, e <> EPrepareSingle k /\ e <> EPrepareRun k)) ->
          key = primed_path h p /\ ~ has_dot_slash key).
  { intros l [K|K] A; destruct (A _ K) as [E|[E|E]]; try (inversion E; subst; auto; fail);
      try discriminate; exfalso; destruct (E key) as [E1 E2]; congruence. }
  destruct (if h_fs h then request_fs_path (h_path h) (h_public h) (primed_path h p) else Ok None) as [path| |];
  destruct cached as [cr|], m; try destruct (existsb _ (h_prepare_single h)); try destruct path as [f|];
  try destruct (fs f); destruct (h_fs h);
  intros H; inversion H; subst; intros K; apply (Fin _ K); cbn [app In]; intros ee Ie;
  repeat (destruct Ie as [Ie|Ie]; [subst ee; auto; right; right; intros k; split; discriminate|]); contradiction.
Qed.

(** ------------------------------------------------------------------ *)
(** * The objects the operating system opens *)
Lemma cwalk_app root a : forall st b,
  cwalk root st (a ++ b) = match cwalk root st a with Some st' => cwalk root st' b | None => None end.
Proof.
  induction a as [|s a IH]; intros st b; cbn [app cwalk]; [reflexivity|].
  destruct (descend root (rev st)) as [n|]; [|reflexivity].
  destruct (negb (is_dir n)); [reflexivity|].
  destruct (is_empty s || is_dot s); [apply IH|].
  destruct (is_dotdot s); [apply IH|].
  destruct (child n s); [apply IH|reflexivity].
Qed.

Lemma cwalk_plain root pre : forall st st',
  Forall plain_seg pre -> cwalk root st pre = Some st' -> st' = rev (names_of pre) ++ st.
Proof.
  induction pre as [|s pre IH]; intros st st' H; cbn [cwalk names_of filter].
  - intros E. inversion E. reflexivity.
  - inversion H as [|s0 pre0 Hs Hp]; subst.
    destruct (descend root (rev st)) as [n|]; [|discriminate].
    destruct (negb (is_dir n)); [discriminate|].
    destruct Hs as [->|Hs].
    + cbn [is_empty orb negb]. apply IH. exact Hp.
    + destruct (proper_name_flags s Hs) as (E1 & E2 & E3). rewrite E1, E2, E3. cbn [orb negb].
      destruct (child n s); [|discriminate]. intros E. apply IH in E; [|exact Hp].
      subst st'. cbn [rev]. fold (names_of pre). rewrite <- app_assoc. reflexivity.
Qed.

Lemma descend_snoc root l x n :
  descend root (l ++ [x]) = Some n -> exists m, descend root l = Some m /\ child m x = Some n.
Proof.
  revert root. induction l as [|a l IH]; intros root; cbn [app descend].
  - destruct (child root x) as [c|] eqn:E; [|discriminate]. intros H. inversion H; subst. exists root. auto.
  - destruct (child root a) as [c|]; [|discriminate]. apply IH.
Qed.

Lemma child_is_dir m x n : child m x = Some n -> is_dir m = true.
Proof. destruct m; [discriminate|reflexivity]. Qed.

(** the object a safe request path names: a directory, or something strictly below the public directory *)
Lemma opened_safe_inside tree host public t stP names isdir :
  unsafe_b (c_slash :: t) = false ->
  cwalk tree [] (segments (host ++ [c_slash] ++ public)) = Some stP ->
  opened tree (make_path host public t None) = Some (names, isdir) ->
  isdir = true \/
  exists rel, rel <> [] /\ Forall (fun s => proper_name s = true) rel /\ names = rev stP ++ rel.
Proof.
  intros U HP. unfold opened, make_path.
  replace (host ++ [c_slash] ++ public ++ [c_slash] ++ t) with ((host ++ [c_slash] ++ public) ++ [c_slash] ++ t)
    by (rewrite <- !app_assoc; reflexivity).
  rewrite segments_join, cwalk_app, HP.
  destruct (safe_shape _ U) as (t0 & pre & last_ & E & _ & Es & Hp). inversion E; subst t0.
  rewrite Es, cwalk_app.
  destruct (cwalk tree stP pre) as [st1|] eqn:C1; [|discriminate].
  apply cwalk_plain in C1; [|exact Hp]. subst st1.
  set (st1 := rev (names_of pre) ++ stP).
  cbn [cwalk].
  destruct (descend tree (rev st1)) as [n|] eqn:D1; [|discriminate].
  destruct (negb (is_dir n)) eqn:Dn; [discriminate|]. apply negb_false_iff in Dn.
  destruct (is_empty last_ || is_dot last_) eqn:Eed.
  { rewrite D1. intros H. inversion H; subst. left. exact Dn. }
  destruct (is_dotdot last_) eqn:Edd.
  { destruct st1 as [|x st1'] eqn:Est; cbn [tl].
    - cbn [rev] in *. rewrite D1. intros H. inversion H; subst. left. exact Dn.
    - cbn [rev] in D1. apply descend_snoc in D1. destruct D1 as (m & Dm & Cm).
      rewrite Dm. intros H. inversion H; subst. left. exact (child_is_dir _ _ _ Cm). }
  destruct (child n last_) as [c|] eqn:Cl; [|discriminate].
  cbn [rev]. 
  destruct (descend tree (rev st1 ++ [last_])) as [o|]; [|discriminate].
  intros H. inversion H; subst. right.
  exists (names_of pre ++ [last_]). split; [destruct (names_of pre); discriminate|]. split.
  - apply Forall_app. split; [apply names_of_plain; exact Hp|].
    constructor; [|constructor]. unfold proper_name. rewrite Eed, Edd. reflexivity.
  - unfold st1. rewrite rev_app_distr, rev_involutive, <- app_assoc. reflexivity.
Qed.

(** every path handed to the operating system is the operator's error page for the status of the reply or
    the file path built for the (accepted, Prime-expanded) request path *)
Definition os_ok (h : host_cfg) (p : bytes) (o : outcome_t) : Prop :=
  let '(r, _, _, os) := o in
  forall f, In f os ->
    f = error_path h (r_status r) \/
    ((exists u, sanitize_path p = Ok u) /\ request_fs_path (h_path h) (h_public h) (primed_path h p) = Ok (Some f)).

Lemma error_default_os h rd on fc st :
  let '(_, _, _, os) := error_default h rd on fc st in forall f, In f os -> f = error_path h st.
Proof.
  unfold error_default. destruct (h_fs h); [|intros f []].
  unfold read_file_cached. destruct (if on then fc_get (error_path h st) fc else None); [intros f []|].
  intros f [H|[]]. symmetry. exact H.
Qed.

Lemma err_reply_os h rd on fc st ev os p :
  (forall f, In f os ->
     (exists u, sanitize_path p = Ok u) /\ request_fs_path (h_path h) (h_public h) (primed_path h p) = Ok (Some f)) ->
  os_ok h p (err_reply h rd on fc st ev os).
Proof.
  intros H. unfold err_reply. pose proof (error_default_os h rd on fc st) as E.
  destruct (error_default h rd on fc st) as [[[e ev'] fc'] os']. cbn [os_ok r_status gen_reply].
  intros f Hf. apply in_app_or in Hf. destruct Hf as [Hf|Hf]; [right; exact (H _ Hf)|left; exact (E _ Hf)].
Qed.

Lemma serve_st_os h rd on fc m ov cached p : os_ok h p (serve_st h rd on fc m ov cached p).
Proof.
  unfold serve_st.
  destruct (sanitize_path p) as [u|e|] eqn:S.
  2,3: (destruct cached, m; apply err_reply_os; intros f0' []).
  assert (F : os_ok h p (serve_fresh h rd on fc m ov p)).
  { unfold serve_fresh.
    destruct (h_fs h) eqn:Hfs.
    2: { destruct (existsb _ (h_prepare_single h)); [intros f []|]. apply err_reply_os. intros f0' []. }
    destruct (request_fs_path (h_path h) (h_public h) (primed_path h p)) as [path|e|] eqn:R; try (intros f []).
    destruct (existsb _ (h_prepare_single h)); [intros f []|].
    destruct path as [f0|]; [|apply err_reply_os; intros f0' []].
    unfold serve_file.
    assert (Hr : os_ok h p
              (let '(c, os) := read_file rd on fc f0 in
               match c with
               | Some c => ({| r_status := 200; r_body := Some c; r_err := None; r_from_cache := false |},
                            (ev0 ++ [EPrepareSingle (match ov with Some k => k | None => primed_path h p end); EPrepareFn]) ++ [EFsRead f0], fc, os)
               | None => err_reply h rd on fc 404 ((ev0 ++ [EPrepareSingle (match ov with Some k => k | None => primed_path h p end); EPrepareFn]) ++ [EFsRead f0]) os
               end)).
    { pose proof (read_file_os rd on fc f0) as O.
      destruct (read_file rd on fc f0) as [[c|] os]; cbn [snd] in O.
      - intros f Hf. right. apply O in Hf. subst f. split; [exists u; exact S|exact R].
      - apply err_reply_os. intros f Hf. apply O in Hf. subst f. split; [exists u; exact S|exact R]. }
    destruct m; [exact Hr|exact Hr|apply err_reply_os; intros f0' []]. }
  destruct cached as [cr|], m; try exact F; intros f [].
Qed.

(** ** What the operating system is asked to open.  For a host with benign options, over any tree [tree] in
    which the public directory is the object [rev stP]: every object opened while a request is handled (in any
    file-cache and response-cache state) is the operator's error page for the status of the reply, a directory
    (no content), or an object strictly below the public directory. *)
Lemma opened_objects_confined_lemma h rd tree on fc m ov cached p r ev fc' os f stP names isdir :
  benign_host h ->
  serve_st h rd on fc m ov cached p = (r, ev, fc', os) -> In f os ->
  cwalk tree [] (segments (h_path h ++ [c_slash] ++ h_public h)) = Some stP ->
  opened tree f = Some (names, isdir) ->
  f = error_path h (r_status r) \/ isdir = true \/
  exists rel, rel <> [] /\ Forall (fun s => proper_name s = true) rel /\ names = rev stP ++ rel.
Proof.
  intros Bh S Hf HP Ho. pose proof (serve_st_os h rd on fc m ov cached p) as O. rewrite S in O.
  destruct (O f Hf) as [E|[[u Su] R]]; [left; exact E|right].
  apply sanitize_ok_safe in Su. apply (primed_safe h p Bh) in Su.
  unfold request_fs_path in R.
  destruct (decoded_for_use (primed_path h p)) as [d|] eqn:D; [|discriminate].
  apply decoded_for_use_some in D. destruct D as [D _]. subst d.
  destruct (percent_decode (primed_path h p)) as [|c t] eqn:Ed; [discriminate|].
  cbn [parse_uri] in R. destruct (c =? c_slash) eqn:Ec; [|discriminate].
  apply N.eqb_eq in Ec. subst c. inversion R; subst f.
  exact (opened_safe_inside tree (h_path h) (h_public h) t stP names isdir Su HP Ho).
Qed.

(** ------------------------------------------------------------------ *)
(** * The two descriptions of path resolution agree: [resolve] (zipper; used for the CONTENT a path yields) and
      [cwalk] (names from the root; used for the OBJECT a path opens) *)

(** the zipper of the object [st] (names from the root, innermost first): the node and its ancestors, nearest first *)
Fixpoint zipper (root : node) (st : list bytes) : option pos :=
  match st with
  | [] => Some (root, [])
  | x :: st' =>
      match zipper root st' with
      | Some (n, ups) => match child n x with Some c => Some (c, n :: ups) | None => None end
      | None => None
      end
  end.

Lemma descend_app_some root a b n : descend root a = Some n -> descend root (a ++ b) = descend n b.
Proof.
  revert root. induction a as [|x a IH]; intros root; cbn [descend app].
  - intros H. inversion H. reflexivity.
  - destruct (child root x); [apply IH|discriminate].
Qed.

Lemma zipper_descend root st n ups : zipper root st = Some (n, ups) -> descend root (rev st) = Some n.
Proof.
  revert n ups. induction st as [|x st IH]; intros n ups; cbn [zipper rev].
  - intros H. inversion H. reflexivity.
  - destruct (zipper root st) as [[m ups']|]; [|discriminate].
    destruct (child m x) as [c|] eqn:C; [|discriminate]. intros H. inversion H; subst.
    rewrite (descend_app_some root (rev st) [x] m (IH m ups' eq_refl)). cbn [descend]. rewrite C. reflexivity.
Qed.

Lemma descend_zipper root st n : descend root (rev st) = Some n -> exists ups, zipper root st = Some (n, ups).
Proof.
  revert n. induction st as [|x st IH]; intros n; cbn [zipper rev].
  - cbn [descend]. intros H. inversion H. exists []. reflexivity.
  - intros H. destruct (descend root (rev st)) as [m|] eqn:D.
    + rewrite (descend_app_some root (rev st) [x] m D) in H. cbn [descend] in H.
      destruct (IH m eq_refl) as [ups Z]. rewrite Z.
      destruct (child m x) as [c|]; [|discriminate]. inversion H; subst. exists (m :: ups). reflexivity.
    + exfalso. clear IH. revert H D. generalize (rev st). intros l. revert root.
      induction l as [|a l IHl]; intros root; cbn [descend app]; [discriminate|].
      destruct (child root a); [apply IHl|discriminate].
Qed.

Lemma cwalk_resolve root segs : forall st st' p,
  zipper root st = Some p -> cwalk root st segs = Some st' ->
  exists p', resolve p segs = Some p' /\ zipper root st' = Some p'.
Proof.
  induction segs as [|s segs IH]; intros st st' p Z; cbn [cwalk resolve].
  - intros H. inversion H; subst. exists p. auto.
  - destruct p as [n ups]. rewrite (zipper_descend root st n ups Z).
    unfold step. destruct (negb (is_dir n)); [discriminate|].
    destruct (is_empty s || is_dot s); [apply IH; exact Z|].
    destruct (is_dotdot s).
    + destruct st as [|x st0]; cbn [tl].
      * cbn [zipper] in Z. inversion Z; subst. apply IH. reflexivity.
      * cbn [zipper] in Z. destruct (zipper root st0) as [[m ups0]|] eqn:Z0; [|discriminate].
        destruct (child m x); [|discriminate]. inversion Z; subst. apply IH. exact Z0.
    + destruct (child n s) as [c|] eqn:C; [|discriminate].
      apply IH. cbn [zipper]. rewrite Z, C. reflexivity.
Qed.

(** a content read through [read_path] from the root is the content of the (regular) file [opened] names *)
Lemma read_is_opened tree f c :
  starts_with [c_slash] f = true ->
  read_path (tree, []) (tree, []) f = Some c ->
  forall names isdir, opened tree f = Some (names, isdir) -> isdir = false /\ descend tree names = Some (File c).
Proof.
  intros Hs R names isdir O. unfold read_path, resolve_path in R. rewrite Hs in R.
  unfold opened in O.
  destruct (cwalk tree [] (segments f)) as [st|] eqn:Cw; [|discriminate].
  destruct (cwalk_resolve tree (segments f) [] st (tree, []) eq_refl Cw) as (p' & Rp & Zp).
  rewrite Rp in R. destruct p' as [n ups]. cbn [content_at] in R.
  destruct n as [c'|ch]; [|discriminate]. inversion R; subst c'.
  rewrite (zipper_descend tree st (File c) ups Zp) in O. inversion O; subst. split; [reflexivity|].
  exact (zipper_descend tree st (File c) ups Zp).
Qed.
