(** C20 — proofs about Model/Protocols.v *)
From KV Require Import Bytes RustInt Range RangeProofs CacheControl Cache CacheProofs Protocols.
From Coq Require Import ZifyBool ZifyNat ZifyN.
Open Scope N_scope.
Arguments N.add : simpl never. Arguments N.sub : simpl never. Arguments N.mul : simpl never.
Arguments N.eqb : simpl never. Arguments N.ltb : simpl never. Arguments N.leb : simpl never.
Arguments N.of_nat : simpl never. Arguments N.to_nat : simpl never.

(** ---- header maps and [strip] ---- *)
Lemma filter_comm {A} (f g : A -> bool) l : filter f (filter g l) = filter g (filter f l).
Proof.
  induction l as [|x l IH]; [reflexivity|]. cbn [filter].
  destruct (g x) eqn:G, (f x) eqn:F; cbn [filter]; rewrite ?G, ?F, IH; reflexivity.
Qed.

Lemma filter_idem_imp {A} (f g : A -> bool) l :
  (forall x, g x = true -> f x = true) -> filter f (filter g l) = filter g l.
Proof.
  intros H. induction l as [|x l IH]; [reflexivity|]. cbn [filter].
  destruct (g x) eqn:G; [|exact IH]. cbn [filter]. rewrite (H x G), IH. reflexivity.
Qed.

Lemma strip_app a c : strip (a ++ c) = strip a ++ strip c.
Proof. apply filter_app. Qed.

Lemma strip_remove n h : strip (hm_remove n h) = hm_remove n (strip h).
Proof. unfold strip, hm_remove. apply filter_comm. Qed.

Lemma hop_beq n k : beq n k = true -> hop k = hop n.
Proof. intros H. apply beq_eq in H. subst. reflexivity. Qed.

Lemma remove_hop_strip n h : hop n = true -> hm_remove n (strip h) = strip h.
Proof.
  intros Hn. unfold hm_remove, strip. apply filter_idem_imp.
  intros [k v] Hk. cbn [fst] in *. destruct (beq n k) eqn:E; [|reflexivity].
  rewrite (hop_beq _ _ E), Hn in Hk. discriminate.
Qed.

Lemma strip_insert_hop n v h : hop n = true -> strip (hm_insert n v h) = strip h.
Proof.
  intros Hn. unfold hm_insert. rewrite strip_app, strip_remove, remove_hop_strip by exact Hn.
  unfold strip at 2. cbn [filter fst]. rewrite Hn. cbn [negb]. apply app_nil_r.
Qed.

Lemma strip_append_hop n v h : hop n = true -> strip (hm_append n v h) = strip h.
Proof.
  intros Hn. unfold hm_append. rewrite strip_app. unfold strip at 2. cbn [filter fst].
  rewrite Hn. cbn [negb]. apply app_nil_r.
Qed.

Lemma strip_insert_cong n v h h' : strip h = strip h' -> strip (hm_insert n v h) = strip (hm_insert n v h').
Proof.
  intros H. unfold hm_insert. rewrite !strip_app, !strip_remove, H. reflexivity.
Qed.

Lemma strip_idem h : strip (strip h) = strip h.
Proof. unfold strip. apply filter_idem_imp. auto. Qed.

(** [assoc] after [hm_remove] *)
Lemma assoc_remove n m h : assoc n (hm_remove m h) = if beq m n then None else assoc n h.
Proof.
  induction h as [|[k v] h IH]; cbn [hm_remove filter fst assoc].
  - destruct (beq m n); reflexivity.
  - fold (hm_remove m h). destruct (beq m k) eqn:Emk; cbn [negb].
    + rewrite IH. destruct (beq m n) eqn:Emn; [reflexivity|].
      destruct (beq n k) eqn:Enk; [|reflexivity].
      apply beq_eq in Emk. apply beq_eq in Enk. subst. rewrite beq_refl in Emn. discriminate.
    + cbn [assoc]. destruct (beq n k) eqn:Enk.
      * destruct (beq m n) eqn:Emn; [|reflexivity].
        apply beq_eq in Emn. apply beq_eq in Enk. subst. rewrite beq_refl in Emk. discriminate.
      * exact IH.
Qed.

Lemma strip_remove_hop n h : hop n = true -> strip (hm_remove n h) = strip h.
Proof. intros Hn. rewrite strip_remove. apply remove_hop_strip, Hn. Qed.

Lemma strip_h2_strip h : strip (h2_strip h) = strip h.
Proof.
  unfold h2_strip.
  set (h1 := hm_remove H_UPGRADE (hm_remove H_TENC (hm_remove H_PROXYC (hm_remove H_KA (hm_remove H_CONN h))))).
  assert (E : strip h1 = strip h).
  { unfold h1. rewrite !strip_remove_hop by reflexivity. reflexivity. }
  destruct (assoc H_TE h1) as [v|]; [|exact E].
  destruct (beq v V_TRAILERS); [exact E|]. rewrite strip_remove_hop by reflexivity. exact E.
Qed.

(** after [h2_strip] the h2 crate never refuses the head *)
Lemma h2_strip_accepted h : h2_refuses (h2_strip h) = false.
Proof.
  unfold h2_strip.
  set (h1 := hm_remove H_UPGRADE (hm_remove H_TENC (hm_remove H_PROXYC (hm_remove H_KA (hm_remove H_CONN h))))).
  assert (A : forall n, (beq H_UPGRADE n || beq H_TENC n || beq H_PROXYC n || beq H_KA n || beq H_CONN n) = true ->
                        assoc n h1 = None).
  { intros n Hn. unfold h1. rewrite !assoc_remove.
    destruct (beq H_UPGRADE n); [reflexivity|]. destruct (beq H_TENC n); [reflexivity|].
    destruct (beq H_PROXYC n); [reflexivity|]. destruct (beq H_KA n); [reflexivity|].
    destruct (beq H_CONN n); [reflexivity|]. discriminate. }
  assert (R : forall h', (forall n, (beq H_UPGRADE n || beq H_TENC n || beq H_PROXYC n || beq H_KA n || beq H_CONN n) = true ->
                                    assoc n h' = None) ->
                         match assoc H_TE h' with Some v => negb (beq v V_TRAILERS) | None => false end = false ->
                         h2_refuses h' = false).
  { intros h' A' T. unfold h2_refuses, hm_has.
    rewrite (A' H_CONN), (A' H_TENC), (A' H_UPGRADE), (A' H_KA), (A' H_PROXYC) by reflexivity. exact T. }
  destruct (assoc H_TE h1) as [v|] eqn:T.
  - destruct (beq v V_TRAILERS) eqn:Ev.
    + apply R; [exact A|]. rewrite T, Ev. reflexivity.
    + apply R.
      * intros n Hn. rewrite assoc_remove. destruct (beq H_TE n); [reflexivity | exact (A n Hn)].
      * rewrite assoc_remove, beq_refl. reflexivity.
  - apply R; [exact A|]. rewrite T. reflexivity.
Qed.

Lemma hop_CL : hop H_CL = true. Proof. reflexivity. Qed.
Lemma hop_CONN : hop H_CONN = true. Proof. reflexivity. Qed.
Lemma hop_ALT : hop H_ALT = true. Proof. reflexivity. Qed.

Lemma strip_ensure_length p len h : strip (ensure_length p len h) = strip h.
Proof.
  destruct p; cbn [ensure_length].
  - rewrite strip_remove_hop by reflexivity. apply strip_insert_hop, hop_CL.
  - destruct (hm_has H_CL h); [apply strip_insert_hop, hop_CL | reflexivity].
Qed.

Lemma strip_h1_connection st h : strip (h1_connection st h) = strip h.
Proof.
  unfold h1_connection. destruct (h1_close_delimited st h); [apply strip_insert_hop, hop_CONN|].
  destruct (assoc H_CONN h) as [v|].
  - destruct (to_str_ok v && negb (beq v V_CLOSE)); [reflexivity | apply strip_insert_hop, hop_CONN].
  - apply strip_insert_hop, hop_CONN.
Qed.

(** ---- responses that agree on everything but connection-level headers ---- *)
Definition resp_eqv (a c : resp) : Prop :=
  rs_version a = rs_version c /\ rs_status a = rs_status c /\
  strip (rs_headers a) = strip (rs_headers c) /\ rs_body a = rs_body c.

Lemma resp_eqv_refl a : resp_eqv a a.
Proof. repeat split. Qed.

Lemma add_alt_svc_eqv s s' alt r : resp_eqv (add_alt_svc s alt r) (add_alt_svc s' alt r).
Proof.
  unfold add_alt_svc. destruct alt as [v|]; [|apply resp_eqv_refl].
  destruct s, s'; repeat split; cbn [rs_headers];
    rewrite ?strip_append_hop by apply hop_ALT; reflexivity.
Qed.

Lemma head_only_eqv a c : resp_eqv a c -> resp_eqv (head_only a) (head_only c).
Proof.
  intros (Hv & Hs & Hh & Hb). unfold head_only. rewrite Hs.
  destruct (ends_with_head (rs_status c)); repeat split; assumption.
Qed.

Definition oresp_eqv (a c : outcome resp) : Prop :=
  match a, c with
  | Ok x, Ok y => resp_eqv x y
  | Err e, Err e' => e = e'
  | Panic, Panic => True
  | _, _ => False
  end.

Lemma apply_sd_eqv checked error_page vn sd a c :
  resp_eqv a c -> oresp_eqv (apply_sd checked error_page vn sd a) (apply_sd checked error_page vn sd c).
Proof.
  intros (Hv & Hs & Hh & Hb). unfold apply_sd.
  destruct sd as [range|e|]; cbn [oresp_eqv]; [| repeat split; assumption | exact I].
  rewrite Hs, Hb.
  destruct (rs_status c =? 304); [cbn [oresp_eqv]; repeat split; assumption|].
  destruct (apply_range checked range (rs_status c) (rs_body c)) as [g|e|]; cbn [oresp_eqv];
    [| apply resp_eqv_refl | exact I].
  repeat split; cbn [rs_version rs_status rs_headers rs_body]; try assumption.
  assert (H1 : strip (if r_accept_ranges g then hm_insert H_AR V_BYTES (rs_headers a) else rs_headers a)
             = strip (if r_accept_ranges g then hm_insert H_AR V_BYTES (rs_headers c) else rs_headers c)).
  { destruct (r_accept_ranges g); [apply strip_insert_cong|]; exact Hh. }
  destruct (r_content_range g) as [v|]; [apply strip_insert_cong|]; exact H1.
Qed.

(** ---- protocol parity of [send] ---- *)
Section Parity.
  Variable checked : bool.
  Variable error_page : N -> resp.
  Variable vn : list bytes.
  Variable pkg : N -> headers -> headers.
  Hypothesis Hpkg : pkg_oblivious pkg.

  Notation sendX := (send checked error_page vn pkg).

  Lemma send_parity secure1 alt m sd r :
    onorm (sendX H1 secure1 alt m sd r) = onorm (sendX H2 true alt m sd r).
  Proof.
    unfold send.
    pose proof (apply_sd_eqv checked error_page vn sd _ _ (head_only_eqv _ _ (add_alt_svc_eqv secure1 true alt r))) as E.
    destruct (apply_sd checked error_page vn sd (head_only (add_alt_svc secure1 alt r))) as [a|e|];
      destruct (apply_sd checked error_page vn sd (head_only (add_alt_svc true alt r))) as [c|e'|];
      cbn [oresp_eqv] in E; try contradiction; cbn [obind onorm]; [| subst; reflexivity | reflexivity].
    destruct E as (Hv & Hs & Hh & Hb).
    rewrite Hb in *. rewrite Hs in *.
    rewrite h2_strip_accepted.
    cbn [onorm normalise rs_status rs_headers rs_body]. f_equal. f_equal. f_equal.
    rewrite strip_h1_connection, strip_h2_strip. apply Hpkg.
    rewrite !strip_ensure_length. exact Hh.
  Qed.

  (** the repaired HTTP/2 arm always gets its head past the h2 crate *)
  Lemma send_never_refused p secure alt m sd r : sendX p secure alt m sd r <> Ok WRefused.
  Proof.
    unfold send. destruct (apply_sd checked error_page vn sd (head_only (add_alt_svc secure alt r))) as [a|e|]; cbn [obind];
      try discriminate.
    destruct p; [discriminate|]. rewrite h2_strip_accepted. discriminate.
  Qed.

  (** HEAD: the GET answer without the body, on either protocol *)
  Lemma sends_body_head body : sends_body M_HEAD body = false.
  Proof.
    unfold sends_body, method_has_response_body, M_HEAD, M_GET, M_POST, M_OPTIONS.
    destruct (N.of_nat (length body) =? 0); reflexivity.
  Qed.

  Lemma send_head p secure alt sd r :
    sendX p secure alt M_HEAD sd r = odrop (sendX p secure alt M_GET sd r).
  Proof.
    unfold send. destruct (apply_sd checked error_page vn sd (head_only (add_alt_svc secure alt r))) as [a|e|];
      cbn [obind odrop]; try reflexivity.
    rewrite sends_body_head.
    destruct p; [reflexivity|].
    destruct (h2_refuses _); reflexivity.
  Qed.

  Lemma odrop_refused o : odrop o = Ok WRefused -> o = Ok WRefused.
  Proof. destruct o as [[r|r| |]|e|]; cbn; intros H; try discriminate; reflexivity. Qed.

  Lemma onorm_odrop o : onorm (odrop o) = odrop (onorm o).
  Proof. destruct o as [[r|r| |]|e|]; reflexivity. Qed.

  (** [send] hands the client a well-framed message (its [content-length] is [ensure_length]'s) *)
  Lemma send_not_broken p secure alt m sd r : sendX p secure alt m sd r <> Ok WBroken.
  Proof.
    unfold send. destruct (apply_sd checked error_page vn sd (head_only (add_alt_svc secure alt r))) as [a|e|]; cbn [obind];
      try discriminate.
    destruct p; [discriminate|]. destruct (h2_refuses _); discriminate.
  Qed.

  Lemma send_not_closed p secure alt m sd r x : sendX p secure alt m sd r <> Ok (WClosed x).
  Proof.
    unfold send. destruct (apply_sd checked error_page vn sd (head_only (add_alt_svc secure alt r))) as [a|e|]; cbn [obind];
      try discriminate.
    destruct p; [discriminate|]. destruct (h2_refuses _); discriminate.
  Qed.

  Lemma head_parity_lemma secure1 alt sd r :
    onorm (sendX H1 secure1 alt M_HEAD sd r) = odrop (onorm (sendX H2 true alt M_GET sd r)) /\
    onorm (sendX H2 true alt M_HEAD sd r) = odrop (onorm (sendX H2 true alt M_GET sd r)).
  Proof.
    rewrite !send_head, !onorm_odrop. split; [|reflexivity].
    rewrite (send_parity secure1 alt M_GET sd r). reflexivity.
  Qed.

  (** the h2 crate sends the head whenever neither the handler's response nor a Package extension carries a
      connection-specific header *)
  Definition conn_specific (n : bytes) : bool :=
    beq n H_CONN || beq n H_TENC || beq n H_UPGRADE || beq n H_KA || beq n H_PROXYC || beq n H_TE.
  Definition conn_free (h : headers) : Prop := forall n, conn_specific n = true -> assoc n h = None.

  Lemma h2_accepts h : conn_free h -> h2_refuses h = false.
  Proof.
    intros H. unfold h2_refuses, hm_has.
    rewrite (H H_CONN), (H H_TENC), (H H_UPGRADE), (H H_KA), (H H_PROXYC), (H H_TE) by reflexivity.
    reflexivity.
  Qed.
End Parity.

(** the package menu is oblivious whenever none of its extensions names a connection-level header *)
Lemma assoc_strip n h : hop n = false -> assoc n (strip h) = assoc n h.
Proof.
  intros Hn. induction h as [|[k v] h IH]; [reflexivity|]. unfold strip in *. cbn [filter fst assoc].
  destruct (hop k) eqn:Hk; cbn [negb].
  - rewrite IH. destruct (beq n k) eqn:E; [|reflexivity].
    rewrite (hop_beq _ _ E), Hn in Hk. discriminate.
  - cbn [assoc]. destruct (beq n k); [reflexivity | exact IH].
Qed.

Lemma strip_or_insert_cong n v h h' :
  hop n = false -> strip h = strip h' -> strip (hm_or_insert n v h) = strip (hm_or_insert n v h').
Proof.
  intros Hn H. unfold hm_or_insert, hm_has.
  rewrite <- (assoc_strip n h Hn), <- (assoc_strip n h' Hn), H.
  destruct (assoc n (strip h')); [exact H|]. rewrite !strip_app, H. reflexivity.
Qed.

Lemma run_pkg_op_cong o h h' :
  hop (pkg_op_name o) = false -> strip h = strip h' -> strip (run_pkg_op o h) = strip (run_pkg_op o h').
Proof.
  intros Hn H. destruct o as [n v|n v|n|n v]; cbn [run_pkg_op pkg_op_name] in *.
  - apply strip_insert_cong, H.
  - apply strip_or_insert_cong; assumption.
  - rewrite !strip_remove, H. reflexivity.
  - unfold hm_append. rewrite !strip_app, H. reflexivity.
Qed.

Lemma pkg_menu_oblivious ops :
  Forall (fun o => hop (pkg_op_name o) = false) ops -> pkg_oblivious (pkg_menu ops).
Proof.
  intros Hops v v' h h'. unfold pkg_menu. clear v v'. revert h h'.
  induction Hops as [|o ops Ho _ IH]; intros h h' H; cbn [fold_left]; [exact H|].
  apply IH. apply run_pkg_op_cong; assumption.
Qed.

(** ---- every host configuration, every cache state ---- *)
Section AnswerParity.
  Variable hstate : Type.
  Variable compute : hstate -> request -> bool -> fat * hstate * list bytes.
  Variable cache_on ims_on : bool.
  Variable parse_ims : bytes -> option Z.
  Variable sanitize_ok : request -> bool.
  Variable prime : request -> request.
  Variable negotiate : request -> fat -> option (N * bytes).
  Variable vary_tuple : request -> tuple.
  Variable vary_header : request -> fat -> list (bytes * bytes).
  Variable checked : bool.
  Variable error_page : N -> resp.
  Variable vary_rules : request -> list bytes.
  Variable pkg : N -> headers -> headers.
  Variable alt : option bytes.
  Variable sanitize : request -> outcome (option (N * N)).
  Variable encode : request -> N -> headers -> bytes -> headers * bytes.
  Variable hversion : N.
  Hypothesis Hpkg : pkg_oblivious pkg.

  Notation answerX := (answer hstate compute cache_on ims_on parse_ims sanitize_ok prime negotiate vary_tuple
                              vary_header checked error_page vary_rules pkg alt sanitize encode hversion).

  Lemma answer_parity secure1 st now r0 :
    onorm (answerX H1 secure1 st now r0) = onorm (answerX H2 true st now r0).
  Proof.
    unfold answer.
    destruct (serve hstate compute cache_on ims_on parse_ims sanitize_ok prime negotiate vary_tuple vary_header st now r0)
      as [[st' rp] lg].
    apply send_parity. exact Hpkg.
  Qed.
End AnswerParity.

(** ---- concurrent streams: exactly one answer per stream (no handler contract needed) ---- *)
Section Once.
  Variable hstate : Type.
  Variable compute : hstate -> request -> bool -> fat * hstate * list bytes.
  Variable ims_on : bool.
  Variable parse_ims : bytes -> option Z.
  Variable sanitize_ok : request -> bool.
  Variable prime : request -> request.
  Variable negotiate : request -> fat -> option (N * bytes).
  Variable vary_tuple : request -> tuple.
  Variable vary_header : request -> fat -> list (bytes * bytes).
  Notation startX := (start true ims_on parse_ims sanitize_ok prime negotiate vary_tuple vary_header).
  Notation completeX := (complete hstate compute true ims_on negotiate vary_tuple vary_header).
  Notation stepX := (stream_step hstate compute true ims_on parse_ims sanitize_ok prime negotiate vary_tuple vary_header).
  Notation runX := (run_streams hstate compute true ims_on parse_ims sanitize_ok prime negotiate vary_tuple vary_header).

  (** ---- at most one answer per stream ---- *)
  Lemma s_get_set_same sid ph ss q : s_get sid ss = Some q -> s_get sid (s_set sid ph ss) = Some ph.
  Proof.
    induction ss as [|[i q0] ss IH]; cbn [s_get s_set]; [discriminate|].
    destruct (i =? sid) eqn:E; cbn [s_get]; rewrite E; [reflexivity | exact IH].
  Qed.
  Lemma s_get_set_other sid sid' ph ss : sid' <> sid -> s_get sid' (s_set sid ph ss) = s_get sid' ss.
  Proof.
    intros Hne. induction ss as [|[i q0] ss IH]; cbn [s_get s_set]; [reflexivity|].
    destruct (i =? sid) eqn:E; cbn [s_get].
    - destruct (i =? sid') eqn:E'; [lia | reflexivity].
    - destruct (i =? sid'); [reflexivity | exact IH].
  Qed.

  Lemma step_done_stays cn now sid cn' out s :
    stepX cn now sid = (cn', out) -> s_get s (snd cn) = Some PhDone ->
    s_get s (snd cn') = Some PhDone /\ (forall r0 rp, out <> Some (s, r0, rp)).
  Proof.
    destruct cn as [[c hs] ss]. unfold stream_step. cbn [snd]. intros H D.
    destruct (N.eq_dec s sid) as [->|Hne].
    - rewrite D in H. inversion H; subst. split; [exact D | intros; discriminate].
    - destruct (s_get sid ss) as [[r0 | r0 p |]|] eqn:G.
      + destruct (startX c now r0) as [c1 [rp|p]]; inversion H; subst; cbn [snd];
          rewrite s_get_set_other by exact Hne; (split; [exact D|]); intros r1 rp1 E; inversion E; congruence.
      + destruct (completeX c hs now p) as [[[c1 hs1] rp] lg]. inversion H; subst; cbn [snd].
        rewrite s_get_set_other by exact Hne. split; [exact D|]. intros r1 rp1 E; inversion E; congruence.
      + inversion H; subst. split; [exact D | intros; discriminate].
      + inversion H; subst. split; [exact D | intros; discriminate].
  Qed.

  Lemma step_answer_done cn now sid cn' s r0 rp :
    stepX cn now sid = (cn', Some (s, r0, rp)) -> s_get s (snd cn') = Some PhDone.
  Proof.
    destruct cn as [[c hs] ss]. unfold stream_step. intros H.
    destruct (s_get sid ss) as [[r1 | r1 p |]|] eqn:G.
    - destruct (startX c now r1) as [c1 [rp1|p]]; inversion H; subst; cbn [snd].
      eapply s_get_set_same; exact G.
    - destruct (completeX c hs now p) as [[[c1 hs1] rp1] lg]. inversion H; subst; cbn [snd].
      eapply s_get_set_same; exact G.
    - inversion H.
    - inversion H.
  Qed.

  Lemma done_never_answered sched : forall cn now dt s,
    s_get s (snd cn) = Some PhDone -> forall r0 rp, ~ In (s, r0, rp) (runX cn now dt sched).
  Proof.
    induction sched as [|sid rest IH]; intros cn now dt s D r0 rp Hin; cbn [run_streams] in Hin; [contradiction|].
    destruct (stepX cn now sid) as [cn' out] eqn:S.
    destruct (step_done_stays _ _ _ _ _ s S D) as [D' Hout].
    destruct out as [o|].
    - destruct Hin as [E|Hin]; [subst o; exact (Hout _ _ eq_refl) | exact (IH _ _ _ _ D' _ _ Hin)].
    - exact (IH _ _ _ _ D' _ _ Hin).
  Qed.

  Lemma answers_nodup sched : forall cn now dt,
    NoDup (map (fun o => fst (fst o)) (runX cn now dt sched)).
  Proof.
    induction sched as [|sid rest IH]; intros cn now dt; cbn [run_streams]; [constructor|].
    destruct (stepX cn now sid) as [cn' out] eqn:S.
    destruct out as [[[s r0] rp]|]; [|apply IH].
    cbn [map fst]. constructor; [|apply IH].
    intros Hin. apply in_map_iff in Hin as [[[s1 r1] rp1] [E Hin]]. cbn [fst] in E. subst s1.
    exact (done_never_answered rest cn' (now + dt) dt s (step_answer_done _ _ _ _ _ _ _ S) _ _ Hin).
  Qed.

  (** ---- every stream whose task gets its two turns is answered ---- *)
  Definition turns_needed (ph : phase) : nat :=
    match ph with PhNew _ => 2 | PhWait _ _ => 1 | PhDone => 0 end.

  Lemma step_other_phase cn now sid cn' out s :
    stepX cn now sid = (cn', out) -> s <> sid -> s_get s (snd cn') = s_get s (snd cn).
  Proof.
    destruct cn as [[c hs] ss]. unfold stream_step. cbn [snd]. intros H Hne.
    destruct (s_get sid ss) as [[r0 | r0 p |]|] eqn:G.
    - destruct (startX c now r0) as [c1 [rp|p]]; inversion H; subst; cbn [snd]; apply s_get_set_other; exact Hne.
    - destruct (completeX c hs now p) as [[[c1 hs1] rp] lg]. inversion H; subst; cbn [snd].
      apply s_get_set_other; exact Hne.
    - inversion H; subst. reflexivity.
    - inversion H; subst. reflexivity.
  Qed.

  Lemma all_answered sched : forall cn now dt s ph,
    s_get s (snd cn) = Some ph -> (turns_needed ph > 0)%nat ->
    (count_occ N.eq_dec sched s >= turns_needed ph)%nat ->
    exists r0 rp, In (s, r0, rp) (runX cn now dt sched).
  Proof.
    induction sched as [|sid rest IH]; intros cn now dt s ph G Hpos Hcount.
    - cbn [count_occ] in Hcount. lia.
    - cbn [run_streams]. destruct (stepX cn now sid) as [cn' out] eqn:S.
      destruct (N.eq_dec sid s) as [->|Hne].
      + rewrite count_occ_cons_eq in Hcount by reflexivity.
        destruct cn as [[c hs] ss]. unfold stream_step in S. cbn [snd] in G. rewrite G in S.
        destruct ph as [r0 | r0 p |]; [| |cbn in Hpos; lia].
        * destruct (startX c now r0) as [c1 [rp|p]]; inversion S; subst.
          -- exists r0, rp. left. reflexivity.
          -- destruct (IH (c1, hs, s_set s (PhWait r0 p) ss) (now + dt) dt s (PhWait r0 p)) as (r1 & rp1 & Hin).
             ++ cbn [snd]. eapply s_get_set_same; exact G.
             ++ cbn. lia.
             ++ cbn [turns_needed] in *. lia.
             ++ exists r1, rp1. exact Hin.
        * destruct (completeX c hs now p) as [[[c1 hs1] rp] lg]. inversion S; subst.
          exists r0, rp. left. reflexivity.
      + rewrite count_occ_cons_neq in Hcount by exact Hne.
        assert (G' : s_get s (snd cn') = Some ph).
        { rewrite (step_other_phase _ _ _ _ _ s S) by congruence. exact G. }
        destruct (IH cn' (now + dt) dt s ph G' Hpos Hcount) as (r1 & rp1 & Hin).
        exists r1, rp1. destruct out; [right|]; exact Hin.
  Qed.

  Lemma open_streams_get (reqs : list (N * request)) s r0 : NoDup (map fst reqs) -> In (s, r0) reqs -> s_get s (open_streams reqs) = Some (PhNew r0).
  Proof.
    unfold open_streams. induction reqs as [|[i r] l IH]; intros ND Hin; [contradiction|].
    cbn [map s_get]. inversion ND as [|? ? Hni ND']; subst. destruct Hin as [E|Hin].
    - inversion E; subst. rewrite N.eqb_refl. reflexivity.
    - destruct (i =? s) eqn:E; [|exact (IH ND' Hin)].
      exfalso. apply Hni. replace i with s by lia. apply in_map_iff. exists (s, r0). split; [reflexivity | exact Hin].
  Qed.

  Lemma streams_exactly_once (reqs : list (N * request)) c hs now dt sched :
    NoDup (map fst reqs) ->
    (forall s, In s (map fst reqs) -> (count_occ N.eq_dec sched s >= 2)%nat) ->
    NoDup (map (fun o => fst (fst o)) (runX ((c, hs), open_streams reqs) now dt sched)) /\
    forall s r0, In (s, r0) reqs -> exists rp, In (s, r0, rp) (runX ((c, hs), open_streams reqs) now dt sched).
  Proof.
    intros ND Hfair. split; [apply answers_nodup|].
    intros s r0 Hin.
    destruct (all_answered sched ((c, hs), open_streams reqs) now dt s (PhNew r0)) as (r1 & rp & Hout).
    - cbn [snd]. apply open_streams_get; assumption.
    - cbn. lia.
    - cbn [turns_needed]. apply Hfair. apply in_map_iff. exists (s, r0). split; [reflexivity | exact Hin].
    - exists rp. replace r0 with r1; [exact Hout|].
      (* the request carried by an answer is the one the stream was opened with *)
      clear Hfair. revert Hout. generalize (c, hs). generalize now.
      assert (Hget : s_get s (open_streams reqs) = Some (PhNew r0)) by (apply open_streams_get; assumption).
      revert Hget. generalize (open_streams reqs).
      induction sched as [|sid rest IH]; intros ss Hget now0 st Hout; cbn [run_streams] in Hout; [contradiction|].
      destruct (stepX (st, ss) now0 sid) as [cn' out] eqn:S.
      destruct (N.eq_dec sid s) as [->|Hne].
      + destruct st as [c0 hs0]. unfold stream_step in S. rewrite Hget in S.
        destruct (startX c0 now0 r0) as [c1 [rp1|p]]; inversion S; subst.
        * destruct Hout as [E|Hout]; [inversion E; reflexivity|].
          exfalso. eapply (done_never_answered rest); [|exact Hout]. cbn [snd]. eapply s_get_set_same; exact Hget.
        * clear IH S.
          assert (Hw : s_get s (s_set s (PhWait r0 p) ss) = Some (PhWait r0 p)) by (eapply s_get_set_same; exact Hget).
          revert Hw Hout. generalize (s_set s (PhWait r0 p) ss). generalize (now0 + dt). generalize (c1, hs0).
          induction rest as [|sid2 rest2 IH2]; intros st2 now2 ss2 Hw Hout; cbn [run_streams] in Hout; [contradiction|].
          destruct (stepX (st2, ss2) now2 sid2) as [cn2 out2] eqn:S2.
          destruct (N.eq_dec sid2 s) as [->|Hne2].
          -- destruct st2 as [c2 hs2]. unfold stream_step in S2. rewrite Hw in S2.
             destruct (completeX c2 hs2 now2 p) as [[[c3 hs3] rp3] lg3]. inversion S2; subst.
             destruct Hout as [E|Hout]; [inversion E; reflexivity|].
             exfalso. eapply (done_never_answered rest2); [|exact Hout]. cbn [snd]. eapply s_get_set_same; exact Hw.
          -- assert (G2 : s_get s (snd cn2) = Some (PhWait r0 p)).
             { rewrite (step_other_phase _ _ _ _ _ s S2) by congruence. exact Hw. }
             destruct cn2 as [st3 ss3]. cbn [snd] in G2.
             assert (Hout' : In (s, r1, rp) (runX (st3, ss3) (now2 + dt) dt rest2)).
             { destruct out2 as [o|]; [|exact Hout]. destruct Hout as [E|Hout]; [|exact Hout].
               subst o. destruct st2 as [c2 hs2]. unfold stream_step in S2.
               destruct (s_get sid2 ss2) as [[ra | ra pa |]|] eqn:Ga.
               - destruct (startX c2 now2 ra) as [ca [rpa|pa]]; inversion S2; congruence.
               - destruct (completeX c2 hs2 now2 pa) as [[[ca hsa] rpa] lga]. inversion S2; congruence.
               - inversion S2.
               - inversion S2. }
             exact (IH2 st3 (now2 + dt) ss3 G2 Hout').
      + assert (G' : s_get s (snd cn') = Some (PhNew r0)).
        { rewrite (step_other_phase _ _ _ _ _ s S) by congruence. exact Hget. }
        destruct cn' as [st' ss']. cbn [snd] in G'.
        assert (Hout' : In (s, r1, rp) (runX (st', ss') (now0 + dt) dt rest)).
        { destruct out as [o|]; [|exact Hout]. destruct Hout as [E|Hout]; [|exact Hout].
          subst o. destruct st as [c0 hs0]. unfold stream_step in S.
          destruct (s_get sid ss) as [[ra | ra pa |]|] eqn:Ga.
          - destruct (startX c0 now0 ra) as [ca [rpa|pa]]; inversion S; congruence.
          - destruct (completeX c0 hs0 now0 pa) as [[[ca hsa] rpa] lga]. inversion S; congruence.
          - inversion S.
          - inversion S. }
        exact (IH ss' G' (now0 + dt) st' Hout').
  Qed.
End Once.

(** ---- concurrent streams ---- *)
Section Streams.
  Variable hstate : Type.
  Variable compute : hstate -> request -> bool -> fat * hstate * list bytes.
  Variable ims_on : bool.
  Variable parse_ims : bytes -> option Z.
  Variable sanitize_ok : request -> bool.
  Variable prime : request -> request.
  Variable negotiate : request -> fat -> option (N * bytes).
  Variable vary_tuple : request -> tuple.
  Variable vary_header : request -> fat -> list (bytes * bytes).

  (** the handler contract of C03 *)
  Variable cf : request -> bool -> fat.
  Hypothesis Hpure : forall hs r ok, fst (fst (compute hs r ok)) = cf r ok.
  Hypothesis contract : forall r r',
    get_or_head (rq_method r) = true -> get_or_head (rq_method r') = true ->
    vary_tuple r = vary_tuple r' -> rq_path r = rq_path r' ->
    (qm (cf r true) = true -> path_query r = path_query r') ->
    cf r true = cf r' true.
  Hypothesis pref_uniform : forall r r', rq_path r = rq_path r' -> qm (cf r true) = qm (cf r' true).
  Hypothesis Herr : forall r, f_spref (cf r false) = SP_NONE.

  Notation InvX := (Inv vary_tuple cf).
  Notation entry_okX := (entry_ok vary_tuple cf).
  Notation finishX := (finish negotiate vary_header).
  Notation startX := (start true ims_on parse_ims sanitize_ok prime negotiate vary_tuple vary_header).
  Notation completeX := (complete hstate compute true ims_on negotiate vary_tuple vary_header).
  Notation serveC := (serve hstate compute true ims_on parse_ims sanitize_ok prime negotiate vary_tuple vary_header).
  Notation no_imsX := (no_ims ims_on prime).

  (** the reply of a request alone = the cache-less computation *)
  Definition alone (r0 : request) : reply :=
    finishX (prime r0) (cf (prime r0) (sanitize_ok r0)) false false.

  Definition pend_ok (r0 : request) (p : pend) : Prop :=
    match p with
    | PMiss r ok => r = prime r0 /\ ok = sanitize_ok r0
    | PVary r k => r = prime r0 /\ sanitize_ok r0 = true /\ get_or_head (rq_method r) = true /\
                   (k = key_pq r \/ k = key_p r)
    end.

  Lemma compute_cfX hs r ok f hs' lg : compute hs r ok = (f, hs', lg) -> f = cf r ok.
  Proof. intros H. rewrite <- (Hpure hs r ok), H. reflexivity. Qed.

  Lemma start_ok c now r0 c1 res :
    startX c now r0 = (c1, res) -> InvX c -> no_imsX r0 ->
    InvX c1 /\ match res with
               | inl rp => reply_equiv rp (alone r0)
               | inr p => pend_ok r0 p
               end.
  Proof.
    unfold start. cbn [negb]. intros H I Hims.
    set (r := prime r0) in *. set (ok := sanitize_ok r0) in *.
    destruct (lookup r c now) as [[k found] c2] eqn:L.
    destruct (lookup_inv vary_tuple cf _ _ _ _ _ _ L I) as (I1 & Hk & Hfound).
    destruct found as [e|].
    - destruct (ok && get_or_head (rq_method r)) eqn:G.
      + apply andb_true_iff in G as [Gok GH].
        assert (Hno : (match (if ims_on then match header (B "if-modified-since") r with
                                               | Some v => parse_ims v | None => None end else None) with
                       | Some t => ims_fresh t (e_created e) | None => false end) = false).
        { destruct Hims as [-> | Hh]; [reflexivity|]. fold r in Hh. rewrite Hh. destruct ims_on; reflexivity. }
        rewrite Hno in H. clear Hno.
        destruct (Hfound e eq_refl) as [Hne Hvars].
        destruct (v_find (vary_tuple r) (e_vars e)) as [f|] eqn:V.
        * inversion H; subst c1 res. split; [exact I1|].
          apply v_find_in in V. destruct (Hvars _ _ V) as (r1 & GH1 & T1 & F1 & K1).
          assert (Hf : cf r1 true = cf r true).
          { apply contract; try assumption.
            - destruct Hk as [-> | ->]; unfold key_ok, key_pq, key_p in K1.
              + destruct (path_query r) as [s i] eqn:PQ. apply path_query_path. congruence.
              + destruct K1 as [K1 _]. exact K1.
            - intros Q. destruct Hk as [-> | ->]; unfold key_ok, key_pq, key_p in K1.
              + destruct (path_query r) as [s i] eqn:PQ. congruence.
              + destruct K1 as [_ K1]. rewrite <- F1 in Q. congruence. }
          rewrite F1, Hf. unfold alone. fold r ok. rewrite Gok. apply finish_equiv.
        * inversion H; subst c1 res. split; [exact I1|].
          cbn [pend_ok]. fold r ok. repeat split; assumption.
      + inversion H; subst c1 res. split; [exact I1|]. cbn [pend_ok]. split; reflexivity.
    - inversion H; subst c1 res. split; [exact I1|]. cbn [pend_ok]. split; reflexivity.
  Qed.

  Lemma relookup_inv k c now k' res c1 r :
    relookup k c now = ((k', res), c1) -> InvX c -> (k = key_pq r \/ k = key_p r) ->
    InvX c1 /\ (k' = key_pq r \/ k' = key_p r) /\ (forall e, res = Some e -> entry_okX k' e).
  Proof.
    unfold relookup. intros H I Hk.
    destruct (get_item k c now) as [[e|] c2] eqn:G1.
    - inversion H; subst. destruct (get_item_inv vary_tuple cf _ _ _ _ _ G1 I) as [I1 E1].
      split; [exact I1|]. split; [exact Hk | exact E1].
    - destruct (get_item_inv vary_tuple cf _ _ _ _ _ G1 I) as [I1 _].
      destruct k as [p|s i].
      + inversion H; subst. split; [exact I1|]. split; [exact Hk | discriminate].
      + destruct (get_item (KPath (firstn i s)) c2 now) as [res2 c3] eqn:G2.
        inversion H; subst.
        destruct (get_item_inv vary_tuple cf _ _ _ _ _ G2 I1) as [I2 E2].
        split; [exact I2|]. split; [|exact E2].
        right. destruct Hk as [Hk|Hk]; [|discriminate Hk].
        unfold key_pq in Hk. destruct (path_query r) as [s' i'] eqn:PQ. inversion Hk; subst.
        unfold key_p. f_equal. pose proof (path_query_fst r) as PF. rewrite PQ in PF. exact PF.
  Qed.

  Lemma complete_ok c hs now r0 p c1 hs1 rp lg :
    completeX c hs now p = ((c1, hs1), rp, lg) -> InvX c -> pend_ok r0 p ->
    InvX c1 /\ reply_equiv rp (alone r0).
  Proof.
    intros H I Hp. destruct p as [r ok | r k]; cbn [complete negb pend_ok] in *.
    - destruct Hp as [-> ->].
      destruct (miss_sim hstate compute ims_on negotiate vary_tuple vary_header cf Hpure Herr
                  c hs now (prime r0) (sanitize_ok r0) (c1, hs1) rp lg H) as [I1 E];
        [destruct (sanitize_ok r0); auto | exact I |].
      split; [exact I1 | exact E].
    - destruct Hp as (-> & Hok & GH & Hk).
      set (r := prime r0) in *.
      destruct (compute hs r true) as [[f hs'] lg'] eqn:C. apply compute_cfX in C. subst f.
      assert (E : reply_equiv (finishX r (cf r true) ims_on true) (alone r0)).
      { unfold alone. fold r. rewrite Hok. apply finish_equiv. }
      destruct (relookup k c now) as [[k' res] c2] eqn:R.
      destruct (relookup_inv _ _ _ _ _ _ r R I Hk) as (I2 & Hk' & Hres).
      destruct res as [e|].
      + destruct (Hres e eq_refl) as [Hne Hvars].
        destruct (v_find (vary_tuple r) (e_vars e)) as [f0|] eqn:V.
        * inversion H; subst. split; [exact I2 | exact E].
        * inversion H; subst. split; [|exact E].
          apply Inv_insert; [exact I2|]. split; [cbn; discriminate|].
          cbn [e_vars]. intros t f [Et | Hin]; [| apply Hvars; exact Hin].
          inversion Et; subst. exists r. repeat split; try assumption; try reflexivity.
          destruct Hk' as [-> | ->]; unfold key_ok, key_pq, key_p.
          -- destruct (path_query r). reflexivity.
          -- split; [reflexivity|].
             destruct (e_vars e) as [|[t1 f1] rest] eqn:Ev; [congruence|].
             destruct (Hvars t1 f1 (or_introl eq_refl)) as (r1 & _ & _ & F1 & K1).
             unfold key_ok, key_p in K1. destruct K1 as [P1 Q1].
             rewrite (pref_uniform r r1) by congruence. rewrite <- F1. exact Q1.
      + destruct (may_store true (rq_method r) (cf r true)) eqn:A; inversion H; subst; (split; [|exact E]);
          [|exact I2].
        apply Inv_insert; [exact I2|].
        split; [cbn; discriminate|]. cbn [e_vars]. intros t f [Et|[]]. inversion Et; subst.
        exists r. repeat split; try assumption; try reflexivity.
        unfold insert_key, key_ok. fold (qm (cf r true)). destruct (qm (cf r true)) eqn:Q.
        * unfold key_pq. destruct (path_query r). reflexivity.
        * unfold key_p. split; reflexivity.
  Qed.

  (** ---- the connection ---- *)
  Variable reqs : list (N * request).

  Definition phase_ok (e : N * phase) : Prop :=
    match snd e with
    | PhNew r0 => In (fst e, r0) reqs /\ no_imsX r0
    | PhWait r0 p => In (fst e, r0) reqs /\ no_imsX r0 /\ pend_ok r0 p
    | PhDone => True
    end.

  Lemma s_get_ok sid ss ph : Forall phase_ok ss -> s_get sid ss = Some ph -> phase_ok (sid, ph).
  Proof.
    induction ss as [|[i q] ss IH]; cbn [s_get]; [discriminate|]. intros F H.
    inversion F as [|? ? Hq Hrest]; subst.
    destruct (i =? sid) eqn:E; [|exact (IH Hrest H)].
    inversion H; subst. replace sid with i by lia. exact Hq.
  Qed.

  Lemma s_set_ok sid ph ss : Forall phase_ok ss -> phase_ok (sid, ph) -> Forall phase_ok (s_set sid ph ss).
  Proof.
    induction ss as [|[i q] ss IH]; cbn [s_set]; intros F H; [constructor|].
    inversion F as [|? ? Hq Hrest]; subst.
    destruct (i =? sid) eqn:E.
    - constructor; [|exact Hrest]. replace i with sid by lia. exact H.
    - constructor; [exact Hq | exact (IH Hrest H)].
  Qed.

  Notation stepX := (stream_step hstate compute true ims_on parse_ims sanitize_ok prime negotiate vary_tuple vary_header).
  Notation runX := (run_streams hstate compute true ims_on parse_ims sanitize_ok prime negotiate vary_tuple vary_header).

  Definition conn_ok (cn : conn hstate) : Prop := InvX (fst (fst cn)) /\ Forall phase_ok (snd cn).

  Lemma stream_step_ok cn now sid cn' out :
    stepX cn now sid = (cn', out) -> conn_ok cn ->
    conn_ok cn' /\ forall s r0 rp, out = Some (s, r0, rp) -> s = sid /\ In (sid, r0) reqs /\ reply_equiv rp (alone r0).
  Proof.
    destruct cn as [[c hs] ss]. unfold stream_step, conn_ok. cbn [fst snd]. intros H [I F].
    destruct (s_get sid ss) as [[r0 | r0 p |]|] eqn:G.
    - pose proof (s_get_ok _ _ _ F G) as [Hin Hims]. cbn [fst snd] in Hin, Hims.
      destruct (startX c now r0) as [c1 [rp|p]] eqn:S;
        destruct (start_ok _ _ _ _ _ S I Hims) as [I1 Hres]; inversion H; subst; cbn [fst snd].
      + split; [split; [exact I1 | apply s_set_ok; [exact F | exact Logic.I]]|].
        intros s r1 rp1 E. inversion E; subst. split; [reflexivity | split; assumption].
      + split; [split; [exact I1 | apply s_set_ok; [exact F |]]|].
        * cbn. repeat split; assumption.
        * intros s r1 rp1 E. discriminate.
    - pose proof (s_get_ok _ _ _ F G) as (Hin & Hims & Hp). cbn [fst snd] in Hin, Hims, Hp.
      destruct (completeX c hs now p) as [[[c1 hs1] rp] lg] eqn:C.
      destruct (complete_ok _ _ _ _ _ _ _ _ _ C I Hp) as [I1 E1]. inversion H; subst; cbn [fst snd].
      split; [split; [exact I1 | apply s_set_ok; [exact F | exact Logic.I]]|].
      intros s r1 rp1 E. inversion E; subst. split; [reflexivity | split; assumption].
    - inversion H; subst. split; [split; assumption|]. intros s r1 rp1 E. discriminate.
    - inversion H; subst. split; [split; assumption|]. intros s r1 rp1 E. discriminate.
  Qed.

  Lemma run_streams_ok sched : forall cn now dt,
    conn_ok cn ->
    forall s r0 rp, In (s, r0, rp) (runX cn now dt sched) -> In (s, r0) reqs /\ reply_equiv rp (alone r0).
  Proof.
    induction sched as [|sid rest IH]; intros cn now dt Hc s r0 rp Hin; cbn [run_streams] in Hin; [contradiction|].
    destruct (stepX cn now sid) as [cn' out] eqn:S.
    destruct (stream_step_ok _ _ _ _ _ S Hc) as [Hc' Hout].
    destruct out as [[[s1 r1] rp1]|].
    - destruct Hin as [E|Hin].
      + inversion E; subst. destruct (Hout _ _ _ eq_refl) as (-> & H1 & H2). split; assumption.
      + exact (IH _ _ _ Hc' _ _ _ Hin).
    - exact (IH _ _ _ Hc' _ _ _ Hin).
  Qed.

  Lemma open_streams_ok : Forall (fun e => no_imsX (snd e)) reqs -> Forall phase_ok (open_streams reqs).
  Proof.
    intros H. unfold open_streams. apply Forall_forall. intros [i ph] Hin.
    apply in_map_iff in Hin as [[j r] [E Hj]]. inversion E; subst.
    unfold phase_ok. cbn [fst snd]. split; [exact Hj|].
    rewrite Forall_forall in H. exact (H _ Hj).
  Qed.

  (** the reply of the request alone on the same host (cache on, empty cache, any handler state, any time) *)
  Lemma serve_alone hs now r0 :
    no_imsX r0 -> reply_equiv (snd (fst (serveC ([], hs) now r0))) (alone r0).
  Proof.
    intros Hims.
    destruct (serveC ([], hs) now r0) as [[st' rp] lg] eqn:S. cbn [fst snd].
    destruct (serve_sim hstate compute ims_on parse_ims sanitize_ok prime negotiate vary_tuple vary_header cf
                Hpure contract pref_uniform Herr [] hs now r0 st' rp lg [] hs S (Inv_nil vary_tuple cf) Hims) as [_ E].
    unfold serve in E. cbn [negb] in E.
    destruct (compute hs (prime r0) (sanitize_ok r0)) as [[f h] l] eqn:C. cbn [fst snd] in E.
    apply compute_cfX in C. subst f. exact E.
  Qed.

  Lemma reply_equiv_sym a c : reply_equiv a c -> reply_equiv c a.
  Proof. intros (H1 & H2 & H3 & H4). repeat split; congruence. Qed.
  Lemma reply_equiv_trans a b c : reply_equiv a b -> reply_equiv b c -> reply_equiv a c.
  Proof. intros (H1 & H2 & H3 & H4) (G1 & G2 & G3 & G4). repeat split; congruence. Qed.

  (** layer 4: for every set of streams, every schedule, every initial cache state satisfying the invariant:
      whatever a stream is answered is the reply of ITS request alone *)
  Lemma streams_layer4 c hs now dt sched hs' now' :
    InvX c -> Forall (fun e => no_imsX (snd e)) reqs ->
    forall s r0 rp, In (s, r0, rp) (runX ((c, hs), open_streams reqs) now dt sched) ->
      In (s, r0) reqs /\ reply_equiv rp (snd (fst (serveC ([], hs') now' r0))).
  Proof.
    intros I Hims s r0 rp Hin.
    assert (Hc : conn_ok ((c, hs), open_streams reqs)).
    { split; [exact I | apply open_streams_ok; exact Hims]. }
    destruct (run_streams_ok sched ((c, hs), open_streams reqs) now dt Hc s r0 rp Hin) as [H1 H2].
    split; [exact H1|].
    eapply reply_equiv_trans; [exact H2|]. apply reply_equiv_sym. apply serve_alone.
    rewrite Forall_forall in Hims. exact (Hims _ H1).
  Qed.

  (** ---- on the wire ---- *)
  Variable checked : bool.
  Variable error_page : N -> resp.
  Variable vary_rules : request -> list bytes.
  Variable pkg : N -> headers -> headers.
  Variable alt : option bytes.
  Variable sanitize : request -> outcome (option (N * N)).
  Variable encode : request -> N -> headers -> bytes -> headers * bytes.
  Variable hversion : N.

  Lemma l4_resp_equiv r a c : reply_equiv a c -> l4_resp encode hversion r a = l4_resp encode hversion r c.
  Proof. intros (H1 & H2 & H3 & _). unfold l4_resp. rewrite H1, H2, H3. reflexivity. Qed.

  Notation answerC := (answer hstate compute true ims_on parse_ims sanitize_ok prime negotiate vary_tuple
                              vary_header checked error_page vary_rules pkg alt sanitize encode hversion).
  Notation wireX := (stream_wire checked error_page vary_rules pkg alt sanitize encode hversion).

  Lemma streams_wire c hs now dt sched hs' now' :
    InvX c -> Forall (fun e => no_imsX (snd e)) reqs ->
    forall s r0 rp, In (s, r0, rp) (runX ((c, hs), open_streams reqs) now dt sched) ->
      In (s, r0) reqs /\ wireX (s, r0, rp) = (s, answerC H2 true ([], hs') now' r0).
  Proof.
    intros I Hims s r0 rp Hin.
    destruct (streams_layer4 c hs now dt sched hs' now' I Hims s r0 rp Hin) as [H1 H2].
    split; [exact H1|]. unfold stream_wire, answer.
    destruct (serveC ([], hs') now' r0) as [[st' rp'] lg']. cbn [fst snd] in H2.
    rewrite (l4_resp_equiv r0 _ _ H2). reflexivity.
  Qed.

End Streams.

(** ---------------------------------------------------------------------------------------------
    one connection, a history of requests with bodies
    --------------------------------------------------------------------------------------------- *)
Section ConnLoopProofs.
  Variable S Q : Type.
  Variable ans : proto -> bool -> S -> N -> Q -> S * outcome wreply.
  Variable q_method : Q -> N.
  Variable q_len : Q -> N.
  Variable q_early : Q -> N.
  Variable wants : S -> Q -> option N.

  Notation loopX := (conn_loop S Q ans q_method q_len q_early wants).
  Notation seqX := (serve_seq S Q ans).
  Notation declaredX := (body_declared Q q_method q_len).

  (** the repaired HTTP/1 loop leaves nothing of a declared body on the connection, whatever the handler read and
      however the bytes were segmented *)
  Lemma h1_after_drain s q : declaredX q -> h1_after S Q q_method q_len q_early wants true s q = COpen.
  Proof.
    unfold body_declared, h1_after. intros H.
    destruct (pr_no_request_body (q_method q)).
    - rewrite (H eq_refl). destruct (_ <? 0) eqn:E; [lia | reflexivity].
    - destruct (_ <? q_len q) eqn:E; [lia | reflexivity].
  Qed.

  (** HTTP/2: every request is answered, by the application in the state its predecessors left — with or without the repair *)
  Lemma conn_loop_h2 drain secure s now dt qs :
    loopX H2 drain secure s COpen now dt qs = map Some (seqX H2 secure s now dt qs).
  Proof.
    revert s now. induction qs as [|q qs IH]; intros s now; cbn [conn_loop serve_seq map]; [reflexivity|].
    destruct (ans H2 secure s now q) as [s' w]. cbn [map]. rewrite IH. reflexivity.
  Qed.

  (** HTTP/1 (repaired): the same, as long as no answer makes the connection's task panic and only the LAST answer may
      end the connection (a streamed body of unknown length, repair 7334433) *)
  Fixpoint close_only_last (ws : list (outcome wreply)) : Prop :=
    match ws with
    | [] => True
    | w :: rest => match rest with [] => True | _ => forall x, w <> Ok (WClosed x) end /\ close_only_last rest
    end.

  Lemma conn_loop_h1_last secure s now dt qs :
    Forall declaredX qs ->
    Forall (fun w => exists r, w = Ok r /\ r <> WBroken) (seqX H1 secure s now dt qs) ->
    close_only_last (seqX H1 secure s now dt qs) ->
    loopX H1 true secure s COpen now dt qs = map Some (seqX H1 secure s now dt qs).
  Proof.
    revert s now. induction qs as [|q qs IH]; intros s now Hd Hok Hcl; cbn [conn_loop serve_seq map] in *; [reflexivity|].
    destruct (ans H1 secure s now q) as [s' w]. cbn [map].
    inversion Hd as [|? ? Hq Hd']; subst. inversion Hok as [|? ? [r [Hw Hnb]] Hok']; subst.
    cbn [close_only_last] in Hcl. destruct Hcl as [Hc Hcl'].
    destruct qs as [|q' qs'].
    { cbn [conn_loop serve_seq map]. reflexivity. }
    assert (Hnc : forall x, r <> WClosed x).
    { intros x ->. cbn [serve_seq] in Hc. destruct (ans H1 secure s' (now + dt) q') as [s'' w'']. exact (Hc x eq_refl). }
    destruct r as [x|x| |]; [| exfalso; exact (Hnc x eq_refl) | | contradiction];
      rewrite (h1_after_drain s q Hq), (IH s' (now + dt) Hd' Hok' Hcl'); reflexivity.
  Qed.

  Lemma close_only_last_none ws : Forall (fun w => forall x, w <> Ok (WClosed x)) ws -> close_only_last ws.
  Proof.
    induction ws as [|w ws IH]; intros F; cbn [close_only_last]; [exact I|].
    inversion F as [|? ? Hw F']; subst. split; [destruct ws; [exact I | exact Hw] | exact (IH F')].
  Qed.

  Lemma conn_loop_h1 secure s now dt qs :
    Forall declaredX qs ->
    Forall (fun w => exists r, w = Ok r /\ r <> WBroken /\ (forall x, r <> WClosed x)) (seqX H1 secure s now dt qs) ->
    loopX H1 true secure s COpen now dt qs = map Some (seqX H1 secure s now dt qs).
  Proof.
    intros Hd Hok. apply conn_loop_h1_last; [exact Hd | |].
    - apply Forall_forall. intros w Hw. destruct (proj1 (Forall_forall _ _) Hok w Hw) as (r & E & B & _).
      exists r. split; assumption.
    - apply close_only_last_none. apply Forall_forall. intros w Hw x ->.
      destruct (proj1 (Forall_forall _ _) Hok _ Hw) as (r & E & _ & C). inversion E. subst r. exact (C x eq_refl).
  Qed.

  (** parity of the specification's view, from parity of one step *)
  Hypothesis step_state : forall secure1 s now q, fst (ans H1 secure1 s now q) = fst (ans H2 true s now q).
  Hypothesis step_parity : forall secure1 s now q, onorm (snd (ans H1 secure1 s now q)) = onorm (snd (ans H2 true s now q)).

  Lemma serve_seq_parity secure1 s now dt qs :
    map onorm (seqX H1 secure1 s now dt qs) = map onorm (seqX H2 true s now dt qs).
  Proof.
    revert s now. induction qs as [|q qs IH]; intros s now; cbn [serve_seq map]; [reflexivity|].
    pose proof (step_state secure1 s now q) as Hs. pose proof (step_parity secure1 s now q) as Hp.
    destruct (ans H1 secure1 s now q) as [s1 w1]. destruct (ans H2 true s now q) as [s2 w2].
    cbn [fst snd] in Hs, Hp. subst s2. cbn [map]. rewrite Hp, IH. reflexivity.
  Qed.
End ConnLoopProofs.

Lemma onorm_ok_inv o : (exists r, onorm o = Ok r) -> exists r, o = Ok r.
Proof. destruct o as [w|e|]; cbn [onorm]; intros [r H]; try discriminate. exists w. reflexivity. Qed.

Lemma map_onorm_ok l l' :
  map onorm l = map onorm l' -> Forall (fun w => exists r, w = Ok r) l' -> Forall (fun w : outcome wreply => exists r, w = Ok r) l.
Proof.
  revert l'. induction l as [|a l IH]; intros [|a' l'] H F; cbn [map] in H; try discriminate; constructor.
  - inversion H as [[Ha Hl]]. inversion F as [|? ? [r Hr] F']; subst. apply onorm_ok_inv. rewrite Ha.
    exists (normalise r). reflexivity.
  - inversion H as [[Ha Hl]]. inversion F as [|? ? _ F']; subst. exact (IH _ Hl F').
Qed.

(** [send] answers or panics (in [apply_range]); it has no error value *)
Lemma send_ok_or_panic checked error_page vn pkg p secure alt m sd r :
  send checked error_page vn pkg p secure alt m sd r = Panic \/ exists w, send checked error_page vn pkg p secure alt m sd r = Ok w.
Proof.
  unfold send. destruct (apply_sd checked error_page vn sd (head_only (add_alt_svc secure alt r))) as [a|e|] eqn:E; cbn [obind].
  - right. destruct p; [eexists; reflexivity|]. destruct (h2_refuses _); eexists; reflexivity.
  - exfalso. unfold apply_sd in E. destruct sd as [rg|e'|]; try discriminate.
    destruct (rs_status _ =? 304); [discriminate|].
    destruct (apply_range checked rg _ _); discriminate.
  - left. reflexivity.
Qed.

(** ... and it does not panic for what [sanitize_request] hands it (repaired range arithmetic, C09) *)
Lemma apply_range_panic_status checked rg st body :
  apply_range checked rg st body = Panic -> apply_range checked rg 200 body = Panic.
Proof.
  unfold apply_range. destruct rg as [[a c]|]; [|discriminate].
  destruct (N.of_nat (length body) <=? a); [discriminate|].
  destruct (sub_u64 checked _ 1) as [e|e|]; cbn [obind]; try discriminate; [|reflexivity].
  destruct (slice_chk _ _ body) as [sl|e'|]; cbn [obind]; try discriminate. reflexivity.
Qed.

Lemma add_alt_svc_body secure alt r : rs_body (add_alt_svc secure alt r) = rs_body r.
Proof. unfold add_alt_svc. destruct alt; [destruct secure|]; reflexivity. Qed.
Lemma add_alt_svc_status secure alt r : rs_status (add_alt_svc secure alt r) = rs_status r.
Proof. unfold add_alt_svc. destruct alt; [destruct secure|]; reflexivity. Qed.
Lemma head_only_status r : rs_status (head_only r) = rs_status r.
Proof. unfold head_only. destruct (ends_with_head (rs_status r)); reflexivity. Qed.
Lemma head_only_headers r : rs_headers (head_only r) = rs_headers r.
Proof. unfold head_only. destruct (ends_with_head (rs_status r)); reflexivity. Qed.
Lemma head_only_version r : rs_version (head_only r) = rs_version r.
Proof. unfold head_only. destruct (ends_with_head (rs_status r)); reflexivity. Qed.
Lemma head_only_body_len r : N.of_nat (length (rs_body (head_only r))) <= N.of_nat (length (rs_body r)).
Proof. unfold head_only. destruct (ends_with_head (rs_status r)); cbn [rs_body length]; lia. Qed.

Lemma send_no_panic checked error_page vn pkg p secure alt m path_ok hdr r :
  N.of_nat (length (rs_body r)) <= u64_max ->
  send checked error_page vn pkg p secure alt m (sd_of path_ok hdr) r <> Panic.
Proof.
  intros Hlen HP.
  destruct (send_ok_or_panic checked error_page vn pkg p secure alt m (sd_of path_ok hdr) r) as [_|[w Hw]];
    [|rewrite Hw in HP; discriminate].
  unfold send in HP.
  destruct (apply_sd checked error_page vn (sd_of path_ok hdr) (head_only (add_alt_svc secure alt r))) as [a|e|] eqn:E; cbn [obind] in HP.
  - destruct p; [discriminate|]. destruct (h2_refuses _); discriminate.
  - discriminate.
  - clear HP. unfold apply_sd, sd_of in E. rewrite head_only_status, add_alt_svc_status in E.
    set (r' := head_only (add_alt_svc secure alt r)) in *.
    assert (Hlen' : N.of_nat (length (rs_body r')) <= u64_max).
    { unfold r'. pose proof (head_only_body_len (add_alt_svc secure alt r)) as L. rewrite add_alt_svc_body in L. lia. }
    pose proof (serve_range_no_panic checked hdr (rs_body r') Hlen') as NP. unfold serve_range in NP.
    destruct path_ok; [|discriminate].
    destruct (sanitize_range hdr) as [rg|e|]; try discriminate; [|exact (NP eq_refl)].
    destruct (rs_status r =? 304); [discriminate|].
    destruct (apply_range checked rg (rs_status r) (rs_body r')) eqn:A; try discriminate.
    apply apply_range_panic_status in A. rewrite A in NP. exact (NP eq_refl).
Qed.

(** ---- the history above layer 4 ---- *)
Section HistoryParity.
  Variable hstate : Type.
  Variable compute : hstate -> request -> bool -> fat * hstate * list bytes.
  Variable cache_on ims_on : bool.
  Variable parse_ims : bytes -> option Z.
  Variable sanitize_ok : request -> bool.
  Variable prime : request -> request.
  Variable negotiate : request -> fat -> option (N * bytes).
  Variable vary_tuple : request -> tuple.
  Variable vary_header : request -> fat -> list (bytes * bytes).
  Variable checked : bool.
  Variable error_page : N -> resp.
  Variable vary_rules : request -> list bytes.
  Variable pkg : N -> headers -> headers.
  Variable alt : option bytes.
  Variable sanitize : request -> outcome (option (N * N)).
  Variable encode : request -> N -> headers -> bytes -> headers * bytes.
  Variable hversion : N.
  Variable wants : state hstate -> request -> option N.
  Hypothesis Hpkg : pkg_oblivious pkg.

  Notation histX := (conn_hist hstate compute cache_on ims_on parse_ims sanitize_ok prime negotiate vary_tuple
                               vary_header checked error_page vary_rules pkg alt sanitize encode hversion wants).
  Notation answersX := (answers hstate compute cache_on ims_on parse_ims sanitize_ok prime negotiate vary_tuple
                                vary_header checked error_page vary_rules pkg alt sanitize encode hversion).
  Notation stepX := (ans_step hstate compute cache_on ims_on parse_ims sanitize_ok prime negotiate vary_tuple
                              vary_header checked error_page vary_rules pkg alt sanitize encode hversion).
  Notation answerX := (answer hstate compute cache_on ims_on parse_ims sanitize_ok prime negotiate vary_tuple
                              vary_header checked error_page vary_rules pkg alt sanitize encode hversion).

  Lemma ans_step_answer p secure st now b : snd (stepX p secure st now b) = answerX p secure st now (b_req b).
  Proof.
    unfold ans_step, answer.
    destruct (serve hstate compute cache_on ims_on parse_ims sanitize_ok prime negotiate vary_tuple vary_header st now (b_req b))
      as [[st' rp] lg]. reflexivity.
  Qed.

  Lemma ans_step_state secure1 st now b : fst (stepX H1 secure1 st now b) = fst (stepX H2 true st now b).
  Proof.
    unfold ans_step.
    destruct (serve hstate compute cache_on ims_on parse_ims sanitize_ok prime negotiate vary_tuple vary_header st now (b_req b))
      as [[st' rp] lg]. reflexivity.
  Qed.

  Lemma answers_parity secure1 st now dt bs :
    map onorm (answersX H1 secure1 st now dt bs) = map onorm (answersX H2 true st now dt bs).
  Proof.
    unfold answers. apply serve_seq_parity.
    - intros. apply ans_step_state.
    - intros. rewrite !ans_step_answer. apply answer_parity. exact Hpkg.
  Qed.

  Lemma answers_not_broken p secure st now dt bs :
    Forall (fun w => w <> Ok WBroken /\ forall x, w <> Ok (WClosed x)) (answersX p secure st now dt bs).
  Proof.
    unfold answers. revert st now. induction bs as [|b bs IH]; intros st now; cbn [serve_seq]; [constructor|].
    pose proof (ans_step_answer p secure st now b) as Ha.
    destruct (stepX p secure st now b) as [s' w]. cbn [snd] in Ha. constructor; [|apply IH].
    rewrite Ha. unfold answer.
    destruct (serve hstate compute cache_on ims_on parse_ims sanitize_ok prime negotiate vary_tuple vary_header st now (b_req b))
      as [[st' rp] lg]. split; [apply send_not_broken | apply send_not_closed].
  Qed.

  Definition declared_b (b : breq) : Prop := pr_no_request_body (rq_method (b_req b)) = true -> b_len b = 0.

  Lemma history_parity_lemma secure1 st now dt bs :
    Forall declared_b bs ->
    Forall (fun w => w <> Panic) (answersX H2 true st now dt bs) ->
    histX H1 true secure1 st now dt bs = map Some (answersX H1 secure1 st now dt bs) /\
    histX H2 true true st now dt bs = map Some (answersX H2 true st now dt bs) /\
    map onorm (answersX H1 secure1 st now dt bs) = map onorm (answersX H2 true st now dt bs).
  Proof.
    intros Hd Hnp. pose proof (answers_parity secure1 st now dt bs) as Hpar.
    split; [|split; [apply conn_loop_h2 | exact Hpar]].
    unfold conn_hist. apply conn_loop_h1; [exact Hd|]. fold (answersX H1 secure1 st now dt bs).
    pose proof (answers_not_broken H1 secure1 st now dt bs) as Hnb.
    cut (Forall (fun w : outcome wreply => exists r, w = Ok r) (answersX H1 secure1 st now dt bs)).
    { intros Hok. apply Forall_forall. intros w Hw.
      destruct (proj1 (Forall_forall _ _) Hok w Hw) as [r Hr]. exists r. split; [exact Hr|].
      destruct (proj1 (Forall_forall _ _) Hnb _ Hw) as [B C]. subst w.
      split; [intros ->; exact (B eq_refl) | intros x ->; exact (C x eq_refl)]. }
    unfold answers. apply (map_onorm_ok _ _ Hpar).
    assert (G : forall s n l, Forall (fun w => w <> Panic) (serve_seq (state hstate) breq stepX H2 true s n dt l) ->
                              Forall (fun w : outcome wreply => exists r, w = Ok r) (serve_seq (state hstate) breq stepX H2 true s n dt l)).
    { intros s n l. revert s n. induction l as [|b l IH]; intros s n F; cbn [serve_seq] in *; [constructor|].
      pose proof (ans_step_answer H2 true s n b) as Ha.
      destruct (stepX H2 true s n b) as [s' w]. cbn [snd] in Ha.
      inversion F as [|? ? Hw F']; subst. constructor; [|exact (IH _ _ F')].
      unfold answer in Hw |- *.
      destruct (serve hstate compute cache_on ims_on parse_ims sanitize_ok prime negotiate vary_tuple vary_header s n (b_req b))
        as [[st' rp] lg].
      destruct (send_ok_or_panic checked error_page (vary_rules (b_req b)) pkg H2 true alt (rq_method (b_req b)) (sanitize (b_req b))
                                 (l4_resp encode hversion (b_req b) rp)) as [P|E]; [contradiction | exact E]. }
    apply G. exact Hnp.
  Qed.
End HistoryParity.

(** ---------------------------------------------------------------------------------------------
    the response pipe: head, body, future, close
    --------------------------------------------------------------------------------------------- *)
Lemma assoc_app n (a c : headers) :
  assoc n (a ++ c) = match assoc n a with Some v => Some v | None => assoc n c end.
Proof.
  induction a as [|[k v] a IH]; cbn [app assoc]; [reflexivity|]. destruct (beq n k); [reflexivity | exact IH].
Qed.

Lemma assoc_insert_same n v h : assoc n (hm_insert n v h) = Some v.
Proof. unfold hm_insert. rewrite assoc_app, assoc_remove, beq_refl. cbn [assoc]. rewrite beq_refl. reflexivity. Qed.

Lemma assoc_insert_other n k v h : beq k n = false -> assoc n (hm_insert k v h) = assoc n h.
Proof.
  intros E. unfold hm_insert. rewrite assoc_app, assoc_remove, E. cbn [assoc].
  destruct (assoc n h); [reflexivity|]. destruct (beq n k) eqn:E'; [|reflexivity].
  apply beq_eq in E'. subst. rewrite beq_refl in E. discriminate.
Qed.

Lemma assoc_CL_h1_connection st h : assoc H_CL (h1_connection st h) = assoc H_CL h.
Proof.
  unfold h1_connection. destruct (h1_close_delimited st h); [apply assoc_insert_other; reflexivity|].
  destruct (assoc H_CONN h) as [v|].
  - destruct (to_str_ok v && negb (beq v V_CLOSE)); [reflexivity | apply assoc_insert_other; reflexivity].
  - apply assoc_insert_other; reflexivity.
Qed.

Lemma assoc_CL_h2_strip h : assoc H_CL (h2_strip h) = assoc H_CL h.
Proof.
  unfold h2_strip.
  set (h1 := hm_remove H_UPGRADE (hm_remove H_TENC (hm_remove H_PROXYC (hm_remove H_KA (hm_remove H_CONN h))))).
  assert (E : assoc H_CL h1 = assoc H_CL h) by (unfold h1; rewrite !assoc_remove; reflexivity).
  destruct (assoc H_TE h1) as [v|]; [|exact E].
  destruct (beq v V_TRAILERS); [exact E|]. rewrite assoc_remove. exact E.
Qed.

Lemma assoc_CL_alt secure alt r : assoc H_CL (rs_headers (add_alt_svc secure alt r)) = assoc H_CL (rs_headers r).
Proof.
  unfold add_alt_svc. destruct alt as [v|]; [|reflexivity]. destruct secure; [|reflexivity].
  cbn [rs_headers]. unfold hm_append. rewrite assoc_app. destruct (assoc H_CL (rs_headers r)); reflexivity.
Qed.

Lemma assoc_TENC_alt secure alt r : assoc H_TENC (rs_headers (add_alt_svc secure alt r)) = assoc H_TENC (rs_headers r).
Proof.
  unfold add_alt_svc. destruct alt as [v|]; [|reflexivity]. destruct secure; [|reflexivity].
  cbn [rs_headers]. unfold hm_append. rewrite assoc_app. destruct (assoc H_TENC (rs_headers r)); reflexivity.
Qed.

Lemma close_delimited_alt secure alt r f : close_delimited (add_alt_svc secure alt r) f = close_delimited r f.
Proof.
  unfold close_delimited, hm_has. destruct f as [[cs [n|]]|]; try reflexivity.
  rewrite assoc_CL_alt, assoc_TENC_alt. reflexivity.
Qed.

Lemma assoc_CL_ensure_H1 n h : assoc H_CL (ensure_length H1 n h) = Some (dec n).
Proof. cbn [ensure_length]. rewrite assoc_remove. cbn. apply assoc_insert_same. Qed.
Lemma assoc_CL_ensure_H2 n h :
  assoc H_CL (ensure_length H2 n h) = match assoc H_CL h with Some _ => Some (dec n) | None => None end.
Proof.
  cbn [ensure_length]. unfold hm_has. destruct (assoc H_CL h) eqn:E; [apply assoc_insert_same | exact E].
Qed.

Lemma N_len_zero (b : bytes) : (N.of_nat (length b) =? 0) = true <-> b = [].
Proof. destruct b; cbn [length]; split; intros H; try reflexivity; try discriminate; lia. Qed.

Lemma pipe_chunks_H1 a cs :
  pipe_chunks H1 a cs = mkArr (a_head a) (a_bytes a ++ concat cs) (a_ended a).
Proof.
  revert a. induction cs as [|c cs IH]; intros a; cbn [pipe_chunks concat].
  - rewrite app_nil_r. destruct a as [hd0 bs0 en0]; reflexivity.
  - unfold pipe_data. cbn [negb andb]. destruct (N.of_nat (length c) =? 0) eqn:E.
    + apply N_len_zero in E. subst c. rewrite IH. reflexivity.
    + rewrite IH. cbn [a_head a_bytes a_ended]. rewrite app_assoc. reflexivity.
Qed.

Lemma pipe_chunks_H2 a cs : a_ended a = false ->
  pipe_chunks H2 a cs = mkArr (a_head a) (a_bytes a ++ concat cs) false.
Proof.
  revert a. induction cs as [|c cs IH]; intros a Ha; cbn [pipe_chunks concat].
  - rewrite app_nil_r. destruct a as [hd0 bs0 en0]; cbn [a_ended] in Ha; subst; reflexivity.
  - unfold pipe_data. cbn [negb andb]. destruct (N.of_nat (length c) =? 0) eqn:E.
    + apply N_len_zero in E. subst c. rewrite (IH a Ha). reflexivity.
    + rewrite Ha. rewrite IH by reflexivity. cbn [a_head a_bytes a_ended]. rewrite app_assoc. reflexivity.
Qed.

(** [sends_body]: a non-empty body, unless the request is HEAD *)
Lemma sends_body_spec m body :
  sends_body m body = negb (N.of_nat (length body) =? 0) && negb (m =? M_HEAD).
Proof.
  unfold sends_body, method_has_response_body, M_GET, M_POST, M_OPTIONS, M_HEAD.
  destruct (N.of_nat (length body) =? 0); cbn [negb andb orb]; [reflexivity|].
  destruct (m =? 0) eqn:E0; [replace m with 0 by lia; reflexivity|].
  destruct (m =? 2) eqn:E2; [replace m with 2 by lia; reflexivity|].
  destruct (m =? 3) eqn:E3; [replace m with 3 by lia; reflexivity|].
  cbn [orb]. reflexivity.
Qed.

Section Pipe.
  Variable checked : bool.
  Variable error_page : N -> resp.
  Variable vn : list bytes.
  Variable pkg : N -> headers -> headers.

  (** what [pipe_send] (with [head_eos = false], kvarn's value) delivers: the head, then body and chunks in that
      order, and the stream ended *)
  Lemma pipe_send_H1 v st h body cs :
    pipe_send H1 false v st h body cs
    = mkArr (Some (v, st, h1_connection st h)) ((match body with Some b => b | None => [] end) ++ concat cs) false.
  Proof.
    unfold pipe_send, pipe_head.
    assert (D : forall a b, pipe_data H1 a b false = Some (mkArr (a_head a) (a_bytes a ++ b) (a_ended a))).
    { intros a b. unfold pipe_data. cbn [negb andb]. destruct (N.of_nat (length b) =? 0) eqn:E; [|reflexivity].
      apply N_len_zero in E. subst b. rewrite app_nil_r. destruct a as [hd0 bs0 en0]; reflexivity. }
    destruct body as [b|]; [rewrite D|]; rewrite pipe_chunks_H1; unfold pipe_data; cbn [negb andb a_head a_bytes a_ended];
      rewrite app_nil_r; reflexivity.
  Qed.

  Lemma pipe_send_H2 v st h body cs :
    pipe_send H2 false v st h body cs
    = if h2_refuses (h2_strip h) then arr0
      else mkArr (Some (v, st, h2_strip h)) ((match body with Some b => b | None => [] end) ++ concat cs) true.
  Proof.
    unfold pipe_send, pipe_head. destruct (h2_refuses (h2_strip h)); [reflexivity|].
    assert (D : forall a b, a_ended a = false -> pipe_data H2 a b false = Some (mkArr (a_head a) (a_bytes a ++ b) false)).
    { intros a b Ha. unfold pipe_data. cbn [negb andb]. destruct (N.of_nat (length b) =? 0) eqn:E.
      - apply N_len_zero in E. subst b. rewrite app_nil_r. destruct a as [hd0 bs0 en0]; cbn [a_ended] in Ha; subst; reflexivity.
      - rewrite Ha. reflexivity. }
    destruct body as [b|]; [rewrite D by reflexivity|]; rewrite pipe_chunks_H2 by reflexivity; unfold pipe_data;
      cbn [negb andb a_head a_bytes a_ended]; rewrite app_nil_r; reflexivity.
  Qed.

  Notation sendX := (send checked error_page vn pkg).
  Notation pipeX := (send_pipe checked error_page vn pkg).

  (** the body a non-streaming [send] puts on the pipe is the body [send] reports *)
  Lemma body_opt_bytes m (b : bytes) :
    (match (if sends_body m b then Some b else None) with Some x => x | None => [] end)
    = if sends_body m b then b else [].
  Proof. destruct (sends_body m b); reflexivity. Qed.

  Lemma sent_length m (b : bytes) : (m =? M_HEAD) = false ->
    N.of_nat (length (if sends_body m b then b else [])) = N.of_nat (length b).
  Proof.
    intros Hm. rewrite sends_body_spec, Hm. cbn [negb]. rewrite andb_true_r.
    destruct (N.of_nat (length b) =? 0) eqn:E; cbn [negb]; [|reflexivity].
    apply N_len_zero in E. subst b. reflexivity.
  Qed.

  (** Without a future the pipe-level model is [send]: head, body, close arrive as the well-framed response [send]
      constructs — provided no Package extension touches [content-length]. *)
  Lemma send_pipe_no_future hf p secure alt m sd r : pkg_keeps_length pkg ->
    pipeX hf p secure alt m sd r None = sendX p secure alt m sd r.
  Proof.
    intros Hk. unfold send_pipe, send.
    destruct (apply_sd checked error_page vn sd (head_only (add_alt_svc secure alt r))) as [a|e|]; cbn [obind]; try reflexivity.
    set (len := N.of_nat (length (rs_body a))).
    set (v := ensure_version p (rs_version a)).
    f_equal. destruct p.
    - rewrite pipe_send_H1. cbn [concat]. rewrite app_nil_r, body_opt_bytes.
      unfold receive. cbn [a_head a_bytes a_ended].
      destruct (m =? M_HEAD) eqn:Hm.
      + assert (m = M_HEAD) by lia. subst m. rewrite sends_body_head. cbn [length]. reflexivity.
      + rewrite assoc_CL_h1_connection, Hk, assoc_CL_ensure_H1, (sent_length m _ Hm). fold len.
        rewrite beq_refl. reflexivity.
    - rewrite pipe_send_H2. cbn [concat]. rewrite app_nil_r, body_opt_bytes.
      destruct (h2_refuses (h2_strip (pkg v (ensure_length H2 len (rs_headers a))))); [reflexivity|].
      unfold receive. cbn [a_head a_bytes a_ended negb].
      destruct (m =? M_HEAD) eqn:Hm.
      + assert (m = M_HEAD) by lia. subst m. rewrite sends_body_head. cbn [length]. reflexivity.
      + rewrite assoc_CL_h2_strip, Hk, assoc_CL_ensure_H2, (sent_length m _ Hm). fold len.
        destruct (assoc H_CL (rs_headers a)); [rewrite beq_refl|]; reflexivity.
  Qed.

  (** A streamed response (repaired code): on either protocol the client receives ONE well-framed response whose body
      is what [Response::body] (emptied for a 1xx / 204 / 304) and then the future wrote, in that order — nothing for
      HEAD —, whenever the announced length is the number of those bytes, or no length is announced at all: then the
      HTTP/1 answer ends with the connection ([WClosed]). *)
  Definition wrap (p : proto) (r : resp) (f : option (list bytes * option N)) : resp -> wreply :=
    if match p with H1 => close_delimited r f | H2 => false end then WClosed else WResp.

  (** (a HEAD request answered 101: the future — the protocol switch — is run all the same; should it write anything,
      those bytes follow the head of a HEAD answer) *)
  Lemma send_pipe_stream p secure alt m sd r cs ol :
    pkg_keeps_length pkg -> fut_framed (head_only r) (Some (cs, ol)) ->
    exists v h, pipeX false p secure alt m sd r (Some (cs, ol))
                = (if (m =? M_HEAD) && (rs_status r =? 101) && negb (N.of_nat (length (concat cs)) =? 0) then Ok WBroken else
                   Ok (wrap p r (Some (cs, ol))
                        (mkResp v (rs_status r) h (if m =? M_HEAD then [] else rs_body (head_only r) ++ concat cs))))
                /\ v = ensure_version p (rs_version r)
                /\ strip h = strip (pkg v (match ol with
                                           | Some n => ensure_length p n (rs_headers (add_alt_svc secure alt r))
                                           | None => rs_headers (add_alt_svc secure alt r) end)).
  Proof.
    intros Hk Hf. unfold send_pipe. cbn [obind orb].
    rewrite close_delimited_alt.
    set (ra := add_alt_svc secure alt r).
    set (r0 := head_only ra).
    assert (Hb : rs_body r0 = rs_body (head_only r)).
    { unfold r0, ra, head_only. rewrite add_alt_svc_status.
      destruct (ends_with_head (rs_status r)); [reflexivity | apply add_alt_svc_body]. }
    assert (Hs : rs_status r0 = rs_status r) by (unfold r0, ra; rewrite head_only_status; apply add_alt_svc_status).
    assert (Hv : rs_version r0 = rs_version r).
    { unfold r0, ra. rewrite head_only_version. unfold add_alt_svc; destruct alt; [destruct secure|]; reflexivity. }
    assert (Hh : rs_headers r0 = rs_headers ra) by apply head_only_headers.
    rewrite Hb, Hs, Hv, Hh.
    set (rb := head_only r) in *.
    set (v := ensure_version p (rs_version r)).
    set (h1 := match ol with Some n => ensure_length p n (rs_headers ra) | None => rs_headers ra end).
    assert (HhCL : assoc H_CL (rs_headers ra) = assoc H_CL (rs_headers rb)).
    { unfold ra, rb. rewrite assoc_CL_alt, head_only_headers. reflexivity. }
    assert (HhTE : assoc H_TENC (rs_headers rb) = assoc H_TENC (rs_headers r)).
    { unfold rb. rewrite head_only_headers. reflexivity. }
    assert (HhCLr : assoc H_CL (rs_headers rb) = assoc H_CL (rs_headers r)).
    { unfold rb. rewrite head_only_headers. reflexivity. }
    (* the [content-length] the client sees, if any, is the number of bytes written *)
    assert (HCL : forall c, assoc H_CL (pkg v h1) = Some c ->
                            c = dec (N.of_nat (length (rs_body rb ++ concat cs)))).
    { intros c Hc. rewrite Hk in Hc. unfold h1 in Hc. cbn [fut_framed] in Hf. destruct ol as [n|].
      - subst n. destruct p; [rewrite assoc_CL_ensure_H1 in Hc | rewrite assoc_CL_ensure_H2 in Hc;
          destruct (assoc H_CL (rs_headers ra)); [|discriminate]]; inversion Hc; reflexivity.
      - rewrite HhCL in Hc. rewrite Hc in Hf. exact Hf. }
    (* HTTP/1: there is a [content-length], or the connection ends the body *)
    assert (HCL1 : p = H1 -> match assoc H_CL (pkg v h1) with
                             | Some _ => close_delimited r (Some (cs, ol)) = false
                             | None => close_delimited r (Some (cs, ol)) = true
                             end).
    { intros ->. rewrite Hk. unfold h1. cbn [fut_framed close_delimited] in *. destruct ol as [n|].
      - rewrite assoc_CL_ensure_H1. reflexivity.
      - rewrite HhCL. unfold hm_has. rewrite <- HhCLr, <- HhTE.
        destruct (assoc H_CL (rs_headers rb)); [apply andb_false_r|]. rewrite Hf. reflexivity. }
    exists v. unfold wrap. destruct (m =? M_HEAD) eqn:Hm.
    - (* HEAD: neither the body nor the future is written *)
      assert (m = M_HEAD) by lia. subst m. rewrite sends_body_head. cbn [negb andb orb] in *.
      destruct p.
      + rewrite pipe_send_H1. exists (h1_connection (rs_status r) (pkg v h1)).
        split; [|split; [reflexivity | apply strip_h1_connection]].
        unfold receive. cbn [a_head a_bytes a_ended app].
        replace (M_HEAD =? M_HEAD) with true by reflexivity.
        destruct (rs_status r =? 101); cbn [andb concat length].
        * destruct (N.of_nat (length (concat cs)) =? 0) eqn:L; cbn [negb]; [|reflexivity].
          apply N_len_zero in L. rewrite L. destruct (close_delimited r (Some (cs, ol))); reflexivity.
        * replace (N.of_nat 0 =? 0) with true by reflexivity. destruct (close_delimited r (Some (cs, ol))); reflexivity.
      + rewrite pipe_send_H2, h2_strip_accepted. exists (h2_strip (pkg v h1)).
        split; [|split; [reflexivity | apply strip_h2_strip]].
        unfold receive. cbn [a_head a_bytes a_ended app].
        replace (M_HEAD =? M_HEAD) with true by reflexivity.
        destruct (rs_status r =? 101); cbn [andb concat length].
        * destruct (N.of_nat (length (concat cs)) =? 0) eqn:L; cbn [negb]; [|reflexivity].
          apply N_len_zero in L. rewrite L. reflexivity.
        * reflexivity.
    - cbn [negb orb andb].
      assert (Hbytes : (match (if sends_body m (rs_body rb) then Some (rs_body rb) else None) with Some b => b | None => [] end)
                       ++ concat cs = rs_body rb ++ concat cs).
      { rewrite body_opt_bytes, sends_body_spec, Hm. cbn [negb]. rewrite andb_true_r.
        destruct (N.of_nat (length (rs_body rb)) =? 0) eqn:E; cbn [negb]; [|reflexivity].
        apply N_len_zero in E. rewrite E. reflexivity. }
      destruct p.
      + rewrite pipe_send_H1, Hbytes. exists (h1_connection (rs_status r) (pkg v h1)).
        split; [|split; [reflexivity | apply strip_h1_connection]].
        unfold receive. cbn [a_head a_bytes a_ended]. rewrite Hm, assoc_CL_h1_connection.
        pose proof (HCL1 eq_refl) as C1.
        destruct (assoc H_CL (pkg v h1)) as [c|] eqn:Hc.
        * rewrite (HCL c eq_refl), beq_refl, C1. reflexivity.
        * rewrite C1. reflexivity.
      + rewrite pipe_send_H2, h2_strip_accepted, Hbytes. exists (h2_strip (pkg v h1)).
        split; [|split; [reflexivity | apply strip_h2_strip]].
        unfold receive. cbn [a_head a_bytes a_ended negb]. rewrite Hm, assoc_CL_h2_strip.
        destruct (assoc H_CL (pkg v h1)) as [c|] eqn:Hc; [|reflexivity].
        rewrite (HCL c eq_refl), beq_refl. reflexivity.
  Qed.

  Lemma strip_ol_cong (ol : option N) p q h h' : strip h = strip h' ->
    strip (match ol with Some n => ensure_length p n h | None => h end)
    = strip (match ol with Some n => ensure_length q n h' | None => h' end).
  Proof. intros E. destruct ol; [rewrite !strip_ensure_length|]; exact E. Qed.

  (** protocol parity of [send_pipe], streamed or not *)
  Lemma normalise_wrap p r f x : normalise (wrap p r f x) = WResp (mkResp 0 (rs_status x) (strip (rs_headers x)) (rs_body x)).
  Proof. unfold wrap. destruct (match p with H1 => close_delimited r f | H2 => false end); reflexivity. Qed.

  Lemma send_pipe_parity secure1 alt m sd r f :
    pkg_oblivious pkg -> pkg_keeps_length pkg -> fut_framed (head_only r) f ->
    onorm (pipeX false H1 secure1 alt m sd r f) = onorm (pipeX false H2 true alt m sd r f).
  Proof.
    intros Ho Hk Hf. destruct f as [[cs ol]|].
    - destruct (send_pipe_stream H1 secure1 alt m sd r cs ol Hk Hf) as (v1 & h1 & E1 & _ & S1).
      destruct (send_pipe_stream H2 true alt m sd r cs ol Hk Hf) as (v2 & h2 & E2 & _ & S2).
      rewrite E1, E2.
      destruct ((m =? M_HEAD) && (rs_status r =? 101) && negb (N.of_nat (length (concat cs)) =? 0)); [reflexivity|].
      cbn [onorm]. rewrite !normalise_wrap. cbn [rs_status rs_headers rs_body]. rewrite S1, S2.
      f_equal. f_equal. f_equal. apply Ho. apply strip_ol_cong.
      destruct (add_alt_svc_eqv secure1 true alt r) as (_ & _ & E & _). exact E.
    - rewrite !send_pipe_no_future by exact Hk. apply send_parity. exact Ho.
  Qed.

  (** [handle_connection]'s own answers (429, 409) *)
  Lemma send_direct_resp p m r :
    exists h, send_direct p m r
              = Ok (WResp (mkResp (ensure_version p (rs_version r)) (rs_status r) h (if m =? M_HEAD then [] else rs_body r)))
              /\ strip h = strip (rs_headers r).
  Proof.
    unfold send_direct. set (len := N.of_nat (length (rs_body r))). set (v := ensure_version p (rs_version r)).
    set (body := if m =? M_HEAD then [] else rs_body r).
    assert (D : forall q a, a_ended a = false -> pipe_data q a body true = Some (mkArr (a_head a) (a_bytes a ++ body) (match q with H1 => false | H2 => true end))).
    { intros q a Ha. unfold pipe_data. cbn [negb andb]. destruct q; [|rewrite Ha]; rewrite ?Ha; reflexivity. }
    destruct p.
    - cbn [pipe_head]. rewrite D by reflexivity. exists (h1_connection (rs_status r) (ensure_length H1 len (rs_headers r))).
      split; [|rewrite strip_h1_connection; apply strip_ensure_length].
      unfold receive. cbn [a_head a_bytes a_ended app]. unfold body. destruct (m =? M_HEAD) eqn:Hm; [reflexivity|].
      rewrite assoc_CL_h1_connection, assoc_CL_ensure_H1. fold len. rewrite beq_refl. reflexivity.
    - cbn [pipe_head]. rewrite h2_strip_accepted, D by reflexivity.
      exists (h2_strip (ensure_length H2 len (rs_headers r))).
      split; [|rewrite strip_h2_strip; apply strip_ensure_length].
      unfold receive. cbn [a_head a_bytes a_ended app negb]. unfold body. destruct (m =? M_HEAD) eqn:Hm; [reflexivity|].
      rewrite assoc_CL_h2_strip, assoc_CL_ensure_H2. fold len.
      destruct (assoc H_CL (rs_headers r)); [rewrite beq_refl|]; reflexivity.
  Qed.

  Lemma send_direct_parity m r : onorm (send_direct H1 m r) = onorm (send_direct H2 m r).
  Proof.
    destruct (send_direct_resp H1 m r) as (h1 & E1 & S1). destruct (send_direct_resp H2 m r) as (h2 & E2 & S2).
    rewrite E1, E2. cbn [onorm normalise rs_status rs_headers rs_body]. rewrite S1, S2. reflexivity.
  Qed.
End Pipe.

(** the code before the repair d63bba7 ran the future for HEAD too: the streamed bytes follow the head of the HEAD answer
    — stray bytes on the HTTP/1 connection, DATA the h2 client refuses on the HTTP/2 stream *)
Lemma head_stream_v0_refuted_lemma : exists r cs n,
  fut_framed r (Some (cs, Some n)) /\
  send_pipe false (fun _ => r) [] (fun _ h => h) true H1 true None M_HEAD (Ok None) r (Some (cs, Some n)) = Ok WBroken /\
  send_pipe false (fun _ => r) [] (fun _ h => h) true H2 true None M_HEAD (Ok None) r (Some (cs, Some n)) = Ok WBroken /\
  (exists w1 w2, send_pipe false (fun _ => r) [] (fun _ h => h) false H1 true None M_HEAD (Ok None) r (Some (cs, Some n)) = Ok (WResp w1) /\
                 send_pipe false (fun _ => r) [] (fun _ h => h) false H2 true None M_HEAD (Ok None) r (Some (cs, Some n)) = Ok (WResp w2) /\
                 rs_body w1 = [] /\ rs_body w2 = []).
Proof.
  exists (mkResp V11 200 [(B "content-type", B "text/plain")] []), [B "first "; B "second"], 12.
  split; [reflexivity|]. split; [vm_compute; reflexivity|]. split; [vm_compute; reflexivity|].
  eexists. eexists. vm_compute. repeat split.
Qed.

(** why [send_response(head, false)]: were the head of a response with an EMPTY [Response::body] sent with END_STREAM
    ("a response without a body is complete with its head"), the HTTP/2 client of a streamed response would get an empty
    body — every write of the future fails on the ended stream — while the HTTP/1.1 client gets the streamed bytes *)
Lemma head_end_of_stream_refuted_lemma : exists v st h cs,
  concat cs <> [] /\
  receive H1 M_GET false (pipe_send H1 true v st (ensure_length H1 (N.of_nat (length (concat cs))) h) None cs)
    = WResp (mkResp v st (h1_connection st (ensure_length H1 (N.of_nat (length (concat cs))) h)) (concat cs)) /\
  receive H2 M_GET false (pipe_send H2 true v st h None cs) = WResp (mkResp v st (h2_strip h) []) /\
  receive H2 M_GET false (pipe_send H2 false v st h None cs) = WResp (mkResp v st (h2_strip h) (concat cs)).
Proof.
  exists V11, 200, [(B "content-type", B "text/plain")], [B "first "; B "second"].
  split; [discriminate|]. split; [vm_compute; reflexivity|]. split; vm_compute; reflexivity.
Qed.

(** ---------------------------------------------------------------------------------------------
    request bodies: which bytes [read_to_bytes(max_len)] returns
    --------------------------------------------------------------------------------------------- *)
Lemma firstn_min_all {A} n (l : list A) : firstn (Nat.min (length l) n) l = firstn n l.
Proof.
  destruct (Nat.le_ge_cases (length l) n) as [H|H].
  - rewrite Nat.min_l by exact H. rewrite firstn_all, firstn_all2 by exact H. reflexivity.
  - rewrite Nat.min_r by exact H. reflexivity.
Qed.

(** [Http1Body] with [offset] bytes already handed out (through [AsyncRead]; repairs 9c56fae / 2820a60): what is left of
    the body is the early bytes from [offset] on, then what the client still sends; [read_to_bytes] continues there *)
Lemma h1_read_rest early conn cl off max_len :
  cl - off = N.of_nat (length (skipn (N.to_nat off) early ++ conn)) ->
  fst (h1_read_to_bytes (mkH1B early conn cl off) max_len)
  = firstn (N.to_nat max_len) (skipn (N.to_nat off) early ++ conn).
Proof.
  intros Hcl. unfold h1_read_to_bytes. cbn [hb_cl hb_early hb_conn hb_off]. rewrite Hcl.
  set (early' := skipn (N.to_nat off) early).
  set (body := early' ++ conn).
  destruct (N.min (N.of_nat (length body)) max_len =? 0) eqn:E; cbn [fst].
  - assert (H : length body = 0%nat \/ max_len = 0) by lia. destruct H as [H|H].
    + destruct body; [|discriminate H]. rewrite firstn_nil. reflexivity.
    + rewrite H. reflexivity.
  - replace (N.to_nat (N.min (N.of_nat (length body)) max_len)) with (Nat.min (length body) (N.to_nat max_len)) by lia.
    set (len := Nat.min (length body) (N.to_nat max_len)).
    rewrite <- (firstn_min_all (N.to_nat max_len) body). fold len. unfold body.
    rewrite (firstn_app len early' conn). f_equal. f_equal.
    rewrite firstn_length. lia.
Qed.

Lemma h1_read_first early conn max_len :
  fst (h1_read_to_bytes (mkH1B early conn (N.of_nat (length (early ++ conn))) 0) max_len)
  = firstn (N.to_nat max_len) (early ++ conn).
Proof. apply (h1_read_rest early conn (N.of_nat (length (early ++ conn))) 0 max_len). change (N.to_nat 0) with 0%nat. cbn [skipn]. lia. Qed.

Lemma h2_read_loop_spec max_len frames : forall acc,
  N.of_nat (length acc) <= max_len ->
  fst (h2_read_loop max_len acc frames) = firstn (N.to_nat max_len) (acc ++ concat frames).
Proof.
  induction frames as [|d rest IH]; intros acc Hacc; cbn [h2_read_loop concat fst].
  - rewrite app_nil_r. symmetry. apply firstn_all2. lia.
  - destruct (max_len - N.of_nat (length acc) =? 0) eqn:E; cbn [fst].
    + assert (Hl : length acc = N.to_nat max_len) by lia.
      rewrite firstn_app, Hl, Nat.sub_diag, firstn_O, app_nil_r. symmetry. apply firstn_all2. lia.
    + set (left := N.to_nat (max_len - N.of_nat (length acc))).
      assert (Hleft : (left = N.to_nat max_len - length acc)%nat) by (unfold left; lia).
      assert (Hlen' : length (acc ++ firstn left d) = (length acc + Nat.min left (length d))%nat)
        by (rewrite app_length, firstn_length; reflexivity).
      destruct (max_len - N.of_nat (length (acc ++ firstn left d)) =? 0) eqn:E'; cbn [fst].
      * (* the limit is reached inside this frame *)
        assert (Hd : (left <= length d)%nat) by lia.
        rewrite firstn_app. rewrite (firstn_all2 (n := N.to_nat max_len) acc) by lia.
        f_equal. rewrite <- Hleft. rewrite firstn_app.
        replace (left - length d)%nat with 0%nat by lia. rewrite firstn_O, app_nil_r. reflexivity.
      * (* the whole frame is taken *)
        assert (Hd : (length d < left)%nat) by lia.
        rewrite (firstn_all2 (n := left) d) by lia.
        rewrite IH by (rewrite app_length; lia). rewrite <- app_assoc. reflexivity.
Qed.

(** For every request body, however it is cut into DATA frames (HTTP/2) and however much of it arrives with the head
    (HTTP/1), and every limit: [read_to_bytes(max_len)] hands the handler the first [max_len] bytes of the body on
    both protocols. *)
Lemma read_to_bytes_parity_lemma body early conn frames max_len :
  early ++ conn = body -> concat frames = body ->
  fst (h1_read_to_bytes (mkH1B early conn (N.of_nat (length body)) 0) max_len) = firstn (N.to_nat max_len) body /\
  fst (h2_read_to_bytes frames max_len) = firstn (N.to_nat max_len) body.
Proof.
  intros He Hf. split.
  - subst body. apply h1_read_first.
  - unfold h2_read_to_bytes. rewrite h2_read_loop_spec by (cbn [length]; lia). cbn [app]. rewrite Hf. reflexivity.
Qed.

(** ... but a handler that calls [read_to_bytes] AGAIN after a call that hit its limit gets nothing on HTTP/1.1 and the
    DATA frames after the one in which the limit was reached on HTTP/2 *)
Lemma second_read_refuted_lemma : exists body early conn frames l1 l2,
  early ++ conn = body /\ concat frames = body /\
  h1_reads (mkH1B early conn (N.of_nat (length body)) 0) [l1; l2] <> h2_reads frames [l1; l2].
Proof.
  exists [1; 2; 3; 4; 5; 6], [1; 2; 3; 4; 5; 6], [], [[1; 2; 3]; [4; 5; 6]], 2, 10.
  split; [reflexivity|]. split; [reflexivity|]. vm_compute. discriminate.
Qed.

(** [extensions::stream_body] (repaired, d675f8a): the length it announces is the number of bytes its future writes *)
Lemma stream_plan_framed_lemma file a c :
  match stream_plan true file (Some (a, c)) with Some (b, n) => n = N.of_nat (length b) | None => True end /\
  match stream_plan true file None with Some (b, n) => n = N.of_nat (length b) /\ b = file | None => False end.
Proof.
  unfold stream_plan. cbn [andb]. split.
  - destruct (N.of_nat (length file) <=? a) eqn:E; [exact I|].
    rewrite firstn_length, skipn_length. lia.
  - rewrite N.sub_0_r. cbn [skipn N.to_nat]. replace (N.to_nat 0) with 0%nat by reflexivity. cbn [skipn].
    rewrite N.min_id, firstn_length, Nat2N.id, firstn_all. split; [lia | reflexivity].
Qed.

Lemma stream_plan_v0_refuted_lemma : exists file a c, a < c /\
  match stream_plan false file (Some (a, c)) with Some (b, n) => n <> N.of_nat (length b) | None => False end.
Proof. exists [1; 2; 3], 1, 10. split; [lia|]. vm_compute. discriminate. Qed.

(** ... and (repaired) it answers a Range exactly as [apply_to_response] answers it for a body in memory (Model/Range.v
    [apply_range], C09): 416 when the start is at or after the end of the file, else 206, the same [content-range], the
    same bytes *)
Lemma stream_body_as_in_memory_lemma checked file a c : a < c ->
  match apply_range checked (Some (a, c)) 200 file with
  | Ok g => stream_plan true file (Some (a, c)) = Some (r_body g, N.of_nat (length (r_body g))) /\
            stream_head true file (Some (a, c)) = Some (r_status g, r_content_range g)
  | Err _ => stream_plan true file (Some (a, c)) = None /\ stream_head true file (Some (a, c)) = None
  | Panic => False
  end.
Proof.
  intros Hac. unfold apply_range, stream_plan, stream_head. cbn [andb].
  set (len := N.of_nat (length file)).
  destruct (len <=? a) eqn:Ea; [split; reflexivity|].
  assert (Hre : (if len <=? c then len else c) = N.min c len) by (destruct (len <=? c) eqn:Ec; lia).
  rewrite Hre. set (re := N.min c len).
  unfold sub_u64. replace (1 <=? re) with true by (unfold re; lia). cbn [obind].
  unfold slice_chk, slice_get.
  replace (Nat.leb (N.to_nat a) (N.to_nat re) && Nat.leb (N.to_nat re) (length file))%bool with true.
  2:{ symmetry. apply andb_true_iff. split; apply Nat.leb_le; unfold re, len in *; lia. }
  cbn [obind r_body r_status r_content_range]. unfold slice.
  replace (N.to_nat re - N.to_nat a)%nat with (N.to_nat (re - a)) by lia.
  split; [|reflexivity]. f_equal. f_equal.
  rewrite firstn_length, skipn_length. unfold re, len in *. lia.
Qed.

(** the code before the repair answered 200 without [content-range] *)
Lemma stream_head_v0_lemma file a c : stream_head false file (Some (a, c)) = Some (200, None).
Proof. reflexivity. Qed.

(** ---- the other repairs of [SendKind::send] made for other properties, as they show on both protocols ---- *)
(** 21f0154: a Range that starts at or after the end of the body is answered with the host's 416 page carrying the [vary]
    header of the request's rules (when that page has a body) *)
Lemma range_not_satisfiable_page_lemma checked error_page vn a c r :
  (rs_status r =? 304) = false -> N.of_nat (length (rs_body r)) <= a ->
  apply_sd checked error_page vn (Ok (Some (a, c))) r = Ok (vary_from_settings vn (error_page 416)) /\
  (rs_body (error_page 416) <> [] ->
   assoc H_VARY (rs_headers (vary_from_settings vn (error_page 416))) = Some (vary_value vn) /\
   rs_body (vary_from_settings vn (error_page 416)) = rs_body (error_page 416)).
Proof.
  intros H304 Hlen. split.
  - unfold apply_sd. rewrite H304. unfold apply_range.
    replace (N.of_nat (length (rs_body r)) <=? a) with true by lia. reflexivity.
  - intros Hb. unfold vary_from_settings.
    destruct (N.of_nat (length (rs_body (error_page 416))) =? 0) eqn:E.
    + apply N_len_zero in E. contradiction.
    + cbn [rs_headers rs_body]. split; [apply assoc_insert_same | reflexivity].
Qed.

(** 89e2956: a 1xx / 204 / 304 answer to a request without a Range header has no body on either protocol, whatever an
    extension left on the response *)
Lemma bodiless_status_lemma checked error_page vn pkg p secure alt m path_ok r w :
  ends_with_head (rs_status r) = true ->
  send checked error_page vn pkg p secure alt m (sd_of path_ok None) r = Ok (WResp w) ->
  rs_body w = [] /\ rs_status w = rs_status r.
Proof.
  intros Hs. unfold send, sd_of, sanitize_range.
  set (ra := add_alt_svc secure alt r).
  assert (H0 : head_only ra = mkResp (rs_version ra) (rs_status r) (rs_headers ra) []).
  { unfold head_only, ra. rewrite add_alt_svc_status, Hs. reflexivity. }
  rewrite H0.
  assert (E : exists h, (if path_ok then apply_sd checked error_page vn (Ok None) (mkResp (rs_version ra) (rs_status r) (rs_headers ra) [])
                         else apply_sd checked error_page vn (Err 400) (mkResp (rs_version ra) (rs_status r) (rs_headers ra) []))
                        = Ok (mkResp (rs_version ra) (rs_status r) h [])).
  { destruct path_ok; unfold apply_sd; cbn [rs_status rs_body rs_headers rs_version].
    - destruct (rs_status r =? 304); [eexists; reflexivity|]. unfold apply_range. cbn [length].
      cbn [r_accept_ranges r_content_range r_status r_body]. eexists; reflexivity.
    - eexists; reflexivity. }
  destruct E as [h E].
  replace (apply_sd checked error_page vn (if path_ok then Ok None else Err 400)
                    {| rs_version := rs_version ra; rs_status := rs_status r; rs_headers := rs_headers ra; rs_body := [] |})
    with (Ok (mkResp (rs_version ra) (rs_status r) h [])) by (destruct path_ok; symmetry; exact E).
  cbn [obind rs_body rs_status rs_headers rs_version].
  assert (Sb : sends_body m [] = false) by reflexivity. rewrite Sb.
  destruct p.
  - intros H. inversion H. split; reflexivity.
  - destruct (h2_refuses _); intros H; inversion H. split; reflexivity.
Qed.

(** 7334433: after an answer that ends the HTTP/1 connection nothing more is answered on it — while the HTTP/2 connection
    goes on: the hypothesis "only the last" of [pair_hist_answered] is needed.  Each answer is the same on both. *)
Definition unk_page : resp := mkResp V11 200 [(B "content-type", B "text/plain")] [].
Lemma close_delimited_not_last_refuted_lemma : exists checked ops alt e416 exs,
  Forall ex_ok exs /\
  map is_resp (pair_hist checked ops alt e416 H1 true true exs) = [true; false] /\
  map is_resp (pair_hist checked ops alt e416 H2 true true exs) = [true; true] /\
  map (send_ex checked ops alt e416 H1 true) exs
    = [Ok (WClosed (mkResp V11 200 [(B "content-type", B "text/plain"); (B "connection", B "close")] (B "first second")));
       Ok (WResp (mkResp V11 200 [(B "content-type", B "text/plain"); (B "content-length", B "0"); (B "connection", B "keep-alive")] []))] /\
  map (option_map onorm) (map (fun e => Some (send_ex checked ops alt e416 H1 true e)) exs)
    = map (option_map onorm) (pair_hist checked ops alt e416 H2 true true exs).
Proof.
  exists false, [], None, unk_page,
    [mkEx M_GET None true unk_page 0 None false (Some ([B "first "; B "second"], None)) [];
     mkEx M_GET None true unk_page 0 None false None []].
  split; [|vm_compute; repeat split].
  repeat constructor; cbn; try lia; try discriminate; try (intros H; exfalso; apply H; reflexivity).
Qed.

(** the package menu leaves [content-length] alone whenever none of its extensions names a connection-level header *)
Lemma run_pkg_op_keeps_CL o h : hop (pkg_op_name o) = false -> assoc H_CL (run_pkg_op o h) = assoc H_CL h.
Proof.
  intros Hn. assert (Hne : beq (pkg_op_name o) H_CL = false).
  { destruct (beq (pkg_op_name o) H_CL) eqn:E; [|reflexivity]. apply beq_eq in E. rewrite E in Hn. discriminate. }
  destruct o as [n v|n v|n|n v]; cbn [run_pkg_op pkg_op_name] in *.
  - apply assoc_insert_other. exact Hne.
  - unfold hm_or_insert. destruct (hm_has n h); [reflexivity|]. rewrite assoc_app. cbn [assoc].
    destruct (assoc H_CL h); [reflexivity|]. destruct (beq H_CL n) eqn:E; [|reflexivity].
    apply beq_eq in E. subst. rewrite beq_refl in Hne. discriminate.
  - rewrite assoc_remove, Hne. reflexivity.
  - unfold hm_append. rewrite assoc_app. cbn [assoc].
    destruct (assoc H_CL h); [reflexivity|]. destruct (beq H_CL n) eqn:E; [|reflexivity].
    apply beq_eq in E. subst. rewrite beq_refl in Hne. discriminate.
Qed.

Lemma pkg_menu_keeps_length ops :
  Forall (fun o => hop (pkg_op_name o) = false) ops -> pkg_keeps_length (pkg_menu ops).
Proof.
  intros Hops v h. unfold pkg_menu. clear v. revert h.
  induction Hops as [|o ops Ho _ IH]; intros h; cbn [fold_left]; [reflexivity|].
  rewrite IH. apply run_pkg_op_keeps_CL. exact Ho.
Qed.

Section PairHist.
  Variable checked : bool.
  Variable ops : list pkg_op.
  Variable alt : option bytes.
  Variable e416 : resp.
  Hypothesis Hops : Forall (fun o => hop (pkg_op_name o) = false) ops.

  Lemma ex_seq p secure exs :
    serve_seq unit exch (ex_ans checked ops alt e416) p secure tt 0 1 exs = map (send_ex checked ops alt e416 p secure) exs.
  Proof.
    generalize 0 at 1. induction exs as [|e exs IH]; intros n; cbn [serve_seq map ex_ans]; [reflexivity|].
    rewrite IH. reflexivity.
  Qed.

  (** every exchange of the domain is answered with a response — one that ends the HTTP/1 connection exactly when
      [ex_closes] says so *)
  Lemma send_ex_resp p secure e : ex_ok e ->
    exists r, send_ex checked ops alt e416 p secure e
              = Ok ((if match p with H1 => ex_closes e | H2 => false end then WClosed else WResp) r).
  Proof.
    intros (_ & Hlen & Hf & H101). unfold send_ex, ex_closes.
    destruct (ex_limited e); cbn [negb andb].
    { destruct (send_direct_resp p (ex_method e) (ex_l4 e)) as (h & E & _). rewrite E. destruct p; eexists; reflexivity. }
    pose proof (pkg_menu_keeps_length ops Hops) as Hk.
    destruct (ex_fut e) as [[cs ol]|].
    { destruct (send_pipe_stream checked (fun _ => e416) (ex_vary e) (pkg_menu ops) p secure alt (ex_method e)
                  (sd_of (ex_path_ok e) (ex_range e)) (ex_l4 e) cs ol Hk Hf) as (v & h & E & _). rewrite E.
      rewrite (H101 ltac:(discriminate)). cbn [andb]. unfold wrap. eexists; reflexivity. }
    rewrite send_pipe_no_future by exact Hk. cbn [close_delimited].
    destruct (send_ok_or_panic checked (fun _ => e416) (ex_vary e) (pkg_menu ops) p secure alt (ex_method e)
                               (sd_of (ex_path_ok e) (ex_range e)) (ex_l4 e)) as [P|[w Hw]].
    - exfalso. exact (send_no_panic _ _ _ _ _ _ _ _ _ _ _ Hlen P).
    - destruct w as [r|r| |]; [exists r; rewrite Hw; destruct p; reflexivity| | |].
      + exfalso. exact (send_not_closed _ _ _ _ _ _ _ _ _ _ _ Hw).
      + exfalso. exact (send_never_refused _ _ _ _ _ _ _ _ _ _ Hw).
      + exfalso. exact (send_not_broken _ _ _ _ _ _ _ _ _ _ Hw).
  Qed.

  Lemma send_ex_is_resp p secure e : ex_ok e -> is_resp (Some (send_ex checked ops alt e416 p secure e)) = true.
  Proof.
    intros He. destruct (send_ex_resp p secure e He) as [r Hr]. rewrite Hr.
    destruct (match p with H1 => ex_closes e | H2 => false end); reflexivity.
  Qed.

  Lemma close_only_last_app (f : exch -> outcome wreply) exs tail :
    Forall (fun e => forall x, f e <> Ok (WClosed x)) exs -> (length tail <= 1)%nat ->
    close_only_last (map f (exs ++ tail)).
  Proof.
    intros F L. induction F as [|e exs He F IH]; cbn [app map].
    - destruct tail as [|t [|t' tail']]; cbn [map close_only_last length] in *; [exact I | split; exact I | lia].
    - cbn [close_only_last]. split; [|exact IH].
      destruct (map f (exs ++ tail)); [exact I | exact He].
  Qed.

  Lemma pair_hist_eq p secure exs tail :
    Forall ex_ok (exs ++ tail) -> Forall (fun e => ex_closes e = false) exs -> (length tail <= 1)%nat ->
    pair_hist checked ops alt e416 p true secure (exs ++ tail)
    = map (fun e => Some (send_ex checked ops alt e416 p secure e)) (exs ++ tail).
  Proof.
    intros Hd Hc Hl. unfold pair_hist. rewrite <- (map_map (send_ex checked ops alt e416 p secure) Some), <- ex_seq.
    destruct p; [|apply conn_loop_h2].
    apply conn_loop_h1_last.
    - apply Forall_forall. intros e He. exact (proj1 (proj1 (Forall_forall _ _) Hd e He)).
    - rewrite ex_seq. apply Forall_forall. intros w Hw. apply in_map_iff in Hw as (e & <- & He).
      destruct (send_ex_resp H1 secure e (proj1 (Forall_forall _ _) Hd e He)) as [r Hr]. rewrite Hr.
      eexists; split; [reflexivity | destruct (ex_closes e); discriminate].
    - rewrite ex_seq. apply close_only_last_app; [|exact Hl].
      apply Forall_forall. intros e He x Hx.
      assert (Hok : ex_ok e) by (apply (proj1 (Forall_forall _ _) Hd); apply in_or_app; left; exact He).
      destruct (send_ex_resp H1 secure e Hok) as [r Hr]. rewrite Hr in Hx.
      rewrite (proj1 (Forall_forall _ _) Hc e He) in Hx. discriminate.
  Qed.

  (** for EVERY history in the domain — in which at most the last answer ends the HTTP/1 connection — the model
      component equals the specification component: all requests are answered with a response on both connections,
      and the answers agree up to [normalise] *)
  Lemma pair_hist_answered secure1 exs tail :
    Forall ex_ok (exs ++ tail) -> Forall (fun e => ex_closes e = false) exs -> (length tail <= 1)%nat ->
    forallb is_resp (pair_hist checked ops alt e416 H1 true secure1 (exs ++ tail)) = true /\
    forallb is_resp (pair_hist checked ops alt e416 H2 true true (exs ++ tail)) = true /\
    map (option_map onorm) (pair_hist checked ops alt e416 H1 true secure1 (exs ++ tail))
      = map (option_map onorm) (pair_hist checked ops alt e416 H2 true true (exs ++ tail)).
  Proof.
    intros Hd Hc Hl. rewrite !pair_hist_eq by assumption.
    assert (A : forall p secure, forallb is_resp (map (fun e => Some (send_ex checked ops alt e416 p secure e)) (exs ++ tail)) = true).
    { intros p secure. apply forallb_forall. intros o Ho. apply in_map_iff in Ho as (e & <- & He).
      apply send_ex_is_resp. exact (proj1 (Forall_forall _ _) Hd e He). }
    split; [apply A | split; [apply A|]].
    rewrite !map_map. apply map_ext_in. intros e He. cbn [option_map]. f_equal. unfold send_ex.
    destruct (ex_limited e); [apply send_direct_parity|].
    apply send_pipe_parity.
    - apply pkg_menu_oblivious. exact Hops.
    - apply pkg_menu_keeps_length. exact Hops.
    - exact (proj1 (proj2 (proj2 (proj1 (Forall_forall _ _) Hd e He)))).
  Qed.
End PairHist.

(** before the repair dfe4d54 (no [drain]) an unread request body broke the HTTP/1 connection only: the witness of
    the former known finding, PUT /echo with [range: bytes=10-4] and 700 body bytes (the Range is refused, no handler
    runs), then GET *)
Definition wit_page : resp := mkResp V11 200 [(B "content-type", B "text/plain")] (B "0123456789").
Lemma unread_body_v0_refuted_lemma : exists checked ops alt e416 exs,
  Forall (fun e => pr_no_request_body (ex_method e) = true -> ex_blen e = 0) exs /\
  forallb is_resp (pair_hist checked ops alt e416 H1 false true exs) = false /\
  forallb is_resp (pair_hist checked ops alt e416 H2 false true exs) = true /\
  forallb is_resp (pair_hist checked ops alt e416 H1 true true exs) = true.
Proof.
  exists false, [], None, wit_page,
    [mkEx M_OTHER (Some (B "bytes=10-4")) true wit_page 700 None false None []; mkEx M_GET None true wit_page 0 None false None []].
  split; [|vm_compute; repeat split].
  constructor; [|constructor; [|constructor]]; cbn [ex_method ex_blen]; intros H; [discriminate H | reflexivity].
Qed.

(** the domain hypothesis is needed: the [content-length] of a GET is not looked at ([get_body_length_request]), so
    body bytes of a GET that arrive after its head are in front of the next request line on HTTP/1 — also with [drain] *)
Lemma undeclared_body_refuted_lemma : exists checked ops alt e416 exs,
  forallb is_resp (pair_hist checked ops alt e416 H1 true true exs) = false /\
  forallb is_resp (pair_hist checked ops alt e416 H2 true true exs) = true.
Proof.
  exists false, [], None, wit_page, [mkEx M_GET None true wit_page 5 None false None []; mkEx M_GET None true wit_page 0 None false None []].
  vm_compute. split; reflexivity.
Qed.

(** ---------------------------------------------------------------------------------------------
    the end of an HTTP/1 connection: a body that only that end delimits
    --------------------------------------------------------------------------------------------- *)
Lemma receive_end_orderly m w : receive_end m EOrderly w = w.
Proof. destruct w; reflexivity. Qed.

Lemma h1_conn_end_shutdown secure : h1_conn_end secure true = EOrderly.
Proof. unfold h1_conn_end. destruct secure; reflexivity. Qed.

Lemma h1_conn_end_plain shutdown : h1_conn_end false shutdown = EOrderly.
Proof. reflexivity. Qed.

Lemma oreceive_end_orderly m o : oreceive_end m EOrderly o = o.
Proof. destruct o as [w| |]; cbn [oreceive_end]; [rewrite receive_end_orderly|..]; reflexivity. Qed.

Lemma send_ex_end_shutdown checked ops alt e416 p secure e :
  send_ex_end true checked ops alt e416 p secure e = send_ex checked ops alt e416 p secure e.
Proof.
  unfold send_ex_end. destruct p; [|reflexivity]. rewrite h1_conn_end_shutdown. apply oreceive_end_orderly.
Qed.

Lemma conn_loop_ext (S Q : Type) (ans ans' : proto -> bool -> S -> N -> Q -> S * outcome wreply) qm ql qe wants :
  (forall p sec s n q, ans p sec s n q = ans' p sec s n q) ->
  forall p drain secure qs s cs now dt,
    conn_loop S Q ans qm ql qe wants p drain secure s cs now dt qs = conn_loop S Q ans' qm ql qe wants p drain secure s cs now dt qs.
Proof.
  intros Hext p drain secure qs. induction qs as [|q qs IH]; intros s cs now dt; cbn [conn_loop]; [reflexivity|].
  destruct cs as [|n|].
  - rewrite Hext. destruct (ans' p secure s now q) as [s' w]. rewrite IH. reflexivity.
  - rewrite IH. reflexivity.
  - rewrite IH. reflexivity.
Qed.

(** with [shutdown] — the code as it is — the end of the connection changes nothing: the history model with the connection
    end IS [pair_hist], and every theorem about [pair_hist] is one about the run with the end of the connection in it *)
Lemma pair_hist_end_shutdown checked ops alt e416 p drain secure exs :
  pair_hist_end true checked ops alt e416 p drain secure exs = pair_hist checked ops alt e416 p drain secure exs.
Proof.
  unfold pair_hist_end, pair_hist. apply conn_loop_ext. intros p' sec s n q. unfold ex_ans_end, ex_ans.
  rewrite send_ex_end_shutdown. reflexivity.
Qed.

(** on plain TCP there is no close_notify to miss: FIN is the orderly end, whichever way the loop is left *)
Lemma pair_hist_end_plain shutdown checked ops alt e416 drain exs :
  pair_hist_end shutdown checked ops alt e416 H1 drain false exs = pair_hist checked ops alt e416 H1 drain false exs.
Proof.
  unfold pair_hist_end, pair_hist.
  assert (G : forall cs s now dt,
    conn_loop unit exch (ex_ans_end shutdown checked ops alt e416) ex_method ex_blen (fun _ => 0) (fun _ e => ex_want e) H1 drain false s cs now dt exs =
    conn_loop unit exch (ex_ans checked ops alt e416) ex_method ex_blen (fun _ => 0) (fun _ e => ex_want e) H1 drain false s cs now dt exs).
  { induction exs as [|e exs IH]; intros cs s now dt; cbn [conn_loop]; [reflexivity|].
    destruct cs as [|n|]; try (rewrite IH; reflexivity).
    unfold ex_ans_end at 1, ex_ans at 1, send_ex_end. rewrite h1_conn_end_plain, oreceive_end_orderly.
    rewrite IH. reflexivity. }
  apply G.
Qed.

Lemma close_delimited_iff_close_notify_lemma (m : N) (r : resp) (secure shutdown : bool) :
  (end_delimited m r = true ->
     (receive_end m (h1_conn_end secure shutdown) (WClosed r) = WClosed r <-> (secure = false \/ shutdown = true)) /\
     (receive_end m (h1_conn_end secure shutdown) (WClosed r) = WBroken <-> (secure = true /\ shutdown = false))) /\
  (end_delimited m r = false -> receive_end m (h1_conn_end secure shutdown) (WClosed r) = WClosed r) /\
  (forall (ce : conn_end) (w : wreply), (forall x, w <> WClosed x) -> receive_end m ce w = w).
Proof.
  split; [|split].
  - intros Hd. unfold h1_conn_end. destruct secure, shutdown; cbn [andb negb receive_end]; rewrite ?Hd;
      (split; split; intros H; try reflexivity; try discriminate; try tauto);
      try (destruct H as [H|H]; discriminate); try (destruct H as [H1 H2]; discriminate).
  - intros Hd. unfold h1_conn_end. destruct (secure && negb shutdown); cbn [receive_end]; rewrite ?Hd; reflexivity.
  - intros ce w Hw. destruct w as [x|x| |]; try reflexivity. exfalso. apply (Hw x). reflexivity.
Qed.

Lemma stream_parity_with_end_lemma (checked : bool) (error_page : N -> resp) (vn : list bytes) (pkg : N -> headers -> headers)
    (secure1 : bool) (alt : option bytes) (m : N) (sd : outcome (option (N * N))) (r : resp) (f : option (list bytes * option N)) :
  onorm (oreceive_end m (h1_conn_end secure1 true) (send_pipe checked error_page vn pkg false H1 secure1 alt m sd r f)) =
  onorm (send_pipe checked error_page vn pkg false H1 secure1 alt m sd r f).
Proof. rewrite h1_conn_end_shutdown, oreceive_end_orderly. reflexivity. Qed.

(** the variant that leaves the request loop by [return] ([shutdown = false]): the streamed answer of unknown length
    arrives complete on HTTP/2 and on a plain HTTP/1 connection, and cannot be told from a truncated one on HTTP/1 over TLS *)
Lemma close_without_notify_refuted_lemma : exists checked ops alt e416 exs body,
  Forall ex_ok exs /\ body <> [] /\
  pair_hist_end false checked ops alt e416 H1 true true exs = [Some (Ok WBroken)] /\
  pair_hist_end false checked ops alt e416 H1 true false exs
    = [Some (Ok (WClosed (mkResp V11 200 [(B "content-type", B "text/plain"); (B "connection", B "close")] body)))] /\
  pair_hist_end false checked ops alt e416 H2 true true exs = [Some (Ok (WResp (mkResp V2 200 [(B "content-type", B "text/plain")] body)))] /\
  pair_hist_end true checked ops alt e416 H1 true true exs
    = [Some (Ok (WClosed (mkResp V11 200 [(B "content-type", B "text/plain"); (B "connection", B "close")] body)))].
Proof.
  exists false, [], None, unk_page, [mkEx M_GET None true unk_page 0 None false (Some ([B "first "; B "second"], None)) []], (B "first second").
  split; [|split; [discriminate|vm_compute; repeat split]].
  repeat constructor; cbn; try lia; try discriminate; try (intros H; exfalso; apply H; reflexivity).
Qed.

(** ---------------------------------------------------------------------------------------------
    the request-head limits of the two front ends
    --------------------------------------------------------------------------------------------- *)
Lemma fields_size_32_le_8x4 h : fields_size 32 h <= 8 * fields_size 4 h.
Proof.
  induction h as [|kv h IH]; cbn [fields_size]; [lia|]. unfold blen in *. lia.
Qed.

Lemma fields_count_le h : 4 * N.of_nat (length h) <= fields_size 4 h.
Proof.
  induction h as [|kv h IH]; cbn [fields_size length]; [lia|]. unfold blen in *. lia.
Qed.

Lemma h2_list_le_8_h1_head authority m t h : h2_list_size authority m t h <= 8 * h1_head_len authority m t h.
Proof.
  unfold h2_list_size, h1_head_len. pose proof (fields_size_32_le_8x4 h). unfold blen in *. lia.
Qed.

(** every request head the HTTP/1 front end accepts is accepted by an HTTP/2 front end whose header-list limit is above
    8 * 16384 (h2's default is 16 MiB), and has at most 4096 fields (h2 gives up beyond 24576) *)
Lemma head_accepted_by_both_lemma (limit : N) (authority m t : bytes) (h : headers) :
  8 * H1_MAX_HEAD < limit -> h1_head_ok authority m t h = true ->
  h2_head_ok limit authority m t h = true /\ N.of_nat (length h) <= 4096.
Proof.
  unfold h1_head_ok, h2_head_ok, H1_MAX_HEAD. intros Hl Ha.
  pose proof (h2_list_le_8_h1_head authority m t h) as H8.
  pose proof (fields_count_le h) as Hc.
  assert (Hf : fields_size 4 h <= h1_head_len authority m t h) by (unfold h1_head_len, blen; lia).
  split; lia.
Qed.

Lemma default_header_list_limit_suffices : 8 * H1_MAX_HEAD < H2_MAX_HEADER_LIST.
Proof. unfold H1_MAX_HEAD, H2_MAX_HEADER_LIST. lia. Qed.

(** a header-list limit of 16 KiB on the HTTP/2 side ("the same as the HTTP/1 head limit") is not the same limit: 450 small
    fields are a head of 4.5 kB on HTTP/1 and a header list of 17 kB on HTTP/2 *)
Lemma small_header_list_limit_refuted_lemma : exists (authority m t : bytes) (h : headers),
  h1_head_ok authority m t h = true /\ h1_head_len authority m t h < 5000 /\
  h2_head_ok H1_MAX_HEAD authority m t h = false /\ h2_head_ok H2_MAX_HEADER_LIST authority m t h = true /\
  run_head_gen H1_MAX_HEAD (XL [XL []; XL [XB m; XB t; x_headers h; XB []]]) = XL [XL [XN 200]; XL [XN 431]] /\
  run_head (XL [XL []; XL [XB m; XB t; x_headers h; XB []]]) = XL [XL [XN 200]; XL [XN 200]].
Proof.
  exists AUTHORITY, (B "GET"), (B "/s"), (repeat (B "x-123", B "v") 450).
  vm_compute. repeat split; reflexivity.
Qed.

(** ---------------------------------------------------------------------------------------------
    HTTP/2: streams the client has reset
    --------------------------------------------------------------------------------------------- *)
Lemma h2_accept_loop_cont qs :
  h2_accept_loop true qs =
  (map (fun q => (hq_sid q, (if hq_limited q then 429 else hq_status q), negb (hq_limited q))) (filter (fun q => negb (hq_reset q)) qs), true).
Proof.
  induction qs as [|q qs IH]; [reflexivity|]. cbn [h2_accept_loop filter].
  rewrite Bool.andb_false_r. rewrite IH. destruct (hq_reset q); reflexivity.
Qed.

Lemma reset_stream_is_its_own_lemma qs : h2_answered true qs = h2_reset_spec qs.
Proof.
  unfold h2_answered, h2_reset_spec. rewrite h2_accept_loop_cont. f_equal.
  generalize (filter (fun q => negb (hq_reset q)) qs). intros l.
  induction l as [|q l IH]; [reflexivity|].
  cbn [map filter orb fst snd]. f_equal. exact IH.
Qed.

(** the code before the repair: three streams whose handlers are running, three the limiter answers, the second of which
    the client has reset — only the 429 written before it arrives; with the repair all five *)
Lemma reset_limited_stream_v0_refuted_lemma : exists qs : list h2req,
  map hq_reset qs = [false; false; false; false; true; false] /\
  h2_answered false qs = ([(7, 429)], false) /\
  h2_answered true qs = ([(1, 200); (3, 200); (5, 200); (7, 429); (11, 429)], true) /\
  h2_reset_spec qs = ([(1, 200); (3, 200); (5, 200); (7, 429); (11, 429)], true).
Proof.
  exists [mkH2Q 1 false false 200; mkH2Q 3 false false 200; mkH2Q 5 false false 200;
          mkH2Q 7 false true 200; mkH2Q 9 true true 200; mkH2Q 11 false true 200].
  vm_compute. repeat split; reflexivity.
Qed.
