(** C04 — admission, lifetimes, clears, one computation per fresh key, If-Modified-Since. *)
From KV Require Import Bytes RustInt Range RangeProofs DecProofs CacheControl Cache CacheProofs.
From Coq Require Import ZifyBool ZifyNat ZifyN.
Open Scope N_scope.
Arguments N.add : simpl never. Arguments N.sub : simpl never. Arguments N.mul : simpl never.
Arguments N.eqb : simpl never. Arguments N.ltb : simpl never. Arguments N.leb : simpl never.
Arguments N.of_nat : simpl never.

(** ---- the status filter is the property's list ---- *)
Lemma status_filter_spec s :
  status_filter_drop s = true <->
  (100 <= s <= 199) \/ s = 304 \/ (400 <= s <= 499 /\ s <> 404 /\ s <> 410).
Proof. unfold status_filter_drop. lia. Qed.

(** ---- admission is exactly the property's conjunction ---- *)
Lemma may_store_iff m f :
  may_store true m f = true <->
  f_spref f <> SP_NONE /\ get_or_head m = true /\ status_filter_drop (f_status f) = false /\
  N.of_nat (length (f_body f)) < size_limit /\ kvarn_none f = false.
Proof.
  unfold may_store, wants_cache, pref_caches. cbn [andb].
  rewrite !andb_true_iff, !negb_true_iff, N.ltb_lt, N.eqb_neq. tauto.
Qed.

Lemma trim_start_nows c s : is_ws c = false -> trim_start (c :: s) = c :: s.
Proof. intros H. cbn [trim_start]. rewrite H. reflexivity. Qed.

Lemma trim_id s c d m :
  s = c :: m ++ [d] -> is_ws c = false -> is_ws d = false -> trim s = s.
Proof.
  intros -> Hc Hd. unfold trim. rewrite trim_start_nows by assumption.
  replace (rev (c :: m ++ [d])) with (d :: rev m ++ [c]).
  - rewrite trim_start_nows by assumption.
    replace (d :: rev m ++ [c]) with (rev (c :: m ++ [d])); [apply rev_involutive|].
    cbn [rev]. rewrite rev_app_distr. reflexivity.
  - cbn [rev]. rewrite rev_app_distr. reflexivity.
Qed.

Lemma trim_none : trim (B "none") = B "none".
Proof. reflexivity. Qed.

(** a response carrying [kvarn-cache-control: none] (surrounding blanks allowed) is never admitted *)
Lemma kvarn_none_refused f v :
  assoc (B "kvarn-cache-control") (f_headers f) = Some v -> to_str_ok v = true -> trim v = B "none" ->
  kvarn_none f = true.
Proof.
  intros Ha Hs Ht. unfold kvarn_none. rewrite Ha, Hs. unfold from_kvarn_cache_control. rewrite Ht.
  reflexivity.
Qed.

Section C04.
  Variable hstate : Type.
  Variable compute : hstate -> request -> bool -> fat * hstate * list bytes.
  Variable ims_on : bool.
  Variable parse_ims : bytes -> option Z.
  Variable sanitize_ok : request -> bool.
  Variable prime : request -> request.
  Variable negotiate : request -> fat -> option (N * bytes).
  Variable vary_tuple : request -> tuple.
  Variable vary_header : request -> fat -> list (bytes * bytes).

  Notation missC := (miss hstate compute true ims_on negotiate vary_tuple vary_header).
  Notation serveC := (serve hstate compute true ims_on parse_ims sanitize_ok prime negotiate vary_tuple vary_header).

  (** what a miss does to the cache: insert exactly when [may_store], under the key chosen by the preference *)
  Lemma miss_store c1 hs now r ok :
    let f := fst (fst (compute hs r ok)) in
    fst (fst (fst (missC c1 hs now r ok))) =
      if may_store true (rq_method r) f
      then c_insert (insert_key r f) {| e_vars := [(vary_tuple r, f)]; e_created := now; e_life := lifetime_ms f |} c1
      else c1.
  Proof.
    unfold miss. destruct (compute hs r ok) as [[f hs'] lg]. cbn [fst].
    destruct (may_store true (rq_method r) f); reflexivity.
  Qed.

  (** a miss always invokes the layer below (recomputation) *)
  Lemma miss_computes c1 hs now r ok :
    snd (missC c1 hs now r ok) = snd (compute hs r ok) /\
    snd (fst (fst (missC c1 hs now r ok))) = snd (fst (compute hs r ok)).
  Proof.
    unfold miss. destruct (compute hs r ok) as [[f hs'] lg]. cbn [fst snd].
    destruct (may_store true (rq_method r) f); split; reflexivity.
  Qed.

  (** ---- never served past its lifetime ---- *)
  Lemma get_item_fresh k c now e c' : get_item k c now = (Some e, c') -> fresh e now = true.
  Proof.
    unfold get_item. destruct (c_find k c) as [e0|]; [|discriminate].
    destruct (fresh e0 now) eqn:F; intros H; inversion H; subst. exact F.
  Qed.
  Lemma lookup_fresh r c now k e c' : lookup r c now = ((k, Some e), c') -> fresh e now = true.
  Proof.
    unfold lookup. destruct (get_item (key_pq r) c now) as [[e1|] c1] eqn:G1.
    - intros H; inversion H; subst. eapply get_item_fresh; eassumption.
    - destruct (get_item (key_p r) c1 now) as [res2 c2] eqn:G2. intros H; inversion H; subst.
      eapply get_item_fresh; eassumption.
  Qed.
  Lemma fresh_spec e now :
    fresh e now = true <-> match e_life e with Some l => now - e_created e <= l | None => True end.
  Proof. unfold fresh. destruct (e_life e); [lia | tauto]. Qed.

  (** pushing a new variant keeps the absolute expiry time of the entry *)
  Lemma push_keeps_expiry e now l :
    e_life e = Some l -> e_created e <= now -> fresh e now = true ->
    now + (l - (now - e_created e)) = e_created e + l.
  Proof. intros Hl Hc Hf. apply fresh_spec in Hf. rewrite Hl in Hf. lia. Qed.

  (** ---- explicit clears ---- *)
  Lemma get_item_none k c now : c_find k c = None -> get_item k c now = (None, c).
  Proof. unfold get_item. intros ->. reflexivity. Qed.

  Lemma cleared_is_miss r r' c now :
    path_query r = path_query r' -> snd (fst (lookup r (clear_page r' c) now)) = None.
  Proof.
    intros E. assert (Ep : rq_path r = rq_path r') by (apply path_query_path; exact E).
    assert (K1 : key_pq r = key_pq r') by (unfold key_pq; rewrite E; reflexivity).
    assert (K2 : key_p r = key_p r') by (unfold key_p; rewrite Ep; reflexivity).
    assert (G : forall k r1 c1, c_find k c1 = None -> c_find k (clear_uri r1 c1) = None).
    { intros k r1 c1 Hn. unfold clear_uri. rewrite !c_find_remove.
      destruct (key_eqb k (key_p r1)); [reflexivity|]. destruct (key_eqb k (key_pq r1)); [reflexivity|]. exact Hn. }
    assert (U1 : c_find (key_pq r') (clear_uri r' c) = None).
    { unfold clear_uri. rewrite c_find_remove. destruct (key_eqb (key_pq r') (key_p r')); [reflexivity|].
      rewrite c_find_remove, key_eqb_refl. reflexivity. }
    assert (U2 : c_find (key_p r') (clear_uri r' c) = None).
    { unfold clear_uri. rewrite c_find_remove, key_eqb_refl. reflexivity. }
    unfold lookup, clear_page. rewrite K1, K2. destruct (redirect_target r') as [r''|].
    - rewrite get_item_none by (apply G, U1). rewrite get_item_none by (apply G, U2). reflexivity.
    - rewrite get_item_none by exact U1. rewrite get_item_none by exact U2. reflexivity.
  Qed.
  Lemma clear_all_is_miss r now : snd (fst (lookup r [] now)) = None.
  Proof. reflexivity. Qed.

  (** a request that finds nothing is recomputed *)
  Lemma not_found_recomputes c hs now r0 :
    snd (fst (lookup (prime r0) c now)) = None ->
    snd (serveC (c, hs) now r0) = snd (compute hs (prime r0) (sanitize_ok r0)).
  Proof.
    intros H. unfold serve. cbn [negb].
    destruct (lookup (prime r0) c now) as [[k found] c1]. cbn [fst snd] in H. subst found.
    apply miss_computes.
  Qed.

  (** non-GET/HEAD requests and requests that fail sanitation are always recomputed *)
  Lemma guard_recomputes c hs now r0 :
    sanitize_ok r0 && get_or_head (rq_method (prime r0)) = false ->
    snd (serveC (c, hs) now r0) = snd (compute hs (prime r0) (sanitize_ok r0)).
  Proof.
    intros H. unfold serve. cbn [negb].
    destruct (lookup (prime r0) c now) as [[k [e|]] c1]; [rewrite H|]; apply miss_computes.
  Qed.

  (** ---- one computation per fresh key: a stored response is found again while fresh ---- *)
  Lemma store_then_hit c hs now now' r0 f :
    let r := prime r0 in
    fst (fst (compute hs r (sanitize_ok r0))) = f ->
    snd (fst (lookup r c now)) = None ->
    may_store true (rq_method r) f = true ->
    sanitize_ok r0 = true ->
    (ims_on = false \/ header (B "if-modified-since") r = None) ->
    (c_find (key_pq r) (snd (lookup r c now)) = None \/ insert_key r f = key_pq r) ->
    now <= now' -> match lifetime_ms f with Some l => now' - now <= l | None => True end ->
    let st1 := fst (fst (serveC (c, hs) now r0)) in
    snd (serveC st1 now' r0) = [] /\ snd (fst (fst (serveC st1 now' r0))) = snd st1 /\
    rp_from_cache (snd (fst (serveC st1 now' r0))) = true /\
    rp_body (snd (fst (serveC st1 now' r0))) = rp_body (finish negotiate vary_header r f true true).
  Proof.
    intros r Hf Hnone Hstore Hok Hims Hkey Hle Hlife st1.
    destruct (lookup r c now) as [[k found] c1] eqn:L. cbn [fst snd] in Hnone, Hkey. subst found.
    rewrite Hok in Hf. destruct (compute hs r true) as [[f0 hs1] lg1] eqn:C. cbn [fst] in Hf. subst f0.
    assert (S1 : st1 = (c_insert (insert_key r f) {| e_vars := [(vary_tuple r, f)]; e_created := now; e_life := lifetime_ms f |} c1, hs1)).
    { unfold st1, serve. cbn [negb]. fold r. rewrite L, Hok. unfold miss. rewrite C, Hstore. reflexivity. }
    rewrite S1. clear S1 st1.
    set (e' := {| e_vars := [(vary_tuple r, f)]; e_created := now; e_life := lifetime_ms f |}).
    assert (GH : get_or_head (rq_method r) = true).
    { apply may_store_iff in Hstore. tauto. }
    assert (Hfresh : fresh e' now' = true).
    { apply fresh_spec. cbn [e_life e_created e']. destruct (lifetime_ms f); [lia | exact I]. }
    assert (Hlook : exists k', lookup r (c_insert (insert_key r f) e' c1) now' = ((k', Some e'), c_insert (insert_key r f) e' c1)).
    { unfold lookup.
      assert (Hpq_ne : key_eqb (key_pq r) (key_p r) = false).
      { unfold key_pq, key_p. destruct (path_query r). reflexivity. }
      unfold insert_key in *. destruct (f_spref f =? SP_QUERY) eqn:Q.
      - unfold get_item. rewrite c_find_insert, key_eqb_refl, Hfresh. eexists; reflexivity.
      - destruct Hkey as [Hkey | Hkey].
        + unfold get_item at 1. rewrite c_find_insert, Hpq_ne, Hkey.
          unfold get_item. rewrite c_find_insert, key_eqb_refl, Hfresh. eexists; reflexivity.
        + exfalso. rewrite <- Hkey, key_eqb_refl in Hpq_ne. discriminate. }
    destruct Hlook as [k' Hlook].
    unfold serve. cbn [negb]. fold r. rewrite Hlook, Hok, GH. cbn [andb].
    assert (Hno : (match (if ims_on then match header (B "if-modified-since") r with
                                          | Some v => parse_ims v | None => None end else None) with
                   | Some t => ims_fresh t (e_created e') | None => false end) = false).
    { destruct Hims as [-> | ->]; [reflexivity | destruct ims_on; reflexivity]. }
    rewrite Hno. cbn [e_vars e' v_find].
    assert (Ht : tuple_eqb (vary_tuple r) (vary_tuple r) = true) by (apply tuple_eqb_eq; reflexivity).
    rewrite Ht. cbn [fst snd]. repeat split.
    - unfold finish. destruct (negotiate r f) as [[? ?]|]; reflexivity.
    - unfold finish. destruct (negotiate r f) as [[? ?]|]; reflexivity.
  Qed.

  (** ---- If-Modified-Since ---- *)
  (** when a usable entry is found, the answer is 304 exactly when the client's date passes the test *)
  Lemma ims_rule c hs now r0 k e c1 :
    let r := prime r0 in
    lookup r c now = ((k, Some e), c1) -> sanitize_ok r0 = true -> get_or_head (rq_method r) = true ->
    (rp_status (snd (fst (serveC (c, hs) now r0))) = 304 /\ rp_from_cache (snd (fst (serveC (c, hs) now r0))) = true /\
     snd (serveC (c, hs) now r0) = [] /\ rp_body (snd (fst (serveC (c, hs) now r0))) = [])
    \/
    (match (if ims_on then match header (B "if-modified-since") r with Some v => parse_ims v | None => None end else None) with
     | Some t => ims_fresh t (e_created e) | None => false end = false).
  Proof.
    intros r L Hok GH. unfold serve. cbn [negb]. fold r. rewrite L, Hok, GH. cbn [andb].
    destruct (match (if ims_on then match header (B "if-modified-since") r with Some v => parse_ims v | None => None end else None) with
              | Some t => ims_fresh t (e_created e) | None => false end) eqn:E.
    - left. cbn [fst snd rp_status rp_from_cache rp_body]. repeat split.
    - right. reflexivity.
  Qed.
End C04.

(** the date arithmetic: with [created = s*1000 + frac] (ms), the client's date [t] (s) is accepted iff
    it is not older than the entry's second, or exactly one second older with no sub-second part *)
Lemma ims_fresh_spec t created :
  ims_fresh t created = true <->
  (Z.of_N (created / 1000) <= t)%Z \/ (t = Z.of_N (created / 1000) - 1)%Z /\ created mod 1000 = 0.
Proof.
  unfold ims_fresh.
  assert (H : created = 1000 * (created / 1000) + created mod 1000) by (apply N.div_mod; lia).
  assert (H2 : created mod 1000 < 1000) by (apply N.mod_lt; lia).
  lia.
Qed.

(** ---- lifetime equation ---- *)
Lemma split_on_nosep sep s cur : mem_byte sep s = false -> split_on sep s cur = [rev cur ++ s].
Proof.
  revert cur; induction s as [|c s IH]; intros cur H; cbn [split_on mem_byte] in *.
  - rewrite app_nil_r. reflexivity.
  - apply orb_false_iff in H as [H1 H2]. rewrite H1. rewrite IH by assumption. cbn [rev].
    rewrite <- app_assoc. reflexivity.
Qed.

Lemma all_digits_no c s : is_digit c = false -> all_digits s = true -> mem_byte c s = false.
Proof.
  intros Hc. induction s as [|x s IH]; cbn [mem_byte]; [reflexivity|].
  unfold all_digits. cbn [forallb]. intros H. apply andb_true_iff in H as [Hx Hs].
  rewrite (IH Hs). destruct (N.eqb_spec x c) as [->|]; [congruence | reflexivity].
Qed.

Lemma last_digit ds : ds <> [] -> all_digits ds = true -> exists m d, ds = m ++ [d] /\ is_digit d = true.
Proof.
  intros Hne Hd. destruct (exists_last Hne) as (m & d & ->). exists m, d. split; [reflexivity|].
  unfold all_digits in Hd. rewrite forallb_app' in Hd. apply andb_true_iff in Hd as [_ Hd].
  cbn [forallb] in Hd. apply andb_true_iff in Hd as [Hd _]. exact Hd.
Qed.

Lemma max_age_lifetime n hs :
  n <= u32_max ->
  assoc (B "kvarn-cache-control") hs = None ->
  assoc (B "cache-control") hs = Some (B "max-age=" ++ dec n) ->
  forall st body sp cmp, lifetime_ms (mkFat st hs body sp cmp) = Some (n * 1000).
Proof.
  intros Hn Hk Hc st body sp cmp. unfold lifetime_ms, cc_from_headers. cbn [f_headers]. rewrite Hk, Hc.
  destruct (dec_spec n) as (ds & E & Hne & Hd & Hv). rewrite E.
  destruct (last_digit ds Hne Hd) as (m & d & -> & Hdd).
  assert (Hvis : to_str_ok (B "max-age=" ++ m ++ [d]) = true).
  { unfold to_str_ok. rewrite forallb_app'. apply andb_true_iff. split; [reflexivity|].
    unfold all_digits in Hd. rewrite forallb_forall in *. intros x Hx. specialize (Hd x Hx).
    unfold is_digit, visible in *. lia. }
  rewrite Hvis. unfold from_cache_control.
  rewrite split_on_nosep.
  2:{ assert (Hm : forall l1 l2, mem_byte 44 (l1 ++ l2) = mem_byte 44 l1 || mem_byte 44 l2).
      { intros l1 l2. induction l1 as [|x l IH]; cbn [mem_byte app]; [reflexivity|]. rewrite IH. apply orb_assoc. }
      rewrite Hm. rewrite (all_digits_no 44 (m ++ [d])); [reflexivity | reflexivity | exact Hd]. }
  cbn [rev app cc_segments].
  rewrite (trim_id (B "max-age=" ++ m ++ [d]) 109 d (B "ax-age=" ++ m)).
  - change (starts_with (B "no-store") (B "max-age=" ++ m ++ [d])) with false. cbn iota.
    unfold strip_prefix.
    assert (Hst : starts_with (B "max-age=") (B "max-age=" ++ m ++ [d]) = true) by (apply starts_with_app; eexists; reflexivity).
    rewrite Hst. rewrite skipn_app_exact.
    rewrite <- E, parse_u32_dec by assumption. cbn [cc_segments cc_freshness cc_max_age option_map]. reflexivity.
  - change (B "max-age=") with (109 :: B "ax-age="). cbn [app]. rewrite app_assoc. reflexivity.
  - reflexivity.
  - unfold is_digit, is_ws in *. lia.
Qed.
