(** C09 (connection level) — proofs about Model/RangeConn.v *)
From KV Require Import Bytes RustInt Range RangeProofs RangeConn.
From Coq Require Import ZifyBool ZifyNat ZifyN.
Open Scope N_scope.
Arguments N.add : simpl never. Arguments N.sub : simpl never. Arguments N.mul : simpl never.
Arguments N.eqb : simpl never. Arguments N.ltb : simpl never. Arguments N.leb : simpl never.
Arguments N.min : simpl never. Arguments N.of_nat : simpl never. Arguments N.to_nat : simpl never.

Lemma header_range_denoted hdr : header_range hdr = denoted hdr.
Proof. reflexivity. Qed.

Lemma choose_fits pg ae : page_fits pg -> N.of_nat (length (rp_body (choose pg ae))) <= u64_max.
Proof.
  intros Hf. unfold choose.
  destruct (nth_in_or_default (N.to_nat ae) pg no_repr) as [Hin|Hd].
  - unfold page_fits in Hf. rewrite Forall_forall in Hf. apply Hf. exact Hin.
  - rewrite Hd. cbn. lia.
Qed.

(** [send] applied to a representation, with the [sanitize_request] result of the same header,
    is the specification of that representation. *)
Lemma send_repr_spec checked m rp hdr :
  N.of_nat (length (rp_body rp)) <= u64_max ->
  (exists range, sanitize_range hdr = Ok range /\
     send_m checked m (Ok range) (L4Repr rp) = Ok (wire_spec m rp hdr))
  \/ ((exists e, sanitize_range hdr = Err e) /\ wire_spec m rp hdr = W416).
Proof.
  intros Hlen.
  pose proof (serve_range_spec checked hdr (rp_body rp) Hlen) as Hs.
  unfold serve_range in Hs. unfold wire_spec. rewrite header_range_denoted.
  destruct (sanitize_range hdr) as [range|e|] eqn:Hsd.
  - left. exists range. split; [reflexivity|].
    cbn [send_m].
    destruct (apply_range checked range 200 (rp_body rp)) as [r|e|] eqn:Ha.
    + injection Hs as Hr. rewrite <- Hr. reflexivity.
    + injection Hs as Hr. rewrite <- Hr. reflexivity.
    + discriminate Hs.
  - right. split; [exists e; reflexivity|].
    injection Hs as Hr. rewrite <- Hr. reflexivity.
  - discriminate Hs.
Qed.

(** One step: whatever the cache entry (absent or this page's), the reply is the specification
    and the entry stays absent or this page's. *)
Lemma conn_step_spec checked caching pg cache q :
  page_fits pg -> cache_ok pg cache ->
  fst (conn_step checked caching pg cache q) = Ok (reply_spec pg q) /\
  cache_ok pg (snd (conn_step checked caching pg cache q)).
Proof.
  intros Hf Hc. unfold conn_step, reply_spec.
  destruct (send_repr_spec checked (q_method q) (choose pg (q_ae q)) (q_range q) (choose_fits pg (q_ae q) Hf))
    as [[range [Hsd Hsend]]|[[e Hsd] Hspec]]; rewrite Hsd.
  - destruct Hc as [->| ->]; cbn [handle_cache_m fst snd].
    + split; [exact Hsend|]. destruct caching; [right|left]; reflexivity.
    + split; [exact Hsend|]. right; reflexivity.
  - rewrite Hspec.
    destruct Hc as [->| ->]; cbn [handle_cache_m fst snd send_m]; (split; [reflexivity|]);
      [left|right]; reflexivity.
Qed.

Lemma serve_history_spec checked caching pg cache reqs :
  page_fits pg -> cache_ok pg cache ->
  serve_history checked caching pg cache reqs = Ok (history_spec pg reqs).
Proof.
  intros Hf. revert cache. induction reqs as [|q rest IH]; intros cache Hc; [reflexivity|].
  cbn [serve_history history_spec map].
  destruct (conn_step_spec checked caching pg cache q Hf Hc) as [H1 H2].
  destruct (conn_step checked caching pg cache q) as [o cache'].
  cbn [fst snd] in H1, H2. rewrite H1. cbn [obind].
  rewrite (IH cache' H2). reflexivity.
Qed.

(** The reply to a request does not depend on what was requested before on the connection
    (which warms, or does not warm, the response cache), nor on whether there is a cache. *)
Lemma reply_after_spec checked caching pg pre q :
  page_fits pg -> reply_after checked caching pg pre q = Ok (reply_spec pg q).
Proof.
  intros Hf. unfold reply_after.
  rewrite (serve_history_spec checked caching pg None (pre ++ [q]) Hf) by (left; reflexivity).
  cbn [obind]. unfold history_spec. rewrite map_app. cbn [map].
  rewrite last_last. reflexivity.
Qed.

Lemma reply_after_independent checked1 checked2 caching1 caching2 pg pre1 pre2 q :
  page_fits pg ->
  reply_after checked1 caching1 pg pre1 q = reply_after checked2 caching2 pg pre2 q.
Proof. intros Hf. rewrite !reply_after_spec by assumption. reflexivity. Qed.

(** HEAD: the GET reply's status and headers, no body — in every cache state. *)
Lemma wire_spec_head rp hdr : wire_spec HEAD rp hdr = strip_body (wire_spec GET rp hdr).
Proof.
  unfold wire_spec. destruct (range_spec (header_range hdr) (rp_body rp)); reflexivity.
Qed.

Lemma head_as_get checked caching pg cache ae hdr :
  page_fits pg -> cache_ok pg cache ->
  fst (conn_step checked caching pg cache {| q_method := HEAD; q_ae := ae; q_range := hdr |})
  = omap strip_body
      (fst (conn_step checked caching pg cache {| q_method := GET; q_ae := ae; q_range := hdr |})).
Proof.
  intros Hf Hc.
  destruct (conn_step_spec checked caching pg cache {| q_method := HEAD; q_ae := ae; q_range := hdr |} Hf Hc) as [H1 _].
  destruct (conn_step_spec checked caching pg cache {| q_method := GET; q_ae := ae; q_range := hdr |} Hf Hc) as [H2 _].
  rewrite H1, H2. cbn [omap]. unfold reply_spec. cbn [q_method q_ae q_range].
  rewrite wire_spec_head. reflexivity.
Qed.

(** A ranged reply is a slice of the un-ranged reply of the same Accept-Encoding class:
    206 body = bytes a..=min(b,len-1) of the 200 body, and the encoding header is the same. *)
Lemma ranged_is_slice_of_unranged pg ae v a c :
  parse_range v = Some (a, c) -> a <= c -> a < N.of_nat (length (rp_body (choose pg ae))) ->
  exists full part,
    reply_spec pg {| q_method := GET; q_ae := ae; q_range := None |} = WResp full /\
    reply_spec pg {| q_method := GET; q_ae := ae; q_range := Some v |} = WResp part /\
    w_status full = 200 /\ w_status part = 206 /\
    w_content_encoding part = w_content_encoding full /\
    w_body part = firstn (N.to_nat (N.min c (w_content_length full - 1) - a + 1)) (skipn (N.to_nat a) (w_body full)) /\
    w_content_length part = N.of_nat (length (w_body part)).
Proof.
  intros Hp Hac Hlen. unfold reply_spec, wire_spec. cbn [q_method q_ae q_range header_range].
  rewrite Hp. unfold range_spec.
  replace (a <=? c) with true by lia. replace (a <? N.of_nat (length (rp_body (choose pg ae)))) with true by lia.
  cbn [andb]. eexists. eexists. split; [reflexivity|]. split; [reflexivity|].
  cbn [w_status w_content_encoding w_body w_content_length r_status r_body]. repeat split; reflexivity.
Qed.
