(** C09 (connection level) — proofs about Model/RangeConn.v *)
From KV Require Import Bytes RustInt Range RangeProofs DecProofs RangeConn.
From Coq Require Import ZifyBool ZifyNat ZifyN.
Open Scope N_scope.
Arguments N.add : simpl never. Arguments N.sub : simpl never. Arguments N.mul : simpl never.
Arguments N.eqb : simpl never. Arguments N.ltb : simpl never. Arguments N.leb : simpl never.
Arguments N.min : simpl never. Arguments N.of_nat : simpl never. Arguments N.to_nat : simpl never.

Lemma header_range_denoted hdr : header_range hdr = denoted hdr.
Proof. reflexivity. Qed.

Lemma choose_fits pg ae : page_fits pg -> N.of_nat (length (rp_body (choose pg ae))) <= u64_max.
Proof.
  intros Hf. unfold choose.
  destruct (nth_in_or_default (N.to_nat ae) pg no_repr) as [Hin|Hd].
  - unfold page_fits in Hf. rewrite Forall_forall in Hf. apply Hf. exact Hin.
  - rewrite Hd. cbn. lia.
Qed.

(** [sanitize_request] refuses exactly the headers that denote a range with start > end. *)
Lemma sanitize_rejected hdr :
  (rejected hdr = true /\ exists e, sanitize_range hdr = Err e) \/
  (rejected hdr = false /\ exists range, sanitize_range hdr = Ok range).
Proof.
  unfold rejected, sanitize_range, header_range.
  destruct hdr as [v|]; [|right; split; [reflexivity|eexists; reflexivity]].
  destruct (parse_range v) as [[a c]|]; [|right; split; [reflexivity|eexists; reflexivity]].
  destruct (c <? a).
  - left. split; [reflexivity|eexists; reflexivity].
  - right. split; [reflexivity|eexists; reflexivity].
Qed.

Lemma rejected_spec_416 status hdr body : rejected hdr = true -> range_spec_st status (header_range hdr) body = R416.
Proof.
  unfold rejected, range_spec_st, range_spec. destruct (header_range hdr) as [[a c]|]; [|discriminate].
  intros H. replace (a <=? c) with false by lia. reflexivity.
Qed.

(** [send] applied to a representation, with the [sanitize_request] result of the same header,
    is the specification of that representation. *)
Lemma body_sent_fits status rp :
  N.of_nat (length (rp_body rp)) <= u64_max -> N.of_nat (length (body_sent status rp)) <= u64_max.
Proof. intros H. unfold body_sent. destruct (bodyless status); [cbn; lia|exact H]. Qed.

Lemma send_repr_spec checked m status rp hdr range :
  N.of_nat (length (rp_body rp)) <= u64_max -> status <> 304 ->
  sanitize_range hdr = Ok range ->
  send_m checked m (Ok range) (L4Resp status rp) = Ok (wire_spec status m rp hdr).
Proof.
  intros Hlen Hst Hsd.
  pose proof (serve_range_spec_st checked hdr status (body_sent status rp) (body_sent_fits status rp Hlen)) as Hs.
  unfold serve_range in Hs. rewrite Hsd in Hs. unfold wire_spec. rewrite header_range_denoted.
  unfold send_m, send_gen. cbn [rp_body rp_encoding]. replace (N.eqb status 304) with false by lia. cbn [andb].
  destruct (apply_range checked range status (body_sent status rp)) as [r|e|] eqn:Ha.
  - injection Hs as Hr. rewrite <- Hr. reflexivity.
  - injection Hs as Hr. rewrite <- Hr. reflexivity.
  - discriminate Hs.
Qed.

(** An item all of whose variants are this page's: looking a class up finds the page exactly when the
    item holds the class. *)
Lemma get_by_request_holds pg it lang :
  Forall (fun v => snd v = pg) it ->
  get_by_request it lang = if holds (map fst it) lang then Some pg else None.
Proof.
  intros H. induction H as [|[l p] rest Hp Hrest IH]; [reflexivity|].
  cbn [get_by_request map fst holds existsb]. cbn [snd] in Hp. subst p.
  rewrite (N.eqb_sym lang l). destruct (N.eqb l lang); [reflexivity|].
  cbn [orb]. exact IH.
Qed.

Lemma send_not_modified checked m range :
  send_gen true checked m (Ok range) (L4Resp 304 no_repr) = Ok not_modified.
Proof.
  unfold send_gen. cbn [rp_body rp_encoding andb]. replace (N.eqb 304 304) with true by reflexivity.
  unfold on_wire, untouched, not_modified, no_repr, body_sent.
  replace (bodyless 304) with true by reflexivity.
  cbn [r_status r_content_range r_accept_ranges r_body rp_encoding rp_body length].
  destruct m; reflexivity.
Qed.

(** One step: whatever the cache entry (absent or holding variants of this page), the reply is the
    specification and the entry stays absent or this page's; the classes it holds afterwards are
    exactly those the specification says the server holds. *)
Lemma rstep_spec checked caching status pg cache q :
  page_fits pg -> vcache_ok pg cache -> status <> 304 ->
  fst (rstep checked caching status pg cache q) = Ok (reply_spec status pg (held_by cache) q) /\
  vcache_ok pg (snd (rstep checked caching status pg cache q)) /\
  held_by (snd (rstep checked caching status pg cache q)) = stored_after caching (held_by cache) q.
Proof.
  intros Hf Hc Hst. unfold rstep, rstep_gen, reply_spec, stored_after, answers_304.
  destruct (sanitize_rejected (rq_range q)) as [[Hrej [e Hsd]]|[Hrej [range Hsd]]]; rewrite Hsd, Hrej.
  - (* start > end: the error page, nothing stored *)
    unfold handle_cache_m. cbn [fst snd send_gen negb].
    rewrite Bool.andb_false_r. cbn [andb]. repeat split; exact Hc.
  - pose proof (fun m => send_repr_spec checked m status (choose pg (rq_ae q)) (rq_range q) range
                           (choose_fits pg (rq_ae q) Hf) Hst Hsd) as Hsend.
    unfold send_m in Hsend. cbn [negb]. rewrite Bool.andb_true_r.
    destruct cache as [it|]; unfold handle_cache_m; cbn [held_by].
    + (* an item is stored *)
      cbn [vcache_ok] in Hc. rewrite (get_by_request_holds pg it (rq_lang q) Hc).
      destruct (get_or_head (rq_method q)) eqn:Hm.
      * destruct (holds (map fst it) (rq_lang q)) eqn:Hh; cbn [andb negb].
        -- (* ... which holds the variant *)
           rewrite Bool.andb_false_r, Bool.andb_true_r.
           destruct (fresh q) eqn:Hfr; cbn [fst snd held_by vcache_ok].
           ++ split; [apply send_not_modified|split; [exact Hc|reflexivity]].
           ++ split; [apply Hsend|split; [exact Hc|reflexivity]].
        -- (* ... but not this variant: the handler runs, the variant joins the item *)
           rewrite Bool.andb_false_r, Bool.andb_true_r. cbn [fst snd]. split; [apply Hsend|].
           destruct caching; cbn [held_by vcache_ok andb].
           ++ split; [|apply map_app]. apply Forall_app. split; [exact Hc|]. constructor; [reflexivity|constructor].
           ++ split; [exact Hc|reflexivity].
      * cbn [fst snd]. split; [rewrite Bool.andb_false_r; apply Hsend|].
        rewrite !Bool.andb_false_r. cbn [andb held_by vcache_ok]. split; [exact Hc|reflexivity].
    + (* nothing stored: the handler runs *)
      cbn [fst snd holds existsb andb negb map]. split; [apply Hsend|].
      rewrite Bool.andb_true_r.
      destruct caching, (get_or_head (rq_method q)); cbn [andb held_by vcache_ok map fst app];
        (split; [first [exact I|repeat constructor]|reflexivity]).
Qed.

Lemma reply_spec_unconditional status pg held q :
  fresh q = false -> reply_spec status pg held q = reply_spec status pg [] q.
Proof.
  intros H. unfold reply_spec, answers_304. rewrite H. rewrite !Bool.andb_false_r. reflexivity.
Qed.

(** The special case used by C02 (Model/Panics.v): a page without vary rules. *)
Lemma conn_step_spec checked caching pg cache q :
  page_fits pg -> cache_ok pg cache ->
  fst (conn_step checked caching pg cache q) = Ok (reply_spec_200 pg q) /\
  cache_ok pg (snd (conn_step checked caching pg cache q)).
Proof.
  intros Hf Hc. unfold conn_step, reply_spec_200.
  assert (Hst : 200 <> 304) by discriminate.
  assert (Hv : vcache_ok pg (option_map item_of cache)).
  { destruct Hc as [->| ->]; cbn [option_map vcache_ok item_of]; [exact I|repeat constructor]. }
  destruct (rstep_spec checked caching 200 pg (option_map item_of cache) (lift_creq q) Hf Hv Hst) as [H1 [H2 _]].
  destruct (rstep checked caching 200 pg (option_map item_of cache) (lift_creq q)) as [o cache'].
  cbn [fst snd] in *. split.
  - rewrite H1. f_equal. apply reply_spec_unconditional. reflexivity.
  - destruct cache' as [[|[l p] rest]|]; cbn [page_of]; [left; reflexivity| |left; reflexivity].
    cbn [vcache_ok] in H2. inversion H2 as [|? ? Hp ?]. cbn [snd] in Hp. subst p. right. reflexivity.
Qed.

Lemma serve_history_spec checked caching status pg cache reqs :
  page_fits pg -> vcache_ok pg cache -> status <> 304 ->
  serve_history checked caching status pg cache reqs = Ok (history_spec caching status pg (held_by cache) reqs).
Proof.
  intros Hf Hc Hst. revert cache Hc. induction reqs as [|q rest IH]; intros cache Hc; [reflexivity|].
  cbn [serve_history history_spec].
  destruct (rstep_spec checked caching status pg cache q Hf Hc Hst) as [H1 [H2 H3]].
  destruct (rstep checked caching status pg cache q) as [o cache'].
  cbn [fst snd] in H1, H2, H3. rewrite H1. cbn [obind].
  rewrite (IH cache' H2). rewrite H3. reflexivity.
Qed.


Lemma history_spec_app caching status pg stored pre q :
  history_spec caching status pg stored (pre ++ [q])
  = history_spec caching status pg stored pre
    ++ [reply_spec status pg (fold_left (stored_after caching) pre stored) q].
Proof.
  revert stored. induction pre as [|p rest IH]; intros stored; [reflexivity|].
  cbn [app history_spec fold_left]. rewrite IH. reflexivity.
Qed.

(** The reply to a request after a history prefix depends on the prefix only through "does the server
    hold the response" — and not even on that unless the request is a conditional one. *)
Lemma reply_after_spec checked caching status pg pre q :
  page_fits pg -> status <> 304 ->
  reply_after checked caching status pg pre q = Ok (reply_spec status pg (stored_by caching pre) q).
Proof.
  intros Hf Hst. unfold reply_after.
  rewrite (serve_history_spec checked caching status pg None (pre ++ [q]) Hf) by (first [exact I|assumption]).
  cbn [obind held_by]. rewrite history_spec_app. rewrite last_last. reflexivity.
Qed.

Lemma reply_after_independent checked caching status pg pre q :
  page_fits pg -> status <> 304 -> fresh q = false ->
  reply_after checked caching status pg pre q = Ok (reply_spec status pg [] q).
Proof.
  intros Hf Hst Hfr. rewrite reply_after_spec by assumption.
  rewrite reply_spec_unconditional by assumption. reflexivity.
Qed.

(** HEAD: the GET reply's status and headers, no body — in every cache state. *)
Lemma wire_spec_head status rp hdr : wire_spec status HEAD rp hdr = strip_body (wire_spec status GET rp hdr).
Proof.
  unfold wire_spec. destruct (range_spec_st status (header_range hdr) (body_sent status rp)); reflexivity.
Qed.

Lemma head_as_get checked caching status pg cache ae hdrs ims lang :
  page_fits pg -> vcache_ok pg cache -> status <> 304 ->
  fst (rstep checked caching status pg cache {| rq_method := HEAD; rq_ae := ae; rq_ranges := hdrs; rq_ims := ims; rq_lang := lang |})
  = omap strip_body
      (fst (rstep checked caching status pg cache {| rq_method := GET; rq_ae := ae; rq_ranges := hdrs; rq_ims := ims; rq_lang := lang |})).
Proof.
  intros Hf Hc Hst.
  destruct (rstep_spec checked caching status pg cache {| rq_method := HEAD; rq_ae := ae; rq_ranges := hdrs; rq_ims := ims; rq_lang := lang |} Hf Hc Hst) as [H1 _].
  destruct (rstep_spec checked caching status pg cache {| rq_method := GET; rq_ae := ae; rq_ranges := hdrs; rq_ims := ims; rq_lang := lang |} Hf Hc Hst) as [H2 _].
  rewrite H1, H2. cbn [omap]. unfold reply_spec, answers_304, rq_range, fresh. cbn [rq_method rq_ae rq_ranges rq_ims rq_lang get_or_head].
  destruct (rejected (hd_error (rev hdrs))); [reflexivity|].
  destruct (holds (held_by cache) lang && true && (ims =? 1)); [reflexivity|].
  rewrite wire_spec_head. reflexivity.
Qed.

(** A ranged reply is a slice of the un-ranged reply of the same Accept-Encoding class:
    206 body = bytes a..=min(b,len-1) of the 200 body, and the encoding header is the same. *)
Lemma rq_range_last m ae more v ims lang :
  rq_range {| rq_method := m; rq_ae := ae; rq_ranges := more ++ [v]; rq_ims := ims; rq_lang := lang |} = Some v.
Proof. unfold rq_range. cbn [rq_ranges]. rewrite rev_app_distr. reflexivity. Qed.

Lemma ranged_is_slice_of_unranged pg ae lang v more a c :
  parse_range v = Some (a, c) -> a <= c -> a < N.of_nat (length (rp_body (choose pg ae))) ->
  exists full part,
    reply_spec 200 pg [] {| rq_method := GET; rq_ae := ae; rq_ranges := []; rq_ims := 0; rq_lang := lang |} = WResp full /\
    reply_spec 200 pg [] {| rq_method := GET; rq_ae := ae; rq_ranges := more ++ [v]; rq_ims := 0; rq_lang := lang |} = WResp part /\
    w_status full = 200 /\ w_status part = 206 /\
    w_content_encoding part = w_content_encoding full /\
    w_body part = firstn (N.to_nat (N.min c (w_content_length full - 1) - a + 1)) (skipn (N.to_nat a) (w_body full)) /\
    w_content_length part = N.of_nat (length (w_body part)).
Proof.
  intros Hp Hac Hlen. unfold reply_spec, answers_304, wire_spec, rejected. rewrite rq_range_last.
  unfold rq_range, body_sent. replace (bodyless 200) with false by reflexivity.
  cbn [rq_method rq_ae rq_ranges rq_ims rq_lang header_range hd_error rev app andb holds existsb].
  rewrite Hp. replace (c <? a) with false by lia.
  unfold range_spec_st, range_spec.
  replace (a <=? c) with true by lia. replace (a <? N.of_nat (length (rp_body (choose pg ae)))) with true by lia.
  cbn [andb wire_of]. eexists. eexists. split; [reflexivity|]. split; [reflexivity|].
  cbn [w_status w_content_encoding w_body w_content_length r_status r_body r_content_range r_accept_ranges].
  repeat split; reflexivity.
Qed.

(** Only the last [Range] line of a request is looked at. *)
Lemma last_range_line checked caching status pg cache m ae v more ims lang :
  rstep checked caching status pg cache {| rq_method := m; rq_ae := ae; rq_ranges := more ++ [v]; rq_ims := ims; rq_lang := lang |}
  = rstep checked caching status pg cache {| rq_method := m; rq_ae := ae; rq_ranges := [v]; rq_ims := ims; rq_lang := lang |}.
Proof.
  unfold rstep, rstep_gen. rewrite rq_range_last. reflexivity.
Qed.

(** The reply to a request is the property's function of the reply to the same request without Range,
    in the same state of the server ("the representation that a request without Range would receive"). *)
Lemma range_spec_st_none status body :
  range_spec_st status None body
  = RResp {| r_status := status; r_content_range := None;
             r_accept_ranges := negb (N.eqb (N.of_nat (length body)) 0); r_body := body |}.
Proof.
  unfold range_spec_st, range_spec. cbn [r_status r_content_range r_accept_ranges r_body].
  destruct (N.eqb_spec status 200) as [->|]; reflexivity.
Qed.

Lemma unranged_not_rejected q : rejected (rq_range (unranged q)) = false.
Proof. reflexivity. Qed.

Lemma ranged_of_unranged checked caching status pg cache q :
  page_fits pg -> vcache_ok pg cache -> status <> 304 -> rq_method q <> HEAD ->
  fst (rstep checked caching status pg cache q)
  = omap (ranged_of (rq_range q)) (fst (rstep checked caching status pg cache (unranged q))).
Proof.
  intros Hf Hc Hst Hm.
  destruct (rstep_spec checked caching status pg cache q Hf Hc Hst) as [H1 _].
  destruct (rstep_spec checked caching status pg cache (unranged q) Hf Hc Hst) as [H2 _].
  rewrite H1, H2. cbn [omap]. f_equal.
  unfold reply_spec, ranged_of. rewrite unranged_not_rejected.
  destruct (rejected (rq_range q)) eqn:Hrej; [reflexivity|].
  replace (answers_304 (held_by cache) (unranged q)) with (answers_304 (held_by cache) q) by reflexivity.
  destruct (answers_304 (held_by cache) q); [reflexivity|].
  unfold wire_spec. cbn [unranged rq_range rq_ranges hd_error header_range rq_method rq_ae].
  set (rp := choose pg (rq_ae q)). set (bd := body_sent status rp).
  (* the un-ranged reply: status [status], the whole representation *)
  rewrite range_spec_st_none.
  cbn [wire_of r_status r_content_range r_accept_ranges r_body w_status w_body w_content_encoding].
  replace (N.eqb status 304) with false by lia.
  assert (Hb : (match rq_method q with HEAD => [] | _ => bd end) = bd).
  { destruct (rq_method q); [reflexivity|contradiction|reflexivity]. }
  rewrite Hb.
  destruct (range_spec_st status (header_range (rq_range q)) bd) as [|r]; [reflexivity|].
  cbn [wire_of]. destruct (rq_method q); [reflexivity|contradiction|reflexivity].
Qed.

(** Conditional requests: when the server holds the response the request selects and the client's copy is
    fresh, a GET/HEAD with a Range header that is not refused is answered 304 — as without the header. *)
Lemma conditional_304 checked caching status pg it q :
  page_fits pg -> vcache_ok pg (Some it) -> holds (map fst it) (rq_lang q) = true ->
  status <> 304 -> get_or_head (rq_method q) = true -> fresh q = true ->
  rejected (rq_range q) = false ->
  fst (rstep checked caching status pg (Some it) q) = Ok not_modified /\
  fst (rstep checked caching status pg (Some it) (unranged q)) = Ok not_modified.
Proof.
  intros Hf Hc Hh Hst Hm Hfr Hrej.
  destruct (rstep_spec checked caching status pg (Some it) q Hf Hc Hst) as [H1 _].
  destruct (rstep_spec checked caching status pg (Some it) (unranged q) Hf Hc Hst) as [H2 _].
  rewrite H1, H2. unfold reply_spec. rewrite Hrej, unranged_not_rejected.
  replace (answers_304 (held_by (Some it)) (unranged q)) with (answers_304 (held_by (Some it)) q) by reflexivity.
  unfold answers_304. cbn [held_by]. rewrite Hh, Hm, Hfr. split; reflexivity.
Qed.

(** ... and when the item holds other variants of the page but not the one the request selects, the same
    request is answered like one that is not conditional: the server vouches only for what it holds. *)
Lemma conditional_other_variant checked caching status pg it q :
  page_fits pg -> vcache_ok pg (Some it) -> holds (map fst it) (rq_lang q) = false ->
  status <> 304 -> rejected (rq_range q) = false ->
  fst (rstep checked caching status pg (Some it) q)
  = Ok (wire_spec status (rq_method q) (choose pg (rq_ae q)) (rq_range q)).
Proof.
  intros Hf Hc Hh Hst Hrej.
  destruct (rstep_spec checked caching status pg (Some it) q Hf Hc Hst) as [H1 _].
  rewrite H1. unfold reply_spec, answers_304. cbn [held_by]. rewrite Hrej, Hh. reflexivity.
Qed.

(** kvarn 0.6.3 answered such a request 416 ("Range start after end of body": the range was applied to
    the empty body of the 304). *)
Lemma ex_page_fits : page_fits ex_page.
Proof. repeat constructor; vm_compute; discriminate. Qed.

Lemma conditional_063_refuted :
  exists pg q, page_fits pg /\ get_or_head (rq_method q) = true /\ fresh q = true /\ rejected (rq_range q) = false /\
    fst (rstep_063 true true 200 pg (Some [(rq_lang q, pg)]) (unranged q)) = Ok not_modified /\
    fst (rstep_063 true true 200 pg (Some [(rq_lang q, pg)]) q) = Ok W416.
Proof.
  exists ex_page, ex_conditional. split; [exact ex_page_fits|]. vm_compute. repeat split; reflexivity.
Qed.

(** ---- streamed files ---- *)
Lemma stream_step_spec checked file q :
  N.of_nat (length file) <= u64_max ->
  stream_step true checked file q = Ok (stream_spec file q).
Proof.
  intros Hlen. unfold stream_step, stream_spec.
  set (hd := match rq_method q with HEAD => true | _ => false end).
  assert (Hbody : forall b : bytes, (match rq_method q with HEAD => [] | _ => b end) = if hd then [] else b).
  { intros b. unfold hd. destruct (rq_method q); reflexivity. }
  destruct (sanitize_rejected (rq_range q)) as [[Hrej [e Hsd]]|[Hrej [range Hsd]]]; rewrite Hsd.
  - pose proof (rejected_spec_416 200 (rq_range q) file Hrej) as H. rewrite range_spec_st_200 in H. rewrite H. reflexivity.
  - unfold rejected in Hrej. unfold sanitize_range in Hsd. unfold header_range in *.
    destruct (rq_range q) as [v|].
    2:{ injection Hsd as <-. unfold stream_prepare, range_spec. cbn [andb].
        unfold sub_u64. replace (0 <=? N.min (N.of_nat (length file)) (N.of_nat (length file))) with true by lia.
        cbn [obind sw_head sw_sent w_content_length w_status w_content_range].
        replace (N.min (N.of_nat (length file)) (N.of_nat (length file)) - 0) with (N.of_nat (length file)) by lia.
        replace (N.min (N.min (N.of_nat (length file)) (N.of_nat (length file))) (N.of_nat (length file)) - 0)
          with (N.of_nat (length file)) by lia.
        cbn [skipn N.to_nat]. replace (N.to_nat 0) with 0%nat by reflexivity. cbn [skipn].
        replace (N.to_nat (N.of_nat (length file))) with (length file) by lia.
        rewrite firstn_all. replace (N.of_nat (length file) <? N.of_nat (length file)) with false by lia.
        cbn [r_status r_content_range r_body]. rewrite firstn_all. rewrite Hbody. destruct hd; reflexivity. }
    destruct (parse_range v) as [[a c]|] eqn:Hp.
    2:{ injection Hsd as <-. unfold stream_prepare, range_spec. cbn [andb].
        unfold sub_u64. replace (0 <=? N.min (N.of_nat (length file)) (N.of_nat (length file))) with true by lia.
        cbn [obind sw_head sw_sent w_content_length w_status w_content_range].
        replace (N.min (N.of_nat (length file)) (N.of_nat (length file)) - 0) with (N.of_nat (length file)) by lia.
        replace (N.min (N.min (N.of_nat (length file)) (N.of_nat (length file))) (N.of_nat (length file)) - 0)
          with (N.of_nat (length file)) by lia.
        replace (N.to_nat 0) with 0%nat by reflexivity. cbn [skipn].
        replace (N.to_nat (N.of_nat (length file))) with (length file) by lia.
        rewrite firstn_all. replace (N.of_nat (length file) <? N.of_nat (length file)) with false by lia.
        cbn [r_status r_content_range r_body]. rewrite firstn_all. rewrite Hbody. destruct hd; reflexivity. }
    apply parse_range_bounds in Hp as [Ha Hc].
    replace (c <? a) with false in Hsd by lia. injection Hsd as <-.
    unfold stream_prepare, range_spec. cbn [andb].
    set (len := N.of_nat (length file)) in *.
    replace (a <=? c) with true by lia. cbn [andb].
    destruct (N.leb_spec len a) as [Hout|Hin].
    + replace (a <? len) with false by lia. reflexivity.
    + replace (a <? len) with true by lia.
      assert (He : N.min (sat_add_u64 c 1) len = N.min c (len - 1) + 1).
      { unfold sat_add_u64. lia. }
      rewrite He. unfold sub_u64.
      replace (a <=? N.min c (len - 1) + 1) with true by lia.
      replace (1 <=? N.min c (len - 1) + 1) with true by lia.
      cbn [obind sw_head sw_sent w_content_length w_status w_content_range].
      replace (N.min (N.min c (len - 1) + 1) len - a) with (N.min c (len - 1) - a + 1) by lia.
      replace (N.min c (len - 1) + 1 - a) with (N.min c (len - 1) - a + 1) by lia.
      replace (N.min c (len - 1) + 1 - 1) with (N.min c (len - 1)) by lia.
      set (sl := firstn (N.to_nat (N.min c (len - 1) - a + 1)) (skipn (N.to_nat a) file)).
      assert (Hsl : N.of_nat (length sl) = N.min c (len - 1) - a + 1).
      { unfold sl. rewrite firstn_length, skipn_length. lia. }
      replace (N.of_nat (length sl) <? N.min c (len - 1) - a + 1) with false by lia.
      cbn [r_status r_content_range r_body].
      rewrite Hsl. rewrite Hbody.
      replace (firstn (N.to_nat (N.min c (len - 1) - a + 1)) sl) with sl; [destruct hd; reflexivity|].
      symmetry. replace (N.to_nat (N.min c (len - 1) - a + 1)) with (length sl) by lia. apply firstn_all.
Qed.

Lemma stream_history_spec checked file reqs :
  N.of_nat (length file) <= u64_max ->
  stream_history true checked file reqs = Ok (map (stream_spec file) reqs).
Proof.
  intros Hlen. unfold stream_history. induction reqs as [|q rest IH]; [reflexivity|].
  cbn [fold_right map]. rewrite stream_step_spec by assumption. cbn [obind].
  rewrite IH. reflexivity.
Qed.

(** kvarn 0.6.3: a satisfiable range of a streamed file was answered 200 without content-range (a client
    takes the slice for the whole file), and a range that ends after the file announced more bytes than
    the file has (the reply never completes; on a kept-alive connection the next response is swallowed). *)
Lemma stream_063_refuted :
  N.of_nat (length ex_file) <= u64_max /\
  stream_step false true ex_file (ex_get (B "bytes=2-5"))
    = Ok (SResp {| w_status := 200; w_content_range := None; w_content_length := 4; w_content_encoding := None;
                   w_accept_ranges := false; w_body := B "2345" |}) /\
  stream_spec ex_file (ex_get (B "bytes=2-5"))
    = SResp {| w_status := 206; w_content_range := Some (B "bytes 2-5/10"); w_content_length := 4;
               w_content_encoding := None; w_accept_ranges := false; w_body := B "2345" |} /\
  (exists w, stream_step false true ex_file (ex_get (B "bytes=8-20")) = Ok (SShort w (B "89")) /\
             w_status w = 200 /\ w_content_length w = 13) /\
  (exists w, stream_step false true ex_file (ex_get (B "bytes=10-12")) = Ok (SShort w []) /\ w_status w = 200) /\
  stream_spec ex_file (ex_get (B "bytes=10-12")) = S416.
Proof.
  split; [vm_compute; discriminate|].
  split; [vm_compute; reflexivity|]. split; [vm_compute; reflexivity|].
  split; [eexists; split; [vm_compute; reflexivity|split; reflexivity]|].
  split; [eexists; split; [vm_compute; reflexivity|reflexivity]|].
  vm_compute. reflexivity.
Qed.

(** ---- tiling on the connection: consecutive ranged GETs reconstruct the representation ---- *)
Lemma range_header_parses r :
  fst r <= u64_max -> snd r <= u64_max -> parse_range (range_header r) = Some r.
Proof.
  intros Ha Hc. destruct r as [a c]. cbn [fst snd] in *. apply parse_range_syntax.
  exists (dec a), (dec c). split; [reflexivity|].
  split; apply parse_u64_number; apply parse_u64_dec; assumption.
Qed.

Lemma tile_ranges_bounds start ws :
  Forall (fun w => 0 < w) ws ->
  Forall (fun r => fst r <= snd r /\ snd r < start + sumN ws) (tile_ranges start ws).
Proof.
  intros Hw. revert start. induction Hw as [|w rest Hw Hrest IH]; intros start; cbn [tile_ranges sumN]; constructor.
  - cbn [fst snd]. lia.
  - specialize (IH (start + w)). eapply Forall_impl; [|exact IH].
    intros r [H1 H2]. split; [exact H1|lia].
Qed.

Lemma tiling_history_bodies caching pg stored ae lang l :
  Forall (fun r => fst r <= snd r /\ snd r <= u64_max) l ->
  map wbody (history_spec caching 200 pg stored (map (get_range ae lang) l))
  = map (fun r => reply_body (range_spec (Some r) (rp_body (choose pg ae)))) l.
Proof.
  intros Hl. revert stored. induction Hl as [|r rest [Hr1 Hr2] Hrest IH]; intros stored; [reflexivity|].
  cbn [map history_spec]. rewrite IH. f_equal.
  unfold reply_spec, answers_304, rejected, fresh, wire_spec, rq_range, get_range, body_sent.
  replace (bodyless 200) with false by reflexivity.
  cbn [rq_method rq_ae rq_ranges rq_ims rq_lang rev app hd_error header_range].
  rewrite range_header_parses by lia. destruct r as [a c]. cbn [fst snd] in *.
  replace (c <? a) with false by lia.
  replace (0 =? 1) with false by reflexivity. rewrite Bool.andb_false_r.
  rewrite range_spec_st_200.
  destruct (range_spec (Some (a, c)) (rp_body (choose pg ae))) as [|g]; reflexivity.
Qed.

Lemma conn_tiling checked caching pg cache ae lang ws :
  page_fits pg -> vcache_ok pg cache ->
  Forall (fun w => 0 < w) ws -> sumN ws = N.of_nat (length (rp_body (choose pg ae))) ->
  exists replies,
    serve_history checked caching 200 pg cache (map (get_range ae lang) (tile_ranges 0 ws)) = Ok replies /\
    concat (map wbody replies) = rp_body (choose pg ae).
Proof.
  intros Hf Hc Hw Hsum. eexists. split.
  - apply serve_history_spec; [assumption|assumption|discriminate].
  - rewrite tiling_history_bodies.
    + apply tiling; assumption.
    + pose proof (choose_fits pg ae Hf) as Hfit.
      eapply Forall_impl; [|exact (tile_ranges_bounds 0 ws Hw)].
      intros r [H1 H2]. split; [exact H1|lia].
Qed.
