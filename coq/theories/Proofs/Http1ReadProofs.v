(** C07 — lemmas about Model/Http1Read.v. *)
From KV Require Export Bytes RustInt Http1Read.
From Coq Require Import ZifyBool ZifyNat ZifyN.
Open Scope N_scope.
