(** C07 — lemmas about Model/Http1Read.v. *)
From KV Require Export Bytes RustInt Http1Read.
From Coq Require Import ZifyBool ZifyNat ZifyN.
Open Scope N_scope.
Local Open Scope nat_scope.

Arguments N.add : simpl never.
Arguments N.sub : simpl never.
Arguments N.eqb : simpl never.
Arguments N.ltb : simpl never.
Arguments N.leb : simpl never.
Arguments Nat.min : simpl never.
Arguments Nat.max : simpl never.
Arguments Nat.sub : simpl never.

(** * Lists *)

Lemma firstn_skipn_add {A} (l : list A) n m : firstn n l ++ firstn m (skipn n l) = firstn (n + m) l.
Proof.
  revert l; induction n as [|n IH]; intros l; [reflexivity|].
  destruct l as [|x l]; cbn [firstn skipn app Nat.add].
  - rewrite firstn_nil. reflexivity.
  - f_equal. apply IH.
Qed.

Lemma skipn_skipn_add {A} (l : list A) n m : skipn m (skipn n l) = skipn (n + m) l.
Proof.
  revert l; induction n as [|n IH]; intros l; [reflexivity|].
  destruct l as [|x l]; cbn [skipn Nat.add]; [apply skipn_nil|apply IH].
Qed.

Lemma firstn_le_split {A} (l : list A) n m : n <= m -> firstn m l = firstn n l ++ firstn (m - n) (skipn n l).
Proof. intros H. rewrite firstn_skipn_add. f_equal. lia. Qed.

Lemma null_length {A} (l : list A) : null l = true <-> length l = 0.
Proof. destruct l; cbn; split; intros; (reflexivity || discriminate). Qed.

Lemma null_false_length {A} (l : list A) : null l = false <-> 0 < length l.
Proof. destruct l; cbn; split; intros; try reflexivity; try discriminate; lia. Qed.

(** * The scripted connection *)

Lemma rd_read_any mode r room :
  match rd_read mode r room with
  | RdOk got r' =>
      exists n, got = firstn n (rd_data r) /\ length got = n /\ n <= length (rd_data r) /\ n <= room /\
                n <= sum_sched (rd_sched r) /\ rd_data r' = skipn n (rd_data r) /\
                sum_sched (rd_sched r') = sum_sched (rd_sched r) - n
  | _ => True
  end.
Proof.
  assert (Hz : exists n, @nil N = firstn n (rd_data r) /\ length (@nil N) = n /\ n <= length (rd_data r) /\ n <= room /\
                         n <= sum_sched (rd_sched r) /\ rd_data r = skipn n (rd_data r) /\
                         sum_sched (rd_sched r) = sum_sched (rd_sched r) - n).
  { exists 0. cbn [firstn skipn length]. repeat split; lia. }
  assert (He : match rd_end mode r with
               | RdOk got r' => exists n, got = firstn n (rd_data r) /\ length got = n /\ n <= length (rd_data r) /\ n <= room /\
                   n <= sum_sched (rd_sched r) /\ rd_data r' = skipn n (rd_data r) /\
                   sum_sched (rd_sched r') = sum_sched (rd_sched r) - n
               | _ => True end).
  { unfold rd_end. destruct (N.eqb mode 0); [exact Hz|]. destruct (N.eqb mode 1); exact I. }
  unfold rd_read. destruct (Nat.eqb room 0) eqn:Er; [exact Hz|].
  destruct r as [d s]; cbn [rd_data rd_sched] in *.
  destruct d as [|c d]; [exact He|]. destruct s as [|b s]; [exact He|].
  set (n := Nat.min b (Nat.min room (length (c :: d)))).
  exists n. cbn [rd_data rd_sched].
  assert (Hn : n <= length (c :: d)) by (subst n; lia).
  split; [reflexivity|]. split; [rewrite firstn_length; lia|].
  split; [exact Hn|]. split; [subst n; lia|].
  split; [subst n; cbn [sum_sched fold_right]; lia|]. split; [reflexivity|].
  destruct (Nat.eqb n b) eqn:Eb; cbn [sum_sched fold_right]; fold (sum_sched s); subst n; lia.
Qed.

Lemma sum_sched_pos b s : sched_pos (b :: s) -> 0 < sum_sched (b :: s).
Proof. intros H. inversion H; subst. cbn [sum_sched fold_right]. lia. Qed.

Lemma rd_read_pos mode r room :
  sched_pos (rd_sched r) -> 0 < room -> 0 < avail r ->
  exists n r', rd_read mode r room = RdOk (firstn n (rd_data r)) r' /\ 0 < n /\ n <= room /\ n <= avail r /\
               rd_data r' = skipn n (rd_data r) /\ sched_pos (rd_sched r') /\
               sum_sched (rd_sched r') = sum_sched (rd_sched r) - n.
Proof.
  intros Hp Hr Ha. unfold rd_read, avail in *. destruct (Nat.eqb room 0) eqn:Er; [lia|].
  destruct r as [d s]; cbn [rd_data rd_sched] in *.
  destruct d as [|c d]; [cbn [length] in Ha; lia|].
  destruct s as [|b s]; [cbn [sum_sched fold_right] in Ha; lia|].
  set (n := Nat.min b (Nat.min room (length (c :: d)))).
  inversion Hp as [|b' s' Hb Hs]; subst b' s'.
  exists n. eexists. split; [reflexivity|]. cbn [rd_data rd_sched].
  assert (Hl : 0 < length (c :: d)) by (cbn [length]; lia).
  split; [subst n; lia|]. split; [subst n; lia|].
  split; [subst n; cbn [sum_sched fold_right]; lia|]. split; [reflexivity|].
  destruct (Nat.eqb n b) eqn:Eb.
  - split; [exact Hs|]. cbn [sum_sched fold_right]. fold (sum_sched s). lia.
  - split; [constructor; [subst n; lia|exact Hs]|]. cbn [sum_sched fold_right]. fold (sum_sched s). subst n. lia.
Qed.

Lemma rd_read_empty mode r room :
  sched_pos (rd_sched r) -> 0 < room -> avail r = 0 -> rd_read mode r room = rd_end mode r.
Proof.
  intros Hp Hr Ha. unfold rd_read, avail in *. destruct (Nat.eqb room 0) eqn:Er; [lia|].
  destruct r as [d s]; cbn [rd_data rd_sched] in *.
  destruct d as [|c d]; [reflexivity|]. destruct s as [|b s]; [reflexivity|].
  pose proof (sum_sched_pos _ _ Hp). cbn [length] in Ha. lia.
Qed.

(** * [contains_two_newlines] and the end of the head *)

Lemma ctn_bl_end ir b : ctn ir b = match bl_end ir b with Some _ => true | None => false end.
Proof.
  revert ir; induction b as [|c b IH]; intros ir; cbn [ctn bl_end]; [reflexivity|].
  destruct (N.eqb c LF).
  - destruct ir; [reflexivity|]. rewrite IH. destruct (bl_end true b); reflexivity.
  - destruct (N.eqb c CR); rewrite IH; destruct (bl_end _ b); reflexivity.
Qed.

Lemma ctn_firstn ir b n :
  ctn ir (firstn n b) = match bl_end ir b with Some k => Nat.leb k n | None => false end.
Proof.
  revert ir n; induction b as [|c b IH]; intros ir n.
  - rewrite firstn_nil. reflexivity.
  - destruct n as [|n].
    + cbn [firstn ctn bl_end].
      destruct (N.eqb c LF); [destruct ir; [reflexivity|destruct (bl_end true b); reflexivity]|].
      destruct (N.eqb c CR); destruct (bl_end _ b); reflexivity.
    + cbn [firstn ctn bl_end]. destruct (N.eqb c LF).
      * destruct ir; [reflexivity|]. rewrite IH. destruct (bl_end true b); reflexivity.
      * destruct (N.eqb c CR); rewrite IH; destruct (bl_end _ b); reflexivity.
Qed.

Lemma bl_end_le ir b k : bl_end ir b = Some k -> 1 <= k <= length b.
Proof.
  revert ir k; induction b as [|c b IH]; intros ir k; cbn [bl_end length]; [discriminate|].
  destruct (N.eqb c LF).
  - destruct ir; [intros H; inversion H; lia|].
    destruct (bl_end true b) eqn:E; cbn [option_map]; [|discriminate].
    intros H; inversion H; subst. apply IH in E. lia.
  - destruct (N.eqb c CR); destruct (bl_end _ b) eqn:E; cbn [option_map]; try discriminate;
      intros H; inversion H; subst; apply IH in E; lia.
Qed.

(** the end of the head does not move when bytes are cut off or added behind it *)
Lemma bl_end_firstn ir b k n : bl_end ir b = Some k -> k <= n -> bl_end ir (firstn n b) = Some k.
Proof.
  revert ir k n; induction b as [|c b IH]; intros ir k n H Hk; [discriminate|].
  pose proof (bl_end_le _ _ _ H) as Hle.
  destruct n as [|n]; [lia|].
  cbn [bl_end firstn] in *. destruct (N.eqb c LF).
  - destruct ir; [assumption|]. destruct (bl_end true b) eqn:E; cbn [option_map] in *; [|discriminate].
    inversion H; subst. rewrite (IH true n0 n E) by lia. reflexivity.
  - destruct (N.eqb c CR); destruct (bl_end _ b) eqn:E; cbn [option_map] in *; try discriminate;
      inversion H; subst; rewrite (IH _ n0 n E) by lia; reflexivity.
Qed.

Lemma bl_end_app ir a b k : bl_end ir a = Some k -> bl_end ir (a ++ b) = Some k.
Proof.
  revert ir k; induction a as [|c a IH]; intros ir k; cbn [bl_end app]; [discriminate|].
  destruct (N.eqb c LF).
  - destruct ir; [auto|]. destruct (bl_end true a) eqn:E; cbn [option_map]; [|discriminate].
    intros H; inversion H; subst. rewrite (IH true n E). reflexivity.
  - destruct (N.eqb c CR); destruct (bl_end _ a) eqn:E; cbn [option_map]; try discriminate;
      intros H; inversion H; subst; erewrite IH; try reflexivity; eassumption.
Qed.

Lemma bl_end_firstn_none ir b n : bl_end ir b = None -> bl_end ir (firstn n b) = None.
Proof.
  intros H. pose proof (ctn_firstn ir b n) as H1. rewrite H in H1.
  rewrite ctn_bl_end in H1. destruct (bl_end ir (firstn n b)); [discriminate|reflexivity].
Qed.

Lemma ctn_prefix ir b n m : n <= m -> ctn ir (firstn n b) = true -> ctn ir (firstn m b) = true.
Proof.
  intros Hnm. rewrite !ctn_firstn. destruct (bl_end ir b); [|auto].
  intros H. apply Nat.leb_le in H. apply Nat.leb_le. lia.
Qed.

(** * [valid_start] only looks at the first nine bytes, and never past a line feed *)

Lemma starts_with_firstn t s n : length t <= n -> starts_with t (firstn n s) = starts_with t s.
Proof.
  revert s n; induction t as [|x t IH]; intros s n H; [reflexivity|].
  cbn [length] in H. destruct n as [|n]; [lia|].
  destruct s as [|y s]; cbn [firstn starts_with]; [reflexivity|].
  rewrite IH by lia. reflexivity.
Qed.

Lemma starts_with_short t s : length s < length t -> starts_with t s = false.
Proof.
  revert s; induction t as [|x t IH]; intros s H; [cbn [length] in H; lia|].
  destruct s as [|y s]; cbn [starts_with]; [reflexivity|].
  cbn [length] in H. rewrite IH by lia. apply andb_false_r.
Qed.

Definition no_lf (s : bytes) : bool := forallb (fun c => negb (N.eqb c LF)) s.

Lemma ctn_no_lf ir s : no_lf s = true -> ctn ir s = false.
Proof.
  revert ir; induction s as [|c s IH]; intros ir H; [reflexivity|].
  cbn [no_lf forallb] in H. apply andb_true_iff in H as [H1 H2]. fold (no_lf s) in H2.
  cbn [ctn]. destruct (N.eqb c LF); [discriminate|]. destruct (N.eqb c CR); apply IH; exact H2.
Qed.

Lemma no_lf_firstn s n : no_lf s = true -> no_lf (firstn n s) = true.
Proof.
  revert n; induction s as [|c s IH]; intros n H; [rewrite firstn_nil; reflexivity|].
  destruct n as [|n]; [reflexivity|]. cbn [no_lf forallb firstn] in *.
  apply andb_true_iff in H as [H1 H2]. rewrite H1. cbn. apply IH. exact H2.
Qed.

Lemma starts_with_firstn_eq t s : starts_with t s = true -> firstn (length t) s = t.
Proof.
  intros H. apply starts_with_app in H as [r ->]. rewrite firstn_app, Nat.sub_diag, firstn_all.
  cbn [firstn]. apply app_nil_r.
Qed.

(** a token without line feed: judging a prefix that is complete or nine bytes long = judging the whole *)
Lemma starts_with_prefix_stable t s n :
  no_lf t = true -> length t <= 9 -> n <= length s ->
  (9 <= n \/ ctn false (firstn n s) = true) ->
  starts_with t (firstn n s) = starts_with t s.
Proof.
  intros Ht H9 Hn Hor.
  destruct (Nat.le_gt_cases (length t) n) as [Hle|Hgt]; [apply starts_with_firstn; exact Hle|].
  destruct Hor as [Hor|Hor]; [lia|].
  rewrite starts_with_short by (rewrite firstn_length; lia).
  destruct (starts_with t s) eqn:E; [|reflexivity]. exfalso.
  apply starts_with_firstn_eq in E.
  assert (Hp : firstn n s = firstn n t).
  { rewrite <- E. rewrite firstn_firstn. f_equal. lia. }
  rewrite Hp in Hor. rewrite ctn_no_lf in Hor; [discriminate|]. apply no_lf_firstn. exact Ht.
Qed.

Lemma start_tokens_shape : forallb (fun t => no_lf t && Nat.leb (length t) 9) start_tokens = true.
Proof. vm_compute. reflexivity. Qed.

(** the extension-method clause looks at the first eight bytes, all of them token bytes up to the space *)
Lemma tchar_not_lf c : tchar c = true -> N.eqb c LF = false.
Proof. intros H. destruct (N.eqb_spec c LF) as [->|]; [vm_compute in H; discriminate|reflexivity]. Qed.

Lemma ext_method_firstn_cases : forall s fuel seen n,
  ext_method fuel seen (firstn n s) = ext_method fuel seen s \/ forallb tchar (firstn n s) = true.
Proof.
  induction s as [|c s IH]; intros fuel seen n; [rewrite firstn_nil; left; reflexivity|].
  destruct n as [|n]; [right; reflexivity|].
  cbn [firstn ext_method forallb]. destruct (N.eqb c SP); [left; reflexivity|].
  destruct fuel as [|f]; [left; reflexivity|].
  destruct (tchar c); [|left; reflexivity]. cbn [andb]. apply IH.
Qed.

Lemma ext_method_firstn_ge : forall s fuel seen n, fuel < n -> ext_method fuel seen (firstn n s) = ext_method fuel seen s.
Proof.
  induction s as [|c s IH]; intros fuel seen n Hn; [rewrite firstn_nil; reflexivity|].
  destruct n as [|n]; [lia|].
  cbn [firstn ext_method]. destruct (N.eqb c SP); [reflexivity|].
  destruct fuel as [|f]; [reflexivity|]. rewrite IH by lia. reflexivity.
Qed.

Lemma tchar_no_lf s : forallb tchar s = true -> no_lf s = true.
Proof.
  induction s as [|c s IH]; [reflexivity|]. cbn [forallb no_lf]. intros H. apply andb_true_iff in H as [H1 H2].
  rewrite (tchar_not_lf _ H1). cbn [negb andb]. apply IH. exact H2.
Qed.

Lemma ext_method_prefix_stable s n :
  (9 <= n \/ ctn false (firstn n s) = true) -> ext_method 7 false (firstn n s) = ext_method 7 false s.
Proof.
  intros [H9|Hc]; [apply ext_method_firstn_ge; lia|].
  destruct (ext_method_firstn_cases s 7 false n) as [H|H]; [exact H|].
  rewrite (ctn_no_lf false _ (tchar_no_lf _ H)) in Hc. discriminate.
Qed.

Lemma ext_method_app : forall a fuel seen b, ext_method fuel seen a = true -> ext_method fuel seen (a ++ b) = true.
Proof.
  induction a as [|c a IH]; intros fuel seen b H; [discriminate|].
  cbn [app ext_method] in *. destruct (N.eqb c SP); [exact H|].
  destruct fuel as [|f]; [discriminate|]. apply andb_true_iff in H as [H1 H2]. rewrite H1. cbn [andb]. apply IH. exact H2.
Qed.

(** a method token of at most [fuel] bytes, then a space *)
Lemma ext_method_token : forall m fuel seen rest,
  forallb tchar m = true -> length m <= fuel -> (seen = true \/ m <> []) ->
  ext_method fuel seen (m ++ SP :: rest) = true.
Proof.
  induction m as [|c m IH]; intros fuel seen rest Ht Hl Hs.
  - cbn [app ext_method]. change (N.eqb SP SP) with true. cbn iota. destruct Hs as [Hs|Hs]; [exact Hs|contradiction].
  - cbn [forallb] in Ht. apply andb_true_iff in Ht as [Hc Ht]. cbn [length] in Hl.
    cbn [app ext_method].
    assert (Hsp : N.eqb c SP = false).
    { destruct (N.eqb_spec c SP) as [->|]; [vm_compute in Hc; discriminate|reflexivity]. }
    rewrite Hsp. destruct fuel as [|f]; [lia|]. rewrite Hc. cbn [andb]. apply IH; [exact Ht|lia|left; reflexivity].
Qed.

Lemma valid_start_prefix_stable s n :
  n <= length s -> (9 <= n \/ ctn false (firstn n s) = true) -> valid_start (firstn n s) = valid_start s.
Proof.
  intros Hn Hor. unfold valid_start. rewrite (ext_method_prefix_stable s n Hor). f_equal.
  pose proof start_tokens_shape as Hs.
  induction start_tokens as [|t l IH]; [reflexivity|].
  cbn [forallb existsb] in *. apply andb_true_iff in Hs as [Ht Hl].
  apply andb_true_iff in Ht as [Ht1 Ht2]. apply Nat.leb_le in Ht2.
  rewrite starts_with_prefix_stable by assumption. rewrite IH by exact Hl. reflexivity.
Qed.

Lemma valid_start_app a b : valid_start a = true -> valid_start (a ++ b) = true.
Proof.
  unfold valid_start. intros H. apply orb_true_iff in H as [H|H]; apply orb_true_iff; [left|right; apply ext_method_app; exact H].
  apply existsb_exists in H as [t [Hin Ht]].
  apply existsb_exists. exists t. split; [exact Hin|].
  apply starts_with_app in Ht as [r ->]. apply starts_with_app. exists (r ++ b). rewrite app_assoc. reflexivity.
Qed.

(** a method token of at most seven bytes followed by a space starts a request *)
Lemma valid_start_token m rest :
  forallb tchar m = true -> length m <= 7 -> m <> [] -> valid_start (m ++ SP :: rest) = true.
Proof.
  intros Ht Hl Hne. unfold valid_start. apply orb_true_iff. right. apply ext_method_token; [exact Ht|exact Hl|right; exact Hne].
Qed.

(** * The head reader: what it can return at all (every growth function, every schedule) *)

Lemma read_headers_sound grow : forall fuel mode max_len buf cap r,
  length (rd_data r) < fuel ->
  match read_headers grow fuel mode max_len buf cap r with
  | Ok (b, r') =>
      exists n, b = buf ++ firstn n (rd_data r) /\ n <= length (rd_data r) /\ n <= sum_sched (rd_sched r) /\
                rd_data r' = skipn n (rd_data r) /\ sum_sched (rd_sched r') = sum_sched (rd_sched r) - n /\
                length b <= max_len /\ contains_two_newlines b = true /\ valid_start b = true
  | Err e => e = E_TOO_LONG \/ e = E_UNEXPECTED_END \/ e = E_SYNTAX
  | Panic => False
  end.
Proof.
  induction fuel as [|f IH]; intros mode max_len buf cap r Hf; [lia|].
  cbn [read_headers]. destruct (Nat.leb max_len (length buf)) eqn:Eml; [left; reflexivity|].
  apply Nat.leb_gt in Eml.
  set (cap' := read_more_cap grow max_len (length buf) cap).
  pose proof (rd_read_any mode r (Nat.min cap' max_len - length buf)) as Hrd.
  destruct (rd_read mode r (Nat.min cap' max_len - length buf)) as [got r'| |];
    [|right; left; reflexivity|right; left; reflexivity].
  destruct Hrd as [n [Hgot [Hlen [Hn1 [Hn2 [Hn3 [Hd' Hs']]]]]]].
  destruct (null got) eqn:Enull; [right; left; reflexivity|].
  apply null_false_length in Enull.
  destruct ((contains_two_newlines (buf ++ got) || Nat.leb 9 (length (buf ++ got))) && negb (valid_start (buf ++ got))) eqn:Esyn;
    [right; right; reflexivity|].
  destruct (contains_two_newlines (buf ++ got)) eqn:Ec.
  - exists n. subst got. repeat split; try assumption.
    + rewrite app_length. lia.
    + cbn [orb andb] in Esyn. destruct (valid_start (buf ++ firstn n (rd_data r))); [reflexivity|discriminate].
  - specialize (IH mode max_len (buf ++ got) cap' r').
    assert (Hf' : length (rd_data r') < f). { rewrite Hd', skipn_length. lia. }
    specialize (IH Hf').
    destruct (read_headers grow f mode max_len (buf ++ got) cap' r') as [[b r'']|e|]; [|exact IH|exact IH].
    destruct IH as [n' [Hb [Hn1' [Hn3' [Hd'' [Hs'' [Hl [Hc Hv]]]]]]]].
    exists (n + n'). rewrite Hd' in *. rewrite skipn_length in Hn1'.
    repeat split; try assumption; try lia.
    + rewrite Hb, Hgot, <- app_assoc, firstn_skipn_add. reflexivity.
    + rewrite Hd''. apply skipn_skipn_add.
Qed.

(** * The head reader, exactly: positive schedules and a growth function that keeps its promise *)

(** [rd_at S d p r]: the connection carries the stream [S], has handed out its first [p] bytes
    and will hand out [d] bytes in all. *)
Definition rd_at (S : bytes) (d p : nat) (r : reader) : Prop :=
  rd_data r = skipn p S /\ sched_pos (rd_sched r) /\ p <= d /\ d <= length S /\
  Nat.min (p + sum_sched (rd_sched r)) (length S) = d.

Lemma rd_at_avail S d p r : rd_at S d p r -> avail r = d - p.
Proof. intros [H1 [H2 [H3 [H4 H5]]]]. unfold avail. rewrite H1, skipn_length. lia. Qed.

Lemma rd_at_start stream sched :
  sched_pos sched -> rd_at stream (Nat.min (sum_sched sched) (length stream)) 0 (mk_reader stream sched).
Proof. intros H. unfold rd_at. cbn [rd_data rd_sched skipn]. repeat split; try assumption; lia. Qed.

Lemma rd_at_step S d p r n r' :
  rd_at S d p r -> n <= avail r -> rd_data r' = skipn n (rd_data r) -> sched_pos (rd_sched r') ->
  sum_sched (rd_sched r') = sum_sched (rd_sched r) - n -> rd_at S d (p + n) r'.
Proof.
  intros Hat Hn Hd Hp Hs. pose proof (rd_at_avail _ _ _ _ Hat) as Ha.
  destruct Hat as [H1 [H2 [H3 [H4 H5]]]]. unfold rd_at.
  split; [rewrite Hd, H1; apply skipn_skipn_add|]. split; [exact Hp|].
  unfold avail in *. rewrite H1, skipn_length in *. lia.
Qed.

Lemma read_more_cap_room grow max_len len cap :
  grow_ok grow -> len <= cap -> len < max_len -> len < Nat.min (read_more_cap grow max_len len cap) max_len.
Proof.
  intros Hg Hc Hl. unfold read_more_cap, reserve.
  pose proof (Hg cap len (len + 512 - max_len)). pose proof (Hg cap len 512).
  destruct (Nat.ltb cap (len + 512)) eqn:E1; [|lia].
  destruct (Nat.ltb max_len (len + 512)) eqn:E2.
  - destruct (Nat.leb (len + 512 - max_len) (cap - len)) eqn:E3; lia.
  - destruct (Nat.leb 512 (cap - len)) eqn:E3; lia.
Qed.

Lemma firstn_firstn_le {A} (l : list A) n m : n <= m -> firstn n (firstn m l) = firstn n l.
Proof. intros H. rewrite firstn_firstn. f_equal. lia. Qed.

Lemma vs_prefix S d c :
  c <= d -> d <= length S -> (9 <= c \/ ctn false (firstn c S) = true) ->
  valid_start (firstn c S) = valid_start (firstn d S).
Proof.
  intros Hc Hd Hor. rewrite <- (firstn_firstn_le S c d Hc).
  apply valid_start_prefix_stable; [rewrite firstn_length; lia|].
  rewrite firstn_firstn_le by exact Hc. exact Hor.
Qed.

Lemma bl_end_prefix_false S d p k :
  p <= d -> ctn false (firstn p S) = false -> bl_end false (firstn d S) = Some k -> p < k.
Proof.
  intros Hp Hc Hk. pose proof (ctn_firstn false (firstn d S) p) as H.
  rewrite firstn_firstn_le in H by exact Hp. rewrite Hc, Hk in H.
  symmetry in H. apply Nat.leb_gt in H. exact H.
Qed.

Lemma head_spec_too_long max_len S d p :
  ctn false (firstn p S) = false -> max_len <= p -> p <= d -> d <= length S ->
  (9 <= p -> valid_start (firstn p S) = true) ->
  head_spec max_len (firstn d S) = Err E_TOO_LONG.
Proof.
  intros Hc Hm Hp Hd Hv. unfold head_spec, blank_end.
  assert (Hf : head_fail max_len (firstn d S) = Err E_TOO_LONG).
  { unfold head_fail. rewrite firstn_length_le by exact Hd.
    destruct (Nat.leb 9 (Nat.min d max_len)) eqn:E9.
    - apply Nat.leb_le in E9. rewrite <- (vs_prefix S d p) by (try assumption; left; lia).
      rewrite Hv by lia. cbn [negb andb]. destruct (Nat.leb max_len d) eqn:E; [reflexivity|]. apply Nat.leb_gt in E. lia.
    - cbn [andb]. destruct (Nat.leb max_len d) eqn:E; [reflexivity|]. apply Nat.leb_gt in E. lia. }
  destruct (bl_end false (firstn d S)) as [k|] eqn:Ek; [|exact Hf].
  pose proof (bl_end_prefix_false S d p k Hp Hc Ek).
  destruct (Nat.leb k max_len) eqn:E; [apply Nat.leb_le in E; lia|exact Hf].
Qed.

Lemma head_spec_eof max_len S p :
  ctn false (firstn p S) = false -> p < max_len -> p <= length S ->
  (9 <= p -> valid_start (firstn p S) = true) ->
  head_spec max_len (firstn p S) = Err E_UNEXPECTED_END.
Proof.
  intros Hc Hm Hp Hv. unfold head_spec, blank_end.
  rewrite ctn_bl_end in Hc. destruct (bl_end false (firstn p S)); [discriminate|].
  unfold head_fail. rewrite firstn_length_le by exact Hp.
  destruct (Nat.leb 9 (Nat.min p max_len)) eqn:E9.
  - apply Nat.leb_le in E9. rewrite Hv by lia. cbn [negb andb].
    destruct (Nat.leb max_len p) eqn:E; [apply Nat.leb_le in E; lia|reflexivity].
  - cbn [andb]. destruct (Nat.leb max_len p) eqn:E; [apply Nat.leb_le in E; lia|reflexivity].
Qed.

Lemma head_spec_syntax max_len S d c :
  c <= d -> d <= length S -> c <= max_len ->
  (ctn false (firstn c S) = true \/ 9 <= c) -> valid_start (firstn c S) = false ->
  head_spec max_len (firstn d S) = Err E_SYNTAX.
Proof.
  intros Hc Hd Hm Hor Hv. unfold head_spec, blank_end.
  assert (Hvd : valid_start (firstn d S) = false).
  { rewrite <- (vs_prefix S d c); [exact Hv|exact Hc|exact Hd|]. destruct Hor; [right|left]; assumption. }
  assert (Hf : 9 <= c -> head_fail max_len (firstn d S) = Err E_SYNTAX).
  { intros H9. unfold head_fail. rewrite firstn_length_le by exact Hd. rewrite Hvd.
    destruct (Nat.leb 9 (Nat.min d max_len)) eqn:E; [reflexivity|]. apply Nat.leb_gt in E. lia. }
  pose proof (ctn_firstn false (firstn d S) c) as Hcf. rewrite firstn_firstn_le in Hcf by exact Hc.
  destruct (bl_end false (firstn d S)) as [k|] eqn:Ek.
  - destruct (Nat.leb k max_len) eqn:E; [rewrite Hvd; reflexivity|].
    apply Nat.leb_gt in E. destruct Hor as [Hor|Hor]; [|apply Hf; exact Hor].
    rewrite Hor in Hcf. symmetry in Hcf. apply Nat.leb_le in Hcf. lia.
  - destruct Hor as [Hor|Hor]; [rewrite Hor in Hcf; discriminate|apply Hf; exact Hor].
Qed.

Lemma head_spec_ok max_len S d c :
  c <= d -> d <= length S -> c <= max_len ->
  ctn false (firstn c S) = true -> valid_start (firstn c S) = true ->
  exists k, head_spec max_len (firstn d S) = Ok k /\ k <= c.
Proof.
  intros Hc Hd Hm Hct Hv. unfold head_spec, blank_end.
  pose proof (ctn_firstn false (firstn d S) c) as Hcf. rewrite firstn_firstn_le in Hcf by exact Hc.
  rewrite Hct in Hcf. destruct (bl_end false (firstn d S)) as [k|] eqn:Ek; [|discriminate].
  symmetry in Hcf. apply Nat.leb_le in Hcf. exists k.
  destruct (Nat.leb k max_len) eqn:E; [|apply Nat.leb_gt in E; lia].
  rewrite <- (vs_prefix S d c) by (try assumption; right; exact Hct). rewrite Hv. split; [reflexivity|exact Hcf].
Qed.

Lemma read_headers_exact grow : grow_ok grow -> forall fuel mode max_len S d p cap r,
  rd_at S d p r -> d - p < fuel -> p <= cap ->
  ctn false (firstn p S) = false -> (9 <= p -> valid_start (firstn p S) = true) ->
  match head_spec max_len (firstn d S) with
  | Ok k => exists c r', read_headers grow fuel mode max_len (firstn p S) cap r = Ok (firstn c S, r') /\
                         k <= c /\ c <= max_len /\ rd_at S d c r'
  | Err e => read_headers grow fuel mode max_len (firstn p S) cap r = Err e
  | Panic => False
  end.
Proof.
  intros Hg. induction fuel as [|f IH]; intros mode max_len S d p cap r Hat Hf Hcap Hct Hv; [lia|].
  pose proof (rd_at_avail _ _ _ _ Hat) as Hav.
  assert (HpS : p <= length S) by (destruct Hat as [_ [_ [? [? _]]]]; lia).
  assert (Hpd : p <= d) by (destruct Hat as [_ [_ [? _]]]; assumption).
  assert (HdS : d <= length S) by (destruct Hat as [_ [_ [_ [? _]]]]; assumption).
  cbn [read_headers]. rewrite (firstn_length_le S HpS).
  destruct (Nat.leb max_len p) eqn:Eml.
  { apply Nat.leb_le in Eml. rewrite (head_spec_too_long max_len S d p) by assumption. reflexivity. }
  apply Nat.leb_gt in Eml.
  set (cap' := read_more_cap grow max_len p cap).
  pose proof (read_more_cap_room grow max_len p cap Hg Hcap Eml) as Hroom. fold cap' in Hroom.
  destruct (Nat.eq_dec d p) as [Hdp|Hdp].
  - (* nothing more will arrive *)
    subst d. rewrite rd_read_empty; [|destruct Hat as [_ [? _]]; assumption|lia|lia].
    rewrite (head_spec_eof max_len S p) by assumption.
    unfold rd_end. destruct (N.eqb mode 0); [reflexivity|]. destruct (N.eqb mode 1); reflexivity.
  - destruct (rd_read_pos mode r (Nat.min cap' max_len - p)) as [n [r' [Hrd [Hn0 [Hn1 [Hn2 [Hd' [Hp' Hs']]]]]]]];
      [destruct Hat as [_ [? _]]; assumption|lia|lia|].
    rewrite Hrd. pose proof (rd_at_step _ _ _ _ n r' Hat Hn2 Hd' Hp' Hs') as Hat'.
    destruct Hat as [Hdat _]. rewrite Hdat. rewrite firstn_skipn_add.
    assert (Hnull : null (firstn n (skipn p S)) = false).
    { apply null_false_length. rewrite firstn_length, skipn_length. lia. }
    rewrite Hnull. set (c := p + n) in *.
    assert (Hcd : c <= d) by lia. assert (Hcm : c <= max_len) by lia.
    rewrite (firstn_length_le S) by lia.
    unfold contains_two_newlines.
    destruct ((ctn false (firstn c S) || Nat.leb 9 c) && negb (valid_start (firstn c S))) eqn:Esyn.
    + apply andb_true_iff in Esyn as [E1 E2]. apply negb_true_iff in E2.
      rewrite (head_spec_syntax max_len S d c); try assumption; [reflexivity|].
      apply orb_true_iff in E1 as [E1|E1]; [left; exact E1|right; apply Nat.leb_le; exact E1].
    + destruct (ctn false (firstn c S)) eqn:Ec.
      * cbn [orb andb] in Esyn. apply negb_false_iff in Esyn.
        destruct (head_spec_ok max_len S d c Hcd HdS Hcm Ec Esyn) as [k [Hk Hkc]]. rewrite Hk.
        exists c, r'. split; [reflexivity|]. split; [exact Hkc|]. split; [exact Hcm|exact Hat'].
      * cbn [orb] in Esyn.
        specialize (IH mode max_len S d c cap' r' Hat').
        assert (Hv' : 9 <= c -> valid_start (firstn c S) = true).
        { intros H9. apply Nat.leb_le in H9. rewrite H9 in Esyn. cbn [andb] in Esyn. apply negb_false_iff in Esyn. exact Esyn. }
        apply IH; [lia|lia|exact Ec|exact Hv'].
Qed.

(** * The body reader *)

Lemma rtem_reserve_ge grow read cap : grow_ok grow -> cap <= rtem_reserve grow read cap.
Proof.
  intros Hg. unfold rtem_reserve. destruct (Nat.ltb (cap - read) 32); [|lia].
  match goal with |- _ <= grow cap cap ?a => pose proof (Hg cap cap a) end. lia.
Qed.

Lemma rtem_loop_exact grow : grow_ok grow -> forall fuel mode max_len S d p buf cap tl r,
  rd_at S d p r -> tl < fuel -> length buf + tl = max_len -> max_len <= cap ->
  if Nat.leb tl (d - p) then
    exists r', rtem_loop grow fuel mode max_len buf cap tl r = Ok (buf ++ firstn tl (skipn p S), r') /\ rd_at S d (p + tl) r'
  else if N.eqb mode 0 then
    exists r', rtem_loop grow fuel mode max_len buf cap tl r = Ok (buf ++ firstn (d - p) (skipn p S), r') /\ rd_at S d d r'
  else if N.eqb mode 1 then rtem_loop grow fuel mode max_len buf cap tl r = Err E_TIMEDOUT
  else rtem_loop grow fuel mode max_len buf cap tl r = Err E_IO.
Proof.
  intros Hg. induction fuel as [|f IH]; intros mode max_len S d p buf cap tl r Hat Hf Hlen Hcap; [lia|].
  pose proof (rd_at_avail _ _ _ _ Hat) as Hav.
  assert (Hpd : p <= d) by (destruct Hat as [_ [_ [? _]]]; assumption).
  cbn [rtem_loop]. destruct (Nat.eqb tl 0) eqn:Etl.
  { apply Nat.eqb_eq in Etl. subst tl. cbn [Nat.leb firstn]. exists r. rewrite app_nil_r, Nat.add_0_r. split; [reflexivity|exact Hat]. }
  apply Nat.eqb_neq in Etl.
  replace (Nat.min (cap - length buf) tl) with tl by lia.
  destruct (Nat.eq_dec d p) as [Hdp|Hdp].
  - subst d. rewrite rd_read_empty; [|destruct Hat as [_ [? _]]; assumption|lia|lia].
    destruct (Nat.leb tl (p - p)) eqn:E; [apply Nat.leb_le in E; lia|].
    unfold rd_end. rewrite Nat.sub_diag. cbn [firstn]. rewrite app_nil_r.
    destruct (N.eqb mode 0); [exists r; split; [reflexivity|exact Hat]|].
    destruct (N.eqb mode 1); reflexivity.
  - destruct (rd_read_pos mode r tl) as [n [r' [Hrd [Hn0 [Hn1 [Hn2 [Hd' [Hp' Hs']]]]]]]];
      [destruct Hat as [_ [? _]]; assumption|lia|lia|].
    rewrite Hrd. pose proof (rd_at_step _ _ _ _ n r' Hat Hn2 Hd' Hp' Hs') as Hat'.
    assert (Hdat : rd_data r = skipn p S) by (destruct Hat as [? _]; assumption).
    assert (HdS : d <= length S) by (destruct Hat as [_ [_ [_ [? _]]]]; assumption).
    rewrite Hdat.
    assert (Hgl : length (firstn n (skipn p S)) = n) by (rewrite firstn_length, skipn_length; lia).
    assert (Hnull : null (firstn n (skipn p S)) = false) by (apply null_false_length; lia).
    rewrite Hnull, app_length, Hgl.
    destruct (Nat.leb max_len (length buf + n)) eqn:Em.
    + apply Nat.leb_le in Em. assert (n = tl) by lia. subst n.
      destruct (Nat.leb tl (d - p)) eqn:E; [|apply Nat.leb_gt in E; lia].
      exists r'. split; [reflexivity|exact Hat'].
    + apply Nat.leb_gt in Em.
      specialize (IH mode max_len S d (p + n) (buf ++ firstn n (skipn p S))
                     (rtem_reserve grow (length buf + n) cap) (tl - n) r' Hat').
      pose proof (rtem_reserve_ge grow (length buf + n) cap Hg).
      rewrite app_length, Hgl in IH.
      specialize (IH ltac:(lia) ltac:(lia) ltac:(lia)).
      replace (d - (p + n)) with (d - p - n) in IH by lia.
      destruct (Nat.leb tl (d - p)) eqn:E.
      * apply Nat.leb_le in E. destruct (Nat.leb (tl - n) (d - p - n)) eqn:E'; [|apply Nat.leb_gt in E'; lia].
        destruct IH as [r'' [H1 H2]]. exists r''. rewrite H1. split.
        -- rewrite <- app_assoc, <- (skipn_skipn_add S p n), firstn_skipn_add.
           replace (n + (tl - n)) with tl by lia. reflexivity.
        -- replace (p + tl) with (p + n + (tl - n)) by lia. exact H2.
      * apply Nat.leb_gt in E. destruct (Nat.leb (tl - n) (d - p - n)) eqn:E'; [apply Nat.leb_le in E'; lia|].
        destruct (N.eqb mode 0); [|exact IH].
        destruct IH as [r'' [H1 H2]]. exists r''. rewrite H1. split; [|exact H2].
        rewrite <- app_assoc, <- (skipn_skipn_add S p n), firstn_skipn_add.
        replace (n + (d - p - n)) with (d - p) by lia. reflexivity.
Qed.

Lemma read_to_bytes_exact grow : grow_ok grow -> forall mode early cl limit S d p r,
  rd_at S d p r ->
  match body_spec mode early cl limit (firstn (d - p) (skipn p S)) with
  | Ok b => exists r', read_to_bytes grow mode early cl limit r = Ok (b, r') /\
                       rd_at S d (p + Nat.min (N.to_nat (N.min cl limit) - length early) (d - p)) r'
  | Err e => read_to_bytes grow mode early cl limit r = Err e
  | Panic => False
  end.
Proof.
  intros Hg mode early cl limit S d p r Hat. unfold body_spec, read_to_bytes.
  set (need := N.to_nat (N.min cl limit)).
  assert (HdS : d <= length S) by (destruct Hat as [_ [_ [_ [? _]]]]; assumption).
  assert (Hpd : p <= d) by (destruct Hat as [_ [_ [? _]]]; assumption).
  assert (Hl : length (firstn (d - p) (skipn p S)) = d - p) by (rewrite firstn_length, skipn_length; lia).
  rewrite Hl.
  destruct (Nat.eqb need 0) eqn:E0.
  { apply Nat.eqb_eq in E0. rewrite E0. cbn [Nat.leb firstn]. exists r. split; [reflexivity|].
    replace (p + Nat.min (0 - length early) (d - p)) with p by lia. exact Hat. }
  apply Nat.eqb_neq in E0.
  destruct (Nat.leb need (length (firstn need early))) eqn:E1.
  { apply Nat.leb_le in E1. rewrite firstn_length in E1.
    destruct (Nat.leb need (length early + (d - p))) eqn:E2; [|apply Nat.leb_gt in E2; lia].
    exists r. split.
    - rewrite firstn_app. replace (need - length early) with 0 by lia. cbn [firstn]. rewrite app_nil_r. reflexivity.
    - replace (p + Nat.min (need - length early) (d - p)) with p by lia. exact Hat. }
  apply Nat.leb_gt in E1. rewrite firstn_length in E1.
  assert (Hea : firstn need early = early) by (apply firstn_all2; lia).
  rewrite Hea.
  pose proof (rtem_loop_exact grow Hg (Datatypes.S (need - length early)) mode need S d p early
                (rtem_reserve grow (length early) need) (need - length early) r Hat) as H.
  pose proof (rtem_reserve_ge grow (length early) need Hg).
  specialize (H ltac:(lia) ltac:(lia) ltac:(lia)).
  destruct (Nat.leb (need - length early) (d - p)) eqn:E3.
  - apply Nat.leb_le in E3. destruct (Nat.leb need (length early + (d - p))) eqn:E2; [|apply Nat.leb_gt in E2; lia].
    destruct H as [r' [H1 H2]]. exists r'. rewrite H1. split.
    + rewrite firstn_app, Hea, firstn_firstn.
      replace (Nat.min (need - length early) (d - p)) with (need - length early) by lia. reflexivity.
    + replace (Nat.min (need - length early) (d - p)) with (need - length early) by lia. exact H2.
  - apply Nat.leb_gt in E3. destruct (Nat.leb need (length early + (d - p))) eqn:E2; [apply Nat.leb_le in E2; lia|].
    destruct (N.eqb mode 0).
    + destruct H as [r' [H1 H2]]. exists r'. rewrite H1. split; [reflexivity|].
      replace (p + Nat.min (need - length early) (d - p)) with d by lia. exact H2.
    + destruct (N.eqb mode 1); exact H.
Qed.

(** * Head limit, stalled heads, exact bodies: the statements of Properties/C07.v *)

Lemma firstn_min_length {A} (l : list A) n : firstn (Nat.min n (length l)) l = firstn n l.
Proof.
  destruct (Nat.le_gt_cases n (length l)) as [H|H].
  - replace (Nat.min n (length l)) with n by lia. reflexivity.
  - replace (Nat.min n (length l)) with (length l) by lia. rewrite firstn_all, firstn_all2 by lia. reflexivity.
Qed.

Lemma firstn_app_firstn {A} (a s : list A) n d : n <= length a + d -> firstn n (a ++ firstn d s) = firstn n (a ++ s).
Proof. intros H. rewrite !firstn_app. f_equal. apply firstn_firstn_le. lia. Qed.

Lemma no_head_no_request : forall grow mode https dh max_len limit stream sched,
  contains_two_newlines (firstn (Nat.min max_len (sum_sched sched)) stream) = false ->
  exists e, serve grow mode https dh max_len limit stream sched = Err e /\
            (e = E_TOO_LONG \/ e = E_UNEXPECTED_END \/ e = E_SYNTAX).
Proof.
  intros grow mode https dh max_len limit stream sched Hno. unfold serve, read_request. cbn [rd_data].
  pose proof (read_headers_sound grow (Datatypes.S (length stream)) mode max_len [] 512 (mk_reader stream sched)) as H.
  cbn [rd_data rd_sched] in H. specialize (H ltac:(lia)).
  destruct (read_headers grow (Datatypes.S (length stream)) mode max_len [] 512 (mk_reader stream sched)) as [[b r']|e|];
    [|exists e; split; [reflexivity|exact H]|contradiction].
  exfalso. destruct H as [n [Hb [Hn1 [Hn2 [_ [_ [Hl [Hc _]]]]]]]]. cbn [app] in Hb. subst b.
  rewrite firstn_length_le in Hl by exact Hn1.
  unfold contains_two_newlines in *.
  rewrite (ctn_prefix false stream n (Nat.min max_len (sum_sched sched))) in Hno; [discriminate|lia|exact Hc].
Qed.

Lemma head_limit_lemma : forall grow mode https dh max_len limit stream sched,
  contains_two_newlines (firstn max_len stream) = false ->
  exists e, serve grow mode https dh max_len limit stream sched = Err e /\
            (e = E_TOO_LONG \/ e = E_UNEXPECTED_END \/ e = E_SYNTAX).
Proof.
  intros grow mode https dh max_len limit stream sched Hno. apply no_head_no_request.
  unfold contains_two_newlines in *.
  destruct (ctn false (firstn (Nat.min max_len (sum_sched sched)) stream)) eqn:E; [|reflexivity].
  rewrite (ctn_prefix false stream (Nat.min max_len (sum_sched sched)) max_len) in Hno; [discriminate|lia|exact E].
Qed.

Lemma stalled_lemma : forall grow mode https dh max_len limit stream sched,
  contains_two_newlines (firstn (sum_sched sched) stream) = false ->
  exists e, serve grow mode https dh max_len limit stream sched = Err e /\
            (e = E_TOO_LONG \/ e = E_UNEXPECTED_END \/ e = E_SYNTAX).
Proof.
  intros grow mode https dh max_len limit stream sched Hno. apply no_head_no_request.
  unfold contains_two_newlines in *.
  destruct (ctn false (firstn (Nat.min max_len (sum_sched sched)) stream)) eqn:E; [|reflexivity].
  rewrite (ctn_prefix false stream (Nat.min max_len (sum_sched sched)) (sum_sched sched)) in Hno; [discriminate|lia|exact E].
Qed.

(** the body reader = [body_spec] of what the connection delivers, for every schedule *)
Lemma body_any_schedule : forall grow mode early cl limit stream sched,
  grow_ok grow -> sched_pos sched ->
  match body_spec mode early cl limit (firstn (sum_sched sched) stream) with
  | Ok b => exists r', read_to_bytes grow mode early cl limit (mk_reader stream sched) = Ok (b, r')
  | Err e => read_to_bytes grow mode early cl limit (mk_reader stream sched) = Err e
  | Panic => False
  end.
Proof.
  intros grow mode early cl limit stream sched Hg Hp.
  pose proof (read_to_bytes_exact grow Hg mode early cl limit stream _ 0 _ (rd_at_start stream sched Hp)) as H.
  cbn [skipn] in H. rewrite Nat.sub_0_r, firstn_min_length in H.
  destruct (body_spec mode early cl limit (firstn (sum_sched sched) stream)); [|exact H|exact H].
  destruct H as [r' [H _]]. exists r'. exact H.
Qed.

Lemma body_exact_lemma : forall grow mode early cl limit stream sched,
  grow_ok grow -> sched_pos sched ->
  N.to_nat (N.min cl limit) <= length early + Nat.min (sum_sched sched) (length stream) ->
  exists r', read_to_bytes grow mode early cl limit (mk_reader stream sched) =
               Ok (firstn (N.to_nat (N.min cl limit)) (early ++ stream), r') /\
             rd_data r' = skipn (N.to_nat (N.min cl limit) - length early) stream.
Proof.
  intros grow mode early cl limit stream sched Hg Hp Hneed.
  pose proof (read_to_bytes_exact grow Hg mode early cl limit stream _ 0 _ (rd_at_start stream sched Hp)) as H.
  cbn [skipn] in H. rewrite Nat.sub_0_r in H. unfold body_spec in H.
  rewrite firstn_length_le in H by lia.
  destruct (Nat.leb (N.to_nat (N.min cl limit)) (length early + Nat.min (sum_sched sched) (length stream))) eqn:E;
    [|apply Nat.leb_gt in E; lia].
  destruct H as [r' [H1 H2]]. exists r'. rewrite H1. split.
  - rewrite firstn_app_firstn by exact Hneed. reflexivity.
  - destruct H2 as [H2 _]. rewrite H2. f_equal. lia.
Qed.

Lemma vec_grow_ok : grow_ok vec_grow.
Proof. intros cap len add. unfold vec_grow. lia. Qed.
