(** C01 — proofs about Model/PathSan.v. *)
From Coq Require Import ZifyBool ZifyNat ZifyN.
From KV Require Import Bytes PathSan.
Open Scope N_scope.
Arguments N.add : simpl never.
Arguments N.sub : simpl never.
Arguments N.mul : simpl never.
Arguments N.eqb : simpl never.
Arguments N.ltb : simpl never.
Arguments N.leb : simpl never.

(** ------------------------------------------------------------------ *)
(** * Sub-string search *)

Lemma contains_sub_intro p a b : contains_sub p (a ++ p ++ b) = true.
Proof.
  unfold contains_sub. induction a as [|x a IH]; cbn [app].
  - destruct (p ++ b) eqn:E.
    + cbn [find_sub]. destruct p; [reflexivity|discriminate].
    + cbn [find_sub]. rewrite <- E.
      replace (starts_with p (p ++ b)) with true; [reflexivity|].
      symmetry. apply starts_with_app. eexists; reflexivity.
  - cbn [find_sub]. destruct (starts_with p (x :: a ++ p ++ b)); [reflexivity|].
    destruct (find_sub p (a ++ p ++ b)); [reflexivity|discriminate].
Qed.

Lemma contains_sub_elim p s : contains_sub p s = true -> exists a b, s = a ++ p ++ b.
Proof.
  unfold contains_sub. induction s as [|x s IH]; cbn [find_sub].
  - destruct (starts_with p []) eqn:E; [|discriminate].
    intros _. apply starts_with_app in E as [r Hr]. exists [], r. exact Hr.
  - destruct (starts_with p (x :: s)) eqn:E.
    + intros _. apply starts_with_app in E as [r Hr]. exists [], r. exact Hr.
    + destruct (find_sub p s) eqn:F; [|discriminate].
      intros _. destruct IH as (a & b & ->); [reflexivity|].
      exists (x :: a), b. reflexivity.
Qed.

Lemma contains_sub_iff p s : contains_sub p s = true <-> exists a b, s = a ++ p ++ b.
Proof.
  split; [apply contains_sub_elim|]. intros (a & b & ->). apply contains_sub_intro.
Qed.

Definition hd_is (c : N) (s : bytes) : bool := match s with x :: _ => x =? c | [] => false end.

Lemma has_dot_slash_b_cons a r :
  has_dot_slash_b (a :: r) = ((a =? c_dot) && hd_is c_slash r) || has_dot_slash_b r.
Proof. destruct r as [|b r]; cbn [has_dot_slash_b hd_is]; [rewrite andb_false_r|]; reflexivity. Qed.

Lemma has_dot_slash_b_contains d : has_dot_slash_b d = contains_sub dot_slash d.
Proof.
  unfold contains_sub. induction d as [|a r IH].
  - reflexivity.
  - rewrite has_dot_slash_b_cons, IH. cbn [find_sub].
    change (starts_with dot_slash (a :: r)) with ((c_dot =? a) && starts_with [c_slash] r).
    rewrite (N.eqb_sym c_dot a).
    replace (starts_with [c_slash] r) with (hd_is c_slash r).
    2:{ destruct r as [|b r']; cbn [hd_is starts_with]; [reflexivity|].
        rewrite andb_true_r. apply N.eqb_sym. }
    destruct ((a =? c_dot) && hd_is c_slash r); cbn [orb]; [reflexivity|].
    destruct (find_sub dot_slash r); reflexivity.
Qed.

Lemma has_dot_slash_iff d : has_dot_slash_b d = true <-> has_dot_slash d.
Proof. rewrite has_dot_slash_b_contains. apply contains_sub_iff. Qed.

(** ------------------------------------------------------------------ *)
(** * The path test of [sanitize_request] is the specification [unsafe] *)

Lemma starts_with_1 c s : starts_with [c] s = hd_is c s.
Proof.
  destruct s as [|x s]; cbn [starts_with hd_is]; [reflexivity|].
  rewrite andb_true_r. apply N.eqb_sym.
Qed.

Lemma path_ok_of_unsafe_b d : path_ok_of d = negb (unsafe_b d).
Proof.
  unfold path_ok_of, unsafe_b, path_is_relative. rewrite <- has_dot_slash_b_contains.
  rewrite !starts_with_1.
  destruct (has_dot_slash_b d); cbn [orb negb]; [reflexivity|].
  destruct d as [|a r]; cbn [hd_is parse_uri negb]; [reflexivity|].
  destruct (a =? c_slash); cbn [negb orb]; [|reflexivity].
  rewrite starts_with_1. reflexivity.
Qed.

Lemma unsafe_b_iff d : unsafe_b d = true <-> unsafe d.
Proof.
  unfold unsafe_b, unsafe, rooted, absolute_after_strip. rewrite orb_true_iff, has_dot_slash_iff.
  split.
  - intros [H|H]; [left; exact H|right].
    destruct d as [|a r]; [left; intros [r' Hr']; discriminate|].
    apply orb_true_iff in H as [H|H].
    + left. intros [r' Hr']. inversion Hr'; subst. rewrite N.eqb_refl in H. discriminate.
    + destruct (a =? c_slash) eqn:Ea.
      * right. apply N.eqb_eq in Ea. subst a. destruct r as [|b r']; [discriminate|].
        cbn [hd_is] in H. apply N.eqb_eq in H. subst b. eexists; reflexivity.
      * left. intros [r' Hr']. inversion Hr'; subst. rewrite N.eqb_refl in Ea. discriminate.
  - intros [H|[H|H]]; [left; exact H| |]; right.
    + destruct d as [|a r]; [reflexivity|].
      destruct (a =? c_slash) eqn:Ea; [|reflexivity].
      apply N.eqb_eq in Ea. subst a. exfalso. apply H. eexists; reflexivity.
    + destruct H as [r ->]. cbn [hd_is]. rewrite !N.eqb_refl. reflexivity.
Qed.

Lemma sanitize_path_spec_check p :
  sanitize_path p = (if unsafe_b (decoded_for_check p) then Err E_UNSAFE else Ok tt).
Proof. unfold sanitize_path. rewrite path_ok_of_unsafe_b. destruct (unsafe_b _); reflexivity. Qed.

(** ------------------------------------------------------------------ *)
(** * [String::from_utf8_lossy] keeps the ASCII skeleton *)

Definition high (c : N) : Prop := 128 <= c.

Lemma cont_high c : cont c = true -> high c.
Proof. unfold cont, high. lia. Qed.
Lemma second3_high c c1 : second3 c c1 = true -> high c1.
Proof. unfold second3, cont, high. destruct (c =? 224), (c =? 237); lia. Qed.
Lemma second4_high c c1 : second4 c c1 = true -> high c1.
Proof. unfold second4, cont, high. destruct (c =? 240), (c =? 244); lia. Qed.
Lemma fffd_high : Forall high fffd.
Proof. unfold fffd, high. repeat constructor; lia. Qed.

(** One step of the conversion: an ASCII byte is copied; otherwise a non-empty run of
    non-ASCII input bytes becomes a non-empty run of non-ASCII output bytes. *)
Inductive lossy_step (s : bytes) : Prop :=
| LS_nil : s = [] -> utf8_lossy s = [] -> lossy_step s
| LS_ascii c r : s = c :: r -> c < 128 -> utf8_lossy s = c :: utf8_lossy r -> lossy_step s
| LS_high hi rest out :
    s = hi ++ rest -> hi <> [] -> Forall high hi -> out <> [] -> Forall high out ->
    utf8_lossy s = out ++ utf8_lossy rest -> lossy_step s.

Ltac high_solve :=
  repeat match goal with
         | |- Forall high (_ :: _) => constructor
         | |- Forall high [] => constructor
         | H : cont ?c = true |- high ?c => exact (cont_high _ H)
         | H : second3 _ ?c = true |- high ?c => exact (second3_high _ _ H)
         | H : second4 _ ?c = true |- high ?c => exact (second4_high _ _ H)
         | |- high _ => unfold high; lia
         end.

Lemma utf8_lossy_nil_r out : out ++ utf8_lossy [] = out.
Proof. cbn. apply app_nil_r. Qed.

Lemma lossy_step_all s : lossy_step s.
Proof.
  destruct s as [|c r]; [apply LS_nil; reflexivity|].
  destruct (c <? 128) eqn:Ec.
  { eapply LS_ascii; [reflexivity|lia|]. cbn [utf8_lossy]. rewrite Ec. reflexivity. }
  assert (Hc : high c) by (unfold high; lia).
  (* every other branch consumes 1..4 non-ASCII bytes *)
  assert (Hbad : forall hi rest, c :: r = hi ++ rest -> hi <> [] -> Forall high hi ->
                   utf8_lossy (c :: r) = fffd ++ utf8_lossy rest -> lossy_step (c :: r)).
  { intros hi rest E Hn Hh Hl. eapply LS_high with (out := fffd); eauto using fffd_high. discriminate. }
  assert (Hgood : forall hi rest, c :: r = hi ++ rest -> hi <> [] -> Forall high hi ->
                   utf8_lossy (c :: r) = hi ++ utf8_lossy rest -> lossy_step (c :: r)).
  { intros hi rest E Hn Hh Hl. eapply LS_high with (out := hi); eauto. }
  cbn [utf8_lossy]. cbn [utf8_lossy] in Hbad, Hgood. rewrite Ec in *.
  destruct (lead2 c) eqn:E2.
  { destruct r as [|c1 r1].
    - apply (Hbad [c] []); [reflexivity|discriminate|high_solve|reflexivity].
    - destruct (cont c1) eqn:K1.
      + apply (Hgood [c; c1] r1); [reflexivity|discriminate|high_solve|reflexivity].
      + apply (Hbad [c] (c1 :: r1)); [reflexivity|discriminate|high_solve|reflexivity]. }
  destruct (lead3 c) eqn:E3.
  { destruct r as [|c1 r1].
    - apply (Hbad [c] []); [reflexivity|discriminate|high_solve|reflexivity].
    - destruct (second3 c c1) eqn:K1.
      + destruct r1 as [|c2 r2].
        * apply (Hbad [c; c1] []); [reflexivity|discriminate|high_solve|reflexivity].
        * destruct (cont c2) eqn:K2.
          -- apply (Hgood [c; c1; c2] r2); [reflexivity|discriminate|high_solve|reflexivity].
          -- apply (Hbad [c; c1] (c2 :: r2)); [reflexivity|discriminate|high_solve|reflexivity].
      + apply (Hbad [c] (c1 :: r1)); [reflexivity|discriminate|high_solve|reflexivity]. }
  destruct (lead4 c) eqn:E4.
  { destruct r as [|c1 r1].
    - apply (Hbad [c] []); [reflexivity|discriminate|high_solve|reflexivity].
    - destruct (second4 c c1) eqn:K1.
      + destruct r1 as [|c2 r2].
        * apply (Hbad [c; c1] []); [reflexivity|discriminate|high_solve|reflexivity].
        * destruct (cont c2) eqn:K2.
          -- destruct r2 as [|c3 r3].
             ++ apply (Hbad [c; c1; c2] []); [reflexivity|discriminate|high_solve|reflexivity].
             ++ destruct (cont c3) eqn:K3.
                ** apply (Hgood [c; c1; c2; c3] r3); [reflexivity|discriminate|high_solve|reflexivity].
                ** apply (Hbad [c; c1; c2] (c3 :: r3)); [reflexivity|discriminate|high_solve|reflexivity].
          -- apply (Hbad [c; c1] (c2 :: r2)); [reflexivity|discriminate|high_solve|reflexivity].
      + apply (Hbad [c] (c1 :: r1)); [reflexivity|discriminate|high_solve|reflexivity]. }
  apply (Hbad [c] r); [reflexivity|discriminate|high_solve|reflexivity].
Qed.

Lemma hd_is_high c hi rest : c < 128 -> hi <> [] -> Forall high hi -> hd_is c (hi ++ rest) = false.
Proof.
  intros Hc Hn Hh. destruct hi as [|x hi]; [congruence|]. inversion Hh; subst.
  cbn [app hd_is]. unfold high in *. lia.
Qed.

Lemma lossy_hd c s : c < 128 -> hd_is c (utf8_lossy s) = hd_is c s.
Proof.
  intros Hc. destruct (lossy_step_all s) as [E L|x r E Hx L|hi rest out E Hn Hh Hon Hoh L].
  - subst. reflexivity.
  - subst. rewrite L. reflexivity.
  - rewrite L, E. rewrite !hd_is_high by assumption. reflexivity.
Qed.

Lemma has_dot_slash_b_high hi rest : Forall high hi -> has_dot_slash_b (hi ++ rest) = has_dot_slash_b rest.
Proof.
  induction 1 as [|x hi Hx Hh IH]; [reflexivity|].
  cbn [app]. rewrite has_dot_slash_b_cons, IH.
  replace (x =? c_dot) with false; [reflexivity|]. unfold high, c_dot in *. lia.
Qed.

Lemma lossy_has_dot_slash s : has_dot_slash_b (utf8_lossy s) = has_dot_slash_b s.
Proof.
  remember (length s) as n eqn:Hn. revert s Hn.
  induction n as [n IH] using lt_wf_ind. intros s Hn.
  destruct (lossy_step_all s) as [E L|x r E Hx L|hi rest out E Hne Hh Hon Hoh L].
  - subst. reflexivity.
  - subst s. rewrite L, !has_dot_slash_b_cons. rewrite lossy_hd by (unfold c_slash; lia).
    rewrite (IH (length r)); [reflexivity| subst n; cbn [length]; lia | reflexivity].
  - rewrite L, E, !has_dot_slash_b_high by assumption.
    apply (IH (length rest)); [|reflexivity].
    subst. rewrite app_length. destruct hi; [congruence|cbn [length]; lia].
Qed.

Lemma unsafe_b_cons a r :
  unsafe_b (a :: r) = has_dot_slash_b (a :: r) || (negb (a =? c_slash) || hd_is c_slash r).
Proof. reflexivity. Qed.

Lemma lossy_unsafe_b s : unsafe_b (utf8_lossy s) = unsafe_b s.
Proof.
  destruct (lossy_step_all s) as [E L|x r E Hx L|hi rest out E Hne Hh Hon Hoh L].
  - subst. reflexivity.
  - subst s. rewrite L, !unsafe_b_cons.
    rewrite lossy_hd by (unfold c_slash; lia).
    rewrite <- L, lossy_has_dot_slash. reflexivity.
  - generalize (lossy_has_dot_slash s). rewrite L, E.
    destruct hi as [|a hi]; [congruence|]. destruct out as [|b out]; [congruence|].
    inversion Hh; subst. inversion Hoh; subst. cbn [app]. intros HH.
    rewrite !unsafe_b_cons, HH.
    replace (a =? c_slash) with false by (unfold high, c_slash in *; lia).
    replace (b =? c_slash) with false by (unfold high, c_slash in *; lia).
    cbn [negb orb]. rewrite !orb_true_r. reflexivity.
Qed.

Lemma lossy_valid s : utf8_valid s = true -> utf8_lossy s = s.
Proof.
  remember (length s) as n eqn:Hn. revert s Hn.
  induction n as [n IH] using lt_wf_ind. intros s Hn.
  destruct s as [|c r]; [reflexivity|].
  cbn [utf8_valid utf8_lossy].
  destruct (c <? 128).
  { intros H. rewrite (IH (length r)); [reflexivity|subst; cbn [length]; lia|reflexivity|exact H]. }
  destruct (lead2 c).
  { destruct r as [|c1 r1]; [discriminate|]. intros H. apply andb_true_iff in H as [H1 H2].
    rewrite H1. rewrite (IH (length r1)); [reflexivity|subst; cbn [length]; lia|reflexivity|exact H2]. }
  destruct (lead3 c).
  { destruct r as [|c1 [|c2 r2]]; [discriminate|discriminate|]. intros H.
    apply andb_true_iff in H as [H H3]. apply andb_true_iff in H as [H1 H2].
    rewrite H1, H2. rewrite (IH (length r2)); [reflexivity|subst; cbn [length]; lia|reflexivity|exact H3]. }
  destruct (lead4 c).
  { destruct r as [|c1 [|c2 [|c3 r3]]]; [discriminate|discriminate|discriminate|]. intros H.
    apply andb_true_iff in H as [H H4]. apply andb_true_iff in H as [H H3]. apply andb_true_iff in H as [H1 H2].
    rewrite H1, H2, H3. rewrite (IH (length r3)); [reflexivity|subst; cbn [length]; lia|reflexivity|exact H4]. }
  discriminate.
Qed.

(** The path test, in terms of the raw percent-decoding. *)
Lemma sanitize_path_spec p :
  sanitize_path p = (if unsafe_b (percent_decode p) then Err E_UNSAFE else Ok tt).
Proof. rewrite sanitize_path_spec_check. unfold decoded_for_check. rewrite lossy_unsafe_b. reflexivity. Qed.

(** ------------------------------------------------------------------ *)
(** * Segments *)

Lemma split_on_nonempty sep s : split_on sep s <> [].
Proof.
  destruct s as [|c r]; cbn [split_on]; [discriminate|].
  destruct (c =? sep); [discriminate|]. destruct (split_on sep r); discriminate.
Qed.

Lemma split_on_cons_ne sep c r :
  (c =? sep) = false ->
  split_on sep (c :: r) = (c :: hd [] (split_on sep r)) :: tl (split_on sep r).
Proof.
  intros H. cbn [split_on]. rewrite H.
  destruct (split_on sep r) eqn:E; [exfalso; eapply split_on_nonempty; eassumption|reflexivity].
Qed.

Lemma split_on_cons_eq sep r : split_on sep (sep :: r) = [] :: split_on sep r.
Proof. cbn [split_on]. rewrite N.eqb_refl. reflexivity. Qed.

Lemma split_on_app_sep sep a b : split_on sep (a ++ sep :: b) = split_on sep a ++ split_on sep b.
Proof.
  induction a as [|c a IH]; cbn [app].
  - rewrite split_on_cons_eq. reflexivity.
  - destruct (c =? sep) eqn:E.
    + apply N.eqb_eq in E. subst c. rewrite !split_on_cons_eq, IH. reflexivity.
    + rewrite !split_on_cons_ne by assumption. rewrite IH.
      destruct (split_on sep a) eqn:Ea; [exfalso; eapply split_on_nonempty; eassumption|].
      reflexivity.
Qed.

Lemma segments_join a b : segments (a ++ [c_slash] ++ b) = segments a ++ segments b.
Proof. apply split_on_app_sep. Qed.

Lemma split_on_head_nil sep r tl_ :
  split_on sep r = [] :: tl_ -> tl_ <> [] -> hd_is sep r = true.
Proof.
  destruct r as [|x r]; cbn [split_on hd_is].
  - intros H. inversion H. congruence.
  - destruct (x =? sep); [reflexivity|].
    destruct (split_on sep r); discriminate.
Qed.

(** every segment but the last does not end in '.' *)
Fixpoint nonlast_ok (l : list bytes) : bool :=
  match l with
  | [] => true
  | x :: r => match r with [] => true | _ => negb (ends_with_byte c_dot x) && nonlast_ok r end
  end.

Lemma ends_with_byte_cons c x h : h <> [] -> ends_with_byte c (x :: h) = ends_with_byte c h.
Proof. destruct h; [congruence|]. reflexivity. Qed.

Lemma segments_nonlast_ok t : has_dot_slash_b t = false -> nonlast_ok (segments t) = true.
Proof.
  unfold segments. induction t as [|c r IH]; [reflexivity|].
  rewrite has_dot_slash_b_cons. intros H. apply orb_false_iff in H as [H1 H2].
  specialize (IH H2).
  destruct (c =? c_slash) eqn:Ec.
  - apply N.eqb_eq in Ec. subst c. rewrite split_on_cons_eq. cbn [nonlast_ok].
    destruct (split_on c_slash r) eqn:E; [exfalso; eapply split_on_nonempty; eassumption|].
    rewrite IH. reflexivity.
  - rewrite split_on_cons_ne by assumption.
    destruct (split_on c_slash r) as [|h tl_] eqn:E; [exfalso; eapply split_on_nonempty; eassumption|].
    cbn [hd tl nonlast_ok]. destruct tl_ as [|s2 tl_]; [reflexivity|].
    cbn [nonlast_ok] in IH. apply andb_true_iff in IH as [I1 I2].
    change (match tl_ with [] => true | _ :: _ => negb (ends_with_byte c_dot s2) && nonlast_ok tl_ end)
      with (nonlast_ok (s2 :: tl_)) in *.
    rewrite I2, andb_true_r.
    destruct h as [|y h].
    + apply split_on_head_nil in E; [|discriminate]. rewrite E, andb_true_r in H1.
      unfold ends_with_byte. cbn [last]. rewrite H1. reflexivity.
    + rewrite ends_with_byte_cons by discriminate. exact I1.
Qed.

Lemma nonlast_ok_app pre last_ :
  nonlast_ok (pre ++ [last_]) = true -> Forall (fun x => ends_with_byte c_dot x = false) pre.
Proof.
  induction pre as [|x pre IH]; [constructor|].
  cbn [app nonlast_ok]. destruct (pre ++ [last_]) eqn:E; [destruct pre; discriminate|].
  intros H. apply andb_true_iff in H as [H1 H2]. constructor; [|apply IH; exact H2].
  destruct (ends_with_byte c_dot x); [discriminate|reflexivity].
Qed.

Lemma not_dot_end_name s : ends_with_byte c_dot s = false -> s = [] \/ proper_name s = true.
Proof.
  destruct s as [|a s]; [left; reflexivity|right].
  unfold proper_name, is_dot, is_dotdot. cbn [is_empty orb].
  destruct (beq (a :: s) [c_dot]) eqn:E1.
  { apply beq_eq in E1. rewrite E1 in H. discriminate. }
  destruct (beq (a :: s) [c_dot; c_dot]) eqn:E2.
  { apply beq_eq in E2. rewrite E2 in H. discriminate. }
  reflexivity.
Qed.

(** The shape of a path that passes the test. *)
Definition plain_seg (s : bytes) : Prop := s = [] \/ proper_name s = true.

Lemma safe_shape d :
  unsafe_b d = false ->
  exists t pre last_,
    d = c_slash :: t /\ hd_is c_slash t = false /\ segments t = pre ++ [last_] /\ Forall plain_seg pre.
Proof.
  intros H. destruct d as [|a t]; [discriminate|].
  rewrite unsafe_b_cons in H. apply orb_false_iff in H as [H1 H2].
  apply orb_false_iff in H2 as [H2 H3]. apply negb_false_iff, N.eqb_eq in H2. subst a.
  rewrite has_dot_slash_b_cons in H1. apply orb_false_iff in H1 as [_ H1].
  destruct (exists_last (split_on_nonempty c_slash t)) as (pre & last_ & E).
  exists t, pre, last_. repeat split; try assumption.
  apply segments_nonlast_ok in H1. unfold segments in H1. rewrite E in H1.
  apply nonlast_ok_app in H1. eapply Forall_impl; [|exact H1].
  intros s Hs. apply not_dot_end_name. exact Hs.
Qed.

(** ------------------------------------------------------------------ *)
(** * Lexical walk *)

Definition names_of (l : list bytes) : list bytes := filter (fun s => negb (is_empty s)) l.

Lemma walk_app a b st :
  walk st (a ++ b) = match walk st a with Some st' => walk st' b | None => None end.
Proof.
  revert st; induction a as [|s a IH]; intros st; cbn [app walk]; [reflexivity|].
  destruct (is_empty s || is_dot s); [apply IH|].
  destruct (is_dotdot s); [destruct st; [reflexivity|apply IH]|apply IH].
Qed.

Lemma proper_name_flags s :
  proper_name s = true -> is_empty s = false /\ is_dot s = false /\ is_dotdot s = false.
Proof.
  unfold proper_name. intros H. apply negb_true_iff in H.
  apply orb_false_iff in H as [H H3]. apply orb_false_iff in H as [H1 H2]. auto.
Qed.

Lemma walk_plain pre st : Forall plain_seg pre -> walk st pre = Some (rev (names_of pre) ++ st).
Proof.
  intros H. revert st. induction H as [|s pre Hs Hp IH]; intros st; [reflexivity|].
  cbn [walk names_of filter]. destruct Hs as [->|Hs].
  - cbn [is_empty orb negb]. apply IH.
  - destruct (proper_name_flags s Hs) as (E1 & E2 & E3). rewrite E1, E2, E3. cbn [orb negb].
    rewrite IH. cbn [rev]. rewrite <- app_assoc. reflexivity.
Qed.

Lemma names_of_plain pre : Forall plain_seg pre -> Forall (fun s => proper_name s = true) (names_of pre).
Proof.
  induction 1 as [|s pre Hs Hp IH]; [constructor|].
  cbn [names_of filter]. destruct Hs as [->|Hs]; [exact IH|].
  destruct (proper_name_flags s Hs) as (E1 & _). rewrite E1. cbn [negb]. constructor; assumption.
Qed.

(** ------------------------------------------------------------------ *)
(** * Theorem 1, lexical form *)

Lemma walk_last st last_ :
  walk st [last_] =
  (if is_empty last_ || is_dot last_ then Some st
   else if is_dotdot last_ then match st with [] => None | _ :: st' => Some st' end
   else Some (last_ :: st)).
Proof.
  cbn [walk]. destruct (is_empty last_ || is_dot last_); [reflexivity|].
  destruct (is_dotdot last_); [destruct st; reflexivity|reflexivity].
Qed.

Lemma accepted_path_confined_lemma p :
  sanitize_path p = Ok tt ->
  exists t pre last_,
    percent_decode p = c_slash :: t /\ segments t = pre ++ [last_] /\
    Forall plain_seg pre /\
    (forall a b, pre = a ++ b -> walk [] a = Some (rev (names_of a))) /\
    walk [] (segments t) =
      (if is_empty last_ || is_dot last_ then Some (rev (names_of pre))
       else if is_dotdot last_ then match rev (names_of pre) with [] => None | _ :: st => Some st end
       else Some (last_ :: rev (names_of pre))).
Proof.
  rewrite sanitize_path_spec. destruct (unsafe_b (percent_decode p)) eqn:U; [discriminate|]. intros _.
  destruct (safe_shape _ U) as (t & pre & last_ & E & _ & Es & Hp).
  exists t, pre, last_. repeat split; try assumption.
  - intros a b Eab. subst pre. apply Forall_app in Hp as [Ha _].
    rewrite walk_plain by assumption. rewrite app_nil_r. reflexivity.
  - rewrite Es, walk_app, walk_plain by assumption. rewrite app_nil_r. apply walk_last.
Qed.

(** ------------------------------------------------------------------ *)
(** * Theorem 1, over a file tree *)

Definition wf_pos (p : pos) : Prop := Forall (fun u => is_dir u = true) (snd p).

Lemma step_wf p s q : wf_pos p -> step p s = Some q -> wf_pos q.
Proof.
  destruct p as [n ups]. unfold step, wf_pos. cbn [snd]. intros W.
  destruct (is_dir n) eqn:D; cbn [negb]; [|discriminate].
  destruct (is_empty s || is_dot s). { intros H; inversion H; subst; exact W. }
  destruct (is_dotdot s).
  { destruct ups as [|u ups']; intros H; inversion H; subst; cbn [snd]; [exact W|].
    inversion W; assumption. }
  destruct (child n s); [|discriminate]. intros H; inversion H; subst. cbn [snd].
  constructor; assumption.
Qed.

Lemma resolve_wf segs : forall p q, wf_pos p -> resolve p segs = Some q -> wf_pos q.
Proof.
  induction segs as [|s r IH]; intros p q W; cbn [resolve].
  - intros H; inversion H; subst; exact W.
  - destruct (step p s) as [p'|] eqn:E; [|discriminate]. apply IH. eapply step_wf; eassumption.
Qed.

Lemma resolve_app a b : forall p,
  resolve p (a ++ b) = match resolve p a with Some q => resolve q b | None => None end.
Proof.
  induction a as [|s a IH]; intros p; cbn [app resolve]; [reflexivity|].
  destruct (step p s); [apply IH|reflexivity].
Qed.

Lemma descend_app a b : forall n,
  descend n (a ++ b) = match descend n a with Some m => descend m b | None => None end.
Proof.
  induction a as [|s a IH]; intros n; cbn [app descend]; [reflexivity|].
  destruct (child n s); [apply IH|reflexivity].
Qed.

Lemma resolve_plain pre : Forall plain_seg pre ->
  forall n ups q, resolve (n, ups) pre = Some q -> descend n (names_of pre) = Some (fst q).
Proof.
  induction 1 as [|s pre Hs Hp IH]; intros n ups q; cbn [resolve names_of filter].
  - intros H; inversion H; subst. reflexivity.
  - unfold step. destruct (is_dir n); cbn [negb]; [|discriminate].
    destruct Hs as [->|Hs].
    + cbn [is_empty orb negb]. apply IH.
    + destruct (proper_name_flags s Hs) as (E1 & E2 & E3). rewrite E1, E2, E3. cbn [orb negb descend].
      destruct (child n s) as [c|]; [|discriminate]. apply IH.
Qed.

Lemma is_dir_no_content n ups : is_dir n = true -> content_at (Some (n, ups)) = None.
Proof. destruct n; [discriminate|reflexivity]. Qed.

Lemma step_last_content n ups last_ c :
  wf_pos (n, ups) -> content_at (step (n, ups) last_) = Some c ->
  proper_name last_ = true /\ child n last_ = Some (File c).
Proof.
  unfold step, wf_pos. cbn [snd]. intros W.
  destruct (is_dir n) eqn:D; cbn [negb]; [|discriminate].
  unfold proper_name.
  destruct (is_empty last_ || is_dot last_) eqn:E1.
  { rewrite is_dir_no_content by assumption. discriminate. }
  destruct (is_dotdot last_) eqn:E2.
  { destruct ups as [|u ups'].
    - rewrite is_dir_no_content by assumption. discriminate.
    - inversion W; subst. rewrite is_dir_no_content by assumption. discriminate. }
  cbn [orb negb].
  destruct (child n last_) as [m|]; [|discriminate]. cbn [content_at].
  destruct m; [|discriminate]. intros H; inversion H; subst. split; reflexivity.
Qed.

(** A path that passes the test, resolved from ANY position [P] whose ancestors are
    directories: if a file content comes back, that file is reached from [P] by descending
    through child names only — whatever lies above or beside [P] is irrelevant. *)
Lemma safe_read_inside d :
  unsafe_b d = false ->
  forall P c, wf_pos P ->
    content_at (resolve P (segments (tl d))) = Some c ->
    exists names, names <> [] /\ Forall (fun s => proper_name s = true) names /\
                  descend (fst P) names = Some (File c).
Proof.
  intros U P c W H.
  destruct (safe_shape _ U) as (t & pre & last_ & E & _ & Es & Hp). subst d. cbn [tl] in H.
  rewrite Es, resolve_app in H.
  destruct P as [n ups].
  destruct (resolve (n, ups) pre) as [[m ups']|] eqn:R; [|discriminate].
  pose proof (resolve_plain pre Hp _ _ _ R) as D. cbn [fst] in D.
  pose proof (resolve_wf _ _ _ W R) as W'.
  cbn [resolve] in H.
  assert (H' : content_at (step (m, ups') last_) = Some c).
  { destruct (step (m, ups') last_); exact H. }
  destruct (step_last_content _ _ _ _ W' H') as [Hl Hc].
  exists (names_of pre ++ [last_]). repeat split.
  - destruct (names_of pre); discriminate.
  - apply Forall_app. split; [apply names_of_plain; assumption|constructor; [assumption|constructor]].
  - cbn [fst]. rewrite descend_app, D. cbn [descend]. rewrite Hc. reflexivity.
Qed.

Lemma starts_with_1_app c a b : a <> [] -> starts_with [c] (a ++ b) = starts_with [c] a.
Proof. destruct a; [congruence|reflexivity]. Qed.

Lemma resolve_path_make_path root cwd host public t :
  resolve_path root cwd (make_path host public t None) =
  match resolve_path root cwd (host ++ [c_slash] ++ public) with
  | Some P => resolve P (segments t)
  | None => None
  end.
Proof.
  unfold resolve_path, make_path.
  replace (host ++ [c_slash] ++ public ++ [c_slash] ++ t)
    with ((host ++ [c_slash] ++ public) ++ [c_slash] ++ t) by (rewrite <- !app_assoc; reflexivity).
  rewrite segments_join, resolve_app, starts_with_1_app; [reflexivity|].
  destruct host; discriminate.
Qed.

Lemma request_fs_path_some host public p f :
  request_fs_path host public p = Ok (Some f) ->
  exists d t, decoded_for_use p = Some d /\ d = c_slash :: t /\ f = make_path host public t None.
Proof.
  unfold request_fs_path. destruct (decoded_for_use p) as [d|]; [|discriminate].
  unfold parse_uri. destruct d as [|a t]; [discriminate|].
  destruct (a =? c_slash) eqn:E; [|discriminate]. apply N.eqb_eq in E. subst a.
  intros H; inversion H; subst. eexists _, _. repeat split.
Qed.

Lemma decoded_for_use_some p d : decoded_for_use p = Some d -> d = percent_decode p /\ utf8_valid d = true.
Proof.
  unfold decoded_for_use. destruct (utf8_valid (percent_decode p)) eqn:E; [|discriminate].
  intros H; inversion H; subst. split; [reflexivity|exact E].
Qed.

Lemma served_content_safe p host public f root cwd P c :
  unsafe_b (percent_decode p) = false ->
  request_fs_path host public p = Ok (Some f) ->
  wf_pos root -> wf_pos cwd ->
  resolve_path root cwd (host ++ [c_slash] ++ public) = Some P ->
  read_path root cwd f = Some c ->
  exists names, names <> [] /\ Forall (fun s => proper_name s = true) names /\
                descend (fst P) names = Some (File c).
Proof.
  intros U F Wr Wc RP RD.
  destruct (request_fs_path_some _ _ _ _ F) as (d & t & Du & -> & ->).
  apply decoded_for_use_some in Du as [Ed _].
  unfold read_path in RD. rewrite resolve_path_make_path, RP in RD.
  apply (safe_read_inside (c_slash :: t)); [rewrite Ed; exact U| |exact RD].
  unfold resolve_path in RP. destruct (starts_with [c_slash] (host ++ [c_slash] ++ public));
    (eapply resolve_wf; [|exact RP]; assumption).
Qed.

Lemma served_content_lemma p host public f root cwd P c :
  sanitize_path p = Ok tt ->
  request_fs_path host public p = Ok (Some f) ->
  wf_pos root -> wf_pos cwd ->
  resolve_path root cwd (host ++ [c_slash] ++ public) = Some P ->
  read_path root cwd f = Some c ->
  exists names, names <> [] /\ Forall (fun s => proper_name s = true) names /\
                descend (fst P) names = Some (File c).
Proof.
  intros S. rewrite sanitize_path_spec in S. destruct (unsafe_b (percent_decode p)) eqn:U; [discriminate|].
  apply served_content_safe. exact U.
Qed.

Lemma request_fs_path_no_panic host public p :
  sanitize_path p = Ok tt -> request_fs_path host public p <> Panic.
Proof.
  rewrite sanitize_path_spec. destruct (unsafe_b (percent_decode p)) eqn:U; [discriminate|]. intros _.
  unfold request_fs_path. destruct (decoded_for_use p) as [d|] eqn:E; [|discriminate].
  apply decoded_for_use_some in E as [-> _].
  destruct (safe_shape _ U) as (t & _ & _ & -> & _). cbn [parse_uri]. rewrite N.eqb_refl. discriminate.
Qed.

(** ------------------------------------------------------------------ *)
(** * Theorem 2: exactly the unsafe paths are rejected *)

Lemma unsafe_is_rejected_lemma p : unsafe (percent_decode p) <-> sanitize_path p = Err E_UNSAFE.
Proof.
  rewrite sanitize_path_spec, <- unsafe_b_iff.
  destruct (unsafe_b (percent_decode p)); split; try reflexivity; discriminate.
Qed.

Lemma sanitize_path_total p : sanitize_path p = Ok tt \/ sanitize_path p = Err E_UNSAFE.
Proof. rewrite sanitize_path_spec. destruct (unsafe_b _); auto. Qed.

(** ------------------------------------------------------------------ *)
(** * Percent-decoding, one step *)

Inductive pd_step (s : bytes) : Prop :=
| PD_nil : s = [] -> pd_step s
| PD_lit c r : s = c :: r -> percent_decode s = c :: percent_decode r ->
               (c = c_pct -> forall h l r', r = h :: l :: r' -> hex_val h = None \/ hex_val l = None) -> pd_step s
| PD_esc h l r' a b : s = c_pct :: h :: l :: r' -> hex_val h = Some a -> hex_val l = Some b ->
                      percent_decode s = (a * 16 + b) :: percent_decode r' -> pd_step s.

Lemma pd_step_all s : pd_step s.
Proof.
  destruct s as [|c r]; [apply PD_nil; reflexivity|].
  cbn [percent_decode]. destruct (c =? c_pct) eqn:Ec.
  - apply N.eqb_eq in Ec. subst c.
    destruct r as [|h [|l r']].
    + eapply PD_lit; [reflexivity|cbn [percent_decode]; rewrite N.eqb_refl; reflexivity|].
      intros _ h l r' E. discriminate.
    + eapply PD_lit; [reflexivity|cbn [percent_decode]; rewrite N.eqb_refl; reflexivity|].
      intros _ h' l r' E. discriminate.
    + destruct (hex_val h) as [a|] eqn:Eh.
      * destruct (hex_val l) as [b|] eqn:El.
        -- eapply PD_esc; [reflexivity|eassumption|eassumption|].
           cbn [percent_decode]. rewrite N.eqb_refl, Eh, El. reflexivity.
        -- eapply PD_lit; [reflexivity|cbn [percent_decode]; rewrite N.eqb_refl, Eh, El; reflexivity|].
           intros _ h' l' r'' E. inversion E; subst. right. assumption.
      * eapply PD_lit; [reflexivity|cbn [percent_decode]; rewrite N.eqb_refl, Eh; reflexivity|].
        intros _ h' l' r'' E. inversion E; subst. left. assumption.
  - eapply PD_lit; [reflexivity|cbn [percent_decode]; rewrite Ec; reflexivity|].
    intros E. subst c. rewrite N.eqb_refl in Ec. discriminate.
Qed.

Lemma hex_val_some c a : hex_val c = Some a -> c <> c_dot /\ c <> c_slash /\ c <> c_pct.
Proof.
  unfold hex_val, c_dot, c_slash, c_pct.
  destruct ((48 <=? c) && (c <=? 57)) eqn:E1; [lia|].
  destruct ((65 <=? c) && (c <=? 70)) eqn:E2; [lia|].
  destruct ((97 <=? c) && (c <=? 102)) eqn:E3; [lia|discriminate].
Qed.

Lemma pd_hd c s : c <> c_pct -> hd_is c s = true -> hd_is c (percent_decode s) = true.
Proof.
  intros Hc. destruct s as [|x r]; [discriminate|]. cbn [hd_is]. intros H. apply N.eqb_eq in H. subst x.
  cbn [percent_decode]. replace (c =? c_pct) with false by (symmetry; apply N.eqb_neq; exact Hc).
  cbn [hd_is]. apply N.eqb_refl.
Qed.

(** a "./" in the raw path is still there after decoding *)
Lemma pd_keeps_dot_slash s : has_dot_slash_b s = true -> has_dot_slash_b (percent_decode s) = true.
Proof.
  remember (length s) as n eqn:Hn. revert s Hn.
  induction n as [n IH] using lt_wf_ind. intros s Hn.
  destruct (pd_step_all s) as [E|c r E L _|h l r' a b E Hh Hl L].
  - subst. discriminate.
  - subst s. rewrite L, !has_dot_slash_b_cons. intros H. apply orb_true_iff in H as [H|H].
    + apply andb_true_iff in H as [H1 H2]. rewrite H1. rewrite pd_hd; [reflexivity| |exact H2].
      unfold c_slash, c_pct. lia.
    + rewrite (IH (length r)); [apply orb_true_r|subst n; cbn [length]; lia|reflexivity|exact H].
  - subst s. rewrite L. rewrite !has_dot_slash_b_cons.
    destruct (hex_val_some _ _ Hh) as (Hh1 & _). destruct (hex_val_some _ _ Hl) as (Hl1 & _).
    replace (c_pct =? c_dot) with false by reflexivity.
    replace (h =? c_dot) with false by (symmetry; apply N.eqb_neq; exact Hh1).
    replace (l =? c_dot) with false by (symmetry; apply N.eqb_neq; exact Hl1).
    cbn [andb orb]. intros H.
    rewrite (IH (length r')); [apply orb_true_r|subst n; cbn [length]; lia|reflexivity|exact H].
Qed.

(** ------------------------------------------------------------------ *)
(** * Theorem 3: the internal [/./…] routes cannot be named by a client *)

Lemma internal_routes_lemma p :
  sanitize_path p = Ok tt ->
  ~ has_dot_slash p /\ ~ has_dot_slash (percent_decode p) /\
  (forall key, has_dot_slash key -> p <> key /\ percent_decode p <> key).
Proof.
  rewrite sanitize_path_spec. destruct (unsafe_b (percent_decode p)) eqn:U; [discriminate|]. intros _.
  unfold unsafe_b in U. apply orb_false_iff in U as [U _].
  assert (A : ~ has_dot_slash (percent_decode p)).
  { rewrite <- has_dot_slash_iff. rewrite U. discriminate. }
  assert (B : ~ has_dot_slash p).
  { rewrite <- has_dot_slash_iff. intros H. apply pd_keeps_dot_slash in H. congruence. }
  split; [exact B|]. split; [exact A|].
  intros key Hk; split; intros E; [apply B|apply A]; rewrite E; exact Hk.
Qed.

Lemma starts_with_has_dot_slash k : starts_with [c_slash; c_dot; c_slash] k = true -> has_dot_slash k.
Proof.
  intros H. apply starts_with_app in H as [r ->]. exists [c_slash], r. reflexivity.
Qed.

(** ------------------------------------------------------------------ *)
(** * Theorem 4: one decoding *)

Lemma one_decoding_lemma p d :
  decoded_for_use p = Some d ->
  decoded_for_check p = d /\ util_percent_decode p = d /\ d = percent_decode p.
Proof.
  intros H. apply decoded_for_use_some in H as [-> V].
  unfold decoded_for_check, util_percent_decode. rewrite V, lossy_valid by assumption. auto.
Qed.

Lemma no_decoding_no_path host public p :
  decoded_for_use p = None -> request_fs_path host public p = Ok None.
Proof. unfold request_fs_path. intros ->. reflexivity. Qed.

(** decoding once: the result is not decoded again (an encoded '%' stays one '%') *)
Lemma double_encoding_not_followed :
  decoded_for_use (B "/%252e%252e/x") = Some (B "/%2e%2e/x").
Proof. vm_compute. reflexivity. Qed.

(** ------------------------------------------------------------------ *)
(** * The "Expand . and /" Prime extension keeps an accepted path safe *)

Definition ends_dot_or_slash (p : bytes) : Prop :=
  ends_with_byte c_dot p = true \/ ends_with_byte c_slash p = true.

Lemma ends_tail c r : r <> [] -> ends_dot_or_slash (c :: r) -> ends_dot_or_slash r.
Proof. intros Hr. unfold ends_dot_or_slash. rewrite !ends_with_byte_cons by assumption. auto. Qed.

Lemma ends_single c : ends_dot_or_slash [c] -> c = c_dot \/ c = c_slash.
Proof. unfold ends_dot_or_slash, ends_with_byte. cbn [last]. intros [H|H]; apply N.eqb_eq in H; auto. Qed.

Lemma pd_cons_lit c s : c <> c_pct -> percent_decode (c :: s) = c :: percent_decode s.
Proof.
  intros H. cbn [percent_decode]. replace (c =? c_pct) with false; [reflexivity|].
  symmetry. apply N.eqb_neq. exact H.
Qed.

Lemma hex_val_dot_slash c : c = c_dot \/ c = c_slash -> hex_val c = None /\ c <> c_pct.
Proof. intros [->| ->]; split; try reflexivity; discriminate. Qed.

Lemma pd_app_end a : forall p, ends_dot_or_slash p ->
  percent_decode (p ++ a) = percent_decode p ++ percent_decode a.
Proof.
  intros p. remember (length p) as n eqn:Hn. revert p Hn.
  induction n as [n IH] using lt_wf_ind. intros p Hn E.
  destruct p as [|c r]. { destruct E as [E|E]; discriminate. }
  destruct r as [|h r1].
  { apply ends_single in E. apply hex_val_dot_slash in E as [_ E].
    cbn [app]. rewrite !pd_cons_lit by assumption. reflexivity. }
  assert (Er : ends_dot_or_slash (h :: r1)) by (eapply ends_tail; [discriminate|eassumption]).
  assert (IHr : percent_decode ((h :: r1) ++ a) = percent_decode (h :: r1) ++ percent_decode a).
  { apply (IH (length (h :: r1))); [subst n; cbn [length]; lia|reflexivity|exact Er]. }
  destruct (N.eq_dec c c_pct) as [->|Hc].
  2:{ change ((c :: h :: r1) ++ a) with (c :: ((h :: r1) ++ a)).
      rewrite !pd_cons_lit by assumption. rewrite IHr. reflexivity. }
  destruct r1 as [|l r2].
  { (* "%h" with h = '.' or '/' *)
    apply ends_single in Er. apply hex_val_dot_slash in Er as [Hh _].
    assert (L : forall s, percent_decode (c_pct :: h :: s) = c_pct :: percent_decode (h :: s)).
    { intros s. cbn [percent_decode]. rewrite N.eqb_refl. destruct s; [reflexivity|]. rewrite Hh. reflexivity. }
    change ((c_pct :: [h]) ++ a) with (c_pct :: h :: a). rewrite !L.
    change (h :: a) with ([h] ++ a). rewrite IHr. reflexivity. }
  destruct (hex_val h) as [x|] eqn:Hh; [destruct (hex_val l) as [y|] eqn:Hl|].
  - (* a real escape: the rest is non-empty and ends the same way *)
    assert (L : forall s, percent_decode (c_pct :: h :: l :: s) = (x * 16 + y) :: percent_decode s).
    { intros s. cbn [percent_decode]. rewrite N.eqb_refl, Hh, Hl. reflexivity. }
    change ((c_pct :: h :: l :: r2) ++ a) with (c_pct :: h :: l :: (r2 ++ a)). rewrite !L.
    destruct r2 as [|z r3].
    { exfalso. assert (El : ends_dot_or_slash [l]) by (eapply ends_tail; [discriminate|eassumption]).
      apply ends_single in El. apply hex_val_dot_slash in El as [El _]. congruence. }
    rewrite (IH (length (z :: r3))); [reflexivity|subst n; cbn [length]; lia|reflexivity|].
    eapply ends_tail; [discriminate|]. eapply ends_tail; [discriminate|eassumption].
  - assert (L : forall s, percent_decode (c_pct :: h :: l :: s) = c_pct :: percent_decode (h :: l :: s)).
    { intros s. cbn [percent_decode]. rewrite N.eqb_refl, Hh, Hl. reflexivity. }
    change ((c_pct :: h :: l :: r2) ++ a) with (c_pct :: h :: l :: (r2 ++ a)). rewrite !L.
    change (h :: l :: r2 ++ a) with ((h :: l :: r2) ++ a). rewrite IHr. reflexivity.
  - assert (L : forall s, percent_decode (c_pct :: h :: l :: s) = c_pct :: percent_decode (h :: l :: s)).
    { intros s. cbn [percent_decode]. rewrite N.eqb_refl, Hh. reflexivity. }
    change ((c_pct :: h :: l :: r2) ++ a) with (c_pct :: h :: l :: (r2 ++ a)). rewrite !L.
    change (h :: l :: r2 ++ a) with ((h :: l :: r2) ++ a). rewrite IHr. reflexivity.
Qed.

Lemma hd_is_app c u x : u <> [] -> hd_is c (u ++ x) = hd_is c u.
Proof. destruct u; [congruence|reflexivity]. Qed.

Lemma has_dot_slash_b_app u x :
  has_dot_slash_b (u ++ x) =
  has_dot_slash_b u || (ends_with_byte c_dot u && hd_is c_slash x) || has_dot_slash_b x.
Proof.
  induction u as [|c u IH]; [reflexivity|].
  cbn [app]. rewrite !has_dot_slash_b_cons, IH.
  destruct u as [|c' u'].
  - cbn [app hd_is has_dot_slash_b ends_with_byte last]. rewrite andb_false_r. reflexivity.
  - rewrite hd_is_app by discriminate. rewrite (ends_with_byte_cons c_dot c (c' :: u')) by discriminate.
    destruct ((c =? c_dot) && hd_is c_slash (c' :: u')); cbn [orb]; [reflexivity|].
    reflexivity.
Qed.

Definition benign_suffix (a : bytes) : Prop :=
  has_dot_slash_b (percent_decode a) = false /\ hd_is c_slash (percent_decode a) = false.
Lemma append_safe p a :
  unsafe_b (percent_decode p) = false -> ends_dot_or_slash p -> benign_suffix a ->
  unsafe_b (percent_decode (p ++ a)) = false.
Proof.
  intros U E [B1 B2]. rewrite pd_app_end by assumption.
  destruct (percent_decode p) as [|c t] eqn:Ep; [discriminate|].
  rewrite unsafe_b_cons in U. apply orb_false_iff in U as [U1 U2]. apply orb_false_iff in U2 as [U2 U3].
  change ((c :: t) ++ percent_decode a) with (c :: (t ++ percent_decode a)).
  rewrite unsafe_b_cons. change (c :: t ++ percent_decode a) with ((c :: t) ++ percent_decode a).
  rewrite has_dot_slash_b_app, U1, B1, B2, U2, andb_false_r. cbn [orb].
  destruct t as [|c' t']; [exact B2|]. rewrite hd_is_app by discriminate. exact U3.
Qed.

Lemma ends_with_byte_true c p : ends_with_byte c p = true -> p <> [].
Proof. destruct p; [discriminate|discriminate]. Qed.

Lemma benign_defaults : benign_suffix (B "html") /\ benign_suffix (B "index.html").
Proof. split; split; vm_compute; reflexivity. Qed.

(** ------------------------------------------------------------------ *)
(** * What was wrong before the repair (kept as a witness)
    [sanitize_request] tested [kvarn_utils::percent_decode(path)], which is the UNDECODED text when
    the decoding is not UTF-8: an encoded "./" (or a second '/') next to a non-UTF-8 escape passed. *)
Lemma old_check_accepts_hidden_dot_slash :
  path_ok_of (util_percent_decode (B "/%2e%2e/%ff")) = true /\ unsafe (percent_decode (B "/%2e%2e/%ff")) /\
  path_ok_of (util_percent_decode (B "/%2f%ff")) = true /\ unsafe (percent_decode (B "/%2f%ff")).
Proof.
  repeat split; try (vm_compute; reflexivity); apply unsafe_b_iff; vm_compute; reflexivity.
Qed.
