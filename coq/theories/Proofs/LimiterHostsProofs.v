(** C12 — proofs about Model/LimiterHosts.v (several hosts, unknown hosts). *)
From KV Require Import Bytes RustInt Limiter LimiterProofs LimiterHosts.
From Coq Require Import ZifyBool ZifyNat ZifyN.
Open Scope N_scope.
Arguments N.add : simpl never. Arguments N.sub : simpl never. Arguments N.mul : simpl never.
Arguments N.eqb : simpl never. Arguments N.ltb : simpl never. Arguments N.leb : simpl never.
Arguments N.div : simpl never. Arguments N.modulo : simpl never. Arguments N.max : simpl never.
Arguments N.of_nat : simpl never. Arguments N.to_nat : simpl never.

Lemma Forall2_set_nth {A B} (R : A -> B -> Prop) x y : forall k l l',
  Forall2 R l l' -> R x y -> Forall2 R (set_nth k x l) (set_nth k y l').
Proof.
  induction k as [|k IH]; intros l l' H Hxy; destruct H; cbn [set_nth]; try constructor; auto.
Qed.

Lemma Forall2_nth {A B} (R : A -> B -> Prop) : forall k l l',
  Forall2 R l l' ->
  match nth_error l k, nth_error l' k with
  | Some x, Some y => R x y
  | None, None => True
  | _, _ => False
  end.
Proof.
  induction k as [|k IH]; intros l l' H; destruct H; cbn [nth_error]; try exact I; try assumption.
  apply IH. assumption.
Qed.

Lemma Forall2_mono {A B} (R S : A -> B -> Prop) l l' : (forall x y, R x y -> S x y) -> Forall2 R l l' -> Forall2 S l l'.
Proof. intros HRS H. induction H; constructor; auto. Qed.

Definition msim (n : N) (p : mlims) (q : qlims) : Prop :=
  sim2p n (fst p) (fst q) /\ Forall2 (sim2 n) (snd p) (snd q).

Lemma msim_mono n m p q : msim n p q -> n <= m -> msim m p q.
Proof.
  intros [H1 H2] Hle. split; [eapply sim2p_mono; eassumption|].
  eapply Forall2_mono; [|exact H2]. intros x y H. eapply sim2_mono; eassumption.
Qed.

Lemma msim_start n t0 mc : msim n (mstart t0 mc) (qmstart t0 mc).
Proof.
  split; [apply sim2p_start|]. unfold mstart, qmstart. cbn [snd].
  induction (m_extra mc); cbn [map]; constructor; [apply sim2_init|assumption].
Qed.

(** One request: the same manager is asked on both sides, with the same answer. *)
Lemma ask_sim checked mc n p q a t tg :
  msim n p q -> n + 1 <= third ->
  match ask checked mc p a t tg, qask mc q a t tg with
  | None, None => True
  | Some (p1, d), Some (q1, d') => d = Ok d' /\ msim (n + 1) p1 q1
  | _, _ => False
  end.
Proof.
  intros [Hb He] Hfit. destruct tg as [[|k]|]; cbn [ask qask]; [| |exact I].
  - destruct (qstep_sim checked (host_cfg (m_base mc)) n (snd (fst p)) (snd (fst q)) a t (proj2 Hb) Hfit) as [Hd Hs].
    destruct (register checked (host_cfg (m_base mc)) (snd (fst p)) a t) as [st1 d].
    destruct (qstep (host_cfg (m_base mc)) (snd (fst q)) a t) as [q1 d']. cbn [fst snd] in *.
    split; [exact Hd|]. split; cbn [fst snd].
    + apply after_host_sim; [exact Hs|]. eapply sim2p_mono; [exact Hb|lia].
    + eapply Forall2_mono; [|exact He]. intros x y H. eapply sim2_mono; [exact H|lia].
  - destruct (nth_error (m_extra mc) k) as [c|]; [|exact I].
    pose proof (Forall2_nth (sim2 n) k _ _ He) as Hk.
    destruct (nth_error (snd p) k) as [st|], (nth_error (snd q) k) as [qs|]; try contradiction; [|exact I].
    destruct (qstep_sim checked c n st qs a t Hk Hfit) as [Hd Hs].
    destruct (register checked c st a t) as [st1 d]. destruct (qstep c qs a t) as [q1 d']. cbn [fst snd] in *.
    split; [exact Hd|]. split; cbn [fst snd].
    + eapply sim2p_mono; [exact Hb|lia].
    + apply Forall2_set_nth; [|exact Hs].
      eapply Forall2_mono; [|exact He]. intros x y H. eapply sim2_mono; [exact H|lia].
Qed.

Lemma serve_m_sim checked mc a : forall reqs n p q,
  msim n p q -> n + N.of_nat (length reqs) <= third ->
  snd (fst (serve_m checked mc p a reqs)) = snd (fst (spec_serve_m mc q a reqs)) /\
  snd (serve_m checked mc p a reqs) = snd (spec_serve_m mc q a reqs) /\
  msim (n + N.of_nat (length reqs)) (fst (fst (serve_m checked mc p a reqs))) (fst (fst (spec_serve_m mc q a reqs))).
Proof.
  induction reqs as [|[t tg] r IH]; intros n p q Hsim Hfit; cbn [serve_m spec_serve_m].
  - cbn [fst snd length]. refine (conj eq_refl (conj eq_refl _)). eapply msim_mono; [exact Hsim|lia].
  - cbn [length] in Hfit.
    pose proof (ask_sim checked mc n p q a t tg Hsim ltac:(lia)) as Hask.
    destruct (ask checked mc p a t tg) as [[p1 d]|], (qask mc q a t tg) as [[q1 d']|]; try contradiction.
    + destruct Hask as [-> Hs1].
      destruct (IH (n + 1) p1 q1 Hs1) as (H1 & H2 & H3); [lia|].
      destruct d'.
      * destruct (serve_m checked mc p1 a r) as [[p2 l] c]. destruct (spec_serve_m mc q1 a r) as [[q2 l'] c'].
        cbn [fst snd length] in *. refine (conj _ (conj _ _)); try congruence. eapply msim_mono; [exact H3|lia].
      * destruct (serve_m checked mc p1 a r) as [[p2 l] c]. destruct (spec_serve_m mc q1 a r) as [[q2 l'] c'].
        cbn [fst snd length] in *. refine (conj _ (conj _ _)); try congruence. eapply msim_mono; [exact H3|lia].
      * cbn [fst snd length]. refine (conj eq_refl (conj eq_refl _)). eapply msim_mono; [exact Hs1|lia].
    + cbn [fst snd length]. refine (conj eq_refl (conj eq_refl _)). eapply msim_mono; [exact Hsim|lia].
Qed.

Lemma maccept_run_dead checked mc evs : forall s,
  m_status s <> Running -> maccept_run checked mc s evs = (s, mrefused_all evs).
Proof.
  induction evs as [|e r IH]; intros s Hs; [reflexivity|].
  cbn [maccept_run]. unfold maccept_step.
  destruct (m_status s) eqn:E; try contradiction;
    (rewrite (IH s ltac:(rewrite E; discriminate));
     destruct e; unfold mrefused_all; cbn [filter is_mconn map]; reflexivity).
Qed.

Lemma maccept_sim checked mc : forall evs s q n,
  m_status s = Running -> msim n (m_lims s) q -> n + N.of_nat (mcalls_bound evs) <= third ->
  snd (maccept_run checked mc s evs) = fst (spec_mevents mc q (m_fails s) evs) /\
  m_status (fst (maccept_run checked mc s evs)) = snd (spec_mevents mc q (m_fails s) evs).
Proof.
  induction evs as [|e r IH]; intros s q n Hal Hsim Hfit.
  - cbn [maccept_run fst snd spec_mevents]. split; [reflexivity|exact Hal].
  - destruct e as [a t reqs| |].
    + cbn [maccept_run mcalls_bound spec_mevents] in *. unfold maccept_step. rewrite Hal.
      destruct Hsim as [Hb He].
      destruct (qstep_sim checked (pre_cfg (m_base mc)) n (fst (fst (m_lims s))) (fst (fst q)) a t (proj1 Hb)) as [Hd Hs]; [lia|].
      destruct (register checked (pre_cfg (m_base mc)) (fst (fst (m_lims s))) a t) as [st1 d].
      destruct (qstep (pre_cfg (m_base mc)) (fst (fst q)) a t) as [q1 d']. cbn [fst snd] in *. subst d.
      assert (Hp1 : msim (n + 1) (after_pre (shared (m_base mc)) st1 (fst (m_lims s)), snd (m_lims s))
                                 (after_pre (shared (m_base mc)) q1 (fst q), snd q)).
      { split; cbn [fst snd].
        - apply after_pre_sim; [exact Hs|]. eapply sim2p_mono; [exact Hb|lia].
        - eapply Forall2_mono; [|exact He]. intros x y H. eapply sim2_mono; [exact H|lia]. }
      assert (Hserve := serve_m_sim checked mc a reqs (n + 1) _ _ Hp1).
      destruct d'.
      * destruct Hserve as (H1 & H2 & H3); [lia|].
        destruct (serve_m checked mc _ a reqs) as [[p2 l] c].
        destruct (spec_serve_m mc _ a reqs) as [[q2 l'] c']. cbn [fst snd] in *. subst l' c'.
        destruct (IH {| m_status := Running; m_fails := 0; m_lims := p2 |} q2 _ eq_refl H3) as [E1 E2]; [lia|].
        cbn [m_fails] in *.
        destruct (maccept_run checked mc _ r) as [s2 os]. destruct (spec_mevents mc q2 0 r) as [os' st'].
        cbn [fst snd] in *. split; congruence.
      * destruct Hserve as (H1 & H2 & H3); [lia|].
        destruct (serve_m checked mc _ a reqs) as [[p2 l] c].
        destruct (spec_serve_m mc _ a reqs) as [[q2 l'] c']. cbn [fst snd] in *. subst l' c'.
        destruct (IH {| m_status := Running; m_fails := 0; m_lims := p2 |} q2 _ eq_refl H3) as [E1 E2]; [lia|].
        cbn [m_fails] in *.
        destruct (maccept_run checked mc _ r) as [s2 os]. destruct (spec_mevents mc q2 0 r) as [os' st'].
        cbn [fst snd] in *. split; congruence.
      * destruct (IH {| m_status := Running; m_fails := 0; m_lims := _ |} _ (n + 1) eq_refl Hp1) as [E1 E2]; [lia|].
        cbn [m_fails] in *.
        destruct (maccept_run checked mc _ r) as [s2 os]. destruct (spec_mevents mc _ 0 r) as [os' st'].
        cbn [fst snd] in *. split; congruence.
    + cbn [maccept_run mcalls_bound spec_mevents] in *. unfold maccept_step. rewrite Hal.
      destruct (fail_threshold <? m_fails s + 1) eqn:Hth.
      * rewrite (maccept_run_dead checked mc r {| m_status := ReturnedErr; m_fails := m_fails s + 1; m_lims := m_lims s |} ltac:(discriminate)).
        cbn [fst snd m_status]. split; reflexivity.
      * destruct (IH {| m_status := Running; m_fails := m_fails s + 1; m_lims := m_lims s |} q n eq_refl Hsim Hfit) as [E1 E2].
        destruct (maccept_run checked mc _ r) as [s2 os]. cbn [fst snd m_fails] in *. split; assumption.
    + cbn [maccept_run mcalls_bound spec_mevents] in *. unfold maccept_step. rewrite Hal.
      rewrite (maccept_run_dead checked mc r {| m_status := ReturnedOk; m_fails := m_fails s; m_lims := m_lims s |} ltac:(discriminate)).
      cbn [fst snd m_status]. split; reflexivity.
Qed.

(** With any number of hosts and requests for hosts that do not exist, for every list of
    connections, accept errors and shutdown requests: what each connection receives is decided by
    one reference counter per manager (pre-host / first host, and one per further host), a request
    for an unknown host is answered 409 and asks no counter, and the loop ends as [spec_mevents] says. *)
Lemma hosts_server_model checked mc t0 evs :
  fits (mcalls_bound evs) -> maccept_loop checked mc t0 evs = spec_mserver mc t0 evs.
Proof.
  intros Hf. apply (proj1 (fits_third _)) in Hf. unfold maccept_loop, spec_mserver.
  destruct (maccept_sim checked mc evs {| m_status := Running; m_fails := 0; m_lims := mstart t0 mc |} (qmstart t0 mc) 0
              eq_refl (msim_start 0 t0 mc)) as [E1 E2]; [lia|].
  destruct (maccept_run checked mc _ evs) as [s os]. cbn [fst snd m_fails] in *.
  rewrite E1, E2. destruct (spec_mevents mc (qmstart t0 mc) 0 evs). reflexivity.
Qed.

(** Requests for an unknown host leave every counter as it is. *)
Lemma unknown_host_not_counted checked mc p a t :
  ask checked mc p a t TUnknown = None /\
  (forall k, (length (m_extra mc) <= k)%nat -> ask checked mc p a t (THost (S k)) = None).
Proof.
  split; [reflexivity|]. intros k Hk. cbn [ask].
  destruct (nth_error (m_extra mc) k) eqn:E; [|reflexivity].
  apply nth_error_None in Hk. congruence.
Qed.

(** A request to one of the further hosts changes neither the pre-host / first-host counters nor
    those of any other further host; a request to the first host changes none of the further hosts'. *)
Lemma hosts_have_own_counters checked mc p a t k p1 d :
  ask checked mc p a t (THost (S k)) = Some (p1, d) ->
  fst p1 = fst p /\ (forall j, j <> k -> nth_error (snd p1) j = nth_error (snd p) j).
Proof.
  cbn [ask]. destruct (nth_error (m_extra mc) k) as [c|]; [|discriminate].
  destruct (nth_error (snd p) k) as [st|] eqn:E; [|discriminate].
  destruct (register checked c st a t) as [st1 d1]. intros H. injection H as <- <-. cbn [fst snd].
  split; [reflexivity|]. intros j Hj. clear E.
  revert j k Hj. induction (snd p) as [|y r IH]; intros j k Hj; destruct k, j; cbn [set_nth nth_error]; try reflexivity; try congruence.
  apply IH. congruence.
Qed.

Lemma first_host_leaves_others checked mc p a t p1 d :
  ask checked mc p a t (THost O) = Some (p1, d) -> snd p1 = snd p.
Proof.
  cbn [ask]. destruct (register checked (host_cfg (m_base mc)) (snd (fst p)) a t) as [st1 d1].
  intros H. injection H as <- <-. reflexivity.
Qed.

(** The one-host server of Model/Limiter.v is the special case of no further hosts and every
    request naming the first host. *)
Lemma serve_m_embeds checked sc a : forall ts p,
  serve_m checked {| m_base := sc; m_extra := [] |} (p, []) a (map (fun t => (t, THost O)) ts)
  = let '(p2, l, c) := serve_requests checked sc p a ts in
    ((p2, []), map (fun r => match r with Normal => MNormal | TooMany => MTooMany end) l, c).
Proof.
  induction ts as [|t r IH]; intros p; cbn [map serve_m serve_requests]; [reflexivity|].
  cbn [ask m_base fst snd].
  destruct (register checked (host_cfg sc) (snd p) a t) as [st1 d].
  destruct d as [[| |]|e|]; try reflexivity.
  - rewrite IH. destruct (serve_requests checked sc (after_host (shared sc) st1 p) a r) as [[p2 l] c]. reflexivity.
  - rewrite IH. destruct (serve_requests checked sc (after_host (shared sc) st1 p) a r) as [[p2 l] c]. reflexivity.
Qed.

Definition m_of (c : connection) : mevent := let '(a, t, reqs) := c in MConn a t (map (fun t => (t, THost O)) reqs).
Definition up (r : conn_result) : mresult :=
  match r with
  | Refused => MRefused
  | Served l c => MServed (map (fun r => match r with Normal => MNormal | TooMany => MTooMany end) l) c
  end.

Lemma refused_embeds r : mrefused_all (map m_of r) = map up (refused_all (map conn_of r)).
Proof.
  unfold mrefused_all, refused_all.
  induction r as [|[[a' t'] reqs'] r' IHr]; cbn [map m_of conn_of filter is_mconn is_conn up]; [reflexivity|].
  f_equal. exact IHr.
Qed.

Lemma maccept_embeds checked sc : forall cs s,
  status s = Running ->
  maccept_run checked {| m_base := sc; m_extra := [] |}
     {| m_status := Running; m_fails := fails s; m_lims := (lims s, []) |} (map m_of cs)
  = let (s2, os) := accept_run true checked sc s (map conn_of cs) in
    ({| m_status := status s2; m_fails := fails s2; m_lims := (lims s2, []) |}, map up os).
Proof.
  induction cs as [|[[a t] reqs] r IH]; intros s Hal; cbn [map m_of conn_of maccept_run accept_run].
  - rewrite Hal. reflexivity.
  - unfold maccept_step, accept_step. cbn [m_status m_lims m_base fst snd]. rewrite Hal.
    destruct (register checked (pre_cfg sc) (fst (lims s)) a t) as [st1 d].
    destruct d as [[| |]|e|].
    + rewrite serve_m_embeds.
      destruct (serve_requests checked sc (after_pre (shared sc) st1 (lims s)) a reqs) as [[p2 l] c].
      pose proof (IH {| status := Running; fails := 0; lims := p2 |} eq_refl) as HI. cbn [fails lims] in HI. rewrite HI.
      destruct (accept_run true checked sc _ (map conn_of r)) as [s2 os]. reflexivity.
    + rewrite serve_m_embeds.
      destruct (serve_requests checked sc (after_pre (shared sc) st1 (lims s)) a reqs) as [[p2 l] c].
      pose proof (IH {| status := Running; fails := 0; lims := p2 |} eq_refl) as HI. cbn [fails lims] in HI. rewrite HI.
      destruct (accept_run true checked sc _ (map conn_of r)) as [s2 os]. reflexivity.
    + pose proof (IH {| status := Running; fails := 0; lims := after_pre (shared sc) st1 (lims s) |} eq_refl) as HI.
      cbn [fails lims] in HI. rewrite HI.
      destruct (accept_run true checked sc _ (map conn_of r)) as [s2 os]. reflexivity.
    + rewrite (maccept_run_dead checked _ (map m_of r) {| m_status := Panicked; m_fails := 0; m_lims := _ |} ltac:(discriminate)).
      rewrite (accept_run_dead true checked sc (map conn_of r) {| status := Panicked; fails := 0; lims := _ |} ltac:(discriminate)).
      cbn [status fails lims map up]. rewrite refused_embeds. reflexivity.
    + rewrite (maccept_run_dead checked _ (map m_of r) {| m_status := Panicked; m_fails := 0; m_lims := _ |} ltac:(discriminate)).
      rewrite (accept_run_dead true checked sc (map conn_of r) {| status := Panicked; fails := 0; lims := _ |} ltac:(discriminate)).
      cbn [status fails lims map up]. rewrite refused_embeds. reflexivity.
Qed.

Lemma hosts_embedding_model checked sc t0 cs :
  maccept_loop checked {| m_base := sc; m_extra := [] |} t0 (map m_of cs)
  = (map up (fst (accept_loop checked sc t0 (map conn_of cs))), snd (accept_loop checked sc t0 (map conn_of cs))).
Proof.
  unfold maccept_loop, accept_loop, mstart. cbn [m_extra map].
  pose proof (maccept_embeds checked sc cs (astart t0) eq_refl) as H. cbn [astart fails lims] in H.
  rewrite H. destruct (accept_run true checked sc (astart t0) (map conn_of cs)) as [s2 os]. reflexivity.
Qed.
