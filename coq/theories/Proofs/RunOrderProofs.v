(** C16 — run-order lemmas about Model/RunOrder.v, for arbitrary extension behaviours. *)
From KV Require Import Bytes RustStd Registry PresentLine RunOrder RegistryProofs.
From Coq Require Import ZifyBool ZifyNat ZifyN FinFun.
Open Scope N_scope.

(** ---- Prime: sequential, each sees the rewrites of the earlier ones ---- *)
Definition prime_state (l : list (Z * prime_ext)) (st : bytes * option bytes) : bytes * option bytes :=
  fold_left (fun s e => prime_apply (snd e) s) l st.

Definition event_prio (e : event) : option Z :=
  match e with
  | EPrime i _ | EPrepareFn i _ | EPresentFn i | EPackage i | EPost i => Some i
  | _ => None
  end.

Lemma resolve_prime_state l : forall st, fst (resolve_prime l st) = prime_state l st.
Proof.
  induction l as [|[i pr] r IH]; intros st; [reflexivity|].
  cbn [resolve_prime prime_state fold_left snd]. specialize (IH (prime_apply pr st)).
  destruct (resolve_prime r (prime_apply pr st)) as [st' tr]. exact IH.
Qed.

Lemma resolve_prime_app l1 : forall l2 st,
  snd (resolve_prime (l1 ++ l2) st) = snd (resolve_prime l1 st) ++ snd (resolve_prime l2 (prime_state l1 st)).
Proof.
  induction l1 as [|[i pr] r IH]; intros l2 st; [reflexivity|].
  cbn [app resolve_prime prime_state fold_left snd]. specialize (IH l2 (prime_apply pr st)).
  destruct (resolve_prime (r ++ l2) (prime_apply pr st)) as [s1 t1].
  destruct (resolve_prime r (prime_apply pr st)) as [s2 t2]. cbn [snd] in *. rewrite IH. reflexivity.
Qed.

Lemma resolve_prime_length l : forall st, length (snd (resolve_prime l st)) = length l.
Proof.
  induction l as [|[i pr] r IH]; intros st; [reflexivity|].
  cbn [resolve_prime]. specialize (IH (prime_apply pr st)).
  destruct (resolve_prime r (prime_apply pr st)) as [s t]. cbn [snd length] in *. lia.
Qed.

Lemma prime_sequential_model l1 i pr l2 st :
  snd (resolve_prime (l1 ++ (i, pr) :: l2) st)
  = snd (resolve_prime l1 st) ++ EPrime i (fst (prime_state l1 st))
      :: snd (resolve_prime l2 (prime_apply pr (prime_state l1 st)))
  /\ length (snd (resolve_prime l1 st)) = length l1.
Proof.
  split; [|apply resolve_prime_length].
  rewrite resolve_prime_app. f_equal. cbn [resolve_prime].
  destruct (resolve_prime l2 (prime_apply pr (prime_state l1 st))) as [s t]. reflexivity.
Qed.

Lemma prime_trace_prios l : forall st, map event_prio (snd (resolve_prime l st)) = map (fun e => Some (fst e)) l.
Proof.
  induction l as [|[i pr] r IH]; intros st; [reflexivity|].
  cbn [resolve_prime]. specialize (IH (prime_apply pr st)).
  destruct (resolve_prime r (prime_apply pr st)) as [s t]. cbn [snd map event_prio fst] in *. rewrite IH. reflexivity.
Qed.

(** ---- Prepare ---- *)
Lemma prepare_single_first_model single fns st h :
  assoc (prepare_key st) single = Some h ->
  resolve_prepare single fns st = (Some (h (fst st)), [EPrepareSingle (prepare_key st) (fst st)]).
Proof. intros H. unfold resolve_prepare. rewrite H. reflexivity. Qed.

Lemma first_match_split l1 : forall i pred h l2 path,
  Forall (fun e => fst (snd e) path = false) l1 -> pred path = true ->
  first_match (l1 ++ (i, (pred, h)) :: l2) path = Some (i, h).
Proof.
  induction l1 as [|[j [p g]] r IH]; intros i pred h l2 path HF Hp; cbn [app first_match].
  - rewrite Hp. reflexivity.
  - inversion HF; subst. cbn [snd fst] in *. rewrite H1. apply IH; assumption.
Qed.

Lemma first_match_none l path : Forall (fun e => fst (snd e) path = false) l -> first_match l path = None.
Proof.
  induction l as [|[j [p g]] r IH]; intros HF; [reflexivity|].
  inversion HF; subst. cbn [first_match snd fst] in *. rewrite H1. apply IH. assumption.
Qed.

Lemma first_predicate_only_model single l1 i pred h l2 st :
  assoc (prepare_key st) single = None ->
  Forall (fun e => fst (snd e) (fst st) = false) l1 -> pred (fst st) = true ->
  resolve_prepare single (l1 ++ (i, (pred, h)) :: l2) st = (Some (h (fst st)), [EPrepareFn i (fst st)]).
Proof.
  intros H HF Hp. unfold resolve_prepare. rewrite H, (first_match_split l1 i pred h l2 _ HF Hp). reflexivity.
Qed.

Lemma no_prepare_model single fns st :
  assoc (prepare_key st) single = None -> Forall (fun e => fst (snd e) (fst st) = false) fns ->
  resolve_prepare single fns st = (None, []).
Proof. intros H HF. unfold resolve_prepare. rewrite H, (first_match_none _ _ HF). reflexivity. Qed.

(** ---- Package / Post: every extension once, in list order ---- *)
Lemma resolve_post_map {X} (l : list (Z * X)) : resolve_post l = map (fun e => EPost (fst e)) l.
Proof.
  unfold resolve_post. destruct l as [|x l] using rev_ind; [reflexivity|]. clear IHl.
  rewrite app_length. cbn [length]. replace (length l + 1 - 1)%nat with (length l) by lia.
  rewrite firstn_app, Nat.sub_diag, firstn_all. cbn [firstn]. rewrite app_nil_r.
  rewrite nth_error_app2, Nat.sub_diag by lia. cbn [nth_error]. rewrite map_app. reflexivity.
Qed.

Lemma desc_nodup_prios {X} (l : list (Z * X)) : desc l -> NoDup (map fst l).
Proof.
  induction l as [|[q b] r IH]; intros Hd; [constructor|].
  apply desc_inv in Hd as [Hd HF]. cbn [map fst]. constructor; [|apply IH; exact Hd].
  intros Hin. apply in_map_iff in Hin as (e & E & Hin). rewrite Forall_forall in HF.
  specialize (HF e Hin). lia.
Qed.

Lemma package_post_once_model {X} (l : list (Z * X)) :
  resolve_package l = map (fun e => EPackage (fst e)) l /\
  resolve_post l = map (fun e => EPost (fst e)) l /\
  (desc l -> NoDup (resolve_package l) /\ NoDup (resolve_post l)).
Proof.
  split; [reflexivity|]. split; [apply resolve_post_map|]. intros Hd.
  rewrite resolve_post_map. unfold resolve_package.
  pose proof (desc_nodup_prios l Hd) as ND.
  split.
  - rewrite <- (map_map fst EPackage). apply FinFun.Injective_map_NoDup; [|exact ND]. intros a b [= E]. exact E.
  - rewrite <- (map_map fst EPost). apply FinFun.Injective_map_NoDup; [|exact ND]. intros a b [= E]. exact E.
Qed.

(** ---- the whole request: every stage, in this order ---- *)
Definition is_present_event (e : event) : Prop :=
  match e with EPresentFn _ | EPresentFile _ | EPresentInternal _ _ => True | _ => False end.

Lemma present_events_are pfns pfile pint path entries : Forall is_present_event (present_events pfns pfile pint path entries).
Proof.
  unfold present_events. apply Forall_app. split; [|apply Forall_app; split].
  - apply Forall_forall. intros e He. apply in_map_iff in He as (x & <- & _). exact I.
  - destruct (path_extension path) as [e|]; [|constructor]. destruct (bmem e pfile); repeat constructor.
  - apply Forall_forall. intros e He. apply in_map_iff in He as (x & <- & _). exact I.
Qed.

Lemma serve_stages_model parse (b : behaviours) (path : bytes) :
  (forall d, exists r, parse d = Ok r) ->
  exists status body present_tr,
    serve parse b path =
    (Ok (status, body),
     snd (resolve_prime (b_prime b) (path, None))
     ++ snd (resolve_prepare (b_single b) (b_prepare_fn b) (prime_state (b_prime b) (path, None)))
     ++ present_tr
     ++ map (fun e => EPackage (fst e)) (b_package b)
     ++ map (fun e => EPost (fst e)) (b_post b))
    /\ Forall is_present_event present_tr.
Proof.
  intros Htot. unfold serve.
  pose proof (resolve_prime_state (b_prime b) (path, None)) as Hs.
  destruct (resolve_prime (b_prime b) (path, None)) as [st tr1]. cbn [fst snd] in *. subst st.
  set (st := prime_state (b_prime b) (path, None)).
  destruct (resolve_prepare (b_single b) (b_prepare_fn b) st) as [resp tr2]. cbn [snd].
  set (sb := match resp with Some body => (200, body) | None => (404, []) end).
  destruct sb as [status body] eqn:Esb.
  unfold resolve_present. destruct (Htot body) as [r Hr]. rewrite Hr.
  destruct r as [p|].
  - exists status, (p_body p), (present_events (b_present_fn b) (b_present_file b) (b_present_internal b) (fst st) (p_entries p)).
    split; [|apply present_events_are]. rewrite resolve_post_map. reflexivity.
  - exists status, body, (present_events (b_present_fn b) (b_present_file b) (b_present_internal b) (fst st) []).
    split; [|apply present_events_are]. rewrite resolve_post_map. reflexivity.
Qed.

(** Present: when the body's first line parses to [entries] with body [rest], the Present
    stage runs the predicate-bound extensions, the file-extension one, then the registered
    extensions of the line in line order with their arguments, and hands on [rest]. *)
Lemma present_line_order_model parse pfns pfile pint path body entries ds rest :
  parse body = Ok (Some {| p_entries := entries; p_data_start := ds; p_body := rest |}) ->
  resolve_present parse pfns pfile pint path body =
  Ok (rest,
      map (fun x => EPresentFn (fst x)) (filter (fun x => snd x path) pfns)
      ++ (match path_extension path with Some e => if bmem e pfile then [EPresentFile e] else [] | None => [] end)
      ++ map (fun e => EPresentInternal (fst e) (snd e)) (filter (fun e => bmem (fst e) pint) entries)).
Proof. intros H. unfold resolve_present. rewrite H. reflexivity. Qed.

(** ---- registry edits, then requests: the macros build the host the reference map predicts ---- *)
Definition pc_desc (c : pconfig) : Prop := Forall desc (pc_lists c).

Lemma nth_desc' (ls : list (list (Z * payload))) k : Forall desc ls -> desc (nth k ls []).
Proof.
  intros HF. revert k. induction HF as [|x ls Hx HF IH]; intros [|k]; cbn [nth]; try constructor; auto.
Qed.
Lemma upd_desc' (ls : list (list (Z * payload))) k l' : Forall desc ls -> desc l' -> Forall desc (upd k (fun _ => l') ls).
Proof.
  intros HF Hl. revert k. induction HF as [|x ls Hx HF IH]; intros [|k]; cbn [upd]; constructor; auto.
Qed.

Lemma pconfig_step_refines c e : pc_desc c ->
  pconfig_step model_step c e = pconfig_step ref_step c e /\ pc_desc (pconfig_step ref_step c e).
Proof.
  intros Hc. unfold pconfig_step. destruct (Nat.ltb (pe_kind e) 5).
  - pose proof (nth_desc' (pc_lists c) (pe_kind e) Hc) as Hd.
    rewrite (step_refines _ _ Hd). split; [reflexivity|].
    destruct (ref_step _ _) as [l'| |] eqn:E; try exact Hc.
    unfold pc_desc. cbn [pc_lists]. apply upd_desc'; [exact Hc|]. eapply ref_step_desc; eassumption.
  - split; [reflexivity|]. destruct (Nat.eqb (pe_kind e) 5); [exact Hc|]. destruct (Nat.eqb (pe_kind e) 6); exact Hc.
Qed.

Lemma pconfig_build_refines_from es : forall c, pc_desc c ->
  fold_left (pconfig_step model_step) es c = fold_left (pconfig_step ref_step) es c /\
  pc_desc (fold_left (pconfig_step ref_step) es c).
Proof.
  induction es as [|e es IH]; intros c Hc; [split; [reflexivity|exact Hc]|].
  cbn [fold_left]. destruct (pconfig_step_refines c e Hc) as [E Hd]. rewrite E. apply IH. exact Hd.
Qed.

Lemma pconfig_empty_desc : pc_desc pconfig_empty.
Proof. unfold pc_desc. cbn. repeat constructor. Qed.

Lemma run_order_after_edits_model parse es paths :
  run_scenario model_step parse es paths = run_scenario ref_step parse es paths /\
  pc_desc (pconfig_build ref_step es).
Proof.
  unfold run_scenario, pconfig_build.
  destruct (pconfig_build_refines_from es pconfig_empty pconfig_empty_desc) as [E Hd].
  rewrite E. split; [reflexivity|exact Hd].
Qed.
