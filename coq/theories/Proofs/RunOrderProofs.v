(** C16 — run-order lemmas about Model/RunOrder.v, for arbitrary extension behaviours. *)
From KV Require Import Bytes RustStd Registry PresentLine RunOrder RunSpec RegistryProofs PresentLineProofs.
From Coq Require Import ZifyBool ZifyNat ZifyN FinFun.
Open Scope N_scope.

(** ---- Prime: sequential, each sees the rewrites of the earlier ones ---- *)
Definition prime_state (l : list (Z * prime_ext)) (st : bytes * option bytes) : bytes * option bytes :=
  fold_left (fun s e => prime_apply (snd e) s) l st.

Lemma resolve_prime_state l : forall st, fst (resolve_prime l st) = prime_state l st.
Proof.
  induction l as [|[i pr] r IH]; intros st; [reflexivity|].
  cbn [resolve_prime prime_state fold_left snd]. specialize (IH (prime_apply pr st)).
  destruct (resolve_prime r (prime_apply pr st)) as [st' tr]. exact IH.
Qed.

Lemma resolve_prime_app l1 : forall l2 st,
  snd (resolve_prime (l1 ++ l2) st) = snd (resolve_prime l1 st) ++ snd (resolve_prime l2 (prime_state l1 st)).
Proof.
  induction l1 as [|[i pr] r IH]; intros l2 st; [reflexivity|].
  cbn [app resolve_prime prime_state fold_left snd]. specialize (IH l2 (prime_apply pr st)).
  destruct (resolve_prime (r ++ l2) (prime_apply pr st)) as [s1 t1].
  destruct (resolve_prime r (prime_apply pr st)) as [s2 t2]. cbn [snd] in *. rewrite IH. reflexivity.
Qed.

Lemma resolve_prime_length l : forall st, length (snd (resolve_prime l st)) = length l.
Proof.
  induction l as [|[i pr] r IH]; intros st; [reflexivity|].
  cbn [resolve_prime]. specialize (IH (prime_apply pr st)).
  destruct (resolve_prime r (prime_apply pr st)) as [s t]. cbn [snd length] in *. lia.
Qed.

Lemma prime_sequential_model l1 i pr l2 st :
  snd (resolve_prime (l1 ++ (i, pr) :: l2) st)
  = snd (resolve_prime l1 st) ++ EPrime i (fst (prime_state l1 st))
      :: snd (resolve_prime l2 (prime_apply pr (prime_state l1 st)))
  /\ length (snd (resolve_prime l1 st)) = length l1.
Proof.
  split; [|apply resolve_prime_length].
  rewrite resolve_prime_app. f_equal. cbn [resolve_prime].
  destruct (resolve_prime l2 (prime_apply pr (prime_state l1 st))) as [s t]. reflexivity.
Qed.

Lemma prime_trace_prios l : forall st, map event_prio (snd (resolve_prime l st)) = map (fun e => Some (fst e)) l.
Proof.
  induction l as [|[i pr] r IH]; intros st; [reflexivity|].
  cbn [resolve_prime]. specialize (IH (prime_apply pr st)).
  destruct (resolve_prime r (prime_apply pr st)) as [s t]. cbn [snd map event_prio fst] in *. rewrite IH. reflexivity.
Qed.

(** ---- Prepare ---- *)
Lemma prepare_single_first_model {R} (single : list (bytes * (bytes -> R))) fns st h :
  assoc (prepare_key st) single = Some h ->
  resolve_prepare single fns st = (Some (h (fst st)), [EPrepareSingle (prepare_key st) (fst st)]).
Proof. intros H. unfold resolve_prepare. rewrite H. reflexivity. Qed.

Lemma first_match_split {R} (l1 : list (Z * ((bytes -> bool) * (bytes -> R)))) : forall i pred h l2 path,
  Forall (fun e => fst (snd e) path = false) l1 -> pred path = true ->
  first_match (l1 ++ (i, (pred, h)) :: l2) path = Some (i, h).
Proof.
  induction l1 as [|[j [p g]] r IH]; intros i pred h l2 path HF Hp; cbn [app first_match].
  - rewrite Hp. reflexivity.
  - inversion HF; subst. cbn [snd fst] in *. rewrite H1. apply IH; assumption.
Qed.

Lemma first_match_none {R} (l : list (Z * ((bytes -> bool) * (bytes -> R)))) path :
  Forall (fun e => fst (snd e) path = false) l -> first_match l path = None.
Proof.
  induction l as [|[j [p g]] r IH]; intros HF; [reflexivity|].
  inversion HF; subst. cbn [first_match snd fst] in *. rewrite H1. apply IH. assumption.
Qed.

Lemma first_predicate_only_model {R} (single : list (bytes * (bytes -> R))) l1 i pred h l2 st :
  assoc (prepare_key st) single = None ->
  Forall (fun e => fst (snd e) (fst st) = false) l1 -> pred (fst st) = true ->
  resolve_prepare single (l1 ++ (i, (pred, h)) :: l2) st = (Some (h (fst st)), [EPrepareFn i (fst st)]).
Proof.
  intros H HF Hp. unfold resolve_prepare. rewrite H, (first_match_split l1 i pred h l2 _ HF Hp). reflexivity.
Qed.

Lemma no_prepare_model {R} (single : list (bytes * (bytes -> R))) fns st :
  assoc (prepare_key st) single = None -> Forall (fun e => fst (snd e) (fst st) = false) fns ->
  resolve_prepare single fns st = (None, []).
Proof. intros H HF. unfold resolve_prepare. rewrite H, (first_match_none _ _ HF). reflexivity. Qed.

(** ---- Package / Post: every extension once, in list order ---- *)
Lemma resolve_post_map {X} (l : list (Z * X)) : resolve_post l = map (fun e => EPost (fst e)) l.
Proof.
  unfold resolve_post. destruct l as [|x l] using rev_ind; [reflexivity|]. clear IHl.
  rewrite app_length. cbn [length]. replace (length l + 1 - 1)%nat with (length l) by lia.
  rewrite firstn_app, Nat.sub_diag, firstn_all. cbn [firstn]. rewrite app_nil_r.
  rewrite nth_error_app2, Nat.sub_diag by lia. cbn [nth_error]. rewrite map_app. reflexivity.
Qed.

Lemma desc_nodup_prios {X} (l : list (Z * X)) : desc l -> NoDup (map fst l).
Proof.
  induction l as [|[q b] r IH]; intros Hd; [constructor|].
  apply desc_inv in Hd as [Hd HF]. cbn [map fst]. constructor; [|apply IH; exact Hd].
  intros Hin. apply in_map_iff in Hin as (e & E & Hin). rewrite Forall_forall in HF.
  specialize (HF e Hin). lia.
Qed.

Lemma package_post_once_model {X} (l : list (Z * X)) :
  resolve_package l = map (fun e => EPackage (fst e)) l /\
  resolve_post l = map (fun e => EPost (fst e)) l /\
  (desc l -> NoDup (resolve_package l) /\ NoDup (resolve_post l)).
Proof.
  split; [reflexivity|]. split; [apply resolve_post_map|]. intros Hd.
  rewrite resolve_post_map. unfold resolve_package.
  pose proof (desc_nodup_prios l Hd) as ND.
  split.
  - rewrite <- (map_map fst EPackage). apply FinFun.Injective_map_NoDup; [|exact ND]. intros a b [= E]. exact E.
  - rewrite <- (map_map fst EPost). apply FinFun.Injective_map_NoDup; [|exact ND]. intros a b [= E]. exact E.
Qed.

(** ---- the whole request ---- *)
Definition is_present_event (e : event) : Prop :=
  match e with EPresentFn _ | EPresentFile _ | EPresentInternal _ _ => True | _ => False end.
Definition is_prepare_event (e : event) : Prop :=
  match e with EPrepareSingle _ _ | EPrepareFn _ _ => True | _ => False end.

Lemma present_events_are pfns pfile pint uri entries : Forall is_present_event (present_events pfns pfile pint uri entries).
Proof.
  unfold present_events. apply Forall_app. split; [|apply Forall_app; split].
  - apply Forall_forall. intros e He. apply in_map_iff in He as (x & <- & _). exact I.
  - destruct (path_extension (uri_path uri)) as [e|]; [|constructor]. destruct (bmem e pfile); repeat constructor.
  - apply Forall_forall. intros e He. apply in_map_iff in He as (x & <- & _). exact I.
Qed.

Lemma resolve_prepare_events {R} (single : list (bytes * (bytes -> R))) fns st :
  Forall is_prepare_event (snd (resolve_prepare single fns st)).
Proof.
  unfold resolve_prepare. destruct (assoc (prepare_key st) single); [repeat constructor|].
  destruct (first_match fns (fst st)) as [[i h]|]; repeat constructor.
Qed.

(** Every response — generated or served from the cache, to GET, HEAD or another method, for a
    safe or an unsafe path, with or without a range — is answered (no panic) and its trace is:
    the Prime extensions, then (only when the response is generated) at most one Prepare and the
    Present extensions, then every Package, then every Post extension. *)
Lemma package_post_every_response_model parse (h : hostcfg) (c : cache) (r : creq) :
  (forall d, exists x, parse d = Ok x) ->
  exists status body prep pres,
    fst (serve parse h c r) =
    (Ok (status, body),
     snd (resolve_prime (b_prime (h_b h)) (q_uri r, None)) ++ prep ++ pres
     ++ map (fun e => EPackage (fst e)) (b_package (h_b h))
     ++ map (fun e => EPost (fst e)) (b_post (h_b h)))
    /\ Forall is_prepare_event prep /\ (length prep <= 1)%nat /\ Forall is_present_event pres.
Proof.
  intros Htot. unfold serve.
  destruct (resolve_prime (b_prime (h_b h)) (q_uri r, None)) as [st tr1]. cbn [snd].
  destruct (cache_hit h c (sanitize r) (q_method r) (key_uri st)) as [sb|].
  - unfold send. cbn [fst]. rewrite resolve_post_map. unfold resolve_package.
    destruct (respond (q_method r) (sanitize r) 1 sb) as [status body] eqn:E.
    exists status, body, [], []. cbn [app length]. repeat split; try constructor. constructor.
  - set (gen := match sanitize r with
                | SanOk _ => handle_request h (q_method r) st
                | SanUnsafe => (400, [], 1, [])
                | SanRange => (416, [], 1, [])
                end).
    assert (Hgen : Forall is_prepare_event (snd gen) /\ (length (snd gen) <= 1)%nat).
    { unfold gen. destruct (sanitize r); cbn [snd length]; try (split; [constructor|lia]).
      unfold handle_request.
      pose proof (resolve_prepare_events (b_single (h_b h)) (b_prepare_fn (h_b h)) st) as HF.
      assert (HL : (length (snd (resolve_prepare (b_single (h_b h)) (b_prepare_fn (h_b h)) st)) <= 1)%nat).
      { unfold resolve_prepare. destruct (assoc _ _); [cbn [snd length]; lia|].
        destruct (first_match _ _) as [[i hh]|]; cbn [snd length]; lia. }
      destruct (resolve_prepare (b_single (h_b h)) (b_prepare_fn (h_b h)) st) as [resp tr]. cbn [snd] in *. split; assumption. }
    destruct gen as [[[status body] pref] tr2]. cbn [snd] in Hgen. destruct Hgen as [HP HL].
    unfold resolve_present. destruct (Htot body) as [x Hx]. rewrite Hx.
    destruct x as [p|]; unfold send; cbn [fst]; rewrite resolve_post_map; unfold resolve_package.
    + destruct (respond (q_method r) (sanitize r) pref (status, p_body p)) as [s' b'] eqn:E.
      exists s', b', tr2, (present_events (b_present_fn (h_b h)) (b_present_file (h_b h)) (b_present_internal (h_b h)) (fst st) (p_entries p)).
      split; [|split; [exact HP|split; [exact HL|apply present_events_are]]]. reflexivity.
    + destruct (respond (q_method r) (sanitize r) pref (status, body)) as [s' b'] eqn:E.
      exists s', b', tr2, (present_events (b_present_fn (h_b h)) (b_present_file (h_b h)) (b_present_internal (h_b h)) (fst st) []).
      split; [|split; [exact HP|split; [exact HL|apply present_events_are]]]. reflexivity.
Qed.

(** A response served from the cache runs neither Prepare nor Present, and leaves the cache as it is. *)
Lemma cache_hit_skips_model parse (h : hostcfg) (c : cache) (r : creq) st sb :
  fst (resolve_prime (b_prime (h_b h)) (q_uri r, None)) = st ->
  cache_hit h c (sanitize r) (q_method r) (key_uri st) = Some sb ->
  serve parse h c r =
  ((Ok (respond (q_method r) (sanitize r) 1 sb),
    snd (resolve_prime (b_prime (h_b h)) (q_uri r, None))
    ++ map (fun e => EPackage (fst e)) (b_package (h_b h)) ++ map (fun e => EPost (fst e)) (b_post (h_b h))), c).
Proof.
  intros Hst Hhit. unfold serve. destruct (resolve_prime (b_prime (h_b h)) (q_uri r, None)) as [st' tr1].
  cbn [fst snd] in *. subst st'. rewrite Hhit. unfold send. rewrite resolve_post_map. reflexivity.
Qed.

(** Present: when the body's first line parses to [entries] with body [rest], the Present
    stage runs the predicate-bound extensions, the file-extension one, then the registered
    extensions of the line in line order with their arguments, and hands on [rest]. *)
Lemma present_line_order_model parse pfns pfile pint uri body entries ds rest :
  parse body = Ok (Some {| p_entries := entries; p_data_start := ds; p_body := rest |}) ->
  resolve_present parse pfns pfile pint uri body =
  Ok (rest,
      map (fun x => EPresentFn (fst x)) (filter (fun x => snd x uri) pfns)
      ++ (match path_extension (uri_path uri) with Some e => if bmem e pfile then [EPresentFile e] else [] | None => [] end)
      ++ map (fun e => EPresentInternal (fst e) (snd e)) (filter (fun e => bmem (fst e) pint) entries)).
Proof. intros H. unfold resolve_present. rewrite H. reflexivity. Qed.

(** ---- the hash maps: insert replaces, remove deletes exactly that key ---- *)
Lemma assoc_map_remove {X} (m : list (bytes * X)) k q :
  assoc q (map_remove k m) = if beq k q then None else assoc q m.
Proof.
  induction m as [|[k' v] m IH]; cbn [map_remove filter assoc fst].
  - destruct (beq k q); reflexivity.
  - fold (map_remove k m). destruct (beq k' k) eqn:E; cbn [negb].
    + apply beq_eq in E. subst k'. rewrite IH. destruct (beq k q); reflexivity.
    + cbn [assoc]. rewrite IH. destruct (beq k' q) eqn:E2; [|reflexivity].
      apply beq_eq in E2. subst k'. destruct (beq k q) eqn:E3; [|reflexivity].
      apply beq_eq in E3. subst q. rewrite beq_refl in E. discriminate.
Qed.
Lemma assoc_map_insert {X} (m : list (bytes * X)) k v q :
  assoc q (map_insert k v m) = if beq k q then Some v else assoc q m.
Proof.
  unfold map_insert. cbn [assoc]. destruct (beq k q) eqn:E; [reflexivity|].
  rewrite assoc_map_remove, E. reflexivity.
Qed.

(** ---- registry edits, then requests: the macros build the host the reference map predicts ---- *)
Definition pc_desc (c : pconfig) : Prop := Forall desc (pc_lists c).

Lemma nth_desc' {A} (ls : list (list (Z * A))) k : Forall desc ls -> desc (nth k ls []).
Proof.
  intros HF. revert k. induction HF as [|x ls Hx HF IH]; intros [|k]; cbn [nth]; try constructor; auto.
Qed.
Lemma upd_desc' {A} (ls : list (list (Z * A))) k l' : Forall desc ls -> desc l' -> Forall desc (upd k (fun _ => l') ls).
Proof.
  intros HF Hl. revert k. induction HF as [|x ls Hx HF IH]; intros [|k]; cbn [upd]; constructor; auto.
Qed.

Lemma pconfig_step_refines c e : pc_desc c ->
  pconfig_step model_step c e = pconfig_step ref_step c e /\ pc_desc (pconfig_step ref_step c e).
Proof.
  intros Hc. destruct e as [mark e]. unfold pconfig_step. destruct (Nat.ltb (pe_kind e) 5).
  - pose proof (nth_desc' (pc_lists c) (pe_kind e) Hc) as Hd.
    rewrite (step_refines _ _ Hd). split; [reflexivity|].
    destruct (ref_step _ _) as [l'| |] eqn:E; try exact Hc.
    unfold pc_desc. cbn [pc_lists]. apply upd_desc'; [exact Hc|]. eapply ref_step_desc; eassumption.
  - split; [reflexivity|]. destruct (Nat.eqb (pe_kind e) 5); [exact Hc|]. destruct (Nat.eqb (pe_kind e) 6); exact Hc.
Qed.

Lemma pconfig_build_refines_from es : forall c, pc_desc c ->
  fold_left (pconfig_step model_step) es c = fold_left (pconfig_step ref_step) es c /\
  pc_desc (fold_left (pconfig_step ref_step) es c).
Proof.
  induction es as [|e es IH]; intros c Hc; [split; [reflexivity|exact Hc]|].
  cbn [fold_left]. destruct (pconfig_step_refines c e Hc) as [E Hd]. rewrite E. apply IH. exact Hd.
Qed.

Lemma pconfig_empty_desc : pc_desc pconfig_empty.
Proof. unfold pc_desc. cbn. repeat constructor. Qed.

Lemma run_order_after_edits_model parse es o rs :
  run_scenario model_step parse es o rs = run_scenario ref_step parse es o rs /\
  pc_desc (pconfig_build ref_step es).
Proof.
  unfold run_scenario, pconfig_build.
  destruct (pconfig_build_refines_from (number 0 es) pconfig_empty pconfig_empty_desc) as [E Hd].
  rewrite E. split; [reflexivity|exact Hd].
Qed.
