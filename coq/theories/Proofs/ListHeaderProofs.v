(** C06 — [list_header] on the RFC 7231 grammar equals the reference parse; totality. *)
From KV Require Import Bytes RustInt Range Negotiate.
From Coq Require Import ZifyBool ZifyNat ZifyN.
Open Scope N_scope.

Arguments N.add : simpl never. Arguments N.sub : simpl never. Arguments N.mul : simpl never.
Arguments N.eqb : simpl never. Arguments N.ltb : simpl never. Arguments N.leb : simpl never.

(** closed comparisons of byte literals *)
Ltac lits :=
  repeat match goal with
         | |- context [N.eqb (Npos ?a) (Npos ?b)] =>
             let v := eval vm_compute in (N.eqb (Npos a) (Npos b)) in change (N.eqb (Npos a) (Npos b)) with v
         | |- context [N.leb (Npos ?a) (Npos ?b)] =>
             let v := eval vm_compute in (N.leb (Npos a) (Npos b)) in change (N.leb (Npos a) (Npos b)) with v
         end.

Ltac lens := repeat (first [rewrite app_length | progress cbn [length]]).

(* ------------------------------------------------------------------------------------ *)
(** * trimming *)
Lemma trim_start_all_ows a : forallb is_ows a = true -> trim_start a = [].
Proof.
  induction a as [|c a IH]; cbn [forallb trim_start]; [reflexivity|].
  intros H. apply andb_true_iff in H as [H1 H2]. rewrite H1. auto.
Qed.
Lemma trim_start_app_ows a s : forallb is_ows a = true -> trim_start (a ++ s) = trim_start s.
Proof.
  induction a as [|c a IH]; cbn [forallb trim_start app]; [reflexivity|].
  intros H. apply andb_true_iff in H as [H1 H2]. rewrite H1. auto.
Qed.
Lemma trim_start_head c r : is_ows c = false -> trim_start (c :: r) = c :: r.
Proof. intros H. cbn [trim_start]. rewrite H. reflexivity. Qed.
Lemma forallb_rev {A} (f : A -> bool) l : forallb f (rev l) = forallb f l.
Proof.
  induction l as [|x l IH]; cbn [rev forallb]; [reflexivity|].
  rewrite forallb_app, IH. cbn [forallb]. rewrite andb_true_r, andb_comm. reflexivity.
Qed.
Lemma trim_end_app_ows s b : forallb is_ows b = true -> trim_end (s ++ b) = trim_end s.
Proof.
  intros H. unfold trim_end. rewrite rev_app_distr, trim_start_app_ows; [reflexivity|].
  rewrite forallb_rev. assumption.
Qed.
Lemma trim_end_last r c : is_ows c = false -> trim_end (r ++ [c]) = r ++ [c].
Proof.
  intros H. unfold trim_end. rewrite rev_app_distr. cbn [rev app]. rewrite trim_start_head by assumption.
  cbn [rev]. rewrite rev_involutive. reflexivity.
Qed.

Lemma trim_ows_sandwich a x b :
  forallb is_ows a = true -> forallb is_ows b = true -> forallb (fun c => negb (is_ows c)) x = true ->
  trim_ows (a ++ x ++ b) = x.
Proof.
  intros Ha Hb Hx. unfold trim_ows. rewrite trim_start_app_ows by assumption.
  destruct x as [|c x].
  - cbn [app]. rewrite trim_start_all_ows by assumption. reflexivity.
  - cbn [forallb] in Hx. apply andb_true_iff in Hx as [Hc Hx]. apply negb_true_iff in Hc.
    cbn [app]. rewrite trim_start_head by assumption.
    change (c :: x ++ b) with ((c :: x) ++ b). rewrite trim_end_app_ows by assumption.
    destruct (exists_last (l := c :: x)) as [r [d Hr]]; [discriminate|]. rewrite Hr.
    apply trim_end_last.
    assert (Hall : forallb (fun c => negb (is_ows c)) (c :: x) = true).
    { cbn [forallb]. rewrite Hc, Hx. reflexivity. }
    rewrite Hr, forallb_app in Hall. apply andb_true_iff in Hall as [_ Hd]. cbn [forallb] in Hd.
    rewrite andb_true_r in Hd. apply negb_true_iff in Hd. assumption.
Qed.

Lemma In_trim_start c s : In c s -> is_ows c = false -> In c (trim_start s).
Proof.
  induction s as [|d s IH]; cbn [trim_start]; [auto|]. intros Hin Hc.
  destruct (is_ows d) eqn:Hd; [|assumption]. destruct Hin as [->|Hin]; [congruence|auto].
Qed.
Lemma In_trim_ows c s : In c s -> is_ows c = false -> In c (trim_ows s).
Proof.
  intros Hin Hc. unfold trim_ows, trim_end. rewrite <- in_rev. apply In_trim_start; [|assumption].
  rewrite <- in_rev. apply In_trim_start; assumption.
Qed.

(* ------------------------------------------------------------------------------------ *)
(** * slices *)
Lemma slice_get_mid (a b c : bytes) k lo hi header :
  header = a ++ b ++ c -> lo = (length a + k)%nat -> hi = (length a + length b)%nat -> (k <= length b)%nat ->
  slice_get lo hi header = Some (skipn k b).
Proof.
  intros -> -> -> Hk. unfold slice_get, slice.
  replace (Nat.leb (length a + k) (length a + length b)) with true by (symmetry; apply Nat.leb_le; lia).
  replace (Nat.leb (length a + length b) (length (a ++ b ++ c))) with true
    by (symmetry; apply Nat.leb_le; rewrite !app_length; lia).
  cbn [andb]. f_equal.
  rewrite skipn_app. rewrite (skipn_all2 a) by lia. cbn [app].
  replace (length a + k - length a)%nat with k by lia.
  rewrite skipn_app. replace (k - length b)%nat with O by lia. cbn [skipn].
  rewrite firstn_app. rewrite skipn_length.
  replace (length a + length b - (length a + k) - (length b - k))%nat with O by lia.
  cbn [firstn]. rewrite app_nil_r. apply firstn_all2. rewrite skipn_length. lia.
Qed.

(* ------------------------------------------------------------------------------------ *)
(** * the loop on the pieces of a member *)
Section LH.
  Variable parse_q : bytes -> option qclass.
  Notation step := (lh_step parse_q true).
  Notation loop := (lh_loop parse_q true).
  Notation emit := (lh_emit parse_q true).

  Definition next_start (header : bytes) (p : nat) : nat :=
    match nth_error header (S p) with
    | Some c => if c =? 32 then S (S p) else S p
    | None => S p
    end.

  Lemma loop_app header a b p s : loop header (a ++ b) p s = loop header b (p + length a)%nat (loop header a p s).
  Proof.
    revert p s; induction a as [|c a IH]; intros p s; cbn [app lh_loop length].
    - rewrite Nat.add_0_r. reflexivity.
    - rewrite IH. f_equal. lia.
  Qed.

  (** outside a weight nothing but ';' and ',' changes the state *)
  Lemma step_outside header p c s :
    lh_inq s = false -> (c =? c_semi) = false -> (c =? c_comma) = false -> step header p c s = s.
  Proof.
    intros Hi Hs Hc. destruct s as [st e iq pq qs out]. cbn [lh_inq] in Hi. subst iq.
    unfold lh_step. destruct (c =? 32); [reflexivity|].
    cbn [lh_inq lh_qstart lh_end lh_prevq lh_start lh_out]. rewrite Hs, Hc. cbn [andb negb]. reflexivity.
  Qed.
  Lemma loop_outside header cs : forall p s,
    lh_inq s = false -> forallb (fun c => negb ((c =? c_semi) || (c =? c_comma))) cs = true -> loop header cs p s = s.
  Proof.
    induction cs as [|c cs IH]; intros p s Hi H; cbn [lh_loop]; [reflexivity|].
    cbn [forallb] in H. apply andb_true_iff in H as [H1 H2]. apply negb_true_iff, orb_false_iff in H1 as [Hs Hc].
    rewrite step_outside by assumption. apply IH; assumption.
  Qed.

  Lemma step_semi header p st e pq qs out :
    step header p c_semi (mkLh st e false pq qs out) = mkLh st p true false qs out.
  Proof. unfold lh_step, c_semi, c_eq, c_q, c_dot, c_comma. cbn [lh_inq lh_qstart lh_end lh_prevq lh_start lh_out]. lits. reflexivity. Qed.

  Lemma step_ows_inq header p c st e out :
    is_ows c = true -> step header p c (mkLh st e true false 0 out) = mkLh st e true false 0 out.
  Proof.
    intros H. unfold is_ows in H. apply orb_true_iff in H as [H|H]; apply N.eqb_eq in H; subst c;
      unfold lh_step, c_semi, c_eq, c_q, c_dot, c_comma, is_digit;
      cbn [lh_inq lh_qstart lh_end lh_prevq lh_start lh_out]; lits; reflexivity.
  Qed.
  Lemma loop_ows_inq header cs : forall p st e out,
    forallb is_ows cs = true -> loop header cs p (mkLh st e true false 0 out) = mkLh st e true false 0 out.
  Proof.
    induction cs as [|c cs IH]; intros p st e out H; cbn [lh_loop]; [reflexivity|].
    cbn [forallb] in H. apply andb_true_iff in H as [H1 H2]. rewrite step_ows_inq by assumption. apply IH. assumption.
  Qed.

  Lemma step_q header p st e out :
    step header p c_q (mkLh st e true false 0 out) = mkLh st e true true 0 out.
  Proof. unfold lh_step, c_semi, c_eq, c_q, c_dot, c_comma, is_digit. cbn [lh_inq lh_qstart lh_end lh_prevq lh_start lh_out]. lits. reflexivity. Qed.
  Lemma step_eq header p st e out :
    step header p c_eq (mkLh st e true true 0 out) = mkLh st e true false (S p) out.
  Proof. unfold lh_step, c_semi, c_eq, c_q, c_dot, c_comma, is_digit. cbn [lh_inq lh_qstart lh_end lh_prevq lh_start lh_out]. lits. reflexivity. Qed.

  (** inside the text of a quality only [previous_was_q] changes *)
  Lemma step_qv header p c st e pq qs out :
    (c =? c_comma) = false -> (c =? c_eq) = false ->
    exists pq', step header p c (mkLh st e true pq (S qs) out) = mkLh st e true pq' (S qs) out.
  Proof.
    intros Hc He. unfold lh_step. destruct (c =? 32); [eexists; reflexivity|].
    cbn [lh_inq lh_qstart lh_end lh_prevq lh_start lh_out]. rewrite Hc, He.
    cbn [Nat.eqb andb negb]. rewrite !andb_false_r. cbn [andb]. eexists; reflexivity.
  Qed.
  Lemma loop_qv header cs : forall p st e pq qs out,
    forallb (fun c => negb ((c =? c_comma) || (c =? c_eq))) cs = true ->
    exists pq', loop header cs p (mkLh st e true pq (S qs) out) = mkLh st e true pq' (S qs) out.
  Proof.
    induction cs as [|c cs IH]; intros p st e pq qs out H; cbn [lh_loop]; [eexists; reflexivity|].
    cbn [forallb] in H. apply andb_true_iff in H as [H1 H2]. apply negb_true_iff, orb_false_iff in H1 as [Hc He].
    destruct (step_qv header p c st e pq qs out Hc He) as [pq1 ->]. apply IH. assumption.
  Qed.

  Lemma step_comma_plain header p st pq out :
    step header p c_comma (mkLh st 0 false pq 0 out) = mkLh (next_start header p) 0 false pq 0 (emit header st 0 0 p out).
  Proof. unfold lh_step, next_start, c_semi, c_eq, c_q, c_dot, c_comma, is_digit. cbn [lh_inq lh_qstart lh_end lh_prevq lh_start lh_out]. lits. reflexivity. Qed.
  Lemma step_comma_weight header p st e pq qs out :
    step header p c_comma (mkLh st e true pq (S qs) out) = mkLh (next_start header p) 0 false false 0 (emit header st e (S qs) p out).
  Proof. unfold lh_step, next_start, c_semi, c_eq, c_q, c_dot, c_comma, is_digit. cbn [lh_inq lh_qstart lh_end lh_prevq lh_start lh_out]. lits. reflexivity. Qed.

  (** ** character classes *)
  Lemma ows_not_sep c : is_ows c = true -> negb ((c =? c_semi) || (c =? c_comma)) = true.
  Proof.
    unfold is_ows. intros H. apply orb_true_iff in H as [H|H]; apply N.eqb_eq in H; subst c; reflexivity.
  Qed.
  Lemma ows_not_qsep c : is_ows c = true -> negb ((c =? c_comma) || (c =? c_eq)) = true.
  Proof.
    unfold is_ows. intros H. apply orb_true_iff in H as [H|H]; apply N.eqb_eq in H; subst c; reflexivity.
  Qed.
  Lemma forallb_impl {A} (f g : A -> bool) l : (forall x, f x = true -> g x = true) -> forallb f l = true -> forallb g l = true.
  Proof.
    intros Hfg. induction l as [|x l IH]; cbn [forallb]; [reflexivity|]. intros H. apply andb_true_iff in H as [H1 H2].
    rewrite (Hfg _ H1), IH by assumption. reflexivity.
  Qed.
  Lemma sep_free_not_sep c : sep_free c = true -> negb ((c =? c_semi) || (c =? c_comma)) = true.
  Proof.
    unfold sep_free. intros H. apply negb_true_iff in H. apply orb_false_iff in H as [H H3]. apply orb_false_iff in H as [H1 H2].
    rewrite H2, H3. reflexivity.
  Qed.
  Lemma sep_free_not_ows c : sep_free c = true -> negb (is_ows c) = true.
  Proof.
    unfold sep_free. intros H. apply negb_true_iff in H. apply orb_false_iff in H as [H H3]. apply orb_false_iff in H as [H1 H2].
    rewrite H1. reflexivity.
  Qed.
  Lemma qv_not_qsep c : negb (is_ows c || (c =? c_comma) || (c =? c_eq)) = true -> negb ((c =? c_comma) || (c =? c_eq)) = true.
  Proof.
    intros H. apply negb_true_iff in H. apply orb_false_iff in H as [H H3]. apply orb_false_iff in H as [H1 H2].
    rewrite H2, H3. reflexivity.
  Qed.
  Lemma qv_not_ows c : negb (is_ows c || (c =? c_comma) || (c =? c_eq)) = true -> negb (is_ows c) = true.
  Proof.
    intros H. apply negb_true_iff in H. apply orb_false_iff in H as [H H3]. apply orb_false_iff in H as [H1 H2].
    rewrite H1. reflexivity.
  Qed.
  Lemma forallb_skipn {A} (f : A -> bool) k l : forallb f l = true -> forallb f (skipn k l) = true.
  Proof.
    revert l; induction k as [|k IH]; intros [|x l]; cbn [skipn forallb]; auto.
    intros H. apply andb_true_iff in H as [_ H]. auto.
  Qed.

  (** ** one member *)
  Definition semi_pos (p : nat) (m : member) (w1 : bytes) : nat := (p + length (mb_pre m) + length (mb_name m) + length w1)%nat.

  Lemma member_ok_parts m :
    member_ok m = true ->
    forallb is_ows (mb_pre m) = true /\ name_ok (mb_name m) = true /\ forallb is_ows (mb_post m) = true /\
    match mb_weight m with
    | Some (w1, w2, qv) => forallb is_ows w1 = true /\ forallb is_ows w2 = true /\ qv_ok qv = true
    | None => True
    end.
  Proof.
    unfold member_ok. intros H. apply andb_true_iff in H as [H H4]. apply andb_true_iff in H as [H H3].
    apply andb_true_iff in H as [H1 H2]. repeat split; try assumption.
    destruct (mb_weight m) as [[[w1 w2] qv]|]; [|exact I].
    apply andb_true_iff in H4 as [H4 H6]. apply andb_true_iff in H4 as [H4 H5]. auto.
  Qed.
  Lemma name_ok_parts s :
    name_ok s = true -> s <> [] /\ forallb sep_free s = true /\ exists c, In c s /\ numberish c = false.
  Proof.
    unfold name_ok. intros H. apply andb_true_iff in H as [H H3]. apply andb_true_iff in H as [H1 H2].
    split; [|split; [assumption|]].
    - intros ->. discriminate.
    - apply existsb_exists in H3 as [c [Hin Hc]]. exists c. split; [assumption|]. apply negb_true_iff. assumption.
  Qed.

  Lemma loop_member_plain header p m st pq out :
    member_ok m = true -> mb_weight m = None ->
    loop header (member_text m) p (mkLh st 0 false pq 0 out) = mkLh st 0 false pq 0 out.
  Proof.
    intros Hok Hw. apply member_ok_parts in Hok as [H1 [H2 [H3 _]]]. apply name_ok_parts in H2 as [_ [H2 _]].
    apply loop_outside; [reflexivity|]. unfold member_text. rewrite Hw. cbn [weight_text app].
    rewrite !forallb_app. rewrite (forallb_impl _ _ _ ows_not_sep H1), (forallb_impl _ _ _ sep_free_not_sep H2),
      (forallb_impl _ _ _ ows_not_sep H3). reflexivity.
  Qed.

  Lemma loop_member_weight header p m st pq out w1 w2 qv :
    member_ok m = true -> mb_weight m = Some (w1, w2, qv) ->
    exists pq',
      loop header (member_text m) p (mkLh st 0 false pq 0 out) =
      mkLh st (semi_pos p m w1) true pq' (S (semi_pos p m w1 + length w2 + 2)) out.
  Proof.
    intros Hok Hw. apply member_ok_parts in Hok as [H1 [H2 [H3 H4]]]. rewrite Hw in H4. destruct H4 as [H4 [H5 H6]].
    apply name_ok_parts in H2 as [_ [H2 _]].
    assert (Et : member_text m = (mb_pre m ++ mb_name m ++ w1) ++ c_semi :: (w2 ++ c_q :: c_eq :: (qv ++ mb_post m))).
    { unfold member_text. rewrite Hw. cbn [weight_text]. rewrite <- !app_assoc. cbn [app]. reflexivity. }
    rewrite Et. rewrite loop_app.
    rewrite (loop_outside header (mb_pre m ++ mb_name m ++ w1) p (mkLh st 0 false pq 0 out)); [|reflexivity|].
    2:{ rewrite !forallb_app. rewrite (forallb_impl _ _ _ ows_not_sep H1), (forallb_impl _ _ _ sep_free_not_sep H2),
          (forallb_impl _ _ _ ows_not_sep H4). reflexivity. }
    cbn [lh_loop]. rewrite step_semi. rewrite loop_app. rewrite loop_ows_inq by assumption.
    cbn [lh_loop]. rewrite step_q, step_eq.
    match goal with |- context [loop header (qv ++ mb_post m) ?pos (mkLh st ?e true false (S ?q) out)] =>
      destruct (loop_qv header (qv ++ mb_post m) pos st e false q out) as [pq' Hq] end.
    { rewrite forallb_app. unfold qv_ok in H6. rewrite (forallb_impl _ _ _ qv_not_qsep H6), (forallb_impl _ _ _ ows_not_qsep H3). reflexivity. }
    exists pq'. rewrite Hq. unfold semi_pos. rewrite !app_length. f_equal; lia.
  Qed.

  (** ** the block at ',' / end of input on a member *)
  Hypothesis parse_q_numberish : forall s c, parse_q s <> None -> In c s -> numberish c = true.

  Lemma emit_plain header pre_text m rest st out :
    header = pre_text ++ member_text m ++ rest -> member_ok m = true -> mb_weight m = None ->
    (length pre_text <= st <= length pre_text + length (mb_pre m))%nat ->
    emit header st 0 0 (length pre_text + length (member_text m))%nat out = out ++ [member_ref parse_q m].
  Proof.
    intros Hh Hok Hw Hst. apply member_ok_parts in Hok as [H1 [H2 [H3 _]]].
    apply name_ok_parts in H2 as [Hne [H2 [c [Hin Hc]]]].
    assert (Et : member_text m = mb_pre m ++ mb_name m ++ mb_post m).
    { unfold member_text. rewrite Hw. reflexivity. }
    unfold lh_emit, member_ref. rewrite Hw. cbn [Nat.eqb].
    rewrite (slice_get_mid pre_text (member_text m) rest (st - length pre_text) st _ header Hh) by (rewrite ?Et, ?app_length; lia).
    rewrite (slice_get_mid [] (pre_text ++ member_text m) rest 0 0 _ header)
      by (rewrite <- ?app_assoc; cbn [app length]; rewrite ?app_length; auto; lia).
    cbn [skipn]. unfold quality_of, ows_view.
    replace (skipn (st - length pre_text) (member_text m))
      with (skipn (st - length pre_text) (mb_pre m) ++ mb_name m ++ mb_post m).
    2:{ rewrite Et, skipn_app. replace (st - length pre_text - length (mb_pre m))%nat with O by lia. reflexivity. }
    rewrite trim_ows_sandwich; [| apply forallb_skipn; assumption | assumption | exact (forallb_impl _ _ _ sep_free_not_ows H2)].
    destruct (parse_q (trim_ows (pre_text ++ member_text m))) as [q|] eqn:Hp; [|reflexivity].
    exfalso. assert (Hn : numberish c = true).
    { apply (parse_q_numberish (trim_ows (pre_text ++ member_text m))); [congruence|].
      apply In_trim_ows.
      - rewrite Et. apply in_or_app. right. apply in_or_app. right. apply in_or_app. left. assumption.
      - rewrite forallb_forall in H2. specialize (H2 _ Hin). apply sep_free_not_ows in H2. apply negb_true_iff in H2. assumption. }
    congruence.
  Qed.

  Lemma emit_weight header pre_text m rest st out w1 w2 qv :
    header = pre_text ++ member_text m ++ rest -> member_ok m = true -> mb_weight m = Some (w1, w2, qv) ->
    (length pre_text <= st <= length pre_text + length (mb_pre m))%nat ->
    emit header st (semi_pos (length pre_text) m w1) (S (semi_pos (length pre_text) m w1 + length w2 + 2))
         (length pre_text + length (member_text m))%nat out = out ++ [member_ref parse_q m].
  Proof.
    intros Hh Hok Hw Hst. apply member_ok_parts in Hok as [H1 [H2 [H3 H4]]]. rewrite Hw in H4. destruct H4 as [H4 [H5 H6]].
    apply name_ok_parts in H2 as [Hne [H2 _]].
    assert (Hlen : (1 <= length (mb_name m))%nat) by (destruct (mb_name m); [congruence|cbn [length]; lia]).
    assert (Et1 : member_text m = (mb_pre m ++ mb_name m ++ w1) ++ (c_semi :: w2 ++ c_q :: c_eq :: qv ++ mb_post m)).
    { unfold member_text. rewrite Hw. cbn [weight_text]. rewrite <- !app_assoc. cbn [app]. reflexivity. }
    assert (Et2 : pre_text ++ member_text m ++ rest =
                  (pre_text ++ mb_pre m ++ mb_name m ++ w1 ++ c_semi :: w2 ++ [c_q; c_eq]) ++ (qv ++ mb_post m) ++ rest).
    { unfold member_text. rewrite Hw. cbn [weight_text]. rewrite <- !app_assoc. cbn [app]. rewrite <- !app_assoc. cbn [app]. reflexivity. }
    unfold lh_emit, member_ref. rewrite Hw.
    replace (Nat.eqb (semi_pos (length pre_text) m w1) 0) with false by (symmetry; apply Nat.eqb_neq; unfold semi_pos; lia).
    rewrite (slice_get_mid pre_text (mb_pre m ++ mb_name m ++ w1) ((c_semi :: w2 ++ c_q :: c_eq :: qv ++ mb_post m) ++ rest)
                           (st - length pre_text) st _ header).
    2:{ rewrite Hh, Et1, <- !app_assoc. reflexivity. }
    2:{ lia. }
    2:{ unfold semi_pos. rewrite !app_length. lia. }
    2:{ rewrite !app_length. lia. }
    rewrite (slice_get_mid _ (qv ++ mb_post m) rest 0 _ _ header (eq_trans Hh Et2)).
    2:{ unfold semi_pos. lens. lia. }
    2:{ unfold member_text, semi_pos. rewrite Hw. cbn [weight_text]. lens. lia. }
    2:{ lia. }
    cbn [skipn]. unfold quality_of, ows_view.
    rewrite skipn_app. replace (st - length pre_text - length (mb_pre m))%nat with O by lia. cbn [skipn].
    rewrite trim_ows_sandwich; [| apply forallb_skipn; assumption | assumption | exact (forallb_impl _ _ _ sep_free_not_ows H2)].
    change (qv ++ mb_post m) with ([] ++ qv ++ mb_post m).
    rewrite trim_ows_sandwich; [reflexivity | reflexivity | assumption | exact (forallb_impl _ _ _ qv_not_ows H6)].
  Qed.
End LH.

(* ------------------------------------------------------------------------------------ *)
(** * the whole list *)
Section WF.
  Variable parse_q : bytes -> option qclass.
  Hypothesis parse_q_numberish : forall s c, parse_q s <> None -> In c s -> numberish c = true.
  Notation loop := (lh_loop parse_q true).
  Notation emit := (lh_emit parse_q true).

  Definition no_member : member := mkMember [] [] None [].

  Lemma members_text_cons m m' r : members_text (m :: m' :: r) = member_text m ++ c_comma :: members_text (m' :: r).
  Proof. reflexivity. Qed.

  Lemma next_start_bounds header pre' m' rest pc :
    header = pre' ++ member_text m' ++ rest -> length pre' = S pc -> member_ok m' = true ->
    (S pc <= next_start header pc <= S pc + length (mb_pre m'))%nat.
  Proof.
    intros Hh Hl Hok. unfold next_start. rewrite Hh, nth_error_app2 by lia. replace (S pc - length pre')%nat with O by lia.
    apply member_ok_parts in Hok as [H1 [H2 _]]. apply name_ok_parts in H2 as [Hne [H2 _]].
    unfold member_text. destruct (mb_pre m') as [|d pre] eqn:Hp.
    - destruct (mb_name m') as [|c nm] eqn:Hn; [congruence|]. cbn [app nth_error].
      cbn [forallb] in H2. apply andb_true_iff in H2 as [H2 _]. apply sep_free_not_ows in H2.
      unfold is_ows in H2. apply negb_true_iff, orb_false_iff in H2 as [H2 _]. rewrite H2. cbn [length]. lia.
    - cbn [app nth_error length]. destruct (d =? 32); lia.
  Qed.

  Lemma members_text_head m' r : exists rest, members_text (m' :: r) = member_text m' ++ rest.
  Proof.
    destruct r as [|m'' r]; [exists []; cbn [members_text]; rewrite app_nil_r; reflexivity|].
    eexists. rewrite members_text_cons. reflexivity.
  Qed.

  Lemma loop_members : forall ms header pre_text st pq out,
    ms <> [] -> forallb member_ok ms = true ->
    header = pre_text ++ members_text ms ->
    (length pre_text <= st <= length pre_text + length (mb_pre (hd no_member ms)))%nat ->
    emit header
         (lh_start (loop header (members_text ms) (length pre_text) (mkLh st 0 false pq 0 out)))
         (lh_end (loop header (members_text ms) (length pre_text) (mkLh st 0 false pq 0 out)))
         (lh_qstart (loop header (members_text ms) (length pre_text) (mkLh st 0 false pq 0 out)))
         (length header)
         (lh_out (loop header (members_text ms) (length pre_text) (mkLh st 0 false pq 0 out)))
    = out ++ map (member_ref parse_q) ms.
  Proof.
    induction ms as [|m ms IH]; intros header pre_text st pq out Hne Hoks Hh Hst; [congruence|].
    cbn [forallb] in Hoks. apply andb_true_iff in Hoks as [Hok Hoks]. cbn [hd] in Hst.
    destruct ms as [|m' r].
    - (* last member: the block after the loop *)
      cbn [members_text] in *. cbn [map].
      assert (Hh' : header = pre_text ++ member_text m ++ []) by (rewrite app_nil_r; assumption).
      assert (Hlen : length header = (length pre_text + length (member_text m))%nat) by (rewrite Hh, app_length; reflexivity).
      rewrite Hlen. destruct (mb_weight m) as [[[w1 w2] qv]|] eqn:Hw.
      + destruct (loop_member_weight parse_q header (length pre_text) m st pq out w1 w2 qv Hok Hw) as [pq' E].
        rewrite E. cbn [lh_start lh_end lh_qstart lh_out]. eapply emit_weight; eassumption.
      + rewrite (loop_member_plain parse_q header (length pre_text) m st pq out Hok Hw).
        cbn [lh_start lh_end lh_qstart lh_out]. eapply emit_plain; eassumption.
    - (* a member followed by ',' *)
      rewrite members_text_cons in *. rewrite loop_app. cbn [map].
      set (pre' := pre_text ++ member_text m ++ [c_comma]).
      assert (Hh' : header = pre' ++ members_text (m' :: r)).
      { unfold pre'. rewrite Hh, <- !app_assoc. reflexivity. }
      assert (Hl' : length pre' = S (length pre_text + length (member_text m))) by (unfold pre'; lens; lia).
      assert (Hok' : member_ok m' = true) by (cbn [forallb] in Hoks; apply andb_true_iff in Hoks as [H _]; exact H).
      destruct (members_text_head m' r) as [rest' Hrest'].
      assert (Hb : (length pre' <= next_start header (length pre_text + length (member_text m))
                    <= length pre' + length (mb_pre m'))%nat).
      { rewrite Hl'. eapply next_start_bounds; [|exact Hl'|exact Hok']. rewrite Hh', Hrest'. reflexivity. }
      destruct (mb_weight m) as [[[w1 w2] qv]|] eqn:Hw.
      + destruct (loop_member_weight parse_q header (length pre_text) m st pq out w1 w2 qv Hok Hw) as [pq' E].
        rewrite E. cbn [lh_loop]. rewrite step_comma_weight.
        rewrite (emit_weight parse_q parse_q_numberish header pre_text m (c_comma :: members_text (m' :: r)) st out w1 w2 qv Hh Hok Hw Hst).
        rewrite <- Hl'.
        rewrite (IH header pre' _ false (out ++ [member_ref parse_q m]) ltac:(discriminate) Hoks Hh' Hb).
        rewrite <- app_assoc. reflexivity.
      + rewrite (loop_member_plain parse_q header (length pre_text) m st pq out Hok Hw).
        cbn [lh_loop]. rewrite step_comma_plain.
        rewrite (emit_plain parse_q parse_q_numberish header pre_text m (c_comma :: members_text (m' :: r)) st out Hh Hok Hw Hst).
        rewrite <- Hl'.
        rewrite (IH header pre' _ pq (out ++ [member_ref parse_q m]) ltac:(discriminate) Hoks Hh' Hb).
        rewrite <- app_assoc. reflexivity.
  Qed.

  Theorem list_header_wf_l ms :
    ms <> [] -> forallb member_ok ms = true ->
    list_header_gen parse_q true (members_text ms) = map (member_ref parse_q) ms.
  Proof.
    intros Hne Hok. unfold list_header_gen. cbv zeta.
    pose proof (loop_members ms (members_text ms) [] 0%nat false [] Hne Hok eq_refl) as H.
    cbn [length app] in H. apply H. lia.
  Qed.
End WF.

(** ** totality and shape, for every byte string *)
Lemma lh_emit_length parse_q fo header st e qs p out :
  (length (lh_emit parse_q fo header st e qs p out) <= S (length out))%nat.
Proof. unfold lh_emit. destruct (slice_get st _ header); rewrite ?app_length; cbn [length]; lia. Qed.

Lemma lh_step_out parse_q fo header p c s :
  (length (lh_out (lh_step parse_q fo header p c s)) <= length (lh_out s) + (if (c =? c_comma)%N then 1 else 0))%nat.
Proof.
  unfold lh_step. destruct (c =? 32) eqn:H32.
  - destruct (c =? c_comma); lia.
  - destruct (c =? c_comma); cbn [lh_out]; [|lia].
    match goal with |- context [lh_emit ?a ?b ?c ?d ?e ?f ?g ?h] => pose proof (lh_emit_length a b c d e f g h) end. lia.
Qed.

Definition commas (s : bytes) : nat := length (filter (fun c => c =? c_comma) s).

Lemma lh_loop_out parse_q fo header rest : forall p s,
  (length (lh_out (lh_loop parse_q fo header rest p s)) <= length (lh_out s) + commas rest)%nat.
Proof.
  induction rest as [|c r IH]; intros p s; cbn [lh_loop]; [unfold commas; cbn; lia|].
  specialize (IH (S p) (lh_step parse_q fo header p c s)). pose proof (lh_step_out parse_q fo header p c s) as Hs.
  unfold commas in *. cbn [filter]. destruct (c =? c_comma); cbn [length]; lia.
Qed.

(** [Vec::with_capacity(elements)] is never exceeded: at most one value per ',' plus one *)
Theorem list_header_length_l parse_q fo header :
  (length (list_header_gen parse_q fo header) <= S (commas header))%nat.
Proof.
  unfold list_header_gen. cbv zeta.
  match goal with |- context [lh_emit ?a ?b ?c ?d ?e ?f ?g ?h] => pose proof (lh_emit_length a b c d e f g h) end.
  pose proof (lh_loop_out parse_q fo header header 0%nat lh_init). cbn [lh_init lh_out length] in *. lia.
Qed.

(** ** the stand-in for [f32::from_str] satisfies the hypothesis of [list_header_wf] *)
Lemma parse_q_dec_numberish s c : parse_q_dec s <> None -> In c s -> numberish c = true.
Proof.
  unfold parse_q_dec. destruct (forallb numberish s) eqn:Hs; [|congruence].
  intros _ Hin. rewrite forallb_forall in Hs. apply Hs. assumption.
Qed.

(** ** every value is a piece of the header (safety form for arbitrary text) *)
Lemma substr_refl s : substr s s.
Proof. exists [], []. rewrite app_nil_r. reflexivity. Qed.
Lemma substr_trans a b c : substr a b -> substr b c -> substr a c.
Proof.
  intros [p [q ->]] [p' [q' ->]]. exists (p' ++ p), (q ++ q'). rewrite <- !app_assoc. reflexivity.
Qed.
Lemma trim_start_suffix s : exists p, s = p ++ trim_start s.
Proof.
  induction s as [|c s [p IH]]; [exists []; reflexivity|]. cbn [trim_start].
  destruct (is_ows c); [exists (c :: p); cbn [app]; congruence|exists []; reflexivity].
Qed.
Lemma trim_end_prefix s : exists q, s = trim_end s ++ q.
Proof.
  unfold trim_end. destruct (trim_start_suffix (rev s)) as [p Hp]. exists (rev p).
  rewrite <- rev_app_distr, <- Hp, rev_involutive. reflexivity.
Qed.
Lemma trim_ows_substr s : substr (trim_ows s) s.
Proof.
  unfold trim_ows. destruct (trim_start_suffix s) as [p Hp]. destruct (trim_end_prefix (trim_start s)) as [q Hq].
  exists p, q. rewrite <- Hq. assumption.
Qed.
Lemma slice_substr lo hi h : substr (slice lo hi h) h.
Proof.
  unfold slice. exists (firstn lo h), (skipn (hi - lo) (skipn lo h)). rewrite firstn_skipn, firstn_skipn. reflexivity.
Qed.
Lemma slice_get_substr lo hi h x : slice_get lo hi h = Some x -> substr x h.
Proof.
  unfold slice_get. destruct (_ && _)%bool; [|discriminate]. intros H. inversion H; subst. apply slice_substr.
Qed.

Section Substr.
  Variable parse_q : bytes -> option qclass.
  Variable fo : bool.
  Notation vals_in h := (Forall (fun v : bytes * qclass => substr (fst v) h)).

  Lemma emit_substr header st e qs p out : vals_in header out -> vals_in header (lh_emit parse_q fo header st e qs p out).
  Proof.
    intros H. unfold lh_emit. destruct (slice_get st _ header) as [x|] eqn:Hs; [|assumption].
    apply Forall_app. split; [assumption|]. constructor; [|constructor]. cbn [fst].
    apply slice_get_substr in Hs. unfold ows_view. destruct fo; [|assumption].
    eapply substr_trans; [apply trim_ows_substr|assumption].
  Qed.
  Lemma step_substr header p c s : vals_in header (lh_out s) -> vals_in header (lh_out (lh_step parse_q fo header p c s)).
  Proof.
    intros H. unfold lh_step. destruct (c =? 32); [assumption|]. destruct (c =? c_comma); cbn [lh_out]; [|assumption].
    apply emit_substr. assumption.
  Qed.
  Lemma loop_substr header rest : forall p s,
    vals_in header (lh_out s) -> vals_in header (lh_out (lh_loop parse_q fo header rest p s)).
  Proof.
    induction rest as [|c r IH]; intros p s H; cbn [lh_loop]; [assumption|]. apply IH, step_substr, H.
  Qed.
  Theorem list_header_values_substr_l header : vals_in header (list_header_gen parse_q fo header).
  Proof.
    unfold list_header_gen. cbv zeta. apply emit_substr, loop_substr. constructor.
  Qed.
End Substr.
