(** Byte strings as [list N] and the std-library string operations that kvarn
    uses on them.  Bytes are unrestricted [N]: theorems hold for a superset of
    real byte strings. *)
From Coq Require Export List NArith ZArith Bool Lia Ascii String.
From KV Require Export Xval.
Export ListNotations.
Open Scope N_scope.
Open Scope bool_scope.

Fixpoint bytes_of_string (s : string) : bytes :=
  match s with
  | EmptyString => []
  | String c r => N_of_ascii c :: bytes_of_string r
  end.
Definition B (s : string) : bytes := bytes_of_string s.
Arguments B s%string.

Fixpoint beq (a c : bytes) : bool :=
  match a, c with
  | [], [] => true
  | x :: a', y :: c' => N.eqb x y && beq a' c'
  | _, _ => false
  end.

Lemma beq_eq a c : beq a c = true <-> a = c.
Proof.
  revert c; induction a as [|x a IH]; intros [|y c]; cbn [beq]; split; intros H;
    try reflexivity; try discriminate.
  - apply andb_true_iff in H as [H1 H2]. apply N.eqb_eq in H1. apply IH in H2. congruence.
  - inversion H; subst. rewrite N.eqb_refl. cbn. apply IH. reflexivity.
Qed.

Lemma beq_refl a : beq a a = true.
Proof. apply beq_eq. reflexivity. Qed.

Fixpoint starts_with (p s : bytes) : bool :=
  match p, s with
  | [], _ => true
  | x :: p', y :: s' => N.eqb x y && starts_with p' s'
  | _ :: _, [] => false
  end.

Lemma starts_with_app p s : starts_with p s = true <-> exists r, s = p ++ r.
Proof.
  revert s; induction p as [|x p IH]; intros s; cbn [starts_with].
  - split; [intros _; exists s; reflexivity | reflexivity].
  - destruct s as [|y s]; [split; [discriminate | intros [r Hr]; discriminate]|].
    split.
    + intros H. apply andb_true_iff in H as [H1 H2]. apply N.eqb_eq in H1.
      apply IH in H2 as [r ->]. exists r. subst. reflexivity.
    + intros [r Hr]. cbn in Hr. inversion Hr; subst. rewrite N.eqb_refl. cbn.
      apply IH. exists r. reflexivity.
Qed.

(** [str::find(char)] / position of the first occurrence of a byte. *)
Fixpoint find_byte (c : N) (s : bytes) : option nat :=
  match s with
  | [] => None
  | x :: r => if N.eqb x c then Some O else option_map S (find_byte c r)
  end.

Fixpoint mem_byte (c : N) (s : bytes) : bool :=
  match s with
  | [] => false
  | x :: r => N.eqb x c || mem_byte c r
  end.

(** [str::contains(&str)] / first occurrence of a sub-string. *)
Fixpoint find_sub (p s : bytes) : option nat :=
  if starts_with p s then Some O else
  match s with
  | [] => None
  | _ :: r => option_map S (find_sub p r)
  end.
Definition contains_sub (p s : bytes) : bool :=
  match find_sub p s with Some _ => true | None => false end.

(** [&s[lo..hi]] on bytes; [None] when out of range (the Rust [get] form);
    the indexing form panics instead. *)
Definition slice (lo hi : nat) (s : bytes) : bytes := firstn (hi - lo) (skipn lo s).
Definition slice_get (lo hi : nat) (s : bytes) : option bytes :=
  if (Nat.leb lo hi && Nat.leb hi (length s))%bool then Some (slice lo hi s) else None.
Definition slice_chk (lo hi : nat) (s : bytes) : outcome bytes :=
  match slice_get lo hi s with Some r => Ok r | None => Panic end.

Lemma slice_length lo hi s : (lo <= hi)%nat -> (hi <= length s)%nat -> length (slice lo hi s) = (hi - lo)%nat.
Proof. intros H1 H2. unfold slice. rewrite firstn_length, skipn_length. lia. Qed.

Definition is_digit (c : N) : bool := (48 <=? c) && (c <=? 57).
Definition is_space (c : N) : bool := N.eqb c 32.
Definition to_lower (c : N) : N := if (65 <=? c) && (c <=? 90) then c + 32 else c.
Definition lower (s : bytes) : bytes := map to_lower s.

(** Lexicographic comparison as [Ord for [u8]] / [str]. *)
Fixpoint bcmp (a c : bytes) : comparison :=
  match a, c with
  | [], [] => Eq
  | [], _ :: _ => Lt
  | _ :: _, [] => Gt
  | x :: a', y :: c' => match N.compare x y with Eq => bcmp a' c' | o => o end
  end.

(** Decimal rendering ([u64::to_string], [usize::to_string]). *)
Fixpoint dec_fuel (fuel : nat) (n : N) (acc : bytes) : bytes :=
  match fuel with
  | O => acc
  | S f =>
      let d := 48 + n mod 10 in
      let q := n / 10 in
      if N.eqb q 0 then d :: acc else dec_fuel f q (d :: acc)
  end.
Definition dec (n : N) : bytes := dec_fuel (S (N.to_nat (N.log2 n))) n [].
