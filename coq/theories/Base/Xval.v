(** Interchange type shared by the Coq models, the OCaml driver, the Rust harness
    and the Python differ (DESIGN.md 2.2).  Text form: (N 42) (B 2f2e) (L ...). *)
From Coq Require Export List NArith ZArith Bool Lia.
Export ListNotations.
Open Scope N_scope.
Open Scope bool_scope.

Definition bytes := list N.

Inductive xval : Type :=
| XN (n : N)
| XB (bs : bytes)
| XL (l : list xval).

(** Failure-aware results: every partial Rust operation is explicit. *)
Inductive outcome (A : Type) : Type :=
| Ok (a : A)
| Err (e : N)
| Panic.
Arguments Ok {A} a.
Arguments Err {A} e.
Arguments Panic {A}.

Definition obind {A B} (o : outcome A) (f : A -> outcome B) : outcome B :=
  match o with Ok a => f a | Err e => Err e | Panic => Panic end.

Definition x_outcome {A} (enc : A -> xval) (o : outcome A) : xval :=
  match o with
  | Ok a => XL [XN 0; enc a]
  | Err e => XL [XN 1; XN e]
  | Panic => XL [XN 2]
  end.

Definition x_bool (b : bool) : xval := XN (if b then 1 else 0).
Definition x_option {A} (enc : A -> xval) (o : option A) : xval :=
  match o with Some a => XL [enc a] | None => XL [] end.
Definition x_list {A} (enc : A -> xval) (l : list A) : xval := XL (map enc l).
Definition x_pair {A B} (ea : A -> xval) (eb : B -> xval) (p : A * B) : xval :=
  XL [ea (fst p); eb (snd p)].
Definition x_nat (n : nat) : xval := XN (N.of_nat n).
Definition x_Z (z : Z) : xval :=
  match z with
  | Z0 => XL [XN 0; XN 0]
  | Zpos p => XL [XN 0; XN (Npos p)]
  | Zneg p => XL [XN 1; XN (Npos p)]
  end.

(** Decoders are total; a malformed case decodes to a default and the
    dispatcher answers [bad_input] so that the differ notices. *)
Definition bad_input : xval := XL [XN 99].

Definition d_N (x : xval) : option N := match x with XN n => Some n | _ => None end.
Definition d_B (x : xval) : option bytes := match x with XB b => Some b | _ => None end.
Definition d_L (x : xval) : option (list xval) := match x with XL l => Some l | _ => None end.
Definition d_bool (x : xval) : option bool :=
  match x with XN 0 => Some false | XN 1 => Some true | _ => None end.
Definition d_nat (x : xval) : option nat := option_map N.to_nat (d_N x).
Definition d_Z (x : xval) : option Z :=
  match x with
  | XL [XN 0; XN n] => Some (Z.of_N n)
  | XL [XN 1; XN n] => Some (- Z.of_N n)%Z
  | _ => None
  end.

Fixpoint d_all {A} (d : xval -> option A) (l : list xval) : option (list A) :=
  match l with
  | [] => Some []
  | x :: r =>
      match d x, d_all d r with
      | Some a, Some r' => Some (a :: r')
      | _, _ => None
      end
  end.
Definition d_list {A} (d : xval -> option A) (x : xval) : option (list A) :=
  match x with XL l => d_all d l | _ => None end.
Definition d_option {A} (d : xval -> option A) (x : xval) : option (option A) :=
  match x with
  | XL [] => Some None
  | XL [y] => option_map Some (d y)
  | _ => None
  end.
