(** Rust integer syntax and fixed-width arithmetic, where a property is about it. *)
From KV Require Export Bytes.
Open Scope N_scope.

Definition u64_max : N := 18446744073709551615.
Definition u32_max : N := 4294967295.

(** [<uN as FromStr>::from_str]: optional leading '+', at least one digit, only
    ASCII digits, value at most [max].  (A leading '-' is an invalid digit for
    unsigned types; a lone sign is an error.) *)
Fixpoint parse_digits (max : N) (acc : N) (s : bytes) : option N :=
  match s with
  | [] => Some acc
  | c :: r =>
      if is_digit c then
        let acc' := acc * 10 + (c - 48) in
        if acc' <=? max then parse_digits max acc' r else None
      else None
  end.
Definition parse_uint (max : N) (s : bytes) : option N :=
  match s with
  | [] => None
  | c :: r =>
      let digits := if N.eqb c 43 then r else s in
      match digits with
      | [] => None
      | _ => parse_digits max 0 digits
      end
  end.
Definition parse_u64 := parse_uint u64_max.
Definition parse_u32 := parse_uint u32_max.

Definition add_u64 (checked : bool) (a c : N) : outcome N :=
  if a + c <=? u64_max then Ok (a + c) else if checked then Panic else Ok ((a + c) mod (u64_max + 1)).
Definition sub_u64 (checked : bool) (a c : N) : outcome N :=
  if c <=? a then Ok (a - c) else if checked then Panic else Ok ((a + (u64_max + 1) - c) mod (u64_max + 1)).
Definition sat_add_u64 (a c : N) : N := N.min (a + c) u64_max.

Lemma parse_digits_le max acc s n : parse_digits max acc s = Some n -> acc <= max -> n <= max.
Proof.
  revert acc; induction s as [|c r IH]; intros acc H Hacc; cbn [parse_digits] in H.
  - inversion H; subst; assumption.
  - destruct (is_digit c); [|discriminate].
    destruct (N.leb_spec (acc * 10 + (c - 48)) max) as [Hle|]; [|discriminate].
    eapply IH; eassumption.
Qed.

Lemma parse_uint_le max s n : parse_uint max s = Some n -> n <= max.
Proof.
  unfold parse_uint. destruct s as [|c r]; [discriminate|].
  destruct (if N.eqb c 43 then r else c :: r) eqn:E; [discriminate|].
  intros H. eapply parse_digits_le; [eassumption|]. apply N.le_0_l.
Qed.
