(** C19 — model of the control socket: the request handler given to
    [kvarn_signal::unix::start_at] by [ctl::listen] (src/ctl.rs l.621-682), the built-in plugins
    [ping], [shutdown] and [clear] (src/ctl.rs), and the accept loop of
    [kvarn_signal::unix::start_at] (signal/src/lib.rs) reduced to what a client can observe:
    one request = all bytes the client wrote before shutting down its write side, one reply =
    all bytes the server wrote before dropping the connection, listener [Listening | Closed].
    Definitions only; proofs live in Proofs/CtlProofs.v. *)
From KV Require Export Bytes Quoted.
Open Scope N_scope.

(** ---- UTF-8 ([core::str::from_utf8] and [String] -> [Vec<u8>]) ---------------------------------- *)

Definition is_cont (b : N) : bool := (128 <=? b) && (b <=? 191).
(** second byte of a 3-byte sequence: no overlong forms (E0), no surrogates (ED) *)
Definition second3_ok (b0 b1 : N) : bool :=
  if b0 =? 224 then (160 <=? b1) && (b1 <=? 191)
  else if b0 =? 237 then (128 <=? b1) && (b1 <=? 159)
  else is_cont b1.
(** second byte of a 4-byte sequence: no overlong forms (F0), nothing above U+10FFFF (F4) *)
Definition second4_ok (b0 b1 : N) : bool :=
  if b0 =? 240 then (144 <=? b1) && (b1 <=? 191)
  else if b0 =? 244 then (128 <=? b1) && (b1 <=? 143)
  else is_cont b1.

(** [str::from_utf8(data)] followed by [.chars()]: [None] for invalid UTF-8. *)
Fixpoint utf8_decode (s : bytes) : option str :=
  match s with
  | [] => Some []
  | b0 :: r0 =>
      if b0 <? 128 then option_map (cons b0) (utf8_decode r0)
      else if (194 <=? b0) && (b0 <=? 223) then
        match r0 with
        | b1 :: r1 =>
            if is_cont b1 then option_map (cons ((b0 - 192) * 64 + (b1 - 128))) (utf8_decode r1) else None
        | _ => None
        end
      else if (224 <=? b0) && (b0 <=? 239) then
        match r0 with
        | b1 :: b2 :: r2 =>
            if second3_ok b0 b1 && is_cont b2
            then option_map (cons ((b0 - 224) * 4096 + (b1 - 128) * 64 + (b2 - 128))) (utf8_decode r2)
            else None
        | _ => None
        end
      else if (240 <=? b0) && (b0 <=? 244) then
        match r0 with
        | b1 :: b2 :: b3 :: r3 =>
            if second4_ok b0 b1 && is_cont b2 && is_cont b3
            then option_map (cons ((b0 - 240) * 262144 + (b1 - 128) * 4096 + (b2 - 128) * 64 + (b3 - 128)))
                            (utf8_decode r3)
            else None
        | _ => None
        end
      else None
  end.

Definition utf8_encode_char (c : N) : bytes :=
  if c <? 128 then [c]
  else if c <? 2048 then [192 + c / 64; 128 + c mod 64]
  else if c <? 65536 then [224 + c / 4096; 128 + (c / 64) mod 64; 128 + c mod 64]
  else [240 + c / 262144; 128 + (c / 4096) mod 64; 128 + (c / 64) mod 64; 128 + c mod 64].
Definition utf8_encode (s : str) : bytes := flat_map utf8_encode_char s.

(** Rust's [char]: a Unicode scalar value. *)
Definition is_scalar (c : N) : bool := (c <? 55296) || ((57344 <=? c) && (c <=? 1114111)).

(** ---- plugin responses and reply framing --------------------------------------------------------- *)

Inductive response_kind :=
| KOk (data : option bytes)
| KError (data : option bytes).
Record plugin_response := { pr_kind : response_kind; pr_close : bool }.

Definition pr_ok (d : bytes) := {| pr_kind := KOk (Some d); pr_close := false |}.
Definition pr_ok_empty := {| pr_kind := KOk None; pr_close := false |}.
Definition pr_error (d : bytes) := {| pr_kind := KError (Some d); pr_close := false |}.
Definition pr_error_empty := {| pr_kind := KError None; pr_close := false |}.
Definition pr_closing (r : plugin_response) := {| pr_kind := pr_kind r; pr_close := true |}.

Record handler_response := { hr_data : bytes; hr_close : bool }.

(** [let mut data = data.unwrap_or_default();
     let len = prepend.len() + usize::from(!data.is_empty());
     (0..len).for_each(|_| data.insert(0, b' '));
     data[..prepend.len()].copy_from_slice(prepend.as_bytes());] *)
Definition frame (prepend : bytes) (data : option bytes) : bytes :=
  let data := match data with Some d => d | None => [] end in
  let len := (length prepend + (if is_empty data then 0 else 1))%nat in
  let data := repeat c_space len ++ data in
  prepend ++ skipn (length prepend) data.

Definition msg_binary : bytes := B "error Received binary content. Requests have to be UTF-8.".
Definition msg_not_found : bytes := B "error 'Command not found.'".

Section Handler.
  (** Whatever the plugins can see and change besides their arguments (shutdown manager, caches,
      counters of user plugins, ...). *)
  Variable S : Type.

  (** A plugin: arguments and state in, response and state out. *)
  Definition plugin := list str -> S -> plugin_response * S.
  (** [HashMap<String, Plugin>] as an association list; [add_plugin] of an existing name
      replaces it, which is a new first entry here. *)
  Definition plugins := list (str * plugin).

  Fixpoint lookup_plugin (name : str) (ps : plugins) : option plugin :=
    match ps with
    | [] => None
    | (k, p) :: r => if beq k name then Some p else lookup_plugin name r
    end.

  (** [iter.next().unwrap_or_default()] and [iter.collect()] *)
  Definition request_name (toks : list str) : str := match toks with [] => [] | n :: _ => n end.
  Definition request_args (toks : list str) : list str := tl toks.

  (** The closure passed to [start_at]. *)
  Definition handle (ps : plugins) (req : bytes) (s : S) : handler_response * S :=
    match utf8_decode req with
    | None => ({| hr_data := msg_binary; hr_close := false |}, s)
    | Some data =>
        let toks := quoted_str_split data in
        match lookup_plugin (request_name toks) ps with
        | Some p =>
            let (response, s') := p (request_args toks) s in
            let (data, prepend) :=
              match pr_kind response with
              | KError data => (data, B "error")
              | KOk data => (data, B "ok")
              end in
            ({| hr_data := frame prepend data; hr_close := pr_close response |}, s')
        | None => ({| hr_data := msg_not_found; hr_close := false |}, s)
        end
    end.

  (** The accept loop: while listening every connection is read to its end, handled and answered;
      [close] makes the loop [break 'outer], after which nobody accepts. *)
  Inductive listener := Listening | Closed.
  Inductive reply := Data (b : bytes) | NoAnswer.

  Definition serve (ps : plugins) (ls : listener * S) (req : bytes) : (listener * S) * reply :=
    match ls with
    | (Closed, s) => ((Closed, s), NoAnswer)
    | (Listening, s) =>
        let (hr, s') := handle ps req s in
        ((if hr_close hr then Closed else Listening, s'), Data (hr_data hr))
    end.

  Fixpoint run (ps : plugins) (ls : listener * S) (reqs : list bytes) : (listener * S) * list reply :=
    match reqs with
    | [] => (ls, [])
    | req :: r =>
        let (ls', rep) := serve ps ls req in
        let (ls'', reps) := run ps ls' r in
        (ls'', rep :: reps)
    end.

  (** ---- built-in plugins ------------------------------------------------------------------------ *)

  (** [with_ping] *)
  Definition ping_plugin : plugin := fun args s => (pr_ok (utf8_encode (ping_data args)), s).

  (** [{arg:?}] for a string without control or non-printable characters: quotes, with the double
      quote and the backslash escaped (the single quote is not escaped in [str]'s Debug). *)
  Definition debug_str (s : str) : str := [c_dquote] ++ flat_map encode_char s ++ [c_dquote].

  (** [with_shutdown], with [shutdown_effect] standing for [Manager::shutdown] and the wait for
      the pre-shutdown phase. *)
  Variable shutdown_effect : bool -> S -> S.
  Definition shutdown_plugin : plugin := fun args s =>
    let done no_wait rest :=
      match rest with
      | _ :: _ => (pr_error (B "unexpected argument"), s)
      | [] => (pr_closing (pr_ok (B "'Successfully completed a graceful shutdown.'")), shutdown_effect no_wait s)
      end in
    match args with
    | [] => done false []
    | arg :: rest =>
        if beq arg (B "no-wait") then done true rest
        else (pr_error (B "unexpected argument: " ++ utf8_encode (debug_str arg)), s)
    end.

  (** [with_clear] on an instance without ports (no host collection is consulted: [found] and
      [cleared] stay false); [uri_ok] stands for [Uri::builder().path_and_query(..).build().is_ok()]. *)
  Variable uri_ok : str -> bool.
  Definition clear_plugin : plugin := fun args s =>
    let finish (msg : bytes) (rest : list str) :=
      match rest with
      | _ :: _ => (pr_error (B "unexpected argument"), s)
      | [] => (pr_ok msg, s)
      end in
    let with_host (all one : bytes) (rest : list str) :=
      match rest with
      | host :: rest' => finish (one ++ utf8_encode host) rest'
      | [] => finish all []
      end in
    match args with
    | [] => (pr_error (B "you must specify what to clear"), s)
    | m :: rest =>
        if beq m (B "all") then with_host (B "cleared all caches") (B "cleared the caches on ") rest
        else if beq m (B "files") then with_host (B "cleared all file caches") (B "cleared the file cache on ") rest
        else if beq m (B "responses") then
          with_host (B "cleared all response caches") (B "cleared the response cache on ") rest
        else if beq m (B "file") then
          match rest with
          | [] => (pr_error (B "please supply the host you want to clear the response from"), s)
          | [_] => (pr_error (B "please supply response you want to clear after the host"), s)
          | _ :: _ :: _ =>
              (pr_error (B "didn't find the target host. Use \'default\' for the default host"), s)
          end
        else if beq m (B "response") then
          match rest with
          | [] => (pr_error (B "please supply the host you want to clear the response from"), s)
          | [_] => (pr_error (B "please supply response you want to clear after the host"), s)
          | _ :: response :: _ =>
              if uri_ok response
              then (pr_error (B "didn't find the target host. Use 'default' for the default host"), s)
              else (pr_error (B "failed to format target response"), s)
          end
        else (pr_error (B "clear method invalid"), s)
    end.
End Handler.

Arguments lookup_plugin {S}.
Arguments handle {S}.
Arguments serve {S}.
Arguments run {S}.
Arguments ping_plugin {S}.
Arguments shutdown_plugin {S}.
Arguments clear_plugin {S}.
Arguments request_name toks : simpl never.

(** kvarnctl's reading of a reply ([request] in ctl/src/main.rs): the first token decides between
    success and error, the remaining tokens are printed joined by one space. *)
Definition client_reply_tokens (reply : bytes) : option (list str) :=
  option_map quoted_str_split (utf8_decode reply).

(** ---- the fixture of the correspondence run ------------------------------------------------------------ *)

(** State of the harness plugins: a counter (for the history-dependent plugin [t-count]) and
    whether [Manager::shutdown] ran. *)
Record fx_state := { fx_count : N; fx_shutdown : bool }.
Definition fx_init : fx_state := {| fx_count := 0; fx_shutdown := false |}.

Definition unit_sep : N := 31.
(** name and arguments as the plugin received them, each followed by U+001F *)
Definition fx_args_data (name : str) (args : list str) : bytes :=
  utf8_encode (flat_map (fun a => a ++ [unit_sep]) (name :: args)).

(** path-and-query strings that the generator uses for [clear response]: http accepts them all *)
Definition fx_uri_char (c : N) : bool :=
  ((97 <=? c) && (c <=? 122)) || ((48 <=? c) && (c <=? 57)) || (c =? 47) || (c =? 46) || (c =? 45) || (c =? 95).
Definition fx_uri_ok (s : str) : bool :=
  match s with c :: _ => (c =? 47) && forallb fx_uri_char s | [] => false end.

Definition fx_plugins : plugins fx_state :=
  [ (B "t-args", fun args s => (pr_ok (fx_args_data (B "t-args") args), s));
    (B "t-fail", fun args s => (pr_error (fx_args_data (B "t-fail") args), s));
    (B "t-ok-empty", fun _ s => (pr_ok_empty, s));
    (B "t-fail-empty", fun _ s => (pr_error_empty, s));
    (B "t-close", fun _ s => (pr_closing (pr_ok (B "closing")), s));
    (B "t-fail-close", fun _ s => (pr_closing pr_error_empty, s));
    (B "t-bin", fun _ s => (pr_ok [255; 0; 32; 254], s));
    (B "t-count", fun _ s => (pr_ok (dec (fx_count s)), {| fx_count := fx_count s + 1; fx_shutdown := fx_shutdown s |}));
    ([], fun args s => (pr_ok (fx_args_data [] args), s));
    (* overridden by the harness so that no test can re-execute the binary or block *)
    (B "reload", fun _ s => (pr_ok_empty, s));
    (B "wait", fun _ s => (pr_ok_empty, s));
    (* the defaults of [Plugins::new] *)
    (B "shutdown", shutdown_plugin (fun _ s => {| fx_count := fx_count s; fx_shutdown := true |}));
    (B "ping", ping_plugin);
    (B "clear", clear_plugin fx_uri_ok) ].

(** ---- xval interface -------------------------------------------------------------------------------- *)
Definition x_reply (r : reply) : xval :=
  match r with Data b => XL [XN 0; XB b] | NoAnswer => XL [XN 1] end.

(** ctl.session : list of requests (bytes) -> list of replies *)
Definition run_session (x : xval) : xval :=
  match d_list d_B x with
  | Some reqs => x_list x_reply (snd (run fx_plugins (Listening, fx_init) reqs))
  | None => bad_input
  end.

(** ctl.utf8 : bytes -> option (list of code points) *)
Definition run_utf8 (x : xval) : xval :=
  match x with
  | XB b => x_option x_str (utf8_decode b)
  | _ => bad_input
  end.
(** ctl.utf8enc : list of code points -> bytes *)
Definition run_utf8_encode (x : xval) : xval :=
  match d_str x with
  | Some s => XB (utf8_encode s)
  | None => bad_input
  end.

Definition ctl_table : list (bytes * (xval -> xval)) :=
  [ (B "ctl.session", run_session);
    (B "ctl.utf8", run_utf8);
    (B "ctl.utf8enc", run_utf8_encode) ].
